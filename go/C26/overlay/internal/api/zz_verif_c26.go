//go:build verif

package api

import (
	"strings"

	"github.com/VKCOM/statshouse/internal/data_model"
	"github.com/VKCOM/statshouse/internal/format"
	"github.com/VKCOM/statshouse/internal/mappings_tracker"
	"github.com/VKCOM/statshouse/internal/metajournal"
)

// VerifQuery is the part of queryBuilder the where-clause depends on. Thin accessor only: every function
// below fills the repo's own queryBuilder and calls the repo's own (unexported) writers.
type VerifQuery struct {
	Metric      *format.MetricMetaValue
	By          []int
	FilterIn    data_model.TagFilters
	FilterNotIn data_model.TagFilters
	Mode        int // 0 buildSeriesQuery, 1 buildTagValuesQuery, 2 buildTagValueIDsQuery
	Tag         format.MetricMetaTag
	NumResults  int
	What        []int // data_model.DigestWhat per slot; nil = one DigestCount
	MinMaxHost  [2]bool
	Sort        int // 0 sortNone, 1 sortAscending, 2 sortDescending
	UtcOffset   int64
}

func (v *VerifQuery) builder() *queryBuilder {
	b := &queryBuilder{
		metric:      v.Metric,
		by:          v.By,
		filterIn:    v.FilterIn,
		filterNotIn: v.FilterNotIn,
		tag:         v.Tag,
		numResults:  v.NumResults,
		user:        "verif",
		minMaxHost:  v.MinMaxHost,
		sort:        querySort(v.Sort),
		utcOffset:   v.UtcOffset,
	}
	if v.What == nil {
		b.what[0] = data_model.DigestSelector{What: data_model.DigestCount}
	}
	for i, w := range v.What {
		if i < len(b.what) {
			b.what[i] = data_model.DigestSelector{What: data_model.DigestWhat(w)}
		}
	}
	return b
}

// VerifWhere returns exactly what queryBuilder.writeWhere appends.
func VerifWhere(v *VerifQuery, lod data_model.LOD) string {
	var sb strings.Builder
	v.builder().writeWhere(&sb, &lod, queryBuilderMode(v.Mode))
	return sb.String()
}

// VerifWhereIntExpr returns the integer column expression the where-clause uses for tag tagX.
func VerifWhereIntExpr(v *VerifQuery, lod data_model.LOD, tagX int) (string, error) {
	return v.builder().whereIntExpr(tagX, &lod, queryBuilderMode(v.Mode))
}

// VerifColStr returns the string column name of tag tagX.
func VerifColStr(v *VerifQuery, tagX int) string { return v.builder().colStr(tagX) }

// VerifBody returns the complete query text of the builder selected by v.Mode.
func VerifBody(v *VerifQuery, lod data_model.LOD, settings string) (string, error) {
	b := v.builder()
	switch queryBuilderMode(v.Mode) {
	case buildSeriesQuery:
		q, err := b.buildSeriesQuery(lod, settings)
		if err != nil {
			return "", err
		}
		return q.body, nil
	case buildTagValuesQuery:
		return b.buildTagValuesQuery(lod, settings).body, nil
	default:
		return b.buildTagValueIDsQuery(lod, settings).body, nil
	}
}

// VerifGetTagFilter calls the repo's requestHandler.GetTagFilter (user filter string -> data_model.TagValue) on a handler whose
// only populated parts are the string->id mappings and a fresh mappings tracker.
func VerifGetTagFilter(ms *metajournal.MappingsStorage, metric *format.MetricMetaValue, tagIndex int, tagValue string) (data_model.TagValue, error) {
	h := &requestHandler{Handler: &Handler{mappingsStorage: ms, mappingsTracker: mappings_tracker.New()}}
	return h.GetTagFilter(metric, tagIndex, tagValue)
}

// VerifColInt returns the integer column name colInt gives to tag tagX.
func VerifColInt(v *VerifQuery, lod data_model.LOD, tagX int) string { return v.builder().colInt(tagX, &lod) }

// VerifSelectIntExpr returns the select-list expression of tag tagX (selectIntExpr).
func VerifSelectIntExpr(v *VerifQuery, lod data_model.LOD, tagX int) (string, bool) {
	return v.builder().selectIntExpr(tagX, &lod)
}
