//go:build verif

package metajournal

// VerifMappings returns an in-memory MappingsStorage (one shard) holding exactly the given string -> id mappings.
// Thin constructor only: lookups go through the repo's own GetValue.
func VerifMappings(m map[string]int32) *MappingsStorage {
	return &MappingsStorage{shards: []*mappingShard{{mappings: m}}}
}
