//go:build verif

// verif-c11: correspondence + direct oracle for tag value normalisation and raw tag parsing (DESIGN §6 C11).
//
//	even cases: 24 `norm <dst> <src>` ops (AppendValidStringValue / ForceValidStringValueBytes / ForceValidStringValue /
//	            ValidStringValue(Bytes) on the same bytes); odd cases: 40 `raw <bytes>` ops (both raw parsers)
//	lengths:    the property quantifies over ALL byte strings, so no input length is special: besides the short
//	            structured classes every class of material (whitespace, zeros, malformed UTF-8, multi-byte runes,
//	            non-printables, plain text) also comes as runs whose length is drawn log-uniformly from 1..8192 bytes
//	            (thorough: one in 16 from 1..65536), placed before / between / after ordinary content
//	-mode=gen   prints lean/SH/Gen/C11.lean: MaxStringLen as compiled + unicode.IsSpace / unicode.IsPrint of the
//	            toolchain in use, as maximal runs over 0..0x10FFFF
package main

import (
	"bytes"
	"fmt"
	"math/big"
	"math/bits"
	"strings"
	"unicode"
	"unicode/utf8"
	"unsafe"

	"github.com/VKCOM/statshouse/internal/format"
	"github.com/VKCOM/statshouse/internal/verifx"
)

var h *verifx.H

// ------------------------------------------------------------------------------------------------ normalisation

var (
	uniSpaces   = []rune{0x85, 0xA0, 0x1680, 0x2000, 0x2003, 0x200A, 0x2028, 0x2029, 0x202F, 0x205F, 0x3000}
	asciiSpaces = []byte{' ', ' ', ' ', '\t', '\n', '\v', '\f', '\r'}
	nonPrint    = []rune{0x00, 0x01, 0x1F, 0x7F, 0x80, 0x9F, 0xAD, 0x200B, 0x200E, 0x2060, 0xFEFF, 0xE000, 0xF8FF, 0xFFFE, 0xFFFF,
		0x0378, 0x1FFFE, 0xE0001, 0xF0000, 0x10FFFF, 0x061C}
	printable = []rune{'a', 'Z', '0', '~', '!', 0xE9, 0x416, 0x44F, 0x3A9, 0x5D0, 0x4E2D, 0x6587, 0x20AC, 0x2713, 0xFFFD, 0x1F600, 0x1F4A9,
		0x10348, 0x7FF, 0x800, 0xFFFC, 0x10000, 0xD7FF}
	badSeqs = [][]byte{{0x80}, {0xBF}, {0xC0, 0x80}, {0xC1, 0xBF}, {0xC2}, {0xC2, 0x20}, {0xE0, 0x80, 0x80}, {0xE0, 0x9F, 0xBF}, {0xE0, 0xA0},
		{0xED, 0xA0, 0x80}, {0xED, 0xBF, 0xBF}, {0xE2, 0x82}, {0xE2, 0x28, 0xA1}, {0xF0, 0x80, 0x80, 0x80}, {0xF0, 0x8F, 0xBF, 0xBF},
		{0xF0, 0x9F, 0x98}, {0xF4, 0x90, 0x80, 0x80}, {0xF5, 0x80, 0x80, 0x80}, {0xFF}, {0xFE}, {0xF8, 0x88, 0x80, 0x80, 0x80},
		{0xF0, 0x9F}, {0xF1}, {0xEF, 0xBF}, {0xE4, 0xB8, 0x41}}
)

func word(r *verifx.Rng, b []byte, n int) []byte {
	for i := 0; i < n; i++ {
		switch r.Pick(12, 4, 1) {
		case 0:
			b = append(b, byte(r.Range(0x21, 0x7e)))
		case 1:
			b = utf8.AppendRune(b, printable[r.Intn(len(printable))])
		default:
			b = utf8.AppendRune(b, rune(r.Range(0x80, 0x2FFF)))
		}
	}
	return b
}

// ---- length-adversarial material (shared by both halves)

// logLen draws a length log-uniformly from 1..max: every power-of-two bucket [2^b, 2^(b+1)) is equally likely
func logLen(r *verifx.Rng, max int) int {
	b := r.Intn(bits.Len(uint(max)))
	lo := 1 << b
	hi := 2*lo - 1
	if hi > max {
		hi = max
	}
	return r.Range(lo, hi)
}

// maxRun: several KB in every tier, a few runs of up to 64 KB in the thorough tier
func maxRun(r *verifx.Rng) int {
	if h.Tier == "thorough" && r.Chance(1, 16) {
		return 65536
	}
	return 8192
}

func lenBucket(n int) string { return fmt.Sprintf("2^%02d", bits.Len(uint(n))) }

// x renders bytes for oracle messages: in full when short, head … tail otherwise (the `>` line of the case has them all)
func x(b []byte) string {
	if len(b) <= 160 {
		return verifx.Hex(b)
	}
	return fmt.Sprintf("%x…(%d bytes)…%x", b[:48], len(b), b[len(b)-48:])
}

var longKinds = []string{"ws-space", "ws-ascii", "ws-unicode", "ws-mixed", "bad", "multibyte", "nonprint", "ascii"}

func isWsKind(k string) bool { return strings.HasPrefix(k, "ws-") }

// appendRun appends whole elements of one kind of material until about n bytes are added (at least one element);
// one time in three the run repeats a single element
func appendRun(r *verifx.Rng, b []byte, kind string, n int) []byte {
	end := len(b) + n
	same := r.Chance(1, 3)
	var tmp [8]byte
	var e []byte
	for len(b) < end {
		if !same || e == nil {
			switch kind {
			case "ws-space":
				e = append(tmp[:0], ' ')
			case "ws-ascii":
				e = append(tmp[:0], asciiSpaces[r.Intn(len(asciiSpaces))])
			case "ws-unicode":
				e = utf8.AppendRune(tmp[:0], uniSpaces[r.Intn(len(uniSpaces))])
			case "ws-mixed":
				if r.Bool() {
					e = append(tmp[:0], asciiSpaces[r.Intn(len(asciiSpaces))])
				} else {
					e = utf8.AppendRune(tmp[:0], uniSpaces[r.Intn(len(uniSpaces))])
				}
			case "bad":
				if r.Chance(3, 5) {
					e = append(tmp[:0], badSeqs[r.Intn(len(badSeqs))]...)
				} else {
					e = append(tmp[:0], byte(r.Range(0x80, 0xFF)))
				}
			case "multibyte":
				if r.Chance(2, 3) {
					e = utf8.AppendRune(tmp[:0], printable[5+r.Intn(len(printable)-5)])
				} else {
					e = utf8.AppendRune(tmp[:0], rune(r.Range(0x80, 0x2FFF)))
				}
			case "nonprint":
				e = utf8.AppendRune(tmp[:0], nonPrint[r.Intn(len(nonPrint))])
			default:
				e = append(tmp[:0], byte(r.Range(0x21, 0x7e)))
			}
		}
		b = append(b, e...)
	}
	return b
}

// genLong: [content] run [content] [run [content]] with run lengths from logLen. alt (nil when there is no
// whitespace run) is the same input with every whitespace run replaced by ONE ASCII space: normalisation drops
// leading whitespace and collapses runs, so both must be forced into the same value however long the runs are.
func genLong(r *verifx.Rng) (src []byte, kind string, alt []byte) {
	content := func(p, q int) []byte {
		if !r.Chance(p, q) {
			return nil
		}
		c, _ := genBase(r)
		return c
	}
	c0 := content(1, 2)
	src = append(src, c0...)
	alt = append(alt, c0...)
	ws := false
	for i, n := 0, r.Range(1, 2); i < n; i++ {
		k := longKinds[r.Intn(len(longKinds))]
		if i == 0 {
			kind = "long-" + k
			if len(c0) == 0 && isWsKind(k) {
				h.Stat("norm.long.leadingWhitespaceRun", 1)
			}
		}
		at := len(src)
		src = appendRun(r, src, k, logLen(r, maxRun(r)))
		if isWsKind(k) {
			ws = true
			alt = append(alt, ' ')
		} else {
			alt = append(alt, src[at:]...)
		}
		c := content(3, 4)
		src = append(src, c...)
		alt = append(alt, c...)
	}
	if !ws {
		alt = nil
	}
	return src, kind, alt
}

// genNorm returns the source bytes, a tag describing the generator used and, for inputs with long whitespace runs,
// the equivalent input with single spaces (see genLong)
func genNorm(r *verifx.Rng) ([]byte, string, []byte) {
	if r.Chance(1, 14) {
		return genLong(r)
	}
	b, kind := genBase(r)
	return b, kind, nil
}

// genBase: the short structured classes
func genBase(r *verifx.Rng) ([]byte, string) {
	var b []byte
	switch r.Pick(3, 3, 4, 4, 4, 2, 2, 2, 3) {
	case 0: // clean ASCII words, single spaces: fast path
		nw := r.Range(1, 6)
		for i := 0; i < nw; i++ {
			if i > 0 {
				b = append(b, ' ')
			}
			for k := r.Range(1, 8); k > 0; k-- {
				b = append(b, byte(r.Range(0x21, 0x7e)))
			}
		}
		return b, "ascii-clean"
	case 1: // clean words with multi-byte runes: valid, slow path
		nw := r.Range(1, 5)
		for i := 0; i < nw; i++ {
			if i > 0 {
				b = append(b, ' ')
			}
			b = word(r, b, r.Range(1, 6))
		}
		return b, "utf8-clean"
	case 2: // messy spacing
		n := r.Range(0, 12)
		for i := 0; i < n; i++ {
			switch r.Pick(5, 3, 2, 1) {
			case 0:
				b = word(r, b, r.Range(1, 4))
			case 1:
				for k := r.Range(1, 3); k > 0; k-- {
					b = append(b, asciiSpaces[r.Intn(len(asciiSpaces))])
				}
			case 2:
				b = utf8.AppendRune(b, uniSpaces[r.Intn(len(uniSpaces))])
			default:
				b = utf8.AppendRune(b, nonPrint[r.Intn(len(nonPrint))])
			}
		}
		return b, "spaces"
	case 3: // invalid UTF-8 mixed in
		n := r.Range(1, 10)
		for i := 0; i < n; i++ {
			switch r.Pick(4, 4, 1, 1) {
			case 0:
				b = word(r, b, r.Range(1, 3))
			case 1:
				b = append(b, badSeqs[r.Intn(len(badSeqs))]...)
			case 2:
				b = append(b, ' ')
			default:
				b = append(b, byte(r.Range(0x80, 0xFF)))
			}
		}
		return b, "bad-utf8"
	case 4: // length boundary: 120..140 bytes, rune boundaries and spaces around 128
		target := r.Range(118, 142)
		for len(b) < target {
			switch r.Pick(6, 3, 2, 1, 1) {
			case 0:
				b = append(b, byte(r.Range(0x21, 0x7e)))
			case 1:
				b = utf8.AppendRune(b, printable[r.Intn(len(printable))])
			case 2:
				if len(b) > 0 {
					b = append(b, ' ')
				}
			case 3:
				b = utf8.AppendRune(b, uniSpaces[r.Intn(len(uniSpaces))])
			default:
				b = utf8.AppendRune(b, nonPrint[r.Intn(len(nonPrint))])
			}
		}
		if r.Chance(1, 3) { // something after the cut, possibly invalid
			b = append(b, badSeqs[r.Intn(len(badSeqs))]...)
		}
		if r.Chance(1, 4) && len(b) > 130 {
			b[127+r.Intn(3)] = ' '
		}
		return b, "len-boundary"
	case 5: // random bytes
		return r.Bytes(r.Range(0, 40)), "random"
	case 8: // a VALID value with multi-byte runes whose length is exactly 125..131 bytes (identity / cut exactly at the limit)
		target := format.MaxStringLen - 3 + r.Intn(7)
		b = utf8.AppendRune(b, printable[4+r.Intn(len(printable)-4)])
		for len(b) < target-5 {
			if r.Chance(1, 6) && b[len(b)-1] != ' ' {
				b = append(b, ' ')
			} else {
				b = word(r, b, 1)
			}
		}
		if b[len(b)-1] == ' ' {
			b = append(b, 'x')
		}
		for len(b) < target {
			b = append(b, byte(r.Range(0x21, 0x7e)))
		}
		return b, "valid-at-limit"
	case 6: // only spaces / tiny inputs
		n := r.Range(0, 4)
		for i := 0; i < n; i++ {
			if r.Bool() {
				b = append(b, asciiSpaces[r.Intn(len(asciiSpaces))])
			} else {
				b = utf8.AppendRune(b, uniSpaces[r.Intn(len(uniSpaces))])
			}
		}
		if r.Chance(1, 3) {
			b = word(r, b, 1)
		}
		return b, "tiny"
	default: // a valid value with one byte damaged
		nw := r.Range(1, 4)
		for i := 0; i < nw; i++ {
			if i > 0 {
				b = append(b, ' ')
			}
			b = word(r, b, r.Range(1, 6))
		}
		if len(b) > 0 {
			b[r.Intn(len(b))] = byte(r.U64())
		}
		return b, "mutated"
	}
}

// specValid: the property's definition of a valid value, written against the standard library only
func specValid(b []byte) bool {
	if len(b) > format.MaxStringLen || !utf8.Valid(b) {
		return false
	}
	prevSpace := true // no leading space
	for _, c := range string(b) {
		if unicode.IsSpace(c) {
			if c != ' ' || prevSpace {
				return false
			}
			prevSpace = true
			continue
		}
		if !unicode.IsPrint(c) {
			return false
		}
		prevSpace = false
	}
	return len(b) == 0 || !prevSpace // no trailing space
}

func clone(b []byte) []byte { return append(make([]byte, 0, len(b)+8), b...) }

func doNorm(r *verifx.Rng) bool {
	src, kind, alt := genNorm(r)
	var dst []byte
	if r.Chance(1, 4) {
		dst = []byte("pre ")[:r.Range(1, 4)]
	}
	st, err := format.AppendValidStringValue(clone(dst), clone(src))
	fb := format.ForceValidStringValueBytes(clone(src))
	fs := format.ForceValidStringValue(string(src))
	v := format.ValidStringValueBytes(src)
	v2 := format.ValidStringValue(string(src))
	sts := "err"
	if err == nil {
		sts = verifx.Hex(st)
	}
	h.Op("norm %s %s", verifx.Hex(dst), verifx.Hex(src))
	h.Obs("st=%s fb=%s fs=%s v=%d%d", sts, verifx.Hex(fb), verifx.Hex([]byte(fs)), b2i(v), b2i(v2))
	h.Stat("norm.kind."+kind, 1)
	h.Stat("norm.len."+lenBucket(len(src)), 1)
	doInPlace(r, src, fb)
	slow := !(len(src) == 0 || (v && isASCII(src)))
	if slow {
		h.Stat("norm.slowPath", 1)
	}
	if len(src) > format.MaxStringLen {
		h.Stat("norm.longerThanMax", 1)
	}
	if err != nil {
		h.Stat("norm.strictError", 1)
	}
	if v {
		h.Stat("norm.alreadyValid", 1)
	}
	if len(fb) >= format.MaxStringLen-3 {
		h.Stat("norm.outputNearMax", 1)
	}
	// ---- direct oracle (standard library only, no model)
	if !specValid(fb) {
		h.Viol("force-output-invalid", "ForceValidStringValueBytes(%s) = %x is not a valid tag value", x(src), fb)
	}
	if !format.ValidStringValueBytes(fb) {
		h.Viol("force-output-rejected", "ValidStringValueBytes(ForceValidStringValueBytes(%s) = %x) is false", x(src), fb)
	}
	if v != specValid(src) || v2 != v {
		h.Viol("valid-disagrees-with-spec", "ValidStringValue(%s) = %v/%v, definition says %v", x(src), v, v2, specValid(src))
	}
	if specValid(src) && !bytes.Equal(fb, src) {
		h.Viol("force-changes-valid", "valid %x forced into %x", src, fb)
	}
	if again := format.ForceValidStringValueBytes(clone(fb)); !bytes.Equal(again, fb) {
		h.Viol("force-not-idempotent", "%s -> %x -> %x", x(src), fb, again)
	}
	if fs != string(fb) {
		h.Viol("force-string-differs", "ForceValidStringValue(%s) = %x, Bytes version %x", x(src), fs, fb)
	}
	if err != nil && utf8.Valid(src) {
		h.Viol("strict-fails-on-valid-utf8", "AppendValidStringValue(%s) failed: %v", x(src), err)
	}
	if err == nil && !bytes.Equal(st, append(clone(dst), fb...)) {
		h.Viol("strict-differs-from-force", "AppendValidStringValue(%x, %s) = %x, forced %x", dst, x(src), st, fb)
	}
	if alt != nil { // whitespace runs of any length: dropped in front, one space elsewhere
		h.Stat("norm.long.whitespaceRunChecked", 1)
		if fbAlt := format.ForceValidStringValueBytes(clone(alt)); !bytes.Equal(fb, fbAlt) {
			h.Viol("force-whitespace-run-length", "ForceValidStringValueBytes(%s) = %x, with single spaces instead of the runs (%s) %x",
				x(src), fb, x(alt), fbAlt)
		}
		if fsAlt := format.ForceValidStringValue(string(alt)); fs != fsAlt {
			h.Viol("force-whitespace-run-length", "ForceValidStringValue(%s) = %x, with single spaces instead of the runs (%s) %x",
				x(src), fs, x(alt), fsAlt)
		}
	}
	return slow || len(src) >= format.MaxStringLen-2 && len(src) <= format.MaxStringLen+2
}

// in-place call on a slice with a chosen capacity: the returned value, the caller's backing array afterwards and
// whether the result still aliases it (ForceValidStringValueBytes passes dst = b[:0], src = b)
func doInPlace(r *verifx.Rng, src []byte, want []byte) {
	extra := []int{0, 0, 1, 2, 3, 8}[r.Intn(6)]
	full := make([]byte, len(src)+extra)
	for i := range full {
		full[i] = 0xAA
	}
	copy(full, src)
	b := full[:len(src):len(full)]
	res := format.ForceValidStringValueBytes(b)
	alias := unsafe.SliceData(res) == unsafe.SliceData(full)
	// the array-level model re-reads the shared array at every step (quadratic): replayed on it for every input up to
	// 1 KB and a sample of those up to 4 KB; the oracle below judges the real in-place call for every length
	if len(full) <= 1024 || len(full) <= 4096 && r.Chance(1, 8) {
		h.Op("ip %d %s", len(full), verifx.Hex(src))
		h.Obs("ip=%s mem=%s alias=%d", verifx.Hex(res), verifx.Hex(full), b2i(alias))
	} else {
		h.Stat("inplace.oracleOnlyLongInput", 1)
	}
	if len(res) > len(src) {
		h.Stat("inplace.outputLongerThanInput", 1)
	}
	if !alias {
		h.Stat("inplace.reallocated", 1)
	}
	if !bytes.Equal(res, want) {
		h.Viol("inplace-differs", "ForceValidStringValueBytes on cap %d gives %x, on a roomy copy %x (input %s)", len(full), res, want, x(src))
	}
	if st, err := format.AppendValidStringValue(nil, src); err == nil && !bytes.Equal(res, st) {
		h.Viol("inplace-differs-from-strict", "in place %x, AppendValidStringValue(nil, %s) = %x", res, x(src), st)
	}
}

func isASCII(b []byte) bool {
	for _, c := range b {
		if c >= 0x80 {
			return false
		}
	}
	return true
}

func b2i(b bool) int {
	if b {
		return 1
	}
	return 0
}

// ------------------------------------------------------------------------------------------------ raw tags

var rawEdges = []string{"-2147483649", "-2147483648", "-2147483647", "-1", "0", "1", "2147483647", "2147483648", "4294967294",
	"4294967295", "4294967296", "4294967297", "-9223372036854775809", "-9223372036854775808", "-9223372036854775807",
	"9223372036854775807", "9223372036854775808", "18446744073709551615", "18446744073709551616", "18446744073709551617",
	"-18446744073709551615", "99999999999999999999999999", "-99999999999999999999999999", "-4294967295", "-4294967296"}

// genRaw returns the spelling, the generator class and, for spellings with a long run of leading zeros, the same
// number without the run (alt, "" when there is none): zeros in front of the digits never change a decimal integer
func genRaw(r *verifx.Rng) (string, string, string) {
	if r.Chance(1, 40) {
		return genRawLong(r)
	}
	s, kind := genRawBase(r)
	return s, kind, ""
}

func rawNum(r *verifx.Rng) *big.Int {
	switch r.Pick(5, 3, 2, 2) {
	case 0:
		v, _ := new(big.Int).SetString(rawEdges[r.Intn(len(rawEdges))], 10)
		return v.Add(v, big.NewInt(int64(r.Range(-2, 2))))
	case 1:
		return big.NewInt(int64(int32(r.U64())))
	case 2:
		return new(big.Int).SetUint64(r.U64())
	default:
		return big.NewInt(int64(r.U64()))
	}
}

// genRawLong: spellings of any length (log-uniform, see logLen). A decimal integer stays in range however long its
// spelling is only through leading zeros; everything else that is long must be rejected.
func genRawLong(r *verifx.Rng) (string, string, string) {
	n := logLen(r, maxRun(r))
	sign := []string{"", "", "", "-", "-", "-", "+"}[r.Intn(7)]
	switch r.Pick(6, 2, 2, 2) {
	case 0: // a number near a boundary / random, behind a run of zeros
		v := rawNum(r)
		d := v.Abs(v).String()
		return sign + strings.Repeat("0", n) + d, "long-zeros", sign + d
	case 1: // nothing but zeros
		return sign + strings.Repeat("0", n), "long-zeros", sign + "0"
	case 2: // long digit strings: out of range unless they start with enough zeros
		b := make([]byte, n)
		for i := range b {
			b[i] = byte('0' + r.Intn(10))
		}
		return sign + string(b), "long-digits", ""
	default: // a long spelling with one foreign byte somewhere
		b := []byte(strings.Repeat("0", n) + rawNum(r).String())
		foreign := []byte{'-', '+', ' ', '_', 'x', '.', 'e', 0, '\n', '/', ':', 0xD9}
		b[r.Intn(len(b))] = foreign[r.Intn(len(foreign))]
		return sign + string(b), "long-malformed", ""
	}
}

func genRawBase(r *verifx.Rng) (string, string) {
	num := func() *big.Int { return rawNum(r) }
	switch r.Pick(8, 3, 3, 2, 3, 1) {
	case 0:
		return num().String(), "plain"
	case 1: // explicit plus sign
		v := num()
		return "+" + v.Abs(v).String(), "plus"
	case 2: // leading zeros, -0
		v := num()
		s := v.Abs(v).String()
		s = strings.Repeat("0", r.Range(1, 25)) + s
		if r.Chance(1, 3) {
			s = "0"
			if r.Bool() {
				s = strings.Repeat("0", r.Range(1, 4))
			}
		}
		switch r.Pick(2, 2, 1) {
		case 0:
			return s, "zeros"
		case 1:
			return "-" + s, "zeros"
		default:
			return "+" + s, "zeros"
		}
	case 3:
		return rawEdges[r.Intn(len(rawEdges))], "edge"
	case 4: // malformed
		bad := []string{"", "+", "-", "--1", "+-1", "-+1", " 1", "1 ", "1_000", "0x10", "1e3", "1.0", "١٢٣", "12a", "a12", "-", "+ 1", "\x001", "1\n",
			"0b1", "0o7", "1__2", "-_1", "٣", "－1", "+"}
		s := bad[r.Intn(len(bad))]
		if r.Chance(1, 3) {
			v := num().String()
			k := r.Intn(len(v) + 1)
			s = v[:k] + string([]byte{byte(r.U64())}) + v[k:]
		}
		return s, "malformed"
	default:
		return string(r.Bytes(r.Range(0, 6))), "random"
	}
}

var (
	min32  = big.NewInt(-1 << 31)
	max32  = big.NewInt(1<<32 - 1)
	min64  = new(big.Int).Neg(new(big.Int).Lsh(big.NewInt(1), 63))
	max64  = new(big.Int).Sub(new(big.Int).Lsh(big.NewInt(1), 64), big.NewInt(1))
	two32  = new(big.Int).Lsh(big.NewInt(1), 32)
	two64  = new(big.Int).Lsh(big.NewInt(1), 64)
	mask32 = big.NewInt(1<<32 - 1)
)

// decimal: ^[+-]?[0-9]+$ and its value
func decimal(s string) (v *big.Int, sign byte, ok bool) {
	d := s
	if len(d) > 0 && (d[0] == '+' || d[0] == '-') {
		sign = d[0]
		d = d[1:]
	}
	if len(d) == 0 {
		return nil, 0, false
	}
	for i := 0; i < len(d); i++ {
		if d[i] < '0' || d[i] > '9' {
			return nil, 0, false
		}
	}
	v, _ = new(big.Int).SetString(d, 10)
	if sign == '-' {
		v.Neg(v)
	}
	return v, sign, true
}

// q renders a spelling for oracle messages (in full when short)
func q(s string) string {
	if len(s) <= 160 {
		return fmt.Sprintf("%q", s)
	}
	return fmt.Sprintf("%q…(%d bytes)…%q", s[:48], len(s), s[len(s)-48:])
}

func doRaw(r *verifx.Rng) bool {
	s, kind, alt := genRaw(r)
	v32, ok32 := format.ContainsRawTagValueBytes([]byte(s))
	lo, hi, ok64 := format.ContainsRawTagValue64Bytes([]byte(s))
	h.Op("raw %s", verifx.Hex([]byte(s)))
	o32, o64 := "no", "no"
	if ok32 {
		o32 = fmt.Sprint(v32)
	}
	if ok64 {
		o64 = fmt.Sprintf("%d:%d", lo, hi)
	}
	h.Obs("r32=%s r64=%s", o32, o64)
	h.Stat("raw.kind."+kind, 1)
	h.Stat("raw.len."+lenBucket(len(s)), 1)
	if alt != "" { // leading zeros of any length are irrelevant: same answer as for the spelling without them
		h.Stat("raw.long.leadingZerosChecked", 1)
		a32, aok32 := format.ContainsRawTagValueBytes([]byte(alt))
		alo, ahi, aok64 := format.ContainsRawTagValue64Bytes([]byte(alt))
		if ok32 != aok32 || ok32 && v32 != a32 {
			h.Viol("raw32-leading-zeros", "ContainsRawTagValueBytes(%s) = %d,%v but %q (without the %d leading zeros) gives %d,%v",
				q(s), v32, ok32, alt, len(s)-len(alt), a32, aok32)
		}
		if ok64 != aok64 || ok64 && (lo != alo || hi != ahi) {
			h.Viol("raw64-leading-zeros", "ContainsRawTagValue64Bytes(%s) = %d:%d,%v but %q (without the %d leading zeros) gives %d:%d,%v",
				q(s), lo, hi, ok64, alt, len(s)-len(alt), alo, ahi, aok64)
		}
	}
	if ok32 {
		h.Stat("raw.accept32", 1)
	}
	if ok64 {
		h.Stat("raw.accept64", 1)
	}
	// ---- direct oracle with math/big
	v, sign, isDec := decimal(s)
	near := false
	want32 := isDec && v.Cmp(min32) >= 0 && v.Cmp(max32) <= 0
	if ok32 != want32 {
		h.Viol("raw32-accept-set", "ContainsRawTagValueBytes(%s) ok=%v, decimal in [-2^31, 2^32-1]: %v", q(s), ok32, want32)
	}
	if ok32 && isDec {
		pat := new(big.Int).And(new(big.Int).Add(v, two32), mask32) // v mod 2^32
		if uint64(uint32(v32)) != pat.Uint64() {
			h.Viol("raw32-bit-pattern", "ContainsRawTagValueBytes(%s) = %d, pattern %d expected", q(s), v32, pat)
		}
		// decodes back: negative numbers through the signed reading, numbers >= 0 through the unsigned reading
		if v.Sign() < 0 && int64(v32) != v.Int64() || v.Sign() >= 0 && uint64(uint32(v32)) != v.Uint64() {
			h.Viol("raw32-roundtrip", "%s stored as %d does not read back", q(s), v32)
		}
	}
	if isDec && sign != '+' { // ParseUint takes no '+': the 64-bit parser's treatment of an explicit plus is not judged
		want64 := v.Cmp(min64) >= 0 && v.Cmp(max64) <= 0
		if ok64 != want64 {
			h.Viol("raw64-accept-set", "ContainsRawTagValue64Bytes(%s) ok=%v, decimal in [-2^63, 2^64-1]: %v", q(s), ok64, want64)
		}
	}
	if !isDec && ok64 {
		h.Viol("raw64-accept-set", "ContainsRawTagValue64Bytes(%s) accepted a non-decimal", q(s))
	}
	if isDec && sign == '+' {
		h.Stat("raw.plusSign", 1)
		if ok64 {
			h.Stat("raw.plusSignAccepted64", 1)
		}
	}
	if ok64 && isDec {
		got := uint64(uint32(lo)) | uint64(uint32(hi))<<32
		pat := new(big.Int).Mod(new(big.Int).Add(v, two64), two64)
		if got != pat.Uint64() {
			h.Viol("raw64-bit-pattern", "ContainsRawTagValue64Bytes(%s) = %d:%d, pattern %d expected", q(s), lo, hi, pat)
		}
		if v.Sign() < 0 && int64(got) != v.Int64() || v.Sign() >= 0 && got != v.Uint64() {
			h.Viol("raw64-roundtrip", "%s stored as %d:%d does not read back", q(s), lo, hi)
		}
	}
	if isDec {
		for _, e := range []*big.Int{min32, max32, min64, max64, big.NewInt(1<<31 - 1), new(big.Int).Lsh(big.NewInt(1), 63)} {
			d := new(big.Int).Sub(v, e)
			if d.Abs(d).Cmp(big.NewInt(2)) <= 0 {
				near = true
			}
		}
	}
	if near {
		h.Stat("raw.nearBoundary", 1)
	}
	return near
}

// ------------------------------------------------------------------------------------------------ gen

func runs(f func(rune) bool) []string {
	var out []string
	start := -1
	for r := 0; r <= unicode.MaxRune+1; r++ {
		in := r <= unicode.MaxRune && f(rune(r))
		if in && start < 0 {
			start = r
		}
		if !in && start >= 0 {
			out = append(out, fmt.Sprintf("(%d, %d)", start, r-1))
			start = -1
		}
	}
	return out
}

func chunked(xs []string) string {
	var b strings.Builder
	for i, x := range xs {
		if i > 0 {
			b.WriteString(",")
			if i%8 == 0 {
				b.WriteString("\n  ")
			} else {
				b.WriteString(" ")
			}
		}
		b.WriteString(x)
	}
	return b.String()
}

func gen() {
	sp, pr := runs(unicode.IsSpace), runs(unicode.IsPrint)
	fmt.Printf(`/- GENERATED by verif-c11 -mode=gen on every run of bin/check C11 (unicode %s of the Go toolchain that compiles
   /repo; format.MaxStringLen as compiled). Do not edit. -/
import SH.Model.Norm

namespace SH.Gen.C11

/-- format.MaxStringLen -/
def maxStringLen : Nat := %d

/-- unicode.IsSpace as maximal inclusive runs (%d) -/
def spaceRanges : List (Nat × Nat) := [
  %s]

/-- unicode.IsPrint as maximal inclusive runs (%d) -/
def printRanges : List (Nat × Nat) := [
  %s]

def tables : SH.Norm.Tables :=
  { isSpace := fun r => SH.Norm.inRanges r spaceRanges, isPrint := fun r => SH.Norm.inRanges r printRanges }

end SH.Gen.C11
`, unicode.Version, format.MaxStringLen, len(sp), chunked(sp), len(pr), chunked(pr))
}

// ------------------------------------------------------------------------------------------------ main

func main() {
	h = verifx.New()
	if h.Mode == "gen" {
		gen()
		return
	}
	h.Cases(func(i int, r *verifx.Rng) {
		nt := 0
		if i%2 == 0 {
			for k := 0; k < 24; k++ {
				if doNorm(r) {
					nt++
				}
			}
			if nt > 0 {
				h.NonTrivial("norm-slow-or-boundary")
			}
		} else {
			for k := 0; k < 40; k++ {
				if doRaw(r) {
					nt++
				}
			}
			if nt > 0 {
				h.NonTrivial("raw-near-boundary")
			}
		}
	})
	h.Done()
}
