//go:build verif

// verif-c13: correspondence + direct oracle for the client wire formats (TL, JSON, MessagePack, Protobuf).
//
// The parent process generates batches and packets; a CHILD process (the same binary, -mode=child, address
// space limited with RLIMIT_AS) runs the REAL receiver.parser.parse on every packet, so that a fatal runtime
// error (out of memory, stack exhaustion) or a hang of the real decoder kills only the child, is attributed to
// the single packet in flight and is reported as an oracle violation with that packet as replay.
//
//	> enc <batch>      canonical client encodings of a batch        < tl=<hex> mp=<hex> pb=<hex>
//	> dec <hex>        parser.parse(packet) on the real code        < <fmt> ret=<err class> perr=<0|1> n=<k> <metrics>
//
// Within a case all packets are decoded into ONE reused AddMetricsBatchBytes (as the receivers do), so stale
// state leaking from one packet into the next shows up as a disagreement with the (stateless) model.
package main

import (
	"bufio"
	"bytes"
	"encoding/json"
	"errors"
	"fmt"
	"io"
	"log"
	"math"
	"net"
	"os"
	"os/exec"
	"runtime/metrics"
	"sort"
	"strconv"
	"strings"
	"sync"
	"syscall"
	"time"
	"unicode/utf8"

	"github.com/tinylib/msgp/msgp"
	"google.golang.org/protobuf/encoding/protowire"
	"google.golang.org/protobuf/proto"

	"github.com/VKCOM/statshouse/internal/data_model/gen2/tl"
	"github.com/VKCOM/statshouse/internal/data_model/gen2/tlstatshouse"
	"github.com/VKCOM/statshouse/internal/receiver"
	"github.com/VKCOM/statshouse/internal/receiver/pb"
	"github.com/VKCOM/statshouse/internal/verifx"
)

// ------------------------------------------------------------------ canonical metric text

type metric struct {
	Mask    uint32
	Name    []byte
	Tags    [][2][]byte
	Counter uint64 // float64 bits
	Ts      uint32
	Value   []uint64 // float64 bits
	Unique  []uint64 // int64 bits
	Hist    [][2]uint64
}

func u64s(xs []uint64) string {
	if len(xs) == 0 {
		return "-"
	}
	ss := make([]string, len(xs))
	for i, x := range xs {
		ss[i] = strconv.FormatUint(x, 10)
	}
	return strings.Join(ss, ",")
}

func (m *metric) text() string {
	var sb strings.Builder
	fmt.Fprintf(&sb, "%d|%s|", m.Mask, verifx.Hex(m.Name))
	if len(m.Tags) == 0 {
		sb.WriteString("-")
	}
	for i, t := range m.Tags {
		if i > 0 {
			sb.WriteString(",")
		}
		sb.WriteString(verifx.Hex(t[0]) + ":" + verifx.Hex(t[1]))
	}
	fmt.Fprintf(&sb, "|%d|%d|%s|%s|", m.Counter, m.Ts, u64s(m.Value), u64s(m.Unique))
	if len(m.Hist) == 0 {
		sb.WriteString("-")
	}
	for i, h := range m.Hist {
		if i > 0 {
			sb.WriteString(",")
		}
		fmt.Fprintf(&sb, "%d/%d", h[0], h[1])
	}
	return sb.String()
}

func batchText(ms []metric) string {
	if len(ms) == 0 {
		return "-"
	}
	ss := make([]string, len(ms))
	for i := range ms {
		ss[i] = ms[i].text()
	}
	return strings.Join(ss, ";")
}

// the semantic content the property talks about: (name, tags, counter, timestamp, values, uniques, histogram);
// the TL fields mask (which optional fields were transmitted) is not part of it
func (m *metric) sem() string {
	c := *m
	c.Mask = 0
	return c.text()
}

func semText(ms []metric) string {
	ss := make([]string, len(ms))
	for i := range ms {
		ss[i] = ms[i].sem()
	}
	return strings.Join(ss, ";")
}

func fromTL(m *tlstatshouse.MetricBytes) metric {
	r := metric{Mask: m.FieldsMask, Name: append([]byte(nil), m.Name...), Counter: math.Float64bits(m.Counter), Ts: m.Ts}
	for _, t := range m.Tags {
		r.Tags = append(r.Tags, [2][]byte{append([]byte(nil), t.Key...), append([]byte(nil), t.Value...)})
	}
	for _, v := range m.Value {
		r.Value = append(r.Value, math.Float64bits(v))
	}
	for _, v := range m.Unique {
		r.Unique = append(r.Unique, uint64(v))
	}
	for _, h := range m.Histogram {
		r.Hist = append(r.Hist, [2]uint64{math.Float64bits(h[0]), math.Float64bits(h[1])})
	}
	return r
}

func (m *metric) toTL() tlstatshouse.MetricBytes {
	r := tlstatshouse.MetricBytes{FieldsMask: m.Mask, Name: m.Name, Counter: math.Float64frombits(m.Counter), Ts: m.Ts}
	for _, t := range m.Tags {
		r.Tags = append(r.Tags, tl.DictFieldStringStringBytes{Key: t[0], Value: t[1]})
	}
	for _, v := range m.Value {
		r.Value = append(r.Value, math.Float64frombits(v))
	}
	for _, v := range m.Unique {
		r.Unique = append(r.Unique, int64(v))
	}
	for _, h := range m.Hist {
		r.Histogram = append(r.Histogram, [2]float64{math.Float64frombits(h[0]), math.Float64frombits(h[1])})
	}
	return r
}

// ------------------------------------------------------------------ child: runs the real code

func classify(format string, err error) (cls string) {
	if err == nil {
		return "ok"
	}
	defer func() { // errWrapped{cause:nil}.Error() dereferences nil
		if recover() != nil {
			cls = "arity"
		}
	}()
	switch format {
	case "msgpack":
		var te msgp.TypeError
		var ip msgp.InvalidPrefixError
		var uo msgp.UintOverflow
		var ub msgp.UintBelowZero
		switch {
		case errors.Is(err, msgp.ErrShortBytes):
			return "short"
		case errors.As(err, &te):
			return "type"
		case errors.As(err, &ip):
			return "prefix"
		case errors.As(err, &uo):
			return "overflow"
		case errors.As(err, &ub):
			return "neg"
		case errors.Is(err, msgp.ErrRecursion):
			return "recursion"
		}
		if _, ok := err.(interface{ Unwrap() error }); ok && errors.Unwrap(err) == nil {
			return "arity" // msgp.WrapError(nil, …): the decoder's "histogram bucket is not a pair" path
		}
		return "other:" + strings.ReplaceAll(err.Error(), " ", "_")
	case "pb":
		switch {
		case err == io.ErrUnexpectedEOF:
			return "eof"
		case err == protowire.ParseError(-2):
			return "fieldnum"
		case err == protowire.ParseError(-3):
			return "varint"
		case err == protowire.ParseError(-4):
			return "reserved"
		case err == protowire.ParseError(-5):
			return "endgroup"
		case err == protowire.ParseError(-6):
			return "depth"
		}
		s := err.Error()
		switch {
		case strings.HasPrefix(s, "ts field overflow"):
			return "ts"
		case strings.HasPrefix(s, "packed double"):
			return "packed8"
		}
		return "other:" + strings.ReplaceAll(s, " ", "_")
	case "tl":
		s := err.Error()
		switch {
		case errors.Is(err, io.ErrUnexpectedEOF):
			return "eof"
		case strings.Contains(s, "string padding"):
			return "padding"
		case strings.HasPrefix(s, "non-canonical"):
			return "noncanon"
		case strings.HasPrefix(s, "read tag"):
			return "tag"
		}
		return "other:" + strings.ReplaceAll(s, " ", "_")
	}
	return "err"
}

var allocSample = []metrics.Sample{{Name: "/gc/heap/allocs:bytes"}}

// cumulative bytes allocated on the heap (large objects are accounted immediately; no stop-the-world)
func heapAllocs() uint64 {
	metrics.Read(allocSample)
	if allocSample[0].Value.Kind() != metrics.KindUint64 {
		return 0
	}
	return allocSample[0].Value.Uint64()
}

type childState struct {
	p       *receiver.VerifC13Parser
	batch   tlstatshouse.AddMetricsBatchBytes
	scratch []byte
}

func (st *childState) reset() {
	st.p = receiver.VerifC13NewParser()
	st.batch = tlstatshouse.AddMetricsBatchBytes{}
	st.scratch = nil
}

func (st *childState) decode(pkt []byte) (line string) {
	defer func() {
		if r := recover(); r != nil {
			line = "PANIC\t" + strings.ReplaceAll(fmt.Sprint(r), "\n", " ")
			st.reset()
		}
	}()
	var got []metric
	perr := 0
	h := receiver.CallbackHandler{
		Metrics:    func(m *tlstatshouse.MetricBytes) { got = append(got, fromTL(m)) },
		ParseError: func(_ []byte, _ error) { perr++ },
	}
	a0 := heapAllocs()
	format, err := st.p.Parse(h, pkt, &st.batch, &st.scratch)
	a1 := heapAllocs()
	cls := classify(format, err)
	// the same packet through a FRESH parser and batch object: whatever was decoded before through the reused
	// batch must not change what this packet delivers
	var fresh []metric
	fh := receiver.CallbackHandler{Metrics: func(m *tlstatshouse.MetricBytes) { fresh = append(fresh, fromTL(m)) }}
	var fb tlstatshouse.AddMetricsBatchBytes
	var fs []byte
	fformat, ferr := receiver.VerifC13NewParser().Parse(fh, pkt, &fb, &fs)
	stale := "-"
	if ft := batchText(fresh); fformat != format || classify(fformat, ferr) != cls || ft != batchText(got) {
		stale = fmt.Sprintf("%s/%s/n=%d/%s", fformat, classify(fformat, ferr), len(fresh), ft)
	}
	return fmt.Sprintf("OK\t%s\t%s\t%d\t%d\t%s\t%d\t%s", format, cls, perr, len(got), batchText(got), a1-a0, stale)
}

func childMain() {
	// 3 GiB of address space: a decoder that allocates from an untrusted 32-bit length dies here with
	// "fatal error: out of memory" regardless of how much RAM the machine has
	lim := syscall.Rlimit{Cur: 3 << 30, Max: 3 << 30}
	_ = syscall.Setrlimit(syscall.RLIMIT_AS, &lim)
	st := &childState{}
	st.reset()
	in := bufio.NewReaderSize(os.Stdin, 1<<20)
	out := bufio.NewWriter(os.Stdout)
	for {
		line, err := in.ReadString('\n')
		line = strings.TrimRight(line, "\n")
		if line == "R" {
			st.reset()
			fmt.Fprintln(out, "OK")
			out.Flush()
		} else if strings.HasPrefix(line, "D ") {
			fmt.Fprintln(out, st.decode(verifx.UnHex(line[2:])))
			out.Flush()
		}
		if err != nil {
			return
		}
	}
}

// ------------------------------------------------------------------ parent side of the child

type child struct {
	cmd    *exec.Cmd
	in     io.WriteCloser
	lines  chan string
	stderr *bytes.Buffer
}

func startChild() *child {
	c := &child{lines: make(chan string, 4), stderr: &bytes.Buffer{}}
	c.cmd = exec.Command(os.Args[0], "-mode=child")
	c.cmd.Env = append(os.Environ(), "GOMEMLIMIT=1GiB", "GOTRACEBACK=single")
	c.cmd.Stderr = c.stderr
	var err error
	if c.in, err = c.cmd.StdinPipe(); err != nil {
		panic(err)
	}
	out, err := c.cmd.StdoutPipe()
	if err != nil {
		panic(err)
	}
	if err = c.cmd.Start(); err != nil {
		panic(err)
	}
	go func() {
		r := bufio.NewReaderSize(out, 1<<20)
		for {
			l, err := r.ReadString('\n')
			if err != nil {
				close(c.lines)
				return
			}
			c.lines <- strings.TrimRight(l, "\n")
		}
	}()
	return c
}

func (c *child) kill() {
	_ = c.in.Close()
	_ = c.cmd.Process.Kill()
	_ = c.cmd.Wait()
}

// ask returns the child's reply, or status "crash"/"hang" (the child is then gone)
func (c *child) ask(req string) (reply string, status string) {
	if _, err := io.WriteString(c.in, req+"\n"); err != nil {
		return "", "crash"
	}
	select {
	case l, ok := <-c.lines:
		if !ok {
			return "", "crash"
		}
		return l, "ok"
	case <-time.After(60 * time.Second): // a decode takes microseconds; 60 s without an answer is a hang
		return "", "hang"
	}
}

type result struct {
	status string // ok | panic | crash | hang
	format string
	cls    string
	perr   int
	n      int
	text   string // canonical metrics
	alloc  int64
	detail string
	stale  string // "-" or what a fresh parser delivers for the same packet when that differs
}

type runner struct {
	c       *child
	h       *verifx.H
	crashes int // child deaths so far (each costs a restart and, on a defective tree, gigabytes of zeroing)
}

func (r *runner) reset() {
	if r.c == nil {
		r.c = startChild()
		return
	}
	if _, st := r.c.ask("R"); st != "ok" {
		r.c.kill()
		r.c = startChild()
	}
}

func (r *runner) decode(pkt []byte) result {
	reply, st := r.c.ask("D " + verifx.Hex(pkt))
	if st != "ok" {
		r.c.kill()
		detail := r.c.stderr.String()
		if i := strings.Index(detail, "\n\n"); i > 0 {
			detail = detail[:i]
		}
		detail = strings.ReplaceAll(strings.TrimSpace(detail), "\n", " | ")
		if len(detail) > 300 {
			detail = detail[:300]
		}
		r.c = startChild()
		return result{status: st, detail: detail}
	}
	f := strings.Split(reply, "\t")
	if f[0] == "PANIC" {
		return result{status: "panic", detail: f[1]}
	}
	res := result{status: "ok", format: f[1], cls: f[2], text: f[5]}
	res.perr, _ = strconv.Atoi(f[3])
	res.n, _ = strconv.Atoi(f[4])
	res.alloc, _ = strconv.ParseInt(f[6], 10, 64)
	res.stale = f[7]
	return res
}

// dec prints the op, the observation, and applies the safety oracle; returns the result for further oracles
func (r *runner) dec(pkt []byte, what string) result {
	h := r.h
	h.Op("dec %s", verifx.Hex(pkt))
	res := r.decode(pkt)
	h.Stat("dec."+what, 1)
	switch res.status {
	case "ok":
		h.Stat("fmt."+res.format, 1)
		h.Stat("ret."+res.format+"."+strings.SplitN(res.cls, ":", 2)[0], 1)
		if res.format == "json" {
			h.Obs("json") // JSON lexing is not modelled (DESIGN §7): detection only; equality is checked by the oracle
		} else if res.format == "legacy" || res.format == "empty" {
			h.Obs("%s", res.format)
		} else {
			h.Obs("%s ret=%s perr=%d n=%d %s", res.format, res.cls, res.perr, res.n, res.text)
		}
		if res.stale != "-" {
			h.Viol("stale-state-across-packets", "%s packet %s delivers n=%d %s through the reused parser+batch but %s through a fresh parser: decoding is not a function of the packet alone, state of an earlier packet leaks", res.format, trunc(verifx.Hex(pkt)), res.n, trunc(res.text), trunc(res.stale))
		}
		// amplification: no decoder may allocate more than a small multiple of the packet size (a 14 byte packet
		// asking for gigabytes is how "fatal error: out of memory" happens on a machine with less memory than here)
		if res.alloc > 4<<20+2048*int64(len(pkt)) {
			h.Viol("alloc-amplification-"+res.format, "%d byte %s packet made the decoder allocate %d bytes: %s", len(pkt), res.format, res.alloc, trunc(verifx.Hex(pkt)))
		}
	case "panic":
		h.Obs("panic")
		h.Viol("decode-panic", "parser.parse panicked (%s) on packet %s", res.detail, trunc(verifx.Hex(pkt)))
	case "crash":
		r.crashes++
		h.Obs("crash")
		sig := "decode-fatal"
		if strings.Contains(res.detail, "-byte block") {
			// the runtime names the single allocation it could not satisfy: attributable to this packet's decoder
			sig = "decode-fatal-oom-" + guessFormat(pkt)
		} else if strings.Contains(res.detail, "out of memory") || strings.Contains(res.detail, "cannot allocate") {
			// address space exhausted by earlier packets' allocations (not necessarily this packet's fault)
			sig = "decode-fatal-oom"
		}
		h.Viol(sig, "the process running parser.parse died (%s) on the %d byte packet %s", res.detail, len(pkt), trunc(verifx.Hex(pkt)))
	case "hang":
		h.Obs("hang")
		h.Viol("decode-hang", "parser.parse did not return within 60 s on packet %s", trunc(verifx.Hex(pkt)))
	}
	return res
}

func trunc(s string) string {
	if len(s) > 400 {
		return s[:400] + "…"
	}
	return s
}

// only used to name the signature of a crash (the real detection did not return)
func guessFormat(p []byte) string {
	switch {
	case len(p) == 0:
		return "empty"
	case bytes.HasPrefix(p, []byte("\x39\x02\x58\x56")):
		return "tl"
	case p[0] == '{':
		return "json"
	case p[0]&0xf0 == 0x80 || p[0] == 0xde || p[0] == 0xdf:
		return "msgpack"
	}
	return "pb"
}

// ------------------------------------------------------------------ generators

var interestingFloats = []uint64{
	0, 1 << 63, math.Float64bits(1), math.Float64bits(-1), math.Float64bits(0.5), math.Float64bits(1e300),
	math.Float64bits(math.Inf(1)), math.Float64bits(math.Inf(-1)), 0x7ff8000000000001, 0x7ff0000000000001, 0xfff8000000000000,
	1, 0x000fffffffffffff, 0x0010000000000000, math.Float64bits(math.MaxFloat64), math.Float64bits(3.5), math.Float64bits(1 << 53),
	math.Float64bits(float64(math.MaxFloat32)), math.Float64bits(float64(math.SmallestNonzeroFloat32)),
}

func genFloat(r *verifx.Rng, finite bool) uint64 {
	for {
		var v uint64
		switch r.Pick(4, 3, 2, 1) {
		case 0:
			v = math.Float64bits(float64(r.Range(-1000, 1000)))
		case 1:
			v = interestingFloats[r.Intn(len(interestingFloats))]
		case 2:
			v = math.Float64bits(float64(r.Range(-1<<20, 1<<20)) / float64(int(1)<<r.Range(0, 12)))
		default:
			v = r.U64()
		}
		f := math.Float64frombits(v)
		if finite && (math.IsNaN(f) || math.IsInf(f, 0)) {
			continue
		}
		return v
	}
}

func genInt64(r *verifx.Rng) uint64 {
	switch r.Pick(3, 3, 2, 2) {
	case 0:
		return uint64(int64(r.Range(-40, 300)))
	case 1: // boundaries of every msgpack / varint width
		e := []uint{5, 7, 8, 15, 16, 31, 32, 63}[r.Intn(8)]
		v := int64(1)<<e + int64(r.Range(-2, 2))
		if e == 63 {
			v = math.MaxInt64 - int64(r.Range(0, 2))
		}
		if r.Bool() {
			v = -v
		}
		return uint64(v)
	case 2:
		return uint64(int64(r.U64() >> uint(r.Range(0, 63))))
	default:
		return r.U64()
	}
}

func genString(r *verifx.Rng, maxLen int) []byte {
	n := 0
	switch r.Pick(2, 6, 2, 1) {
	case 0:
		n = 0
	case 1:
		n = r.Range(1, 12)
	case 2:
		n = []int{31, 32, 33, 127, 128, 252, 253, 254, 255, 256, 257}[r.Intn(11)]
	default:
		n = r.Range(1, maxLen)
	}
	if n > maxLen {
		n = maxLen
	}
	alphabet := []string{"a", "b", "z", "_", "0", "9", " ", "\"", "\\", "/", "\n", "\t", "\x00", "\x1f", "é", "Ж", "€", "😀", "{", "S", "H", "<", "&", " ", "\x7f"}
	var b []byte
	for len(b) < n {
		s := alphabet[r.Intn(len(alphabet))]
		if len(b)+len(s) > n {
			s = "x"
		}
		b = append(b, s...)
	}
	return b
}

func genMetric(r *verifx.Rng, finite bool) metric {
	var m metric
	m.Name = genString(r, 300)
	if r.Chance(1, 250) {
		m.Name = genString(r, 70000) // str32 / TL medium string far beyond 64 KiB
	}
	nt := []int{0, 1, 2, 3, 5, 15, 16, 17}[r.Pick(2, 3, 3, 2, 1, 1, 1, 1)]
	seen := map[string]bool{}
	for len(m.Tags) < nt {
		k := genString(r, 40)
		if r.Chance(2, 3) {
			k = []byte(strconv.Itoa(r.Range(0, 20)))
		}
		if seen[string(k)] {
			continue
		}
		seen[string(k)] = true
		m.Tags = append(m.Tags, [2][]byte{k, genString(r, 60)})
	}
	sort.Slice(m.Tags, func(i, j int) bool { return bytes.Compare(m.Tags[i][0], m.Tags[j][0]) < 0 })
	cnt := func() int { return []int{0, 1, 2, 3, 15, 16, 17, 40}[r.Pick(1, 4, 3, 2, 1, 1, 1, 1)] }
	if r.Chance(2, 3) {
		m.Mask |= 1 << 0
		m.Counter = genFloat(r, finite)
	}
	if r.Chance(1, 2) {
		m.Mask |= 1 << 4
		m.Ts = []uint32{0, 1, 127, 128, 255, 256, 65535, 65536, 1700000000, math.MaxUint32, uint32(r.U64())}[r.Intn(11)]
	}
	if r.Chance(1, 2) {
		m.Mask |= 1 << 1
		for i, n := 0, cnt(); i < n; i++ {
			m.Value = append(m.Value, genFloat(r, finite))
		}
	}
	if r.Chance(1, 2) {
		m.Mask |= 1 << 2
		for i, n := 0, cnt(); i < n; i++ {
			m.Unique = append(m.Unique, genInt64(r))
		}
	}
	if r.Chance(1, 3) {
		m.Mask |= 1 << 3
		for i, n := 0, cnt(); i < n; i++ {
			m.Hist = append(m.Hist, [2]uint64{genFloat(r, finite), genFloat(r, finite)})
		}
	}
	return m
}

// ------------------------------------------------------------------ client encoders

func encTL(ms []metric, batchMask uint32) []byte {
	b := tlstatshouse.AddMetricsBatchBytes{FieldsMask: batchMask}
	for i := range ms {
		b.Metrics = append(b.Metrics, ms[i].toTL())
	}
	return b.WriteTL1Boxed(nil)
}

func encJSON(ms []metric) []byte {
	b := tlstatshouse.AddMetricsBatchBytes{}
	for i := range ms {
		b.Metrics = append(b.Metrics, ms[i].toTL())
	}
	return b.WriteJSON(nil)
}

// an independent JSON client: encoding/json over plain Go maps
func encJSONStd(ms []metric) []byte {
	type jm map[string]any
	var arr []jm
	for i := range ms {
		m := &ms[i]
		o := jm{"name": string(m.Name)}
		if len(m.Tags) != 0 {
			t := map[string]string{}
			for _, kv := range m.Tags {
				t[string(kv[0])] = string(kv[1])
			}
			o["tags"] = t
		}
		if m.Mask&1 != 0 {
			o["counter"] = math.Float64frombits(m.Counter)
		}
		if m.Mask&16 != 0 {
			o["ts"] = m.Ts
		}
		if m.Mask&2 != 0 {
			v := []float64{}
			for _, x := range m.Value {
				v = append(v, math.Float64frombits(x))
			}
			o["value"] = v
		}
		if m.Mask&4 != 0 {
			v := []int64{}
			for _, x := range m.Unique {
				v = append(v, int64(x))
			}
			o["unique"] = v
		}
		if m.Mask&8 != 0 {
			v := [][2]float64{}
			for _, x := range m.Hist {
				v = append(v, [2]float64{math.Float64frombits(x[0]), math.Float64frombits(x[1])})
			}
			o["histogram"] = v
		}
		arr = append(arr, o)
	}
	if arr == nil {
		arr = []jm{}
	}
	out, err := json.Marshal(map[string]any{"metrics": arr})
	if err != nil {
		panic(err)
	}
	return out
}

// msgpack options: how a particular client library lays out the same data
type mpOpt struct {
	wideHdr   int  // 0 minimal, 1 map16/array16, 2 map32/array32
	wideStr   int  // 0 minimal, 1 str8, 2 str16, 3 str32
	binKeys   bool // map keys as bin instead of str
	wideInt   bool // ints as 64-bit forms
	f32       bool // floats as float32 when exactly representable
	shuffle   *verifx.Rng
	junk      *verifx.Rng // unknown keys with nested values
	dupValue  bool        // "value" sent twice (last wins)
	allFields bool        // send absent optional fields too? no: would change semantics; unused
}

func mpHdr(b []byte, n int, isMap bool, wide int) []byte {
	if wide == 0 {
		if isMap {
			return msgp.AppendMapHeader(b, uint32(n))
		}
		return msgp.AppendArrayHeader(b, uint32(n))
	}
	lead := byte(0xdc)
	if isMap {
		lead = 0xde
	}
	if wide == 1 && n <= 0xffff {
		return append(b, lead, byte(n>>8), byte(n))
	}
	return append(b, lead+1, byte(n>>24), byte(n>>16), byte(n>>8), byte(n))
}

func mpStr(b []byte, s []byte, wide int, bin bool) []byte {
	n := len(s)
	if bin {
		b = msgp.AppendBytes(b, s)
		return b
	}
	switch {
	case wide == 0:
		return msgp.AppendStringFromBytes(b, s)
	case wide == 1 && n <= 0xff:
		b = append(b, 0xd9, byte(n))
	case wide <= 2 && n <= 0xffff:
		b = append(b, 0xda, byte(n>>8), byte(n))
	default:
		b = append(b, 0xdb, byte(n>>24), byte(n>>16), byte(n>>8), byte(n))
	}
	return append(b, s...)
}

func mpFloat(b []byte, bits uint64, o *mpOpt) []byte {
	f := math.Float64frombits(bits)
	if o.f32 && math.Float64bits(float64(float32(f))) == bits {
		return msgp.AppendFloat32(b, float32(f))
	}
	return msgp.AppendFloat64(b, f)
}

func mpJunk(b []byte, r *verifx.Rng, depth int) []byte {
	switch r.Pick(3, 2, 2, 2, 2, 1, 1, 1, 1) {
	case 0:
		return msgp.AppendInt64(b, int64(genInt64(r)))
	case 1:
		return msgp.AppendNil(b)
	case 2:
		return msgp.AppendBool(b, r.Bool())
	case 3:
		return msgp.AppendString(b, string(genString(r, 40)))
	case 4:
		return msgp.AppendBytes(b, r.Bytes(r.Range(0, 20)))
	case 5:
		return msgp.AppendFloat32(b, float32(r.Range(-5, 5)))
	case 6: // fixext / ext8
		if r.Bool() {
			return append(append(b, 0xd6, 5), r.Bytes(4)...)
		}
		n := r.Range(0, 9)
		return append(append(b, 0xc7, byte(n), 7), r.Bytes(n)...)
	case 7:
		n := r.Range(0, 3)
		if depth > 3 {
			n = 0
		}
		b = msgp.AppendArrayHeader(b, uint32(n))
		for i := 0; i < n; i++ {
			b = mpJunk(b, r, depth+1)
		}
		return b
	default:
		n := r.Range(0, 3)
		if depth > 3 {
			n = 0
		}
		b = msgp.AppendMapHeader(b, uint32(n))
		for i := 0; i < n; i++ {
			b = msgp.AppendString(b, "k"+strconv.Itoa(i))
			b = mpJunk(b, r, depth+1)
		}
		return b
	}
}

func encMPMetric(b []byte, m *metric, o *mpOpt) []byte {
	type field struct {
		key string
		put func(b []byte) []byte
	}
	fs := []field{{"name", func(b []byte) []byte { return mpStr(b, m.Name, o.wideStr, false) }}}
	fs = append(fs, field{"tags", func(b []byte) []byte {
		b = mpHdr(b, len(m.Tags), true, o.wideHdr)
		for _, t := range m.Tags {
			b = mpStr(b, t[0], o.wideStr, false)
			b = mpStr(b, t[1], o.wideStr, false)
		}
		return b
	}})
	if m.Mask&1 != 0 {
		fs = append(fs, field{"counter", func(b []byte) []byte { return mpFloat(b, m.Counter, o) }})
	}
	if m.Mask&16 != 0 {
		fs = append(fs, field{"ts", func(b []byte) []byte {
			if o.wideInt {
				return append(b, 0xcf, 0, 0, 0, 0, byte(m.Ts>>24), byte(m.Ts>>16), byte(m.Ts>>8), byte(m.Ts))
			}
			return msgp.AppendUint32(b, m.Ts)
		}})
	}
	val := func(b []byte) []byte {
		b = mpHdr(b, len(m.Value), false, o.wideHdr)
		for _, v := range m.Value {
			b = mpFloat(b, v, o)
		}
		return b
	}
	if m.Mask&2 != 0 {
		if o.dupValue {
			fs = append(fs, field{"value", func(b []byte) []byte {
				b = mpHdr(b, len(m.Value)+1, false, o.wideHdr)
				for i := 0; i <= len(m.Value); i++ {
					b = msgp.AppendFloat64(b, 777)
				}
				return b
			}})
		}
		fs = append(fs, field{"value", val})
	}
	if m.Mask&4 != 0 {
		fs = append(fs, field{"unique", func(b []byte) []byte {
			b = mpHdr(b, len(m.Unique), false, o.wideHdr)
			for _, v := range m.Unique {
				if o.wideInt {
					b = append(b, 0xd3, byte(v>>56), byte(v>>48), byte(v>>40), byte(v>>32), byte(v>>24), byte(v>>16), byte(v>>8), byte(v))
				} else {
					b = msgp.AppendInt64(b, int64(v))
				}
			}
			return b
		}})
	}
	if m.Mask&8 != 0 {
		fs = append(fs, field{"histogram", func(b []byte) []byte {
			b = mpHdr(b, len(m.Hist), false, o.wideHdr)
			for _, h := range m.Hist {
				b = mpHdr(b, 2, false, o.wideHdr)
				b = mpFloat(b, h[0], o)
				b = mpFloat(b, h[1], o)
			}
			return b
		}})
	}
	if o.junk != nil {
		for i, n := 0, o.junk.Range(1, 2); i < n; i++ {
			r := o.junk
			fs = append(fs, field{"x" + strconv.Itoa(i), func(b []byte) []byte { return mpJunk(b, r, 0) }})
		}
	}
	if o.shuffle != nil && !o.dupValue {
		for i := len(fs) - 1; i > 0; i-- {
			j := o.shuffle.Intn(i + 1)
			fs[i], fs[j] = fs[j], fs[i]
		}
	}
	b = mpHdr(b, len(fs), true, o.wideHdr)
	for _, f := range fs {
		b = mpStr(b, []byte(f.key), o.wideStr, o.binKeys)
		b = f.put(b)
	}
	return b
}

func encMP(ms []metric, o *mpOpt) []byte {
	var b []byte
	n := 1
	if o.junk != nil {
		n = 2
	}
	b = mpHdr(b, n, true, o.wideHdr)
	if o.junk != nil {
		b = mpStr(b, []byte("meta"), o.wideStr, o.binKeys)
		b = mpJunk(b, o.junk, 0)
	}
	b = mpStr(b, []byte("metrics"), o.wideStr, o.binKeys)
	b = mpHdr(b, len(ms), false, o.wideHdr)
	for i := range ms {
		b = encMPMetric(b, &ms[i], o)
	}
	return b
}

// the generated protobuf code of the repo's own .proto (what a Go client would use)
func encPB(ms []metric) []byte {
	var src pb.MetricBatch
	for i := range ms {
		m := &ms[i]
		x := &pb.Metric{Name: string(m.Name), Counter: math.Float64frombits(m.Counter), Ts: m.Ts}
		if len(m.Tags) != 0 {
			x.Tags = map[string]string{}
			for _, t := range m.Tags {
				x.Tags[string(t[0])] = string(t[1])
			}
		}
		for _, v := range m.Value {
			x.Value = append(x.Value, math.Float64frombits(v))
		}
		for _, v := range m.Unique {
			x.Unique = append(x.Unique, int64(v))
		}
		for _, h := range m.Hist {
			x.Histogram = append(x.Histogram, &pb.Centroid{Value: math.Float64frombits(h[0]), Count: math.Float64frombits(h[1])})
		}
		src.Metrics = append(src.Metrics, x)
	}
	out, err := proto.MarshalOptions{Deterministic: true}.Marshal(&src)
	if err != nil {
		panic(err)
	}
	return out
}

// a hand-rolled protobuf client (proto2-style libraries, protocute, nanopb …): every layout below is a valid
// encoding of the same message that any conforming parser must accept
type pbOpt struct {
	unpackedValue  bool
	unpackedUnique bool
	explicitZero   bool // send zero / empty scalar fields explicitly
	splitPacked    bool // a packed field split into two records
	longVarint     bool // non-minimal (padded) varints for lengths
	unknown        *verifx.Rng
	shuffle        *verifx.Rng
}

func pbVarint(b []byte, v uint64, long bool) []byte {
	if !long {
		return protowire.AppendVarint(b, v)
	}
	for i := 0; i < 2; i++ { // two padded groups, then the minimal rest
		b = append(b, byte(v&0x7f)|0x80)
		v >>= 7
	}
	return protowire.AppendVarint(b, v)
}

func pbBytes(b []byte, num protowire.Number, data []byte, long bool) []byte {
	b = protowire.AppendTag(b, num, protowire.BytesType)
	b = pbVarint(b, uint64(len(data)), long)
	return append(b, data...)
}

func pbUnknown(b []byte, r *verifx.Rng, depth int) []byte {
	num := protowire.Number(r.Range(8, 40))
	switch r.Pick(2, 2, 2, 2, 1) {
	case 0:
		b = protowire.AppendTag(b, num, protowire.VarintType)
		return protowire.AppendVarint(b, genInt64(r))
	case 1:
		b = protowire.AppendTag(b, num, protowire.Fixed32Type)
		return protowire.AppendFixed32(b, uint32(r.U64()))
	case 2:
		b = protowire.AppendTag(b, num, protowire.Fixed64Type)
		return protowire.AppendFixed64(b, r.U64())
	case 3:
		return pbBytes(b, num, r.Bytes(r.Range(0, 12)), false)
	default:
		b = protowire.AppendTag(b, num, protowire.StartGroupType)
		if depth < 3 {
			for i, n := 0, r.Range(0, 2); i < n; i++ {
				b = pbUnknown(b, r, depth+1)
			}
		}
		return protowire.AppendTag(b, num, protowire.EndGroupType)
	}
}

func encPBHandMetric(m *metric, o *pbOpt) []byte {
	var recs [][]byte
	add := func(b []byte) { recs = append(recs, b) }
	if len(m.Name) != 0 || o.explicitZero {
		add(pbBytes(nil, 1, m.Name, o.longVarint))
	}
	for _, t := range m.Tags {
		var e []byte
		if len(t[0]) != 0 || o.explicitZero {
			e = pbBytes(e, 1, t[0], false)
		}
		if len(t[1]) != 0 || o.explicitZero {
			e = pbBytes(e, 2, t[1], false)
		}
		add(pbBytes(nil, 2, e, o.longVarint))
	}
	if m.Counter != 0 || o.explicitZero {
		add(protowire.AppendFixed64(protowire.AppendTag(nil, 3, protowire.Fixed64Type), m.Counter))
	}
	if m.Ts != 0 || o.explicitZero {
		add(pbVarint(protowire.AppendTag(nil, 4, protowire.VarintType), uint64(m.Ts), o.longVarint))
	}
	packF := func(vs []uint64) []byte {
		var p []byte
		for _, v := range vs {
			p = protowire.AppendFixed64(p, v)
		}
		return p
	}
	packV := func(vs []uint64) []byte {
		var p []byte
		for _, v := range vs {
			p = protowire.AppendVarint(p, v)
		}
		return p
	}
	if o.unpackedValue {
		for _, v := range m.Value {
			add(protowire.AppendFixed64(protowire.AppendTag(nil, 5, protowire.Fixed64Type), v))
		}
	} else if len(m.Value) != 0 {
		if o.splitPacked && len(m.Value) > 1 {
			k := len(m.Value) / 2
			add(pbBytes(nil, 5, packF(m.Value[:k]), o.longVarint))
			add(pbBytes(nil, 5, packF(m.Value[k:]), o.longVarint))
		} else {
			add(pbBytes(nil, 5, packF(m.Value), o.longVarint))
		}
	}
	if o.unpackedUnique {
		for _, v := range m.Unique {
			add(protowire.AppendVarint(protowire.AppendTag(nil, 6, protowire.VarintType), v))
		}
	} else if len(m.Unique) != 0 {
		if o.splitPacked && len(m.Unique) > 1 {
			k := len(m.Unique) / 2
			add(pbBytes(nil, 6, packV(m.Unique[:k]), o.longVarint))
			add(pbBytes(nil, 6, packV(m.Unique[k:]), o.longVarint))
		} else {
			add(pbBytes(nil, 6, packV(m.Unique), o.longVarint))
		}
	}
	for _, h := range m.Hist {
		var c []byte
		if h[0] != 0 || o.explicitZero {
			c = protowire.AppendFixed64(protowire.AppendTag(c, 1, protowire.Fixed64Type), h[0])
		}
		if h[1] != 0 || o.explicitZero {
			c = protowire.AppendFixed64(protowire.AppendTag(c, 2, protowire.Fixed64Type), h[1])
		}
		add(pbBytes(nil, 7, c, o.longVarint))
	}
	if o.unknown != nil {
		for i, n := 0, o.unknown.Range(1, 3); i < n; i++ {
			add(pbUnknown(nil, o.unknown, 0))
		}
	}
	if o.shuffle != nil {
		// records of different fields may come in any order; records of one repeated field keep their order
		type rec struct {
			b   []byte
			key int
		}
		rs := make([]rec, len(recs))
		for i, b := range recs {
			num, _, _ := protowire.ConsumeTag(b)
			rs[i] = rec{b, int(num)}
		}
		perm := map[int]int{}
		for _, x := range rs {
			if _, ok := perm[x.key]; !ok {
				perm[x.key] = o.shuffle.Intn(1000)
			}
		}
		sort.SliceStable(rs, func(i, j int) bool { return perm[rs[i].key] < perm[rs[j].key] })
		for i := range rs {
			recs[i] = rs[i].b
		}
	}
	return bytes.Join(recs, nil)
}

func encPBHand(ms []metric, o *pbOpt) []byte {
	var b []byte
	for i := range ms {
		b = pbBytes(b, 13337, encPBHandMetric(&ms[i], o), o.longVarint)
	}
	return b
}

// ------------------------------------------------------------------ malformed streams

// length-header bombs: a header that promises up to 2^32-1 elements placed at every collection site
func mpBombs(r *verifx.Rng) [][]byte {
	hdr := func(arr bool) []byte {
		n := []uint32{math.MaxUint32, 1 << 31, 1 << 28, 1 << 24, 0xffff, 1 << 20}[r.Intn(6)]
		lead := byte(0xdf)
		if arr {
			lead = 0xdd
		}
		if n == 0xffff && r.Bool() {
			return []byte{lead - 1, 0xff, 0xff}
		}
		return []byte{lead, byte(n >> 24), byte(n >> 16), byte(n >> 8), byte(n)}
	}
	key := func(b []byte, k string) []byte { return msgp.AppendString(b, k) }
	var out [][]byte
	// metrics: <bomb>
	out = append(out, append(key([]byte{0x81}, "metrics"), hdr(true)...))
	for _, f := range []string{"tags", "value", "unique", "histogram"} {
		b := key([]byte{0x81}, "metrics")
		b = append(b, 0x91, 0x81)
		b = key(b, f)
		b = append(b, hdr(f != "tags")...)
		out = append(out, b)
	}
	// skip of an unknown key with a huge container, and a huge top-level map
	out = append(out, append(key([]byte{0x81}, "zzz"), hdr(r.Bool())...))
	out = append(out, hdr(false))
	return out
}

func tlBombs(r *verifx.Rng) [][]byte {
	le := func(b []byte, v uint32) []byte { return append(b, byte(v), byte(v>>8), byte(v>>16), byte(v>>24)) }
	n := []uint32{math.MaxUint32, 1 << 31, 1 << 24, 1 << 20, 0xffff}[r.Intn(5)]
	head := le(le(nil, 0x56580239), 0)
	var out [][]byte
	out = append(out, le(append([]byte(nil), head...), n)) // metrics vector
	m := le(append([]byte(nil), head...), 1)
	for _, mask := range []uint32{0, 2, 4, 8} { // tags, value, unique, histogram vectors
		b := le(append([]byte(nil), m...), mask)
		b = append(b, 0, 0, 0, 0) // empty name
		if mask != 0 {
			b = le(b, 0) // no tags
		}
		b = le(b, n)
		b = append(b, r.Bytes(r.Range(0, 12))...)
		out = append(out, b)
	}
	// string length beyond the packet: tiny / medium / huge markers
	out = append(out, append(le(append([]byte(nil), m...), 0), 200, 1, 2))
	out = append(out, append(le(append([]byte(nil), m...), 0), 254, 0xff, 0xff, 0xff, 1))
	out = append(out, append(le(append([]byte(nil), m...), 0), 255, 0xff, 0xff, 0xff, 0xff, 0xff, 0xff, 0x7f))
	return out
}

func pbBombs(r *verifx.Rng) [][]byte {
	var out [][]byte
	big := []uint64{math.MaxUint64, 1 << 63, 1 << 32, 1 << 31, 1 << 24}[r.Intn(5)]
	out = append(out, protowire.AppendVarint(protowire.AppendTag(nil, 13337, protowire.BytesType), big))
	for _, f := range []protowire.Number{1, 2, 5, 6, 7, 9} {
		in := protowire.AppendVarint(protowire.AppendTag(nil, f, protowire.BytesType), big)
		out = append(out, pbBytes(nil, 13337, in, false))
	}
	// deeply nested groups in an unknown field
	var g []byte
	d := r.Range(1, 300)
	for i := 0; i < d; i++ {
		g = protowire.AppendTag(g, 9, protowire.StartGroupType)
	}
	if r.Bool() {
		for i := 0; i < d; i++ {
			g = protowire.AppendTag(g, 9, protowire.EndGroupType)
		}
	}
	out = append(out, g)
	return out
}

// packets aimed at the rarely taken error branches of each decoder
func targeted(r *verifx.Rng) [][]byte {
	var out [][]byte
	key := func(b []byte, k string) []byte { return msgp.AppendString(b, k) }
	mpMetric := func(field string, val []byte) []byte {
		b := key([]byte{0x81}, "metrics")
		b = append(b, 0x91, 0x81)
		b = key(b, field)
		return append(b, val...)
	}
	// msgpack: histogram bucket that is not a pair; negative / too large ts; unique above MaxInt64; int as float
	out = append(out, mpMetric("histogram", []byte{0x91, byte(0x90 + r.Range(0, 5)), 0xcb, 0, 0, 0, 0, 0, 0, 0, 0, 0xcb, 0, 0, 0, 0, 0, 0, 0, 0}))
	out = append(out, mpMetric("ts", [][]byte{{0xff}, {0xd0, 0x80}, {0xd1, 0xff, 0xff}, {0xd2, 0x80, 0, 0, 0}, {0xd3, 0xff, 0, 0, 0, 0, 0, 0, 0}, {0xe0}}[r.Intn(6)]))
	out = append(out, mpMetric("ts", [][]byte{{0xcf, 0, 0, 0, 1, 0, 0, 0, 0}, {0xd3, 0, 0, 0, 1, 0, 0, 0, 0}, {0xcf, 0xff, 0xff, 0xff, 0xff, 0xff, 0xff, 0xff, 0xff}, {0xce, 0xff, 0xff, 0xff, 0xff}}[r.Intn(4)]))
	out = append(out, mpMetric("unique", append([]byte{0x92, 0x05, 0xcf}, [][]byte{{0x80, 0, 0, 0, 0, 0, 0, 0}, {0x7f, 0xff, 0xff, 0xff, 0xff, 0xff, 0xff, 0xff}, {0xff, 0xff, 0xff, 0xff, 0xff, 0xff, 0xff, 0xff}}[r.Intn(3)]...)))
	out = append(out, mpMetric("counter", [][]byte{{0x05}, {0xca, 0x7f, 0xa0, 0, 0}, {0xca, 0x00, 0x00, 0x00, 0x01}, {0xca, 0x80, 0x40, 0, 0}, {0xca, 0x7f, 0x80, 0, 0}, {0xc1}, {0xca, 1, 2, 3}, {0xd3, 0, 0, 0, 0, 0, 0, 0, 1}}[r.Intn(8)]))
	out = append(out, mpMetric("counter", append([]byte{0xca}, r.Bytes(4)...)))
	out = append(out, mpMetric("name", [][]byte{{0xc4, 1, 'x'}, {0xc1}, {0xd9, 5, 'a'}, {0xdb, 0xff, 0xff, 0xff, 0xff}, {0x01}}[r.Intn(5)]))
	// a key that is neither str nor bin; bin keys of every width
	out = append(out, append([]byte{0x81}, [][]byte{{0x01, 0x02}, {0xc1}, {0xc0, 0xc0}, {0x90, 0x90}}[r.Intn(4)]...))
	out = append(out, append(append([]byte{0x81, 0xc5, 0, 7}, "metrics"...), 0x90))
	out = append(out, append(append([]byte{0x81, 0xc6, 0, 0, 0, 7}, "metrics"...), 0x90))
	// nested containers under an unknown key, cut at a random place
	{
		d := r.Range(1, 400)
		b := key([]byte{0x82}, "zz")
		for i := 0; i < d; i++ {
			b = append(b, []byte{0x91, 0x81, 0xdc, 0xde}[r.Intn(4)])
			switch b[len(b)-1] {
			case 0x81:
				b = append(b, 0xa1, 'k')
			case 0xdc:
				b = append(b, 0, 1)
			case 0xde:
				b = append(b, 0, 1, 0xa1, 'k')
			}
		}
		if r.Bool() {
			b = append(b, 0xc0)
			b = key(b, "metrics")
			b = append(b, 0x90)
		}
		out = append(out, b)
	}
	// protobuf: ts out of range / negative, overlong varints, field number 0 and > 2^29, end group, wire types 6 and 7
	pbMetric := func(in []byte) []byte { return pbBytes(nil, 13337, in, false) }
	out = append(out, pbMetric(protowire.AppendVarint(protowire.AppendTag(nil, 4, protowire.VarintType), []uint64{1 << 32, 1<<32 - 1, 1 << 63, math.MaxUint64, 1 << 40}[r.Intn(5)])))
	out = append(out, pbMetric([]byte{0x30, 0xff, 0xff, 0xff, 0xff, 0xff, 0xff, 0xff, 0xff, 0xff, byte(r.Range(0, 3))}))
	out = append(out, pbMetric([]byte{0x80, 0x80, 0x80, 0x80, 0x80, 0x80, 0x80, 0x80, 0x80, 0x80, 0x01}))
	out = append(out, [][]byte{{0x00}, {0x02, 0x00}, {0xfa, 0xff, 0xff, 0xff, 0x7f, 0x00}, {0xfa, 0xff, 0xff, 0xff, 0xff, 0x01}, {0xcc, 0xc1, 0x06}, {0xce, 0xc1, 0x06}, {0xcf, 0xc1, 0x06}}[r.Intn(7)])
	// packed unique with a malformed varint inside (the error used to be swallowed); fixed64 record for unique
	out = append(out, pbMetric(append([]byte{0x32, 0x03, 0x05, 0x80, 0x80}, r.Bytes(r.Range(0, 6))...)))
	out = append(out, pbMetric(append([]byte{0x32, 0x0c, 0x01, 0xff, 0xff, 0xff, 0xff, 0xff, 0xff, 0xff, 0xff, 0xff, 0x7f, 0x02}, r.Bytes(r.Range(0, 6))...)))
	out = append(out, pbMetric(append([]byte{0x31}, r.Bytes(8)...)))
	out = append(out, pbMetric(append([]byte{0x31, 0x05, 0x2a}, r.Bytes(r.Range(0, 9))...)))
	out = append(out, pbMetric(append([]byte{0x30, 0x07, 0x30}, protowire.AppendVarint(nil, r.U64())...)))
	// value: packed run that is not a multiple of 8; fixed32 record
	out = append(out, pbMetric(append([]byte{0x2a, byte(r.Range(1, 20))}, r.Bytes(20)...)))
	out = append(out, pbMetric(append([]byte{0x2d}, r.Bytes(4)...)))
	// tag / centroid entries with junk inside
	out = append(out, pbMetric(pbBytes(nil, 2, append([]byte{0x08, 0x01, 0x12, 0x01, 'v', 0x0a, 0x01, 'k', 0x0a, 0x01}, byte(r.U64())), false)))
	out = append(out, pbMetric(pbBytes(nil, 7, append([]byte{0x09, 1, 2, 3, 4, 5, 6, 7, 8, 0x11, 1, 2, 3, 4, 5, 6, 7, 8, 0x15}, r.Bytes(r.Range(0, 5))...), false)))
	// groups nested up to and beyond protowire's recursion limit
	{
		d := []int{9999, 10000, 10001, 10002, 10050}[r.Intn(5)]
		var g []byte
		for i := 0; i < d; i++ {
			g = append(g, 0x4b) // field 9 start group
		}
		for i := 0; i < d; i++ {
			g = append(g, 0x4c)
		}
		out = append(out, g)
	}
	// TL: non-canonical string forms, non-zero padding, second batch with a wrong tag, trailing garbage
	le := func(b []byte, v uint32) []byte { return append(b, byte(v), byte(v>>8), byte(v>>16), byte(v>>24)) }
	head := le(le(le(nil, 0x56580239), uint32(r.U64())), 1)
	out = append(out, append(le(append([]byte(nil), head...), 0), 254, byte(r.Range(0, 253)), 0, 0, 1, 2, 3, 4))
	out = append(out, append(le(append([]byte(nil), head...), 0), 255, 0xff, 0xff, byte(r.Range(0, 255)), 0, 0, 0, 0, 1, 2, 3))
	out = append(out, append(le(append([]byte(nil), head...), 0), 255, 0, 0, 0, 1, 0, 0, 0))
	out = append(out, append(le(append([]byte(nil), head...), 0), 2, 'a', 'b', byte(r.Range(0, 1)), 0, 0, 0, 0))
	good := encTL([]metric{genMetric(r, true)}, 0)
	out = append(out, append(append([]byte(nil), good...), [][]byte{{0x39, 0x02, 0x58, 0x57, 0, 0, 0, 0}, {1, 2, 3}, {0x39, 0x02, 0x58, 0x56}, {0x39, 0x02, 0x58, 0x56, 0, 0, 0, 0, 0, 0, 0, 0}}[r.Intn(4)]...))
	// the minimised packets of the defects found on the pinned tree (Props/C13: bomb14, pbUnpacked, pbPacked, pbBadPacked)
	for _, hx := range []string{"81a76d657472696373ddffffffff", "cac106080a0175300530ac02", "cac106080a0175320305ac02", "cac1060c320a09616161616161616180"} {
		out = append(out, verifx.UnHex(hx))
	}
	goodMP := encMP([]metric{genMetric(r, true)}, &mpOpt{})
	out = append(out, append(append([]byte(nil), goodMP...), [][]byte{{0x90}, {0x80}, {0xc1}, {0xde, 0}, {0x81, 0xa1}}[r.Intn(5)]...))
	return out
}

func mutate(r *verifx.Rng, p []byte) []byte {
	q := append([]byte(nil), p...)
	for k, n := 0, r.Range(1, 3); k < n; k++ {
		if len(q) == 0 {
			return append(q, byte(r.U64()))
		}
		i := r.Intn(len(q))
		if r.Chance(2, 3) && len(q) > 24 { // most structure sits in the first bytes
			i = r.Intn(24)
		}
		switch r.Pick(4, 2, 2, 2, 2, 1) {
		case 0:
			q[i] ^= 1 << uint(r.Intn(8))
		case 1:
			q[i] = byte(r.U64())
		case 2:
			q = q[:i]
		case 3: // insert bytes
			ins := r.Bytes(r.Range(1, 4))
			q = append(q[:i], append(ins, q[i:]...)...)
		case 4: // overwrite with a container / length marker
			mk := []byte{0xdc, 0xdd, 0xde, 0xdf, 0xdb, 0xc6, 0xc9, 0xff, 0xfe, 0x80, 0x0b, 0x0c}[r.Intn(12)]
			q[i] = mk
		default: // delete a byte
			q = append(q[:i], q[i+1:]...)
		}
	}
	return q
}

func noise(r *verifx.Rng) []byte {
	n := r.Range(0, 64)
	if r.Chance(1, 10) {
		n = r.Range(64, 2000)
	}
	b := r.Bytes(n)
	switch r.Pick(3, 2, 2, 1, 3, 3, 1) {
	case 0:
		b = append([]byte("\x39\x02\x58\x56"), b...)
	case 1:
		b = append([]byte("{"), b...)
	case 2:
		b = append([]byte(`{"metrics":[{"name":"a",`), b...)
	case 3:
		b = append([]byte("SH"), b...)
	case 4:
		b = append([]byte{[]byte{0x80, 0x81, 0x82, 0x8f, 0xde, 0xdf}[r.Intn(6)]}, b...)
	case 5:
		b = append([]byte{0xca, 0xc1, 0x06}, b...)
	}
	return b
}

// ------------------------------------------------------------------ TCP framing (receiver_tcp.go)

func shortHex(b []byte) string {
	if len(b) > 20 {
		return fmt.Sprintf("#%d", len(b))
	}
	return verifx.Hex(b)
}

// canonical text with long strings abbreviated (frames are padded with 64 KiB tag values)
func (m *metric) textShort() string {
	c := *m
	c.Name = nil
	c.Tags = nil
	t := c.text() // mask|-|-|counter|…
	f := strings.SplitN(t, "|", 4)
	tags := "-"
	if len(m.Tags) != 0 {
		ss := make([]string, len(m.Tags))
		for i, kv := range m.Tags {
			ss[i] = shortHex(kv[0]) + ":" + shortHex(kv[1])
		}
		tags = strings.Join(ss, ",")
	}
	return f[0] + "|" + shortHex(m.Name) + "|" + tags + "|" + f[3]
}

func batchTextShort(ms []metric) string {
	if len(ms) == 0 {
		return "-"
	}
	ss := make([]string, len(ms))
	for i := range ms {
		ss[i] = ms[i].textShort()
	}
	return strings.Join(ss, ";")
}

// run-length segments of a byte stream: hex, or *HHxN for N >= 32 copies of one byte
func segments(b []byte) string {
	var out []string
	start := 0
	flush := func(end int) {
		if end > start {
			out = append(out, verifx.Hex(b[start:end]))
		}
	}
	for i := 0; i < len(b); {
		j := i
		for j < len(b) && b[j] == b[i] {
			j++
		}
		if j-i >= 32 {
			flush(i)
			out = append(out, fmt.Sprintf("*%02xx%d", b[i], j-i))
			start = j
		}
		i = j
	}
	flush(len(b))
	if len(out) == 0 {
		return "-"
	}
	return strings.Join(out, ",")
}

// a valid batch whose encoding is exactly `size` bytes (MessagePack or Protobuf: TL sizes are multiples of 4)
func paddedBatch(r *verifx.Rng, size int) (body []byte, ms []metric, ok bool) {
	m := metric{Name: []byte("tcp" + strconv.Itoa(r.Range(0, 99))), Mask: 1, Counter: math.Float64bits(float64(r.Range(1, 9)))}
	usePB := r.Bool()
	enc := func(pad int) []byte {
		m.Tags = [][2][]byte{{[]byte("1"), bytes.Repeat([]byte{'a'}, pad)}}
		if usePB {
			return encPB([]metric{m})
		}
		return encMP([]metric{m}, &mpOpt{})
	}
	pad := size - len(enc(0))
	for it := 0; it < 8 && pad >= 0; it++ {
		b := enc(pad)
		if len(b) == size {
			return b, []metric{m}, true
		}
		pad += size - len(b)
	}
	return nil, nil, false
}

type tcpFrame struct {
	body     []byte
	ms       []metric // what it must deliver
	oversize bool
}

var tcpHangs int

func runTCPCase(h *verifx.H, r *verifx.Rng) {
	const max = receiver.MaxTCPFrameBody
	var frames []tcpFrame
	small := func() tcpFrame {
		ms := []metric{genMetric(r, true)}
		if len(ms[0].Name) > 300 {
			ms[0].Name = []byte("long")
		}
		switch r.Intn(3) {
		case 0:
			return tcpFrame{body: encTL(ms, 0), ms: ms}
		case 1:
			return tcpFrame{body: encMP(ms, &mpOpt{}), ms: ms}
		default:
			return tcpFrame{body: encPB(ms), ms: ms}
		}
	}
	boundary := false
	for k, n := 0, r.Range(2, 6); k < n; k++ {
		switch r.Pick(4, 1, 1, 1, 4, 1) {
		case 0:
			frames = append(frames, small())
		case 1:
			frames = append(frames, tcpFrame{}) // body length 0: an empty packet
		case 2:
			frames = append(frames, tcpFrame{body: [][]byte{{0x80}, {0x00}, {0xff}, {0xc1}}[r.Intn(4)]}) // 1 byte (never JSON: JSON errors are not modelled)
		case 3:
			frames = append(frames, tcpFrame{body: r.Bytes(r.Range(2, 40))}) // garbage inside correct framing is harmless
			frames[len(frames)-1].body[0] = 0xc1                              // (never a valid batch)
		case 4: // the largest frames the protocol allows
			size := max - r.Range(0, 3)
			if r.Chance(1, 4) {
				size = []int{max - 4, max - 7, 65536 - 4, 65536 - 5, 32768}[r.Intn(5)]
			}
			if body, ms, ok := paddedBatch(r, size); ok {
				frames = append(frames, tcpFrame{body: body, ms: ms})
				boundary = true
			}
		default:
			frames = append(frames, tcpFrame{oversize: true})
		}
	}
	if r.Chance(2, 3) {
		frames = append(frames, small()) // something after the big / oversize frame
	}
	var stream []byte
	var cuts []int // interesting places to split the writes
	var want []metric
	dead := false
	for _, f := range frames {
		n := len(f.body)
		if f.oversize {
			n = max + 1 + []int{0, 1, 1000, 1 << 20, math.MaxUint32 - max - 1}[r.Intn(5)]
		}
		cuts = append(cuts, len(stream)+r.Range(1, 3), len(stream)+4)
		stream = append(stream, byte(n), byte(n>>8), byte(n>>16), byte(n>>24))
		if f.oversize {
			stream = append(stream, r.Bytes(r.Range(0, 64))...)
			dead = true
			continue
		}
		stream = append(stream, f.body...)
		cuts = append(cuts, len(stream)-1)
		if !dead {
			want = append(want, f.ms...)
		}
	}
	if r.Chance(1, 4) { // a truncated last frame is dropped at EOF
		k := r.Range(1, 6)
		stream = append(stream, byte(100), 0, 0, 0)
		stream = append(stream, r.Bytes(k)...)
	}
	// write chunks: everything at once / at the interesting boundaries / small random pieces
	var sizes []int
	switch r.Intn(3) {
	case 0:
		sizes = []int{len(stream)}
	case 1:
		sort.Ints(cuts)
		prev := 0
		for _, c := range cuts {
			if c > prev && c < len(stream) && r.Chance(2, 3) {
				sizes = append(sizes, c-prev)
				prev = c
			}
		}
		sizes = append(sizes, len(stream)-prev)
	default:
		for left := len(stream); left > 0; {
			k := r.Range(1, 7)
			if r.Bool() {
				k = r.Range(1, 70000)
			}
			if k > left {
				k = left
			}
			sizes = append(sizes, k)
			left -= k
		}
	}
	h.Op("tcp %s %s", verifx.List(sizes), segments(stream))
	h.Stat("tcp.frames", int64(len(frames)))
	h.Stat("tcp.chunks", int64(len(sizes)))

	// ---- the real receiver over loopback TCP
	var mu sync.Mutex
	var got []metric
	perr := 0
	handler := receiver.CallbackHandler{
		Metrics:    func(m *tlstatshouse.MetricBytes) { mu.Lock(); got = append(got, fromTL(m)); mu.Unlock() },
		ParseError: func(_ []byte, _ error) { mu.Lock(); perr++; mu.Unlock() },
	}
	ln, err := net.Listen("tcp", "127.0.0.1:0")
	if err != nil {
		h.Obs("tcp listen-failed")
		h.Note("cannot listen on loopback: %v", err)
		return
	}
	srv := receiver.NewTCPReceiver(nil, nil)
	go func() { _ = srv.Serve(nil, handler, ln) }()
	conn, err := net.Dial("tcp", ln.Addr().String())
	if err != nil {
		_ = srv.Close()
		h.Obs("tcp dial-failed")
		return
	}
	deadline := time.Now().Add(15 * time.Second) // normally milliseconds
	_ = conn.SetDeadline(deadline)
	_, _ = conn.Write([]byte{receiver.TCPMagicV1Default})
	rest := stream
	for _, k := range sizes {
		if _, err := conn.Write(rest[:k]); err != nil {
			break // the receiver closed the connection (framing error): the rest is lost, as it should be
		}
		rest = rest[k:]
	}
	if tc, ok := conn.(*net.TCPConn); ok {
		_ = tc.CloseWrite()
	}
	// the receiver closes the connection when its loop ends (EOF or framing error); until then we read nothing
	hang := false
	var one [1]byte
	for {
		_, err := conn.Read(one[:])
		if err == nil {
			continue
		}
		if ne, ok := err.(net.Error); ok && ne.Timeout() {
			hang = true
		}
		break
	}
	_ = conn.Close()
	_ = srv.Close()
	mu.Lock()
	defer mu.Unlock()
	end := "closed"
	if hang {
		end = "hang"
	}
	h.Obs("tcp end=%s perr=%d n=%d %s", end, perr, len(got), batchTextShort(got))
	if hang {
		tcpHangs++
		h.Viol("tcp-hang", "connection still open 15 s after the client finished writing %d bytes in %d frames and half-closed: receiveLoop does not make progress (delivered %d of %d metrics)", len(stream), len(frames), len(got), len(want))
	}
	if semText(got) != semText(want) {
		sig := "tcp-frame-lost"
		if len(got) > len(want) {
			sig = "tcp-frame-extra"
		}
		h.Viol(sig, "metrics delivered over the connection differ from the metrics of its valid frames (in order, up to the first oversize frame): want %d got %d: want %s got %s", len(want), len(got), trunc(batchTextShort(want)), trunc(batchTextShort(got)))
	}
	if boundary {
		h.NonTrivial("tcp-max-frame")
	}
}

// ------------------------------------------------------------------ packet sequences through one reused parser + batch

// a metric of a LATER packet in a sequence: zero-valued scalars, empty strings / arrays, omitted fields, histogram
// buckets with a zero value or a zero count (proto3 leaves all of these off the wire, so whatever the decoder does
// not reset survives from the earlier, larger packet)
func genMetricZeroish(r *verifx.Rng) metric {
	var m metric
	if r.Bool() {
		m.Name = []byte([]string{"a", "m1", "x"}[r.Intn(3)])
	}
	for k, n := 0, r.Pick(3, 2, 1); k < n; k++ {
		v := []byte{}
		if r.Chance(1, 3) {
			v = []byte("v")
		}
		m.Tags = append(m.Tags, [2][]byte{[]byte(strconv.Itoa(k)), v})
	}
	z := func() uint64 {
		if r.Chance(3, 5) {
			return 0
		}
		return math.Float64bits(float64(r.Range(1, 9)))
	}
	if r.Bool() {
		m.Mask |= 1
		m.Counter = z()
	}
	if r.Bool() {
		m.Mask |= 16
		if r.Chance(2, 5) {
			m.Ts = uint32(r.Range(1, 100))
		}
	}
	if r.Bool() {
		m.Mask |= 2
		for k, n := 0, r.Pick(2, 2, 1); k < n; k++ {
			m.Value = append(m.Value, z())
		}
	}
	if r.Bool() {
		m.Mask |= 4
		for k, n := 0, r.Pick(2, 2, 1); k < n; k++ {
			m.Unique = append(m.Unique, uint64(r.Pick(3, 1))*uint64(r.Range(1, 5)))
		}
	}
	if r.Chance(2, 3) {
		m.Mask |= 8
		for k, n := 0, r.Pick(1, 3, 2, 1); k < n; k++ {
			m.Hist = append(m.Hist, [2]uint64{z(), z()})
		}
	}
	return m
}

// an EARLIER packet: every slot filled with non-zero data
func genMetricFull(r *verifx.Rng) metric {
	m := metric{Mask: 31, Name: genString(r, 40), Counter: math.Float64bits(float64(r.Range(1, 99))), Ts: uint32(r.Range(1, 1 << 30))}
	if len(m.Name) == 0 {
		m.Name = []byte("full")
	}
	for k, n := 0, r.Range(2, 4); k < n; k++ {
		m.Tags = append(m.Tags, [2][]byte{[]byte(strconv.Itoa(k)), []byte("val" + strconv.Itoa(r.Range(0, 99)))})
	}
	for k, n := 0, r.Range(2, 4); k < n; k++ {
		m.Value = append(m.Value, math.Float64bits(float64(r.Range(1, 99))))
		m.Unique = append(m.Unique, uint64(r.Range(1, 1 << 20)))
		m.Hist = append(m.Hist, [2]uint64{math.Float64bits(float64(r.Range(1, 99))), math.Float64bits(float64(r.Range(1, 9)))})
	}
	return m
}

// the receivers (UDP.Serve, TCP.receiveLoop) push every packet of a socket through ONE parser and ONE
// AddMetricsBatchBytes: what a packet decodes to must not depend on the packets before it
func runSequenceCase(h *verifx.H, r *verifx.Rng, run *runner) {
	n := r.Range(5, 9)
	prev := r.Intn(5)
	for k := 0; k < n; k++ {
		var ms []metric
		early := k < (n+1)/2
		nm := r.Range(1, 2)
		if early {
			nm = r.Range(2, 4)
		}
		for j := 0; j < nm; j++ {
			switch {
			case early && r.Chance(3, 4):
				ms = append(ms, genMetricFull(r))
			case early:
				mm := genMetric(r, true)
				if len(mm.Name) > 300 {
					mm.Name = []byte("long")
				}
				ms = append(ms, mm)
			default:
				ms = append(ms, genMetricZeroish(r))
			}
		}
		f := prev
		if r.Chance(1, 2) { // the same format twice in a row is what reuses the same slots
			f = r.Intn(5)
		}
		prev = f
		switch f {
		case 0:
			expectSame(h, "seq-tl", "tl", ms, run.dec(encTL(ms, 0), "seq-tl"))
		case 1:
			expectSame(h, "seq-msgpack", "msgpack", ms, run.dec(encMP(ms, &mpOpt{wideHdr: r.Intn(2), shuffle: r}), "seq-msgpack"))
		case 2:
			expectSame(h, "seq-pb", "pb", ms, run.dec(encPB(ms), "seq-pb"))
		case 3:
			expectSame(h, "seq-pb-hand", "pb", ms, run.dec(encPBHand(ms, &pbOpt{unpackedValue: r.Bool(), unpackedUnique: r.Bool(), splitPacked: r.Bool()}), "seq-pb-hand"))
		default:
			expectSame(h, "seq-json", "json", ms, run.dec(encJSON(ms), "seq-json"))
		}
	}
	h.NonTrivial("packet-sequence")
}

// ------------------------------------------------------------------ cases

func expectSame(h *verifx.H, what string, wantFmt string, want []metric, res result) {
	if res.status != "ok" {
		return // already reported by dec
	}
	if res.format != wantFmt {
		h.Viol("detect-"+wantFmt, "%s encoding of the batch was handled as %q", what, res.format)
		return
	}
	if res.cls != "ok" {
		h.Viol("reject-"+what, "valid %s encoding of the batch was rejected with %s", what, res.cls)
		return
	}
	// canonical text with the masks zeroed
	var got []string
	if res.text != "-" {
		for _, mt := range strings.Split(res.text, ";") {
			i := strings.IndexByte(mt, '|')
			got = append(got, "0"+mt[i:])
		}
	}
	if strings.Join(got, ";") != semText(want) {
		if wantFmt == "json" && onlyEscapedTagKeysDiffer(want, got) {
			// generated JSON reader of `dictionary`: keys are taken with UnsafeFieldName(skipUnescape=true)
			h.Viol("json-tag-key-not-unescaped", "%s: a tag key containing a JSON escape sequence is delivered with the escape sequence left in: want %s got %s", what, trunc(semText(want)), trunc(strings.Join(got, ";")))
			return
		}
		h.Viol("differs-"+what, "%s encoding decodes to a different batch: want %s got %s", what, trunc(semText(want)), trunc(strings.Join(got, ";")))
	}
}

// true iff `got` equals `want` except for tag keys that need (or commonly get) escaping in JSON
func onlyEscapedTagKeysDiffer(want []metric, got []string) bool {
	if len(want) != len(got) {
		return false
	}
	for i := range want {
		w := strings.Split(want[i].sem(), "|")
		g := strings.Split(got[i], "|")
		if len(g) != len(w) {
			return false
		}
		for k := range w {
			if k != 2 && w[k] != g[k] {
				return false
			}
		}
		if w[2] == g[2] {
			continue
		}
		wt, gt := strings.Split(w[2], ","), strings.Split(g[2], ",")
		if len(wt) != len(gt) {
			return false
		}
		for k := range wt {
			wkv, gkv := strings.SplitN(wt[k], ":", 2), strings.SplitN(gt[k], ":", 2)
			if len(wkv) != 2 || len(gkv) != 2 || wkv[1] != gkv[1] {
				return false
			}
			if wkv[0] != gkv[0] {
				key := verifx.UnHex(wkv[0])
				esc := false
				for _, c := range string(key) {
					if c < 0x20 || c == '"' || c == '\\' || c == '/' || c == '<' || c == '>' || c == '&' || c == 0x7f || c == 0x2028 || c == 0x2029 {
						esc = true
					}
				}
				if !esc {
					return false
				}
			}
		}
	}
	return true
}

func main() {
	h := verifx.New()
	if h.Mode == "child" {
		childMain()
		return
	}
	if h.Mode == "gen" {
		fmt.Printf("-- generated by verif-c13 -mode=gen from the working tree (constants as the compiler sees them)\nnamespace SH.Gen.C13\ndef maxTCPFrameBody : Nat := %d\nend SH.Gen.C13\n", receiver.MaxTCPFrameBody)
		return
	}
	log.SetOutput(io.Discard) // the receiver logs every framing error
	run := &runner{h: h}
	h.Cases(func(i int, r *verifx.Rng) {
		if run.crashes >= 12 && h.Only < 0 {
			// the verdict is settled (each crash is an oracle violation with its packet as replay); do not spend
			// minutes re-killing the child on the same defect
			h.Stat("case.skipped-after-12-crashes", 1)
			return
		}
		run.reset()
		kind := r.Pick(12, 4, 4, 1, 5)
		if h.Mode == "seq" {
			kind = 4
		}
		if h.Mode == "noise" {
			kind = 2
		}
		if h.Mode == "tcp" {
			kind = 3
		}
		switch kind {
		case 4:
			runSequenceCase(h, r, run)
		case 3:
			if tcpHangs >= 2 && h.Only < 0 {
				h.Stat("case.tcp-skipped-after-2-hangs", 1) // each hang costs the full deadline; two replays are enough
				return
			}
			runTCPCase(h, r)
		case 0: // one batch in every format
			finite := r.Chance(2, 3)
			nm := []int{0, 1, 2, 3, 4, 16}[r.Pick(1, 6, 4, 2, 1, 1)]
			var ms []metric
			for k := 0; k < nm; k++ {
				ms = append(ms, genMetric(r, finite))
			}
			h.Stat("batch.metrics", int64(nm))
			tlb, mpb, pbb := encTL(ms, 0), encMP(ms, &mpOpt{}), encPB(ms)
			h.Op("enc %s", batchText(ms))
			h.Obs("tl=%s mp=%s pb=%s", verifx.Hex(tlb), verifx.Hex(mpb), verifx.Hex(pbb))
			expectSame(h, "tl", "tl", ms, run.dec(tlb, "tl"))
			expectSame(h, "msgpack", "msgpack", ms, run.dec(mpb, "msgpack"))
			if nm == 0 {
				if res := run.dec(pbb, "pb"); res.status == "ok" && (res.format != "empty" || res.n != 0) {
					h.Viol("detect-pb-empty", "empty protobuf batch handled as %s with %d metrics", res.format, res.n)
				}
			} else {
				expectSame(h, "pb", "pb", ms, run.dec(pbb, "pb"))
			}
			if finite {
				expectSame(h, "json", "json", ms, run.dec(encJSON(ms), "json"))
				expectSame(h, "json-std", "json", ms, run.dec(encJSONStd(ms), "json"))
				h.Stat("batch.json", 1)
			}
			// the same batch as other client libraries lay it out
			nvar := 0
			for v := 0; v < 3; v++ {
				switch r.Intn(3) {
				case 0:
					o := &mpOpt{wideHdr: r.Intn(3), wideStr: r.Intn(4), binKeys: r.Bool(), wideInt: r.Bool(), f32: r.Bool(), dupValue: r.Chance(1, 6)}
					if r.Bool() {
						o.shuffle = r
					}
					if r.Chance(1, 3) {
						o.junk = r
					}
					expectSame(h, "msgpack-variant", "msgpack", ms, run.dec(encMP(ms, o), "msgpack-variant"))
					if o.junk != nil {
						h.Stat("variant.mp.skip", 1)
					}
				case 1:
					if nm == 0 {
						continue
					}
					o := &pbOpt{unpackedValue: r.Bool(), unpackedUnique: r.Bool(), explicitZero: r.Bool(), splitPacked: r.Bool(), longVarint: r.Chance(1, 4)}
					if r.Bool() {
						o.shuffle = r
					}
					if r.Chance(1, 3) {
						o.unknown = r
					}
					what := "pb-variant"
					if o.unpackedUnique {
						for k := range ms {
							if len(ms[k].Unique) != 0 {
								what = "pb-unpacked-unique"
							}
						}
					}
					expectSame(h, what, "pb", ms, run.dec(encPBHand(ms, o), what))
				default:
					mask := uint32(r.U64())
					ms2 := append([]metric(nil), ms...)
					for k := range ms2 {
						ms2[k].Mask |= uint32(r.U64()) &^ 31 // unknown mask bits must be ignored
					}
					expectSame(h, "tl-variant", "tl", ms2, run.dec(encTL(ms2, mask), "tl-variant"))
				}
				nvar++
			}
			// several batches in one packet (TL and MessagePack are self-delimiting)
			if nm > 0 && r.Chance(1, 3) {
				two := append(append([]metric(nil), ms...), ms...)
				expectSame(h, "tl-concat", "tl", two, run.dec(append(append([]byte(nil), tlb...), tlb...), "tl-concat"))
				expectSame(h, "msgpack-concat", "msgpack", two, run.dec(append(append([]byte(nil), mpb...), mpb...), "msgpack-concat"))
			}
			// packets that carry no metrics, decoded right after non-empty ones through the same batch object:
			// nothing of the previous batch may be delivered again
			empties := [][]byte{{0x80}, {0x81, 0xa1, 'x', 0xc0}, {0x81, 0xa7, 'm', 'e', 't', 'r', 'i', 'c', 's', 0x90}, {0x82, 0xa1, 'a', 0x01, 0xa1, 'b', 0x90},
				{0x08, 0x01}, {0x12, 0x00}, encTL(nil, 0), []byte("{}"), []byte(`{"metrics":[]}`)}
			for k := 0; k < 3; k++ {
				e := empties[r.Intn(len(empties))]
				if res := run.dec(e, "empty-after"); res.status == "ok" && res.n != 0 {
					h.Viol("stale-batch-state", "packet %s carries no metrics but %d were delivered: %s", verifx.Hex(e), res.n, trunc(res.text))
				}
				if k == 0 && nm > 0 { // and a non-empty one again, so that the next empty one follows data
					run.dec([][]byte{tlb, mpb, pbb}[r.Intn(3)], "refill")
				}
			}
			nfields := 0
			for k := range ms {
				if ms[k].Mask != 0 && len(ms[k].Tags) > 0 {
					nfields++
				}
			}
			if nm > 0 && nfields > 0 {
				h.NonTrivial("batch-all-formats")
			}
		case 1: // damaged encodings of a valid batch: truncations, flips, inserted length headers
			var ms []metric
			for k, nm := 0, r.Range(1, 2); k < nm; k++ {
				m := genMetric(r, true)
				if len(m.Name) > 300 {
					m.Name = m.Name[:300]
					for !utf8.Valid(m.Name) { // do not cut a rune in half: protobuf strings must be valid UTF-8
						m.Name = m.Name[:len(m.Name)-1]
					}
				}
				ms = append(ms, m)
			}
			encs := [][]byte{encTL(ms, 0), encMP(ms, &mpOpt{wideHdr: r.Intn(3), wideStr: r.Intn(3), junk: r}), encPB(ms),
				encPBHand(ms, &pbOpt{unpackedValue: true, unpackedUnique: r.Bool(), explicitZero: true, unknown: r}), encJSON(ms)}
			names := []string{"tl", "msgpack", "pb", "pb", "json"}
			deep := false
			for k := 0; k < 6; k++ {
				j := r.Intn(len(encs))
				p := encs[j]
				if r.Chance(1, 4) && len(p) > 1 { // every strict prefix is interesting for a length-prefixed format
					p = p[:r.Intn(len(p))]
				} else {
					p = mutate(r, p)
				}
				res := run.dec(p, "mutated-"+names[j])
				if res.status == "ok" && res.cls != "ok" && res.format != "json" {
					deep = true
				}
			}
			if deep {
				h.NonTrivial("mutation-rejected-inside")
			}
		default: // arbitrary bytes and length-header bombs
			for k := 0; k < 4; k++ {
				run.dec(noise(r), "noise")
			}
			var bombs [][]byte
			switch r.Intn(3) {
			case 0:
				bombs = mpBombs(r)
			case 1:
				bombs = tlBombs(r)
			default:
				bombs = pbBombs(r)
			}
			if run.crashes >= 3 && h.Only < 0 {
				bombs = nil // a defective tree dies on these every time; three replays are enough
				h.Stat("case.bombs-skipped-after-3-crashes", 1)
			}
			for _, b := range bombs {
				if r.Bool() {
					b = append(b, r.Bytes(r.Range(0, 16))...)
				}
				run.dec(b, "bomb")
			}
			for _, b := range targeted(r) {
				run.dec(b, "targeted")
			}
			h.NonTrivial("length-bombs")
		}
	})
	if run.c != nil {
		run.c.kill()
	}
	h.Done()
}
