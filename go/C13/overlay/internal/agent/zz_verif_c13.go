//go:build verif

package agent

// VerifC13NewItemValue returns a free-standing built-in item (not registered in any shard): the receiver's
// parser bumps such items per detected packet format, which is how the C13 harness observes format detection.
func VerifC13NewItemValue() *BuiltInItemValue { return &BuiltInItemValue{} }

// VerifC13ItemCount returns how many times AddValueCounter(…, 1) was called on the item.
func VerifC13ItemCount(v *BuiltInItemValue) float64 {
	v.mu.Lock()
	defer v.mu.Unlock()
	return v.value.Count()
}
