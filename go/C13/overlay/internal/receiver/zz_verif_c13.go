//go:build verif

package receiver

import (
	"github.com/VKCOM/statshouse/internal/agent"
	"github.com/VKCOM/statshouse/internal/data_model/gen2/tlstatshouse"
)

// VerifC13Parser wraps the real, unexported `parser` so that the C13 harness can call parser.parse — the
// single entry point every receiver (UDP, TCP, unixgram, HTTP) hands its packets to. No logic is copied:
// the per-format packet-size items that parse() bumps are real items, read back to learn which format
// branch of parse() was taken.
type VerifC13Parser struct {
	p     parser
	items map[string][2]*agent.BuiltInItemValue // format -> {ok, err}
	last  map[string][2]float64
}

func VerifC13NewParser() *VerifC13Parser {
	v := &VerifC13Parser{items: map[string][2]*agent.BuiltInItemValue{}, last: map[string][2]float64{}}
	n := agent.VerifC13NewItemValue
	v.p.packetSizeTLOK, v.p.packetSizeTLErr = n(), n()
	v.p.packetSizeJSONOK, v.p.packetSizeJSONErr = n(), n()
	v.p.packetSizeMsgPackOK, v.p.packetSizeMsgPackErr = n(), n()
	v.p.packetSizeProtobufOK, v.p.packetSizeProtobufErr = n(), n()
	v.p.packetSizeLegacyErr = n()
	v.p.packetSizeEmptyErr = n()
	v.items["tl"] = [2]*agent.BuiltInItemValue{v.p.packetSizeTLOK, v.p.packetSizeTLErr}
	v.items["json"] = [2]*agent.BuiltInItemValue{v.p.packetSizeJSONOK, v.p.packetSizeJSONErr}
	v.items["msgpack"] = [2]*agent.BuiltInItemValue{v.p.packetSizeMsgPackOK, v.p.packetSizeMsgPackErr}
	v.items["pb"] = [2]*agent.BuiltInItemValue{v.p.packetSizeProtobufOK, v.p.packetSizeProtobufErr}
	v.items["legacy"] = [2]*agent.BuiltInItemValue{v.p.packetSizeLegacyErr, v.p.packetSizeLegacyErr}
	v.items["empty"] = [2]*agent.BuiltInItemValue{v.p.packetSizeEmptyErr, v.p.packetSizeEmptyErr}
	return v
}

// Parse calls the real parser.parse and reports which format's packet-size items moved ("?" if none or several).
func (v *VerifC13Parser) Parse(h Handler, pkt []byte, batch *tlstatshouse.AddMetricsBatchBytes, scratch *[]byte) (format string, err error) {
	err = v.p.parse(h, nil, pkt, batch, scratch, "")
	format = ""
	for name, it := range v.items {
		cur := [2]float64{agent.VerifC13ItemCount(it[0]), agent.VerifC13ItemCount(it[1])}
		if cur != v.last[name] {
			if format == "" {
				format = name
			} else {
				format = "?"
			}
		}
		v.last[name] = cur
	}
	if format == "" {
		format = "?"
	}
	return format, err
}

func (v *VerifC13Parser) BatchesOK() uint64  { return v.p.StatBatchesTotalOK() }
func (v *VerifC13Parser) BatchesErr() uint64 { return v.p.StatBatchesTotalErr() }
