//go:build verif

// verif-c21: correspondence + direct oracle for the chunked storage file format (chunked_storage2.go) and the
// persistent mapping cache (pcache/mappings_cache.go).
//
// Case kinds (chosen per case index, see pickKind):
//
//	ck    op sequences on a real ChunkedStorage2 over a byte slice: new/read/next/reset/start/item/flush/fin with injected
//	      write failures, re-opening of truncated or corrupted copies, sampled truncation / bit-flip probes
//	ckx   a small multi-chunk file, then EVERY truncation offset and EVERY single-bit flip (thorough: all; quick: a slice)
//	mc    op sequences on a real MappingsCache: add/get/ttl/set/stats/save/reload(full|trunc|flip)/probe
//	mcx   a small saved cache file, then every truncation offset and single-bit flip loaded into a throw-away cache
//	raw   hand-crafted hash-valid files with malformed / unusual item streams, loaded by the real load()
//	big   few cases with > ChunkSize/2 of data (FinishItem threshold, "too big", multi-chunk Save)
//
// xxh3 is an external function of the model (DESIGN §4.7): the harness computes, with the real xxh3 and straight from the
// file-format comment of chunked_storage2.go, the hash of every structurally possible chunk position (`walk`) and passes
// the values as opaque tokens; the model decides accept / reject by comparing tokens with the stored bytes.
package main

import (
	"bytes"
	"encoding/binary"
	"errors"
	"fmt"
	"hash/adler32"
	"io"
	"sort"
	"strconv"
	"strings"

	"github.com/zeebo/xxh3"

	"github.com/VKCOM/statshouse/internal/data_model"
	"github.com/VKCOM/statshouse/internal/format"
	"github.com/VKCOM/statshouse/internal/pcache"
	"github.com/VKCOM/statshouse/internal/verifx"
	"github.com/VKCOM/statshouse/internal/vkgo/basictl"
)

const hdrSize = data_model.VerifChunkHeaderSize
const hashSize = data_model.VerifChunkHashSize

var h *verifx.H

// ---------------------------------------------------------------- tokens

// btok renders bytes: hex, "-" for empty, or r<count>x<bb>.<hex suffix> for a long run of one byte plus a short suffix.
func btok(b []byte) string {
	if len(b) > 48 {
		n := 0
		for n < len(b) && b[n] == b[0] {
			n++
		}
		if len(b)-n <= 16 && n > 32 {
			return fmt.Sprintf("r%dx%02x.%s", n, b[0], verifx.Hex(b[n:]))
		}
	}
	return verifx.Hex(b)
}

func digest(b []byte) string { return fmt.Sprintf("%d:%08x", len(b), adler32.Checksum(b)) }

func hashBytes(u xxh3.Uint128) []byte {
	var b [16]byte
	binary.BigEndian.PutUint64(b[:], u.Hi)
	binary.BigEndian.PutUint64(b[8:], u.Lo)
	return b[:]
}

// walk: the hash of every chunk position that is structurally possible when following the size fields from offset 0,
// chained through the STORED hash bytes (what a reader has in hand), as the format comment prescribes:
// hash = xxh3(previous 16 hash bytes ‖ magic ‖ size ‖ body), zeros before the first chunk.
func walk(file []byte) string {
	var out []string
	prev := make([]byte, hashSize)
	o := 0
	for o+hdrSize+hashSize <= len(file) {
		s := int(binary.LittleEndian.Uint32(file[o+4:]))
		if s > data_model.ChunkSize || o+hdrSize+s+hashSize > len(file) {
			break
		}
		in := append(append([]byte{}, prev...), file[o:o+hdrSize+s]...)
		out = append(out, verifx.Hex(hashBytes(xxh3.Hash128(in))))
		prev = file[o+hdrSize+s : o+hdrSize+s+hashSize]
		o += hdrSize + s + hashSize
	}
	if len(out) == 0 {
		return "_"
	}
	return strings.Join(out, ",")
}

func mkChunk(prev []byte, magic uint32, body []byte) (chunk []byte, hash []byte) {
	chunk = binary.LittleEndian.AppendUint32(chunk, magic)
	chunk = binary.LittleEndian.AppendUint32(chunk, uint32(len(body)))
	chunk = append(chunk, body...)
	hash = hashBytes(xxh3.Hash128(append(append([]byte{}, prev...), chunk...)))
	return append(chunk, hash...), hash
}

func chunkErrName(err error) string {
	if err == nil {
		return "ok"
	}
	s := err.Error()
	switch {
	case strings.Contains(s, "header overflows file size"):
		return "header-overflow"
	case strings.Contains(s, "invalid magic"):
		return "bad-magic"
	case strings.Contains(s, "overflows hard limit"):
		return "body-too-big"
	case strings.Contains(s, "overflows file size"):
		return "body-overflow"
	case strings.Contains(s, "wrong xxhash"):
		return "wrong-hash"
	case strings.Contains(s, "discarded chunk"):
		return "discarded"
	case strings.Contains(s, "write error"):
		return "write-failed"
	case strings.Contains(s, "too big item"):
		return "too-big"
	case errors.Is(err, io.ErrUnexpectedEOF):
		return "unexpected-eof"
	case strings.Contains(s, "padding"):
		return "bad-padding"
	case strings.Contains(s, "non-canonical"):
		return "non-canonical"
	}
	return "other:" + strings.ReplaceAll(s, " ", "_")
}

func guard(f func()) (panicked bool) {
	defer func() {
		if e := recover(); e != nil {
			panicked = true
			h.Obs("panic")
			h.Viol("panic", "real code panicked: %v", e)
		}
	}()
	f()
	return false
}

// ---------------------------------------------------------------- chunked storage

// readAllReal runs the documented protocol on a fresh storage over a copy of `file`: ReadNext until error or empty chunk.
func readAllReal(file []byte, magic uint32) (chunks [][]byte, end string) {
	cp := append([]byte{}, file...)
	st := data_model.NewChunkedStorage2Slice(&cp)
	for {
		c, err := st.ReadNext(magic)
		if err != nil {
			return chunks, chunkErrName(err)
		}
		if len(c) == 0 {
			return chunks, "nothing"
		}
		chunks = append(chunks, append([]byte{}, c...))
	}
}

// fastFile: one real storage (made by the real constructor) re-opened over changing contents, see VerifReopen.
type fastFile struct {
	buf    []byte
	st     *data_model.ChunkedStorage2
	readAt func(b []byte, offset int64) error
	n      int
}

func newFastFile() *fastFile {
	f := &fastFile{}
	f.st = data_model.NewChunkedStorage2Slice(&f.buf)
	f.readAt = f.st.ReadAt
	return f
}

func (f *fastFile) open(file []byte) *data_model.ChunkedStorage2 {
	f.buf = append(f.buf[:0], file...)
	f.st.VerifReopen(f.readAt, int64(len(f.buf)))
	f.n++
	return f.st
}

func (f *fastFile) readAll(file []byte, magic uint32) (chunks [][]byte, end string) {
	st := f.open(file)
	for {
		c, err := st.ReadNext(magic)
		if err != nil {
			return chunks, chunkErrName(err)
		}
		if len(c) == 0 {
			return chunks, "nothing"
		}
		chunks = append(chunks, append([]byte{}, c...))
	}
}

func framed(chunks [][]byte) []byte {
	var b []byte
	for _, c := range chunks {
		b = binary.LittleEndian.AppendUint32(b, uint32(len(c)))
		b = append(b, c...)
	}
	return b
}

func isPrefix(got, saved [][]byte) bool {
	if len(got) > len(saved) {
		return false
	}
	for i := range got {
		if !bytes.Equal(got[i], saved[i]) {
			return false
		}
	}
	return true
}

func flipBit(file []byte, bit int) []byte {
	cp := append([]byte{}, file...)
	cp[bit/8] ^= 1 << (bit % 8)
	return cp
}

// probe: read a damaged copy with the real reader; model does the same; oracle: prefix of the saved chunks.
func ckProbe(kind string, arg int, file []byte, magic uint32, saved [][]byte, fast *fastFile) {
	var mod []byte
	if kind == "trunc" {
		mod = file[:arg]
	} else {
		mod = flipBit(file, arg)
	}
	h.Op("ck probe %s %d %d %s", kind, arg, magic, walk(mod))
	guard(func() {
		var chunks [][]byte
		var end string
		if fast != nil {
			chunks, end = fast.readAll(mod, magic)
			if fast.n%64 == 1 { // cross-check the re-opened storage against a freshly constructed one
				c2, e2 := readAllReal(mod, magic)
				if e2 != end || !bytes.Equal(framed(c2), framed(chunks)) {
					h.Viol("harness-selfcheck", "re-opened storage and fresh storage disagree on %s %d", kind, arg)
				}
			}
		} else {
			chunks, end = readAllReal(mod, magic)
		}
		h.Obs("p %d %s %s", len(chunks), digest(framed(chunks)), end)
		if saved != nil {
			if !isPrefix(chunks, saved) {
				h.Viol("chunk-"+kind+"-not-prefix", "%s %d of a %d byte file: reader returned %d chunks that are not a prefix of the %d saved chunks", kind, arg, len(file), len(chunks), len(saved))
			}
			if kind == "flip" && len(chunks) == len(saved) && end == "nothing" {
				h.Viol("chunk-flip-undetected", "bit flip %d of a %d byte file was not detected", arg, len(file))
			}
		}
		h.Stat("ck.probe."+kind+".end."+end, 1)
	})
}

type ck struct {
	fp      *[]byte
	st      *data_model.ChunkedStorage2
	chunk   []byte
	fail    bool
	started bool
}

func (x *ck) open(file []byte) {
	cp := append([]byte{}, file...)
	x.fp = &cp
	x.st = data_model.NewChunkedStorage2Slice(x.fp)
	orig := x.st.WriteAt
	x.st.WriteAt = func(off int64, data []byte) error {
		if x.fail {
			x.fail = false
			return errors.New("injected write failure")
		}
		return orig(off, data)
	}
	x.chunk = nil
	x.started = false
	h.Op("ck new %s", btok(file))
	x.obsState("new")
}

func (x *ck) obsState(what string) {
	off, hash, done, werr := x.st.VerifState()
	pend := 0
	if x.started {
		pend = len(x.chunk) - hashSize - hdrSize
	}
	h.Obs("%s off=%d hash=%s done=%v werr=%v pending=%d file=%s", what, off, verifx.Hex(hash[:]), done, werr, pend, digest(*x.fp))
}

// the hash token for a write: xxh3(16 bytes before the write offset (zeros at offset 0) ‖ magic ‖ size ‖ body)
func (x *ck) writeToken(magic uint32) string {
	if !x.started || len(x.chunk) <= hashSize+hdrSize {
		return "_"
	}
	off, _, _, _ := x.st.VerifState()
	prev := make([]byte, hashSize)
	if off != 0 && int(off) <= len(*x.fp) && off >= hashSize {
		prev = (*x.fp)[off-hashSize : off]
	}
	body := x.chunk[hashSize+hdrSize:]
	c, hash := mkChunk(prev, magic, body)
	_ = c
	return verifx.Hex(hash)
}

func runCk(r *verifx.Rng, big bool) {
	magics := []uint32{data_model.ChunkedMagicMappings, data_model.ChunkedMagicJournal}
	magic := magics[r.Intn(2)]
	x := &ck{}
	var file []byte
	var saved [][]byte // what a full read of `file` must return (nil = unknown)
	saved = [][]byte{}
	rounds := r.Range(1, 3)
	if big {
		rounds = 1
	}
	for round := 0; round < rounds; round++ {
		// re-open, sometimes damaged
		openFile := file
		dmg := ""
		if len(file) > 0 && round > 0 {
			switch r.Pick(6, 2, 2) {
			case 1:
				openFile = file[:r.Intn(len(file))]
				dmg = "trunc"
			case 2:
				openFile = flipBit(file, r.Intn(len(file)*8))
				dmg = "flip"
			}
		}
		x.open(openFile)
		h.Stat("ck.open."+map[string]string{"": "intact", "trunc": "trunc", "flip": "flip"}[dmg], 1)
		// read
		var got [][]byte
		readEnded := false
		readMagic := magic
		if r.Chance(1, 12) {
			readMagic = magics[r.Intn(2)] ^ uint32(r.Intn(2))
		}
		switch r.Pick(8, 3, 1) {
		case 0:
			h.Op("ck read %d %s", readMagic, walk(openFile))
			guard(func() {
				for {
					c, err := x.st.ReadNext(readMagic)
					if err != nil {
						h.Obs("end %s", chunkErrName(err))
						h.Stat("ck.read.end."+chunkErrName(err), 1)
						readEnded = true
						break
					}
					if len(c) == 0 {
						h.Obs("end nothing")
						h.Stat("ck.read.end.nothing", 1)
						readEnded = true
						break
					}
					got = append(got, append([]byte{}, c...))
					h.Obs("chunk %s", digest(c))
				}
				x.obsState("read")
			})
		case 1:
			n := r.Range(1, 5)
			for i := 0; i < n; i++ {
				h.Op("ck next %d %s", readMagic, walk(openFile))
				guard(func() {
					c, err := x.st.ReadNext(readMagic)
					switch {
					case err != nil:
						h.Obs("next err %s", chunkErrName(err))
						readEnded = true
					case len(c) == 0:
						h.Obs("next nothing")
						readEnded = true
					default:
						got = append(got, append([]byte{}, c...))
						h.Obs("next chunk %s", digest(c))
					}
					x.obsState("next")
				})
			}
		case 2: // no reading at all: the writer starts at offset 0
			readEnded = true
		}
		if saved != nil && readMagic == magic && !isPrefix(got, saved) {
			h.Viol("chunk-"+map[string]string{"": "roundtrip", "trunc": "trunc-not-prefix", "flip": "flip-not-prefix"}[dmg], "re-opened file (%s): reader returned chunks that are not a prefix of the saved ones", dmg)
		}
		// write: append after what was read, or rewrite the whole file
		base := got
		oracleOn := readEnded
		if r.Chance(1, 3) {
			h.Op("ck reset")
			x.st.ResetToStartOfFile()
			x.obsState("reset")
			base = nil
			oracleOn = true
		}
		h.Op("ck start %d", magic)
		x.chunk = x.st.StartWriteChunk(magic, 0)
		x.started = true
		x.obsState("start")
		expect := append([][]byte{}, base...)
		clean := true
		nitems := r.Range(0, 7)
		if big {
			nitems = r.Range(2, 4)
		}
		for i := 0; i < nitems; i++ {
			var item []byte
			if big {
				sizes := []int{data_model.ChunkSize/2 - 1 - (len(x.chunk) - 24), data_model.ChunkSize/2 - (len(x.chunk) - 24), 300000, 524290, data_model.ChunkSize + 1 - (len(x.chunk) - 24), 100,
					data_model.ChunkSize - (len(x.chunk) - 24), data_model.ChunkSize - (len(x.chunk) - 24)}
				sz := sizes[r.Intn(len(sizes))]
				if sz <= 0 {
					sz = 70000
				}
				item = append(bytes.Repeat([]byte{byte(r.Intn(256))}, sz-min(sz, 4)), r.Bytes(min(sz, 4))...)
			} else {
				item = r.Bytes(r.Pick(1, 6, 3, 1) * r.Range(1, 9))
			}
			failNow := r.Chance(1, 14)
			op := r.Pick(5, 4)
			if big {
				op = 0
			}
			body := append(append([]byte{}, x.chunk[24:]...), item...)
			x.fail = failNow
			x.chunk = append(x.chunk, item...)
			tok := x.writeToken(magic)
			if op == 0 {
				h.Op("ck item %s %d %s", btok(item), b2i(failNow), tok)
			} else {
				h.Op("ck flush %s %d %s", btok(item), b2i(failNow), tok)
			}
			guard(func() {
				offBefore, _, _, _ := x.st.VerifState()
				var err error
				if op == 0 {
					x.chunk, err = x.st.FinishItem(x.chunk)
				} else {
					x.chunk, err = x.st.VerifFinishChunk(x.chunk)
				}
				x.fail = false
				offAfter, _, _, _ := x.st.VerifState()
				h.Obs("w %s", chunkErrName(err))
				h.Stat("ck.write."+chunkErrName(err), 1)
				x.obsState("st")
				if err != nil {
					clean = false
				} else if offAfter != offBefore {
					expect = append(expect, body)
					h.Stat("ck.chunks-written", 1)
				}
			})
		}
		failNow := r.Chance(1, 20)
		x.fail = failNow
		body := append([]byte{}, x.chunk[24:]...)
		h.Op("ck fin %d %s", b2i(failNow), x.writeToken(magic))
		guard(func() {
			offBefore, _, _, _ := x.st.VerifState()
			err := x.st.FinishWriteChunk(x.chunk)
			x.fail = false
			offAfter, _, _, _ := x.st.VerifState()
			h.Obs("w %s", chunkErrName(err))
			h.Stat("ck.fin."+chunkErrName(err), 1)
			x.started = false
			x.obsState("st")
			if err != nil {
				clean = false
			} else if offAfter != offBefore {
				expect = append(expect, body)
				h.Stat("ck.chunks-written", 1)
			}
		})
		file = append([]byte{}, (*x.fp)...)
		if clean && oracleOn {
			saved = expect
			// direct oracle: reloading yields exactly the saved chunks
			chunks, end := readAllReal(file, magic)
			tooBig := false
			for _, c := range expect {
				if len(c) > data_model.ChunkSize {
					tooBig = true
				}
			}
			if !tooBig && (end != "nothing" || len(chunks) != len(expect) || !isPrefix(chunks, expect)) {
				h.Viol("chunk-roundtrip", "wrote %d chunks, full read returned %d chunks end=%s", len(expect), len(chunks), end)
			}
			if len(expect) >= 2 {
				h.NonTrivial("multi-chunk")
			}
		} else {
			saved = nil // after a failed write the tail of the file is unspecified (it is truncated by the next successful save)
			h.NonTrivial("write-error")
		}
		// sampled probes
		if len(file) > 0 && !big {
			for i := 0; i < 4; i++ {
				ckProbe("trunc", r.Intn(len(file)+1), file, magic, saved, nil)
				ckProbe("flip", r.Intn(len(file)*8), file, magic, saved, nil)
			}
		}
		if big && len(file) > 0 {
			ckProbe("trunc", len(file)-1, file, magic, saved, nil)
			ckProbe("flip", r.Intn(len(file)*8), file, magic, saved, nil)
		}
		if dmg != "" {
			h.NonTrivial("reopen-" + dmg)
		}
	}
}

func b2i(b bool) int {
	if b {
		return 1
	}
	return 0
}

// ckx: a small multi-chunk file, then the exhaustive slice.
func runCkx(r *verifx.Rng, all bool) {
	magic := uint32(data_model.ChunkedMagicJournal)
	x := &ck{}
	x.open(nil)
	h.Op("ck start %d", magic)
	x.chunk = x.st.StartWriteChunk(magic, 0)
	x.started = true
	x.obsState("start")
	var expect [][]byte
	n := r.Range(1, 4)
	for i := 0; i <= n; i++ {
		item := r.Bytes(r.Range(1, 24))
		if r.Chance(1, 4) {
			item = bytes.Repeat([]byte{0}, r.Range(1, 12)) // zero bodies: size / magic flips meet zero bytes
		}
		x.chunk = append(x.chunk, item...)
		body := append([]byte{}, x.chunk[24:]...)
		tok := x.writeToken(magic)
		if i < n {
			h.Op("ck flush %s 0 %s", btok(item), tok)
			x.chunk, _ = x.st.VerifFinishChunk(x.chunk)
		} else {
			h.Op("ck item %s 0 _", btok(item))
			x.chunk, _ = x.st.FinishItem(x.chunk)
			h.Obs("w ok")
			x.obsState("st")
			h.Op("ck fin 0 %s", tok)
			_ = x.st.FinishWriteChunk(x.chunk)
			x.started = false
		}
		h.Obs("w ok")
		x.obsState("st")
		expect = append(expect, body)
	}
	file := append([]byte{}, (*x.fp)...)
	chunks, end := readAllReal(file, magic)
	if end != "nothing" || len(chunks) != len(expect) || !isPrefix(chunks, expect) {
		h.Viol("chunk-roundtrip", "wrote %d chunks, full read returned %d chunks end=%s", len(expect), len(chunks), end)
	}
	h.NonTrivial("exhaustive-chunks")
	stepT, stepF := 1, 1
	if !all {
		stepT, stepF = 2, 5
	}
	fast := newFastFile()
	for t := r.Intn(stepT); t <= len(file); t += stepT {
		ckProbe("trunc", t, file, magic, expect, fast)
	}
	for b := r.Intn(stepF); b < len(file)*8; b += stepF {
		ckProbe("flip", b, file, magic, expect, fast)
	}
	h.Stat("ckx.file-bytes", int64(len(file)))
}

// ---------------------------------------------------------------- mapping cache

type mc struct {
	c        *pcache.MappingsCache
	fp       *[]byte
	maxSize  int64
	maxTTL   int
	det      bool
	test     bool
	added    map[string]map[int32]bool
	saved    map[string]pcache.VerifItem // contents at the moment of the last Save that wrote the file (nil = none / unknown)
	raw      bool                        // cache was loaded from a crafted file: value oracle off
	scratch  []byte                      // the one reused "receive buffer" all GetValueBytes keys are slices of
	scratchN int
	getN     int
	saveN    int
}

func sortItems(items []pcache.VerifItem) {
	sort.Slice(items, func(i, j int) bool { return items[i].Str < items[j].Str })
}

func listing(items []pcache.VerifItem) []byte {
	var b []byte
	for _, it := range items {
		b = binary.LittleEndian.AppendUint32(b, uint32(len(it.Str)))
		b = append(b, it.Str...)
		b = binary.LittleEndian.AppendUint32(b, uint32(it.Value))
		b = binary.LittleEndian.AppendUint32(b, it.AccessTS)
	}
	return b
}

func stLine(c *pcache.MappingsCache) (string, []pcache.VerifItem, int64, int64) {
	items, sumSize, sumTS, version, lastSaved := c.VerifSnapshot()
	sortItems(items)
	s := fmt.Sprintf("n=%d size=%d ts=%d ver=%d saved=%d d=%08x", len(items), sumSize, sumTS, version, lastSaved, adler32.Checksum(listing(items)))
	if len(items) <= 8 {
		var ss []string
		for _, it := range items {
			ss = append(ss, fmt.Sprintf("%s=%d@%d", verifx.Hex([]byte(it.Str)), it.Value, it.AccessTS))
		}
		if len(ss) == 0 {
			ss = []string{"_"}
		}
		s += " items=" + strings.Join(ss, ",")
	}
	return s, items, sumSize, sumTS
}

func isMarker(v int32) bool {
	return v == 0 || v == format.TagValueIDMappingFlood || v == format.TagValueIDDoesNotExist
}

// state observation + the accounting / marker / value oracles on the real cache
func (x *mc) obs(op string) (sumSize int64) {
	line, items, sumSize, sumTS := stLine(x.c)
	h.Obs("st %s", line)
	var wantSize, wantTS int64
	for _, it := range items {
		wantSize += pcache.VerifElementSizeMem(it.Str)
		wantTS += int64(it.AccessTS)
		if !x.raw {
			if len(it.Str) == 0 || isMarker(it.Value) {
				h.Viol("cache-marker-value", "after %s the cache holds %q -> %d", op, it.Str, it.Value)
			}
			if !x.added[it.Str][it.Value] {
				h.Viol("cache-wrong-value", "after %s the cache maps %q to %d which was never added for it", op, it.Str, it.Value)
			}
		}
	}
	if wantSize != sumSize || wantTS != sumTS {
		h.Viol("cache-accounting", "after %s: sumSize=%d but the elements sum to %d; sumTS=%d but the access times sum to %d (%d elements)", op, sumSize, wantSize, sumTS, wantTS, len(items))
	}
	return sumSize
}

func keysTok(items []pcache.VerifItem) string {
	if len(items) == 0 {
		return "_"
	}
	ss := make([]string, len(items))
	for i, it := range items {
		ss[i] = btok([]byte(it.Str))
	}
	return strings.Join(ss, ",")
}

func (x *mc) newCache(file []byte) error {
	cp := append([]byte{}, file...)
	x.fp = &cp
	c, err := pcache.LoadMappingsCacheSlice(x.fp, x.maxSize)
	c.VerifSetModes(x.det, x.test)
	x.c = c
	return err
}

func (x *mc) add(now uint32, pairs []pcache.MappingPair) {
	var ss []string
	dup := false
	seen := map[string]bool{}
	for _, p := range pairs {
		ss = append(ss, fmt.Sprintf("%s=%d", btok([]byte(p.Str)), p.Value))
		if x.added[p.Str] == nil {
			x.added[p.Str] = map[int32]bool{}
		}
		x.added[p.Str][p.Value] = true
		if seen[p.Str] {
			dup = true
		}
		seen[p.Str] = true
	}
	if len(ss) == 0 {
		ss = []string{"_"}
	}
	_, _, before, _ := stLine(x.c)
	x.c.VerifResetItemCache()
	cp := append([]pcache.MappingPair{}, pairs...)
	panicked := false
	func() {
		defer func() {
			if e := recover(); e != nil {
				panicked = true
				h.Op("mc add %d %s _", now, strings.Join(ss, ","))
				h.Obs("panic")
				h.Viol("panic-add", "AddValues panicked: %v", e)
			}
		}()
		x.c.AddValues(now, cp)
	}()
	if panicked {
		return
	}
	cands := x.c.VerifItemCache()
	h.Op("mc add %d %s %s", now, strings.Join(ss, ","), keysTok(cands))
	after := x.obs("add")
	if len(cands) > 0 {
		h.Stat("mc.add.evict-branch", 1)
		h.NonTrivial("evict")
	}
	if dup {
		h.Stat("mc.add.dup-in-call", 1)
	}
	bound := x.maxSize
	if before > bound {
		bound = before
	}
	if after > bound {
		h.Viol("cache-size-bound", "AddValues grew the cache to sumSize=%d although maxSize=%d and it was %d before", after, x.maxSize, before)
	}
}

// lookupBytes: GetValueBytes the way the agent's receive loop calls it — the key is a slice of ONE reused scratch buffer,
// and the buffer is overwritten with other content right after the call.  The cache must not depend on the caller's
// buffer after the call returned (Go strings are values; the model has no aliasing).
func (x *mc) lookupBytes(ts uint32, key string) (int32, bool) {
	if x.scratch == nil {
		x.scratch = make([]byte, 0, 1<<17)
	}
	x.scratch = append(x.scratch[:0], key...)
	v, ok := x.c.GetValueBytes(ts, x.scratch[:len(key)])
	before, _, _, _ := stLine(x.c)
	// the next packet arrives into the same buffer
	x.scratchN++
	for i := range x.scratch {
		switch x.scratchN % 3 {
		case 0:
			x.scratch[i] ^= 0x55
		case 1:
			x.scratch[i] = 'z' - x.scratch[i]%26
		default:
			x.scratch[i] = byte(i*7 + x.scratchN)
		}
	}
	x.scratch = append(x.scratch, "next-packet-bytes"...)
	after, _, _, _ := stLine(x.c)
	if before != after {
		h.Viol("key-aliases-caller-buffer", "GetValueBytes(%q): overwriting the caller's buffer after the call changed the cache: %s -> %s", key, before, after)
	}
	return v, ok
}

func (x *mc) get(ts uint32, key string) {
	h.Op("mc get %d %s", ts, btok([]byte(key)))
	guard(func() {
		// which variant performs the access-time refresh (slow path) alternates; the other one then sees the refreshed entry
		x.getN++
		bytesFirst := x.getN%2 == 1
		var v, v2 int32
		var ok, ok2 bool
		if bytesFirst {
			for _, it := range x.snapshotMap() {
				if it.Str == key && it.AccessTS < ts {
					h.Stat("mc.get.bytes-refresh", 1)
				}
			}
			v2, ok2 = x.lookupBytes(ts, key)
			v, ok = x.c.GetValue(ts, key)
		} else {
			v, ok = x.c.GetValue(ts, key)
			v2, ok2 = x.lookupBytes(ts, key)
		}
		if ok2 != ok || v2 != v {
			h.Viol("cache-getbytes-differs", "GetValueBytes(%q) = %d,%v but GetValue = %d,%v (bytes variant first: %v)", key, v2, ok2, v, ok, bytesFirst)
		}
		if bytesFirst {
			v, ok = v2, ok2 // the observation is what the variant that did the work returned
		}
		if ok {
			h.Obs("get %d", v)
			h.Stat("mc.get.hit", 1)
			if !x.raw {
				if isMarker(v) {
					h.Viol("cache-marker-value", "GetValue(%q) returned the marker value %d", key, v)
				}
				if !x.added[key][v] {
					h.Viol("cache-wrong-value", "GetValue(%q) returned %d which was never added for this string", key, v)
				}
			}
		} else {
			h.Obs("get miss")
			h.Stat("mc.get.miss", 1)
		}
		x.obs("get")
	})
}

func (x *mc) snapshotMap() map[string]pcache.VerifItem {
	items, _, _, _, _ := x.c.VerifSnapshot()
	m := map[string]pcache.VerifItem{}
	for _, it := range items {
		m[it.Str] = it
	}
	return m
}

// the keys of a saved single- or multi-chunk mapping file in file order (basictl decoding of the chunk bodies)
func fileOrder(file []byte) string {
	chunks, _ := readAllReal(file, data_model.ChunkedMagicMappings)
	var ss []string
	for _, c := range chunks {
		for len(c) != 0 {
			var s string
			var v int32
			var ts uint32
			var err error
			if c, err = basictl.StringRead(c, &s); err != nil {
				return "?"
			}
			if c, err = basictl.IntRead(c, &v); err != nil {
				return "?"
			}
			if c, err = basictl.NatRead(c, &ts); err != nil {
				return "?"
			}
			ss = append(ss, btok([]byte(s)))
		}
	}
	if len(ss) == 0 {
		return "_"
	}
	return strings.Join(ss, ",")
}

// failedSaveFirst: a Save whose first write to the file fails, immediately before the Save the op sequence asks for (which is
// then the RETRY). Nothing reaches the file (the one write is refused) and no cache content changes, so model and op stream
// are unaffected; what the oracle demands is that the failure is not remembered as a success: the retry must not answer
// "nothing to save" (round 7: lastSavedVersion advanced before the write).
func (x *mc) failedSaveFirst() {
	items, _, _, ver, last := x.c.VerifSnapshot()
	if len(items) == 0 || ver == last {
		return
	}
	st := x.c.VerifStorage()
	orig := st.WriteAt
	before := digest(*x.fp)
	st.WriteAt = func(off int64, data []byte) error { return errors.New("injected write failure") }
	ok, err := x.c.Save()
	st.WriteAt = orig
	h.Stat(fmt.Sprintf("mc.save.injected-failure.%v.%s", ok, chunkErrName(err)), 1)
	if err == nil || ok {
		h.Viol("save-failure-swallowed", "Save returned ok=%v err=%v although every write to the file was refused (%d elements to save)", ok, err, len(items))
		return
	}
	if digest(*x.fp) != before {
		h.Viol("harness-selfcheck", "the refused write changed the file")
	}
	_, _, _, ver2, last2 := x.c.VerifSnapshot()
	if ver2 == last2 {
		h.Viol("save-failure-forgotten", "after a Save that failed (%v) the cache counts version %d as saved: the retry will answer nothing-to-save while the file does not hold the %d elements", err, ver2, len(items))
	}
	h.NonTrivial("failed-save-then-retry")
}

func (x *mc) save() {
	guard(func() {
		x.saveN++
		if x.saveN%3 == 0 {
			x.failedSaveFirst()
		}
		ok, err := x.c.Save()
		order := "sorted"
		if !x.det && ok {
			order = fileOrder(*x.fp)
		}
		h.Op("mc save %s %s", order, walk(*x.fp))
		h.Obs("save %v %s file=%s", ok, chunkErrName(err), digest(*x.fp))
		h.Stat(fmt.Sprintf("mc.save.%v", ok), 1)
		x.obs("save")
		if ok && err == nil {
			x.saved = x.snapshotMap()
			// direct oracle: a reload of the file just written has the same contents
			cp := append([]byte{}, (*x.fp)...)
			c2, lerr := pcache.LoadMappingsCacheSlice(&cp, x.maxSize)
			items2, _, _, _, _ := c2.VerifSnapshot()
			same := lerr == nil && len(items2) == len(x.saved)
			for _, it := range items2 {
				if x.saved[it.Str] != it {
					same = false
				}
			}
			if !same {
				h.Viol("cache-reload-differs", "reloading the file just saved gives %d elements (err=%v), the cache had %d", len(items2), lerr, len(x.saved))
			}
			if len(walk(*x.fp)) > 40 {
				h.NonTrivial("multi-chunk-save")
			}
		}
	})
}

func modFile(file []byte, kind string, arg int) []byte {
	switch kind {
	case "trunc":
		return append([]byte{}, file[:arg]...)
	case "flip":
		return flipBit(file, arg)
	}
	return append([]byte{}, file...)
}

// checks a cache loaded from a damaged copy of the saved file against the contents at save time
func (x *mc) checkDamaged(kind string, arg int, items []pcache.VerifItem, err error, fileLen int) {
	if x.saved == nil {
		return
	}
	for _, it := range items {
		if x.saved[it.Str] != it {
			h.Viol("cache-reload-damaged", "%s %d of the %d byte saved file: loaded %q -> %d@%d which was not saved", kind, arg, fileLen, it.Str, it.Value, it.AccessTS)
			return
		}
	}
	if kind == "flip" && err == nil && fileLen > 0 {
		h.Viol("cache-flip-undetected", "bit flip %d of the %d byte saved file loaded without error", arg, fileLen)
	}
	if kind == "full" && (err != nil || len(items) != len(x.saved)) {
		h.Viol("cache-reload-differs", "reloading the saved file gives %d elements (err=%v), %d were saved", len(items), err, len(x.saved))
	}
}

func (x *mc) reload(kind string, arg int) {
	mod := modFile(*x.fp, kind, arg)
	fileLen := len(*x.fp)
	h.Op("mc reload %s %d %d %s", kind, arg, x.maxSize, walk(mod))
	guard(func() {
		err := x.newCache(mod)
		h.Obs("load %s", chunkErrName(err))
		h.Stat("mc.reload."+kind+"."+chunkErrName(err), 1)
		x.obs("reload")
		items, _, _, _, _ := x.c.VerifSnapshot()
		x.checkDamaged(kind, arg, items, err, fileLen)
		if kind != "full" {
			h.NonTrivial("damaged-reload")
			x.saved = nil // the file on disk is now the damaged one
		}
	})
	h.Op("mc set %d %d", x.maxSize, x.maxTTL)
	x.c.SetSizeTTL(x.maxSize, x.maxTTL)
	x.obs("set")
}

func (x *mc) probe(kind string, arg int, fast *fastFile) {
	mod := modFile(*x.fp, kind, arg)
	h.Op("mc probe %s %d %d %s", kind, arg, x.maxSize, walk(mod))
	guard(func() {
		var c2 *pcache.MappingsCache
		var err error
		if fast != nil {
			c2, err = pcache.VerifLoad(fast.open(mod), x.maxSize)
			if fast.n%64 == 1 {
				cp := append([]byte{}, mod...)
				c3, err3 := pcache.LoadMappingsCacheSlice(&cp, x.maxSize)
				l2, _, _, _ := stLine(c2)
				l3, _, _, _ := stLine(c3)
				if l2 != l3 || chunkErrName(err) != chunkErrName(err3) {
					h.Viol("harness-selfcheck", "VerifLoad and LoadMappingsCacheSlice disagree on %s %d", kind, arg)
				}
			}
		} else {
			cp := append([]byte{}, mod...)
			c2, err = pcache.LoadMappingsCacheSlice(&cp, x.maxSize)
		}
		line, items, _, _ := stLine(c2)
		h.Obs("probe %s %s", chunkErrName(err), line)
		h.Stat("mc.probe."+kind+"."+chunkErrName(err), 1)
		x.checkDamaged(kind, arg, items, err, len(*x.fp))
	})
}

func (x *mc) ttl(maxCount int, now uint32) {
	guard(func() {
		x.c.VerifResetItemCache()
		x.c.RemoveByTTL(maxCount, now)
		removed := x.c.VerifItemCache()
		h.Op("mc ttl %d %d %s", maxCount, now, keysTok(removed))
		x.obs("ttl")
		if len(removed) > 0 {
			h.Stat("mc.ttl.removed", int64(len(removed)))
			h.NonTrivial("ttl-evict")
		}
	})
}

func (x *mc) stats() {
	h.Op("mc stats")
	n, sumSize, _, adds, evicts, _, _ := x.c.Stats()
	h.Obs("stats n=%d size=%d adds=%d evicts=%d", n, sumSize, adds, evicts)
}

func keyUniverse(r *verifx.Rng, n int) []string {
	var ks []string
	for i := 0; i < n; i++ {
		var l int
		switch r.Pick(10, 3, 1) {
		case 0:
			l = r.Range(1, 9)
		case 1:
			l = r.Range(10, 40)
		case 2:
			l = []int{250, 251, 252, 253, 254, 255, 256, 257, 300}[r.Intn(9)]
		}
		b := r.Bytes(l)
		if r.Chance(1, 3) { // printable
			for j := range b {
				b[j] = 'a' + b[j]%26
			}
		}
		if l > 200 {
			copy(b, bytes.Repeat([]byte{b[0]}, l-4))
		}
		ks = append(ks, string(b))
	}
	return ks
}

func pickValue(r *verifx.Rng) int32 {
	switch r.Pick(12, 1, 1, 1, 1) {
	case 1:
		return 0
	case 2:
		return format.TagValueIDMappingFlood
	case 3:
		return format.TagValueIDDoesNotExist
	case 4:
		return []int32{2147483647, -2147483648, -3, 256, 65536, 16777216}[r.Intn(6)]
	}
	return int32(r.Range(1, 60))
}

func runMc(r *verifx.Rng) {
	x := &mc{added: map[string]map[int32]bool{}}
	keys := keyUniverse(r, r.Range(3, 12))
	unit := pcache.VerifElementSizeMem(keys[0])
	switch r.Pick(2, 5, 2, 1) {
	case 0:
		x.maxSize = int64(r.Range(0, 3)) * unit
	case 1:
		x.maxSize = int64(r.Range(2, 8))*unit + int64(r.Range(-1, 1))
	case 2:
		x.maxSize = int64(r.Range(100, 1500))
	case 3:
		x.maxSize = 1 << 20
	}
	if r.Chance(1, 3) {
		x.maxTTL = r.Range(1, 40)
	}
	x.det = r.Chance(2, 3)
	x.test = r.Chance(1, 2)
	now := uint32(r.Range(100, 5000))
	h.Op("mc new %d %d %d", x.maxSize, x.maxTTL, b2i(x.det))
	_ = x.newCache(nil)
	x.c.SetSizeTTL(x.maxSize, x.maxTTL)
	x.obs("new")
	h.Stat(fmt.Sprintf("mc.mode.det=%v", x.det), 1)
	nops := r.Range(6, 40)
	for i := 0; i < nops; i++ {
		now += uint32(r.Pick(3, 4, 2, 1) * r.Range(0, 6))
		switch r.Pick(40, 22, 8, 6, 3, 9, 7, 5) {
		case 0:
			n := r.Pick(1, 6, 5, 4, 2, 1)
			var pairs []pcache.MappingPair
			for j := 0; j < n; j++ {
				k := keys[r.Intn(len(keys))]
				if r.Chance(1, 25) {
					k = ""
				}
				if len(pairs) > 0 && r.Chance(1, 30) {
					k = pairs[r.Intn(len(pairs))].Str // the same string twice in one call
				}
				pairs = append(pairs, pcache.MappingPair{Str: k, Value: pickValue(r)})
			}
			at := now
			if r.Chance(1, 8) {
				at = now - uint32(r.Range(1, 50)) // historic bucket time
			}
			x.add(at, pairs)
			h.Stat("mc.op.add", 1)
		case 1:
			k := keys[r.Intn(len(keys))]
			if r.Chance(1, 2) {
				if items, _, _, _, _ := x.c.VerifSnapshot(); len(items) > 0 {
					sortItems(items)
					k = items[r.Intn(len(items))].Str
				}
			}
			if r.Chance(1, 20) {
				k = string(r.Bytes(r.Range(0, 3)))
			}
			x.get(now+uint32(r.Pick(3, 3, 1)*r.Range(0, 3))-uint32(r.Pick(5, 1)*r.Range(0, 9)), k)
			h.Stat("mc.op.get", 1)
		case 2:
			x.ttl(r.Pick(1, 3, 3)*r.Range(0, 6)-r.Pick(9, 1), now+uint32(r.Range(0, 60)))
			h.Stat("mc.op.ttl", 1)
		case 3:
			switch r.Pick(3, 2, 1, 1) {
			case 0:
				x.maxSize = int64(r.Range(0, 9))*unit + int64(r.Range(-1, 1))
			case 1:
				x.maxSize = x.maxSize / 2
			case 2:
				x.maxSize = int64(r.Range(-40, 40))
			case 3:
				x.maxSize = int64(r.Range(500, 3000))
			}
			if r.Chance(1, 2) {
				x.maxTTL = r.Pick(1, 2) * r.Range(1, 40)
			}
			h.Op("mc set %d %d", x.maxSize, x.maxTTL)
			x.c.SetSizeTTL(x.maxSize, x.maxTTL)
			x.obs("set")
			h.Stat("mc.op.set", 1)
		case 4:
			x.stats()
		case 5:
			x.save()
			h.Stat("mc.op.save", 1)
		case 6:
			n := len(*x.fp)
			switch {
			case n == 0 || r.Chance(1, 2):
				x.reload("full", 0)
			case r.Bool():
				x.reload("trunc", r.Intn(n+1))
			default:
				x.reload("flip", r.Intn(n*8))
			}
			h.Stat("mc.op.reload", 1)
		case 7:
			if n := len(*x.fp); n > 0 {
				for j := 0; j < 3; j++ {
					x.probe("trunc", r.Intn(n+1), nil)
					x.probe("flip", r.Intn(n*8), nil)
				}
			}
		}
	}
}

// mcx: a small saved cache, then every truncation offset and single-bit flip of the saved file.
func runMcx(r *verifx.Rng, all bool) {
	x := &mc{added: map[string]map[int32]bool{}, maxSize: 4000, det: true, test: true}
	keys := keyUniverse(r, r.Range(1, 5))
	h.Op("mc new %d %d %d", x.maxSize, x.maxTTL, 1)
	_ = x.newCache(nil)
	x.obs("new")
	var pairs []pcache.MappingPair
	for _, k := range keys {
		if len(k) > 60 {
			k = k[:r.Range(1, 7)]
		}
		pairs = append(pairs, pcache.MappingPair{Str: k, Value: int32(r.Range(1, 1000))})
	}
	x.add(uint32(r.Range(1, 3000)), pairs)
	x.save()
	n := len(*x.fp)
	stepT, stepF := 1, 1
	if !all {
		stepT, stepF = 2, 5
	}
	fast := newFastFile()
	for t := r.Intn(stepT); t <= n; t += stepT {
		x.probe("trunc", t, fast)
	}
	for b := r.Intn(stepF); b < n*8; b += stepF {
		x.probe("flip", b, fast)
	}
	h.NonTrivial("exhaustive-cache-file")
	h.Stat("mcx.file-bytes", int64(n))
}

// raw: crafted hash-valid files.
func encItemGo(k string, v int32, ts uint32) []byte {
	b := basictl.StringWrite(nil, k)
	b = basictl.IntWrite(b, v)
	return basictl.NatWrite(b, ts)
}

func runRaw(r *verifx.Rng) {
	x := &mc{added: map[string]map[int32]bool{}, maxSize: int64(r.Range(0, 600)), det: r.Bool(), test: false, raw: true}
	keys := keyUniverse(r, r.Range(2, 6))
	var file []byte
	prev := make([]byte, hashSize)
	nchunks := r.Range(1, 3)
	for ci := 0; ci < nchunks; ci++ {
		var body []byte
		nitems := r.Range(0, 4)
		if nitems == 0 && r.Chance(2, 3) {
			nitems = 1
		}
		for j := 0; j < nitems; j++ {
			k := keys[r.Intn(len(keys))]
			if r.Chance(1, 10) {
				k = ""
			}
			item := encItemGo(k, pickValue(r), uint32(r.Range(0, 5000)))
			switch r.Pick(14, 2, 2, 2, 1, 1, 1) {
			case 1: // cut the item short
				item = item[:r.Intn(len(item))]
			case 2: // damage a padding / length byte
				item[r.Intn(min(len(item), 8))] ^= byte(1 << r.Intn(8))
			case 3: // non canonical medium string
				item = append([]byte{254, byte(r.Range(0, 253)), 0, 0}, item[1:]...)
			case 4: // huge marker with a small or absurd length
				item = append([]byte{255, byte(r.Intn(256)), byte(r.Intn(2)), 0, byte(r.Intn(2)), 0, 0, 0}, item[1:]...)
			case 5: // medium string of canonical length
				kk := strings.Repeat("m", r.Range(254, 262))
				item = encItemGo(kk, int32(r.Range(1, 9)), 7)
			case 6: // medium marker, header cut
				item = []byte{254, 1}
			}
			body = append(body, item...)
		}
		magic := uint32(data_model.ChunkedMagicMappings)
		if r.Chance(1, 15) {
			magic = data_model.ChunkedMagicJournal
		}
		c, hash := mkChunk(prev, magic, body)
		if r.Chance(1, 15) {
			hash = hashBytes(xxh3.Hash128(c)) // chain broken: hash without the previous hash
			c = append(c[:len(c)-hashSize], hash...)
		}
		file = append(file, c...)
		prev = hash
	}
	if r.Chance(1, 8) {
		file = append(file, r.Bytes(r.Range(1, 30))...)
	}
	h.Op("mc loadraw %s %d %d %s", btok(file), x.maxSize, b2i(x.det), walk(file))
	guard(func() {
		err := x.newCache(file)
		h.Obs("load %s", chunkErrName(err))
		h.Stat("raw.load."+chunkErrName(err), 1)
		x.obs("loadraw")
		if err != nil && err.Error() != "" {
			h.NonTrivial("raw-" + chunkErrName(err))
		}
	})
	now := uint32(r.Range(100, 6000))
	for i := 0; i < r.Range(2, 8); i++ {
		switch r.Pick(3, 3, 2, 1) {
		case 0:
			x.get(now, keys[r.Intn(len(keys))])
		case 1:
			x.add(now, []pcache.MappingPair{{Str: keys[r.Intn(len(keys))], Value: pickValue(r)}, {Str: keys[r.Intn(len(keys))], Value: pickValue(r)}})
		case 2:
			x.save()
		case 3:
			x.reload("full", 0)
		}
		now += uint32(r.Range(0, 5))
	}
}

// big: a cache whose saved file needs more than one chunk (FinishItem threshold inside Save).
func runBigMc(r *verifx.Rng) {
	x := &mc{added: map[string]map[int32]bool{}, maxSize: 1 << 30, det: r.Bool(), test: false}
	h.Op("mc new %d %d %d", x.maxSize, 0, b2i(x.det))
	_ = x.newCache(nil)
	x.obs("new")
	klen := r.Range(50000, 70000)
	n := (data_model.ChunkSize/2)/(klen+12) + r.Range(2, 5)
	for start := 0; start < n; start += 4 {
		var pairs []pcache.MappingPair
		for j := start; j < n && j < start+4; j++ {
			k := append(bytes.Repeat([]byte{'k'}, klen-4), byte(j>>8), byte(j), byte(j*7), 'z')
			pairs = append(pairs, pcache.MappingPair{Str: string(k), Value: int32(j + 1)})
		}
		x.add(uint32(1000+start/4), pairs)
	}
	x.save()
	x.reload("full", 0)
	x.save() // unchanged after load: version == lastSavedVersion
	flen := len(*x.fp)
	x.probe("trunc", flen-1, nil)
	x.probe("trunc", flen/2+100, nil)
	x.probe("flip", r.Intn(flen*8), nil)
	x.get(2000, string(append(bytes.Repeat([]byte{'k'}, klen-4), 0, 1, 7, 'z')))
}

// ---------------------------------------------------------------- main

func genLean() {
	var b strings.Builder
	b.WriteString("-- GENERATED by `verif-c21 -mode=gen` from /repo on every bin/check run. Do not edit.\n")
	b.WriteString("namespace SH.Gen.C21\n")
	fmt.Fprintf(&b, "def chunkSize : Nat := %d\n", data_model.ChunkSize)
	fmt.Fprintf(&b, "def chunkHeaderSize : Nat := %d\n", data_model.VerifChunkHeaderSize)
	fmt.Fprintf(&b, "def chunkHashSize : Nat := %d\n", data_model.VerifChunkHashSize)
	fmt.Fprintf(&b, "def chunkedMagicMappings : Nat := %d\n", uint32(data_model.ChunkedMagicMappings))
	fmt.Fprintf(&b, "def tagValueIDMappingFlood : Int := %d\n", format.TagValueIDMappingFlood)
	fmt.Fprintf(&b, "def tagValueIDDoesNotExist : Int := %d\n", format.TagValueIDDoesNotExist)
	b.WriteString("/-- (len, elementSizeMem(string of that length)) as the compiled code computes it -/\n")
	b.WriteString("def elementSizeMemSamples : List (Nat × Nat) := [")
	lens := []int{0, 1, 2, 3, 4, 5, 6, 7, 8, 9, 15, 16, 17, 100, 253, 254, 255, 256, 1000, 1023, 4096}
	for i, l := range lens {
		if i > 0 {
			b.WriteString(", ")
		}
		fmt.Fprintf(&b, "(%d, %d)", l, pcache.VerifElementSizeMem(strings.Repeat("x", l)))
	}
	b.WriteString("]\n")
	b.WriteString("/-- (len, len(basictl.StringWrite(nil, string of that length))) -/\n")
	b.WriteString("def tlStringLenSamples : List (Nat × Nat) := [")
	for i, l := range lens {
		if i > 0 {
			b.WriteString(", ")
		}
		fmt.Fprintf(&b, "(%d, %d)", l, len(basictl.StringWrite(nil, strings.Repeat("x", l))))
	}
	b.WriteString("]\n")
	b.WriteString("end SH.Gen.C21\n")
	fmt.Print(b.String())
}

func main() {
	h = verifx.New()
	if h.Mode == "gen" {
		genLean()
		return
	}
	thorough := h.Tier == "thorough"
	_ = strconv.Itoa
	h.Cases(func(i int, r *verifx.Rng) {
		kind := ""
		switch {
		case h.Mode != "":
			kind = h.Mode
		case i%300 == 299:
			kind = "bigmc"
		case i%100 == 49:
			kind = "bigck"
		case i%10 == 9:
			kind = "ckx"
		case i%10 == 8:
			kind = "mcx"
		case i%10 == 7:
			kind = "raw"
		case i%10 < 3:
			kind = "ck"
		default:
			kind = "mc"
		}
		h.Stat("kind."+kind, 1)
		switch kind {
		case "ck":
			runCk(r, false)
		case "bigck":
			runCk(r, true)
		case "ckx":
			runCkx(r, thorough)
		case "mc":
			runMc(r)
		case "mcx":
			runMcx(r, thorough)
		case "raw":
			runRaw(r)
		case "bigmc":
			runBigMc(r)
		}
	})
	h.Done()
}
