//go:build verif

package pcache

import (
	"github.com/VKCOM/statshouse/internal/data_model"
)

// Thin accessors for the C21 harness (compiled into the package through `go build -overlay`).
// No logic of the cache is copied here.

type VerifItem struct {
	Str      string
	Value    int32
	AccessTS uint32
}

// VerifSetModes sets the two test switches of the cache (both are plain fields read under the locks).
func (c *MappingsCache) VerifSetModes(deterministic bool, testMode bool) {
	c.deterministic = deterministic
	c.testMode = testMode
}

// VerifSnapshot copies the map and the accounting fields under the read lock.
func (c *MappingsCache) VerifSnapshot() (items []VerifItem, sumSize int64, sumTS int64, version uint64, lastSaved uint64) {
	c.modifyMu.Lock()
	defer c.modifyMu.Unlock()
	c.mu.RLock()
	defer c.mu.RUnlock()
	for k, v := range c.cache {
		items = append(items, VerifItem{Str: k, Value: v.value, AccessTS: v.accessTS})
	}
	return items, c.sumSize, c.sumTS, c.version, c.lastSavedVersion
}

// VerifItemCache returns the scratch slice left by the last AddValues (sorted eviction candidates)
// or RemoveByTTL (expired items found among the visited ones).
func (c *MappingsCache) VerifItemCache() (items []VerifItem) {
	c.modifyMu.Lock()
	defer c.modifyMu.Unlock()
	for _, p := range c.itemCache {
		items = append(items, VerifItem{Str: p.str, Value: p.val.value, AccessTS: p.val.accessTS})
	}
	return items
}

// VerifResetItemCache empties the scratch slice so that a call that does not touch it is recognisable.
func (c *MappingsCache) VerifResetItemCache() {
	c.modifyMu.Lock()
	defer c.modifyMu.Unlock()
	c.itemCache = c.itemCache[:0]
}

func (c *MappingsCache) VerifLimits() (maxSize int64, maxTTL int64, gran int) {
	return c.maxSize.Load(), c.maxTTL.Load(), c.accessTSGran
}

func (c *MappingsCache) VerifStorage() *data_model.ChunkedStorage2 { return c.storage }

func VerifElementSizeMem(s string) int64 { return elementSizeMem(s) }

// VerifLoad is LoadMappingsCacheSlice for an already constructed storage (see ChunkedStorage2.VerifReopen).
func VerifLoad(storage *data_model.ChunkedStorage2, maxSize int64) (*MappingsCache, error) {
	c := NewMappingsCache(storage, maxSize, 0)
	return c, c.load(storage)
}
