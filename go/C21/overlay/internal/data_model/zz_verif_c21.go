//go:build verif

package data_model

// Thin accessors for the C21 harness (compiled into the package through `go build -overlay`).

const VerifChunkHeaderSize = chunkHeaderSize
const VerifChunkHashSize = chunkHashSize

// VerifFinishChunk calls the unexported finishChunk (what FinishItem calls once half of the chunk is used),
// so that small multi-chunk files can be produced.
func (c *ChunkedStorage2) VerifFinishChunk(chunk []byte) ([]byte, error) { return c.finishChunk(chunk) }

func (c *ChunkedStorage2) VerifState() (offset int64, hash [16]byte, readDone bool, writeErr bool) {
	putHash(hash[:], c.hash)
	return c.offset, hash, c.ReadAt == nil, c.writeErr != nil
}

// VerifReopen makes c look freshly constructed by NewChunkedStorage2Slice over the same *[]byte, whose contents the caller
// has replaced: positions cleared, ReadAt (the closure the real constructor made, saved by the caller) restored, file size
// re-measured. Only the 1 MiB scratch buffer is re-used (allocating it per damage probe dominates the run time otherwise).
func (c *ChunkedStorage2) VerifReopen(readAt func(b []byte, offset int64) error, size int64) {
	*c = ChunkedStorage2{scratch: c.scratch, ReadAt: readAt, WriteAt: c.WriteAt, Truncate: c.Truncate, initialFileSize: size}
}
