//go:build verif

package agent

import (
	"pgregory.net/rand"

	"github.com/VKCOM/statshouse/internal/data_model"
)

// Thin accessors for the C07 harness (/verif). No logic under test lives here.

// VerifC07NewShard builds a Shard that can receive events for second `now` without an Agent behind it
// (metricInfo == nil, timestamps == now: no code path touches s.agent).
func VerifC07NewShard(seed uint64, now uint32) *Shard {
	s := &Shard{rng: rand.New(seed), CurrentTime: now, SendTime: now}
	for i := range s.SuperQueue {
		s.SuperQueue[i] = &data_model.MetricsBucket{}
	}
	return s
}

func VerifC07Rng(s *Shard) *rand.Rand { return s.rng }

func VerifC07SetStringTopCapacity(s *Shard, capacity int) {
	s.mu.Lock()
	s.config.StringTopCapacity = capacity
	s.mu.Unlock()
}

// VerifC07Items returns every MultiItem currently held in the shard's super queue.
func VerifC07Items(s *Shard) []*data_model.MultiItem {
	s.mu.Lock()
	defer s.mu.Unlock()
	var res []*data_model.MultiItem
	for _, b := range s.SuperQueue {
		for _, it := range b.MultiItems {
			res = append(res, it)
		}
	}
	return res
}
