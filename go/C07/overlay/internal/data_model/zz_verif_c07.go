//go:build verif

package data_model

// Thin accessors for the C07 harness (/verif). No logic under test lives here.

// VerifSFLog2 returns the unexported sample factor exponent of a string-top row.
func VerifSFLog2(s *MultiItem) int { return s.sampleFactorLog2 }

// VerifDefaultStringTopCapacity is the constant MapStringTop substitutes for capacity < 1.
func VerifDefaultStringTopCapacity() int { return DefaultStringTopCapacity }
