//go:build verif

// verif-c07: correspondence + direct oracle for string-top rows (property C07).
//
// Every case drives ONE real data_model.MultiItem, either directly (MapStringTop / MapStringTopBytes followed by the
// MultiValue call an agent shard would make) or through the real agent.Shard entry points (ApplyCounter, AddCounterHost,
// AddValueCounterHost, ApplyValues, MergeItemValue), then FinishStringTop.  The random draws and the map order of the
// real code are not predictable, so each op line carries a WITNESS computed from the observed pre/post state
// (number of resample rounds, which keys were evicted, the Float64 the rng was about to produce, an enumeration
// consistent with the outcome of the unstable sort); the Lean model replays the op with that witness and must arrive at
// exactly the same row.  An illegal outcome (evicting a key with count >= sf, keeping a lighter key in finish, losing
// weight) makes the model disagree; the direct oracle below checks the property itself without any model.
package main

import (
	"bytes"
	"fmt"
	"math"
	"sort"
	"os"
	"strconv"
	"strings"
	"time"

	"pgregory.net/rand"

	"github.com/VKCOM/statshouse/internal/agent"
	"github.com/VKCOM/statshouse/internal/data_model"
	"github.com/VKCOM/statshouse/internal/format"
	"github.com/VKCOM/statshouse/internal/verifx"
)

type tag = data_model.TagUnion

type agg struct {
	cnt, sum, mn, mx float64
	set              bool
}

func aggOf(mv *data_model.MultiValue) agg {
	return agg{mv.Value.Count(), mv.Value.ValueSum, mv.Value.ValueMin, mv.Value.ValueMax, mv.Value.ValueSet}
}

// Exact domain: counts and values are multiples of 1/16 (unit16), sums of value*count multiples of 1/256 (unit256); the
// protocol and the Lean model carry them as integers in those units.
const (
	unit16  = 16
	unit256 = 256
)

// q converts a generator number (in 1/16 units) to the float64 handed to the real code
func q(x int64) float64 { return float64(x) / unit16 }

// fs prints a float as an integer number of 1/scale units; a float outside the exact domain is rendered so that it
// cannot match the model
func fs(x float64, scale float64) string {
	y := x * scale
	if y != math.Trunc(y) || math.Abs(y) > 1<<53 {
		return fmt.Sprintf("inexact(%v)", x)
	}
	return strconv.FormatInt(int64(y), 10)
}

func (a agg) String() string {
	s := 0
	if a.set {
		s = 1
	}
	return fmt.Sprintf("%s:%s:%s:%s:%d", fs(a.cnt, unit16), fs(a.sum, unit256), fs(a.mn, unit16), fs(a.mx, unit16), s)
}

func keyStr(k tag) string { return verifx.Hex([]byte(k.S)) + "." + strconv.Itoa(int(k.I)) }

func keyLess(a, b tag) bool {
	if a.I != b.I {
		return a.I < b.I
	}
	return bytes.Compare([]byte(a.S), []byte(b.S)) < 0
}

func sortedKeys(m map[tag]agg) []tag {
	ks := make([]tag, 0, len(m))
	for k := range m {
		ks = append(ks, k)
	}
	sort.Slice(ks, func(i, j int) bool { return keyLess(ks[i], ks[j]) })
	return ks
}

func keyList(ks []tag) string {
	ss := make([]string, len(ks))
	for i, k := range ks {
		ss[i] = keyStr(k)
	}
	return verifx.List(ss)
}

// ---------------------------------------------------------------- the row under test

type row struct {
	shard *agent.Shard // nil: direct path
	item  *data_model.MultiItem
	rng   *rand.Rand
	bad   string
	// the []byte flavour is driven the way its real callers do (agent ingestion-status path, aggregator
	// MergeWithTLMultiItem): the top value arrives in ONE receive buffer that is overwritten by the next event, and
	// sometimes by unrelated bytes right after the call.  A key stored in Top must be a copy of it.
	buf      [48]byte
	scribble bool
	dups     int // keys the real map yielded more than once while ranging (impossible for a healthy map)
}


const now = 100000
const metricID = 7

func (r *row) cur() *data_model.MultiItem {
	if r.shard == nil {
		return r.item
	}
	items := agent.VerifC07Items(r.shard)
	switch len(items) {
	case 0:
		return nil
	case 1:
		return items[0]
	}
	r.bad = fmt.Sprintf("%d multi items in shard", len(items))
	return items[0]
}

func snapshot(it *data_model.MultiItem) (top map[tag]agg, tail agg, sf int) {
	top, tail, sf, _ = snapshotD(it)
	return
}

// snapshotD also reports how many entries the range over the real map yielded beyond the distinct keys
func snapshotD(it *data_model.MultiItem) (top map[tag]agg, tail agg, sf int, dups int) {
	top = map[tag]agg{}
	if it == nil {
		return
	}
	for k, v := range it.Top {
		kc := tag{S: strings.Clone(k.S), I: k.I} // never keep a reference into memory owned by the row's keys
		if _, ok := top[kc]; ok {
			dups++
		}
		top[kc] = aggOf(v)
	}
	return top, aggOf(&it.Tail), data_model.VerifSFLog2(it), dups
}

type event struct {
	kind string // c v vs m
	v, c int64   // in 1/16 units
	vs   []int64 // in 1/16 units
	iv   data_model.ItemValue
}

func (e event) tokens() string {
	switch e.kind {
	case "c":
		return fmt.Sprintf("c %d", e.c)
	case "v":
		return fmt.Sprintf("v %d %d", e.v, e.c)
	case "vs":
		return fmt.Sprintf("vs %d %s", e.c, verifx.List(e.vs))
	default:
		s := 0
		if e.iv.ValueSet {
			s = 1
		}
		return fmt.Sprintf("m %s %s %s %s %d", fs(e.iv.Count(), unit16), fs(e.iv.ValueSum, unit256), fs(e.iv.ValueMin, unit16), fs(e.iv.ValueMax, unit16), s)
	}
}

func floats(xs []int64) []float64 {
	fs := make([]float64, len(xs))
	for i, x := range xs {
		fs[i] = q(x)
	}
	return fs
}

func shardKey(k tag) *data_model.Key {
	key := &data_model.Key{Timestamp: now, Metric: metricID}
	key.Tags[1] = 5
	key.Tags[format.StringTopTagIndexV3] = k.I
	key.STags[format.StringTopTagIndexV3] = k.S
	return key
}

// write performs one event on the real code; returns the *MultiValue the event went to when that is observable
func (r *row) write(api string, capacity int, k tag, count float64, e event, host tag, viaApply bool) (mv *data_model.MultiValue) {
	if r.shard == nil {
		if api == "b" {
			var view []byte
			if len(k.S) <= len(r.buf) {
				n := copy(r.buf[:], k.S) // overwrites the bytes of the previous top value
				view = r.buf[:n:n]
			} else {
				view = []byte(k.S)
			}
			mv = r.item.MapStringTopBytes(r.rng, capacity, data_model.TagUnionBytes{S: view, I: k.I}, count)
			if r.scribble {
				for i := range r.buf {
					r.buf[i] = 0xEE ^ byte(i)
				}
			}
		} else {
			mv = r.item.MapStringTop(r.rng, capacity, k, count)
		}
		switch e.kind {
		case "c":
			mv.AddCounterHost(r.rng, q(e.c), host)
		case "v":
			mv.AddValueCounterHost(r.rng, q(e.v), q(e.c), host)
		case "vs":
			mv.ApplyValues(r.rng, nil, floats(e.vs), q(e.c), float64(len(e.vs)), host, data_model.AgentPercentileCompression, false)
		case "m":
			iv := e.iv
			mv.Value.Merge(r.rng, &iv)
		}
		return mv
	}
	agent.VerifC07SetStringTopCapacity(r.shard, capacity)
	key := shardKey(k)
	switch e.kind {
	case "c":
		if viaApply {
			r.shard.ApplyCounter(key, 0, q(e.c), host, nil, 0)
		} else {
			r.shard.AddCounterHost(key, 0, q(e.c), host, nil, 0)
		}
	case "v":
		r.shard.AddValueCounterHost(key, 0, q(e.v), q(e.c), host, nil, 0)
	case "vs":
		r.shard.ApplyValues(key, 0, nil, floats(e.vs), q(e.c), host, nil, 0)
	case "m":
		iv := e.iv
		r.shard.MergeItemValue(key, 0, &iv, nil, 0)
	}
	return nil
}

// ---------------------------------------------------------------- direct oracle state: totals of all events written

type totals struct {
	cnt, sum int64 // cnt in 1/16 units, sum in 1/256 units
	mn, mx   int64 // 1/16 units
	set      bool
	off      bool // a non-positive count was written: "the count of the event" is outside the property's domain
}

func (t *totals) val(v int64) {
	if !t.set || v < t.mn {
		t.mn = v
	}
	if !t.set || v > t.mx {
		t.mx = v
	}
	t.set = true
}

func (t *totals) add(e event) {
	switch e.kind {
	case "c":
		if e.c <= 0 {
			t.off = true
			return
		}
		t.cnt += e.c
	case "v":
		if e.c <= 0 {
			t.off = true
			return
		}
		t.cnt += e.c
		t.sum += e.v * e.c
		t.val(e.v)
	case "vs":
		if len(e.vs) == 0 {
			return
		}
		if e.c <= 0 {
			t.off = true
			return
		}
		s := int64(0)
		for _, v := range e.vs {
			s += v
			t.val(v)
		}
		t.cnt += e.c
		t.sum += s * e.c / int64(len(e.vs)) // (sum of values)·count/len in 1/256 units; the generator keeps the division exact
	case "m":
		if e.iv.Count() <= 0 {
			t.off = true
			return
		}
		t.cnt += int64(e.iv.Count() * unit16)
		if e.iv.ValueSet {
			t.sum += int64(e.iv.ValueSum * unit256)
			t.val(int64(e.iv.ValueMin * unit16))
			t.val(int64(e.iv.ValueMax * unit16))
		}
	}
}

// checkTotals: counts, sums, mins and maxes over retained top values plus the tail equal those of all events written
func checkTotals(h *verifx.H, where string, t *totals, top map[tag]agg, tail agg) {
	if t.off {
		return
	}
	all := []agg{tail}
	for _, a := range top {
		all = append(all, a)
	}
	var cnt, sum float64
	var mn, mx float64
	set := false
	for _, a := range all {
		cnt += a.cnt
		sum += a.sum
		if a.set {
			if !set || a.mn < mn {
				mn = a.mn
			}
			if !set || a.mx > mx {
				mx = a.mx
			}
			set = true
		}
	}
	if cnt*unit16 != float64(t.cnt) {
		h.Viol("conservation-count", "%s: top+tail count %v, events written %v", where, cnt, float64(t.cnt)/unit16)
	}
	if sum*unit256 != float64(t.sum) {
		h.Viol("conservation-sum", "%s: top+tail sum %v, events written %v", where, sum, float64(t.sum)/unit256)
	}
	if set != t.set {
		h.Viol("conservation-minmax", "%s: top+tail has values=%v, events written have values=%v", where, set, t.set)
	} else if set {
		if mn*unit16 != float64(t.mn) {
			h.Viol("conservation-min", "%s: top+tail min %v, events written %v", where, mn, float64(t.mn)/unit16)
		}
		if mx*unit16 != float64(t.mx) {
			h.Viol("conservation-max", "%s: top+tail max %v, events written %v", where, mx, float64(t.mx)/unit16)
		}
	}
}

// ---------------------------------------------------------------- generator

type gen struct {
	r         *verifx.Rng
	nkeys     int
	salt      int
	countMode int
	valMode   int
	hosts     bool
	degen     bool
	bin       []byte
	fracC     bool  // counts carry a fractional part (multiples of 1/16)
	fracV     bool  // values carry a fractional part
	uniform   bool  // uniform instead of Zipf key choice
	simple    bool  // counter and value events only
	clusterB  int64 // countMode 3: every count lies in [clusterB, clusterB+1)
	// countMode 4: near-ties around a heavy base: base + k·step, |k| ≤ 3, with steps taken from the grids on which a
	// comparator could plausibly round (1/16 = the finest grid of the exact domain, 1, half a float32 ulp, a float32 ulp)
	heavyBase  int64   // in 1/16 units
	heavySteps []int64 // in 1/16 units
	countersOnly bool
}

// ulp32 is the spacing of float32 at x (x a power of two ≥ 2^24 here), an integer
func ulp32(x int64) int64 {
	e := 0
	for v := x; v > 1; v >>= 1 {
		e++
	}
	return int64(1) << uint(e-23)
}

func (g *gen) key() tag {
	if g.r.Chance(1, 25) {
		return tag{} // empty: goes to the tail
	}
	// log-uniform rank ~ Zipf(1)
	j := int(math.Pow(float64(g.nkeys), float64(g.r.Intn(1000))/1000.0)) - 1
	if g.uniform || g.r.Chance(1, 6) {
		j = g.r.Intn(g.nkeys)
	}
	switch (j + g.salt) % 5 {
	case 0:
		return tag{S: "s" + strconv.Itoa(j)}
	case 1:
		return tag{I: int32(j + 1)}
	case 2:
		return tag{S: "dup", I: int32(j)} // normalises to {I: j}: collides with the case-1 key of rank j-1
	case 3:
		return tag{S: string(g.bin) + string(rune('A'+j%26)) + strconv.Itoa(j/26)}
	default:
		return tag{I: int32(-j - 1)}
	}
}

// count in 1/16 units
func (g *gen) count() int64 {
	if g.degen && g.r.Chance(1, 8) {
		return int64(-g.r.Intn(3)) // 0, -1/16, -2/16
	}
	var c int64
	switch g.countMode {
	case 0:
		c = int64(g.r.Range(1, 3))
	case 1:
		c = int64(g.r.Range(1, 64))
	case 3:
		return g.clusterB*unit16 + int64(g.r.Intn(unit16)) // several values less than 1 apart
	case 4:
		return g.heavyBase + int64(g.r.Range(-3, 3))*g.heavySteps[g.r.Intn(len(g.heavySteps))]
	default:
		c = int64(1) << uint(g.r.Intn(13))
	}
	c *= unit16
	if g.fracC {
		switch g.r.Intn(3) {
		case 0:
			c += int64(g.r.Intn(unit16)) // c + j/16
		case 1:
			c -= int64(g.r.Intn(unit16)) // just below: (c-1, c]
		}
	}
	return c
}

// value in 1/16 units
func (g *gen) value() int64 {
	var v int64
	switch g.valMode {
	case 0:
		v = int64(g.r.Range(-1000, 1000))
	case 1:
		v = int64(g.r.Range(0, 9))
	default:
		v = int64(g.r.Range(-(1 << 20), 1<<20))
	}
	v *= unit16
	if g.fracV {
		v += int64(g.r.Intn(unit16))
	}
	return v
}

func (g *gen) host() tag {
	if !g.hosts {
		return tag{}
	}
	return tag{I: int32(g.r.Intn(4))}
}

func (g *gen) event(shard bool) event {
	if g.simple {
		if g.countersOnly || g.r.Bool() {
			return event{kind: "c", c: g.count()}
		}
		return event{kind: "v", v: g.value(), c: g.count()}
	}
	switch g.r.Pick(40, 35, 15, 10) {
	case 0:
		return event{kind: "c", c: g.count()}
	case 1:
		return event{kind: "v", v: g.value(), c: g.count()}
	case 2:
		n := g.r.Range(1, 5)
		if !shard && g.degen && g.r.Chance(1, 6) {
			n = 0
		}
		vs := make([]int64, n)
		for i := range vs {
			vs[i] = g.value()
		}
		mult := int64(1)
		if g.r.Chance(1, 3) {
			mult = int64(g.r.Range(2, 4))
		}
		c := int64(n) * mult * unit16 // a multiple of the array length: ValueSum*count/len stays exact
		if n == 0 {
			c = unit16
		}
		return event{kind: "vs", vs: vs, c: c}
	default:
		var iv data_model.ItemValue
		switch g.r.Intn(3) {
		case 0:
			iv = data_model.SimpleItemCounter(q(g.count()), g.host())
		case 1:
			iv = data_model.SimpleItemValue(q(g.value()), q(g.count()), g.host())
		default:
			c := g.count()
			if c <= 0 {
				c = unit16
			}
			iv = data_model.SimpleItemValue(q(g.value()), q(c), g.host())
			iv.AddValueCounter(q(g.value()), q(g.count()))
		}
		return event{kind: "m", iv: iv}
	}
}

// ---------------------------------------------------------------- one case

func runCase(h *verifx.H, i int, r *verifx.Rng) {
	g := &gen{r: r, salt: r.Intn(5), countMode: r.Pick(40, 35, 25), valMode: r.Intn(3), hosts: r.Bool(), degen: r.Chance(1, 12),
		bin: r.Bytes(r.Range(0, 2)), fracC: r.Bool(), fracV: r.Bool()}
	shard := r.Chance(2, 5)
	rw := &row{}
	seed := r.U64()
	if shard {
		rw.shard = agent.VerifC07NewShard(seed, now)
		rw.rng = agent.VerifC07Rng(rw.shard)
		h.Stat("path.shard", 1)
	} else {
		rw.item = &data_model.MultiItem{}
		rw.rng = rand.New(seed)
		h.Stat("path.direct", 1)
	}
	// capacity policy
	capFixed, capVary := 0, false
	nops := r.Range(5, 120)
	switch r.Pick(30, 22, 4, 13, 9, 12, 10) {
	case 0:
		capFixed = r.Range(1, 6)
		g.nkeys = capFixed + r.Range(0, 3*capFixed+3)
		h.Stat("cap.1-6", 1)
	case 1:
		capFixed = r.Range(7, 20)
		g.nkeys = capFixed + r.Range(0, 2*capFixed)
		nops = r.Range(20, 250)
		h.Stat("cap.7-20", 1)
	case 2:
		capFixed = -r.Intn(3) // 0, -1, -2: DefaultStringTopCapacity
		g.nkeys = r.Range(90, 220)
		nops = r.Range(150, 500)
		g.countMode = r.Pick(50, 50, 0)
		h.Stat("cap.default", 1)
	case 3:
		capVary = true
		g.nkeys = r.Range(2, 24)
		h.Stat("cap.varying", 1)
	case 4:
		capFixed = r.Range(30, 60)
		g.nkeys = r.Range(1, 25)
		h.Stat("cap.roomy", 1)
	case 6:
		// many distinct very heavy top values that are near-ties on coarser grids (adjacent integers ≥ 2^24 collapse in
		// float32, fractions collapse in int), no eviction, finish cuts through the cluster.  Counters only and bases
		// ≤ 2^40 so that every sum stays exact in float64 (the bases beyond that are in -mode=heavy, oracle only).
		nops = r.Range(4, 50)
		capFixed = 1000
		g.nkeys = 3 * nops
		g.uniform, g.simple, g.countersOnly, g.degen = true, true, true, false
		g.countMode = 4
		b := []int64{1 << 24, 1 << 24, 1 << 25, 1 << 31, 1 << 40}[r.Intn(5)]
		g.heavyBase = b * unit16
		all := []int64{1, unit16, ulp32(b) * unit16 / 2, ulp32(b) * unit16}
		g.heavySteps = [][]int64{all, {1}, {unit16}, {ulp32(b) * unit16 / 2, unit16}}[r.Intn(4)]
		h.Stat("cap.roomy-heavy-cluster", 1)
	default:
		// many distinct top values whose counts are less than 1 apart, no eviction, finish cuts through the cluster
		nops = r.Range(6, 60)
		capFixed = 1000
		g.nkeys = 3 * nops
		g.uniform, g.simple, g.degen = true, true, false
		g.countMode = 3
		g.clusterB = []int64{1, 1, 2, 5, 40}[r.Intn(5)]
		h.Stat("cap.roomy-fraction-cluster", 1)
	}
	if g.fracC || g.countMode == 3 {
		h.Stat("case.fractional-counts", 1)
	}
	if g.fracV {
		h.Stat("case.fractional-values", 1)
	}
	if g.degen {
		h.Stat("case.nonpositive-counts", 1)
	}
	allBytes := !shard && r.Chance(1, 3) // every event through MapStringTopBytes, like the aggregator's MergeWithTLMultiItem
	tot := &totals{}
	evictedAny, redirectAny := false, false
	midFinish := -1
	if r.Chance(1, 8) {
		midFinish = r.Intn(nops)
	}

	// Every op draws its inputs from its own PRNG derived from (case, op index), and the state-dependent choices
	// (finish capacity relative to the current size, permutations) from yet another one: the sequence of events of a
	// case is a function of the seed alone even though the outcomes of the code under test (which key a draw hits)
	// depend on Go's randomised map iteration order and may differ between two runs.
	base := r.U64()
	for op := 0; op < nops; op++ {
		r := verifx.NewRng(base + uint64(op+1)*0x9E3779B97F4A7C15)
		sr := verifx.NewRng(base*3 + uint64(op)*0xBF58476D1CE4E5B9 + 17)
		g.r = r
		if op == midFinish {
			doFinish(h, sr, rw, tot, g.countMode >= 3)
		}
		if r.Chance(1, 30) {
			doReorder(h, sr, rw)
		}
		capacity := capFixed
		if capVary {
			capacity = r.Range(1, 8)
		}
		k := g.key()
		e := g.event(shard)
		count := q(e.c)
		if e.kind == "m" {
			count = e.iv.Count()
		}
		viaApply := r.Bool()
		if shard {
			if e.kind == "c" && e.c <= 0 {
				viaApply = false // Shard.ApplyCounter drops count <= 0 before the row is touched
			}
			if e.kind == "vs" && e.c <= 0 {
				e.c = int64(len(e.vs)) * unit16
				count = q(e.c)
			}
		} else if r.Chance(1, 10) {
			count = q(g.count()) // MapStringTop's count argument is independent of what the caller adds afterwards
		}
		api := "s"
		if !shard && (allBytes || r.Bool()) {
			api = "b"
			h.Stat("api.bytes-reused-buffer", 1)
		}
		host := g.host()

		preTop, _, preSF := snapshot(rw.cur())
		shadow := *rw.rng
		u := uint64(shadow.Float64() * (1 << 53))
		var mv *data_model.MultiValue
		rw.scribble = r.Chance(1, 3)
		done := make(chan bool, 1)
		go func() {
			p := true
			defer func() {
				if p {
					recover()
				}
				done <- p
			}()
			mv = rw.write(api, capacity, k, count, e, host, viaApply)
			p = false
		}()
		var panicked bool
		select {
		case panicked = <-done:
		case <-time.After(30 * time.Second): // a write takes microseconds; `for len(Top) >= capacity { resample }` can spin
			h.Op("w %s %d %s %s %d r= %s", api, capacity, keyStr(k), fs(count, unit16), u, e.tokens())
			h.Obs("hang")
			h.Viol("write-never-returns", "write %d (api=%s key=%s capacity=%d) did not return within 30s", op, api, keyStr(k), capacity)
			h.Done()
			os.Exit(0)
		}
		it := rw.cur()
		postTop, postTail, postSF, dups := snapshotD(it)

		// witness: rounds and evictions
		var gone []tag
		for _, pk := range sortedKeys(preTop) {
			if _, ok := postTop[pk]; !ok {
				gone = append(gone, pk)
			}
		}
		rounds := postSF - preSF
		var rs []string
		for j := 0; j < rounds; j++ {
			if j < rounds-1 || len(gone) == 0 {
				rs = append(rs, "-")
				continue
			}
			rvMax := new(strconvBig).pow2minus1(postSF)
			ds := make([]string, len(gone))
			for x, gk := range gone {
				ds[x] = keyStr(gk) + "." + rvMax
			}
			rs = append(rs, strings.Join(ds, ","))
		}
		h.Op("w %s %d %s %s %d r=%s %s", api, capacity, keyStr(k), fs(count, unit16), u, strings.Join(rs, "/"), e.tokens())
		if panicked {
			h.Obs("panic")
			h.Viol("panic", "write panicked: key=%s event=%s", keyStr(k), e.tokens())
			return
		}
		// where did the event land
		nk := k
		nk.Normalize()
		slot := "tail"
		val := postTail
		if mv != nil {
			if mv != &it.Tail {
				slot = "?"
				for tk, tv := range it.Top {
					if tv == mv {
						slot = keyStr(tk)
						val = aggOf(tv)
					}
				}
			}
		} else if a, ok := postTop[nk]; ok && !k.Empty() {
			slot = keyStr(nk)
			val = a
		}
		h.Obs("w slot=%s val=%s tail=%s n=%d sf=%d ev=%s", slot, val, postTail, len(postTop), postSF, keyList(gone))
		if rw.bad != "" {
			h.Viol("harness", "%s", rw.bad)
			return
		}

		// statistics
		_, was := preTop[nk]
		switch {
		case k.Empty():
			h.Stat("slot.empty-key", 1)
		case was:
			h.Stat("slot.hit", 1)
		case slot == "tail":
			h.Stat("slot.redirect", 1)
			redirectAny = true
		default:
			h.Stat("slot.insert", 1)
			if rounds > 0 {
				h.Stat("slot.insert-after-resample", 1)
			}
		}
		h.Stat("event."+e.kind, 1)
		h.Stat("writes", 1)
		if rounds > 0 {
			h.Stat(fmt.Sprintf("rounds.%d", min(rounds, 4)), 1)
			h.Stat("evicted", int64(len(gone)))
			evictedAny = true
		}

		// direct oracle
		if dups > 0 || (it != nil && len(it.Top) != len(postTop)) {
			h.Viol("duplicate-top-key", "after write %d the top holds %d entries but only %d distinct values (%d yielded twice)", op, len(it.Top), len(postTop), dups)
		}
		tot.add(e)
		checkTotals(h, fmt.Sprintf("after write %d", op), tot, postTop, postTail)
	}
	doFinish(h, verifx.NewRng(base*3+999983), rw, tot, g.countMode >= 3)
	if evictedAny {
		h.NonTrivial("resample")
	}
	if redirectAny {
		h.NonTrivial("redirect")
	}
}

type strconvBig struct{}

// 2^k - 1 as a decimal string (k can exceed 63 only if the row's sample factor overflowed, which the model would flag)
func (*strconvBig) pow2minus1(k int) string {
	if k < 63 {
		return strconv.FormatUint(uint64(1)<<uint(k)-1, 10)
	}
	return "18446744073709551615"
}

func doReorder(h *verifx.H, r *verifx.Rng, rw *row) {
	top, _, _ := snapshot(rw.cur())
	ks := sortedKeys(top)
	for i := len(ks) - 1; i > 0; i-- {
		j := r.Intn(i + 1)
		ks[i], ks[j] = ks[j], ks[i]
	}
	h.Op("ord %s", keyList(ks))
	h.Obs("ord ok=1 n=%d", len(ks))
	h.Stat("reorders", 1)
}

func doFinish(h *verifx.H, r *verifx.Rng, rw *row, tot *totals, cluster bool) {
	it := rw.cur()
	if it == nil {
		return
	}
	preTop, _, _ := snapshot(it)
	n := len(preTop)
	var capacity int
	switch r.Pick(10, 10, 25, 15, 10, 10, 5, 15) {
	case 0:
		capacity = 0
	case 1:
		capacity = 1
	case 2:
		capacity = r.Range(0, n+1)
	case 3:
		capacity = n - 1
	case 4:
		capacity = n
	case 5:
		capacity = n + 1
	case 6:
		capacity = -r.Range(1, 3)
	default:
		capacity = []int{5, 20}[r.Intn(2)] // MinStringTopSend-ish / default StringTopCountSend
	}
	if cluster && n >= 2 {
		capacity = r.Range(1, n-1) // cut through the cluster of counts that are less than 1 apart
	} else if r.Chance(1, 3) {
		// put the boundary between two equal counts when there are any: the unstable sort decides, both outcomes are legal
		cs := make([]float64, 0, n)
		for _, a := range preTop {
			cs = append(cs, a.cnt)
		}
		sort.Float64s(cs)
		var ties []int
		for i := 1; i < len(cs); i++ {
			if cs[i-1] == cs[i] {
				ties = append(ties, len(cs)-i) // number of strictly-later elements in descending order
			}
		}
		if len(ties) > 0 {
			capacity = ties[r.Intn(len(ties))]
			h.Stat("finish.cap-steered-to-tie", 1)
		}
	}
	var whale float64
	panicked := func() (p bool) {
		defer func() {
			if x := recover(); x != nil {
				p = true
			}
		}()
		whale = it.FinishStringTop(rw.rng, capacity)
		return false
	}()
	postTop, postTail, _, dups := snapshotD(it)
	var kept, folded []tag
	for _, k := range sortedKeys(preTop) {
		if _, ok := postTop[k]; ok {
			kept = append(kept, k)
		} else {
			folded = append(folded, k)
		}
	}
	// witness enumeration: retained keys first; the stable sort of the model then resolves ties the way the real
	// unstable sort did — provided the real outcome was legal
	h.Op("ord %s", keyList(append(append([]tag{}, kept...), folded...)))
	h.Obs("ord ok=1 n=%d", n)
	h.Op("fin %d", capacity)
	if panicked {
		h.Obs("panic")
		h.Viol("panic", "FinishStringTop(%d) panicked", capacity)
		return
	}
	ts := make([]string, 0, len(postTop))
	for _, k := range sortedKeys(postTop) {
		ts = append(ts, keyStr(k)+"="+postTop[k].String())
	}
	h.Obs("fin whale=%s tail=%s n=%d top=%s", fs(whale, unit16), postTail, len(postTop), verifx.List(ts))

	// ---- direct oracle: at most `capacity` remain, every retained value at least as heavy as every folded one, nothing lost
	limit := max(capacity, 0)
	if len(it.Top) > limit {
		h.Viol("finish-over-capacity", "FinishStringTop(%d) left %d top values", capacity, len(it.Top))
	}
	if dups > 0 || len(it.Top) != len(postTop) {
		h.Viol("duplicate-top-key", "after FinishStringTop(%d) the top holds %d entries but only %d distinct values", capacity, len(it.Top), len(postTop))
	}
	for k := range postTop {
		if _, ok := preTop[k]; !ok {
			h.Viol("finish-new-key", "FinishStringTop(%d) produced key %s", capacity, keyStr(k))
		}
	}
	minKept, maxFolded := math.Inf(1), math.Inf(-1)
	for _, k := range kept {
		minKept = math.Min(minKept, preTop[k].cnt)
	}
	for _, k := range folded {
		maxFolded = math.Max(maxFolded, preTop[k].cnt)
	}
	if len(kept) > 0 && len(folded) > 0 && minKept < maxFolded {
		h.Viol("finish-not-heaviest", "FinishStringTop(%d) kept a value of count %v but folded one of count %v into the tail", capacity, minKept, maxFolded)
	}
	if len(folded) > 0 && len(postTop) < limit {
		h.Viol("finish-folded-below-capacity", "FinishStringTop(%d) folded %d values although only %d remain", capacity, len(folded), len(postTop))
	}
	checkTotals(h, fmt.Sprintf("after finish(%d)", capacity), tot, postTop, postTail)
	h.Stat("finishes", 1)
	if len(folded) > 0 {
		h.Stat("finish.folded-some", 1)
		h.NonTrivial("fold")
		if len(kept) > 0 && minKept == maxFolded {
			h.Stat("finish.tie-at-boundary", 1)
			h.NonTrivial("tie")
		}
		if len(kept) > 0 && minKept != maxFolded && math.Abs(minKept-maxFolded) < 1 {
			h.Stat("finish.cut-inside-one-unit", 1)
			h.NonTrivial("fraccut")
		}
		if len(kept) > 0 && minKept != maxFolded && float32(minKept) == float32(maxFolded) {
			h.Stat("finish.cut-inside-one-float32-ulp", 1)
			h.NonTrivial("f32cut")
		}
	}
}

// runHeavy: oracle-only cases (no model replay: sums of such weights are not exact in float64, so only the
// order-related part of the property is evaluated).  Distinct top values whose float64 weights are near-ties around
// bases where coarser number formats collapse — 2^24 and 2^31 (float32 integers), 2^53 and 2^62 (float64 integers),
// 1e30 and 3e38 (close to MaxFloat32): k float64 ulps from the base, float32 neighbours of the base moved by ±1 float64
// ulp, and relative offsets k·2^-30 (below the float32 epsilon).  FinishStringTop then cuts through the cluster.
func runHeavy(h *verifx.H, i int, r *verifx.Rng) {
	base := []float64{1 << 24, 1 << 31, 1 << 53, 1 << 62, 1e30, 3e38, 1 << 24, 3}[r.Intn(8)]
	n := r.Range(3, 40)
	rw := &row{item: &data_model.MultiItem{}, rng: rand.New(r.U64())}
	kinds := r.Range(1, 7) // bit set of the three near-tie families
	for j := 0; j < n; j++ {
		var w float64
		for {
			switch r.Intn(3) {
			case 0:
				if kinds&1 == 0 {
					continue
				}
				w = base
				for k, dir := r.Range(0, 3), []float64{math.Inf(1), math.Inf(-1)}[r.Intn(2)]; k > 0; k-- {
					w = math.Nextafter(w, dir)
				}
			case 1:
				if kinds&2 == 0 {
					continue
				}
				f := float32(base)
				for k, dir := r.Range(0, 2), []float32{float32(math.Inf(1)), float32(math.Inf(-1))}[r.Intn(2)]; k > 0; k-- {
					f = math.Nextafter32(f, dir)
				}
				w = float64(f)
				switch r.Intn(3) {
				case 0:
					w = math.Nextafter(w, math.Inf(1))
				case 1:
					w = math.Nextafter(w, math.Inf(-1))
				}
			default:
				if kinds&4 == 0 {
					continue
				}
				w = base * (1 + float64(r.Range(-8, 8))/(1<<30))
			}
			break
		}
		k := tag{S: "h" + strconv.Itoa(j)}
		if r.Bool() {
			k = tag{I: int32(j + 1)}
		}
		h.Op("hw %s %016x", keyStr(k), math.Float64bits(w))
		rw.item.MapStringTop(rw.rng, 1000, k, w).AddCounterHost(rw.rng, w, tag{})
	}
	h.Stat("heavy.cases", 1)
	h.Stat(fmt.Sprintf("heavy.base.%g", base), 1)
	doFinish(h, r, rw, &totals{off: true}, true)
}

func main() {
	h := verifx.New()
	if h.Mode == "gen" {
		fmt.Printf("-- GENERATED by `verif-c07 -mode=gen` from /repo on every bin/check run. Do not edit.\n")
		fmt.Printf("namespace SH.Gen.C07\n")
		fmt.Printf("/-- data_model.DefaultStringTopCapacity as the Go compiler evaluates it -/\n")
		fmt.Printf("def defaultStringTopCapacity : Nat := %d\n", data_model.VerifDefaultStringTopCapacity())
		fmt.Printf("end SH.Gen.C07\n")
		return
	}
	if h.Mode == "heavy" {
		h.Cases(func(i int, r *verifx.Rng) { runHeavy(h, i, r) })
		h.Done()
		return
	}
	h.Cases(func(i int, r *verifx.Rng) { runCase(h, i, r) })
	h.Done()
}
