//go:build verif

// verif-c28: correspondence + direct oracle for the PromQL parser / printer (property C28).
//
// Every case builds one source string (structured generator with varied surface syntax, a mutated valid
// source, or an arbitrary string), runs the REAL lexer, ParseExpr and String() on it and prints
//
//	> parse <tokens>     < ok <ast> + wf 0|1 | err real ParseExpr on the text the tokens were lexed from; wf 0 iff the tree
//	                                               holds a 0-second range/list offset (the model evaluates its `wf`)
//	> print <ast>        < toks <tokens>           real String() of the accepted expression, lexed by the real lexer
//	> parse <tokens>     < ok <ast> | err          real ParseExpr on the printed text
//
// The Lean driver replays the same ops on the model parser / printer. Independently of the model the
// oracle checks: ParseExpr/String never panic, and ParseExpr(e.String()) is equivalent to e.
package main

import (
	"encoding/hex"
	"fmt"
	"math"
	"os"
	"regexp"
	"sort"
	"strconv"
	"strings"
	"sync"
	"sync/atomic"
	"unicode/utf8"

	"github.com/prometheus/common/model"
	"github.com/prometheus/prometheus/model/labels"
	"github.com/prometheus/prometheus/model/timestamp"

	"github.com/VKCOM/statshouse/internal/promql/parser"
	"github.com/VKCOM/statshouse/internal/verifx"
)

// ---------------------------------------------------------------- running the real code, with recover

type parsed struct {
	e        parser.Expr
	err      error
	panicked bool
	pval     string
}

func safeParse(s string) (r parsed) {
	defer func() {
		if x := recover(); x != nil {
			r.panicked = true
			r.pval = fmt.Sprint(x)
		}
	}()
	r.e, r.err = parser.ParseExpr(s)
	return r
}

func safeString(e parser.Expr) (s string, panicked bool, pval string) {
	defer func() {
		if x := recover(); x != nil {
			panicked = true
			pval = fmt.Sprint(x)
		}
	}()
	return e.String(), false, ""
}

// ---------------------------------------------------------------- tokens

var symbolic = map[string]bool{"EQL": true, "COLON": true, "COMMA": true, "DOLLAR": true, "LEFT_BRACE": true, "LEFT_BRACKET": true,
	"LEFT_PAREN": true, "RIGHT_BRACE": true, "RIGHT_BRACKET": true, "RIGHT_PAREN": true, "ADD": true, "BIND": true, "DIV": true,
	"EQLC": true, "EQL_REGEX": true, "GTE": true, "GTR": true, "LSS": true, "LTE": true, "MOD": true, "MUL": true, "NEQ": true,
	"NEQ_REGEX": true, "POW": true, "SUB": true, "AT": true}

type token struct {
	pos  int    // byte offset in the lexed text
	name string // goyacc token name, "ERR" for a lexer error
	text string // raw text
	val  string // STRING: unquoted value
	uok  bool   // STRING: unquote succeeded
}

// lexAll runs the real lexer the way parser.Lex does (comments skipped, stop at the first error).
func lexAll(s string) (toks []token, clean bool) {
	l := parser.Lex(s)
	for n := 0; n < len(s)+8; n++ {
		var it parser.Item
		l.NextItem(&it)
		switch it.Typ {
		case parser.EOF:
			return toks, true
		case parser.ERROR:
			return append(toks, token{name: "ERR"}), false
		case parser.COMMENT:
			continue
		}
		t := token{pos: int(it.Pos), name: parser.VerifTokName(it.Typ), text: it.Val}
		if it.Typ == parser.STRING {
			t.val, t.uok = parser.VerifUnquote(it.Val)
		}
		toks = append(toks, t)
	}
	return append(toks, token{name: "ERR"}), false
}

func hx(s string) string {
	if s == "" {
		return "-"
	}
	return hex.EncodeToString([]byte(s))
}

func numMag(v float64) string {
	switch {
	case math.IsNaN(v):
		return "NaN"
	case math.IsInf(v, 0):
		return "Inf"
	}
	return fmt.Sprint(math.Abs(v))
}

func msOf(v float64) string {
	// the bound test of setTimestamp decides acceptance; the value is what timestamp.FromFloatSeconds yields
	if math.IsInf(v, 0) || math.IsNaN(v) || v >= float64(math.MaxInt64) || v <= float64(math.MinInt64) {
		return "X"
	}
	return strconv.FormatInt(timestamp.FromFloatSeconds(v), 10)
}

func regexOK(v string) bool {
	_, err := labels.NewMatcher(labels.MatchRegexp, "x", v)
	return err == nil
}

// full rendering: everything the grammar actions look at
func (t token) full() string {
	switch t.name {
	case "NUMBER":
		v, ok := parser.VerifNumber(t.text)
		if !ok {
			return "NUMBER/" + t.text + "/ERR/X/X"
		}
		return "NUMBER/" + t.text + "/" + numMag(v) + "/" + msOf(v) + "/" + msOf(-v)
	case "STRING":
		fl := ""
		if t.uok {
			fl += "u"
			if regexOK(t.val) {
				fl += "r"
			}
		}
		if fl == "" {
			fl = "-"
		}
		return "STRING/" + hx(t.val) + "/" + fl
	case "DURATION":
		d, err := parser.VerifParseDuration(t.text)
		if err != nil {
			return "DURATION/X"
		}
		return "DURATION/" + strconv.FormatInt(d, 10)
	case "ERR":
		return "ERR"
	}
	if symbolic[t.name] {
		return t.name
	}
	return t.name + "/" + t.text
}

// reduced rendering used to compare printer output: the text of numbers and durations, the value of strings
func (t token) reduced() string {
	switch t.name {
	case "NUMBER":
		return "NUMBER/" + t.text
	case "STRING":
		return "STRING/" + hx(t.val)
	case "DURATION":
		d, err := parser.VerifParseDuration(t.text)
		if err != nil {
			return "DURATION/X"
		}
		return "DURATION/" + strconv.FormatInt(d, 10) + "s"
	}
	return t.full()
}

func renderFull(toks []token) string {
	if len(toks) == 0 {
		return "-"
	}
	ss := make([]string, len(toks))
	for i, t := range toks {
		ss[i] = t.full()
	}
	return strings.Join(ss, " ")
}

var matchTypeIdx = map[string]int{"EQL": 0, "NEQ": 1, "EQL_REGEX": 2, "NEQ_REGEX": 3}

// renderReduced renders printer output; label matchers inside braces are put in canonical order
// (name, type, value) because the printer's own order (sort.Strings over the rendered matchers) is not modelled.
func renderReduced(toks []token) string {
	var out []string
	for i := 0; i < len(toks); {
		if toks[i].name != "LEFT_BRACE" {
			out = append(out, toks[i].reduced())
			i++
			continue
		}
		j := i + 1
		for j < len(toks) && toks[j].name != "RIGHT_BRACE" {
			j++
		}
		inner := toks[i+1 : min(j, len(toks))]
		var groups [][]token
		okShape := true
		for k := 0; k < len(inner); k += 4 {
			if k+3 > len(inner) || (k+3 < len(inner) && inner[k+3].name != "COMMA") {
				okShape = false
				break
			}
			if _, ok := matchTypeIdx[inner[k+1].name]; !ok || inner[k+2].name != "STRING" {
				okShape = false
				break
			}
			groups = append(groups, inner[k:k+3])
		}
		out = append(out, "LEFT_BRACE")
		if okShape {
			sort.SliceStable(groups, func(a, b int) bool {
				return matcherLess(groups[a][0].text, matchTypeIdx[groups[a][1].name], hx(groups[a][2].val),
					groups[b][0].text, matchTypeIdx[groups[b][1].name], hx(groups[b][2].val))
			})
			for k, g := range groups {
				if k > 0 {
					out = append(out, "COMMA")
				}
				for _, t := range g {
					out = append(out, t.reduced())
				}
			}
		} else {
			for _, t := range inner {
				out = append(out, t.reduced())
			}
		}
		if j < len(toks) {
			out = append(out, "RIGHT_BRACE")
		}
		i = j + 1
	}
	if len(out) == 0 {
		return "-"
	}
	return strings.Join(out, " ")
}

func matcherLess(n1 string, t1 int, v1 string, n2 string, t2 int, v2 string) bool {
	if n1 != n2 {
		return n1 < n2
	}
	if t1 != t2 {
		return t1 < t2
	}
	return v1 < v2
}

// ---------------------------------------------------------------- AST serialisation (canonical)

type serOpt struct{ set, noTs bool } // set: label matchers as a set (duplicates removed) — the equivalence the oracle uses

func list(xs []string) string {
	if len(xs) == 0 {
		return "-"
	}
	return strings.Join(xs, ",")
}

func ints(xs []int64) string {
	if len(xs) == 0 {
		return "-"
	}
	ss := make([]string, len(xs))
	for i, x := range xs {
		ss[i] = strconv.FormatInt(x, 10)
	}
	return strings.Join(ss, ",")
}

func atStr(ts *int64, se parser.ItemType, o serOpt) string {
	switch {
	case ts != nil && o.noTs:
		return "t?"
	case ts != nil:
		return "t" + strconv.FormatInt(*ts, 10)
	case se == parser.START:
		return "s"
	case se == parser.END:
		return "e"
	}
	return "n"
}

func plain(s string) string {
	if s == "" {
		return "-"
	}
	return s
}

func serSel(vs *parser.VectorSelector, o serOpt) string {
	type m3 struct {
		n string
		t int
		v string
	}
	var ms []m3
	for _, m := range vs.LabelMatchers {
		if m == nil {
			ms = append(ms, m3{"?nil", 0, "-"})
			continue
		}
		ms = append(ms, m3{m.Name, int(m.Type), hx(m.Value)})
	}
	sort.Slice(ms, func(a, b int) bool { return matcherLess(ms[a].n, ms[a].t, ms[a].v, ms[b].n, ms[b].t, ms[b].v) })
	if o.set {
		var d []m3
		for i, m := range ms {
			if i == 0 || m != ms[i-1] {
				d = append(d, m)
			}
		}
		ms = d
	}
	var b strings.Builder
	fmt.Fprintf(&b, "%s %s %d %s %d", plain(vs.Name), atStr(vs.Timestamp, vs.StartOrEnd, o), vs.OriginalOffset, ints(vs.OriginalOffsetEx), len(ms))
	for _, m := range ms {
		fmt.Fprintf(&b, " %s %d %s", plain(m.n), m.t, m.v)
	}
	return b.String()
}

func ser(e parser.Expr, o serOpt) string {
	switch n := e.(type) {
	case nil:
		return "nil"
	case *parser.NumberLiteral:
		sign := "+"
		if math.Signbit(n.Val) && !math.IsNaN(n.Val) {
			sign = "-"
		}
		return "num " + sign + " " + numMag(n.Val)
	case *parser.StringLiteral:
		return "str " + hx(n.Val)
	case *parser.VectorSelector:
		return "vec " + serSel(n, o)
	case *parser.MatrixSelector:
		vs, ok := n.VectorSelector.(*parser.VectorSelector)
		if !ok {
			return "mat ?"
		}
		return fmt.Sprintf("mat %s %d", serSel(vs, o), n.Range)
	case *parser.SubqueryExpr:
		return fmt.Sprintf("sub %d %d %s %d %s", n.Range, n.Step, atStr(n.Timestamp, n.StartOrEnd, o), n.OriginalOffset, ser(n.Expr, o))
	case *parser.ParenExpr:
		return "par " + ser(n.Expr, o)
	case *parser.UnaryExpr:
		return "un " + parser.VerifTokName(n.Op) + " " + ser(n.Expr, o)
	case *parser.BinaryExpr:
		vm := n.VectorMatching
		if vm == nil {
			vm = &parser.VectorMatching{}
		}
		b, on := 0, 0
		if n.ReturnBool {
			b = 1
		}
		if vm.On {
			on = 1
		}
		return fmt.Sprintf("bin %s %d %d %d %s %s %s %s", parser.VerifTokName(n.Op), b, int(vm.Card), on, list(vm.MatchingLabels), list(vm.Include),
			ser(n.LHS, o), ser(n.RHS, o))
	case *parser.AggregateExpr:
		wo := 0
		if n.Without {
			wo = 1
		}
		var args []string
		if n.Param != nil {
			args = append(args, ser(n.Param, o))
		}
		args = append(args, ser(n.Expr, o))
		return fmt.Sprintf("agg %s %d %s %d %s", parser.VerifTokName(n.Op), wo, list(n.Grouping), len(args), strings.Join(args, " "))
	case *parser.Call:
		name := "?"
		if n.Func != nil {
			name = n.Func.Name
		}
		s := fmt.Sprintf("call %s %d", name, len(n.Args))
		for _, a := range n.Args {
			s += " " + ser(a, o)
		}
		return s
	}
	return fmt.Sprintf("?%T", e)
}

// ---------------------------------------------------------------- the direct oracle: ParseExpr(e.String()) ≈ e

// roundTrip returns "" when e prints to text that parses back to an equivalent tree, otherwise what went wrong.
func roundTrip(e parser.Expr) (what, printed string) {
	printed, pp, pv := safeString(e)
	if pp {
		return "panic-print " + pv, ""
	}
	r := safeParse(printed)
	if r.panicked {
		return "panic-parse " + r.pval, printed
	}
	if r.err != nil {
		return "noparse", printed
	}
	if ser(r.e, serOpt{set: true}) != ser(e, serOpt{set: true}) {
		if ser(r.e, serOpt{set: true, noTs: true}) == ser(e, serOpt{set: true, noTs: true}) {
			return "differs-at-timestamp", printed // only an `@ <timestamp>` came back with another value
		}
		return "differs", printed
	}
	return "", printed
}

// badDuration: "zero-duration" when a range / list offset of the node is 0 seconds, "duration-out-of-range" when a range
// or offset is more than maxSecs seconds (both are values parseDuration's rounding produces and no literal denotes), else ""
func badDuration(e parser.Expr) string {
	abs := func(v int64) int64 {
		if v < 0 {
			return -v
		}
		return v
	}
	kind := ""
	note := func(v int64, zeroBad bool) {
		if zeroBad && v == 0 && kind == "" {
			kind = "zero-duration"
		}
		if abs(v) > maxSecs {
			kind = "duration-out-of-range"
		}
	}
	sel := func(vs *parser.VectorSelector) {
		for _, v := range vs.OriginalOffsetEx {
			note(v, true)
		}
		note(vs.OriginalOffset, false)
	}
	switch n := e.(type) {
	case *parser.MatrixSelector:
		note(n.Range, true)
		if vs, ok := n.VectorSelector.(*parser.VectorSelector); ok {
			sel(vs)
		}
	case *parser.SubqueryExpr:
		note(n.Range, true)
		note(n.OriginalOffset, false)
	case *parser.VectorSelector:
		sel(n)
	}
	return kind
}

func hasZeroDuration(e parser.Expr) bool { return badDuration(e) != "" }

// anyZeroDuration: some range / list offset in the tree is 0 seconds (known finding zero-duration); these are the only
// accepted trees outside the well-formedness predicate of the Lean theorem
func anyZeroDuration(e parser.Expr) bool {
	if hasZeroDuration(e) {
		return true
	}
	if _, isMat := e.(*parser.MatrixSelector); isMat {
		return false
	}
	for _, c := range parser.Children(e) {
		if ce, ok := c.(parser.Expr); ok && ce != nil && anyZeroDuration(ce) {
			return true
		}
	}
	return false
}

// lexStrings: every string literal of the text (up to 3), as the real lexer cuts it from the input that starts at its
// opening quote, and the same input cut short / with its last byte dropped (unterminated strings and escapes):
//
//	> lexstr <hex of the input>    < str <len of the STRING token> | err
func lexStrings(h *verifx.H, r *verifx.Rng, text string, toks []token) {
	n := 0
	try := func(in string) {
		if in == "" || n >= 6 {
			return
		}
		n++
		h.Op("lexstr %s", hx(in))
		var it parser.Item
		parser.Lex(in).NextItem(&it)
		if it.Typ == parser.STRING && it.Pos == 0 {
			h.Obs("str %d", len(it.Val))
		} else {
			h.Obs("err")
		}
		h.Stat("lexstr", 1)
	}
	for _, t := range toks {
		if t.name != "STRING" || t.pos >= len(text) {
			continue
		}
		in := text[t.pos:]
		if len(in) > 200 {
			in = in[:200]
		}
		try(in)
		if r.Chance(1, 3) {
			try(in[:1+r.Intn(len(t.text))]) // cut inside the literal
		}
	}
}

var decimalRe = regexp.MustCompile(`^([0-9]+)(\.[0-9]*)?$`)

// halfMs: the fraction (".ddd…") lies exactly between two milliseconds
func halfMs(frac string) bool {
	if len(frac) < 5 || frac[4] != '5' {
		return false
	}
	return strings.Trim(frac[5:], "0") == ""
}

const maxSecs = 9223372036 // 2^63 ns / 10^9: the largest `<n>s` model.ParseDuration accepts

// lexLiterals: the number, duration and word tokens of the text, as the real lexer cuts them from the input that starts
// at the token (up to 8 of each), against the byte-level models of lexNumberOrDuration, lexDuration, parseDuration,
// lexKeywordOrIdentifier + keyword table, and the printer's `%ds`:
//
//	> lexnum <hex>    < num <len> | dur <len> | err       first token of the input
//	> lexdur <hex>    < dur <len> | err                   first token after a `[`
//	> pdur <hex>      < secs <n> | secs X                  parseDuration on the token text
//	> durtext <n>     < text <hex>                          fmt.Sprintf("%ds", n)   (printed text only)
//	> lexword <hex>   < word <len> <TOKEN>
func lexLiterals(h *verifx.H, text string, toks []token, printed bool) {
	nNum, nWord := 0, 0
	brace := false
	for i, t := range toks {
		// `@ [+-] <decimal>`: the decimal text → milliseconds (model atMs), where float64 cannot disturb the rounding:
		// at most 6 fraction digits, integer part below 2^32, not exactly half a millisecond
		if t.name == "NUMBER" && (i >= 1 && toks[i-1].name == "AT" || i >= 2 && toks[i-2].name == "AT" && (toks[i-1].name == "ADD" || toks[i-1].name == "SUB")) {
			if m := decimalRe.FindStringSubmatch(t.text); m != nil && len(m[1]) <= 9 && len(m[2]) <= 7 && !halfMs(m[2]) &&
				!(len(m[1]) > 1 && m[1][0] == '0' && m[2] == "") { // `0776` is an octal integer for strconv.ParseInt(…, 0, 64), not a decimal
				if v, ok := parser.VerifNumber(t.text); ok {
					h.Op("atms %s", hx(t.text))
					h.Obs("ms %s", msOf(v))
					h.Stat("atms", 1)
				}
			}
		}
		switch t.name {
		case "LEFT_BRACE":
			brace = true
		case "RIGHT_BRACE":
			brace = false
		}
		if t.pos >= len(text) || t.name == "ERR" {
			continue
		}
		in := text[t.pos:]
		if len(in) > 120 {
			in = in[:120]
		}
		c := in[0]
		switch {
		case (t.name == "NUMBER" && (c >= '0' && c <= '9' || c == '.')) || t.name == "DURATION":
			if nNum >= 8 {
				continue
			}
			nNum++
			var it parser.Item
			// lexStatements enters lexNumberOrDuration on a digit, or a dot followed by a digit (after `[` a DURATION token
			// such as `y` can start with its unit: that is lexDuration only)
			if c >= '0' && c <= '9' || (c == '.' && len(in) > 1 && in[1] >= '0' && in[1] <= '9') {
				h.Op("lexnum %s", hx(in))
				parser.Lex(in).NextItem(&it)
				switch {
				case it.Typ == parser.NUMBER && it.Pos == 0:
					h.Obs("num %d", len(it.Val))
				case it.Typ == parser.DURATION && it.Pos == 0:
					h.Obs("dur %d", len(it.Val))
				default:
					h.Obs("err")
				}
			}
			h.Op("lexdur %s", hx(in))
			l := parser.Lex("[" + in)
			l.NextItem(&it)
			l.NextItem(&it)
			if it.Typ == parser.DURATION && it.Pos == 1 {
				h.Obs("dur %d", len(it.Val))
			} else {
				h.Obs("err")
			}
			h.Stat("lexnum", 1)
			if t.name == "DURATION" {
				// float64(ns) is exact below 2^59 ns (every duration is a multiple of 10^6 ns); the model rounds exactly
				if d, err := model.ParseDuration(t.text); err != nil || uint64(d) < 1<<59 || uint64(d) >= uint64(maxSecs)*1e9 {
					h.Op("pdur %s", hx(t.text))
					if secs, err := parser.VerifParseDuration(t.text); err == nil {
						h.Obs("secs %d", secs)
						if printed && secs > 0 {
							h.Op("durtext %d", secs)
							h.Obs("text %s", hx(fmt.Sprintf("%ds", secs)))
						}
					} else {
						h.Obs("secs X")
					}
					h.Stat("pdur", 1)
				}
			}
		case !brace && (c == ':' || c == '_' || c >= 'a' && c <= 'z' || c >= 'A' && c <= 'Z') && t.name != "COLON":
			if nWord >= 8 {
				continue
			}
			nWord++
			var it parser.Item
			h.Op("lexword %s", hx(in))
			parser.Lex(in).NextItem(&it)
			if it.Pos == 0 && it.Typ != parser.ERROR {
				h.Obs("word %d %s", len(it.Val), parser.VerifTokName(it.Typ))
			} else {
				h.Obs("err")
			}
			h.Stat("lexword", 1)
		}
	}
}

// lexWhole: every item Lexer.NextItem yields on the text (comments included), name and length, up to EOF or the first error:
//
//	> lexall <hex>    < all NAME:len … EOF|ERR
func lexWhole(h *verifx.H, text string) {
	if len(text) > 6000 {
		return
	}
	h.Op("lexall %s", hx(text))
	var b strings.Builder
	b.WriteString("all")
	l := parser.Lex(text)
	for n := 0; n < len(text)+8; n++ {
		var it parser.Item
		l.NextItem(&it)
		if it.Typ == parser.EOF {
			b.WriteString(" EOF")
			break
		}
		if it.Typ == parser.ERROR {
			b.WriteString(" ERR")
			break
		}
		fmt.Fprintf(&b, " %s:%d", parser.VerifTokName(it.Typ), len(it.Val))
	}
	h.Obs("%s", b.String())
	h.Stat("lexall", 1)
}

// ---------------------------------------------------------------- purity / reentrancy of String()
//
// The model's printer is a function of the tree. The real String() must be one too: it may not modify the tree, not even
// temporarily (several goroutines print the same cached tree). A transient modification is invisible to a single-threaded
// round trip, so for every accepted tree that holds a range selector with an `@` or offset modifier (the only String
// method that post-processes a child) K goroutines print the SAME tree N times each while a watcher goroutine keeps reading
// the modifier fields of its selectors: every output must equal the single-threaded one (print-not-reentrant) and no field
// may ever differ from its value before printing (printer-mutates-tree). On a correct printer nobody writes, so there is no
// data race and nothing is reported; the thorough tier runs the same under the Go race detector.

type selSnap struct {
	vs    *parser.VectorSelector
	off   int64
	nEx   int
	ts    *int64
	tsVal int64
	se    parser.ItemType
}

//go:noinline
func readSel(vs *parser.VectorSelector) (int64, int, *int64, parser.ItemType) {
	return vs.OriginalOffset, len(vs.OriginalOffsetEx), vs.Timestamp, vs.StartOrEnd
}

func (s *selSnap) intact() bool {
	off, nEx, ts, se := readSel(s.vs)
	return off == s.off && nEx == s.nEx && ts == s.ts && se == s.se
}

func modifiedRanges(e parser.Expr, out *[]*selSnap) {
	if m, ok := e.(*parser.MatrixSelector); ok {
		if vs, ok := m.VectorSelector.(*parser.VectorSelector); ok &&
			(vs.OriginalOffset != 0 || len(vs.OriginalOffsetEx) != 0 || vs.Timestamp != nil || vs.StartOrEnd != 0) {
			sn := &selSnap{vs: vs, off: vs.OriginalOffset, nEx: len(vs.OriginalOffsetEx), ts: vs.Timestamp, se: vs.StartOrEnd}
			if vs.Timestamp != nil {
				sn.tsVal = *vs.Timestamp
			}
			*out = append(*out, sn)
		}
		return
	}
	for _, c := range parser.Children(e) {
		if ce, ok := c.(parser.Expr); ok && ce != nil {
			modifiedRanges(ce, out)
		}
	}
}

func reentrancy(h *verifx.H, e parser.Expr, src, printed string) {
	var sels []*selSnap
	modifiedRanges(e, &sels)
	if len(sels) == 0 {
		return
	}
	h.Stat("reentrancy.checked", 1)
	before := ser(e, serOpt{})
	const K, N = 4, 60
	var (
		wg       sync.WaitGroup
		start    = make(chan struct{})
		stop     atomic.Bool
		mutated  atomic.Bool
		badPrint atomic.Value
	)
	for k := 0; k < K; k++ {
		wg.Add(1)
		go func() {
			defer wg.Done()
			<-start
			for i := 0; i < N; i++ {
				s, pp, _ := safeString(e)
				if pp || s != printed {
					badPrint.CompareAndSwap(nil, s)
				}
			}
		}()
	}
	var ww sync.WaitGroup
	ww.Add(1)
	go func() { // watcher
		defer ww.Done()
		<-start
		for !stop.Load() {
			for _, sn := range sels {
				if !sn.intact() {
					mutated.Store(true)
				}
			}
		}
	}()
	close(start)
	wg.Wait()
	stop.Store(true)
	ww.Wait()
	if s, _ := badPrint.Load().(string); badPrint.Load() != nil {
		h.Viol("print-not-reentrant", "accepted %q; %d goroutines printing the same tree: one printed %q, single-threaded %q", src, K, s, printed)
		h.Stat("oracle.print-not-reentrant", 1)
	}
	after := ser(e, serOpt{})
	if mutated.Load() || after != before {
		h.Viol("printer-mutates-tree", "accepted %q; String() changed a modifier field of a range selector's inner selector while printing (tree before %q, after %q)", src, before, after)
		h.Stat("oracle.printer-mutates-tree", 1)
	}
}

// lexObs: the model's `tokOk` must hold for every token the real lexer produced, except a duration that
// parseDuration accepts and rounds to 0 seconds (known finding zero-duration)
func lexObs(h *verifx.H, toks []token) {
	for _, t := range toks {
		if t.name == "DURATION" {
			if d, err := parser.VerifParseDuration(t.text); err == nil && (d == 0 || d > maxSecs) {
				h.Obs("lex 0")
				h.Stat("lex.unprintable-duration", 1)
				return
			}
		}
	}
	h.Obs("lex 1")
}

func wfObs(h *verifx.H, e parser.Expr) {
	if anyZeroDuration(e) {
		h.Obs("wf 0")
		h.Stat("wf.unprintable-duration", 1)
	} else {
		h.Obs("wf 1")
	}
}

// smallestFailure descends to the smallest sub-expression whose own round trip fails.
func smallestFailure(e parser.Expr) (node parser.Expr, what, printed string) {
	what, printed = roundTrip(e)
	if what == "" {
		return nil, "", ""
	}
	for _, c := range parser.Children(e) {
		ce, ok := c.(parser.Expr)
		if !ok || ce == nil {
			continue
		}
		if _, isMat := e.(*parser.MatrixSelector); isMat {
			continue // the selector inside a range selector is printed by the range selector itself
		}
		if n, w, p := smallestFailure(ce); n != nil {
			return n, w, p
		}
	}
	return e, what, printed
}

// ---------------------------------------------------------------- features of an accepted expression (stats / non-trivial rule)

type feat struct {
	nodes                                          map[string]int
	ops                                            map[string]int
	precNest, mod, ext, subq, matching, negnum, kw int
	strEsc                                         int // string values whose LAST character the printer escapes (\x.., \u.., \t ...)
	depth                                          int
}

func (f *feat) walk(e parser.Expr, parent parser.Expr, d int) {
	if d > f.depth {
		f.depth = d
	}
	f.nodes[strings.TrimPrefix(fmt.Sprintf("%T", e), "*parser.")]++
	switch n := e.(type) {
	case *parser.BinaryExpr:
		f.ops[parser.VerifTokName(n.Op)]++
		switch parent.(type) {
		case *parser.BinaryExpr, *parser.UnaryExpr:
			f.precNest++
		}
		if n.ReturnBool || n.VectorMatching.On || len(n.VectorMatching.MatchingLabels) > 0 || n.VectorMatching.Card != parser.CardOneToOne {
			f.matching++
		}
	case *parser.UnaryExpr:
		if _, ok := parent.(*parser.BinaryExpr); ok {
			f.precNest++
		}
	case *parser.NumberLiteral:
		if math.Signbit(n.Val) {
			f.negnum++
		}
	case *parser.StringLiteral:
		if endsEscaped(n.Val) {
			f.strEsc++
		}
	case *parser.VectorSelector:
		f.sel(n)
	case *parser.MatrixSelector:
		if vs, ok := n.VectorSelector.(*parser.VectorSelector); ok {
			f.sel(vs)
		}
		return
	case *parser.SubqueryExpr:
		f.subq++
		if n.OriginalOffset != 0 || n.Timestamp != nil || n.StartOrEnd != 0 {
			f.mod++
		}
	}
	for _, c := range parser.Children(e) {
		if ce, ok := c.(parser.Expr); ok && ce != nil {
			f.walk(ce, e, d+1)
		}
	}
}

func (f *feat) sel(vs *parser.VectorSelector) {
	if vs.OriginalOffset != 0 || vs.Timestamp != nil || vs.StartOrEnd != 0 {
		f.mod++
	}
	if len(vs.OriginalOffsetEx) != 0 {
		f.ext++
	}
	for _, m := range vs.LabelMatchers {
		if m != nil && endsEscaped(m.Value) {
			f.strEsc++
		}
		if m != nil && (m.Name == "__bind__" || (strings.HasPrefix(m.Name, "__") && strings.HasSuffix(m.Name, "__") && m.Name != "__name__")) {
			f.ext++
		}
	}
	if _, isKw := keywordSet[strings.ToLower(vs.Name)]; isKw {
		f.kw++
	}
}

// endsEscaped: the printer's %q writes the last character of v as an escape sequence
func endsEscaped(v string) bool {
	if v == "" {
		return false
	}
	r, size := utf8.DecodeLastRuneInString(v)
	return (r == utf8.RuneError && size <= 1) || !strconv.IsPrint(r) || r == '"' || r == '\\'
}

var keywordSet = map[string]bool{}

// ---------------------------------------------------------------- generator of source text

type gen struct {
	r        *verifx.Rng
	fns      []string
	specials int // strings generated with a character the printer escapes numerically
}

func (g *gen) pick(xs ...string) string { return xs[g.r.Intn(len(xs))] }

func (g *gen) sp() string {
	switch g.r.Pick(12, 6, 1, 1) {
	case 0:
		return " "
	case 1:
		return ""
	case 2:
		return "  \t"
	}
	return "\n"
}

func (g *gen) sp1() string { // at least one blank (between words)
	if g.r.Chance(1, 12) {
		return " \n "
	}
	return " "
}

func (g *gen) caseMix(s string) string {
	switch g.r.Pick(10, 1, 1) {
	case 1:
		return strings.ToUpper(s)
	case 2:
		if len(s) > 0 {
			return strings.ToUpper(s[:1]) + s[1:]
		}
	}
	return s
}

var identPool = []string{"foo", "bar", "a", "b", "x1", "_y", "up", "http_requests_total", "Foo", "e", "E1", "inf_x", "x", "d", "s5", "m"}
var midentPool = []string{"a:b", ":x", "job:rate5m", "a:b:c", "sum:x", "x:"}
var kwNamePool = []string{"sum", "avg", "count", "min", "max", "group", "stddev", "stdvar", "topk", "bottomk", "count_values", "quantile", "sort",
	"sort_desc", "drop_empty_series", "by", "without", "offset", "and", "or", "unless", "start", "end"}
var labelPool = []string{"a", "b", "job", "instance", "le", "x1", "_z", "on", "bool", "group_left", "group_right", "ignoring", "by", "offset",
	"and", "or", "unless", "sum", "avg", "topk", "atan2", "start", "end", "inf", "NaN", "1", "0x1f", "1e5", "007", "Inf"}
var badLabelPool = []string{"without", "default", "dbag", "a:b", "1.5", "5m", "1e+5"}
var durPool = []string{"5m", "1m", "30s", "1h", "1h30m", "90s", "1d", "2w", "1y", "1s500ms", "10s", "1s", "2s", "1d12h", "7d", "1500s", "1m30s"}
var oddDurPool = []string{"0s1ms", "0s400ms", "0s", "1h5s3m", "0s600ms", "1s499ms", "5mm", "1h2", "5ms", "1y2w3d4h5m6s7ms", "1m1m", "1d1y", "10s5", "1s5", "2h30", "1w2d3ms", "5M"}
var numPool = []string{"1", "0", "2", "3.14", ".5", "1.", "1e3", "1E-3", "0x1F", "017", "Inf", "inf", "NaN", "nan", "42", "1e6", "1e21", "0.000001",
	"123456789", "1e-7", "0X10", "2.5e+3", "INF", "10", "100"}
var oddNumPool = []string{"1e400", "0x", "08", "1e", "9223372036854775808", "0x8000000000000000", "1.e5", "1e+", "0x1F.8", "1.5.2", "00", "0e0", "1E+10", ".5e-3", "0xABCDEFabcdef", "1e-", "0X", "1.", "5.e", "1e5e5", "1x"}
var binOps = []string{"+", "-", "*", "/", "%", "^", "==", "!=", "<", "<=", ">", ">=", "and", "or", "unless", "default", "atan2"}
var aggOps = []string{"sum", "avg", "count", "min", "max", "group", "stddev", "stdvar", "topk", "bottomk", "count_values", "quantile", "sort",
	"sort_desc", "drop_empty_series", "dbag"}
var paramAgg = map[string]bool{"topk": true, "bottomk": true, "count_values": true, "quantile": true}

// rawSpecials are characters given RAW in the source that the printer's %q renders as a numeric escape
// (\xNN, \uNNNN, \UNNNNNNNN) or a short escape: control bytes, DEL, non-printable and astral runes, invalid UTF-8.
var rawSpecials = []string{"\x00", "\x01", "\x07", "\x1b", "\x1f", "\x7f", "\t", "\r", "\u0080", "\u00a0", "\u00ad", "\u200b", "\u2028", "\ufeff",
	"\ufffd", "\U000e0001", "\U0001f600", "\U0010ffff", "\xff", "\xc3", "\xe2\x82", "\xf0\x9f\x98", "\xed\xa0\x80"}

// escSpecials are numeric escapes written out in the source (only meaningful in "…" and '…')
var escSpecials = []string{"\\001", "\\177", "\\x01", "\\x7f", "\\xff", "\\u200b", "\\u00e9", "\\U000e0001", "\\U0001F600", "\\a", "\\v", "\\f", "\\b"}

// special places one or two interesting characters at the start, in the middle and/or at the END of a plain body
func (g *gen) special(pool []string) string {
	base := g.pick("", "a", "ab", "x y", "é", "0")
	sp := g.pick(pool...)
	switch g.r.Pick(2, 2, 5, 1, 1) {
	case 0:
		return sp + base
	case 1:
		return base + sp + g.pick("a", "z9", "é")
	case 2:
		return base + sp // the escape the printer emits is the last thing before the closing quote
	case 3:
		return sp + base + g.pick(pool...)
	}
	return base + sp + g.pick(pool...)
}

func (g *gen) str() string {
	if g.r.Chance(1, 150) {
		return "\"(\""
	}
	if g.r.Chance(1, 4) {
		g.specials++
		switch g.r.Pick(4, 3, 3, 2, 1) {
		case 0:
			return "\"" + g.special(rawSpecials) + "\""
		case 1:
			return "'" + g.special(rawSpecials) + "'"
		case 2:
			return "`" + g.special(append(rawSpecials, "\n", "\\", "\"", "'")) + "`"
		case 3:
			return "\"" + g.special(escSpecials) + "\""
		}
		return "'" + g.special(escSpecials) + "'"
	}
	common := []string{"", "a", "b", "x.*", "foo|bar", "a b", "é", "\\n", "\\\\", "\\x41", "\\u00e9", "tab\\t", "1", "a:b", "#", "{}", "[0-9]+", "\\101", "\\U0001F600", "\\xff"}
	switch g.r.Pick(8, 3, 2) {
	case 0:
		return "\"" + g.pick(append(common, "q\\\"q", "'")...) + "\""
	case 1:
		return "'" + g.pick(append(common, "q\\'q", "\"")...) + "'"
	}
	return "`" + g.pick("", "a", "x.*", "\\n", "\"", "'", "a\\", "line1\nline2") + "`"
}

func (g *gen) dur() string {
	if g.r.Chance(1, 200) {
		return g.pick(oddDurPool...)
	}
	return g.pick(durPool...)
}

func (g *gen) number() string {
	if g.r.Chance(1, 100) {
		return g.pick(oddNumPool...)
	}
	return g.pick(numPool...)
}

func (g *gen) labels() string {
	n := g.r.Pick(2, 5, 4, 2)
	var ls []string
	for i := 0; i < n; i++ {
		if g.r.Chance(1, 200) {
			ls = append(ls, g.pick(badLabelPool...))
		} else {
			ls = append(ls, g.pick(labelPool...))
		}
	}
	s := "(" + g.sp() + strings.Join(ls, g.sp()+","+g.sp())
	if n > 0 && g.r.Chance(1, 8) {
		s += g.sp() + ","
	}
	return s + g.sp() + ")"
}

func (g *gen) matcher() string {
	switch g.r.Pick(10, 2, 2, 1) {
	case 1:
		return "@" + g.pick("what", "by", "x", "1a") + g.sp() + g.pick("=", "!=", "=~", "!~") + g.sp() + g.str()
	case 2:
		return g.pick(identPool...) + g.sp() + ":" + g.sp() + "$" + g.pick("var", "x", "1", "sum")
	case 3:
		return "__name__" + g.sp() + g.pick("=", "!=", "=~") + g.sp() + g.pick("\"foo\"", "\"bar\"", "'a'")
	}
	return g.pick("a", "b", "job", "le", "__name__", "on", "sum", "1a", "_x", "offset", "A") + g.sp() + g.pick("=", "=", "!=", "=~", "!~") + g.sp() + g.str()
}

func (g *gen) matchers() string {
	n := g.r.Pick(2, 5, 4, 2)
	var ms []string
	for i := 0; i < n; i++ {
		if i > 0 && g.r.Chance(1, 6) {
			ms = append(ms, ms[g.r.Intn(len(ms))]) // duplicate matcher
		} else {
			ms = append(ms, g.matcher())
		}
	}
	s := "{" + g.sp() + strings.Join(ms, g.sp()+","+g.sp())
	if n > 0 && g.r.Chance(1, 8) {
		s += g.sp() + ","
	}
	return s + g.sp() + "}"
}

func (g *gen) selectorHead() string {
	name := ""
	switch g.r.Pick(10, 3, 3, 2) {
	case 0:
		name = g.pick(identPool...)
	case 1:
		name = g.pick(midentPool...)
	case 2:
		name = g.caseMix(g.pick(kwNamePool...))
	}
	if name == "" {
		return g.matchers()
	}
	if g.r.Chance(2, 5) {
		return name + g.sp() + g.matchers()
	}
	return name
}

func (g *gen) offsetVal() string {
	if g.r.Chance(1, 4) {
		return "-" + g.sp() + g.dur()
	}
	return g.dur()
}

func (g *gen) modifiers(allowList bool) string {
	at := func() string {
		if g.r.Chance(1, 3) {
			return g.sp() + "@" + g.sp() + g.caseMix(g.pick("start", "end")) + g.sp() + "(" + g.sp() + ")"
		}
		return g.sp() + "@" + g.sp() + g.pick("", "", "-", "+") + g.atSeconds()
	}
	off := func() string { return g.sp1() + g.caseMix("offset") + g.sp1() + g.offsetVal() }
	offList := func() string {
		k := 1 + g.r.Intn(3)
		var vs []string
		for j := 0; j < k; j++ {
			if j == 0 {
				vs = append(vs, g.dur())
			} else {
				vs = append(vs, g.offsetVal())
			}
		}
		return g.sp1() + "offset" + g.sp() + "[" + g.sp() + strings.Join(vs, g.sp()+","+g.sp()) + g.sp() + "]"
	}
	var parts []string
	if g.r.Chance(1, 6) && (allowList || g.r.Chance(1, 4)) {
		parts = append(parts, offList())
		if g.r.Chance(1, 5) {
			parts = append(parts, offList())
		}
	}
	if g.r.Chance(1, 3) {
		parts = append(parts, off())
		if g.r.Chance(1, 25) {
			parts = append(parts, off()) // rejected: offset set twice
		}
	}
	if g.r.Chance(1, 3) {
		a := at()
		p := g.r.Intn(len(parts) + 1)
		parts = append(parts[:p], append([]string{a}, parts[p:]...)...)
		if g.r.Chance(1, 25) {
			parts = append(parts, at()) // rejected: @ set twice
		}
	}
	if len(parts) == 2 && g.r.Chance(1, 30) {
		parts[0], parts[1] = parts[1], parts[0] // e.g. a list after a single offset: rejected
	}
	return strings.Join(parts, "")
}

// atSeconds: an `@` timestamp. Half of them random decimals: 0-6 fraction digits (more than the 3 the printer keeps, and
// 3-digit values whose float64 product with 1000 falls just below / above an integer), small and epoch-sized integer parts
func (g *gen) atSeconds() string {
	if g.r.Chance(1, 2) {
		return g.pick("0", "1", "1.5", "1609459200", "1609459200.123", "0.001", "1e9", "3", "12345.678", "1.0005", "4398046511", "1.0014",
			"1700000000.1234", "1.001", "1.009", "2.5e3", "1e-3", ".5", "0.0005", "1.9995")
	}
	ip := ""
	switch g.r.Pick(3, 3, 3, 1) {
	case 0:
		ip = strconv.Itoa(g.r.Intn(10))
	case 1:
		ip = strconv.Itoa(g.r.Intn(100000))
	case 2:
		ip = strconv.Itoa(1500000000 + g.r.Intn(400000000))
	case 3:
		ip = strconv.Itoa(g.r.Intn(1 << 31))
	}
	nd := g.r.Pick(1, 1, 2, 6, 3, 2, 2)
	if nd == 0 {
		return ip
	}
	fp := make([]byte, nd)
	for i := range fp {
		fp[i] = byte('0' + g.r.Intn(10))
	}
	return ip + "." + string(fp)
}

func (g *gen) rangeSuffix() string {
	s := "[" + g.sp() + g.dur()
	switch g.r.Pick(5, 3, 4) {
	case 1:
		s += g.sp() + ":"
	case 2:
		s += g.sp() + ":" + g.sp() + g.dur()
	}
	return s + g.sp() + "]"
}

func (g *gen) args(depth, n int) string {
	var as []string
	for i := 0; i < n; i++ {
		as = append(as, g.expr(depth))
	}
	return strings.Join(as, g.sp()+","+g.sp())
}

func (g *gen) binMod() string {
	s := ""
	if g.r.Chance(1, 5) {
		s += g.sp1() + g.caseMix("bool")
	}
	if g.r.Chance(1, 3) {
		s += g.sp1() + g.caseMix(g.pick("on", "ignoring")) + g.sp() + g.labels()
		if g.r.Chance(1, 2) {
			s += g.sp1() + g.caseMix(g.pick("group_left", "group_right"))
			if g.r.Chance(2, 3) {
				s += g.sp() + g.labels()
			}
		}
	} else if g.r.Chance(1, 150) {
		s += g.sp1() + g.pick("group_left", "group_right") // without on/ignoring: rejected
	}
	return s
}

func (g *gen) expr(depth int) string {
	k := 0
	if depth <= 0 {
		k = 5 + g.r.Pick(10, 4, 10, 3, 1)
	} else {
		k = g.r.Pick(30, 8, 9, 9, 9, 8, 3, 12, 5, 6)
	}
	switch k {
	case 0: // binary, children un-parenthesised: grouping is decided by the parser's precedence rules
		op := g.pick(binOps...)
		if op[0] >= 'a' {
			op = g.caseMix(op)
			return g.expr(depth-1) + g.sp1() + op + g.binMod() + g.sp1() + g.expr(depth-1)
		}
		m := g.binMod()
		if m != "" {
			m += " "
		}
		return g.expr(depth-1) + g.sp() + op + m + g.sp() + g.expr(depth-1)
	case 1:
		return g.pick("-", "-", "+") + g.sp() + g.expr(depth-1)
	case 2:
		return "(" + g.sp() + g.expr(depth-1) + g.sp() + ")"
	case 3: // aggregate
		op := g.pick(aggOps...)
		n := 1
		if paramAgg[op] {
			n = 2
		}
		if g.r.Chance(1, 80) {
			n = g.r.Intn(4)
		}
		body := "(" + g.sp() + g.args(depth-1, n) + g.sp() + ")"
		mod := g.caseMix(g.pick("by", "without")) + g.sp() + g.labels()
		op = g.caseMix(op)
		switch g.r.Pick(20, 20, 20, 1) {
		case 0:
			return op + g.sp() + body
		case 1:
			return op + g.sp1() + mod + g.sp() + body
		case 2:
			return op + g.sp() + body + g.sp() + mod
		}
		return op + g.sp1() + mod + g.sp() + body + g.sp() + mod
	case 4: // call
		fn := g.fns[g.r.Intn(len(g.fns))]
		if g.r.Chance(1, 100) {
			fn = g.pick("nosuchfn", "RATE", "foo")
		}
		n := g.r.Pick(2, 6, 3, 1)
		if g.r.Chance(1, 6) { // label_replace-style call: an expression followed by string arguments
			k := 1 + g.r.Intn(4)
			as := []string{g.expr(depth - 1)}
			for j := 0; j < k; j++ {
				as = append(as, g.str())
			}
			return fn + g.sp() + "(" + g.sp() + strings.Join(as, g.sp()+","+g.sp()) + g.sp() + ")"
		}
		s := fn + g.sp() + "(" + g.sp() + g.args(depth-1, n)
		if n > 0 && g.r.Chance(1, 40) {
			s += ","
		}
		return s + g.sp() + ")"
	case 5: // subquery of an atom-like operand (or of anything, which then binds to the last atom)
		var operand string
		switch g.r.Pick(5, 3, 3, 2, 2, 2) {
		case 0:
			operand = "(" + g.expr(depth-1) + ")"
		case 1:
			operand = g.fns[g.r.Intn(len(g.fns))] + "(" + g.args(depth-1, 1) + ")"
		case 2:
			operand = g.selectorHead() + g.rangeSuffix()
		case 3:
			operand = g.number()
		case 4:
			operand = g.str()
		case 5:
			operand = g.expr(depth - 1)
		}
		return operand + g.sp() + g.rangeSuffix() + g.modifiers(false)
	case 6:
		return g.str()
	case 7:
		return g.selectorHead() + g.modifiers(true)
	case 8:
		// range selector: modifiers before the range are rejected (offset, @ number) or kept (@ start())
		pre := ""
		if g.r.Chance(1, 10) {
			pre = g.modifiers(true)
		}
		return g.selectorHead() + pre + g.sp() + g.rangeSuffix() + g.modifiers(true)
	}
	return g.number()
}

// chain: a flat run of operands joined by random binary operators, with signs, no parentheses: the grouping of the
// parsed tree is decided by the precedence / associativity table alone
func (g *gen) chain() string {
	n := 2 + g.r.Intn(7)
	var b strings.Builder
	for i := 0; i < n; i++ {
		if i > 0 {
			op := g.pick(binOps...)
			b.WriteString(" " + op)
			if g.r.Chance(1, 8) {
				b.WriteString(g.binMod())
			}
			b.WriteString(" ")
		}
		if g.r.Chance(1, 5) {
			b.WriteString(g.pick("-", "+", "- -", "-+"))
		}
		switch g.r.Pick(6, 3, 2, 1, 1) {
		case 0:
			b.WriteString(g.pick(identPool...))
		case 1:
			b.WriteString(g.number())
		case 2:
			b.WriteString(g.selectorHead() + g.modifiers(true))
		case 3:
			b.WriteString("(" + g.expr(1) + ")")
		case 4:
			b.WriteString(g.expr(1))
		}
	}
	return b.String()
}

func (g *gen) source() string {
	if g.r.Chance(1, 7) {
		return g.chain()
	}
	s := g.expr(g.r.Pick(1, 2, 4, 5, 5, 4, 3) /* depth 0..6 */)
	if g.r.Chance(1, 30) {
		s = "# leading comment\n" + s
	}
	if g.r.Chance(1, 30) {
		s += " # trailing comment"
	}
	if g.r.Chance(1, 20) {
		s = " " + s + "\n"
	}
	return s
}

var vocab = []string{"(", ")", "{", "}", "[", "]", ",", ":", "=", "==", "!=", "=~", "!~", "<", "<=", ">", ">=", "+", "-", "*", "/", "%", "^", "@", "$",
	"and", "or", "unless", "default", "atan2", "sum", "topk", "dbag", "by", "without", "on", "ignoring", "group_left", "group_right", "bool",
	"offset", "start", "end", "foo", "a:b", "rate", "time", "1", "Inf", "5m", "1s", "\"x\"", "'y'", "`z`", "# c\n", "0x", ".", "!", "~", ";", "&"}

func (g *gen) mutate(src string) string {
	toks, _ := lexAll(src)
	var parts []string
	for _, t := range toks {
		if t.name != "ERR" {
			parts = append(parts, t.text)
		}
	}
	if len(parts) == 0 {
		return g.pick(vocab...)
	}
	n := 1 + g.r.Intn(2)
	for i := 0; i < n; i++ {
		p := g.r.Intn(len(parts))
		switch g.r.Pick(3, 2, 2, 4, 2) {
		case 0:
			parts = append(parts[:p], parts[p+1:]...)
		case 1:
			parts = append(parts[:p+1], parts[p:]...)
		case 2:
			q := g.r.Intn(len(parts))
			parts[p], parts[q] = parts[q], parts[p]
		case 3:
			parts = append(parts[:p], append([]string{g.pick(vocab...)}, parts[p:]...)...)
		case 4:
			parts[p] = g.pick(vocab...)
		}
		if len(parts) == 0 {
			break
		}
	}
	return strings.Join(parts, " ")
}

func (g *gen) arbitrary() string {
	switch g.r.Pick(3, 5, 5, 2, 4) { // the last: input that ends inside `[`, `{`, `(` or a string — followed by valid sources on the same pooled parser
	case 0:
		return string(g.r.Bytes(g.r.Intn(40)))
	case 1:
		const cs = "(){}[],:=!~<>+-*/%^@$\"'`#. \n\t\\abefnoxyINF0123456789_"
		n := g.r.Intn(30)
		b := make([]byte, n)
		for i := range b {
			b[i] = cs[g.r.Intn(len(cs))]
		}
		return string(b)
	case 2:
		n := 1 + g.r.Intn(12)
		var ps []string
		for i := 0; i < n; i++ {
			ps = append(ps, g.pick(vocab...))
		}
		return strings.Join(ps, g.pick(" ", " ", ""))
	case 3:
		n := 1 + g.r.Intn(600)
		switch g.r.Intn(6) {
		case 0:
			return strings.Repeat("(", n) + "1" + strings.Repeat(")", n)
		case 1:
			return strings.Repeat("-", n) + "foo"
		case 2:
			return strings.Repeat("a ^ ", n) + "a"
		case 3:
			return strings.Repeat("sum(", n) + "x" + strings.Repeat(")", n)
		case 4:
			return "x" + strings.Repeat("[1m:]", n)
		}
		return strings.Repeat("a + ", n) + "a"
	}
	// unterminated things
	return g.pick("\"abc", "'\\", "`x", "foo{", "foo[", "foo[5m", "(", "{a=", "foo{a=\"b\",", "sum by (", "1 +", "foo @", "foo offset", "\"\\x", "\"\\u12", "foo[5m:", "foo offset [", "foo offset [1m,",
		"foo[5x]", "rate(foo[5", "foo offset [1s, 2", "foo{a=\"b\"", "(a + b", "sum(rate(x[5m]", "foo[5m:1", "((", "foo{a=~", "x[1h:5m", "topk(3, foo{")
}

// ---------------------------------------------------------------- gen mode: tables of the grammar as Lean source

func leanStr(s string) string { return strconv.Quote(s) }

func ruleAlts(y, rule string) []string {
	re := regexp.MustCompile(`(?m)^` + rule + `\s*:([^;]*);`)
	m := re.FindStringSubmatch(y)
	if m == nil {
		return nil
	}
	var out []string
	for _, a := range strings.Split(m[1], "|") {
		a = strings.TrimSpace(a)
		if a != "" {
			out = append(out, a)
		}
	}
	return out
}

func genLean() {
	y := parser.VerifParseY
	var b strings.Builder
	b.WriteString("/- GENERATED by verif-c28 -mode=gen from internal/promql/parser/parse.y, lex.go (key), functions.go. Do not edit. -/\n")
	b.WriteString("namespace SH.Gen.C28\n\n")
	// precedence table
	b.WriteString("/-- (token, level, kind) from the %left/%right/%nonassoc lines, in increasing precedence; kind: 0 left, 1 right, 2 nonassoc -/\n")
	b.WriteString("def precTable : List (String × Nat × Nat) := [")
	level := 0
	first := true
	for _, line := range strings.Split(y, "\n") {
		line = strings.TrimSpace(line)
		if line == "%%" {
			break
		}
		kind := -1
		switch {
		case strings.HasPrefix(line, "%left"):
			kind = 0
		case strings.HasPrefix(line, "%right"):
			kind = 1
		case strings.HasPrefix(line, "%nonassoc"):
			kind = 2
		}
		if kind < 0 {
			continue
		}
		level++
		for _, t := range strings.Fields(line)[1:] {
			if !first {
				b.WriteString(", ")
			}
			first = false
			fmt.Fprintf(&b, "(%s, %d, %d)", leanStr(t), level, kind)
		}
	}
	b.WriteString("]\n\n")
	wl := func(name, doc string, xs []string) {
		fmt.Fprintf(&b, "/-- %s -/\ndef %s : List String := [", doc, name)
		for i, x := range xs {
			if i > 0 {
				b.WriteString(", ")
			}
			b.WriteString(leanStr(x))
		}
		b.WriteString("]\n\n")
	}
	wl("metricIdentToks", "alternatives of the grammar rule metric_identifier", ruleAlts(y, "metric_identifier"))
	wl("aggregateOpToks", "alternatives of the grammar rule aggregate_op", ruleAlts(y, "aggregate_op"))
	wl("maybeLabelToks", "alternatives of the grammar rule maybe_label", ruleAlts(y, "maybe_label"))
	wl("functions", "names accepted by getFunction", parser.VerifFunctions())
	b.WriteString("/-- the lexer's keyword table (lower-case word, token) -/\ndef keywords : List (String × String) := [")
	for i, kv := range parser.VerifKeywords() {
		if i > 0 {
			b.WriteString(", ")
		}
		fmt.Fprintf(&b, "(%s, %s)", leanStr(kv[0]), leanStr(kv[1]))
	}
	b.WriteString("]\n\n")
	fmt.Fprintf(&b, "/-- the unary rule is declared `%%prec` this token -/\ndef unaryPrecTok : String := %s\n\n", leanStr(unaryPrec(y)))
	b.WriteString("end SH.Gen.C28\n")
	fmt.Print(b.String())
}

func unaryPrec(y string) string {
	m := regexp.MustCompile(`unary_op\s+expr\s+%prec\s+(\w+)`).FindStringSubmatch(y)
	if m == nil {
		return "?"
	}
	return m[1]
}

// ---------------------------------------------------------------- main

func main() {
	h := verifx.New()
	if parser.VerifTokName(parser.EQL) != "EQL" || parser.VerifTokName(parser.END) != "END" || parser.VerifTokName(parser.LEFT_PAREN) != "LEFT_PAREN" {
		panic("verif-c28: token name table does not line up with the token constants")
	}
	if h.Mode == "gen" {
		genLean()
		return
	}
	for _, kv := range parser.VerifKeywords() {
		keywordSet[kv[0]] = true
	}
	fns := parser.VerifFunctions()
	var corpus []string
	if h.Mode == "corpus" { // -arg=<file>: one Go-quoted source per line, '#' lines are comments
		data, err := os.ReadFile(h.Arg)
		if err != nil {
			panic(err)
		}
		for _, line := range strings.Split(string(data), "\n") {
			line = strings.TrimSpace(line)
			if line == "" || strings.HasPrefix(line, "#") {
				continue
			}
			src, err := strconv.Unquote(line)
			if err != nil {
				panic(fmt.Sprintf("corpus line %q: %v", line, err))
			}
			corpus = append(corpus, src)
		}
		h.N = len(corpus)
	}
	h.Cases(func(i int, r *verifx.Rng) {
		g := &gen{r: r, fns: fns}
		var src, kind string
		switch {
		case corpus != nil:
			src, kind = corpus[i], "corpus"
		case h.Mode == "src": // -mode=src -arg=<source text>: one hand-given source
			src, kind = h.Arg, "arg"
		case i%20 < 14:
			src, kind = g.source(), "structured"
		case i%20 < 17:
			src, kind = g.mutate(g.source()), "mutated"
		default:
			src, kind = g.arbitrary(), "arbitrary"
		}
		h.Stat("kind."+kind, 1)
		if g.specials > 0 {
			h.Stat("gen.special-strings", int64(g.specials))
		}
		h.Note("src %q", src)
		runCase(h, r, src)
	})
	h.Done()
}

func checkParse(h *verifx.H, src string, what string) (parsed, bool) {
	r := safeParse(src)
	if r.panicked {
		h.Viol("panic-parse", "ParseExpr panicked (%s) on %s input %q", r.pval, what, src)
		h.Stat("panic.escaped", 1)
		return r, false
	}
	if r.err != nil && r.err.Error() == "unexpected error" {
		h.Viol("panic-recovered", "ParseExpr hit a runtime panic (recovered inside the parser) on %s input %q", what, src)
		h.Stat("panic.recovered", 1)
	}
	return r, true
}

func runCase(h *verifx.H, r0 *verifx.Rng, src string) {
	if h.Mode == "reentrancy" { // only the purity / reentrancy oracle (the binary built with -race runs this)
		if r := safeParse(src); !r.panicked && r.err == nil && r.e != nil {
			if printed, pp, _ := safeString(r.e); !pp {
				reentrancy(h, r.e, src, printed)
			}
		}
		return
	}
	toks, clean := lexAll(src)
	if !clean {
		h.Stat("lex.error", 1)
	}
	r, ok := checkParse(h, src, "generated")
	lexWhole(h, src)
	lexStrings(h, r0, src, toks)
	lexLiterals(h, src, toks, false)
	h.Op("parse %s", renderFull(toks))
	lexObs(h, toks)
	if !ok {
		h.Obs("panic")
		return
	}
	if r.err != nil || r.e == nil {
		h.Obs("err")
		h.Stat("parse.rejected", 1)
		return
	}
	h.Stat("parse.accepted", 1)
	h.Obs("ok %s", ser(r.e, serOpt{}))
	wfObs(h, r.e)

	// features, non-trivial rule
	f := &feat{nodes: map[string]int{}, ops: map[string]int{}}
	f.walk(r.e, nil, 0)
	for k, v := range f.nodes {
		h.Stat("node."+k, int64(v))
	}
	for k, v := range f.ops {
		h.Stat("op."+k, int64(v))
	}
	h.Stat(fmt.Sprintf("depth.%02d", min(f.depth, 12)), 1)
	for tag, n := range map[string]int{"prec": f.precNest, "modifier": f.mod, "ext": f.ext, "subquery": f.subq, "matching": f.matching, "negnum": f.negnum, "kwname": f.kw, "str-esc-end": f.strEsc} {
		if n > 0 {
			h.Stat("feature."+tag, 1)
		}
	}
	for _, tag := range []string{"prec", "modifier", "ext", "subquery", "matching", "str-esc-end"} {
		if map[string]int{"prec": f.precNest, "modifier": f.mod, "ext": f.ext, "subquery": f.subq, "matching": f.matching, "str-esc-end": f.strEsc}[tag] > 0 {
			h.NonTrivial(tag)
		}
	}

	// printer
	printed, pp, pv := safeString(r.e)
	h.Op("print %s", ser(r.e, serOpt{}))
	if pp {
		h.Obs("panic")
		h.Viol("panic-print", "String() panicked (%s) on the expression parsed from %q", pv, src)
		return
	}
	ptoks, _ := lexAll(printed)
	h.Obs("toks %s", renderReduced(ptoks))
	h.Note("printed %q", printed)

	// parse the printed text
	r2, ok2 := checkParse(h, printed, "printed")
	lexWhole(h, printed)
	lexStrings(h, r0, printed, ptoks)
	lexLiterals(h, printed, ptoks, true)
	h.Op("parse %s", renderFull(ptoks))
	lexObs(h, ptoks)
	switch {
	case !ok2:
		h.Obs("panic")
	case r2.err != nil || r2.e == nil:
		h.Obs("err")
	default:
		h.Obs("ok %s", ser(r2.e, serOpt{}))
		wfObs(h, r2.e)
	}

	// String() is a function of the tree: concurrent printers agree and the tree is never touched
	reentrancy(h, r.e, src, printed)

	// the direct oracle, independent of the model
	if node, what, p := smallestFailure(r.e); node != nil {
		typ := strings.TrimPrefix(fmt.Sprintf("%T", node), "*parser.")
		sig := "rt-" + typ + "-" + strings.Fields(what)[0]
		if k := badDuration(node); k != "" {
			sig = k
		}
		if strings.HasPrefix(what, "differs-at-timestamp") {
			sig = "rt-at-timestamp"
		}
		h.Viol(sig, "accepted %q; sub-expression %s prints as %q which %s (whole expression printed as %q)", src, typ, p, what, printed)
		h.Stat("oracle."+sig, 1)
	}
}
