//go:build verif

package parser

import (
	_ "embed"
	"sort"
)

// Thin accessors for the C28 harness (/verif). No logic of the parser is copied here.

//go:embed parse.y
var VerifParseY string

// VerifTokName is the goyacc name of a token type ("LEFT_PAREN", "SUM", ...).
func VerifTokName(t ItemType) string {
	i := int(t) - yyPrivate + 1 // yyToknames = $end, error, $unk, <first %token = yyPrivate+2>, ...
	if i < 0 || i >= len(yyToknames) {
		return "?"
	}
	return yyToknames[i]
}

// VerifNumber runs the parser's own number conversion.
func VerifNumber(s string) (float64, bool) {
	p := newParser(s)
	defer parserPool.Put(p)
	f := p.number(s)
	return f, len(p.parseErrors) == 0
}

// VerifUnquote runs the parser's own string unquoting.
func VerifUnquote(s string) (string, bool) {
	p := newParser(s)
	defer parserPool.Put(p)
	v := p.unquoteString(s)
	return v, len(p.parseErrors) == 0
}

// VerifParseDuration is the parser's duration conversion (seconds).
func VerifParseDuration(s string) (int64, error) { return parseDuration(s) }

// VerifKeywords returns the lexer's keyword table as (word, token name), sorted by word.
func VerifKeywords() [][2]string {
	var r [][2]string
	for k, v := range key {
		r = append(r, [2]string{k, VerifTokName(v)})
	}
	sort.Slice(r, func(i, j int) bool { return r[i][0] < r[j][0] })
	return r
}

// VerifFunctions returns the names the parser accepts in a function call, sorted.
func VerifFunctions() []string {
	var r []string
	for k := range Functions {
		if _, ok := getFunction(k); ok {
			r = append(r, k)
		}
	}
	sort.Strings(r)
	return r
}

func VerifIsLabel(s string) bool { return isLabel(s) }
