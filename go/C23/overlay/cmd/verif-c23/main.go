//go:build verif

// verif-c23: correspondence harness and direct property oracle for the API series cache (cache2).
//
// mode "" (scripted): every case runs inside a testing/synctest bubble (GOEXPERIMENT=synctest): the clock is
// the bubble's fake clock (starts at 2000-01-01T00:00:00Z, advanced only by this harness), and after every
// operation synctest.Wait() blocks until every goroutine of the real cache (Get callers, loadChunks, wait
// helpers, the trim goroutine) is parked. The storage stub blocks on a channel per call, so the schedule
// reqBegin / loadFinish(ok|err) / invalidate / trim / reset / setLimits is scripted and each op is atomic from
// the model's viewpoint. The same op stream is replayed by the Lean model (drv_c23) and the `<` lines diffed.
//
// mode "free": many goroutines against one real cache under the real clock, loads of random duration and
// failures, invalidations, resets, limits; only the property oracle is evaluated.
package main

import (
	"context"
	"errors"
	"fmt"
	"os"
	"runtime"
	"sort"
	"strings"
	"sync"
	"sync/atomic"
	"testing/synctest"
	"time"

	"github.com/VKCOM/statshouse-go"

	"github.com/VKCOM/statshouse/internal/api"
	"github.com/VKCOM/statshouse/internal/verifx"
)

var errStub = errors.New("stub storage error")

const hangAfter = 60 * time.Second

// rows the storage holds for slot time t at storage version ver: 0, 1 or 2 (rows appear and disappear between versions)
func rowsOf(t, step, ver int64) int { return int((t/step + ver) % 3) }

// what the storage produces for slot time t
func stubRows(t, key, step, ver, load int64) []api.VerifC23Row {
	n := rowsOf(t, step, ver)
	rs := make([]api.VerifC23Row, n)
	for i := range rs {
		rs[i] = api.VerifC23Row{Time: t, Key: key, Step: step, Ver: ver, Load: load, Idx: int64(i)}
	}
	return rs
}

// canonical text of one returned slot; "X…" when the rows are not what the storage produces for one slot
func cellText(rows []api.VerifC23Row, step int64) string {
	if len(rows) == 0 {
		return "_"
	}
	r0 := rows[0]
	ok := len(rows) == rowsOf(r0.Time, step, r0.Ver)
	for i, r := range rows {
		if r.Time != r0.Time || r.Key != r0.Key || r.Ver != r0.Ver || r.Load != r0.Load || r.Step != step || r.Idx != int64(i) {
			ok = false
		}
	}
	if !ok {
		return fmt.Sprintf("X%d.%d.%d.%d.n%d", r0.Time, r0.Key, r0.Ver, r0.Load, len(rows))
	}
	return fmt.Sprintf("%d.%d.%d.%d", r0.Time, r0.Key, r0.Ver, r0.Load)
}

// ---------------------------------------------------------------------------------------------- scripted

type outcome struct {
	ok  bool
	ver int64
}

type call struct {
	req, key       int64
	from, to, step int64
	gate           chan outcome
}

type result struct {
	id   int64
	rows [][]api.VerifC23Row
	err  error
}

type request struct {
	id, key        int64
	play           int
	from, to       int64
	beginSeq       int
	done           bool
	pendingAtBegin bool
}

type loadRec struct {
	key, from, to, ver int64
	seq                int
	ok                 bool
}

type invEvent struct {
	seq   int
	times []int64
}

type script struct {
	h       *verifx.H
	r       *verifx.Rng
	v       *api.VerifC23
	step    int64
	k       int
	dur     int64 // seconds
	mu      sync.Mutex
	calls   map[int64]*call // by request id, pending stub calls
	newCall []*call
	results chan result
	reqs    map[int64]*request
	finSeq  map[int64]int // load id (= request id) -> seq of its fin op
	loads   []loadRec
	invs    []invEvent
	seq     int
	version int64
	nextID  int64
	nkeys   int
	t0      int64
}

func (s *script) stub(ctx context.Context, reqID, keyID, fromSec, toSec, stepSec int64, nslots int) ([][]api.VerifC23Row, error) {
	c := &call{req: reqID, key: keyID, from: fromSec, to: toSec, step: stepSec, gate: make(chan outcome)}
	s.mu.Lock()
	s.calls[reqID] = c
	s.newCall = append(s.newCall, c)
	s.mu.Unlock()
	o := <-c.gate
	if !o.ok {
		return nil, errStub
	}
	rows := make([][]api.VerifC23Row, nslots)
	for i := range rows {
		rows[i] = stubRows(fromSec+int64(i)*stepSec, keyID, stepSec, o.ver, reqID)
	}
	return rows, nil
}

func (s *script) now() int64 { return time.Now().UnixNano() }

// settle: wait until every goroutine of the cache is parked, then print completions and the cache state,
// and evaluate the per-state oracles.
func (s *script) settle(opname string) {
	synctest.Wait()
	var done []result
	for {
		select {
		case r := <-s.results:
			done = append(done, r)
			continue
		default:
		}
		break
	}
	sort.Slice(done, func(i, j int) bool { return done[i].id < done[j].id })
	for _, d := range done {
		rq := s.reqs[d.id]
		rq.done = true
		if d.err != nil {
			s.h.Obs("done %d err", d.id)
			s.h.Stat("done.err", 1)
			continue
		}
		cells := make([]string, len(d.rows))
		for i := range d.rows {
			cells[i] = cellText(d.rows[i], s.step)
		}
		txt := "-"
		if len(cells) > 0 {
			txt = strings.Join(cells, " ")
		}
		s.h.Obs("done %d ok %s", d.id, txt)
		s.h.Stat("done.ok", 1)
		s.checkResult(rq, d.rows)
	}
	s.dump(opname)
}

func (s *script) dump(opname string) {
	info := s.v.Info()
	s.h.Obs("info size=%d buckets=%d chunks=%d len=%d max=%d soft=%d", info.Size, info.Buckets, info.Chunks, info.ChunkLen, info.MaxSize, info.MaxSizeSoft)
	sum := 0
	for _, b := range s.v.Dump(s.step, false) {
		cs := make([]string, len(b.Chunks))
		for i, c := range b.Chunks {
			d := 0
			if c.HasData {
				d = 1
			}
			cs[i] = fmt.Sprintf("%d:d%d:l%d:a%d:i%d:s%d:u%d:z%d", c.Start/1e9, d, c.Loading, c.Awaiters, c.InvalidatedAt, c.LoadStartedAt, c.LastAccess, c.Size)
			sum += c.Size
			if c.Loading >= 2 {
				s.h.Stat("state.chunk-loaded-by-two", 1)
			}
			if c.HasData && c.InvalidatedAt != 0 && c.Loading == 0 {
				s.h.Stat("state.cached-but-invalidated", 1)
			}
			if c.HasData && c.InvalidatedAt != 0 && c.Loading > 0 && c.LoadStartedAt < c.InvalidatedAt {
				s.h.Stat("state.invalidated-while-reloading", 1)
			}
		}
		s.h.Obs("b %s play=%d la=%d %s", strings.TrimPrefix(b.Key, "k"), int64(b.Play/time.Second), b.LastAccess, verifx.List(cs))
	}
	// ---- oracle: memory accounting equals the memory actually held by attached chunks
	if info.Size != sum {
		s.h.Viol("size-mismatch", "after %s: runtime info size=%d but attached chunks hold %d bytes", opname, info.Size, sum)
	}
	// ---- oracle: nobody waits with nothing to wait for
	s.mu.Lock()
	ncalls := len(s.calls)
	s.mu.Unlock()
	if ncalls == 0 {
		for id := int64(1); id <= s.nextID; id++ {
			rq := s.reqs[id]
			if !rq.done {
				s.h.Viol("request-stuck", "after %s: request %d has not returned although no load is in flight", opname, rq.id)
			}
		}
	}
}

// direct oracle on one successful result: placement, exact rows, freshness
func (s *script) checkResult(rq *request, rows [][]api.VerifC23Row) {
	want := int((rq.to - rq.from) / s.step)
	if len(rows) != want {
		s.h.Viol("wrong-slot-count", "request %d [%d,%d) step %d returned %d slots, want %d", rq.id, rq.from, rq.to, s.step, len(rows), want)
		return
	}
	for i, rs := range rows {
		t := rq.from + int64(i)*s.step
		if len(rs) == 0 {
			// the storage may hold no rows for this slot at some version: an empty slot is right iff some load that the
			// freshness rule allows covered the slot and was answered with zero rows for it
			if rq.play == 0 && !s.emptyAllowed(rq, t) {
				s.h.Viol("rows-not-from-allowed-load", "request %d key %d slot %d (time %d) is empty, but no load finished by now that covers it, got zero rows for it and is not older than an invalidation of that second completed before the request began", rq.id, rq.key, i, t)
			}
			continue
		}
		if len(rs) != rowsOf(t, s.step, rs[0].Ver) {
			s.h.Viol("misplaced-rows", "request %d key %d slot %d (time %d): %d rows, storage produced %d at version %d", rq.id, rq.key, i, t, len(rs), rowsOf(t, s.step, rs[0].Ver), rs[0].Ver)
			continue
		}
		for j, r := range rs {
			if r.Time != t || r.Key != rq.key || r.Step != s.step || r.Idx != int64(j) {
				s.h.Viol("misplaced-rows", "request %d key %d slot %d (time %d) holds row time=%d key=%d step=%d idx=%d", rq.id, rq.key, i, t, r.Time, r.Key, r.Step, r.Idx)
				break
			}
			if r.Load != rs[0].Load || r.Ver != rs[0].Ver {
				s.h.Viol("misplaced-rows", "request %d slot %d mixes rows of loads %d and %d", rq.id, i, rs[0].Load, r.Load)
				break
			}
		}
		if rq.play != 0 {
			continue
		}
		fin, finished := s.finSeq[rs[0].Load]
		if !finished {
			s.h.Viol("rows-from-unfinished-load", "request %d slot %d holds rows of load %d which never finished", rq.id, i, rs[0].Load)
			continue
		}
		for _, ev := range s.invs {
			if !(fin < ev.seq && ev.seq < rq.beginSeq) {
				continue
			}
			for _, it := range ev.times {
				if t <= it && it < t+s.step {
					s.h.Viol("stale-after-invalidate", "request %d (began at op %d) slot time %d holds rows of load %d finished at op %d, before the invalidation of second %d at op %d",
						rq.id, rq.beginSeq, t, rs[0].Load, fin, it, ev.seq)
				}
			}
		}
	}
}

// emptyAllowed: is there a finished successful load of this key covering slot t with zero rows at its version that did
// not finish before an invalidation of that second which completed before the request began?
func (s *script) emptyAllowed(rq *request, t int64) bool {
	for _, ld := range s.loads {
		if ld.key != rq.key || !ld.ok || t < ld.from || t >= ld.to || rowsOf(t, s.step, ld.ver) != 0 {
			continue
		}
		stale := false
		for _, ev := range s.invs {
			if !(ld.seq < ev.seq && ev.seq < rq.beginSeq) {
				continue
			}
			for _, it := range ev.times {
				if t <= it && it < t+s.step {
					stale = true
				}
			}
		}
		if !stale {
			return true
		}
	}
	return false
}

func (s *script) pendingCalls() []int64 {
	s.mu.Lock()
	defer s.mu.Unlock()
	ids := make([]int64, 0, len(s.calls))
	for id := range s.calls {
		ids = append(ids, id)
	}
	sort.Slice(ids, func(i, j int) bool { return ids[i] < ids[j] })
	return ids
}

func (s *script) opReq(key int64, play int, force bool, from, to int64) {
	s.nextID++
	id := s.nextID
	rq := &request{id: id, key: key, play: play, from: from, to: to, beginSeq: s.seq}
	s.reqs[id] = rq
	f := 0
	if force {
		f = 1
	}
	s.h.Op("req %d %d %d %d %d %d %d", id, key, play, f, from, to, s.now())
	s.mu.Lock()
	s.newCall = s.newCall[:0]
	s.mu.Unlock()
	go func() {
		rows, err := s.v.Get(context.Background(), id, "u", fmt.Sprintf("k%d", key), key, play, s.step, from, to, force)
		s.results <- result{id, rows, err}
	}()
	synctest.Wait()
	s.mu.Lock()
	nc := append([]*call(nil), s.newCall...)
	s.mu.Unlock()
	d := to - from
	switch {
	case d%s.step != 0:
		s.h.Obs("req %d bad", id)
	case d == 0:
		s.h.Obs("req %d empty", id)
	case len(nc) == 0:
		s.h.Obs("req %d noload", id)
	default:
		s.h.Obs("req %d load %d %d", id, nc[0].from, nc[0].to)
		s.h.Stat("req.load", 1)
		if len(nc) > 1 {
			s.h.Viol("two-loads-one-request", "request %d issued %d loader calls", id, len(nc))
		}
		if (nc[0].to-nc[0].from)/s.dur >= 3 {
			s.h.Stat("req.load3chunks", 1)
		}
	}
	s.settle("req")
	if len(nc) == 0 && d > 0 && d%s.step == 0 {
		if rq.done {
			s.h.Stat("req.pure-hit", 1)
		} else {
			s.h.Stat("req.await-only", 1)
		}
	} else if len(nc) > 0 && s.v.Info().WaitN > 0 {
		s.h.Stat("req.load-and-maybe-await", 1)
	}
}

func (s *script) opFin(id int64, ok bool) {
	s.mu.Lock()
	c := s.calls[id]
	delete(s.calls, id)
	s.mu.Unlock()
	if c == nil {
		return
	}
	s.finSeq[id] = s.seq
	s.loads = append(s.loads, loadRec{key: c.key, from: c.from, to: c.to, ver: s.version, seq: s.seq, ok: ok})
	if ok {
		s.h.Op("fin %d ok %d %d", id, s.version, s.now())
	} else {
		s.h.Op("fin %d err 0 %d", id, s.now())
	}
	c.gate <- outcome{ok, s.version}
	s.settle("fin")
}

func (s *script) runCase(i int) {
	r, h := s.r, s.h
	steps := []int64{1, 1, 1, 5, 15, 60}
	s.step = steps[r.Intn(len(steps))]
	chunkSize := []int{2, 3, 4, 4, 0}[r.Intn(5)]
	if chunkSize == 0 && s.step != 15 && s.step != 5 {
		chunkSize = 3
	}
	s.calls = map[int64]*call{}
	s.results = make(chan result, 4096)
	s.reqs = map[int64]*request{}
	s.finSeq = map[int64]int{}
	s.invs = nil
	s.seq, s.version, s.nextID = 0, 1, 0
	s.nkeys = r.Range(1, 3)
	s.v = api.VerifC23New(chunkSize, s.stub)
	sh := s.v.Shard(s.step)
	s.k = sh.ChunkSize
	s.dur = int64(sh.ChunkDuration / time.Second)
	col, row := api.VerifC23SizeConsts()
	s.t0 = time.Now().Unix()
	h.Op("cfg %d %d %d %d %d", s.step, s.k, int64(sh.ChunkDuration), col, row)
	h.Stat(fmt.Sprintf("cfg.step%d", s.step), 1)

	// two regions of the time axis: "old" (a day ago: complete data) and "edge" (around now: chunks that
	// are not complete yet, chunks inside the invalidateLinger window)
	regionStart := func(edge bool) (int64, int64) {
		if edge {
			a := ((s.t0 - 4*s.dur) / s.dur) * s.dur
			return a, a + 7*s.dur
		}
		a := ((s.t0 - 86400 - 3*s.dur) / s.dur) * s.dur
		return a, a + 6*s.dur
	}
	pickRange := func() (int64, int64) {
		a, b := regionStart(r.Chance(3, 10))
		nslots := (b - a) / s.step
		from := a + int64(r.Intn(int(nslots-1)))*s.step
		maxLen := int64(4 * s.k)
		if rem := (b - from) / s.step; rem < maxLen {
			maxLen = rem
		}
		ln := int64(r.Range(1, int(maxLen)))
		if r.Chance(1, 40) {
			ln = 0
		}
		to := from + ln*s.step
		if s.step > 1 && r.Chance(1, 40) {
			to += 1 // not a multiple of the step: Get must fail
		}
		return from, to
	}
	nops := r.Range(8, 40)
	sawInvDuringLoad, sawTrimDuringLoad, sawAwait := false, false, false
	for o := 0; o < nops; o++ {
		s.seq++
		kind := r.Pick(40, 26, 12, 5, 4, 2, 5, 6)
		if kind != 0 && r.Chance(1, 5) {
			// no clock advance: this op carries the same timestamp as the previous one
		} else {
			time.Sleep(time.Millisecond)
		}
		switch kind {
		case 0:
			from, to := pickRange()
			play := []int{0, 0, 0, 0, 1, 1, 5}[r.Intn(7)]
			s.opReq(int64(r.Range(1, s.nkeys)), play, r.Chance(1, 12), from, to)
			h.Stat("op.req", 1)
			if s.v.Info().WaitN > 0 {
				sawAwait = true
			}
		case 1:
			ids := s.pendingCalls()
			if len(ids) == 0 {
				continue
			}
			s.opFin(ids[r.Intn(len(ids))], !r.Chance(3, 20))
			h.Stat("op.fin", 1)
		case 2:
			n := r.Range(1, 4)
			times := make([]int64, n)
			a, b := regionStart(r.Chance(3, 10))
			for j := range times {
				times[j] = a + int64(r.Intn(int(b-a)))
			}
			if r.Chance(1, 3) && s.nextID > 0 { // aim at something that was requested
				if rq := s.reqs[1+int64(r.Intn(int(s.nextID)))]; rq != nil && rq.to > rq.from {
					times[0] = rq.from + int64(r.Intn(int(rq.to-rq.from)))
				}
			}
			sort.Slice(times, func(i, j int) bool { return times[i] < times[j] })
			s.version++
			h.Op("inv %d %s", s.now(), verifx.List(times))
			s.v.Invalidate(times, s.step)
			s.invs = append(s.invs, invEvent{s.seq, times})
			if len(s.pendingCalls()) > 0 {
				sawInvDuringLoad = true
			}
			s.settle("inv")
			h.Stat("op.inv", 1)
		case 3:
			d := s.v.Dump(s.step, false)
			if len(d) == 0 {
				continue
			}
			b := d[r.Intn(len(d))]
			if len(b.Chunks) == 0 {
				continue
			}
			t := b.Chunks[r.Intn(len(b.Chunks))].LastAccess + 1
			h.Op("trimchunks %s %d %d", strings.TrimPrefix(b.Key, "k"), t, s.now())
			s.v.TrimChunks(s.step, b.Key, t)
			if len(s.pendingCalls()) > 0 {
				sawTrimDuringLoad = true
			}
			s.settle("trimchunks")
			h.Stat("op.trimchunks", 1)
		case 4:
			key := r.Range(1, s.nkeys)
			h.Op("rmbucket %d %d", key, s.now())
			s.v.RemoveBucket(s.step, fmt.Sprintf("k%d", key))
			if len(s.pendingCalls()) > 0 {
				sawTrimDuringLoad = true
			}
			s.settle("rmbucket")
			h.Stat("op.rmbucket", 1)
		case 5:
			h.Op("reset %d", s.now())
			s.v.Reset()
			s.settle("reset")
			info := s.v.Info()
			if info.Size != 0 || info.Buckets != 0 || info.Chunks != 0 || info.ChunkLen != 0 {
				h.Viol("accounting-nonzero-after-reset", "after reset: size=%d buckets=%d chunks=%d len=%d", info.Size, info.Buckets, info.Chunks, info.ChunkLen)
			}
			h.Stat("op.reset", 1)
		case 6:
			// limits around the current size so that the trim goroutine has something to decide
			size := s.v.Info().Size
			var m, so int
			switch r.Intn(5) {
			case 0:
				m, so = 0, 0
			case 1:
				m, so = size/2+1, 0
			case 2:
				m, so = size+size/4+1, size/2
			case 3:
				m, so = 2*size+1000, 0
			default:
				m, so = size+1, size
			}
			h.Op("limits %d %d %d", m, so, s.now())
			nb := s.v.Info().Buckets
			s.v.SetLimits(m, so, 0)
			s.settle("limits")
			if s.v.Info().Buckets < nb {
				h.Stat("limits.evicted", 1)
			}
			h.Stat("op.limits", 1)
		case 7:
			// let time pass: more than the stale-accept second, or more than invalidateLinger
			if r.Bool() {
				time.Sleep(2 * time.Second)
			} else {
				time.Sleep(16 * time.Second)
			}
			h.Stat("op.age", 1)
		}
	}
	// every load finishes eventually: then every request must return
	for _, id := range s.pendingCalls() {
		s.seq++
		time.Sleep(time.Millisecond)
		s.opFin(id, true)
	}
	for id := int64(1); id <= s.nextID; id++ {
		rq := s.reqs[id]
		if !rq.done {
			h.Viol("request-never-returns", "request %d did not return after every load finished", rq.id)
		}
	}
	s.seq++
	h.Op("shutdown %d", s.now())
	s.v.Shutdown()
	s.settle("shutdown")
	if info := s.v.Info(); info.Size != 0 {
		h.Viol("accounting-nonzero-after-shutdown", "after shutdown: size=%d", info.Size)
	}
	if sawInvDuringLoad {
		h.NonTrivial("invalidate-during-load")
	}
	if sawTrimDuringLoad {
		h.Stat("case.trim-during-load", 1)
	}
	if sawAwait {
		h.Stat("case.awaiter", 1)
	}
	_ = i
}

func scripted(h *verifx.H) {
	h.Cases(func(i int, r *verifx.Rng) {
		s := &script{h: h, r: r}
		synctest.Run(func() { s.runCase(i) })
	})
}

// ---------------------------------------------------------------------------------------------- free running

type fload struct {
	req       int64
	published atomic.Bool
	pubInvIdx atomic.Int64 // index of the first invalidation that began after this load was fully published
}

type finv struct {
	times   []int64
	step    int64
	doneSeq atomic.Int64 // 0 while running
}

type free struct {
	h       *verifx.H
	v       *api.VerifC23
	seq     atomic.Int64
	version atomic.Int64
	nextID  atomic.Int64
	mu      sync.Mutex
	loads   map[int64]*fload
	publ    map[int64]*fload // stub returned ok, publication not yet observed
	invMu   sync.Mutex
	invs    []*finv
	violMu  sync.Mutex
	viols   []string
	stats   map[string]int64
	seed    uint64
	failPct int
}

func (f *free) viol(sig, format string, a ...any) {
	f.violMu.Lock()
	if len(f.viols) < 20 {
		f.viols = append(f.viols, sig+"\x00"+fmt.Sprintf(format, a...))
	}
	f.violMu.Unlock()
}

func (f *free) stat(k string, n int64) {
	f.violMu.Lock()
	f.stats[k] += n
	f.violMu.Unlock()
}

func (f *free) stub(ctx context.Context, reqID, keyID, fromSec, toSec, stepSec int64, nslots int) ([][]api.VerifC23Row, error) {
	ctx, cancel := context.WithCancel(ctx)
	defer cancel()
	update, finish := api.VerifC23Inflight(ctx, cancel)
	defer finish()
	r := verifx.NewRng(f.seed ^ uint64(reqID)*0x9E3779B97F4A7C15)
	_, rowBytes := api.VerifC23SizeConsts()
	// a load of arbitrary duration, accounting the bytes it holds like loadPoints does
	for i, n := 0, r.Intn(4); i < n; i++ {
		update(int64(rowBytes * (nslots/(n) + 1)))
		if r.Bool() {
			time.Sleep(time.Duration(r.Intn(300)) * time.Microsecond)
		}
	}
	if ctx.Err() != nil {
		f.stat("load.cancelled", 1)
		return nil, ctx.Err()
	}
	if r.Intn(100) < f.failPct {
		f.stat("load.err", 1)
		return nil, errStub
	}
	ver := f.version.Load()
	rows := make([][]api.VerifC23Row, nslots)
	for i := range rows {
		rows[i] = stubRows(fromSec+int64(i)*stepSec, keyID, stepSec, ver, reqID)
	}
	ld := &fload{req: reqID}
	ld.pubInvIdx.Store(1 << 60)
	f.mu.Lock()
	f.loads[reqID] = ld
	f.publ[reqID] = ld
	f.mu.Unlock()
	f.stat("load.ok", 1)
	return rows, nil
}

func (f *free) invalidate(times []int64, step int64) {
	f.invMu.Lock()
	idx := int64(len(f.invs))
	ev := &finv{times: times, step: step}
	// which loads are completely finished (published) before this invalidation begins?
	f.mu.Lock()
	f.invs = append(f.invs, ev)
	for id, ld := range f.publ {
		if f.v.LoadChunksDone(id) {
			ld.pubInvIdx.Store(idx)
			ld.published.Store(true)
			delete(f.publ, id)
		}
	}
	f.mu.Unlock()
	// invalidations are issued by one goroutine at a time, as Handler.invalidateLoop does (concurrent
	// cache2.invalidate calls on one shard would share shard.invalidateIter)
	defer f.invMu.Unlock()
	f.version.Add(1)
	f.v.Invalidate(times, step)
	ev.doneSeq.Store(f.seq.Add(1))
}

func (f *free) check(id, key int64, play int, step, from, to int64, beginSeq int64, rows [][]api.VerifC23Row) {
	want := int((to - from) / step)
	if len(rows) != want {
		f.viol("wrong-slot-count", "request %d [%d,%d) step %d returned %d slots, want %d", id, from, to, step, len(rows), want)
		return
	}
	f.mu.Lock()
	invs := f.invs
	f.mu.Unlock()
	for i, rs := range rows {
		t := from + int64(i)*step
		if len(rs) == 0 {
			continue // the storage may hold no rows for this slot
		}
		if len(rs) != rowsOf(t, step, rs[0].Ver) {
			f.viol("misplaced-rows", "request %d key %d step %d slot %d (time %d): %d rows, storage produced %d at version %d", id, key, step, i, t, len(rs), rowsOf(t, step, rs[0].Ver), rs[0].Ver)
			continue
		}
		bad := false
		for j, r := range rs {
			if r.Time != t || r.Key != key || r.Step != step || r.Idx != int64(j) || r.Load != rs[0].Load || r.Ver != rs[0].Ver {
				f.viol("misplaced-rows", "request %d key %d step %d slot %d (time %d) holds row time=%d key=%d step=%d idx=%d load=%d", id, key, step, i, t, r.Time, r.Key, r.Step, r.Idx, r.Load)
				bad = true
				break
			}
		}
		if bad || play != 0 {
			continue
		}
		f.mu.Lock()
		ld := f.loads[rs[0].Load]
		f.mu.Unlock()
		if ld == nil {
			f.viol("rows-from-unfinished-load", "request %d slot %d holds rows of load %d which never returned", id, i, rs[0].Load)
			continue
		}
		for j := ld.pubInvIdx.Load(); j < int64(len(invs)); j++ {
			ev := invs[j]
			d := ev.doneSeq.Load()
			if ev.step != step || d == 0 || d >= beginSeq {
				continue
			}
			for _, it := range ev.times {
				if t <= it && it < t+step {
					f.viol("stale-after-invalidate", "request %d (began at %d) slot time %d step %d holds rows of load %d, completely finished before invalidation #%d of second %d began (completed at %d)",
						id, beginSeq, t, step, rs[0].Load, j, it, d)
				}
			}
		}
	}
}

func freeRunning(h *verifx.H) {
	h.Cases(func(ci int, r *verifx.Rng) {
		switch {
		case ci < 2:
			limitScenario(h, ci)
			return
		case ci == 2:
			walkScenario(h)
			return
		case ci == 3:
			exactLimitScenario(h)
			return
		}
		f := &free{h: h, loads: map[int64]*fload{}, publ: map[int64]*fload{}, stats: map[string]int64{}, seed: r.U64(), failPct: r.Pick(3, 3, 1) * 5}
		chunkSize := []int{0, 2, 3, 5}[r.Intn(4)]
		f.v = api.VerifC23New(chunkSize, f.stub)
		f.version.Store(1)
		workers := r.Range(8, 24)
		opsPer := r.Range(150, 400)
		nkeys := r.Range(1, 4)
		steps := []int64{1, 5, 15, 60, 300}
		withLimits := r.Chance(2, 3)
		h.Op("free workers=%d ops=%d keys=%d chunk=%d limits=%v fail=%d", workers, opsPer, nkeys, chunkSize, withLimits, f.failPct)
		now := time.Now().Unix()
		var wg sync.WaitGroup
		for w := 0; w < workers; w++ {
			wr := verifx.NewRng(r.U64())
			wg.Add(1)
			go func() {
				defer wg.Done()
				for o := 0; o < opsPer; o++ {
					step := steps[wr.Pick(6, 2, 2, 2, 1)]
					base := now - 86400
					if wr.Chance(1, 4) {
						base = now - 20*step
					}
					base = base / step * step
					switch k := wr.Pick(84, 10, 1, 5); k {
					case 0:
						from := base + int64(wr.Intn(40))*step
						to := from + int64(wr.Range(1, 30))*step
						key := int64(wr.Range(1, nkeys))
						play := []int{0, 0, 0, 1, 7}[wr.Intn(5)]
						id := f.nextID.Add(1)
						begin := f.seq.Add(1)
						rows, err := f.v.Get(context.Background(), id, fmt.Sprintf("u%d", wr.Intn(2)), fmt.Sprintf("k%d", key), key, play, step, from, to, wr.Chance(1, 20))
						if err == nil {
							f.check(id, key, play, step, from, to, begin, rows)
							f.stat("get.ok", 1)
						} else {
							f.stat("get.err", 1)
						}
						f.mu.Lock()
						_, loading := f.publ[id]
						f.mu.Unlock()
						if !loading {
							f.v.Forget(id)
						}
					case 1:
						n := wr.Range(1, 5)
						times := make([]int64, n)
						for j := range times {
							times[j] = base + int64(wr.Intn(int(60*step)))
						}
						sort.Slice(times, func(i, j int) bool { return times[i] < times[j] })
						f.invalidate(times, step)
						f.stat("invalidate", 1)
					case 2:
						if os.Getenv("C23_NORESET") == "" {
							f.v.Reset()
							f.stat("reset", 1)
						}
					case 3:
						if withLimits {
							size := f.v.Info().Size
							m := []int{0, size/2 + 1, size + 1, 2*size + 1000, 64}[wr.Intn(5)]
							age := []time.Duration{0, 0, time.Millisecond, 50 * time.Millisecond}[wr.Intn(4)]
							f.v.SetLimits(m, 0, age)
							f.stat("setLimits", 1)
						}
					}
				}
			}()
		}
		done := make(chan struct{})
		go func() { wg.Wait(); close(done) }()
		hang := false
		select {
		case <-done:
		case <-time.After(hangAfter): // expected: well under 5 s
			hang = true
		}
		if hang {
			if h.Arg != "" {
				buf := make([]byte, 16<<20)
				os.WriteFile(h.Arg, buf[:runtime.Stack(buf, true)], 0o644)
			}
			hi := f.v.Info()
			nb := 0
			for _, st := range steps {
				nb += len(f.v.Dump(st, false))
			}
			h.Note("hang state: size=%d buckets=%d(%d listed) chunks=%d max=%d soft=%d inflightBytes=%d inflightReqs=%d", hi.Size, hi.Buckets, nb, hi.Chunks, hi.MaxSize, hi.MaxSizeSoft, hi.InflightBytes, hi.InflightReqs)
			h.Obs("hang")
			h.Viol("request-never-returns", "free-running case: workers still blocked after 60 s (a case normally takes well under 2 s)")
			for _, v := range f.viols {
				p := strings.SplitN(v, "\x00", 2)
				h.Viol(p[0], "%s", p[1])
			}
			// the blocked goroutines (and a possibly spinning trim goroutine) are left behind: stop here
			h.Done()
			os.Exit(0)
		}
		// a Get returns as soon as its own load has answered; wait until the loadChunks goroutines have
		// published as well (condition polling, not a timing assumption)
		deadline := time.Now().Add(hangAfter)
		for {
			f.mu.Lock()
			for id := range f.publ {
				if f.v.LoadChunksDone(id) {
					delete(f.publ, id)
				}
			}
			left := len(f.publ)
			f.mu.Unlock()
			if left == 0 || time.Now().After(deadline) {
				break
			}
			time.Sleep(200 * time.Microsecond)
		}
		// cache emptied with nothing in flight: every water level is back to zero
		f.v.SetLimits(0, 0, 0)
		f.v.Reset()
		// the trim goroutine may be in the middle of an eviction (bucket unlinked, runtime info not yet updated): wait for
		// the accounting to settle (condition polling) before judging it
		info := f.v.Info()
		for dl := time.Now().Add(10 * time.Second); (info.Size != 0 || info.Buckets != 0 || info.Chunks != 0 || info.ChunkLen != 0) && time.Now().Before(dl); info = f.v.Info() {
			time.Sleep(200 * time.Microsecond)
		}
		if info.Size != 0 || info.Buckets != 0 || info.Chunks != 0 || info.ChunkLen != 0 {
			h.Viol("accounting-nonzero-after-reset", "free-running case after reset, nothing in flight: size=%d buckets=%d chunks=%d len=%d", info.Size, info.Buckets, info.Chunks, info.ChunkLen)
		}
		if info.InflightBytes != 0 || info.InflightReqs != 0 {
			h.Viol("inflight-nonzero-at-rest", "free-running case at rest: inflightBytes=%d inflightReqs=%d", info.InflightBytes, info.InflightReqs)
		}
		f.v.Shutdown()
		if info := f.v.Info(); info.Size != 0 {
			h.Viol("accounting-nonzero-after-shutdown", "after shutdown: size=%d", info.Size)
		}
		h.Obs("ok")
		for _, v := range f.viols {
			p := strings.SplitN(v, "\x00", 2)
			h.Viol(p[0], "%s", p[1])
		}
		for k, n := range f.stats {
			h.Stat("free."+k, n)
		}
		if f.stats["invalidate"] > 0 && f.stats["load.ok"] > 0 {
			h.NonTrivial("free-invalidate-during-load")
		}
	})
}


// ---------------------------------------------------------------------------------------------- limit scenarios
// A waiter parked at a memory limit must be released when the limits are switched off. The trim goroutine is held back
// (it blocks on the mutex of the only bucket) so that the order "waiter parked" -> "setLimits(unlimited)" -> "trimming
// goes on" is certain. kind 0: a request parked in tryNotExceedMemoryHardLimit; kind 1: a load parked in
// tryNotExceedMemorySoftLimitInflight.

func parkedIn(fn string) bool {
	buf := make([]byte, 8<<20)
	buf = buf[:runtime.Stack(buf, true)]
	for _, g := range strings.Split(string(buf), "\n\n") {
		if strings.Contains(g, fn) && strings.Contains(g[:strings.IndexByte(g+"\n", '\n')], "sync.Cond.Wait") {
			return true
		}
	}
	return false
}

func limitScenario(h *verifx.H, kind int) {
	h.Op("limits-scenario kind=%d", kind)
	stub := func(ctx context.Context, reqID, keyID, fromSec, toSec, stepSec int64, nslots int) ([][]api.VerifC23Row, error) {
		ctx, cancel := context.WithCancel(ctx)
		defer cancel()
		_, finish := api.VerifC23Inflight(ctx, cancel) // registers and calls updateInflightApprox(id, 0), as loadPoints does
		defer finish()
		rows := make([][]api.VerifC23Row, nslots)
		for i := range rows {
			rows[i] = stubRows(fromSec+int64(i)*stepSec, keyID, stepSec, 1, reqID)
		}
		return rows, nil
	}
	v := api.VerifC23New(0, stub)
	base := ((time.Now().Unix() - 3600) / 60) * 60
	waitFor := func(what string, cond func() bool) bool {
		deadline := time.Now().Add(hangAfter)
		for !cond() {
			if time.Now().After(deadline) {
				h.Obs("stuck waiting for: %s", what)
				return false
			}
			time.Sleep(200 * time.Microsecond)
		}
		return true
	}
	if _, err := v.Get(context.Background(), 1, "u", "k1", 1, 0, 1, base, base+60, false); err != nil {
		h.Obs("fill failed: %v", err)
		return
	}
	if !waitFor("cache filled", func() bool { return v.Info().Size > 0 }) {
		return
	}
	release := v.HoldBucket(1, "k1")
	size := v.Info().Size
	fn := "tryNotExceedMemoryHardLimit("
	if kind == 0 {
		v.SetLimits(64, 0, 0) // far below the cache size: the next request parks on the hard limit
	} else {
		v.SetLimits(size+1, 0, 0) // soft limit (80 %) below, hard limit above the cache size: the next load parks on the soft limit
		fn = "tryNotExceedMemorySoftLimitInflight("
	}
	done := make(chan error, 1)
	go func() {
		_, err := v.Get(context.Background(), 2, "u", "k2", 2, 0, 1, base, base+60, false)
		done <- err
	}()
	parked := waitFor("waiter parked in "+fn, func() bool { return parkedIn(fn) })
	v.SetLimits(0, 0, 0) // no memory limit any more: nothing left to wait for
	release()             // trimming goes on
	if parked {
		select {
		case err := <-done:
			h.Obs("ok err=%v", err != nil)
		case <-time.After(hangAfter):
			h.Obs("hang")
			h.Viol("request-never-returns", "limits scenario %d: a waiter parked in %s is still waiting %v after setLimits(unlimited)", kind, fn, hangAfter)
			h.Done()
			os.Exit(0)
		}
	}
	v.Shutdown()
	h.NonTrivial("limits-switched-off-while-parked")
}

// ---------------------------------------------------------------------------------------------- walk / exact-limit scenarios
// walkScenario: an invalidation walk over the buckets of a shard is stalled on the first bucket while the bucket its
// iterator points at is evicted; every bucket that is still cached must have been invalidated when the walk ends.
func walkScenario(h *verifx.H) {
	h.Op("walk-scenario invalidate-vs-evict")
	var version atomic.Int64
	version.Store(1)
	stub := func(ctx context.Context, reqID, keyID, fromSec, toSec, stepSec int64, nslots int) ([][]api.VerifC23Row, error) {
		ver := version.Load()
		rows := make([][]api.VerifC23Row, nslots)
		for i := range rows {
			rows[i] = stubRows(fromSec+int64(i)*stepSec, keyID, stepSec, ver, reqID)
		}
		return rows, nil
	}
	v := api.VerifC23New(0, stub)
	defer v.Shutdown()
	base := ((time.Now().Unix() - 86400) / 60) * 60
	waitFor := func(what string, cond func() bool) bool {
		deadline := time.Now().Add(hangAfter)
		for !cond() {
			if time.Now().After(deadline) {
				h.Obs("stuck waiting for: %s", what)
				return false
			}
			time.Sleep(200 * time.Microsecond)
		}
		return true
	}
	id := int64(0)
	get := func(key int64) [][]api.VerifC23Row {
		id++
		rows, err := v.Get(context.Background(), id, "u", fmt.Sprintf("k%d", key), key, 0, 1, base, base+60, false)
		if err != nil {
			h.Obs("get failed: %v", err)
		}
		return rows
	}
	for k := int64(1); k <= 3; k++ {
		get(k)
	}
	if !waitFor("three chunks cached", func() bool {
		n := 0
		for _, b := range v.Dump(1, false) {
			for _, c := range b.Chunks {
				if c.HasData && c.Loading == 0 {
					n++
				}
			}
		}
		return n == 3
	}) {
		return
	}
	firstLoads := id // loads 1..3 finished before the invalidation
	version.Add(1)
	release := v.HoldBucket(1, "k1")
	invDone := make(chan struct{})
	sec := base + 7
	for rowsOf(sec, 1, 1) == 0 { // a second whose slot had rows at the first load
		sec++
	}
	go func() { v.Invalidate([]int64{sec}, 1); close(invDone) }()
	stalled := waitFor("invalidate walk stalled on k1 with its iterator on k2", func() bool { return v.InvalidateIterKey(1) == "k2" })
	v.RemoveBucket(1, "k2") // what the trim goroutine does under memory pressure
	release()
	select {
	case <-invDone:
	case <-time.After(hangAfter):
		h.Obs("hang")
		h.Viol("request-never-returns", "walk scenario: invalidate did not return")
		return
	}
	if !stalled {
		return
	}
	// requests that begin after the invalidation completed must not see rows of the loads that finished before it
	for k := int64(1); k <= 3; k++ {
		rows := get(k)
		i := int(sec - base)
		if i < len(rows) {
			for _, r := range rows[i] {
				if r.Load <= firstLoads {
					h.Viol("stale-after-invalidate", "walk scenario: key %d slot time %d holds rows of load %d (version %d), finished before the invalidation of that second which completed before the request began; the bucket was behind an evicted bucket in the shard's list",
						k, sec, r.Load, r.Ver)
					break
				}
			}
		}
	}
	h.Obs("ok")
	h.NonTrivial("invalidate-walk-vs-evict")
}

// exactLimitScenario: a load following the inflight protocol is parked at the soft limit; the trim goroutine (held back
// until then) evicts exactly down to the soft limit and goes to sleep: the load must go on.
func exactLimitScenario(h *verifx.H) {
	h.Op("exact-soft-limit-scenario")
	stub := func(ctx context.Context, reqID, keyID, fromSec, toSec, stepSec int64, nslots int) ([][]api.VerifC23Row, error) {
		ctx, cancel := context.WithCancel(ctx)
		defer cancel()
		_, finish := api.VerifC23Inflight(ctx, cancel) // NewInflightReq + updateInflightApprox(id, 0), as loadPoints does
		defer finish()
		rows := make([][]api.VerifC23Row, nslots)
		for i := range rows {
			rows[i] = stubRows(fromSec+int64(i)*stepSec, keyID, stepSec, 1, reqID)
		}
		return rows, nil
	}
	v := api.VerifC23New(0, stub)
	base := ((time.Now().Unix() - 86400) / 60) * 60
	waitFor := func(what string, cond func() bool) bool {
		deadline := time.Now().Add(hangAfter)
		for !cond() {
			if time.Now().After(deadline) {
				h.Obs("stuck waiting for: %s", what)
				return false
			}
			time.Sleep(200 * time.Microsecond)
		}
		return true
	}
	sizeOf := func(key string) int {
		n := 0
		for _, b := range v.Dump(1, false) {
			if b.Key == key {
				for _, c := range b.Chunks {
					n += c.Size
				}
			}
		}
		return n
	}
	for k := int64(1); k <= 2; k++ {
		if _, err := v.Get(context.Background(), k, "u", fmt.Sprintf("k%d", k), k, 0, 1, base, base+60*k, false); err != nil {
			h.Obs("fill failed: %v", err)
			return
		}
		key := fmt.Sprintf("k%d", k)
		if !waitFor("bucket cached", func() bool { return sizeOf(key) > 0 && v.Info().Size == sizeOf("k1")+sizeOf("k2") }) {
			return
		}
	}
	total, rest := v.Info().Size, sizeOf("k2")
	release := v.HoldBucket(1, "k1")
	v.SetLimits(4*total, rest, 0) // evicting the least recently used bucket (k1) lands exactly on the soft limit
	done := make(chan error, 1)
	go func() {
		_, err := v.Get(context.Background(), 3, "u", "k3", 3, 0, 1, base, base+60, false)
		done <- err
	}()
	parked := waitFor("load parked at the soft limit", func() bool { return parkedIn("tryNotExceedMemorySoftLimitInflight(") })
	release() // the trim goroutine goes on: evicts k1, size == soft limit, sleeps
	if parked {
		select {
		case err := <-done:
			h.Obs("ok err=%v", err != nil)
		case <-time.After(hangAfter):
			info := v.Info()
			h.Obs("hang")
			h.Viol("request-never-returns", "exact soft limit scenario: a load parked in tryNotExceedMemorySoftLimitInflight is still waiting %v after trimming brought the size to %d with soft limit %d", hangAfter, info.Size, info.MaxSizeSoft)
			h.Done()
			os.Exit(0)
		}
	}
	v.Shutdown()
	h.NonTrivial("trim-lands-on-soft-limit")
}

// ---------------------------------------------------------------------------------------------- probes
// mode "probe": two fixed experiments on the real code, reported as observations only (no oracle):
// case 0: which string-top filters share a cache key (getOrBuildCacheKey);
// case 1: a failed reload of a chunk that was loaded before its interval was over.
func probe(h *verifx.H) {
	h.Cases(func(i int, r *verifx.Rng) {
		switch i {
		case 0:
			sets := [][]string{{"a", "b"}, {"c", "b"}, {"b"}, {"a\",\"b"}}
			for _, v := range sets {
				h.Obs("key %q -> %s", v, api.VerifC23CacheKey(v))
			}
			h.Obs("same-key {a,b}/{c,b}: %v", api.VerifC23CacheKey(sets[0]) == api.VerifC23CacheKey(sets[1]))
			h.Obs("same-key {a,b}/{a\",\"b}: %v", api.VerifC23CacheKey(sets[0]) == api.VerifC23CacheKey(sets[3]))
		case 1:
			s := &script{h: h, r: r}
			synctest.Run(func() {
				s.step = 1
				s.calls = map[int64]*call{}
				s.results = make(chan result, 64)
				s.reqs = map[int64]*request{}
				s.finSeq = map[int64]int{}
				s.seq, s.version, s.nextID, s.nkeys = 0, 1, 0, 1
				s.v = api.VerifC23New(2, s.stub)
				sh := s.v.Shard(s.step)
				s.k, s.dur = sh.ChunkSize, int64(sh.ChunkDuration/time.Second)
				col, row := api.VerifC23SizeConsts()
				s.t0 = time.Now().Unix()
				h.Op("cfg %d %d %d %d %d", s.step, s.k, int64(sh.ChunkDuration), col, row)
				time.Sleep(time.Millisecond)
				s.seq++
				s.opReq(1, 0, false, s.t0, s.t0+2) // the chunk [t0, t0+2) is not over yet: loadStartedAt < end
				s.seq++
				s.opFin(1, true)
				time.Sleep(20 * time.Second) // well past end + invalidateLinger
				s.version++                   // the storage now holds the complete interval
				s.seq++
				s.opReq(1, 0, false, s.t0, s.t0+2) // must reload: the cached data was loaded before the interval was over
				s.seq++
				s.opFin(2, false) // the reload fails
				time.Sleep(time.Millisecond)
				s.seq++
				s.opReq(1, 0, false, s.t0, s.t0+2) // what now?
				for _, id := range s.pendingCalls() {
					s.seq++
					s.opFin(id, true)
				}
				s.seq++
				h.Op("shutdown %d", s.now())
				s.v.Shutdown()
				s.settle("shutdown")
			})
		}
	})
}

func main() {
	statshouse.Configure(func(string, ...interface{}) {}, "", "") // the cache reports its own metrics; discard them
	h := verifx.New()
	switch h.Mode {
	case "", "script":
		scripted(h)
	case "free":
		freeRunning(h)
	case "probe":
		probe(h)
	default:
		fmt.Println("unknown mode", h.Mode)
	}
	h.Done()
}
