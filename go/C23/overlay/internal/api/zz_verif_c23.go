//go:build verif

package api

// Thin accessors for the C23 harness (cmd/verif-c23). They build the real cache2 the way
// TestCache2AddRemoveChunks / TestCache2Parallel do, call its real methods and read its fields under the
// locks the code itself uses. No cache logic lives here.

import (
	"context"
	"sync"
	"time"

	"github.com/VKCOM/statshouse/internal/data_model"
	"github.com/VKCOM/statshouse/internal/format"
)

// VerifC23Row is the part of a tsSelectRow the storage stub fills: (slot time, cache key id, step,
// storage version, load id, row index within the slot).
type VerifC23Row struct {
	Time, Key, Step, Ver, Load, Idx int64
}

// VerifC23LoadFunc is the storage stub: asked for [fromSec,toSec) at stepSec on behalf of request reqID
// (cache key keyID) it returns the rows of every slot, or an error.
type VerifC23LoadFunc func(ctx context.Context, reqID, keyID int64, fromSec, toSec, stepSec int64, nslots int) ([][]VerifC23Row, error)

type VerifC23 struct {
	c  *cache2
	h  *Handler
	mu sync.Mutex
	id map[*requestHandler]int64
	hs map[int64]*requestHandler
}

func VerifC23New(chunkSize int, load VerifC23LoadFunc) *VerifC23 {
	v := &VerifC23{id: map[*requestHandler]int64{}, hs: map[int64]*requestHandler{}}
	v.h = &Handler{HandlerOptions: HandlerOptions{location: time.UTC}}
	v.c = newCache2(v.h, chunkSize, func(ctx context.Context, h *requestHandler, q *queryBuilder, lod data_model.LOD, ret [][]tsSelectRow, retStartIx int) (int, error) {
		v.mu.Lock()
		reqID := v.id[h]
		v.mu.Unlock()
		rows, err := load(ctx, reqID, int64(q.numResults), lod.FromSec, lod.ToSec, lod.StepSec, len(ret))
		if err != nil {
			return 0, err
		}
		n := 0
		for i := range rows {
			if len(rows[i]) == 0 {
				continue
			}
			s := make([]tsSelectRow, len(rows[i]))
			for j, r := range rows[i] {
				s[j].time = r.Time
				s[j].tag[0], s[j].tag[1], s[j].tag[2], s[j].tag[3], s[j].tag[4] = r.Key, r.Step, r.Ver, r.Load, r.Idx
			}
			ret[retStartIx+i] = s
			n += len(s)
		}
		return n, nil
	})
	return v
}

// Get calls the real cache2.Get. keyID is carried in an otherwise unused queryBuilder field so that the
// stub knows which key it is loading for; the cache key itself is the explicit string `key`.
func (v *VerifC23) Get(ctx context.Context, reqID int64, user, key string, keyID int64, play int, stepSec, fromSec, toSec int64, force bool) ([][]VerifC23Row, error) {
	h := &requestHandler{Handler: v.h, accessInfo: accessInfo{user: user}}
	h.endpointStat.timings.Timings = map[string][]time.Duration{}
	q := &queryBuilder{cacheKey: key, play: play, numResults: int(keyID)}
	v.mu.Lock()
	v.id[h] = reqID
	v.hs[reqID] = h
	v.mu.Unlock()
	lod := data_model.LOD{Version: Version6, StepSec: stepSec, FromSec: fromSec, ToSec: toSec, Location: time.UTC}
	res, err := v.c.Get(ctx, h, q, lod, force)
	if err != nil {
		return nil, err
	}
	out := make([][]VerifC23Row, len(res))
	for i := range res {
		for _, r := range res[i] {
			out[i] = append(out[i], VerifC23Row{Time: r.time, Key: r.tag[0], Step: r.tag[1], Ver: r.tag[2], Load: r.tag[3], Idx: r.tag[4]})
		}
	}
	return out, nil
}

// LoadChunksDone reports whether the loadChunks goroutine of request reqID has run to its end (it reports the
// "cache-load-chunks" timing to the request's own ServerTimingHeader as its last deferred action).
func (v *VerifC23) LoadChunksDone(reqID int64) bool {
	v.mu.Lock()
	h := v.hs[reqID]
	v.mu.Unlock()
	if h == nil {
		return false
	}
	t := &h.endpointStat.timings
	t.mutex.Lock()
	defer t.mutex.Unlock()
	return len(t.Timings["cache-load-chunks"]) > 0
}

// Forget drops the bookkeeping of a request that has returned and whose load (if any) is done.
func (v *VerifC23) Forget(reqID int64) {
	v.mu.Lock()
	if h := v.hs[reqID]; h != nil {
		delete(v.id, h)
		delete(v.hs, reqID)
	}
	v.mu.Unlock()
}

func (v *VerifC23) Invalidate(times []int64, stepSec int64) { v.c.invalidate(times, stepSec) }
func (v *VerifC23) Reset()                                   { v.c.reset() }
func (v *VerifC23) SetLimits(maxSize, maxSizeSoft int, maxAge time.Duration) {
	v.c.setLimits(cache2Limits{maxAge: maxAge, maxSize: maxSize, maxSizeSoft: maxSizeSoft})
}
func (v *VerifC23) Shutdown() { v.c.shutdown().Wait() }

type VerifC23Info struct {
	Size, Buckets, Chunks, ChunkLen int
	MaxSize, MaxSizeSoft            int
	InflightBytes                   int64
	InflightReqs                    int
	WaitN                           int64
}

func (v *VerifC23) Info() VerifC23Info {
	c := v.c
	c.mu.Lock()
	defer c.mu.Unlock()
	i := c.info
	return VerifC23Info{
		Size: i.size(), Buckets: i.bucketCountS[0] + i.bucketCountS[1], Chunks: i.chunkCountS[0] + i.chunkCountS[1],
		ChunkLen: i.chunkSizeS[0] + i.chunkSizeS[1], MaxSize: c.limits.maxSize, MaxSizeSoft: c.limits.maxSizeSoft,
		InflightBytes: c.inflightBytes, InflightReqs: len(c.inflightReqM), WaitN: c.waitN.Load(),
	}
}

type VerifC23Chunk struct {
	Start, End                                int64
	HasData                                   bool
	Loading, Awaiters, Size                   int
	InvalidatedAt, LoadStartedAt, LastAccess int64
	Rows                                      [][]VerifC23Row
}

type VerifC23Bucket struct {
	Key        string
	Play       time.Duration
	LastAccess int64
	Chunks     []VerifC23Chunk
}

type VerifC23Shard struct {
	StepSec       int64
	ChunkSize     int
	ChunkDuration time.Duration
}

func (v *VerifC23) Shard(stepSec int64) VerifC23Shard {
	s := v.c.shards[time.Duration(stepSec)*time.Second]
	return VerifC23Shard{StepSec: stepSec, ChunkSize: s.chunkSize, ChunkDuration: s.chunkDuration}
}

// Dump reads the shard's buckets in list order (shard → bucket → chunk lock order, as the code does).
func (v *VerifC23) Dump(stepSec int64, withRows bool) []VerifC23Bucket {
	shard := v.c.shards[time.Duration(stepSec)*time.Second]
	shard.mu.Lock()
	defer shard.mu.Unlock()
	var res []VerifC23Bucket
	for b := shard.bucketL.next(shard.bucketL.head); b != nil; b = shard.bucketL.next(b) {
		b.mu.Lock()
		d := VerifC23Bucket{Key: b.key, Play: b.playInterval, LastAccess: b.lastAccessTime}
		for _, ch := range b.chunks {
			ch.mu.Lock()
			cd := VerifC23Chunk{Start: ch.start, End: ch.end, HasData: ch.data != nil, Loading: ch.loading, Awaiters: len(ch.awaiters),
				Size: ch.size, InvalidatedAt: ch.invalidatedAt, LoadStartedAt: ch.loadStartedAt, LastAccess: ch.lastAccessTime}
			if withRows {
				for i := range ch.data {
					var rs []VerifC23Row
					for _, r := range ch.data[i] {
						rs = append(rs, VerifC23Row{Time: r.time, Key: r.tag[0], Step: r.tag[1], Ver: r.tag[2], Load: r.tag[3], Idx: r.tag[4]})
					}
					cd.Rows = append(cd.Rows, rs)
				}
			}
			ch.mu.Unlock()
			d.Chunks = append(d.Chunks, cd)
		}
		b.mu.Unlock()
		res = append(res, d)
	}
	return res
}

func (v *VerifC23) bucket(stepSec int64, key string) (*cache2Shard, *cache2Bucket) {
	shard := v.c.shards[time.Duration(stepSec)*time.Second]
	shard.mu.Lock()
	defer shard.mu.Unlock()
	return shard, shard.bucketM[key]
}

// TrimChunks is the per-bucket body of trimAged: removeChunksNotUsedAfter(t) + runtime info update.
func (v *VerifC23) TrimChunks(stepSec int64, key string, t int64) bool {
	shard, b := v.bucket(stepSec, key)
	if b == nil {
		return false
	}
	info := &cache2UpdateInfo{minChunkAccessTime: time.Now().UnixNano()}
	fau := b.fau
	b.removeChunksNotUsedAfter(t, info)
	v.c.updateRuntimeInfo(shard.stepS, fau, info)
	return true
}

// RemoveBucket is what trimAged / reduceMemoryUsage do with a victim: shard.removeBucket + runtime info update.
func (v *VerifC23) RemoveBucket(stepSec int64, key string) bool {
	shard, b := v.bucket(stepSec, key)
	if b == nil {
		return false
	}
	info := &cache2UpdateInfo{}
	fau := b.fau
	shard.removeBucket(b, info)
	v.c.updateRuntimeInfo(shard.stepS, fau, info)
	return true
}

// SizeConsts returns sizeofCache2DataCol and sizeofCache2Row of a row as the stub produces it.
func VerifC23SizeConsts() (col, row int) {
	r := tsSelectRow{}
	return sizeofCache2DataCol, sizeofCache2Row(&r)
}

// Inflight mimics what loadPoints does around a SELECT (handler.go): register, account bytes, finish.
func VerifC23Inflight(ctx context.Context, cancel context.CancelFunc) (update func(delta int64), finish func()) {
	cc := cache2FromInflightCtx(ctx)
	if cc == nil {
		return func(int64) {}, func() {}
	}
	id := cc.NewInflightReq(cancel)
	cc.updateInflightApprox(id, 0)
	return func(d int64) { cc.updateInflightApprox(id, d) }, func() { cc.afterInflightLoadFinished(id) }
}

const VerifC23InvalidateLinger = invalidateLinger

// HoldBucket locks the mutex of bucket `key` (the trim goroutine blocks on it as soon as it looks at the bucket) and
// returns the function that unlocks it. Used to order "a waiter is parked" before "trimming released memory".
func (v *VerifC23) HoldBucket(stepSec int64, key string) (release func()) {
	_, b := v.bucket(stepSec, key)
	if b == nil {
		return func() {}
	}
	b.mu.Lock()
	return b.mu.Unlock
}

// InvalidateIterKey returns the key of the bucket shard.invalidateIter points at ("" = nil), read under shard.mu.
func (v *VerifC23) InvalidateIterKey(stepSec int64) string {
	shard := v.c.shards[time.Duration(stepSec)*time.Second]
	shard.mu.Lock()
	defer shard.mu.Unlock()
	if shard.invalidateIter == nil {
		return ""
	}
	return shard.invalidateIter.key
}

// VerifC23CacheKey returns the real cache key of a query whose only filter is "string top in `stop`".
func VerifC23CacheKey(stop []string) string {
	q := &queryBuilder{}
	for _, v := range stop {
		f := &q.filterIn.Tags[format.StringTopTagIndexV3]
		f.Values = append(f.Values, data_model.NewTagValueS(v))
	}
	return q.getOrBuildCacheKey()
}

