//go:build verif

package data_model

// constants of the chunked file format as the compiler sees them (used to regenerate lean/SH/Gen/C20.lean)
const VerifC20ChunkHeaderSize = chunkHeaderSize
const VerifC20ChunkHashSize = chunkHashSize
