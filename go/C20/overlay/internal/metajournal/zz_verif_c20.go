//go:build verif

package metajournal

// Thin accessors for the C20 harness (cmd/verif-c20). No logic of the code under test is copied here:
// every function either calls the real unexported function or copies state out under the object's own lock.

import (
	"encoding/hex"
	"sort"

	"github.com/VKCOM/statshouse/internal/data_model/gen2/tlmetadata"
	"github.com/VKCOM/statshouse/internal/format"
)

// VerifC20Diff is getJournalDiffLocked3Limits under the journal's read lock (what HandleGetMetrics3 does).
func VerifC20Diff(ms *JournalFast, from int64, maxItems int, maxBytes int) tlmetadata.GetJournalResponsenew {
	ms.mu.RLock()
	defer ms.mu.RUnlock()
	var ret tlmetadata.GetJournalResponsenew
	ms.getJournalDiffLocked3Limits(from, &ret, maxItems, maxBytes)
	return ret
}

// VerifC20ApplyUpdate is the body of updateJournalIsFinished after the loader returned (src, lastKnownVersion).
func VerifC20ApplyUpdate(ms *JournalFast, src []tlmetadata.Event, lastKnownVersion int64) {
	ms.applyUpdate(src, lastKnownVersion, nil)
}

type VerifC20JournalState struct {
	CurrentVersion   int64
	LoaderVersion    int64
	LastKnownVersion int64
	LastSavedVersion int64
	HashStr          string
	Compact          bool
	Events           []tlmetadata.Event // ascending journal order (ms.order)
	Hashes           []string           // stored per-entry hash, same order
	MapLen           int                // len(ms.journal)
}

func VerifC20Journal(ms *JournalFast) VerifC20JournalState {
	ms.mu.RLock()
	defer ms.mu.RUnlock()
	st := VerifC20JournalState{CurrentVersion: ms.currentVersion, LoaderVersion: ms.loaderVersion,
		LastKnownVersion: ms.lastKnownVersion, LastSavedVersion: ms.lastSavedVersion, HashStr: ms.stateHashStr,
		Compact: ms.compact, MapLen: len(ms.journal)}
	ms.order.Ascend(func(o journalOrder) bool {
		e := ms.journal[o.key]
		st.Events = append(st.Events, e.Event)
		hb := e.hash.Bytes()
		st.Hashes = append(st.Hashes, hex.EncodeToString(hb[:]))
		return true
	})
	return st
}

// VerifC20Hash is hashWithoutVersionJournalEvent rendered like stateHashStr.
func VerifC20Hash(e tlmetadata.Event) string {
	_, h := hashWithoutVersionJournalEvent(nil, e)
	hb := h.Bytes()
	return hex.EncodeToString(hb[:])
}

// VerifC20Compact is compactJournalEvent on a copy.
func VerifC20Compact(e tlmetadata.Event) (tlmetadata.Event, bool, error) {
	keep, err := compactJournalEvent(&e)
	return e, keep, err
}

func VerifC20EqualWithoutVersion(a, b tlmetadata.Event) bool {
	return equalWithoutVersionJournalEvent(a, b)
}

type VerifC20Storage struct {
	MetricsByID   []*format.MetricMetaValue // sorted by id
	MetricNames   []string                  // sorted keys of metricsByName
	MetricsByName []*format.MetricMetaValue // values in the order of MetricNames
	GroupsByID    []*format.MetricsGroup
	GroupNames    []string
	GroupsByName  []*format.MetricsGroup
	GroupsOrdered []*format.MetricsGroup // as stored
	NsByID        []*format.NamespaceMeta
	NsNames       []string
	NsByName      []*format.NamespaceMeta
}

// VerifC20StorageDump copies the index maps out under the storage's read lock, sorted by key.
func VerifC20StorageDump(ms *MetricsStorage) VerifC20Storage {
	ms.mu.RLock()
	defer ms.mu.RUnlock()
	var st VerifC20Storage
	for _, m := range ms.metricsByID {
		st.MetricsByID = append(st.MetricsByID, m)
	}
	sort.Slice(st.MetricsByID, func(i, j int) bool { return st.MetricsByID[i].MetricID < st.MetricsByID[j].MetricID })
	for n := range ms.metricsByName {
		st.MetricNames = append(st.MetricNames, n)
	}
	sort.Strings(st.MetricNames)
	for _, n := range st.MetricNames {
		st.MetricsByName = append(st.MetricsByName, ms.metricsByName[n])
	}
	for _, g := range ms.groupsByID {
		st.GroupsByID = append(st.GroupsByID, g)
	}
	sort.Slice(st.GroupsByID, func(i, j int) bool { return st.GroupsByID[i].ID < st.GroupsByID[j].ID })
	for n := range ms.groupsByName {
		st.GroupNames = append(st.GroupNames, n)
	}
	sort.Strings(st.GroupNames)
	for _, n := range st.GroupNames {
		st.GroupsByName = append(st.GroupsByName, ms.groupsByName[n])
	}
	st.GroupsOrdered = append(st.GroupsOrdered, ms.groupsOrdered...)
	for _, g := range ms.namespaceByID {
		st.NsByID = append(st.NsByID, g)
	}
	sort.Slice(st.NsByID, func(i, j int) bool { return st.NsByID[i].ID < st.NsByID[j].ID })
	for n := range ms.namespaceByName {
		st.NsNames = append(st.NsNames, n)
	}
	sort.Strings(st.NsNames)
	for _, n := range st.NsNames {
		st.NsByName = append(st.NsByName, ms.namespaceByName[n])
	}
	return st
}
