//go:build verif

// verif-c20: correspondence + direct oracle for the metadata journal chain (property C20).
//
// One case = one source journal (replica 0, the "metadata engine" role: a real non-compact JournalFast fed one event
// at a time through applyUpdate) and 3..5 downstream replicas (real JournalFast + real MetricsStorage each), some
// compact (aggregator role), some not (agent role), arranged in a tree. Every op is one call into the real code:
//
//	src      one new source event (create / edit / rename / reuse of a freed name / enable-disable / malformed)
//	deliver  getJournalDiffLocked3Limits(upstream, replica.loaderVersion, items, bytes) -> TL round trip (what the RPC
//	         does) -> optional cut (partial delivery) -> replica.applyUpdate
//	save     JournalFast.Save() into the replica's in-memory file
//	restart  truncate the file, LoadJournalFastSlice into a fresh JournalFast + fresh MetricsStorage
//
// After every op the full state of the touched replica is printed (journal order, versions, hash, all index maps)
// and the direct oracle is evaluated on the real objects.
package main

import (
	"encoding/binary"
	"encoding/json"
	"fmt"
	"io"
	"log"
	"math/big"
	"sort"
	"strings"

	"github.com/VKCOM/statshouse/internal/data_model"
	"github.com/VKCOM/statshouse/internal/data_model/gen2/tlmetadata"
	"github.com/VKCOM/statshouse/internal/format"
	"github.com/VKCOM/statshouse/internal/metajournal"
	"github.com/VKCOM/statshouse/internal/verifx"
)

const inf = 1 << 30

type key struct {
	typ int32
	id  int64
}

type content struct {
	k    int
	ev   tlmetadata.Event // Version == 0
	t    int              // content after diff + TL transport
	c    int              // content after compactJournalEvent, -1 = discard
	ok   bool
	dis  bool
	name string
}

type nameAt struct {
	ver  int64
	name string
}

type entity struct {
	key    key
	name   string
	k      int
	ver    int64
	dis    bool
	ok     bool
	hist   []nameAt // every (version, name) of this entity at the source
	data   int      // data variant counter
	drafts int      // metrics: number of tags_draft entries (0, or 2..8)
	ns     int      // 0 = not chosen yet, 1 = namespace field unset, 2.. = namespace id + 2
	past   [][2]int // earlier (data, drafts) states, for reverting edits
	mark   int      // metrics: which description mark the entity's descriptions carry (0 = none)
	conts  []int    // content number of every source version of this entity
}

type replica struct {
	j       *metajournal.JournalFast
	st      *metajournal.MetricsStorage
	file    []byte
	compact bool
	up      int
	dead    bool // a panic happened inside the real code: the object is not used any more
}

type world struct {
	h        *verifx.H
	r        *verifx.Rng
	reps     []*replica
	intern   map[tlmetadata.Event]int
	contents []*content
	ents     map[key]*entity
	keys     []key // creation order
	ver      int64
	big      bool
	freed    map[int32][]string // names that were held and released, per event type
	tags     map[string]bool

	dropByKey    map[key]bool
	pendingPanic string
	pendingViol  [][2]string // oracle lines found while interning (printed by announce, inside the case)
	cfPending    []int       // contents announced, compact form still to be compared
}

func (w *world) nt(tag string) {
	if !w.tags[tag] {
		w.tags[tag] = true
		w.h.NonTrivial(tag)
	}
}

// ---------------------------------------------------------------- contents (events without version)

func parseInfo(e tlmetadata.Event) (ok bool, dis bool) {
	switch e.EventType {
	case format.MetricEvent:
		_, err := metajournal.MetricMetaFromEvent(e)
		return err == nil, false
	case format.MetricsGroupEvent:
		g, err := metajournal.GroupMetaFromEvent(e)
		if err != nil {
			return false, false
		}
		return true, g.Disable
	case format.NamespaceEvent:
		_, err := metajournal.NamespaceMetaFromEvent(e)
		return err == nil, false
	}
	return true, false
}

// transport is what the real chain does to an event between two journals: the diff function of a real JournalFast
// followed by TL serialisation (the RPC). It is observed, not re-implemented.
var transportJ *metajournal.JournalFast
var transportV int64

func transport(e tlmetadata.Event) tlmetadata.Event {
	if transportJ == nil || transportV > 5000 {
		transportJ = metajournal.MakeJournalFast(data_model.NewChunkedStorageNop(), 0, false, nil)
		transportV = 0
	}
	transportV++
	e.Version = transportV
	j := transportJ
	metajournal.VerifC20ApplyUpdate(j, []tlmetadata.Event{e}, transportV)
	resp := metajournal.VerifC20Diff(j, transportV-1, inf, inf)
	if len(resp.Events) != 1 {
		panic("transport: diff of a one-event journal is not one event")
	}
	out := tlRoundTrip(resp.Events[0])
	out.Version = 0
	return out
}

func tlRoundTrip(e tlmetadata.Event) tlmetadata.Event {
	b := e.WriteTL1Boxed(nil)
	var e2 tlmetadata.Event
	rest, err := e2.ReadTL1Boxed(b)
	if err != nil || len(rest) != 0 {
		panic(fmt.Sprintf("TL round trip failed: %v", err))
	}
	return e2
}

func (w *world) internEvent(e tlmetadata.Event) int {
	e.Version = 0
	if k, ok := w.intern[e]; ok {
		return k
	}
	k := len(w.contents)
	c := &content{k: k, ev: e, t: -2, c: -2, name: e.Name}
	c.ok, c.dis = parseInfo(e)
	w.intern[e] = k
	w.contents = append(w.contents, c)
	// closure under transport and compaction (both observed on the real code)
	te := transport(e)
	c.t = w.internEvent(te)
	ce, keep, _ := metajournal.VerifC20Compact(e)
	// The model (and `synced_same_hash` / `replicas_same_hash`) treats transport and compaction as FUNCTIONS of the event.
	// Checked on the real code: repeated calls give identical events (Go map order must not leak into the result).
	for i := 0; i < 6; i++ {
		ce2, keep2, _ := metajournal.VerifC20Compact(e)
		if keep2 != keep || ce2 != ce {
			w.pendingViol = append(w.pendingViol, [2]string{"compaction-not-deterministic", fmt.Sprintf("compactJournalEvent gave two different results for the same event type=%d id=%d %q: Data %q vs %q", e.EventType, e.Id, e.Name, clip(ce.Data), clip(ce2.Data))})
			break
		}
		if te2 := transport(e); te2 != te {
			w.pendingViol = append(w.pendingViol, [2]string{"transport-not-deterministic", fmt.Sprintf("diff+TL transport gave two different results for event type=%d id=%d", e.EventType, e.Id)})
			break
		}
	}
	w.h.Stat("oracle.deterministic", 1)
	if !keep {
		c.c = -1
	} else {
		c.c = w.internEvent(ce)
	}
	return k
}

// emit `def` lines for every content not yet announced in this case (in index order, so that t/c references may
// point forward; the model stores the table and resolves lazily)
func clip(s string) string {
	if len(s) > 160 {
		return s[:160] + "..."
	}
	return s
}

func (w *world) announce(upto *int) {
	for _, v := range w.pendingViol {
		w.h.Viol(v[0], "%s", v[1])
	}
	w.pendingViol = nil
	for *upto < len(w.contents) {
		c := w.contents[*upto]
		e := c.ev
		sz := len(e.WriteTL1Boxed(nil))
		name := e.Name
		if name == "" {
			name = "-"
		}
		w.h.Op("def %d %d %d %s %d %d %s %d %d %d %d", c.k, e.EventType, e.Id, name, len(e.Data), sz,
			metajournal.VerifC20Hash(e), b2i(c.ok), b2i(c.dis), c.t, c.c)
		// the hypotheses `TabOK` of the Lean convergence theorem, checked on what the real code produced:
		// transport and compaction keep (type, id); whether compaction discards depends on the entity only; sizes > 0
		te := w.contents[c.t].ev
		bad := te.EventType != e.EventType || te.Id != e.Id || sz <= 0
		if c.c >= 0 {
			ce := w.contents[c.c].ev
			bad = bad || ce.EventType != e.EventType || ce.Id != e.Id
		}
		kk := key{e.EventType, e.Id}
		if prev, ok := w.dropByKey[kk]; ok && prev != (c.c < 0) {
			bad = true
		}
		w.dropByKey[kk] = c.c < 0
		if bad {
			w.h.Viol("table-assumption-violated", "content %d (type %d id %d): transport/compaction changed the entity, or discard is not per entity, or size 0", c.k, e.EventType, e.Id)
		}
		w.h.Stat("oracle.tabok", 1)
		w.cfPending = append(w.cfPending, c.k)
		*upto++
	}
	// the compact form is MODELLED (SH.Model.CompactMetric): for every parseable metric content the fields handed to
	// MakeCompactMetric go to the model, the fields of the real compact event's Data are the observation
	for _, k := range w.cfPending {
		c := w.contents[k]
		if c.ev.EventType != format.MetricEvent || !c.ok || c.c < 0 {
			continue
		}
		pre, err := metajournal.MetricMetaFromEvent(c.ev)
		if err != nil {
			continue
		}
		ce := w.contents[c.c].ev
		w.h.Op("cf %d %s %s head=%s", c.k, hx(c.ev.Name), fieldsOf(pre).render(), headOf(c.ev))
		if rf, err := rawFields(ce.Data); err != nil {
			w.h.Obs("cf unparseable")
		} else {
			w.h.Obs("cf %s head=%s", rf.render(), headOf(ce))
		}
		w.h.Stat("cf.checked", 1)
		if refCompact(c.ev.Name, fieldsOf(pre)).desc != "" {
			w.h.Stat("cf.description-kept", 1)
		}
	}
	w.cfPending = nil
}

// ---------------------------------------------------------------- compact form of metrics: fields, reference

type mtag struct {
	name, desc, raw string
	ncomm           int
}
type mdraft struct{ key, name, desc, raw string }

// mfields = the JSON-visible fields of a MetricMetaValue that MakeCompactMetric reads or writes
type mfields struct {
	desc, kind                       string
	weight                           float64
	res                              int
	dis                              bool
	stn, std, pkt                    string
	pkf                              uint32
	skipMax, skipMin, skipSq, pkOnly bool
	mtype                            string
	tags                             []mtag
	drafts                           []mdraft
	mid, ns                          int32
	vname                            string
	ver                              int64
}

func fieldsOf(v *format.MetricMetaValue) mfields {
	f := mfields{desc: v.Description, kind: v.Kind, weight: v.Weight, res: v.Resolution, dis: v.Disable, stn: v.StringTopName,
		std: v.StringTopDescription, pkt: v.PreKeyTagID, pkf: v.PreKeyFrom, skipMax: v.SkipMaxHost, skipMin: v.SkipMinHost,
		skipSq: v.SkipSumSquare, pkOnly: v.PreKeyOnly, mtype: v.MetricType, mid: v.MetricID, ns: v.NamespaceID, vname: v.Name, ver: v.Version}
	for _, t := range v.Tags {
		f.tags = append(f.tags, mtag{t.Name, t.Description, t.RawKind, len(t.ValueComments)})
	}
	for k, t := range v.TagsDraft {
		f.drafts = append(f.drafts, mdraft{k, t.Name, t.Description, t.RawKind})
	}
	sort.Slice(f.drafts, func(i, j int) bool { return f.drafts[i].key < f.drafts[j].key })
	return f
}

func hx(s string) string { return verifx.Hex([]byte(s)) }

func (f mfields) render() string {
	w := fmt.Sprintf("x%g", f.weight)
	if f.weight == float64(int64(f.weight)) && f.weight >= 0 {
		w = fmt.Sprint(int64(f.weight))
	}
	var ts, ds []string
	for _, t := range f.tags {
		ts = append(ts, fmt.Sprintf("%s:%s:%s:%d", hx(t.name), hx(t.desc), hx(t.raw), t.ncomm))
	}
	for _, d := range f.drafts {
		ds = append(ds, fmt.Sprintf("%s:%s:%s:%s", hx(d.key), hx(d.name), hx(d.desc), hx(d.raw)))
	}
	return fmt.Sprintf("%s %s %s %d %d %s %s %s %d %d%d%d%d %s %s %s ids=%d:%d:%s:%d", hx(f.desc), hx(f.kind), w, f.res, b2i(f.dis), hx(f.stn), hx(f.std),
		hx(f.pkt), f.pkf, b2i(f.skipMax), b2i(f.skipMin), b2i(f.skipSq), b2i(f.pkOnly), hx(f.mtype), join(ts), join(ds), f.mid, f.ns, hx(f.vname), f.ver)
}

// rawFields: the fields as they are written in an event's Data (plain JSON decoding, no RestoreCachedInfo)
func rawFields(data string) (mfields, error) {
	var v format.MetricMetaValue
	if err := json.Unmarshal([]byte(data), &v); err != nil {
		return mfields{}, err
	}
	return fieldsOf(&v), nil
}

// refCompact is the harness' OWN statement of the compact form of a metric, written from the documented rule (comments
// of MakeCompactMetric / keepCompactMetricDescription / format.go), independent of the code under test:
// the compact journal keeps what agents need (tag names and raw kinds, draft tag keys, kind if percentiles, weight,
// resolution, disable, shard settings) and drops texts; the description survives for the remote-config / dump metrics
// (it is their payload) and when it carries one of the explicit marks.
func refCompact(evName string, f mfields) mfields {
	g := f
	special := evName == "statshouse_agent_remote_config" || evName == "statshouse_aggregator_remote_config" ||
		evName == "statshouse_api_remote_config" || evName == "statshouse_journal_dump"
	marked := strings.Contains(f.desc, "__round_sample_factors") || strings.Contains(f.desc, "__whales_off") || strings.Contains(f.desc, "statshouse$")
	if !special && !marked {
		g.desc = ""
	}
	g.mid, g.ns, g.vname, g.ver = 0, 0, "", 0
	g.tags = nil
	last := 0
	for i, t := range f.tags {
		if t.raw != "" || t.name != "" {
			last = i + 1
		}
	}
	for _, t := range f.tags[:last] {
		g.tags = append(g.tags, mtag{t.name, "", t.raw, 0})
	}
	g.drafts = nil
	for _, d := range f.drafts {
		g.drafts = append(g.drafts, mdraft{d.key, "", d.desc, d.raw})
	}
	if f.kind != "value_p" && f.kind != "mixed_p" {
		g.kind = ""
	}
	if f.weight == 1 {
		g.weight = 0
	}
	if f.res <= 1 {
		g.res = 0
	}
	g.std, g.pkt, g.pkf, g.skipMax, g.skipMin, g.skipSq, g.pkOnly, g.mtype = "", "", 0, false, false, false, false, ""
	return g
}

func headOf(e tlmetadata.Event) string {
	return fmt.Sprintf("%d:%d:%d:%d", e.FieldMask, e.Unused, e.UpdateTime, b2i(e.Metadata != ""))
}

func b2i(b bool) int {
	if b {
		return 1
	}
	return 0
}

// ---------------------------------------------------------------- printing state

func (w *world) evList(evs []tlmetadata.Event) string {
	ss := make([]string, len(evs))
	for i, e := range evs {
		e2 := e
		e2.Version = 0
		k, ok := w.intern[e2]
		if !ok {
			k = w.internEvent(e2) // unknown content (should not happen: closure is announced); announced late
			w.h.Stat("late.intern", 1)
			w.h.Viol("stored-content-unpredicted", "a journal holds an event (type=%d id=%d %q v%d) that is neither a source event nor its transported/compacted form as computed by the same real functions", e.EventType, e.Id, e.Name, e.Version)
		}
		ss[i] = fmt.Sprintf("%d:%d", e.Version, k)
	}
	return verifx.List(ss)
}

func join(ss []string) string { return verifx.List(ss) }

func (w *world) printState(ri int) {
	rep := w.reps[ri]
	js := metajournal.VerifC20Journal(rep.j)
	w.h.Obs("j %d ver=%d lv=%d lk=%d hash=%s n=%d ev=%s", ri, js.CurrentVersion, js.LoaderVersion, js.LastKnownVersion,
		js.HashStr, js.MapLen, w.evList(js.Events))
	st := metajournal.VerifC20StorageDump(rep.st)
	var a, b []string
	for _, m := range st.MetricsByID {
		a = append(a, fmt.Sprintf("%d:%s:%d:%d", m.MetricID, m.Name, m.Version, m.GroupID))
	}
	for i, n := range st.MetricNames {
		m := st.MetricsByName[i]
		b = append(b, fmt.Sprintf("%s:%d:%d:%d", n, m.MetricID, m.Version, m.GroupID))
	}
	w.h.Obs("m %d %s | %s", ri, join(a), join(b))
	a, b = nil, nil
	var c []string
	for _, g := range st.GroupsByID {
		a = append(a, fmt.Sprintf("%d:%s:%d:%d", g.ID, g.Name, g.Version, b2i(g.Disable)))
	}
	for i, n := range st.GroupNames {
		g := st.GroupsByName[i]
		b = append(b, fmt.Sprintf("%s:%d:%d", n, g.ID, g.Version))
	}
	for _, g := range st.GroupsOrdered {
		c = append(c, fmt.Sprint(g.ID))
	}
	w.h.Obs("g %d %s | %s | %s", ri, join(a), join(b), join(c))
	a, b = nil, nil
	for _, g := range st.NsByID {
		a = append(a, fmt.Sprintf("%d:%s:%d", g.ID, g.Name, g.Version))
	}
	for i, n := range st.NsNames {
		g := st.NsByName[i]
		b = append(b, fmt.Sprintf("%s:%d:%d", n, g.ID, g.Version))
	}
	w.h.Obs("s %d %s | %s", ri, join(a), join(b))
}

// tie hint: Go's sort of groupsOrdered is not stable and starts from map order; when two enabled user groups carry
// the same name (possible only in a transient replica state) the order actually chosen is an input of the model.
func (w *world) tieHint(ri int) string {
	st := metajournal.VerifC20StorageDump(w.reps[ri].st)
	seen := map[string]int{}
	dup := false
	for _, g := range st.GroupsByID {
		if g.ID > 0 && !g.Disable {
			seen[g.Name]++
			if seen[g.Name] > 1 {
				dup = true
			}
		}
	}
	if !dup {
		return "-"
	}
	w.h.Stat("tie.hint", 1)
	var c []string
	for _, g := range st.GroupsOrdered {
		c = append(c, fmt.Sprint(g.ID))
	}
	return join(c)
}

// ---------------------------------------------------------------- the direct oracle (real objects only)

func xorHex(hs []string) string {
	acc := new(big.Int)
	for _, h := range hs {
		x, _ := new(big.Int).SetString(h, 16)
		acc.Xor(acc, x)
	}
	return fmt.Sprintf("%032x", acc)
}

// source name of entity `k` at every version >= since is `name`
func (w *world) nameStableSince(k key, since int64, name string) bool {
	e := w.ents[k]
	if e == nil || e.name != name {
		return false
	}
	// name in force at version `since`, and every later one
	cur := ""
	found := false
	for _, h := range e.hist {
		if h.ver <= since {
			cur, found = h.name, true
		} else if h.name != name {
			return false
		}
	}
	return found && cur == name
}

func (w *world) oracleReplica(ri int, op string) {
	rep := w.reps[ri]
	if rep.dead {
		return
	}
	js := metajournal.VerifC20Journal(rep.j)
	// O6: the state hash is the xor of the per-entry hashes recomputed from the entries themselves
	var hs []string
	for _, e := range js.Events {
		hs = append(hs, metajournal.VerifC20Hash(e))
	}
	if x := xorHex(hs); x != js.HashStr && !(len(hs) == 0 && js.HashStr == strings.Repeat("0", 32)) {
		w.h.Viol("hash-not-xor-of-entries", "replica %d after %s: state hash %s, xor of entry hashes %s", ri, op, js.HashStr, x)
	}
	if js.MapLen != len(js.Events) {
		w.h.Viol("journal-order-map-mismatch", "replica %d after %s: %d map entries, %d ordered", ri, op, js.MapLen, len(js.Events))
	}
	for i := 1; i < len(js.Events); i++ {
		if js.Events[i-1].Version >= js.Events[i].Version {
			w.h.Viol("journal-order-not-ascending", "replica %d after %s", ri, op)
		}
	}
	st := metajournal.VerifC20StorageDump(rep.st)
	// O1b: the name index is consistent with the id index
	byID := map[int32]*format.MetricMetaValue{}
	for _, m := range st.MetricsByID {
		byID[m.MetricID] = m
	}
	for i, n := range st.MetricNames {
		m := st.MetricsByName[i]
		if m.Name != n || byID[m.MetricID] != m {
			w.h.Viol("metric-name-index-inconsistent", "replica %d after %s: byName[%q] = metric %d %q v%d which is not the id index entry", ri, op, n, m.MetricID, m.Name, m.Version)
		}
	}
	// O1: a metric the replica knows under the name it holds at the source (and has held since the replica's version
	// of it) is found by that name
	for _, m := range st.MetricsByID {
		if !w.nameStableSince(key{format.MetricEvent, int64(m.MetricID)}, m.Version, m.Name) {
			continue
		}
		got := rep.st.GetMetaMetricByName(m.Name)
		if got == nil {
			w.h.Viol("metric-name-lookup-lost", "replica %d after %s: metric %d holds name %q at the source (since v%d) and the replica has it, but GetMetaMetricByName(%q) = nil", ri, op, m.MetricID, m.Name, m.Version, m.Name)
		} else if got.MetricID != m.MetricID {
			w.h.Viol("metric-name-lookup-wrong", "replica %d after %s: GetMetaMetricByName(%q) = metric %d, but metric %d holds that name at the source (since v%d)", ri, op, m.Name, got.MetricID, m.MetricID, m.Version)
		}
		w.h.Stat("oracle.lookup.metric", 1)
	}
	for _, g := range st.GroupsByID {
		if !w.nameStableSince(key{format.MetricsGroupEvent, int64(g.ID)}, g.Version, g.Name) {
			continue
		}
		got := rep.st.GetGroupByName(g.Name)
		if got == nil {
			w.h.Viol("group-name-lookup-lost", "replica %d after %s: group %d holds name %q at the source but GetGroupByName = nil", ri, op, g.ID, g.Name)
		} else if got.ID != g.ID {
			w.h.Viol("group-name-lookup-wrong", "replica %d after %s: GetGroupByName(%q) = group %d, source says %d", ri, op, g.Name, got.ID, g.ID)
		}
		w.h.Stat("oracle.lookup.group", 1)
	}
	for _, g := range st.NsByID {
		if !w.nameStableSince(key{format.NamespaceEvent, int64(g.ID)}, g.Version, g.Name) {
			continue
		}
		got := rep.st.GetNamespaceByName(g.Name)
		if got == nil {
			w.h.Viol("namespace-name-lookup-lost", "replica %d after %s: namespace %d holds name %q at the source but GetNamespaceByName = nil", ri, op, g.ID, g.Name)
		} else if got.ID != g.ID {
			w.h.Viol("namespace-name-lookup-wrong", "replica %d after %s: GetNamespaceByName(%q) = namespace %d, source says %d", ri, op, g.Name, got.ID, g.ID)
		}
		w.h.Stat("oracle.lookup.namespace", 1)
	}
	// O5: each metric's group is the enabled user group with the longest matching name prefix (of the groups this
	// replica knows), default group when none matches
	for _, m := range st.MetricsByID {
		best := -1
		allowed := map[int32]bool{}
		for _, g := range st.GroupsByID {
			if g.ID > 0 && !g.Disable && strings.HasPrefix(m.Name, g.Name) {
				if len(g.Name) > best {
					best = len(g.Name)
					allowed = map[int32]bool{}
				}
				if len(g.Name) == best {
					allowed[g.ID] = true
				}
			}
		}
		if best < 0 {
			allowed[format.BuiltinGroupIDDefault] = true
		} else {
			w.h.Stat("oracle.group.matched", 1)
		}
		if !allowed[m.GroupID] {
			w.h.Viol("metric-group-not-longest-prefix", "replica %d after %s: metric %d %q has group %d, longest enabled prefix group(s) %v", ri, op, m.MetricID, m.Name, m.GroupID, keysOf(allowed))
		}
	}
}

func keysOf(m map[int32]bool) []int {
	var r []int
	for k := range m {
		r = append(r, int(k))
	}
	sort.Ints(r)
	return r
}

func (w *world) synced(ri int) bool {
	for ri != 0 {
		rep := w.reps[ri]
		if rep.dead {
			return false
		}
		a := metajournal.VerifC20Journal(rep.j)
		b := metajournal.VerifC20Journal(w.reps[rep.up].j)
		if a.LoaderVersion < b.CurrentVersion {
			return false
		}
		ri = rep.up
	}
	return true
}

// chainCompact: some journal between the source and replica ri (ri included) is compact
func (w *world) chainCompact(ri int) bool {
	for ri != 0 {
		if w.reps[ri].compact {
			return true
		}
		ri = w.reps[ri].up
	}
	return false
}

// content the chain stores in replica ri for source content k (-1: nothing is stored)
func (w *world) stored(ri int, k int) int {
	if ri == 0 {
		return k
	}
	x := w.stored(w.reps[ri].up, k)
	if x < 0 {
		return -1
	}
	y := w.contents[x].t
	if w.reps[ri].compact {
		y = w.contents[y].c
	}
	return y
}

// aheadOfUpstream: entities for which replica ri holds a NEWER version than its (compact, non-source) upstream does,
// the replica's content being the stored form of an earlier source version of that entity. This is the signature of the
// known finding "agent ahead of a rolled-back compact aggregator": the aggregator restarted from an older file, the
// entity's compact form returned to what that file holds, the aggregator skipped it as unchanged and keeps a version
// below the agent's, so the agent is never sent the current form.
func (w *world) aheadOfUpstream(ri int) map[key]bool {
	res := map[key]bool{}
	rep := w.reps[ri]
	if ri == 0 || rep.up == 0 || !w.reps[rep.up].compact {
		return res
	}
	upBy := map[key]tlmetadata.Event{}
	for _, e := range metajournal.VerifC20Journal(w.reps[rep.up].j).Events {
		upBy[key{e.EventType, e.Id}] = e
	}
	for _, e := range metajournal.VerifC20Journal(rep.j).Events {
		k := key{e.EventType, e.Id}
		u, ok := upBy[k]
		ent := w.ents[k]
		if !ok || ent == nil || u.Version >= e.Version {
			continue
		}
		for _, c := range ent.conts {
			if x := w.stored(ri, c); x >= 0 && metajournal.VerifC20EqualWithoutVersion(w.contents[x].ev, e) {
				res[k] = true
				break
			}
		}
	}
	return res
}

// O3 + O4, evaluated for replicas that have received everything their upstream chain has
func (w *world) oracleSynced(op string) {
	ahead := map[int]map[key]bool{}
	for ri := 1; ri < len(w.reps); ri++ {
		if !w.reps[ri].dead && !w.reps[w.reps[ri].up].dead {
			ahead[ri] = w.aheadOfUpstream(ri)
		}
	}
	type snap struct {
		js metajournal.VerifC20JournalState
		by map[key]tlmetadata.Event
	}
	snaps := map[int]*snap{}
	for ri := 1; ri < len(w.reps); ri++ {
		if !w.synced(ri) {
			continue
		}
		w.h.Stat("oracle.synced.replica", 1)
		rep := w.reps[ri]
		s := &snap{js: metajournal.VerifC20Journal(rep.j), by: map[key]tlmetadata.Event{}}
		snaps[ri] = s
		for _, e := range s.js.Events {
			s.by[key{e.EventType, e.Id}] = e
		}
		want := 0
		for _, k := range w.keys {
			ent := w.ents[k]
			x := w.stored(ri, ent.k)
			got, have := s.by[k]
			if x < 0 {
				if have {
					w.h.Viol("replica-has-discarded-entity", "replica %d after %s: entity %d/%d should be discarded by compaction", ri, op, k.typ, k.id)
				}
				continue
			}
			want++
			if !have {
				w.h.Viol("replica-missing-entity", "replica %d (synced) after %s: source entity type=%d id=%d %q v%d is absent", ri, op, k.typ, k.id, ent.name, ent.ver)
				continue
			}
			exp := w.contents[x].ev
			if !metajournal.VerifC20EqualWithoutVersion(got, exp) || got.Version > ent.ver {
				sig := "replica-stale-entity"
				if ahead[ri][k] {
					sig = "agent-ahead-of-rolled-back-compact-upstream"
				}
				w.h.Viol(sig, "replica %d (synced) after %s: entity type=%d id=%d has name %q v%d, source has %q v%d", ri, op, k.typ, k.id, got.Name, got.Version, ent.name, ent.ver)
				continue
			}
			// independent of the code's own compaction: behind a compact journal a metric is held in the compact form of the
			// source's latest version as the harness' reference defines it (incl. the description of remote-config metrics)
			if k.typ == format.MetricEvent && ent.ok && w.chainCompact(ri) && !ahead[ri][k] {
				src := w.contents[ent.k].ev
				src.Version = ent.ver
				if pre, err := metajournal.MetricMetaFromEvent(src); err == nil {
					want := refCompact(src.Name, fieldsOf(pre)).render()
					if rf, err := rawFields(got.Data); err != nil || rf.render() != want {
						w.h.Viol("replica-compact-form-differs", "replica %d (synced) after %s: metric %d %q v%d holds Data %q, compact form of the source's latest version v%d is %s", ri, op, k.id, got.Name, got.Version, clip(got.Data), ent.ver, want)
					}
					w.h.Stat("oracle.compact-form", 1)
				}
			}
			// the in-memory index shows the same version and name
			switch k.typ {
			case format.MetricEvent:
				if ent.ok {
					m := rep.st.GetMetaMetric(int32(k.id))
					if m == nil || m.Name != ent.name || m.Version != got.Version {
						w.h.Viol("index-stale-metric", "replica %d (synced) after %s: GetMetaMetric(%d) does not show %q v%d", ri, op, k.id, ent.name, got.Version)
					}
				}
			case format.MetricsGroupEvent:
				if ent.ok {
					g := rep.st.GetGroup(int32(k.id))
					if g == nil || g.Name != ent.name || g.Version != got.Version || g.Disable != ent.dis {
						w.h.Viol("index-stale-group", "replica %d (synced) after %s: GetGroup(%d) does not show %q v%d", ri, op, k.id, ent.name, got.Version)
					}
				}
			case format.NamespaceEvent:
				if ent.ok {
					g := rep.st.GetNamespace(int32(k.id))
					if g == nil || g.Name != ent.name || g.Version != got.Version {
						w.h.Viol("index-stale-namespace", "replica %d (synced) after %s: GetNamespace(%d) does not show %q v%d", ri, op, k.id, ent.name, got.Version)
					}
				}
			}
		}
		if want != len(s.js.Events) {
			w.h.Viol("replica-extra-entity", "replica %d (synced) after %s: %d journal entries, source chain yields %d", ri, op, len(s.js.Events), want)
		}
	}
	// O4: replicas of the same journal (same upstream, same kind) have identical hashes
	for a := 1; a < len(w.reps); a++ {
		for b := a + 1; b < len(w.reps); b++ {
			sa, sb := snaps[a], snaps[b]
			if sa == nil || sb == nil || w.reps[a].up != w.reps[b].up || w.reps[a].compact != w.reps[b].compact {
				continue
			}
			w.h.Stat("oracle.hash.pair", 1)
			if sa.js.HashStr != sb.js.HashStr {
				sig := "hash-diverged"
				if len(ahead[a]) > 0 || len(ahead[b]) > 0 {
					sig = "hash-diverged-agent-ahead-of-rolled-back-compact-upstream"
				}
				w.h.Viol(sig, "after %s: replicas %d and %d of journal %d are both synced but hashes differ %s %s", op, a, b, w.reps[a].up, sa.js.HashStr, sb.js.HashStr)
			}
		}
	}
	// a non-compact replica of a non-source journal stores exactly what its upstream stores
	for a := 1; a < len(w.reps); a++ {
		sa := snaps[a]
		up := w.reps[a].up
		if sa == nil || up == 0 || w.reps[a].compact {
			continue
		}
		w.h.Stat("oracle.hash.parent", 1)
		if h := metajournal.VerifC20Journal(w.reps[up].j).HashStr; h != sa.js.HashStr {
			sig := "hash-diverged-from-upstream"
			if len(ahead[a]) > 0 {
				sig = "hash-diverged-from-upstream-agent-ahead-of-rolled-back-compact-upstream"
			}
			w.h.Viol(sig, "after %s: replica %d is synced with journal %d but hashes differ %s %s", op, a, up, sa.js.HashStr, h)
		}
	}
}

// ---------------------------------------------------------------- ops

// guard runs one call into the real code; a panic marks the replica dead. The caller prints the op line and then
// calls panicked() so that `< panic` follows the op it belongs to.
func (w *world) guard(ri int, f func()) (panicked bool) {
	defer func() {
		if r := recover(); r != nil {
			w.pendingPanic = fmt.Sprint(r)
			w.reps[ri].dead = true
			panicked = true
		}
	}()
	f()
	return false
}

func (w *world) reportPanic(ri int) {
	w.h.Obs("panic")
	w.h.Viol("journal-panic", "replica %d: real code panicked: %s", ri, w.pendingPanic)
	w.h.Stat("panic", 1)
}

func (w *world) opSrc(e tlmetadata.Event, upto *int, what string) {
	k := w.internEvent(e)
	w.announce(upto)
	src := w.reps[0]
	var p bool
	p = w.guard(0, func() { metajournal.VerifC20ApplyUpdate(src.j, []tlmetadata.Event{e}, e.Version) })
	w.h.Op("src %d %d %s", e.Version, k, w.tieHint(0))
	if p {
		w.reportPanic(0)
	}
	if !p {
		w.printState(0)
		w.oracleReplica(0, what)
	}
	w.h.Stat("op.src."+what, 1)
}

func (w *world) opDeliver(ri, items, bytes, cut int) (n int) {
	rep := w.reps[ri]
	up := w.reps[rep.up]
	if rep.dead || up.dead {
		return 0
	}
	from := metajournal.VerifC20Journal(rep.j).LoaderVersion
	var evs []tlmetadata.Event
	var cur int64
	p := w.guard(ri, func() {
		resp := metajournal.VerifC20Diff(up.j, from, items, bytes)
		cur = resp.CurrentVersion
		for _, e := range resp.Events {
			evs = append(evs, tlRoundTrip(e))
		}
		n = len(evs)
		if len(evs) > cut {
			evs = evs[:cut]
			w.h.Stat("deliver.cut", 1)
		}
		before := metajournal.VerifC20Journal(rep.j)
		metajournal.VerifC20ApplyUpdate(rep.j, append([]tlmetadata.Event(nil), evs...), cur)
		after := metajournal.VerifC20Journal(rep.j)
		if rep.compact && len(evs) > 0 && len(after.Events) == len(before.Events) && after.CurrentVersion == before.CurrentVersion {
			w.h.Stat("deliver.compact.all-skipped", 1)
			w.nt("compact-skip")
		}
	})
	w.h.Op("deliver %d %d %d %d %s", ri, items, bytes, cut, w.tieHint(ri))
	if p {
		w.reportPanic(ri)
		return 0
	}
	w.h.Obs("d %s cur=%d", w.evList(evs), cur)
	w.printState(ri)
	w.h.Stat("op.deliver", 1)
	w.h.Stat(fmt.Sprintf("deliver.events.%s", bucket(len(evs))), 1)
	if n > 0 && (n == items) {
		w.h.Stat("deliver.limit.items", 1)
	}
	w.oracleReplica(ri, "deliver")
	return n
}

func bucket(n int) string {
	switch {
	case n == 0:
		return "0"
	case n == 1:
		return "1"
	case n <= 3:
		return "2-3"
	case n <= 8:
		return "4-8"
	}
	return "9+"
}

func (w *world) opSave(ri int) {
	rep := w.reps[ri]
	if rep.dead {
		return
	}
	var ok bool
	var err error
	p := w.guard(ri, func() { ok, _, err = rep.j.Save() })
	w.h.Op("save %d", ri)
	if p {
		w.reportPanic(ri)
		return
	}
	w.h.Obs("saved %d err=%d size=%d chunks=%s", b2i(ok), b2i(err != nil), len(rep.file), join(chunkEnds(rep.file)))
	w.h.Stat("op.save", 1)
	if len(chunkEnds(rep.file)) > 1 {
		w.h.Stat("save.multichunk", 1)
	}
}

// chunkEnds walks the chunk headers of a file written by ChunkedStorage2 (magic, size, body, 16 byte hash)
func chunkEnds(f []byte) []string {
	var r []string
	off := 0
	for off+8 <= len(f) {
		s := int(binary.LittleEndian.Uint32(f[off+4:]))
		off += data_model.VerifC20ChunkHeaderSize + s + data_model.VerifC20ChunkHashSize
		if off > len(f) {
			break
		}
		r = append(r, fmt.Sprint(off))
	}
	return r
}

func (w *world) opRestart(ri int, keep int) {
	rep := w.reps[ri]
	if keep < len(rep.file) {
		for _, e := range chunkEnds(rep.file) {
			if e == fmt.Sprint(keep) {
				w.h.Stat("restart.cut-at-internal-chunk-boundary", 1)
				w.nt("chunk-boundary-cut")
			}
		}
		rep.file = rep.file[:keep]
		w.h.Stat("restart.truncated", 1)
		w.nt("truncated-reload")
	}
	var err error
	p := w.guard(ri, func() {
		rep.st = metajournal.MakeMetricsStorage(nil)
		rep.j, err = metajournal.LoadJournalFastSlice(&rep.file, 0, rep.compact, []metajournal.ApplyEvent{rep.st.ApplyEvent})
		rep.dead = false
	})
	w.h.Op("restart %d %d %s", ri, keep, w.tieHint(ri))
	if p {
		w.reportPanic(ri)
		return
	}
	w.h.Obs("load err=%d", b2i(err != nil))
	w.printState(ri)
	w.h.Stat("op.restart", 1)
	if err != nil {
		w.h.Stat("restart.err", 1)
	}
	w.oracleReplica(ri, "restart")
}

// ---------------------------------------------------------------- generator of source edits

// the four names RemoteConfigMetric() recognises keep their description (it is their payload) in compact journals
var metricNames = []string{format.StatshouseAgentRemoteConfigMetric, format.StatshouseAggregatorRemoteConfigMetric, format.StatshouseAPIRemoteConfig, format.StatshouseJournalDump, "a", "ab", "abc", "abd", "ab_x", "b", "ba", "bab", "c", "ca", "abcd", "b_1"}
var groupNames = []string{"a", "ab", "abc", "b", "ba", "c", "ab_", "abcd"}
var nsNames = []string{"n1", "n2", "n3", "n4", "n5"}
var otherNames = []string{"d1", "d2", "d3", "p1", "p2"}

func namePool(typ int32) []string {
	switch typ {
	case format.MetricEvent:
		return metricNames
	case format.MetricsGroupEvent:
		return groupNames
	case format.NamespaceEvent:
		return nsNames
	}
	return otherNames
}

func (w *world) holder(typ int32, name string) *entity {
	for _, k := range w.keys {
		if k.typ == typ && w.ents[k].name == name {
			return w.ents[k]
		}
	}
	return nil
}

func (w *world) freeName(typ int32, preferFreed bool) (string, bool) {
	if preferFreed {
		var cand []string
		for _, n := range w.freed[typ] {
			if w.holder(typ, n) == nil {
				cand = append(cand, n)
			}
		}
		if len(cand) > 0 {
			return cand[w.r.Intn(len(cand))], true
		}
	}
	var cand []string
	for _, n := range namePool(typ) {
		if w.holder(typ, n) == nil {
			cand = append(cand, n)
		}
	}
	if len(cand) == 0 {
		return "", false
	}
	n := cand[w.r.Intn(len(cand))]
	for _, f := range w.freed[typ] {
		if f == n {
			return n, true
		}
	}
	return n, false
}

func (w *world) pad() string {
	if !w.big {
		return ""
	}
	return strings.Repeat("x", w.r.Range(90_000, 260_000))
}

func (w *world) makeData(ent *entity) string {
	v := ent.data
	switch ent.key.typ {
	case format.MetricEvent:
		// description-only changes are invisible to compaction; tag / kind / resolution changes are visible
		desc := []string{"", "statshouse$ ", "x __whales_off ", "__round_sample_factors=1 "}[ent.mark] + fmt.Sprintf("d%d", v)
		tags := []string{`{"name":"env"}`, `{"name":"env"},{"name":"k1","description":"c","value_comments":{"1":"one","2":"two"}}`, `{},{"name":"k2","raw":true}`, `{"name":"env"},{"name":""},{"name":""}`}[(v/2)%4]
		kind := []string{"counter", "value", "value_p", "mixed_p"}[(v/3)%4]
		res := []int{1, 1, 5, 15}[(v/5)%4]
		// tags_draft is a Go map: a compaction that does not serialise it in a fixed order is not a function of the event
		drafts := ""
		if nd := ent.drafts; nd > 0 {
			var ds []string
			for i := 0; i < nd; i++ {
				ds = append(ds, fmt.Sprintf(`"draft%d":{"name":"draft%d","description":"x%d"}`, (i*5+v)%11, (i*5+v)%11, v))
			}
			drafts = fmt.Sprintf(`,"tags_draft":{%s}`, strings.Join(ds, ","))
		}
		extra := fmt.Sprintf(`,"string_top_description":%q,"skip_max_host":%v,"skip_sum_square":%v,"metric_type":%q`,
			[]string{"", "top"}[v%2], v%3 == 0, v%4 == 1, []string{"", "byte", "second"}[(v/2)%3])
		if v%5 == 2 {
			extra += `,"pre_key_tag_id":"1","pre_key_from":77,"string_top_name":"stop"`
		}
		return fmt.Sprintf(`{"description":%q,"tags":[%s]%s,"kind":%q,"resolution":%d,"weight":%d,"disable":%v%s,"junk":%q}`, desc, tags, drafts, kind, res, 1+(v/7)%2, ent.dis, extra, w.pad())
	case format.MetricsGroupEvent:
		return fmt.Sprintf(`{"weight":%d,"disable":%v,"junk":%q}`, 1+v%3, ent.dis, w.pad())
	case format.NamespaceEvent:
		return fmt.Sprintf(`{"weight":%d,"disable":false,"junk":%q}`, 1+v%3, w.pad())
	case format.DashboardEvent:
		return fmt.Sprintf(`{"x":%d,"pad":%q}`, v, w.pad())
	}
	return fmt.Sprintf("cfg-%d-%s", v, w.pad())
}

func (w *world) newEvent(ent *entity, malformed int) tlmetadata.Event {
	w.ver += int64(w.r.Pick(6, 2, 1)) + 1 // gaps in the version sequence are normal (mappings share the counter)
	e := tlmetadata.Event{Id: ent.key.id, Name: ent.name, EventType: ent.key.typ, Version: w.ver, UpdateTime: uint32(1000 + w.ver), Data: w.makeData(ent)}
	switch malformed {
	case 1:
		e.Data = `{"description":` // broken JSON: ApplyEvent skips it, the journal carries it
	}
	if ent.ns == 0 {
		ent.ns = 1 + w.r.Pick(4, 1, 1, 1) // 1 = field not set, 2..4 = namespace id 0..2 (fixed per entity: a reverted edit reproduces the earlier event)
	}
	if ent.ns > 1 {
		e.SetNamespaceId(int64(ent.ns - 2))
	}
	if w.r.Chance(1, 4) {
		e.SetMetadata(fmt.Sprintf(`{"who":"u%d"}`, w.r.Intn(3)))
	}
	if ent.key.typ == format.DashboardEvent && w.r.Chance(1, 4) {
		e.Unused = 77 // DeleteTime of dashboards
	}
	return e
}

func (w *world) commit(ent *entity, e tlmetadata.Event) {
	ent.ver = e.Version
	ent.k = w.internEvent(e)
	ent.ok, _ = parseInfo(e)
	ent.hist = append(ent.hist, nameAt{e.Version, e.Name})
	ent.conts = append(ent.conts, ent.k)
}

func (w *world) randomType() int32 {
	return []int32{format.MetricEvent, format.MetricsGroupEvent, format.NamespaceEvent, format.DashboardEvent, format.PromConfigEvent, 7}[w.r.Pick(10, 6, 3, 2, 1, 1)]
}

func (w *world) pickEntity(typs ...int32) *entity {
	var cand []*entity
	for _, k := range w.keys {
		for _, t := range typs {
			if k.typ == t {
				cand = append(cand, w.ents[k])
			}
		}
	}
	if len(cand) == 0 {
		return nil
	}
	return cand[w.r.Intn(len(cand))]
}

func (w *world) create(upto *int) bool {
	typ := w.randomType()
	var id int64
	for try := 0; ; try++ {
		id = int64(w.r.Range(1, 9))
		if typ == format.MetricsGroupEvent && w.r.Chance(1, 12) {
			id = int64([]int{-4, -2, -3, 0}[w.r.Intn(4)]) // builtin group ids are overridable by the journal
		}
		if typ == format.NamespaceEvent && w.r.Chance(1, 12) {
			id = -5
		}
		if typ == format.PromConfigEvent {
			id = int64(format.PrometheusConfigID - w.r.Intn(3))
		}
		if typ == format.MetricEvent && w.r.Chance(1, 25) {
			id = (1 << 33) + int64(w.r.Range(1, 3)) // does not fit int32: the index refuses it, the journal carries it
		}
		if w.ents[key{typ, id}] == nil {
			break
		}
		if try > 20 {
			return false
		}
	}
	name, reused := w.freeName(typ, w.r.Chance(1, 2))
	if name == "" {
		return false
	}
	ent := &entity{key: key{typ, id}, name: name}
	if typ == format.MetricEvent {
		ent.mark = w.r.Pick(9, 1, 1, 1)
	}
	if typ == format.MetricEvent && w.r.Chance(2, 5) {
		ent.drafts = w.r.Range(2, 8)
		w.h.Stat("src.metric.with-drafts", 1)
	}
	w.ents[ent.key] = ent
	w.keys = append(w.keys, ent.key)
	mal := 0
	if w.r.Chance(1, 30) {
		mal = 1
	}
	e := w.newEvent(ent, mal)
	w.commit(ent, e)
	if reused {
		w.nt("name-reuse")
		w.h.Stat("src.name-reuse", 1)
	}
	w.opSrc(e, upto, "create")
	return true
}

func (w *world) edit(upto *int) bool {
	ent := w.pickEntity(format.MetricEvent, format.MetricEvent, format.MetricsGroupEvent, format.NamespaceEvent, format.DashboardEvent, format.PromConfigEvent, 7)
	if ent == nil {
		return false
	}
	ent.past = append(ent.past, [2]int{ent.data, ent.drafts})
	if len(ent.past) > 1 && w.r.Chance(1, 3) {
		// revert to an earlier state (A -> B -> A): the compact form returns to a value a stale replica may still hold
		p := ent.past[w.r.Intn(len(ent.past)-1)]
		ent.data, ent.drafts = p[0], p[1]
		e := w.newEvent(ent, 0)
		w.commit(ent, e)
		w.nt("revert")
		w.opSrc(e, upto, "revert")
		return true
	}
	if ent.key.typ == format.MetricEvent && w.r.Chance(1, 6) {
		ent.drafts = []int{0, 2, 3, 5, 8}[w.r.Intn(5)]
	}
	if w.r.Chance(2, 3) {
		ent.data++ // often a description-only change
	} else {
		ent.data += w.r.Range(1, 6)
	}
	mal := 0
	if w.r.Chance(1, 40) {
		mal = 1
	}
	e := w.newEvent(ent, mal)
	w.commit(ent, e)
	w.opSrc(e, upto, "edit")
	return true
}

func (w *world) rename(upto *int) bool {
	ent := w.pickEntity(format.MetricEvent, format.MetricEvent, format.MetricEvent, format.MetricsGroupEvent, format.MetricsGroupEvent, format.NamespaceEvent, format.DashboardEvent)
	if ent == nil {
		return false
	}
	name, reused := w.freeName(ent.key.typ, w.r.Chance(3, 4))
	if name == "" {
		return false
	}
	w.freed[ent.key.typ] = append(w.freed[ent.key.typ], ent.name)
	ent.name = name
	e := w.newEvent(ent, 0)
	w.commit(ent, e)
	w.nt("rename")
	if reused {
		w.nt("name-reuse")
		w.h.Stat("src.name-reuse", 1)
	}
	w.opSrc(e, upto, "rename")
	return true
}

// the history the property singles out: E frees name x, F takes x, E is edited again (so that a replica which
// last saw E as x receives F before E's newer version)
func (w *world) reuseScenario(upto *int) bool {
	ent := w.pickEntity(format.MetricEvent, format.MetricEvent, format.MetricsGroupEvent, format.MetricsGroupEvent, format.NamespaceEvent)
	if ent == nil {
		return false
	}
	typ := ent.key.typ
	x := ent.name
	y, _ := w.freeName(typ, w.r.Chance(1, 2))
	if y == "" {
		return false
	}
	w.freed[typ] = append(w.freed[typ], x)
	ent.name = y
	e := w.newEvent(ent, 0)
	w.commit(ent, e)
	w.nt("rename")
	w.opSrc(e, upto, "rename")
	// F: another entity of the type takes x (or a new one is created with it)
	var other *entity
	if w.r.Chance(1, 2) {
		for try := 0; try < 5 && (other == nil || other == ent); try++ {
			other = w.pickEntity(typ)
		}
	}
	if other != nil && other != ent {
		w.freed[typ] = append(w.freed[typ], other.name)
		other.name = x
	} else {
		var id int64
		for id = 1; id < 40 && w.ents[key{typ, id}] != nil; id++ {
		}
		other = &entity{key: key{typ, id}, name: x}
		w.ents[other.key] = other
		w.keys = append(w.keys, other.key)
	}
	e = w.newEvent(other, 0)
	w.commit(other, e)
	w.nt("name-reuse")
	w.h.Stat("src.name-reuse", 1)
	w.opSrc(e, upto, "reuse")
	if w.r.Chance(3, 4) {
		ent.data++
		e = w.newEvent(ent, 0)
		w.commit(ent, e)
		w.opSrc(e, upto, "edit")
	}
	return true
}

func (w *world) toggle(upto *int) bool {
	ent := w.pickEntity(format.MetricsGroupEvent)
	if ent == nil {
		return false
	}
	ent.dis = !ent.dis
	e := w.newEvent(ent, 0)
	w.commit(ent, e)
	w.opSrc(e, upto, "toggle")
	return true
}

// ---------------------------------------------------------------- one case

func runCase(h *verifx.H, r *verifx.Rng, idx int) {
	w := &world{h: h, r: r, intern: map[tlmetadata.Event]int{}, ents: map[key]*entity{}, freed: map[int32][]string{}, tags: map[string]bool{}, dropByKey: map[key]bool{}}
	w.big = r.Chance(1, 12)
	if h.Mode == "small" {
		w.big = false
	}
	// topology: 0 source; 1 compact aggregator of 0; 2,3 agents of 1; optionally 4 non-compact aggregator of 0 and 5 its agent
	type cfg struct {
		compact bool
		up      int
	}
	cfgs := []cfg{{false, -1}, {true, 0}, {false, 1}, {false, 1}}
	switch r.Pick(2, 1, 2, 1, 4) {
	case 0:
		cfgs = append(cfgs, cfg{false, 0}, cfg{false, 4})
	case 1:
		cfgs = append(cfgs, cfg{false, 0})
	case 2:
		cfgs = append(cfgs, cfg{true, 1}) // compact replica of a compact journal (ingress proxy role)
	case 4:
		// a second compact aggregator of the same source (+ its agent): two same-kind replicas of one journal must agree
		cfgs = append(cfgs, cfg{true, 0}, cfg{false, 4})
		h.Stat("case.two-compact-siblings", 1)
	}
	var parts []string
	for i, c := range cfgs {
		rep := &replica{compact: c.compact, up: c.up}
		rep.st = metajournal.MakeMetricsStorage(nil)
		rep.j, _ = metajournal.LoadJournalFastSlice(&rep.file, 0, c.compact, []metajournal.ApplyEvent{rep.st.ApplyEvent})
		w.reps = append(w.reps, rep)
		if i > 0 {
			parts = append(parts, fmt.Sprintf("%d:%d", b2i(c.compact), c.up))
		}
	}
	h.Op("new %d %s", len(cfgs), strings.Join(parts, " "))
	upto := 0
	nops := r.Range(8, 70)
	weights := []int{18, 12, 12, 4, 38, 8, 5, 5}
	if w.big {
		nops = r.Range(20, 45)
		weights = []int{22, 8, 6, 2, 40, 10, 8, 3}
		h.Stat("case.big", 1)
	}
	if w.big {
		// prelude: enough bulk everywhere that saved files span several chunks
		for i := r.Range(4, 8); i > 0; i-- {
			w.create(&upto)
		}
		for ri := 1; ri < len(w.reps); ri++ {
			w.opDeliver(ri, 1000, 800*1024, inf)
			if r.Chance(2, 3) {
				w.opSave(ri)
			}
		}
		// a crash between two chunk writes: restart one replica from its file cut exactly at an internal chunk boundary
		for ri := 1; ri < len(w.reps); ri++ {
			if ends := chunkEnds(w.reps[ri].file); len(ends) > 1 && r.Chance(2, 3) {
				keep := 0
				fmt.Sscan(ends[r.Intn(len(ends)-1)], &keep)
				w.opRestart(ri, keep)
				break
			}
		}
	}
	for i := 0; i < nops; i++ {
		switch r.Pick(weights...) {
		case 0:
			w.create(&upto)
		case 1:
			w.edit(&upto)
		case 2:
			w.rename(&upto)
		case 3:
			w.toggle(&upto)
		case 4:
			ri := r.Range(1, len(w.reps)-1)
			items := []int{1, 2, 3, 5, 1000}[r.Pick(2, 2, 2, 2, 6)]
			bytes := []int{1, 150, 400, 800 * 1024}[r.Pick(1, 1, 2, 8)]
			cut := []int{0, 1, 2, 3, inf}[r.Pick(1, 3, 2, 2, 8)]
			w.opDeliver(ri, items, bytes, cut)
			w.oracleSynced("deliver")
		case 5:
			w.opSave(r.Range(1, len(w.reps)-1))
		case 6:
			ri := r.Range(1, len(w.reps)-1)
			if r.Chance(2, 3) {
				w.opSave(ri)
			}
			n := len(w.reps[ri].file)
			keep := n
			switch r.Pick(8, 1, 7, 4) {
			case 1:
				keep = 0
			case 2:
				keep = r.Range(0, n)
			case 3:
				ends := chunkEnds(w.reps[ri].file)
				if len(ends) > 1 && r.Chance(1, 2) {
					// exactly at an INTERNAL chunk boundary: the file reads without error, yet its tail is missing
					fmt.Sscan(ends[r.Intn(len(ends)-1)], &keep)
				} else if len(ends) > 0 {
					fmt.Sscan(ends[r.Intn(len(ends))], &keep)
					keep += r.Range(-1, 1)
					if keep < 0 {
						keep = 0
					}
				}
			}
			w.opRestart(ri, keep)
		case 7:
			w.reuseScenario(&upto)
		}
	}
	// drain: everybody receives everything, upstream first
	for ri := 1; ri < len(w.reps); ri++ {
		for guard := 0; guard < 1000; guard++ {
			if w.opDeliver(ri, 1000, 800*1024, inf) == 0 {
				break
			}
		}
	}
	w.oracleSynced("drain")
	for ri := 1; ri < len(w.reps); ri++ {
		if !w.synced(ri) && !w.reps[ri].dead {
			w.h.Viol("replica-never-catches-up", "replica %d still behind its upstream after unlimited deliveries", ri)
		}
	}
	h.Stat("cases", 1)
	h.Stat("contents", int64(len(w.contents)))
}

// runWitness: the minimal histories of the defect class (one per entity type, plus one with a regrouping pass while two
// metrics transiently carry the same name). Deterministic, four cases.
// witness 4: one metric with five draft tags, two compact aggregators of the same source: same kind, same journal,
// both synced, so events and hashes must be identical (compaction has to be a function of the event).
func runWitnessDrafts(h *verifx.H, r *verifx.Rng) {
	w := &world{h: h, r: r, intern: map[tlmetadata.Event]int{}, ents: map[key]*entity{}, freed: map[int32][]string{}, tags: map[string]bool{}, dropByKey: map[key]bool{}}
	for i := 0; i < 3; i++ {
		rep := &replica{up: 0, compact: i > 0}
		rep.st = metajournal.MakeMetricsStorage(nil)
		rep.j, _ = metajournal.LoadJournalFastSlice(&rep.file, 0, rep.compact, []metajournal.ApplyEvent{rep.st.ApplyEvent})
		w.reps = append(w.reps, rep)
	}
	h.Op("new 3 1:0 1:0")
	upto := 0
	for i := 1; i <= 3; i++ {
		ent := &entity{key: key{format.MetricEvent, int64(i)}, name: fmt.Sprintf("m%d", i), drafts: []int{0, 5, 8}[i-1]}
		w.ents[ent.key] = ent
		w.keys = append(w.keys, ent.key)
		w.ver++
		e := tlmetadata.Event{Id: ent.key.id, Name: ent.name, EventType: ent.key.typ, Version: w.ver, UpdateTime: uint32(1000 + w.ver), Data: w.makeData(ent)}
		w.commit(ent, e)
		w.opSrc(e, &upto, "create")
	}
	w.nt("name-reuse") // counted with the witness family
	w.opDeliver(1, 1000, 800*1024, inf)
	w.opDeliver(2, 1, 800*1024, inf)
	w.opDeliver(2, 1000, 800*1024, inf)
	w.oracleSynced("drain")
	h.Stat("cases.witness", 1)
}

// witness 5: an agent that is ahead of its rolled-back aggregator. Source X@1 (c0) -> aggregator (compact) saves;
// X@2 (c1) reaches aggregator and agent 2; X@3 reverts to c0; the aggregator restarts from its stale file (it holds X@1 again),
// receives X@3; a second agent 3 joins. When everybody is synced all agents of the aggregator must hold the same X.
func runWitnessRollback(h *verifx.H, r *verifx.Rng) {
	w := &world{h: h, r: r, intern: map[tlmetadata.Event]int{}, ents: map[key]*entity{}, freed: map[int32][]string{}, tags: map[string]bool{}, dropByKey: map[key]bool{}}
	ups := []int{-1, 0, 1, 1}
	for i := 0; i < 4; i++ {
		rep := &replica{up: ups[i], compact: i == 1}
		rep.st = metajournal.MakeMetricsStorage(nil)
		rep.j, _ = metajournal.LoadJournalFastSlice(&rep.file, 0, rep.compact, []metajournal.ApplyEvent{rep.st.ApplyEvent})
		w.reps = append(w.reps, rep)
	}
	h.Op("new 4 1:0 0:1 0:1")
	upto := 0
	put := func(ent *entity, what string) {
		if w.ents[ent.key] == nil {
			w.ents[ent.key] = ent
			w.keys = append(w.keys, ent.key)
		}
		w.ver++
		e := tlmetadata.Event{Id: ent.key.id, Name: ent.name, EventType: ent.key.typ, Version: w.ver, UpdateTime: uint32(1000 + w.ver), Data: w.makeData(ent)}
		w.commit(ent, e)
		w.opSrc(e, &upto, what)
	}
	x := &entity{key: key{format.MetricEvent, 1}, name: "x"}
	put(x, "create") // X@1, data variant 0
	w.opDeliver(1, 1000, 800*1024, inf)
	w.opSave(1) // the aggregator's file holds X@1
	x.data = 2
	put(x, "edit") // X@2: compact-visible change
	w.opDeliver(1, 1000, 800*1024, inf)
	w.opDeliver(2, 1000, 800*1024, inf) // agent 2 has X@2
	x.data = 0
	put(x, "revert") // X@3: back to the first form
	w.nt("revert")
	w.opRestart(1, inf) // crash without a newer save: the aggregator is back at X@1, the agent is ahead of it
	w.opDeliver(1, 1000, 800*1024, inf)
	y := &entity{key: key{format.MetricEvent, 2}, name: "y"}
	put(y, "create") // Y@4 lifts everybody's version
	w.opDeliver(1, 1000, 800*1024, inf)
	w.opDeliver(2, 1000, 800*1024, inf)
	w.opDeliver(3, 1000, 800*1024, inf)
	w.oracleSynced("drain")
	h.Stat("cases.witness", 1)
}

// witness 6: a journal file of two chunks cut exactly at the chunk boundary. It reads back WITHOUT error, but only the
// first chunk's events are there: the replica must restart from the last event it read, not from the header's version.
func runWitnessChunkCut(h *verifx.H, r *verifx.Rng) {
	w := &world{h: h, r: r, intern: map[tlmetadata.Event]int{}, ents: map[key]*entity{}, freed: map[int32][]string{}, tags: map[string]bool{}, dropByKey: map[key]bool{}}
	w.big = true
	for i := 0; i < 2; i++ {
		rep := &replica{up: 0}
		rep.st = metajournal.MakeMetricsStorage(nil)
		rep.j, _ = metajournal.LoadJournalFastSlice(&rep.file, 0, false, []metajournal.ApplyEvent{rep.st.ApplyEvent})
		w.reps = append(w.reps, rep)
	}
	h.Op("new 2 0:0")
	upto := 0
	for i := 1; i <= 6; i++ {
		ent := &entity{key: key{format.MetricEvent, int64(i)}, name: fmt.Sprintf("m%d", i), ns: 1}
		w.ents[ent.key] = ent
		w.keys = append(w.keys, ent.key)
		w.ver++
		e := tlmetadata.Event{Id: ent.key.id, Name: ent.name, EventType: ent.key.typ, Version: w.ver, UpdateTime: uint32(1000 + w.ver), Data: w.makeData(ent)}
		w.commit(ent, e)
		w.opSrc(e, &upto, "create")
	}
	w.opDeliver(1, 1000, 800*1024, inf)
	w.opSave(1)
	ends := chunkEnds(w.reps[1].file)
	keep := len(w.reps[1].file)
	if len(ends) > 1 {
		fmt.Sscan(ends[0], &keep)
	} else {
		w.h.Viol("witness-file-not-multichunk", "the saved file has %d chunk(s): the chunk size no longer lets 6 entities of 90-260 KB span two chunks", len(ends))
	}
	w.opRestart(1, keep)
	for guard := 0; guard < 10 && w.opDeliver(1, 1000, 800*1024, inf) > 0; guard++ {
	}
	w.oracleSynced("drain")
	if !w.synced(1) {
		w.h.Viol("replica-never-catches-up", "replica 1 still behind its upstream after unlimited deliveries")
	}
	h.Stat("cases.witness", 1)
}

func runWitness(h *verifx.H, r *verifx.Rng, idx int) {
	if idx == 6 {
		runWitnessChunkCut(h, r)
		return
	}
	if idx == 4 {
		runWitnessDrafts(h, r)
		return
	}
	if idx == 5 {
		runWitnessRollback(h, r)
		return
	}
	w := &world{h: h, r: r, intern: map[tlmetadata.Event]int{}, ents: map[key]*entity{}, freed: map[int32][]string{}, tags: map[string]bool{}, dropByKey: map[key]bool{}}
	for i := 0; i < 2; i++ {
		rep := &replica{up: 0}
		rep.st = metajournal.MakeMetricsStorage(nil)
		rep.j, _ = metajournal.LoadJournalFastSlice(&rep.file, 0, false, []metajournal.ApplyEvent{rep.st.ApplyEvent})
		w.reps = append(w.reps, rep)
	}
	h.Op("new 2 0:0")
	typ := []int32{format.MetricEvent, format.MetricsGroupEvent, format.NamespaceEvent, format.MetricEvent}[idx%4]
	upto := 0
	put := func(ent *entity, what string) {
		if w.ents[ent.key] == nil {
			w.ents[ent.key] = ent
			w.keys = append(w.keys, ent.key)
		}
		w.ver++
		e := tlmetadata.Event{Id: ent.key.id, Name: ent.name, EventType: ent.key.typ, Version: w.ver, UpdateTime: uint32(1000 + w.ver), Data: w.makeData(ent)}
		w.commit(ent, e)
		w.opSrc(e, &upto, what)
	}
	a := &entity{key: key{typ, 1}, name: "a"}
	put(a, "create") // v1: A "a"
	w.opDeliver(1, 1000, 800*1024, inf)
	a.name = "b"
	put(a, "rename") // v2: A -> "b"
	b := &entity{key: key{typ, 2}, name: "a"}
	put(b, "reuse") // v3: B takes "a"
	cut := inf
	if idx%4 == 3 {
		g := &entity{key: key{format.MetricsGroupEvent, 5}, name: "a"}
		put(g, "create") // v4: a group arrives in the same batch as B: regrouping pass with A("a", stale) and B("a")
		cut = 2
	}
	a.data++
	put(a, "edit") // A edited again: the journal now holds B before A
	w.nt("name-reuse")
	w.opDeliver(1, 1000, 800*1024, cut)
	w.opDeliver(1, 1000, 800*1024, inf)
	w.oracleSynced("drain")
	h.Stat("cases.witness", 1)
}

func genLean() {
	var b strings.Builder
	b.WriteString("/- GENERATED by cmd/verif-c20 -mode=gen from /repo's working tree on every run of bin/check C20. Do not edit. -/\n")
	b.WriteString("namespace SH.Gen.C20\n")
	fmt.Fprintf(&b, "def chunkSize : Nat := %d\n", data_model.ChunkSize)
	fmt.Fprintf(&b, "def chunkHeaderSize : Nat := %d\n", data_model.VerifC20ChunkHeaderSize)
	fmt.Fprintf(&b, "def chunkHashSize : Nat := %d\n", data_model.VerifC20ChunkHashSize)
	fmt.Fprintf(&b, "def maxJournalItemsSent : Nat := %d\n", data_model.MaxJournalItemsSent)
	fmt.Fprintf(&b, "def maxJournalBytesSent : Nat := %d\n", data_model.MaxJournalBytesSent)
	fmt.Fprintf(&b, "def metricEvent : Int := %d\n", format.MetricEvent)
	fmt.Fprintf(&b, "def dashboardEvent : Int := %d\n", format.DashboardEvent)
	fmt.Fprintf(&b, "def metricsGroupEvent : Int := %d\n", format.MetricsGroupEvent)
	fmt.Fprintf(&b, "def promConfigEvent : Int := %d\n", format.PromConfigEvent)
	fmt.Fprintf(&b, "def namespaceEvent : Int := %d\n", format.NamespaceEvent)
	fmt.Fprintf(&b, "def builtinGroupIDDefault : Int := %d\n", format.BuiltinGroupIDDefault)
	st := metajournal.VerifC20StorageDump(metajournal.MakeMetricsStorage(nil))
	var gs, ns []string
	for _, g := range st.GroupsByID {
		gs = append(gs, fmt.Sprintf("(%d, %q, %s)", g.ID, g.Name, map[bool]string{true: "true", false: "false"}[g.Disable]))
	}
	for _, g := range st.NsByID {
		ns = append(ns, fmt.Sprintf("(%d, %q)", g.ID, g.Name))
	}
	fmt.Fprintf(&b, "/-- groups present in a fresh MetricsStorage: (id, name, disable), ascending id -/\ndef builtinGroups : List (Int × String × Bool) := [%s]\n", strings.Join(gs, ", "))
	fmt.Fprintf(&b, "/-- namespaces present in a fresh MetricsStorage: (id, name), ascending id -/\ndef builtinNamespaces : List (Int × String) := [%s]\n", strings.Join(ns, ", "))
	fmt.Fprintf(&b, "/-- RemoteConfigMetric: names whose description survives compaction -/\ndef remoteConfigNames : List String := [%q, %q, %q, %q]\n",
		format.StatshouseAgentRemoteConfigMetric, format.StatshouseJournalDump, format.StatshouseAggregatorRemoteConfigMetric, format.StatshouseAPIRemoteConfig)
	fmt.Fprintf(&b, "/-- keepCompactMetricDescription: description marks (two literals of format.go + ToggleDescriptionMark) -/\ndef keepDescMarks : List String := [\"__round_sample_factors\", \"__whales_off\", %q]\n", format.ToggleDescriptionMark)
	fmt.Fprintf(&b, "def percentileKinds : List String := [%q, %q]\n", format.MetricKindValuePercentiles, format.MetricKindMixedPercentiles)
	b.WriteString("end SH.Gen.C20\n")
	fmt.Print(b.String())
}

func main() {
	h := verifx.New()
	if h.Mode == "gen" {
		genLean()
		return
	}
	log.SetOutput(io.Discard) // the real code logs every refused event
	if h.Mode == "witness" {
		h.Cases(func(i int, r *verifx.Rng) { runWitness(h, r, i) })
		h.Done()
		return
	}
	h.Cases(func(i int, r *verifx.Rng) { runCase(h, r, i) })
	h.Done()
}
