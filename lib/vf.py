"""
vf — the verdict/evidence machinery shared by all /verif checks (DESIGN.md §1 "Verdict rules").

A per-property script (checks/Cxx.py) describes *what* to regenerate, build, prove and run; this module
implements, once, how obligations are counted, how the Go harness is built from /repo's working tree
through an overlay, how the Lean driver is run on the same op stream, how the two observation streams are
diffed, and how the result becomes an evidence file plus VIOLATION / KNOWN-FINDING lines.
"""
import hashlib
import json
import os
import re
import subprocess
import sys
import time

VERIF = os.path.dirname(os.path.dirname(os.path.abspath(__file__)))
REPO = os.environ.get("VERIF_REPO", "/repo")
BUILD = os.path.join(VERIF, ".build")
LEAN = os.path.join(VERIF, "lean")
ALLOWED_AXIOMS = {"propext", "Classical.choice", "Quot.sound"}
FORBIDDEN = re.compile(r"\b(sorry|admit|native_decide|bv_decide|implemented_by|unsafe)\b|^\s*axiom\s|maxHeartbeats\s+0\b")

TRUSTED_BASE = [
    "Lean 4.33.0 kernel (thorough tier: re-checked by leanchecker)",
    "axioms: subset of {propext, Classical.choice, Quot.sound}, audited with #print axioms on every run",
    "the reading of the English property as the Lean statements in lean/SH/Props/<id>.lean",
    "the hand-written model lean/SH/Model/*.lean, tied to /repo by the correspondence run of this check",
    "the Go harness under go/<id>/ and its generators (distribution printed in this file)",
]


def go_env():
    e = dict(os.environ)
    e["GOFLAGS"] = "-mod=mod"
    e["GOPROXY"] = "off"
    e.pop("GOSUMDB", None)
    e.pop("GOTOOLCHAIN", None)
    e.setdefault("GOCACHE", os.path.join(os.path.expanduser("~"), ".cache", "go-build"))
    return e


def sh(cmd, cwd=None, env=None, timeout=None, stdin=None):
    """run a command, return (rc, stdout+stderr as text). rc=124 on timeout."""
    try:
        p = subprocess.run(cmd, cwd=cwd, env=env, timeout=timeout, input=stdin,
                           stdout=subprocess.PIPE, stderr=subprocess.STDOUT, text=True, errors="replace")
        return p.returncode, p.stdout
    except subprocess.TimeoutExpired as ex:
        out = ex.stdout.decode("utf8", "replace") if isinstance(ex.stdout, bytes) else (ex.stdout or "")
        return 124, out + "\n[timeout]"


def write_if_changed(path, text):
    os.makedirs(os.path.dirname(path), exist_ok=True)
    try:
        with open(path) as f:
            if f.read() == text:
                return False
    except FileNotFoundError:
        pass
    with open(path, "w") as f:
        f.write(text)
    return True


def strip_lean_comments(src):
    """remove /- -/ (nested) and -- comments and string literals, so that the audit only sees code"""
    out, i, depth, n = [], 0, 0, len(src)
    while i < n:
        if src.startswith("/-", i):
            depth += 1
            i += 2
        elif depth and src.startswith("-/", i):
            depth -= 1
            i += 2
        elif depth:
            i += 1
        elif src.startswith("--", i):
            while i < n and src[i] != "\n":
                i += 1
        elif src[i] == '"':
            i += 1
            while i < n and src[i] != '"':
                i += 2 if src[i] == "\\" else 1
            i += 1
            out.append('""')
        else:
            out.append(src[i])
            i += 1
    return "".join(out)


class Case:
    __slots__ = ("header", "ops", "obs", "viol", "nt", "raw")

    def __init__(self, header):
        self.header = header
        self.ops, self.obs, self.viol, self.nt, self.raw = [], [], [], [], []


def parse_stream(text):
    """split harness / driver output into cases; returns (cases, stats, notes)"""
    cases, stats, notes = [], {}, []
    cur = None
    for line in text.split("\n"):
        if line.startswith("@case"):
            cur = Case(line)
            cases.append(cur)
            continue
        if line.startswith("#stat "):
            p = line.split()
            if len(p) == 3:
                try:
                    stats[p[1]] = stats.get(p[1], 0) + int(p[2])
                except ValueError:
                    pass
            continue
        if line.startswith("# "):
            notes.append(line[2:])
            continue
        if cur is None:
            if line.strip():
                notes.append(line)
            continue
        cur.raw.append(line)
        if line.startswith("> "):
            cur.ops.append(line)
        elif line.startswith("< "):
            cur.obs.append(line)
        elif line.startswith("! "):
            cur.viol.append(line[2:])
        elif line.startswith("@nt"):
            cur.nt.append(line[4:])
    return cases, stats, notes


RESOURCE_EXHAUSTED = re.compile(r"pthread_create failed|failed to create new OS thread|[Rr]esource temporarily unavailable|cannot allocate memory|out of memory")


class Check:
    def __init__(self, pid, argv=None):
        argv = list(sys.argv[1:] if argv is None else argv)
        self.pid = pid
        self.tier = os.environ.get("VERIF_TIER", "quick")
        self.replay = None
        rest = []
        i = 0
        while i < len(argv):
            a = argv[i]
            if a in ("quick", "thorough"):
                self.tier = a
            elif a == "--replay":
                self.replay = argv[i + 1]
                i += 1
            else:
                rest.append(a)
            i += 1
        self.args = rest
        try:
            self.seed = int(os.environ.get("VERIF_SEED", "1"))
        except ValueError:
            self.seed = 1
        self.t0 = time.time()
        self.obligations = []      # {name, kind, ok, detail}
        self.evaluations = 0
        self.nontrivial = set()
        self.nt_tags = {}
        self.samples = []
        self.stats = {}
        self.disagreements = []    # {case, index, go, model, ops}
        self.oracle = []           # {sig, text, case(raw lines), header}
        self.checker_cmds = []
        self.assumptions = []
        self.extra = {}
        self.rule = ""
        self.level = "proof"
        self.broken = []           # free-text reasons the property is no longer shown (tie lost)
        self.traces_validated = 0
        os.makedirs(BUILD, exist_ok=True)
        os.makedirs(os.path.join(VERIF, "evidence", "replay"), exist_ok=True)

    # ------------------------------------------------------------------ sizes
    def n(self, quick, thorough):
        return thorough if self.tier == "thorough" else quick

    # ------------------------------------------------------------------ obligations
    def oblige(self, name, ok, detail="", kind="lean"):
        self.obligations.append({"name": name, "kind": kind, "ok": bool(ok), "detail": detail[-4000:] if detail else ""})
        return ok

    # ------------------------------------------------------------------ Gen
    def gen(self, name, text):
        """(re)write lean/SH/Gen/<name>.lean from facts extracted from /repo on this run"""
        return write_if_changed(os.path.join(LEAN, "SH", "Gen", name + ".lean"), text)

    # ------------------------------------------------------------------ Go
    def overlay_path(self):
        """overlay = go/common/overlay + go/<pid>/overlay mapped onto /repo (adds files, never replaces)"""
        rep = {}
        for base in (os.path.join(VERIF, "go", "common", "overlay"), os.path.join(VERIF, "go", self.pid, "overlay")):
            for root, _, files in os.walk(base):
                for f in files:
                    src = os.path.join(root, f)
                    rel = os.path.relpath(src, base)
                    dst = os.path.join(REPO, rel)
                    if os.path.exists(dst) and os.path.getsize(dst) > 0:
                        raise SystemExit(f"overlay would replace existing repo file {dst}")
                    rep[dst] = src
        path = os.path.join(BUILD, f"overlay-{self.pid}.json")
        write_if_changed(path, json.dumps({"Replace": rep}, indent=1, sort_keys=True))
        return path

    def go_build(self, pkg, name=None, race=False, timeout=1500):
        """build ./cmd/verif-xxx of the statshouse module from /repo's working tree with -tags verif"""
        name = name or pkg.rstrip("/").split("/")[-1]
        out = os.path.join(BUILD, "bin", name)
        os.makedirs(os.path.dirname(out), exist_ok=True)
        if os.path.exists(out):
            os.remove(out)
        cmd = ["go", "build", "-tags", "verif", "-overlay", self.overlay_path(), "-o", out]
        if race:
            cmd.append("-race")
        cmd.append(pkg)
        rc, log = sh(cmd, cwd=REPO, env=go_env(), timeout=timeout)
        # A crash of the go tool itself (thread/memory exhaustion on a loaded machine: a Go runtime trace and no
        # compiler diagnostic `file.go:line:`) says nothing about /repo: retry, with less parallelism.
        for attempt in (1, 2, 3):
            if rc == 0 or re.search(r"\.go:\d+(:\d+)?: ", log) or not re.search(r"fatal error:|goroutine \d+ |signal: killed|cannot allocate|resource temporarily unavailable", log):
                break
            time.sleep(10 * attempt)
            rc, log = sh(cmd[:2] + ["-p", "2"] + cmd[2:], cwd=REPO, env=go_env(), timeout=timeout)
        ok = rc == 0 and os.path.exists(out)
        self.oblige(f"go build -tags verif {pkg} (harness compiles against /repo's working tree)", ok, log, kind="tie")
        if not ok:
            self.broken.append(f"harness {pkg} no longer builds against /repo:\n{log[-3000:]}")
            return None
        return out

    def go_run(self, binary, args=(), timeout=900, env_extra=None, stdin=None):
        env = go_env()
        if env_extra:
            env.update(env_extra)
        argv = [binary, f"-seed={self.seed}", f"-tier={self.tier}"] + list(args)
        rc, out = sh(argv, cwd=BUILD, env=env, timeout=timeout, stdin=stdin)
        # The machine ran out of threads/processes/memory under the harness (seen only with ~20 other jobs running):
        # that is not a statement about /repo. The harness is a deterministic function of seed and tier: run it again.
        for attempt in (1, 2):
            if rc == 0 or not RESOURCE_EXHAUSTED.search(out):
                break
            time.sleep(20 * attempt)
            rc, out = sh(argv, cwd=BUILD, env=env, timeout=timeout, stdin=stdin)
        return rc, out

    # ------------------------------------------------------------------ Lean
    def lake(self, targets, timeout=3000):
        cmd = ["lake", "build"] + list(targets)
        self.checker_cmds.append("cd lean && " + " ".join(cmd))
        rc, log = sh(cmd, cwd=LEAN, timeout=timeout)
        return rc == 0, log

    def prove(self, module, extra_files=()):
        """
        Build the property module, then audit it: every `theorem` declared in it is one obligation, discharged
        iff the module builds and `#print axioms` shows only allowed axioms; the sources it is made of are
        grepped for sorry/admit/axiom/native_decide/… outside comments.
        """
        rel = module.replace(".", "/") + ".lean"
        src_path = os.path.join(LEAN, rel)
        src = open(src_path).read()
        code = strip_lean_comments(src)
        ns = None
        thms = []
        # theorems are addressed by the fully qualified names produced by `namespace` blocks
        stack = []
        for line in code.split("\n"):
            m = re.match(r"\s*namespace\s+(\S+)", line)
            if m:
                stack.append(m.group(1))
                continue
            m = re.match(r"\s*end\s+(\S+)", line)
            if m and stack and stack[-1] == m.group(1):
                stack.pop()
                continue
            m = re.match(r"\s*(?:private\s+|protected\s+)?theorem\s+([^\s:({\[]+)", line)
            if m:
                thms.append(".".join(stack + [m.group(1)]))
        ok, log = self.lake([module])
        if not ok:
            self.oblige(f"lake build {module}", False, log)
            for t in thms:
                self.oblige(f"theorem {t}", False, "module does not build")
            self.broken.append(f"lake build {module} failed:\n{log[-3000:]}")
            return False
        # forbidden tokens in this module and the listed helper files (models, lemmas)
        bad = []
        files = [src_path] + [os.path.join(LEAN, f) for f in extra_files]
        for f in files:
            for k, line in enumerate(strip_lean_comments(open(f).read()).split("\n")):
                if FORBIDDEN.search(line):
                    bad.append(f"{os.path.relpath(f, LEAN)}:{k+1}: {line.strip()}")
        self.oblige(f"no sorry/admit/axiom/native_decide/bv_decide/implemented_by/unsafe in {len(files)} source files", not bad, "\n".join(bad), kind="audit")
        if bad:
            self.broken.append("forbidden construct in Lean sources: " + "; ".join(bad[:5]))
        # axiom audit
        audit = os.path.join(BUILD, f"audit_{self.pid}_{module.split('.')[-1]}.lean")
        with open(audit, "w") as f:
            f.write(f"import {module}\n")
            for t in thms:
                f.write(f"#print axioms {t}\n")
        self.checker_cmds.append(f"cd lean && lake env lean {os.path.relpath(audit, LEAN)}   # #print axioms for {len(thms)} theorems")
        rc, out = sh(["lake", "env", "lean", audit], cwd=LEAN, timeout=1200)
        axioms = {}
        cur = None
        for line in out.split("\n"):
            m = re.match(r"'([^']+)' depends on axioms: \[(.*)", line)
            if m:
                cur = m.group(1)
                axioms[cur] = m.group(2)
                if "]" in line:
                    cur = None
                continue
            m = re.match(r"'([^']+)' does not depend on any axioms", line)
            if m:
                axioms[m.group(1)] = ""
                cur = None
                continue
            if cur is not None:
                axioms[cur] += " " + line
                if "]" in line:
                    cur = None
        for t in thms:
            if t not in axioms:
                self.oblige(f"theorem {t}", False, "not found by #print axioms:\n" + out[-1500:])
                self.broken.append(f"theorem {t} missing in audit")
                continue
            used = {a.strip() for a in axioms[t].replace("]", "").split(",") if a.strip()}
            extra = used - ALLOWED_AXIOMS
            self.oblige(f"theorem {t}", not extra, "axioms: " + ", ".join(sorted(used)))
            if extra:
                self.broken.append(f"theorem {t} depends on non-standard axioms {sorted(extra)}")
        self.extra.setdefault("theorems", []).extend(thms)
        if self.tier == "thorough":
            self.leanchecker(module)
        return True

    def leanchecker(self, module):
        cmd = ["lake", "env", "leanchecker", module]
        self.checker_cmds.append("cd lean && " + " ".join(cmd))
        rc, out = sh(cmd, cwd=LEAN, timeout=3000)
        ok = rc == 0
        self.oblige(f"leanchecker {module} (independent kernel re-check of the compiled .olean)", ok, out, kind="audit")
        if not ok:
            self.broken.append(f"leanchecker {module} failed: {out[-1500:]}")

    def driver(self, exe):
        ok, log = self.lake([exe])
        path = os.path.join(LEAN, ".lake", "build", "bin", exe)
        ok = ok and os.path.exists(path)
        self.oblige(f"lake build {exe} (executable model, core-only)", ok, log, kind="tie")
        if not ok:
            self.broken.append(f"driver {exe} does not build:\n{log[-2000:]}")
            return None
        return path

    # ------------------------------------------------------------------ correspondence
    def correspond(self, go_out, driver_exe, label="", timeout=1800, max_samples=3):
        """
        go_out: harness output (text). The `@case` and `>` lines are piped to the model driver; the `<` lines of
        both are compared case by case. Oracle (`!`) lines are collected. Returns number of disagreements.
        """
        cases, stats, notes = parse_stream(go_out)
        for k, v in stats.items():
            self.stats[k] = self.stats.get(k, 0) + v
        feed = []
        for c in cases:
            feed.append(c.header)
            feed.extend(c.ops)
        rc, drv_out = sh([driver_exe], stdin="\n".join(feed) + "\n", timeout=timeout)
        if rc != 0:
            self.broken.append(f"model driver {os.path.basename(driver_exe)} exited with {rc}: {drv_out[-800:]}")
        dcases, _, _ = parse_stream(drv_out)
        nd = 0
        for idx, c in enumerate(cases):
            self.evaluations += 1
            h = hashlib.sha1("\n".join(c.ops).encode()).hexdigest()
            if c.nt:
                self.nontrivial.add(h)
                for t in c.nt:
                    self.nt_tags[t] = self.nt_tags.get(t, 0) + 1
            if len(self.samples) < max_samples and c.ops and (c.nt or idx < 1):
                self.samples.append({"case": c.header, "ops": [o[2:] for o in c.ops[:12]], "impl_obs": [o[2:] for o in c.obs[:12]],
                                     "n_ops": len(c.ops)})
            for v in c.viol:
                m = re.match(r"sig=(\S+)\s*(.*)", v)
                self.oracle.append({"sig": m.group(1) if m else "unknown", "text": m.group(2) if m else v,
                                    "header": c.header, "lines": c.raw, "label": label})
            d = dcases[idx] if idx < len(dcases) else None
            mobs = d.obs if d is not None else []
            if mobs != c.obs:
                nd += 1
                k = 0
                while k < len(mobs) and k < len(c.obs) and mobs[k] == c.obs[k]:
                    k += 1
                self.disagreements.append({"case": c.header, "index": k, "label": label,
                                           "impl": c.obs[k] if k < len(c.obs) else "<nothing>",
                                           "model": mobs[k] if k < len(mobs) else "<nothing>",
                                           "lines": c.raw})
        self.traces_validated += len(cases)
        return nd

    def collect(self, go_out, label="", max_samples=3):
        """oracle-only harness output (no model driver): counts cases, collects `!` lines and stats"""
        cases, stats, notes = parse_stream(go_out)
        for k, v in stats.items():
            self.stats[k] = self.stats.get(k, 0) + v
        for idx, c in enumerate(cases):
            self.evaluations += 1
            h = hashlib.sha1("\n".join(c.raw).encode()).hexdigest()
            if c.nt:
                self.nontrivial.add(h)
                for t in c.nt:
                    self.nt_tags[t] = self.nt_tags.get(t, 0) + 1
            if len(self.samples) < max_samples and c.raw and (c.nt or idx < 1):
                self.samples.append({"case": c.header, "lines": c.raw[:12]})
            for v in c.viol:
                m = re.match(r"sig=(\S+)\s*(.*)", v)
                self.oracle.append({"sig": m.group(1) if m else "unknown", "text": m.group(2) if m else v,
                                    "header": c.header, "lines": c.raw, "label": label})
        return len(cases)

    def harness_ok(self, rc, out, what):
        """a harness that crashes (panic, fatal, timeout) is reported; returns True if it ended normally"""
        if rc == 0:
            return True
        tail = out[-2500:]
        self.broken.append(f"{what} exited with status {rc}:\n{tail}")
        self.oblige(f"{what} ran to completion", False, tail, kind="tie")
        return False

    # ------------------------------------------------------------------ findings
    def known_findings(self):
        known, fixed = [], []
        try:
            for line in open(os.path.join(VERIF, "known_findings.txt")):
                line = line.strip()
                if not line or line.startswith("#"):
                    continue
                m = re.match(r"known:\s+property=(\S+)\s+sig=(\S+)\s*(.*)", line)
                if m and m.group(1) == self.pid:
                    known.append((m.group(2), m.group(3)))
        except FileNotFoundError:
            pass
        return known

    def write_replay(self, kind, payload):
        d = os.path.join(VERIF, "evidence", "replay")
        k = len([f for f in os.listdir(d) if f.startswith(self.pid + "-")])
        path = os.path.join(d, f"{self.pid}-{self.seed}-{k}.json")
        payload = dict(payload)
        payload.update({"property": self.pid, "kind": kind, "seed": self.seed, "tier": self.tier})
        with open(path, "w") as f:
            json.dump(payload, f, indent=1)
        return path

    # ------------------------------------------------------------------ verdict
    def finish(self, search=None):
        """
        Verdict rules 3–5 of DESIGN §1. `search` (optional callable) is the widened failing-input search (D):
        called only when an obligation or the correspondence broke and the oracle has not already produced a
        concrete failing input; it may call self.collect/self.correspond again and add to self.oracle.
        """
        failed_obl = [o for o in self.obligations if not o["ok"]]
        tie_broken = bool(failed_obl or self.disagreements or self.broken)
        if tie_broken and not self.oracle and search is not None:
            try:
                search()
            except Exception as ex:  # the search must never mask the verdict
                self.broken.append(f"failing-input search crashed: {ex!r}")
        known = self.known_findings()
        exit_code = 0
        lines = []
        seen_known, seen_new = set(), set()
        for o in self.oracle:
            hit = [k for k in known if k[0] == o["sig"]]
            if hit:
                if o["sig"] not in seen_known:
                    seen_known.add(o["sig"])
                    lines.append(f"KNOWN-FINDING: property={self.pid} sig={o['sig']} {hit[0][1] or o['text']}")
                continue
            if o["sig"] in seen_new:
                continue
            seen_new.add(o["sig"])
            path = self.write_replay("input", {"sig": o["sig"], "what": o["text"], "case": o["header"], "ops": o["lines"],
                                               "replay_cmd": f"bin/check {self.pid} --replay <this file>", "label": o["label"]})
            lines.append(f"VIOLATION property={self.pid} replay={path}")
            exit_code = 1
        if tie_broken and not seen_new:
            # the property is no longer *shown* to hold and no concrete failing input was found
            # (a known finding does not explain a broken proof/correspondence: it is reported separately above)
            payload = {"failed_obligations": failed_obl[:20], "broken": self.broken[:10],
                       "disagreements": [{k: d[k] for k in ("case", "index", "impl", "model", "label")} for d in self.disagreements[:10]],
                       "first_disagreeing_case": self.disagreements[0]["lines"] if self.disagreements else None,
                       "note": "no concrete failing input found by the direct oracle; the named theorem / correspondence no longer checks"}
            path = self.write_replay("theorem" if failed_obl and not self.disagreements else "correspondence", payload)
            lines.append(f"VIOLATION property={self.pid} replay={path} no-failing-input-found")
            exit_code = 1
        self.write_evidence(exit_code, len(seen_new) + (1 if tie_broken and not seen_new else 0))
        for l in lines:
            print(l)
        if exit_code == 0:
            print(f"OK property={self.pid} tier={self.tier} seed={self.seed} obligations={len(self.obligations)} "
                  f"cases={self.evaluations} nontrivial={len(self.nontrivial)} wall={time.time()-self.t0:.1f}s")
        sys.stdout.flush()
        return exit_code

    def write_evidence(self, exit_code, nviol):
        lean_obl = [o for o in self.obligations]
        cov = {
            "obligations": len(lean_obl),
            "discharged": sum(1 for o in lean_obl if o["ok"]),
            "checker_cmd": " ; ".join(dict.fromkeys(self.checker_cmds)) or "none run",
            "trusted_base": TRUSTED_BASE + self.extra.pop("trusted_base", []),
            "obligation_list": [{"name": o["name"], "kind": o["kind"], "ok": o["ok"]} for o in lean_obl],
            "evaluations": self.evaluations,
            "distinct_nontrivial": len(self.nontrivial),
            "rule": self.rule,
            "nontrivial_tags": self.nt_tags,
            "samples": self.samples,
            "traces_validated_against_impl": self.traces_validated,
            "disagreements_checked": len(self.disagreements),
            "oracle_violations": len(self.oracle),
            "input_distribution": self.stats,
        }
        cov.update(self.extra)
        ev = {
            "property_id": self.pid, "tier": self.tier, "seed": self.seed, "level": self.level,
            "coverage": cov, "assumptions": self.assumptions, "wall_s": round(time.time() - self.t0, 2),
            "violations": nviol,
        }
        # evidence/ only ever describes runs against /repo itself; runs against another tree (VERIF_REPO: fix worktrees,
        # seeded changes) write their evidence under .build/ so that the committed files are never clobbered
        if os.path.realpath(REPO) == "/repo":
            path = os.path.join(VERIF, "evidence", f"{self.pid}.json")
        else:
            os.makedirs(os.path.join(BUILD, "evidence-other-tree"), exist_ok=True)
            path = os.path.join(BUILD, "evidence-other-tree", f"{self.pid}.json")
        with open(path, "w") as f:
            json.dump(ev, f, indent=1)
        return path


def generic_replay(c, mod):
    """re-run exactly one recorded case against the current tree and print both observation streams"""
    rp = json.load(open(c.replay))
    print(json.dumps({k: rp[k] for k in rp if k not in ("ops", "first_disagreeing_case")}, indent=1))
    hdr = rp.get("case") or (rp.get("disagreements") or [{}])[0].get("case")
    if not hdr or not hasattr(mod, "HARNESS"):
        print("nothing to re-run (replay names a theorem/correspondence, see the fields above)")
        return 0
    _, idx, seed = hdr.split()[:3]
    c.seed = int(seed)
    binary = c.go_build(mod.HARNESS)
    drv = c.driver(mod.DRIVER) if getattr(mod, "DRIVER", None) else None
    if not binary:
        print("\n".join(c.broken))
        return 1
    args = list(getattr(mod, "REPLAY_ARGS", [])) + [f"-only={idx}", f"-n={int(idx)+1}"]
    if rp.get("label"):
        args.append(f"-mode={rp['label']}")
    rc, out = c.go_run(binary, args)
    print("---- implementation (current /repo tree)")
    print(out)
    if drv:
        cases, _, _ = parse_stream(out)
        feed = []
        for cs in cases:
            feed.append(cs.header)
            feed.extend(cs.ops)
        rc2, dout = sh([drv], stdin="\n".join(feed) + "\n")
        print("---- model")
        print(dout)
    return 1 if "\n! " in "\n" + out else 0
