import Driver.Common
import SH.Model.Access

/-! drv_c30 — replays the op stream of go/C30 (verif-c30) on SH.Model.Access. Protocol: see the harness header. -/

open SH SH.Access

structure St where
  cfg : Cfg
  ai : Option AI

def parseX? (s : String) : Option Str :=
  if s.startsWith "x" then
    (if s.length = 1 then some [] else parseHex? (s.drop 1).toString)
  else none

def parseXL? (s : String) : Option (List Str) :=
  if s = "-" then some [] else (s.splitOn ",").mapM parseX?

def parseHV? (s : String) : Option HV :=
  if s = "A" then some .absent
  else if s = "O" then some .other
  else if s.startsWith "S" then
    (if s.length = 1 then some (.str []) else (parseHex? (s.drop 1).toString).map .str)
  else none

def parseOptInt? (s : String) : Option (Option Int) :=
  if s = "-" then some none else s.toInt?.map some

/-- `x<id>:x<key>` -/
def parsePair? (s : String) : Option (Str × Key) :=
  match s.splitOn ":" with
  | [a, b] => do
    let a ← parseX? a
    let b ← parseX? b
    pure (a, b)
  | _ => none

def parsePairs? (s : String) : Option (List (Str × Key)) :=
  if s = "-" then some [] else (s.splitOn ",").mapM parsePair?

def fpOf (pairs : List (Str × Key)) (k : Key) : Str :=
  match pairs.find? (fun e => e.2 == k) with
  | some e => e.1
  | none => []

def parseBool? (s : String) : Option Bool :=
  if s = "0" then some false else if s = "1" then some true else none

def parseBits? (s : String) : Option (List Bool) :=
  if s = "-" then some [] else
  s.toList.mapM (fun c => if c = '0' then some false else if c = '1' then some true else none)

def showX (s : Str) : String := "x" ++ (if s.isEmpty then "" else showHex s)

def dedupSorted : List String → List String
  | a :: b :: r => if a = b then dedupSorted (b :: r) else a :: dedupSorted (b :: r)
  | l => l

def showSet (l : List Str) : String :=
  showList (dedupSorted ((l.map showX).toArray.qsort (· < ·)).toList)

def b2s (b : Bool) : String := if b then "1" else "0"

def showAI (a : AI) : String :=
  s!"ok user={showX a.user} svc={b2s a.service} admin={b2s a.admin} dev={b2s a.developer} vd={b2s a.viewDefault} ed={b2s a.editDefault} vp={showSet a.viewPrefix} ep={showSet a.editPrefix} vm={showSet a.viewMetric} em={showSet a.editMetric}"

def showRes : Res → String
  | .ok a => showAI a
  | .err m => s!"err {m}"
  | .panic => "panic"

def showEdit : EditRes → String
  | .ok => "ok" | .forbidden => "forbidden" | .weight => "weight" | .presort => "presort"
  | .presortOnly => "presortonly" | .skips => "skips" | .strategy => "strategy" | .shard => "shard" | .raw => "raw"

def parseToken? : List String → Option Token
  | [alg, kind, kid, sig, iss, user, exp, iat, nbf, svc, bits] => do
    let alg ← parseHV? alg
    let kind ← parseHV? kind
    let kid ← parseHV? kid
    let sig ← parseXL? sig
    let iss ← parseX? iss
    let user ← parseX? user
    let exp ← parseOptInt? exp
    let iat ← parseOptInt? iat
    let nbf ← parseOptInt? nbf
    let svc ← parseBool? svc
    let bits ← parseXL? bits
    pure { alg, kind, kid, sigValid := sig, iss, user, exp, iat, nbf, service := svc, bits }
  | _ => none

def parseSkips? (s : String) : Option (Bool × Bool × Bool) :=
  match s.toList with
  | [a, b, c] => do
    let a ← parseBool? a.toString
    let b ← parseBool? b.toString
    let c ← parseBool? c.toString
    pure (a, b, c)
  | _ => none

def parseMeta? : List String → Option Meta
  | [name, w, pre, only, sk, strat, num, fk, fk2, ts, raws] => do
    let name ← parseX? name
    let w ← w.toInt?
    let pre ← pre.toNat?
    let only ← parseBool? only
    let sk ← parseSkips? sk
    let strat ← parseX? strat
    let num ← num.toNat?
    let fk ← fk.toNat?
    let fk2 ← fk2.toNat?
    let ts ← ts.toNat?
    let raws ← parseBits? raws
    pure { name, weightQ := w, preKeyFrom := pre, preKeyOnly := only, skipMaxHost := sk.1, skipMinHost := sk.2.1,
           skipSumSquare := sk.2.2, strategy := strat, shardNum := num, fixedKey := fk, fixedKey2 := fk2,
           fixedKey2Ts := ts, rawTags := raws }
  | _ => none

def doParse (st : St) (now : Int) (inp : Input) : St × List String :=
  let r := parseAccessToken st.cfg now inp
  let ai := match r with
    | .ok a => some a
    | _ => none
  ({ st with ai := ai }, [showRes r])

def step (st : St) (toks : List String) : St × List String :=
  match toks with
  -- cfg <app> <listed keys as fingerprint:key, in configuration order> <entries put into the map directly> <prot> <local> <insecure>
  | ["cfg", app, listed, extra, prot, lm, ins] =>
    match parseX? app, parsePairs? listed, parsePairs? extra, parseXL? prot, parseBool? lm, parseBool? ins with
    | some app, some listed, some extra, some prot, some lm, some ins =>
      -- ParseVkuthKeys on the listed keys (fingerprints are inputs), then `m[id] = k` for the extra entries
      let table := extra.foldl (fun m e => tableSet m e.1 e.2) (parseKeys (fpOf listed) (listed.map (·.2)))
      let dump := (table.map (fun e => showX e.1 ++ ":" ++ showX e.2)).toArray.qsort (· < ·) |>.toList
      ({ cfg := { app, keys := table, prot, localMode := lm, insecure := ins }, ai := none }, ["keys " ++ showList dump])
    | _, _, _, _, _, _ => (st, ["bad-op"])
  | ["tok", now, "empty"] => match now.toInt? with
    | some now => doParse st now .empty
    | none => (st, ["bad-op"])
  | ["tok", now, "malformed"] => match now.toInt? with
    | some now => doParse st now .malformed
    | none => (st, ["bad-op"])
  | "tok" :: now :: "t" :: rest => match now.toInt?, parseToken? rest with
    | some now, some t => doParse st now (.tok t)
    | _, _ => (st, ["bad-op"])
  | ["view", name] => match st.ai, parseX? name with
    | some ai, some name => (st, [s!"view {b2s (canViewName ai name)}"])
    | _, _ => (st, ["bad-op"])
  | ["chg", create, o, n] => match st.ai, parseBool? create, parseX? o, parseX? n with
    | some ai, some create, some o, some n => (st, [s!"chg {b2s (canChange ai create o n)}"])
    | _, _, _, _ => (st, ["bad-op"])
  | "edit" :: create :: rest =>
    if rest.length = 22 then
      match st.ai, parseBool? create, parseMeta? (rest.take 11), parseMeta? (rest.drop 11) with
      | some ai, some create, some o, some n => (st, [s!"edit {showEdit (canEdit ai create o n)}"])
      | _, _, _, _ => (st, ["bad-op"])
    else (st, ["bad-op"])
  | _ => (st, ["bad-op"])

def main : IO Unit :=
  Driver.run { init := { cfg := { app := [], keys := [], prot := [], localMode := false, insecure := false }, ai := none },
               step := step }
