import Driver.Common
import SH.Model.RRQueue
import SH.Model.Semaphore

open SH

structure St where
  q : RRQueue.Q
  s : Sem.S

def sortNat (l : List Nat) : List Nat := (l.toArray.qsort (· < ·)).toList

def qObs (s : RRQueue.Q) (gs : List Nat) : String :=
  s!"q active={s.active} cap={s.cap} waiting={RRQueue.waitingCount s} grants={showList (sortNat gs)}"

def sObs (s : Sem.S) (gs fs : List Nat) : String :=
  s!"s cur={s.cur} size={s.size} waiting={s.waiters.length} granted={showList (sortNat gs)} failed={showList (sortNat fs)}"

def qStep (st : St) (op : RRQueue.Op) : St × List String :=
  let (q', gs) := RRQueue.step .loop st.q op
  ({ st with q := q' }, [qObs q' gs])

def sStep (st : St) (op : Sem.Op) : St × List String :=
  let (s', gs, fs) := Sem.step st.s op
  ({ st with s := s' }, [sObs s' gs fs])

def step (st : St) (toks : List String) : St × List String :=
  match toks with
  | ["q", "new", c] => match c.toInt? with
    | some c => ({ st with q := RRQueue.init c }, [])
    | none => (st, ["bad-op"])
  | ["q", "acq", t, q] => match t.toNat?, q.toNat? with
    | some t, some q => qStep st (.acquire t q)
    | _, _ => (st, ["bad-op"])
  | ["q", "cancel", q] => match q.toNat? with
    | some q => qStep st (.cancel q)
    | none => (st, ["bad-op"])
  | ["q", "rel"] => qStep st .release
  | ["q", "relcancel", q] => match q.toNat? with
    -- Release whose critical section races with the cancellation of parked query q: the model runs the two
    -- critical sections in the only order the real mutex allows (release first), one observation
    | some q =>
      let (q1, gs) := RRQueue.step .loop st.q .release
      let (q2, _) := RRQueue.step .loop q1 (.cancel q)
      ({ st with q := q2 }, [qObs q2 gs])
    | none => (st, ["bad-op"])
  | ["q", "adj", c] => match c.toInt? with
    | some c => qStep st (.adjust c)
    | none => (st, ["bad-op"])
  | ["s", "new", c] => match c.toInt? with
    | some c => ({ st with s := Sem.init c }, [])
    | none => (st, ["bad-op"])
  | ["s", "acq", i, n] => match i.toNat?, n.toInt? with
    | some i, some n => sStep st (.acquire i n)
    | _, _ => (st, ["bad-op"])
  | ["s", "try", i, n] => match i.toNat?, n.toInt? with
    | some i, some n => sStep st (.tryAcquire i n)
    | _, _ => (st, ["bad-op"])
  | ["s", "cancel", i] => match i.toNat? with
    | some i => sStep st (.cancel i)
    | none => (st, ["bad-op"])
  | ["s", "rel", n] => match n.toInt? with
    | some n => sStep st (.release n)
    | none => (st, ["bad-op"])
  | ["s", "relcancel", n, i] => match n.toInt?, i.toNat? with
    | some n, some i =>
      let (s1, g1, f1) := Sem.step st.s (.release n)
      let (s2, g2, f2) := Sem.step s1 (.cancel i)
      ({ st with s := s2 }, [sObs s2 (g1 ++ g2) (f1 ++ f2)])
    | _, _ => (st, ["bad-op"])
  | ["s", "size", n] => match n.toInt? with
    | some n => sStep st (.setSize n)
    | none => (st, ["bad-op"])
  | ["s", "force", n] => match n.toInt? with
    | some n => sStep st (.force n)
    | none => (st, ["bad-op"])
  | _ => (st, ["bad-op"])

def main : IO Unit :=
  Driver.run { init := { q := RRQueue.init 0, s := Sem.init 0 }, step := step }
