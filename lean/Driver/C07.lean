/-
  drv_c07 — replays the op stream of go/C07 (verif-c07) on SH.Model.StringTop.

  > w <api s|b> <cap> <key> <count> <u> r=<round>/<round>/… <event…>
        key   = <hex of S | ->.<I>
        round = - | <key>.<rv>,<key>.<rv>,…        (draw of every key not listed is 0)
        event = c <count> | v <value> <count> | vs <count> <v,v,…> | m <cnt> <sum> <min> <max> <0|1>
        counts and values are integers in units of 1/16, sums (field 2 of an aggregate) in units of 1/256; rv is a plain integer
  > ord <key>,<key>,…     another enumeration of the map (witness for map order / unstable sort ties)
  > fin <cap>
-/
import Driver.Common
import SH.Model.StringTop

open SH SH.StringTop

def bytesLt : List UInt8 → List UInt8 → Bool
  | [], [] => false
  | [], _ :: _ => true
  | _ :: _, [] => false
  | a :: as, b :: bs => if a < b then true else if b < a then false else bytesLt as bs

def keyLt (a b : Key) : Bool := a.i < b.i || (a.i == b.i && bytesLt a.s b.s)

def showKey (k : Key) : String := s!"{showHex k.s}.{k.i}"

def showAgg (a : Agg) : String := s!"{a.cnt}:{a.sum}:{a.vmin}:{a.vmax}:{if a.set then 1 else 0}"

def sortKeys (l : List Key) : List Key := (l.toArray.qsort keyLt).toList

def sortEntries (l : List Entry) : List Entry := (l.toArray.qsort (fun a b => keyLt a.1 b.1)).toList

def showKeys (l : List Key) : String := showList ((sortKeys l).map showKey)

def showTop (l : List Entry) : String := showList ((sortEntries l).map (fun kv => s!"{showKey kv.1}={showAgg kv.2}"))

def parseKey? (s : String) : Option Key :=
  match s.splitOn "." with
  | [h, i] => do
    let b ← parseHex? h
    let n ← i.toInt?
    pure { s := b, i := n }
  | _ => none

def parseDraw? (s : String) : Option (Key × Nat) :=
  match s.splitOn "." with
  | [h, i, rv] => do
    let b ← parseHex? h
    let n ← i.toInt?
    let d ← rv.toNat?
    pure ({ s := b, i := n }, d)
  | _ => none

def drawFn (l : List (Key × Nat)) (k : Key) : Nat :=
  match l.find? (fun p => p.1 = k) with
  | some p => p.2
  | none => 0

def parseRound? (s : String) : Option (Key → Nat) := do
  let l ← (parseList s).mapM parseDraw?
  pure (drawFn l)

def parseRounds? (s : String) : Option (List (Key → Nat)) :=
  if !s.startsWith "r=" then none else
  let body := (s.drop 2).toString
  if body = "" then some [] else (body.splitOn "/").mapM parseRound?

def parseEvent? : List String → Option Event
  | ["c", c] => do pure (.counter (← c.toInt?))
  | ["v", v, c] => do pure (.value (← v.toInt?) (← c.toInt?))
  | ["vs", c, vs] => do pure (.values (← parseIntList? vs) (← c.toInt?))
  | ["m", c, s, mn, mx, st] => do
    let b ← (if st = "1" then some true else if st = "0" then some false else none)
    pure (.merge { cnt := ← c.toInt?, sum := ← s.toInt?, vmin := ← mn.toInt?, vmax := ← mx.toInt?, set := b })
  | _ => none

def slotVal (r : Row) : Slot → Agg
  | .tail => r.tail
  | .top k => (getKey k r.top).getD Agg.zero

def showSlot : Slot → String
  | .tail => "tail"
  | .top k => showKey k

def doWrite (st : Row) (w : Write) : Row × List String :=
  match mapTop w.cap w.key w.count w.u w.draws st with
  | none => (st, ["w hang"])
  | some (r', slot) =>
    let r := applyAt w.ev.apply r' slot
    let gone := (st.top.map (·.1)).filter (fun k => !hasKey k r.top)
    (r, [s!"w slot={showSlot slot} val={showAgg (slotVal r slot)} tail={showAgg r.tail} n={r.top.length} sf={r.sfLog2} ev={showKeys gone}"])

def doOrd (st : Row) (ks : List Key) : Row × List String :=
  let l := ks.filterMap (fun k => (getKey k st.top).map (fun a => (k, a)))
  let ok := l.isPerm st.top && l.length == ks.length
  let r := if ok then reorder l st else st
  (r, [s!"ord ok={if ok then 1 else 0} n={r.top.length}"])

def doFin (st : Row) (cap : Int) : Row × List String :=
  let r := finish cap st
  (r, [s!"fin whale={whale st} tail={showAgg r.tail} n={r.top.length} top={showTop r.top}"])

def step (st : Row) (toks : List String) : Row × List String :=
  match toks with
  | "w" :: api :: cap :: key :: count :: u :: rounds :: ev =>
    if api ≠ "s" ∧ api ≠ "b" then (st, ["bad-op"]) else
    match cap.toInt?, parseKey? key, count.toInt?, u.toNat?, parseRounds? rounds, parseEvent? ev with
    | some cap, some key, some count, some u, some ds, some ev =>
      doWrite st { cap := cap, key := key, count := count, u := u, draws := ds, ev := ev }
    | _, _, _, _, _, _ => (st, ["bad-op"])
  | ["ord", ks] =>
    match (parseList ks).mapM parseKey? with
    | some ks => doOrd st ks
    | none => (st, ["bad-op"])
  | ["fin", cap] =>
    match cap.toInt? with
    | some cap => doFin st cap
    | none => (st, ["bad-op"])
  | _ => (st, ["bad-op"])

def main : IO Unit := Driver.run { init := Row.empty, step := step }
