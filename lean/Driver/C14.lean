/-
  Driver.C14 — replays the ops of go/C14 on the generic TL1 codec (SH.Model.TL) instantiated with the schema
  descriptors regenerated from /repo's .tl files (SH.Gen.C14), and on the frame model.

    dec <schema/name> bare|boxed <hex>      → ok rest=<n> re=<hex of re-encoding> | err
    decb <schema/name> bare|boxed <hex>     → as dec; the Go observation comes from the []byte variant of the type
    decn <schema/name> bare|boxed <hex>     → ok rest=<n> | err   (inputs the Go reader canonicalises through a map:
                                              unsorted / duplicate dictionary keys; the model keeps the vector)
    res <schema/name> <hex request, bare> <hex result>   → the same, for the function's result type
    tl2 <schema/name> <hex>                 → ok rest=<n> re=<hex of TL2 re-encoding> | err   (SH.Model.TL2 on the same descriptor)
    tl2n <schema/name> <hex>                → ok rest=<n> | err   (mutants a Go map canonicalises: verdict and length only)
    tl2b <schema/name> <hex>                → as tl2; the Go observation comes from the []byte variant
    tl2x <schema/name> <hex TL2> <hex TL1>  → same | differ | err   (both encodings decode to the same model value)
    tl2size <n> <hex tail>                  → <hex TL2WriteSize n> calc=<k> parse=<ok n rest=k | err>
    tl2parse <hex>                          → ok <n> rest=<k> | err
    tl2str <len> <fill byte> <hex tail>     → head=<first 12 bytes> total=<n> read=<ok len=… rest=… same=… | err>
    frame <hex x> <hex lz4(x)>              → frame <hex>
    unframe <hex frame> na|err|ok:<hex>     → ok <hex> | err       (3rd token: what lz4.UncompressBlock did, if it was called)
-/
import Driver.Common
import SH.Model.TL
import SH.Model.TL2
import SH.Gen.C14

open SH SH.TL

def lookup (key : String) : Option (Nat × Bool × Desc) :=
  match SH.Gen.C14.table.find? (fun e => e.1 == key) with
  | some (_, tag, isU, d) => some (tag, isU, d)
  | none => none

def lookupResult (key : String) : Option Desc :=
  match SH.Gen.C14.results.find? (fun e => e.1 == key) with
  | some (_, d) => some d
  | none => none

def decObs (d : Desc) (env : Env) (b : Bytes) : String :=
  match dec d env b with
  | none => "err"
  | some (v, rest) => s!"ok rest={rest.length} re={showHex (enc d env v)}"

def decnObs (d : Desc) (env : Env) (b : Bytes) : String :=
  match dec d env b with
  | none => "err"
  | some (_, rest) => s!"ok rest={rest.length}"

def formOf (tag : Nat) (isU : Bool) (d : Desc) (form : String) : Option Desc :=
  if form == "bare" then some d
  else if form == "boxed" then some (if isU then d else .boxed tag d)
  else none

def resObs (d rd : Desc) (req res : Bytes) : String :=
  match d with
  | .struct _ fs =>
    match dec d [] req with
    | some (.recd vs, _) => decObs rd (envAfter fs [] vs) res
    | _ => "bad-op request-does-not-decode"
  | _ => "bad-op not-a-constructor"

def unframeObs (f : Bytes) (unlz : String) : String :=
  -- the library call is a parameter: `na` means the harness saw no reason for it to be called
  let called : Bool := match deFrame f with
    | none => false
    | some (size, data) => !(size = data.length) && !(tooBig SH.Gen.C14.maxUncompressedBucketSize size)
  let r : Option (Option Bytes) :=
    if unlz == "na" then (if called then none else some none)
    else if unlz == "err" then some none
    else if unlz.startsWith "ok:" then (parseHex? (unlz.drop 3).toString).map some
    else none
  match r with
  | none => "bad-op unlz"
  | some u =>
    match unframe SH.Gen.C14.maxUncompressedBucketSize (fun _ _ => u) f with
    | none => "err"
    | some out => s!"ok {showHex out}"

def parseObs (b : Bytes) : String :=
  match tl2ParseSize b with
  | none => "err"
  | some (n, rest) => s!"ok {n} rest={rest.length}"

def tl2sizeObs (n : Nat) (tail : Bytes) : String :=
  let w := tl2WriteSize n
  s!"{showHex w} calc={tl2CalculateSize n} parse={parseObs (w ++ tail)}"

def tl2strObs (len fill : Nat) (tail : Bytes) : String :=
  let b : Bytes := List.replicate len (UInt8.ofNat fill)
  let w := tl2WriteStr b
  let rd := match tl2ReadStr (w ++ tail) with
    | none => "err"
    | some (b', rest) => s!"ok len={b'.length} rest={rest.length} same={b' == b}"
  s!"head={showHex (w.take 12)} total={w.length} read={rd}"

def tl2Obs (d : Desc) (b : Bytes) : String :=
  if !tl2Supported d then "bad-op tl2-unsupported-descriptor" else
  match decE d b with
  | none => "err"
  | some (v, rest) => s!"ok rest={rest.length} re={showHex (encE d v)}"

def tl2xObs (d : Desc) (t2 t1 : Bytes) : String :=
  if !tl2Supported d then "bad-op tl2-unsupported-descriptor" else
  match decE d t2, dec d [] t1 with
  | some (v2, _), some (v1, _) => if v1 == v2 then "same" else "differ"
  | _, _ => "err"

def step (_ : Unit) (toks : List String) : Unit × List String :=
  match toks with
  | ["dec", key, form, hex] =>
    match lookup key, parseHex? hex with
    | some (tag, isU, d), some b =>
      match formOf tag isU d form with
      | some d' => ((), [decObs d' [] b])
      | none => ((), ["bad-op"])
    | _, _ => ((), ["bad-op"])
  | ["decb", key, form, hex] =>
    -- the []byte variant of the generated type: same descriptor, same codec (there is only one in the model)
    match lookup key, parseHex? hex with
    | some (tag, isU, d), some b =>
      match formOf tag isU d form with
      | some d' => ((), [decObs d' [] b])
      | none => ((), ["bad-op"])
    | _, _ => ((), ["bad-op"])
  | ["decn", key, form, hex] =>
    match lookup key, parseHex? hex with
    | some (tag, isU, d), some b =>
      match formOf tag isU d form with
      | some d' => ((), [decnObs d' [] b])
      | none => ((), ["bad-op"])
    | _, _ => ((), ["bad-op"])
  | ["res", key, hreq, hres] =>
    match lookup key, lookupResult key, parseHex? hreq, parseHex? hres with
    | some (_, _, d), some rd, some req, some res => ((), [resObs d rd req res])
    | _, _, _, _ => ((), ["bad-op"])
  | ["tl2", key, hex] =>
    match lookup key, parseHex? hex with
    | some (_, _, d), some b => ((), [tl2Obs d b])
    | _, _ => ((), ["bad-op"])
  | ["tl2n", key, hex] =>
    match lookup key, parseHex? hex with
    | some (_, _, d), some b =>
      if !tl2Supported d then ((), ["bad-op tl2-unsupported-descriptor"]) else
      match decE d b with
      | none => ((), ["err"])
      | some (_, rest) => ((), [s!"ok rest={rest.length}"])
    | _, _ => ((), ["bad-op"])
  | ["tl2b", key, hex] =>
    match lookup key, parseHex? hex with
    | some (_, _, d), some b => ((), [tl2Obs d b])
    | _, _ => ((), ["bad-op"])
  | ["tl2x", key, h2, h1] =>
    match lookup key, parseHex? h2, parseHex? h1 with
    | some (_, _, d), some t2, some t1 => ((), [tl2xObs d t2 t1])
    | _, _, _ => ((), ["bad-op"])
  | ["tl2size", n, ht] =>
    match n.toNat?, parseHex? ht with
    | some n, some t => ((), [tl2sizeObs n t])
    | _, _ => ((), ["bad-op"])
  | ["tl2parse", hb] =>
    match parseHex? hb with
    | some b => ((), [parseObs b])
    | none => ((), ["bad-op"])
  | ["tl2str", l, f, ht] =>
    match l.toNat?, f.toNat?, parseHex? ht with
    | some l, some f, some t => if f < 256 then ((), [tl2strObs l f t]) else ((), ["bad-op"])
    | _, _, _ => ((), ["bad-op"])
  | ["frame", hx, hlz] =>
    match parseHex? hx, parseHex? hlz with
    | some x, some lz => ((), [s!"frame {showHex (frameOf lz x)}"])
    | _, _ => ((), ["bad-op"])
  | ["unframe", hf, unlz] =>
    match parseHex? hf with
    | some f => ((), [unframeObs f unlz])
    | none => ((), ["bad-op"])
  | _ => ((), ["bad-op"])

def main : IO Unit := Driver.run { init := (), step := step }
