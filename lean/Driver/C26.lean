import Driver.Common
import SH.Model.Sql

open SH SH.Sql

structure St where
  cfg : Option Cfg := none
  fin : Filters := []
  fnotin : Filters := []
  reTab : List (Bytes × Bytes × Bool) := []
  qx : Option QCfg := none
  mapTab : List (Bytes × Int) := []

def parseBool? (s : String) : Option Bool :=
  if s = "0" then some false else if s = "1" then some true else none

def parsePair? (s : String) : Option (Int × Int) :=
  match s.splitOn ":" with
  | [a, b] => match a.toInt?, b.toInt? with
    | some a, some b => some (a, b)
    | _, _ => none
  | _ => none

def parseValue? (s : String) : Option TagValue :=
  match s.splitOn ":" with
  | [f, m, h] => match f.toNat?, m.toInt?, parseHex? h with
    | some f, some m, some h =>
      if f < 4 then some { hasValue := f % 2 == 1, isMapped := f / 2 == 1, value := h, mapped := m } else none
    | _, _, _ => none
  | _ => none

def parseTagRow? (s : String) : Option (Nat × TagRow) :=
  match s.splitOn ":" with
  | [x, n, h] => match x.toNat?, n.toInt?, parseHex? h with
    | some x, some n, some h => some (x, { n := n, s := h })
    | _, _, _ => none
  | _ => none

def reLookup (tab : List (Bytes × Bytes × Bool)) (p s : Bytes) : Bool :=
  match tab.find? (fun e => e.1 == p && e.2.1 == s) with
  | some e => e.2.2
  | none => false

def parseComment? (s : String) : Option (Bytes × Bytes) :=
  match s.splitOn ":" with
  | [k, c] => match parseHex? k, parseHex? c with
    | some k, some c => some (k, c)
    | _, _ => none
  | _ => none

def mapLookup (tab : List (Bytes × Int)) (s : Bytes) : Option Int :=
  match tab.find? (fun e => e.1 == s) with
  | some e => some e.2
  | none => none

def showTV (v : TagValue) : String :=
  s!"{(if v.hasValue then 1 else 0) + (if v.isMapped then 2 else 0)}:{v.mapped}:{showHex v.value}"

def showLits (ls : List Bytes) : String :=
  if ls.isEmpty then "-" else ",".intercalate (ls.map (fun l => "h" ++ showHex l))

def step (st : St) (toks : List String) : St × List String :=
  match toks with
  | ["cfg", mode, frm, to, pk, hm, mid, mpk, raws, raw64s, by_] =>
    match mode.toNat?, frm.toInt?, to.toInt?, parseBool? pk, parseBool? hm, mid.toInt?, mpk.toInt?,
          parseNatList? raws, parseNatList? raw64s, parseIntList? by_ with
    | some mode, some frm, some to, some pk, some hm, some mid, some mpk, some raws, some raw64s, some by_ =>
      if mode < 3 then
        ({ st with cfg := some { mode := mode, fromSec := frm, toSec := to, hasPreKey := pk, hasMetric := hm, metricId := mid,
                                  metricPk := mpk, raw := raws, raw64 := raw64s, groupBy := by_, fim := [], fnm := [] } }, [])
      else (st, ["bad-op"])
    | _, _, _, _, _, _, _, _, _, _ => (st, ["bad-op"])
  | ["fm", pol, ms] =>
    match st.cfg, (parseList ms).mapM parsePair? with
    | some c, some ms =>
      if pol = "in" then ({ st with cfg := some { c with fim := ms } }, [])
      else if pol = "notin" then ({ st with cfg := some { c with fnm := ms } }, [])
      else (st, ["bad-op"])
    | _, _ => (st, ["bad-op"])
  | ["tf", pol, x, re2, vals] =>
    match x.toNat?, parseHex? re2, (parseList vals).mapM parseValue? with
    | some x, some re2, some vals =>
      let f : TagFilter := { values := vals, re2 := re2 }
      if x ≥ maxTags then (st, ["bad-op"])
      else if pol = "in" then
        (if st.fin.any (·.1 == x) then (st, ["bad-op"]) else ({ st with fin := st.fin ++ [(x, f)] }, []))
      else if pol = "notin" then
        (if st.fnotin.any (·.1 == x) then (st, ["bad-op"]) else ({ st with fnotin := st.fnotin ++ [(x, f)] }, []))
      else (st, ["bad-op"])
    | _, _, _ => (st, ["bad-op"])
  | ["where"] =>
    match st.cfg with
    | some c => (st, ["where " ++ showHex (whereBytes c st.fin st.fnotin)])
    | none => (st, ["bad-op"])
  | ["qx", step, utc, loc, sharded, whats, minH, maxH, sort, settings, tagI, tagRaw, tagRaw64, numRes] =>
    match step.toInt?, utc.toInt?, parseHex? loc, parseBool? sharded, parseNatList? whats, parseBool? minH, parseBool? maxH,
          sort.toNat?, parseHex? settings, tagI.toInt?, parseBool? tagRaw, parseBool? tagRaw64, numRes.toInt? with
    | some step, some utc, some loc, some sharded, some whats, some minH, some maxH, some sort, some settings, some tagI,
      some tagRaw, some tagRaw64, some numRes =>
      if sort < 3 && (tagI == -1 || (0 ≤ tagI && tagI < 48)) then
        ({ st with qx := some { step := step, utcOffset := utc, loc := loc, sharded := sharded, whats := whats, minHost := minH,
                                 maxHost := maxH, sort := sort, settings := settings, tagIndex := tagI, tagRaw := tagRaw,
                                 tagRaw64 := tagRaw64, numResults := numRes } }, [])
      else (st, ["bad-op"])
    | _, _, _, _, _, _, _, _, _, _, _, _, _ => (st, ["bad-op"])
  | ["body"] =>
    match st.cfg, st.qx with
    | some c, some e =>
      if c.groupBy.all (fun x => x == shardIndex || (0 ≤ x && x < 48)) then
        match queryBytes c e st.fin st.fnotin with
        | some b => (st, ["body " ++ showHex b])
        | none => (st, ["body-error"])
      else (st, ["bad-op"])
    | _, _ => (st, ["bad-op"])
  | ["map", h, id] =>
    match parseHex? h, id.toInt? with
    | some h, some id => ({ st with mapTab := st.mapTab ++ [(h, id)] }, [])
    | _, _ => (st, ["bad-op"])
  | ["gtf", inTags, raw, isLe, comments, le, h] =>
    match parseBool? inTags, parseBool? raw, parseBool? isLe, (parseList comments).mapM parseComment?, parseHex? h with
    | some inTags, some raw, some isLe, some comments, some h =>
      let leEnc : Option (Option Int) := if le = "-" then some none else (le.toInt?).map some
      match leEnc with
      | none => (st, ["bad-op"])
      | some leEnc =>
        if comments.any (fun p => p.1.isEmpty) then (st, ["bad-op"])
        else
          match getTagFilter (mapLookup st.mapTab) leEnc { inTags := inTags, raw := raw, isLe := isLe, comments := comments } h with
          | some v => (st, ["tv " ++ showTV v])
          | none => (st, ["tv-error"])
    | _, _, _, _, _ => (st, ["bad-op"])
  | ["iex", x, hi, lo, al, pk] =>
    match st.cfg, x.toNat?, hi.toInt?, lo.toInt?, al.toInt?, pk.toInt? with
    | some c, some x, some hi, some lo, some al, some pk =>
      if x ≥ maxTags then (st, ["bad-op"]) else
      let e32 : Bytes → BitVec 32 := fun n =>
        if n == colInt c x then BitVec.ofInt 32 lo
        else if n == colInt c (x + 1) then BitVec.ofInt 32 hi
        else if n == str "_prekey" then BitVec.ofInt 32 pk
        else 0
      let v := (whereIntAST c x).eval e32 (fun _ => BitVec.ofInt 64 al)
      (st, [s!"iex {if v.wide then 1 else 0} {if v.signed then 1 else 0} {v.bits.toInt}"])
    | _, _, _, _, _, _ => (st, ["bad-op"])
  | ["lex", h] =>
    match parseHex? h with
    | some b =>
      match scanAll b with
      | some (ls, sk) => (st, ["lits " ++ showLits ls, "skel " ++ showHex sk])
      | none => (st, ["lex-error"])
    | none => (st, ["bad-op"])
  | ["re", p, s, b] =>
    match parseHex? p, parseHex? s, parseBool? b with
    | some p, some s, some b => ({ st with reTab := (p, s, b) :: st.reTab }, [])
    | _, _, _ => (st, ["bad-op"])
  | ["row", tm, it, pt, ps, m, tags] =>
    match st.cfg, tm.toInt?, it.toInt?, pt.toInt?, parseHex? ps, m.toInt?, (parseList tags).mapM parseTagRow? with
    | some c, some tm, some it, some pt, some ps, some m, some tags =>
      let row : Row := { time := tm, indexType := it, preTag := pt, preStag := ps, metric := m, tags := tags }
      let sel := evalWhere (reLookup st.reTab) c st.fin st.fnotin row
      (st, ["sel " ++ (if sel then "1" else "0")])
    | _, _, _, _, _, _, _ => (st, ["bad-op"])
  | _ => (st, ["bad-op"])

def main : IO Unit :=
  Driver.run { init := {}, step := step }
