import Driver.Common
import SH.Model.AgentQueue

open SH SH.AgentQueue

def sortPairs (l : List (Nat × Nat)) : List (Nat × Nat) :=
  (l.toArray.qsort (fun a b => a.1 < b.1 || (a.1 == b.1 && a.2 < b.2))).toList

def showPairs (l : List (Nat × Nat)) : String :=
  showList (l.map (fun p => s!"{p.1}:{p.2}"))

/-- aux (ingestion status) events of one bucket: summed per key timestamp, as the counters of the real items are -/
def auxCounts (es : List Ev) : List (Nat × Nat) :=
  let ts := (sortPairs ((es.filter (·.aux)).map (fun e => (e.ts, 0)))).map (·.1)
  let uniq := ts.foldr (fun t acc => match acc with
    | (t', n) :: rest => if t == t' then (t', n + 1) :: rest else (t, 1) :: acc
    | [] => [(t, 1)]) []
  uniq

def bucketObs (b : Bucket) : String :=
  let g := sortPairs ((b.items.filter (fun e => !e.aux)).map (fun e => (e.id, e.ts)))
  s!"bucket t={b.time} ev={showPairs g} aux={showPairs (auxCounts b.items)}"

def distinctCells (s : S) : Nat :=
  let cs := (sortPairs (s.ring.map (fun p => (p.1, 0)))).map (·.1)
  (cs.foldr (fun c acc => match acc with
    | c' :: _ => if c == c' then acc else c :: acc
    | [] => [c]) []).length

def ringSummary (s : S) : String :=
  s!"st={(s.ring.filter (·.2.aux)).length} ne={distinctCells s}"

def placedObs (s : S) (r : Option Placed) : String :=
  match r with
  | some p => s!"ok cell={p.cell} ts={p.kts} {ringSummary s}"
  | none => s!"drop {ringSummary s}"

def parseMK? : String → Option MK
  | "nil" => some .none | "n" => some .normal | "hw" => some .hw | "hws" => some .hwslow | _ => none

def parseEntry? : String → Option Entry
  | "counter" => some .counter | "values" => some .values | "unique" => some .unique
  | "ach" => some .addCounterHost | "avch" => some .addValueCounterHost | "merge" => some .merge
  | "sbytes" => some .statusBytes | _ => none

def parseTag? (t : String) : Option (Nat × Bytes) :=
  match t.splitOn ":" with
  | [i, v] => match i.toNat?, parseHex? v with
    | some i, some v => some (i, v)
    | _, _ => none
  | _ => none

def parseCache? (t : String) : Option (Bytes × Int) :=
  match t.splitOn "=" with
  | [v, i] => match parseHex? v, i.toInt? with
    | some v, some i => some (v, i)
    | _, _ => none
  | _ => none

def enumFrom' {α} (l : List α) : List (Nat × α) := (List.range l.length).zip l

def hashObs (metric : Nat) (cache : List (Bytes × Int)) (tags : List (Nat × Bytes)) (scratch : Bytes) : String :=
  let h := mapAll cache tags
  -- the driver has no xxh3; `hm` says whether the hash is H(exactly the marshalled bytes), which in the model it always is
  let oh := originalHash (fun _ => 0) scratch metric h.ov
  let hm := if oh.1 == marshal metric h.ov then 1 else 0
  let is := (enumFrom' h.tagsI).filter (fun p => p.2 != 0)
  let ss := (enumFrom' h.tagsS).filter (fun p => !p.2.isEmpty)
  s!"m={showHex (marshal metric h.ov)} i={showList (is.map (fun p => s!"{p.1}:{p.2}"))} s={showList (ss.map (fun p => s!"{p.1}:{showHex p.2}"))} scr={showHex oh.1} hm={hm}"

def step (s : S) (toks : List String) : S × List String :=
  match toks with
  | ["init", t0, hw, hws] => match t0.toNat?, hw.toNat?, hws.toNat? with
    | some t0, some hw, some hws => (init t0 hw hws, [])
    | _, _, _ => (s, ["bad-op"])
  | ["ev", e, mk, ts, res, hash, drop] =>
    match parseEntry? e, parseMK? mk, ts.toNat?, res.toNat?, hash.toNat?, drop.toNat? with
    | some e, some mk, some ts, some res, some hash, some drop =>
      let r := evStep s e mk ts res hash drop
      (r.1, [placedObs r.1 r.2])
    | _, _, _, _, _, _ => (s, ["bad-op"])
  | ["rc", hw, hws] => match hw.toNat?, hws.toNat? with
    | some hw, some hws => (remoteConfig s hw hws, ["rc ok"])
    | _, _ => (s, ["bad-op"])
  | ["am", ts, res, hash, scr] =>
    match ts.toNat?, res.toNat?, hash.toNat?, (if scr == "0" || scr == "1" then some scr else none) with
    | some ts, some res, some hash, some _ =>
      let r := amStep s ts res hash
      (r.1, [placedObs r.1 r.2])
    | _, _, _, _ => (s, ["bad-op"])
  | ["flush", ms] => match ms.toNat? with
    | some ms =>
      let ret := flushRet s (ms / 1000)
      let s' := flush s ms
      (s', [s!"flush gap={ret.1} st={ret.2} cur={s'.cur} send={s'.send} chan={s'.chanLen}"])
    | none => (s, ["bad-op"])
  | ["drain"] =>
    if s.chanLen == 0 then (s, ["none"])
    else match s.out.getLast? with
      | some b => (drain s, [bucketObs b])
      | none => (s, ["bad-state"])
  | ["stop"] => (stopRecv s, ["stopped"])
  | ["flushall"] =>
    let s' := flushAll s
    let newB := s'.out.drop s.out.length
    (s', newB.map bucketObs ++ [s!"end send={s'.send} n={newB.length}"])
  | ["hash", metric, cache, tags, scratch] =>
    match metric.toNat?, (parseList cache).mapM parseCache?, (parseList tags).mapM parseTag?, parseHex? scratch with
    | some metric, some cache, some tags, some scratch => (s, [hashObs metric cache tags scratch])
    | _, _, _, _ => (s, ["bad-op"])
  | _ => (s, ["bad-op"])

def parseKind? : String → Option Kind
  | "counter" => some .counter | "values" => some .values | "unique" => some .unique | _ => none

def pre (p : String) (ls : List String) : List String := ls.map (fun l => p ++ " " ++ l)

/-- two-shard operations act on both shards (observations prefixed s0 / s1); everything else is a single-shard operation on s0 -/
def stepA (a : A2) (toks : List String) : A2 × List String :=
  match toks with
  | ["init2", t0, hw, hws] => match t0.toNat?, hw.toNat?, hws.toNat? with
    | some t0, some hw, some hws => (init2 t0 hw hws, [])
    | _, _, _ => (a, ["bad-op"])
  | ["am2", kind, k1, k2, start, ts, res, hash] =>
    match parseKind? kind, k1.toNat?, k2.toNat?, start.toNat?, ts.toNat?, res.toNat?, hash.toNat? with
    | some kind, some k1, some k2, some start, some ts, some res, some hash =>
      if k1 == 1 || k1 == 2 then
        let r := am2Step a kind k1 k2 start ts res hash
        let rp := r.2.1
        let ro := r.2.2
        let o0 := if k1 == 1 then rp else ro
        let o1 := if k1 == 1 then ro else rp
        (r.1, ["s0 " ++ placedObs r.1.s0 o0, "s1 " ++ placedObs r.1.s1 o1])
      else (a, ["bad-op"])
    | _, _, _, _, _, _, _ => (a, ["bad-op"])
  | ["flush2", ms] =>
    let r0 := step a.s0 ["flush", ms]
    let r1 := step a.s1 ["flush", ms]
    ({ s0 := r0.1, s1 := r1.1 }, pre "s0" r0.2 ++ pre "s1" r1.2)
  | ["drain2"] =>
    let r0 := step a.s0 ["drain"]
    let r1 := step a.s1 ["drain"]
    ({ s0 := r0.1, s1 := r1.1 }, pre "s0" r0.2 ++ pre "s1" r1.2)
  | ["flushall2"] =>
    let r0 := step a.s0 ["flushall"]
    let r1 := step a.s1 ["flushall"]
    ({ s0 := r0.1, s1 := r1.1 }, pre "s0" r0.2 ++ pre "s1" r1.2)
  | _ =>
    let r := step a.s0 toks
    ({ a with s0 := r.1 }, r.2)

def main : IO Unit :=
  Driver.run { init := init2 1000 5 15, step := stepA }
