import Driver.Common
import SH.Model.Journal
import SH.Model.MetaIndex
import SH.Model.CompactMetric

open SH
open SH.Journal
open SH.MetaIndex

structure Rep where
  j : J := {}
  st : Store := MetaIndex.init
  file : File := {}
  up : Nat := 0
  dead : Bool := false

structure St where
  tab : Array Content := #[]
  reps : Array Rep := #[]

def tabOf (s : St) : Nat → Content := fun k => s.tab.getD k Content.default

/-! ### rendering -/

def hexDigits : Nat → Nat → List Char
  | 0, _ => []
  | n + 1, x => hexDigits n (x / 16) ++ [hexChar (x % 16)]

def hex128 (x : Nat) : String := String.ofList (hexDigits 32 x)

def parseHexNat? (s : String) : Option Nat :=
  s.toList.foldl (fun acc c => match acc, hexDigit? c with
    | some a, some d => some (a * 16 + d)
    | _, _ => none) (some 0)

def nameStr (n : Name) : String := String.ofList (n.map Char.ofNat)

def insertBy {α} (lt : α → α → Bool) (x : α) : List α → List α
  | [] => [x]
  | h :: r => if lt x h then x :: h :: r else h :: insertBy lt x r

def sortBy {α} (lt : α → α → Bool) (l : List α) : List α := l.foldr (insertBy lt) []

def b2i (b : Bool) : String := if b then "1" else "0"

def evList (es : List Entry) : String := showList (es.map (fun e => s!"{e.ver}:{e.k}"))

def byIdSorted (x : Idx) : List Ent := sortBy (fun a b => decide (a.id < b.id)) (x.byId.map (·.2))
def byNameSorted (x : Idx) : List (Name × Ent) := sortBy (fun a b => lexLt a.1 b.1) x.byName

def showState (r : Nat) (rep : Rep) : List String :=
  let j := rep.j
  let st := rep.st
  [ s!"j {r} ver={j.cur} lv={j.lv} lk={j.lk} hash={hex128 j.hash} n={j.entries.length} ev={evList j.entries}",
    s!"m {r} {showList ((byIdSorted st.metrics).map (fun m => s!"{m.id}:{nameStr m.name}:{m.ver}:{m.grp}"))} | " ++
      s!"{showList ((byNameSorted st.metrics).map (fun p => s!"{nameStr p.1}:{p.2.id}:{p.2.ver}:{p.2.grp}"))}",
    s!"g {r} {showList ((byIdSorted st.groups).map (fun m => s!"{m.id}:{nameStr m.name}:{m.ver}:{b2i m.dis}"))} | " ++
      s!"{showList ((byNameSorted st.groups).map (fun p => s!"{nameStr p.1}:{p.2.id}:{p.2.ver}"))} | " ++
      s!"{showList (st.ordered.map (fun g => toString g.id))}",
    s!"s {r} {showList ((byIdSorted st.nss).map (fun m => s!"{m.id}:{nameStr m.name}:{m.ver}"))} | " ++
      s!"{showList ((byNameSorted st.nss).map (fun p => s!"{nameStr p.1}:{p.2.id}:{p.2.ver}"))}" ]

def toIEv (tab : Nat → Content) (e : Entry) : IEv :=
  let c := tab e.k
  { typ := e.typ, id := e.id, name := c.name, ver := e.ver, ok := c.ok, dis := c.dis }

def chunkEnds : List Chunk → Nat → List Nat
  | [], _ => []
  | c :: r, off => (off + c.size) :: chunkEnds r (off + c.size)

/-! ### ops -/

def parseTie (s : String) : Option (List Int) := parseIntList? s

def parseCfg (s : String) : Option Rep :=
  match s.splitOn ":" with
  | [c, u] => match c.toNat?, u.toNat? with
    | some c, some u => some { j := { compact := c = 1 }, up := u }
    | _, _ => none
  | _ => none

def setRep (s : St) (r : Nat) (rep : Rep) : St := { s with reps := s.reps.setIfInBounds r rep }

def opNew (toks : List String) : Option St :=
  match toks with
  | n :: cfgs => match n.toNat?, cfgs.mapM parseCfg with
    | some n, some reps => if reps.length + 1 = n then some { reps := (({} : Rep) :: reps).toArray } else none
    | _, _ => none
  | _ => none

def opDef (s : St) (toks : List String) : Option St :=
  match toks with
  | [k, typ, id, name, dlen, sz, hash, ok, dis, t, c] =>
    match k.toNat?, typ.toInt?, id.toInt?, dlen.toNat?, sz.toNat?, parseHexNat? hash, ok.toNat?, dis.toNat?, t.toNat?, c.toInt? with
    | some k, some typ, some id, some dlen, some sz, some hash, some ok, some dis, some t, some c =>
      if k ≠ s.tab.size then none else
      let nm : Name := if name = "-" then [] else nameOfString name
      some { s with tab := s.tab.push { typ := typ, id := id, name := nm, dlen := dlen, sz := sz, hash := hash,
                                        ok := ok = 1, dis := dis = 1, t := t, c := if c < 0 then none else some c.toNat } }
    | _, _, _, _, _, _, _, _, _, _ => none
  | _ => none

/-- applyUpdate on replica r + the ApplyEvent callback -/
def feed (s : St) (r : Nat) (rep : Rep) (src : List Entry) (lastKnown : Int) (tie : List Int) (pre : List String) : St × List String :=
  match applyUpdate (tabOf s) rep.j src lastKnown with
  | none => (setRep s r { rep with dead := true }, ["panic"])
  | some (j', applied) =>
    let st' := if applied.isEmpty then rep.st else applyBatch .fixed tie rep.st (applied.map (toIEv (tabOf s)))
    let rep' := { rep with j := j', st := st' }
    (setRep s r rep', pre ++ showState r rep')

def step (s : St) (toks : List String) : St × List String :=
  match toks with
  | "new" :: rest => match opNew rest with
    | some s' => (s', [])
    | none => (s, ["bad-op"])
  | "def" :: rest => match opDef s rest with
    | some s' => (s', [])
    | none => (s, ["bad-op"])
  | ["src", ver, k, tie] =>
    match ver.toInt?, k.toNat?, parseTie tie, s.reps[0]? with
    | some ver, some k, some tie, some rep =>
      if k ≥ s.tab.size then (s, ["bad-op"]) else
      feed s 0 rep [mkEntry (tabOf s) ver k] ver tie []
    | _, _, _, _ => (s, ["bad-op"])
  | ["deliver", r, items, bytes, cut, tie] =>
    match r.toNat?, items.toNat?, bytes.toNat?, cut.toNat?, parseTie tie with
    | some r, some items, some bytes, some cut, some tie =>
      match s.reps[r]? with
      | some rep =>
        match s.reps[rep.up]? with
        | some up =>
          if r = 0 then (s, ["bad-op"]) else
          let evs := (transport (tabOf s) (diff up.j rep.j.lv items bytes)).take cut
          feed s r rep evs up.j.cur tie [s!"d {evList evs} cur={up.j.cur}"]
        | none => (s, ["bad-op"])
      | none => (s, ["bad-op"])
    | _, _, _, _, _ => (s, ["bad-op"])
  | ["save", r] =>
    match r.toNat? with
    | some r => match s.reps[r]? with
      | some rep =>
        let (j', f', ok) := save rep.j rep.file
        (setRep s r { rep with j := j', file := f' },
          [s!"saved {b2i ok} err=0 size={fileSize f'} chunks={showList (chunkEnds f'.chunks 0)}"])
      | none => (s, ["bad-op"])
    | none => (s, ["bad-op"])
  | ["restart", r, keep, tie] =>
    match r.toNat?, keep.toNat?, parseTie tie with
    | some r, some keep, some tie => match s.reps[r]? with
      | some rep =>
        let f' := truncate rep.file keep
        match load rep.j.compact f' with
        | none => (setRep s r { rep with file := f', dead := true }, ["panic"])
        | some (j', batches, err) =>
          let st' := applyBatches .fixed tie MetaIndex.init (batches.map (fun b => b.map (toIEv (tabOf s))))
          let rep' := { rep with j := j', st := st', file := f', dead := false }
          (setRep s r rep', s!"load err={b2i err}" :: showState r rep')
      | none => (s, ["bad-op"])
    | _, _, _ => (s, ["bad-op"])
  | _ => (s, ["bad-op"])

/-! ### `cf`: the compact form of one metric content, computed by the model -/

open SH.CompactMetric in
def hexStr? (s : String) : Option Str := (parseHex? s).map (fun b => b.map (·.toNat))

open SH.CompactMetric in
def hxOut (s : Str) : String := showHex (s.map (fun n => UInt8.ofNat n))

open SH.CompactMetric in
def parseTag? (s : String) : Option Tag :=
  match s.splitOn ":" with
  | [a, b, c, d] => match hexStr? a, hexStr? b, hexStr? c, d.toNat? with
    | some a, some b, some c, some d => some { name := a, desc := b, raw := c, ncomm := d }
    | _, _, _, _ => none
  | _ => none

open SH.CompactMetric in
def parseDraft? (s : String) : Option Draft :=
  match s.splitOn ":" with
  | [a, b, c, d] => match hexStr? a, hexStr? b, hexStr? c, hexStr? d with
    | some a, some b, some c, some d => some { key := a, name := b, desc := c, raw := d }
    | _, _, _, _ => none
  | _ => none

def flagAt (s : String) (i : Nat) : Bool := s.toList.getD i '0' = '1'

open SH.CompactMetric in
def parseMF? (toks : List String) : Option (MF × EvHead) :=
  match toks with
  | [desc, kind, w, res, dis, stn, std, pkt, pkf, flags, mtype, tags, drafts, ids, head] =>
    match hexStr? desc, hexStr? kind, w.toNat?, res.toNat?, dis.toNat?, hexStr? stn, hexStr? std, hexStr? pkt, pkf.toNat?,
          hexStr? mtype, (parseList tags).mapM parseTag?, (parseList drafts).mapM parseDraft? with
    | some desc, some kind, some w, some res, some dis, some stn, some std, some pkt, some pkf, some mtype, some tags, some drafts =>
      match (ids.drop 4).toString.splitOn ":", (head.drop 5).toString.splitOn ":" with
      | [a, b, c, d], [h1, h2, h3, h4] =>
        match a.toInt?, b.toInt?, hexStr? c, d.toInt?, h1.toNat?, h2.toNat?, h3.toNat?, h4.toNat? with
        | some a, some b, some c, some d, some h1, some h2, some h3, some h4 =>
          if flags.length ≠ 4 || !ids.startsWith "ids=" || !head.startsWith "head=" then none else
          some ({ desc := desc, kind := kind, weight := w, res := res, dis := dis = 1, stn := stn, std := std, pkt := pkt, pkf := pkf,
                  skipMax := flagAt flags 0, skipMin := flagAt flags 1, skipSq := flagAt flags 2, pkOnly := flagAt flags 3,
                  mtype := mtype, tags := tags, drafts := drafts, mid := a, ns := b, vname := c, ver := d },
                { fieldMask := h1, unused := h2, updateTime := h3, hasMeta := h4 = 1 })
        | _, _, _, _, _, _, _, _ => none
      | _, _ => none
    | _, _, _, _, _, _, _, _, _, _, _, _ => none
  | _ => none

open SH.CompactMetric in
def renderMF (m : MF) (h : EvHead) : String :=
  let ts := m.tags.map (fun t => s!"{hxOut t.name}:{hxOut t.desc}:{hxOut t.raw}:{t.ncomm}")
  let ds := m.drafts.map (fun d => s!"{hxOut d.key}:{hxOut d.name}:{hxOut d.desc}:{hxOut d.raw}")
  s!"cf {hxOut m.desc} {hxOut m.kind} {m.weight} {m.res} {b2i m.dis} {hxOut m.stn} {hxOut m.std} {hxOut m.pkt} {m.pkf} " ++
  s!"{b2i m.skipMax}{b2i m.skipMin}{b2i m.skipSq}{b2i m.pkOnly} {hxOut m.mtype} {showList ts} {showList ds} " ++
  s!"ids={m.mid}:{m.ns}:{hxOut m.vname}:{m.ver} head={h.fieldMask}:{h.unused}:{h.updateTime}:{b2i h.hasMeta}"

open SH.CompactMetric in
def stepCf (toks : List String) : List String :=
  match toks with
  | _k :: name :: rest =>
    match hexStr? name, parseMF? rest with
    | some name, some (m, h) => [renderMF (compactForm .orig name m) (compactHead h)]
    | _, _ => ["bad-op"]
  | _ => ["bad-op"]

def stepAll (s : St) (toks : List String) : St × List String :=
  match toks with
  | "cf" :: rest => (s, stepCf rest)
  | _ => step s toks

def main : IO Unit := Driver.run { init := ({} : St), step := stepAll }
