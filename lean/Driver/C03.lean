import Driver.Common
import SH.Model.Insert

/-!
  drv_c03 — replays the op stream of go/C03/overlay/cmd/verif-c03 on SH.Model.Insert.

  body ops : bucket / item / v / merge / emit / row / end   (state: the aggregation shards of every bucket)
  codec ops: arg / argcol / tdcol / uniqcol / uniq / cents / f64 / f32   (stateless)
  The argMin/argMax column reader is modelled as `ARGV` (see SH.Insert.ArgV).
-/
open SH SH.Insert

/-- the variant of ArgMinMaxStringFloat32.ReadFrom the property is proved for: every read starts from the zero value -/
def ARGV : ArgV := .reset

structure Pending where
  bucket : Nat
  t : Option Nat
  metric : Int
  keys : List Int
  skeys : List Bytes
  tops : List (Tag × TLV)
  tail : Option TLV

structure ERow where
  pre : Bytes
  mv : MV

structure St where
  buckets : Array (Nat × Shards)
  pend : Option Pending
  left : List ERow

def St.init : St := { buckets := #[], pend := none, left := [] }

def hexElem? (s : String) : Option Bytes := if s = "_" then some [] else parseHex? s

def hexList? (s : String) : Option (List Bytes) := (parseList s).mapM hexElem?

def pairInt? (s : String) : Option (Int × Int) :=
  match s.splitOn ":" with
  | [a, b] => match a.toInt?, b.toInt? with
    | some x, some y => some (x, y)
    | _, _ => none
  | _ => none

def pairNat? (s : String) : Option (Nat × Nat) :=
  match s.splitOn ":" with
  | [a, b] => match a.toNat?, b.toNat? with
    | some x, some y => some (x, y)
    | _, _ => none
  | _ => none

def tag? (i s : String) : Option Tag :=
  match i.toInt?, parseHex? s with
  | some i, some s => some ⟨i, s⟩
  | _, _ => none

def bool? (s : String) : Option Bool :=
  if s = "true" then some true else if s = "false" then some false else none

def fnv64 (b : Bytes) : Nat :=
  b.foldl (fun x c => ((x ^^^ c.toNat) * 1099511628211) % 18446744073709551616) 14695981039346656037

def showBytes (b : Bytes) : String :=
  if b.length ≤ 2048 then showHex b else s!"len={b.length},fnv={fnv64 b}"

def tlv? (a : List String) : Option TLV :=
  match a with
  | [mask, c, mn, mx, sm, sq, uq, cents, h0, h1, h2, s0, s1, s2] =>
    match mask.toNat?, c.toInt?, mn.toInt?, mx.toInt?, sm.toInt?, sq.toInt?, parseHex? uq, (parseList cents).mapM pairInt? with
    | some mask, some c, some mn, some mx, some sm, some sq, some uq, some cents =>
      match h0.toInt?, h1.toInt?, h2.toInt?, parseHex? s0, parseHex? s1, parseHex? s2 with
      | some h0, some h1, some h2, some s0, some s1, some s2 =>
        some { mask := mask, counter := c, vmin := mn, vmax := mx, sum := sm, sumsq := sq, uniques := uq, cents := cents,
               maxHostTag := h0, minHostTag := h1, cntHostTag := h2, maxHostStag := s0, minHostStag := s1, cntHostStag := s2 }
      | _, _, _, _, _, _ => none
    | _, _, _, _, _, _, _, _ => none
  | _ => none

def showArgVal (a : ArgVal) : String := s!"{showHex a.s}/{a.i}/{a.v}"

def sortStr (l : List String) : List String := (l.toArray.qsort (· < ·)).toList

def expectedRows (cap : Nat) (buckets : Array (Nat × Shards)) : List ERow :=
  buckets.toList.flatMap (fun b => (bucketRows cap b.2).map (fun r => { pre := encKeys r.1 r.2.1, mv := r.2.2 }))

/-- remove the first expected row with this key prefix -/
def takeRow (pre : Bytes) : List ERow → Option (ERow × List ERow)
  | [] => none
  | r :: rest =>
    if r.pre == pre then some (r, rest)
    else match takeRow pre rest with
      | some (x, rest') => some (x, r :: rest')
      | none => none

def stepBody (st : St) (toks : List String) : Option (St × List String) :=
  match toks with
  | ["bucket", t] => do
    let t ← t.toNat?
    pure ({ st with buckets := st.buckets.push (t, []) }, [])
  | ["item", b, t, metric, keys, skeys] => do
    let b ← b.toNat?
    let t ← (if t = "-" then some none else t.toNat?.map some)
    let metric ← metric.toInt?
    let keys ← parseIntList? keys
    let skeys ← hexList? skeys
    if b < st.buckets.size then
      pure ({ st with pend := some { bucket := b, t := t, metric := metric, keys := keys, skeys := skeys, tops := [], tail := none } }, [])
    else none
  | "v" :: kind :: ti :: ts :: rest => do
    let p ← st.pend
    let tg ← tag? ti ts
    let v ← tlv? rest
    if kind = "top" then pure ({ st with pend := some { p with tops := p.tops ++ [(tg, v)] } }, [])
    else if kind = "tail" then pure ({ st with pend := some { p with tail := some v } }, [])
    else none
  | ["merge", hi, hs] => do
    let p ← st.pend
    let host ← tag? hi hs
    let tail ← p.tail
    let b ← st.buckets[p.bucket]?
    let k := mkKey (keyTime p.t b.1) p.metric p.keys p.skeys
    let r := contribute b.2 k p.tops tail host
    let err := if r.2.2 = 0 then 0 else Gen.C03.errNegativeCounter
    pure ({ st with buckets := st.buckets.set! p.bucket (b.1, r.1), pend := none }, [s!"merged created={r.2.1} err={err}"])
  | ["emit", cap] => do
    let cap ← cap.toNat?
    let rows := expectedRows cap st.buckets
    pure ({ st with left := rows }, [s!"rows={rows.length}"])
  | ["row", pre, chi, chs, cents, s0, s1, s2, uord] => do
    let pre ← parseHex? pre
    let chost ← tag? chi chs
    let cents ← (parseList cents).mapM pairNat?
    let s0 ← s0.toNat?
    let s1 ← s1.toNat?
    let s2 ← s2.toNat?
    let uord ← parseNatList? uord
    let o : RowObs := { chost := chost, cents := cents, skewMin := s0, skewMax := s1, skewCnt := s2, uorder := uord }
    match takeRow pre st.left with
    | none => pure (st, ["row none"])
    | some (r, rest) =>
      if obsOk r.mv o then pure ({ st with left := rest }, [s!"row {showHex (r.pre ++ encValue r.mv o)}"])
      else pure ({ st with left := rest }, ["row bad-obs"])
  | ["end"] => pure ({ st with left := [] }, [s!"missing={st.left.length}"])
  | _ => none

/-- two result blocks read by one column object -/
def argcol (var : ArgV) (n1 b1 n2 b2 : String) : Option (List String) := do
  let n1 ← n1.toNat?
  let n2 ← n2.toNat?
  let b1 ← parseHex? b1
  let b2 ← parseHex? b2
  match readArgCol var n1 [] b1 with
  | some (l1, _) =>
    -- DecodeColumn reuses the slots of the previous block when they are enough, else allocates fresh ones
    match readArgCol var n2 (if n1 < n2 then [] else l1) b2 with
    | some (l2, _) => pure [s!"argcol b1={",".intercalate (l1.map showArgVal)} b2={",".intercalate (l2.map showArgVal)}"]
    | none => pure ["argcol error"]
  | none => pure ["argcol error"]

/-- `n1 hex1 n2 hex2 …` -/
def blocks? : List String → Option (List (Nat × Bytes))
  | [] => some []
  | n :: b :: rest => do
    let n ← n.toNat?
    let b ← parseHex? b
    let l ← blocks? rest
    pure ((n, b) :: l)
  | _ => none

def showTd (c : List (Nat × Nat)) : String :=
  let l := sortStr (c.map (fun p => s!"{p.1}:{p.2}"))
  if l.isEmpty then "-" else ",".intercalate l

def showUq (u : USt) : String :=
  s!"{u.k}/{u.cnt}/{u.hasZero}/{showList (SH.Insert.sortNat (if u.hasZero then 0 :: u.vals else u.vals))}"

/-- several result blocks through one percentile column; the reader keeps every digest it was handed -/
def tdcol (rv : ResetV) (toks : List String) : Option (List String) := do
  let bl ← blocks? toks
  match bl.mapM (fun b => (readCentroidsCol b.1 b.2).map (·.1)) with
  | some vals =>
    let st := colBlocks rv tdReuse vals
    pure [s!"tdcol {";".intercalate ((readBack st).map (fun o => match o with | some c => showTd c | none => "?"))}"]
  | none => pure ["tdcol error"]

/-- the same for the uniq column (`Reset` drops the backing array, so no sketch table is ever shared) -/
def uniqcol (toks : List String) : Option (List String) := do
  let bl ← blocks? toks
  match bl.mapM (fun b => (readUniqueCol b.1 b.2).map (·.1)) with
  | some vals =>
    let st := colBlocks ResetV.drop (fun (_ _ : USt) => false) vals
    pure [s!"uniqcol {";".intercalate ((readBack st).map (fun o => match o with | some u => showUq u | none => "?"))}"]
  | none => pure ["uniqcol error"]

def stepCodec (toks : List String) : Option (List String) :=
  match toks with
  | ["arg", i, s, v] => do
    let t ← tag? i s
    let v ← v.toNat?
    let enc := encArg t v
    match readArg ARGV ArgVal.zero enc with
    | some (a, []) => pure [s!"arg {showHex enc} dec={showArgVal a}"]
    | _ => pure [s!"arg {showHex enc} dec=error"]
  | ["argcol", _, n1, b1, n2, b2] => argcol ARGV n1 b1 n2 b2
  | ["argcol-old", _, n1, b1, n2, b2] => argcol ArgV.stale n1 b1 n2 b2
  | "tdcol" :: rest => tdcol ResetV.drop rest
  | "tdcol-keep" :: rest => tdcol ResetV.keep rest
  | "uniqcol" :: rest => uniqcol rest
  | ["uniq", alloc, k, cnt, hz, vals] => do
    let alloc ← bool? alloc
    let k ← k.toNat?
    let cnt ← cnt.toNat?
    let hz ← bool? hz
    let vals ← parseNatList? vals
    let enc := encUnique { alloc := alloc, k := k, cnt := cnt, hasZero := hz, vals := vals }
    match readUnique enc with
    | some (u, []) =>
      let items := if u.hasZero then 0 :: u.vals else u.vals
      let sum := items.foldl (· + ·) 0 % 18446744073709551616
      let x := items.foldl (· ^^^ ·) 0
      pure [s!"uniq {showBytes enc} dec=k={u.k},n={u.cnt},z={u.hasZero},stored={items.length},sum={sum},xor={x}"]
    | _ => pure [s!"uniq {showBytes enc} dec=error"]
  | ["cents", isNil, cmp, pairs] => do
    let isNil ← isNil.toNat?
    let cmp ← cmp.toNat?
    let pairs ← (parseList pairs).mapM pairNat?
    let enc := if isNil = 1 then [0] else encCentroids pairs
    match readCentroids enc with
    | some (l, []) =>
      let shown := sortStr (l.map (fun p => s!"{p.1}:{p.2}"))
      let d := if cmp = 0 then "skipped" else if shown.isEmpty then "-" else ",".intercalate shown
      pure [s!"cents {showBytes enc} dec={d}"]
    | _ => pure [s!"cents {showBytes enc} dec=error"]
  | ["f64", m, e] => do
    let m ← m.toInt?
    let e ← e.toNat?
    pure [s!"f64 {f64bits m e}"]
  | ["f32", b] => do
    let b ← b.toNat?
    pure [s!"f32 {f64to32 b}"]
  | _ => none

def step (st : St) (toks : List String) : St × List String :=
  match stepCodec toks with
  | some outs => (st, outs)
  | none =>
    match stepBody st toks with
    | some r => r
    | none => (st, ["bad-op"])

def main : IO Unit := Driver.run { init := St.init, step := step }
