import Driver.Common
import SH.Model.Table

open SH SH.Table

/-- one storage answer under construction: (q, k), error flag, time groups (last group last) -/
structure Cell where
  q : Nat
  k : Nat
  err : Bool
  groups : List (List Row)

structure St where
  nt : Nat := 0
  req : Req := { win := { frm := ⟨0, [], 0⟩, to := ⟨0, [], 0⟩, fromEnd := false }, limit := 0, gby := [], bySkey := false, cols := [] }
  lods : List Lod := []
  cells : List Cell := []
  ok : Bool := true          -- false after a malformed op: `run`/`lq` answer bad-op

def kv? (s pre : String) : Option String :=
  if s.startsWith pre then some (s.drop pre.length).toString else none

def parseBool? (s : String) : Option Bool :=
  if s = "0" then some false else if s = "1" then some true else none

def parseCols? (s : String) : Option (List (List Nat)) :=
  (s.splitOn "/").mapM parseNatList?

def parsePair? (s : String) : Option (Nat × Int) :=
  match s.splitOn ":" with
  | [a, b] => match a.toNat?, b.toInt? with
    | some a, some b => some (a, b)
    | _, _ => none
  | _ => none

def parseMarker? (t tg sk : String) : Option Marker :=
  match t.toInt?, (parseList tg).mapM parsePair?, sk.toNat? with
  | some t, some tg, some sk => some ⟨t, tg, sk⟩
  | _, _, _ => none

def updCell (cells : List Cell) (q k : Nat) (f : Cell → Cell) : List Cell :=
  if cells.any (fun c => c.q == q && c.k == k) then cells.map (fun c => if c.q == q && c.k == k then f c else c)
  else cells ++ [f { q := q, k := k, err := false, groups := [] }]

def cellAns (cells : List Cell) (q k : Nat) : Option (List (List Row)) :=
  match cells.find? (fun c => c.q == q && c.k == k) with
  | none => some []
  | some c => if c.err then none else some c.groups

def cellGroups (cells : List Cell) (q k : Nat) : List (List Row) :=
  match cells.find? (fun c => c.q == q && c.k == k) with
  | none => []
  | some c => c.groups

def addToLast (gs : List (List Row)) (r : Row) : Option (List (List Row)) :=
  match gs.reverse with
  | [] => none
  | g :: rest => some ((( g ++ [r]) :: rest).reverse)

def showKey (k : Key) : String :=
  s!"{k.time}:{".".intercalate (k.tags.map toString)}:{k.skey}"

def showKeys (rs : List Row) : String :=
  if rs.isEmpty then "-" else ";".intercalate (rs.map (fun r => showKey r.key))

def showData (d : List (Option Int)) : String :=
  if d.isEmpty then "-" else ",".intercalate (d.map (fun x => match x with | none => "nan" | some v => toString v))

def b2s (b : Bool) : String := if b then "1" else "0"

def bad (st : St) : St × List String := ({ st with ok := false }, ["bad-op"])

def step (st : St) (toks : List String) : St × List String :=
  match toks with
  | ["cfg", nt, by_, bysk, fe, lim, sel] =>
    match kv? nt "nt=" >>= String.toNat?, kv? by_ "by=" >>= parseNatList?, kv? bysk "bysk=" >>= parseBool?,
          kv? fe "fe=" >>= parseBool?, kv? lim "lim=" >>= String.toInt?, kv? sel "sel=" >>= parseCols? with
    | some nt, some by_, some bysk, some fe, some lim, some sel =>
      ({ st with nt := nt, req := { st.req with win := { st.req.win with fromEnd := fe }, limit := lim, gby := by_, bySkey := bysk, cols := sel } }, [])
    | _, _, _, _, _, _ => bad st
  | ["from", t, tg, sk] =>
    match parseMarker? t tg sk with
    | some m => ({ st with req := { st.req with win := { st.req.win with frm := m } } }, [])
    | none => bad st
  | ["to", t, tg, sk] =>
    match parseMarker? t tg sk with
    | some m => ({ st with req := { st.req with win := { st.req.win with to := m } } }, [])
    | none => bad st
  | ["lod", a, b] =>
    match a.toInt?, b.toInt? with
    | some a, some b => ({ st with lods := st.lods ++ [⟨a, b⟩] }, [])
    | _, _ => bad st
  | ["err", q, k] =>
    match q.toNat?, k.toNat? with
    | some q, some k => ({ st with cells := updCell st.cells q k (fun c => { c with err := true }) }, [])
    | _, _ => bad st
  | ["grp", q, k] =>
    match q.toNat?, k.toNat? with
    | some q, some k => ({ st with cells := updCell st.cells q k (fun c => { c with groups := c.groups ++ [[]] }) }, [])
    | _, _ => bad st
  | ["row", q, k, t, tg, sk, vals] =>
    match q.toNat?, k.toNat?, t.toInt?, parseIntList? tg, sk.toNat?, parseIntList? vals with
    | some q, some k, some t, some tg, some sk, some vals =>
      if tg.length ≠ st.nt then bad st else
      match addToLast (cellGroups st.cells q k) ⟨⟨t, tg, sk⟩, vals⟩ with
      | some gs => ({ st with cells := updCell st.cells q k (fun c => { c with groups := gs }) }, [])
      | none => bad st
    | _, _, _, _, _, _ => bad st
  | ["lq", q, k, lim] =>
    match q.toNat?, k.toNat?, lim.toInt? with
    | some q, some k, some lim =>
      if !st.ok then (st, ["bad-op"]) else
      let groups := cellGroups st.cells q k
      let r := limitQueries .fixed st.req.win groups lim
      (st, [s!"lq more={b2s r.2} rows={showKeys r.1}"])
    | _, _, _ => bad st
  | ["run"] =>
    if !st.ok then (st, ["bad-op"]) else
    let nl := st.lods.length
    let store := (List.range st.req.cols.length).map (fun q => (List.range nl).map (fun k => cellAns st.cells q k))
    match getTable .fixed st.req st.lods store with
    | none => (st, ["err"])
    | some r =>
      (st, s!"res n={r.1.length} more={b2s r.2}" ::
        r.1.map (fun o => s!"r {o.key.time} {showList o.key.tags} {o.key.skey} {showData o.data}"))
  | ["seltab"] =>
    -- DigestWhat.Selector() for every code 0..29
    (st, ["seltab " ++ " ".intercalate ((List.range 30).map (fun d => s!"{(selectorOf d).1}:{(selectorOf d).2}"))])
  | ["whats", ds, fs] =>
    -- the requested functions in request order (digest codes, value field of each): run getHandlerWhat, use its
    -- grouping as the request's columns
    match parseNatList? ds, kv? fs "f=" >>= parseNatList? with
    | some ds, some fs =>
      if ds.length ≠ fs.length then bad st else
      let request : List Fn := (ds.zip fs).map (fun p => ⟨p.1, p.2⟩)
      let gs := getHandlerWhat request
      let showSel := "/".intercalate (gs.map (fun g => showList (g.sel.map (·.digest))))
      let showQry := "/".intercalate (gs.map (fun g =>
        ",".intercalate ((g.qry ++ List.replicate (tsValueCount - g.qry.length) (0, 0)).map (fun p => s!"{p.1}:{p.2}"))))
      ({ st with req := { st.req with cols := colsOf request } },
        [s!"hw sorted={showList ((sortFns request).map (·.digest))} sel={if gs.isEmpty then "-" else showSel} qry={if gs.isEmpty then "-" else showQry}"])
    | _, _ => bad st
  | ["cmp", t1, tg1, sk1, "/", t2, tg2, sk2] =>
    -- queryTableRows.Less on two row markers
    match parseMarker? t1 tg1 sk1, parseMarker? t2 tg2 sk2 with
    | some a, some b =>
      let ra : RowRepr := ⟨a.time, a.tags.map (·.2), a.skey⟩
      let rb : RowRepr := ⟨b.time, b.tags.map (·.2), b.skey⟩
      (st, [s!"cmp {b2s (less ra rb)}"])
    | _, _ => bad st
  | ["mlt", t, tg, sk, "/", rt, rtg, rsk, "/", oe, fe] =>
    -- lessThan of a row marker against a storage row
    match parseMarker? t tg sk, rt.toInt?, parseIntList? rtg, rsk.toNat?, parseBool? oe, parseBool? fe with
    | some m, some rt, some rtg, some rsk, some oe, some fe =>
      (st, [s!"mlt {b2s (lessThan m ⟨rt, rtg, rsk⟩ oe fe)}"])
    | _, _, _, _, _, _ => bad st
  | ["hrun"] =>
    -- handleGetTable from the LOD list on (LODs ascending as GetLODs returns them)
    if !st.ok then (st, ["bad-op"]) else
    let nl := st.lods.length
    let store := (List.range st.req.cols.length).map (fun q => (List.range nl).map (fun k => cellAns st.cells q k))
    match handleGetTable .keeps .fixed st.req st.lods store with
    | none => (st, ["err"])
    | some r =>
      (st, s!"res n={r.1.length} more={b2s r.2}" ::
        r.1.map (fun o => s!"r {o.key.time} {showList o.key.tags} {o.key.skey} {showData o.data}"))
  | _ => bad st

def main : IO Unit :=
  Driver.run { init := {}, step := step }
