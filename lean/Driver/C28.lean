/-
  Driver.C28 — replays the ops of go/C28 (verif-c28) on the model parser / printer of SH.Model.PromSyntax.

    > parse <tokens>   →  < lex 0|1, then < ok <ast> + < wf 0|1 | < err
                           (`tokOk` on every token, model `parse`, and whether the tree satisfies `wf`)
    > lexstr <hex>     →  < str <length of the STRING token> | < err     (SH.Model.PromLex.lexStringTok on the bytes)
    > lexnum|lexdur <hex> → < num <len> | dur <len> | err   (lexNumberOrDuration / lexDuration of SH.Model.PromLex)
    > pdur <hex>       →  < secs <n>|X                 (parseDuration on a DURATION token's text)
    > durtext <n>      →  < text <hex>                 (`%ds`)
    > lexall <hex>     →  < all NAME:len … EOF|ERR        (SH.Model.PromLexAll.lexAll: the whole lexer state machine)
    > atms <hex>       →  < ms <k>|X                   (decimal seconds of an `@` literal → milliseconds)
    > lexword <hex>    →  < word <len> <TOKEN>         (lexKeywordOrIdentifier + keyword table = classifyKind)
    > print <ast>      →  < toks <tokens>             (model `printExpr .fixed`, numbers/durations/strings reduced to
                                                       raw text / value exactly as the harness reduces the lexed real output)
-/
import Driver.Common
import SH.Model.PromSyntax
import SH.Model.PromLex
import SH.Model.PromLexAll

open SH SH.PromSyntax

namespace C28

def optInt (s : String) : Option Int := if s = "X" then none else s.toInt?

def punct : List (String × Tok) :=
  [("LEFT_PAREN", .lp), ("RIGHT_PAREN", .rp), ("LEFT_BRACE", .lk), ("RIGHT_BRACE", .rk), ("LEFT_BRACKET", .lb),
   ("RIGHT_BRACKET", .rb), ("COMMA", .comma), ("COLON", .colon), ("EQL", .eql), ("DOLLAR", .dollar), ("BIND", .bind),
   ("AT", .att), ("EQL_REGEX", .eqlre), ("NEQ_REGEX", .neqre), ("ERR", .err)]

def readTok (s : String) : Option Tok :=
  match s.splitOn "/" with
  | ["NUMBER", raw, canon, ms, msneg] =>
    some (.word (.num (if canon = "ERR" then none else some canon) (optInt ms) (optInt msneg)) raw)
  | ["STRING", v, fl] => some (.str v (fl.contains 'u') (fl.contains 'r'))
  | ["DURATION", d] => some (.dur d.toNat?)
  | ["IDENTIFIER", t] => some (.word .ident t)
  | ["METRIC_IDENTIFIER", t] => some (.word .mident t)
  | [n] => match punct.lookup n with
    | some t => some t
    | none => match BinOp.ofYacc? n with
      | some o => if o.isWord then none else some (.sym o)
      | none => none
  | [n, t] => if n = "NUMBER" || n = "STRING" || n = "DURATION" then none else some (.word (.kw n) t)
  | _ => none

/-- lexInsideBraces: between `{` and `}` every word is an IDENTIFIER (`Tok.lname`) -/
def inBraces : Bool → List Tok → List Tok
  | _, [] => []
  | _, .lk :: ts => .lk :: inBraces true ts
  | _, .rk :: ts => .rk :: inBraces false ts
  | true, .word .ident t :: ts => .lname t :: inBraces true ts
  | b, t :: ts => t :: inBraces b ts

def readToks (l : List String) : Option (List Tok) :=
  match l with
  | ["-"] => some []
  | l => (l.mapM readTok).map (inBraces false)

def showTokReduced : Tok → String
  | .lp => "LEFT_PAREN" | .rp => "RIGHT_PAREN" | .lk => "LEFT_BRACE" | .rk => "RIGHT_BRACE" | .lb => "LEFT_BRACKET"
  | .rb => "RIGHT_BRACKET" | .comma => "COMMA" | .colon => "COLON" | .eql => "EQL" | .dollar => "DOLLAR" | .bind => "BIND"
  | .att => "AT" | .eqlre => "EQL_REGEX" | .neqre => "NEQ_REGEX" | .err => "ERR"
  | .sym o => o.yacc
  | .word .ident t => "IDENTIFIER/" ++ t
  | .lname t => "IDENTIFIER/" ++ t
  | .word .mident t => "METRIC_IDENTIFIER/" ++ t
  | .word (.kw n) t => n ++ "/" ++ t
  | .word (.num _ _ _) raw => "NUMBER/" ++ raw
  | .str v _ _ => "STRING/" ++ v
  | .dur (some n) => "DURATION/" ++ toString n ++ "s"
  | .dur none => "DURATION/X"

/-- the real lexer stops at its first error -/
def untilErr : List Tok → List Tok
  | [] => []
  | .err :: _ => [.err]
  | t :: ts => t :: untilErr ts

def showToks (ts : List Tok) : String :=
  match untilErr ts with
  | [] => "-"
  | l => " ".intercalate (l.map showTokReduced)

/-! reading / writing trees in the harness' prefix notation -/

def readAt (s : String) : Option AtMod :=
  if s = "n" then some .none else if s = "s" then some .start else if s = "e" then some .stop
  else if s.startsWith "t" then (s.drop 1).toString.toInt?.map .ts else none

def showAt : AtMod → String
  | .none => "n" | .start => "s" | .stop => "e" | .ts n => "t" ++ toString n

def unplain (s : String) : String := if s = "-" then "" else s
def plain (s : String) : String := if s = "" then "-" else s

def readTy (s : String) : Option MatchTy :=
  match s with
  | "0" => some .eq | "1" => some .ne | "2" => some .re | "3" => some .nre | _ => none

def tyIdx : MatchTy → Nat
  | .eq => 0 | .ne => 1 | .re => 2 | .nre => 3

def readMatchers : Nat → List String → Option (List Matcher × List String)
  | 0, l => some ([], l)
  | n + 1, name :: ty :: v :: l => do
    let t ← readTy ty
    let (ms, l') ← readMatchers n l
    pure (⟨unplain name, t, v⟩ :: ms, l')
  | _, _ => none

def readSel : List String → Option (Sel × List String)
  | name :: a :: off :: offex :: nm :: l => do
    let a ← readAt a
    let off ← off.toInt?
    let ex ← parseIntList? offex
    let n ← nm.toNat?
    let (ms, l') ← readMatchers n l
    pure ({ name := unplain name, ms := ms, atm := a, off := off, offEx := ex }, l')
  | _ => none

def readBool (s : String) : Option Bool :=
  match s with
  | "0" => some false | "1" => some true | _ => none

def unlist (s : String) : List String := parseList s

mutual
partial def readExpr : List String → Option (Expr × List String)
  | "num" :: sign :: mag :: l => some (.num ⟨sign == "-", mag⟩, l)
  | "str" :: v :: l => some (.str v, l)
  | "vec" :: l => do
    let (s, l') ← readSel l
    pure (.vec s, l')
  | "mat" :: l => do
    let (s, l') ← readSel l
    match l' with
    | r :: l'' => do
      let r ← r.toNat?
      pure (.mat s r, l'')
    | [] => none
  | "sub" :: r :: st :: a :: off :: l => do
    let r ← r.toNat?
    let st ← st.toNat?
    let a ← readAt a
    let off ← off.toInt?
    let (e, l') ← readExpr l
    pure (.sub e r st a off, l')
  | "par" :: l => do
    let (e, l') ← readExpr l
    pure (.par e, l')
  | "un" :: op :: l => do
    let neg ← if op = "SUB" then some true else if op = "ADD" then some false else none
    let (e, l') ← readExpr l
    pure (.un neg e, l')
  | "bin" :: op :: b :: card :: on :: labels :: incl :: l => do
    let o ← BinOp.ofYacc? op
    let b ← readBool b
    let card ← card.toNat?
    let on ← readBool on
    let (lhs, l1) ← readExpr l
    let (rhs, l2) ← readExpr l1
    pure (.bin o ⟨b, card, on, unlist labels, unlist incl⟩ lhs rhs, l2)
  | "agg" :: op :: wo :: gr :: n :: l => do
    let wo ← readBool wo
    let n ← n.toNat?
    let (args, l') ← readArgs n l
    pure (.agg op wo (unlist gr) args, l')
  | "call" :: fn :: n :: l => do
    let n ← n.toNat?
    let (args, l') ← readArgs n l
    pure (.call fn args, l')
  | _ => none
partial def readArgs : Nat → List String → Option (Args × List String)
  | 0, l => some (.nil, l)
  | n + 1, l => do
    let (e, l1) ← readExpr l
    let (rest, l2) ← readArgs n l1
    pure (.cons e rest, l2)
end

def matcherLe (a b : Matcher) : Bool :=
  if a.name != b.name then a.name < b.name
  else if tyIdx a.ty != tyIdx b.ty then tyIdx a.ty < tyIdx b.ty
  else a.val ≤ b.val

def insertM (m : Matcher) : List Matcher → List Matcher
  | [] => [m]
  | x :: xs => if matcherLe m x then m :: x :: xs else x :: insertM m xs

def sortM (l : List Matcher) : List Matcher := l.foldr insertM []

def showSel (s : Sel) : String :=
  let ms := sortM s.ms
  " ".intercalate ([plain s.name, showAt s.atm, toString s.off, showList s.offEx, toString ms.length] ++
    ms.flatMap (fun m => [plain m.name, toString (tyIdx m.ty), m.val]))

def b01 (b : Bool) : String := if b then "1" else "0"

mutual
partial def showExpr : Expr → String
  | .num n => "num " ++ (if n.neg then "-" else "+") ++ " " ++ n.mag
  | .str v => "str " ++ v
  | .vec s => "vec " ++ showSel s
  | .mat s r => "mat " ++ showSel s ++ " " ++ toString r
  | .sub e r st a off => s!"sub {r} {st} {showAt a} {off} " ++ showExpr e
  | .par e => "par " ++ showExpr e
  | .un neg e => "un " ++ (if neg then "SUB" else "ADD") ++ " " ++ showExpr e
  | .bin o m l r => s!"bin {o.yacc} {b01 m.bool} {m.card} {b01 m.on} {showList m.labels} {showList m.incl} " ++ showExpr l ++ " " ++ showExpr r
  | .agg op wo gr args => s!"agg {op} {b01 wo} {showList gr} {args.length}" ++ showArgs args
  | .call fn args => s!"call {fn} {args.length}" ++ showArgs args
partial def showArgs : Args → String
  | .nil => ""
  | .cons e rest => " " ++ showExpr e ++ showArgs rest
end

def showNumTok : SH.PromLex.NumTok → String
  | .num n => s!"num {n}"
  | .dur n => s!"dur {n}"
  | .err => "err"

def step (_ : Unit) (toks : List String) : Unit × List String :=
  match toks with
  | "parse" :: l =>
    match readToks l with
    | none => ((), ["bad-op"])
    | some ts =>
      -- `lex`: hypothesis of accepted_roundtrip (every token is one the lexer can produce, no 0-second duration),
      -- `wf`: hypothesis of parse_print, evaluated on the parser's output
      let lex := "lex " ++ b01 (ts.all tokOk)
      match parse ts with
      | some e => ((), [lex, "ok " ++ showExpr e, "wf " ++ b01 (wf e)])
      | none => ((), [lex, "err"])
  | ["lexstr", hx] =>
    -- the STRING token at the head of the bytes: model of lexString / lexEscape / lexRawString
    match parseHex? hx with
    | none => ((), ["bad-op"])
    | some bs => match SH.PromLex.lexStringTok (bs.map (·.toNat)) with
      | some (tok, _) => ((), ["str " ++ toString tok.length])
      | none => ((), ["err"])
  | ["lexnum", hx] =>          -- lexNumberOrDuration on the bytes
    match parseHex? hx with
    | none => ((), ["bad-op"])
    | some bs => ((), [showNumTok (SH.PromLex.lexNumOrDur (bs.map (·.toNat)))])
  | ["lexdur", hx] =>          -- lexDuration (first token after `[`) on the bytes
    match parseHex? hx with
    | none => ((), ["bad-op"])
    | some bs => ((), [showNumTok (SH.PromLex.lexDurationB (bs.map (·.toNat)))])
  | ["pdur", hx] =>            -- parser.parseDuration on the text of a DURATION token
    match parseHex? hx with
    | none => ((), ["bad-op"])
    | some bs => match SH.PromLex.parseDuration (bs.map (·.toNat)) with
      | some n => ((), ["secs " ++ toString n])
      | none => ((), ["secs X"])
  | ["durtext", n] =>          -- the printer's `%ds`
    match n.toNat? with
    | some n => ((), ["text " ++ showHex ((SH.PromLex.printSeconds n).map UInt8.ofNat)])
    | none => ((), ["bad-op"])
  | ["lexall", hx] =>          -- the whole lexer on a text: token names and lengths up to EOF / the first error
    match parseHex? hx with
    | none => ((), ["bad-op"])
    | some bs =>
      let r := SH.PromLex.lexAll (bs.map (·.toNat))
      let toks := r.1.map (fun t => t.name ++ ":" ++ toString t.len)
      ((), [" ".intercalate ("all" :: toks ++ [match r.2 with | .eof => "EOF" | .err => "ERR"])])
  | ["atms", hx] =>            -- decimal seconds → ms of an `@` literal
    match parseHex? hx with
    | none => ((), ["bad-op"])
    | some bs => match SH.PromLex.atMs (bs.map (·.toNat)) with
      | some k => ((), ["ms " ++ toString k])
      | none => ((), ["ms X"])
  | ["lexword", hx] =>         -- lexKeywordOrIdentifier: length of the word and the token the keyword table makes of it
    match parseHex? hx with
    | none => ((), ["bad-op"])
    | some bs =>
      let w := (SH.PromLex.lexWord (bs.map (·.toNat))).1
      ((), [s!"word {w.length} {kindTokName (classifyKind (String.ofList (w.map Char.ofNat)))}"])
  | "print" :: l =>
    match readExpr l with
    | some (e, []) => ((), ["toks " ++ showToks (printExpr .fixed e)])
    | _ => ((), ["bad-op"])
  | _ => ((), ["bad-op"])

end C28

def main : IO Unit := Driver.run { init := (), step := C28.step }
