import Driver.Common
import SH.Model.Routing
import SH.Gen.C10

open SH SH.Routing

structure St where
  win : Window := []
  r   : Nat := 0      -- replicaKey - 1
  sw  : Nat := 0
  hw  : Nat := 0

def parseStrategy? : String → Option Strategy
  | "f" => some .fixed
  | "m" => some .byMetric
  | "h" => some .tagsHash
  | "b" => some .builtin
  | "x" => some .other
  | _ => none

def b2s (b : Bool) : String := if b then "1" else "0"

def showRaw : Option (Nat × Bool) → String
  | none => "panic"
  | some (n, ok) => s!"{n}:{b2s ok}"

def showAgent : Option AgentShard → String
  | none => "panic"
  | some a => s!"{a.shard1}:{b2s a.ok}:" ++ (match a.shard2 with | none => "-" | some n => toString n)

def showApi (m : Meta) (cnt : Nat) : String :=
  match apiShard m cnt with
  | none => "panic"
  | some n => s!"{n}:{b2s (apiSharded m)}"

def shardOp (a : List String) : Option String := do
  match a with
  | [fk, st, num, mid, km, fk2, cnt, ns, hash] =>
    let fk ← fk.toNat?
    let st ← parseStrategy? st
    let num ← num.toNat?
    let mid ← mid.toInt?
    let km ← km.toInt?
    let fk2 ← fk2.toNat?
    let cnt ← cnt.toNat?
    let ns ← ns.toNat?
    let hash ← hash.toNat?
    let m : Meta := { fixedKey := fk, strategy := st, shardNum := num, metricID := mid, fixedKey2 := fk2 }
    pure s!"raw={showRaw (shardRaw m km hash cnt)} agent={showAgent (agentShard m km hash cnt ns)} api={showApi m cnt}"
  | _ => none

def parseStags? (s : String) : Option (List (List UInt8)) :=
  (parseList s).mapM parseHex?

def keyOp (a : List String) : Option String := do
  match a with
  | [ts, metric, tags, stags] =>
    let ts ← ts.toNat?
    let metric ← metric.toInt?
    let tags ← parseIntList? tags
    let stags ← parseStags? stags
    let k : Key := { ts := ts, metric := metric, tags := tags, stags := stags }
    pure s!"m={showHex (marshalKey k)} in={showHex (hashInput k)}"
  | _ => none

def repOp (a : List String) : Option String := do
  match a with
  | [_ns, _shard, t, mask] =>
    let t ← t.toNat?
    let mask ← mask.toNat?
    let (rep, sp) := replicaFor (fun i => mask.testBit i) t
    pure (s!"r=" ++ (match rep with | none => "-" | some n => toString n) ++ s!" spare={b2s sp}")
  | _ => none

def showFiled : Filed → String
  | .recent i bt => s!"recent idx={i} bt={bt}"
  | .historic k => s!"historic key={k}"
  | .futureHistoric => "reject future-historic discard=1"
  | .beyondWindow => "reject beyond-window discard=1"
  | .futureRecent => "reject future-recent discard=1"
  | .lateRecent => "reject late-recent discard=0"
  | .noWindow => "panic"

def parseBool? : String → Option Bool
  | "0" => some false
  | "1" => some true
  | _ => none

def step (s : St) (toks : List String) : St × List String :=
  match toks with
  | "shard" :: a => (s, [(shardOp a).getD "bad-op"])
  | "rep" :: a => (s, [(repOp a).getD "bad-op"])
  | "key" :: a => (s, [(keyOp a).getD "bad-op"])
  | ["agg", "new", rk, sw, hw] =>
    match rk.toNat?, sw.toNat?, hw.toNat? with
    | some rk, some sw, some hw =>
      if rk = 0 then (s, ["bad-op"]) else ({ win := [], r := rk - 1, sw := sw, hw := hw }, [])
    | _, _, _ => (s, ["bad-op"])
  | ["agg", "sw", sw] =>
    match sw.toNat? with
    | some sw => ({ s with sw := sw }, [])
    | none => (s, ["bad-op"])
  | ["agg", "adv", now] =>
    match now.toNat? with
    | some now =>
      let (ready, w) := advance now s.sw SH.Gen.C10.futureWindow s.win
      ({ s with win := w }, [s!"win={showList w} ready={showList ready}"])
    | none => (s, ["bad-op"])
  | ["agg", "send", t, hist, spare] =>
    match t.toNat?, parseBool? hist, parseBool? spare with
    | some t, some hist, some _ => (s, [showFiled (file s.win s.r s.hw hist t)])
    | _, _, _ => (s, ["bad-op"])
  | _ => (s, ["bad-op"])

def main : IO Unit := Driver.run { init := ({} : St), step := step }
