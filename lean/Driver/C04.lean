import Driver.Common
import SH.Model.Agg
import SH.Model.UniqueTable
import SH.Gen.C04

/-!
  drv_c04 — replays the op stream of go/C04/overlay/cmd/verif-c04 on the model (SH.Model.Agg, SH.Model.Unique).
  Registers m0..m15 hold MultiValue (ItemValue + ChUnique), t0..t7 hold API rows (tsValues).
  Every sketch op is replayed twice: on the set model (SH.Model.Unique, `U` lines) and on the concrete open-addressing
  table (SH.Model.UniqueTable, `B` lines: slot-by-slot layout digest and the executable well-formedness check).
  The model variant is the code after the fix: commits (Merge filters with the receiver's skipDegree, MergeRead
  adopts the incoming skipDegree, table degree clamped to the maximum); constants come from SH.Gen.C04 (regenerated from /repo).
-/
open SH SH.Agg SH.Unique

def P : Params := { bits := 32, maxDeg := SH.Gen.C04.maxSizeDegree, initDeg := SH.Gen.C04.initSizeDegree }
def MV : MergeV := .chGood
def RV : ReadV := .adopt
def SV : SdV := .clamp

structure St where
  m : Array Multi
  t : Array Ts
  mb : Array UTable.Tb     -- concrete table of m[i].u
  tb : Array UTable.Tb     -- concrete table of t[i].u

def RZ : UTable.ResizeV := .full

def tsZero : Ts :=
  { min := 0, max := 0, sum := 0, count := 0, sumsq := 0, card := 0, mergeCount := 0,
    minHost := ⟨0, 0⟩, maxHost := ⟨0, 0⟩, minHostStr := ⟨0, 0⟩, maxHostStr := ⟨0, 0⟩, u := nilSk }

instance : Inhabited Multi := ⟨Multi.zero⟩
instance : Inhabited Ts := ⟨tsZero⟩

instance : Inhabited UTable.Tb := ⟨UTable.nilTb⟩

def St.init : St := { m := Array.replicate 16 Multi.zero, t := Array.replicate 8 tsZero,
                      mb := Array.replicate 16 UTable.nilTb, tb := Array.replicate 8 UTable.nilTb }

def b01 (b : Bool) : String := if b then "1" else "0"

def sortNat (l : List Nat) : List Nat := (l.toArray.qsort (· < ·)).toList

def showV (v : Value) : String :=
  s!"V cnt={v.cnt} ch={v.chost} set={b01 v.set} min={v.vmin} max={v.vmax} sum={v.sum} sq={v.sumsq} minh={v.minHost} maxh={v.maxHost}"

def showU (s : Sk) : String :=
  let l := s.items.toList P.bits
  let nz := l.filter (· != 0)
  let sum := nz.foldl (· + ·) 0
  let x := nz.foldl (fun a b => a ^^^ b) 0
  let base := s!"U nil={b01 (!s.alloc)} k={s.k} sd={s.sd} n={s.cnt} z={b01 (has P s 0)} stored={nz.length} sum={sum} xor={x}"
  if nz.length ≤ 40 then base ++ s!" items={showList (sortNat nz)}" else base

def posDigest (l : List Nat) : Nat :=
  (l.foldl (fun (a : Nat × Nat) x => (a.1 + 1, (a.2 + (a.1 + 1) * x) % 18446744073709551616)) (0, 0)).2

def showB (t : UTable.Tb) : String :=
  let l := t.buf.toList
  let base := s!"B nil={b01 (!t.alloc)} k={t.k} sd={t.sd} n={t.cnt} z={b01 t.zero} slots={l.length} wf={b01 (UTable.wfb P t)} pos={posDigest l}"
  if l.length ≤ 64 then base ++ s!" buf={showList l}" else base

def seqInsertB (t : UTable.Tb) (base stride : Nat) : Nat → Nat → UTable.Tb
  | 0, _ => t
  | n + 1, i => seqInsertB (UTable.insertHash RZ P t ((((base + i * stride) % 4294967296) * 2654435761) % 4294967296)) base stride n (i + 1)

def showArg (a : Arg) : String := s!"{a.arg}:{a.val}"

def showT (t : Ts) : String :=
  s!"T min={t.min} max={t.max} sum={t.sum} count={t.count} sq={t.sumsq} card={t.card} mc={t.mergeCount} " ++
  s!"minh={showArg t.minHost} maxh={showArg t.maxHost} sminh={showArg t.minHostStr} smaxh={showArg t.maxHostStr}"

def reg? (s : String) (n : Nat) : Option Nat :=
  match s.toNat? with
  | some r => if r < n then some r else none
  | none => none

def ints? (l : List String) : Option (List Int) := l.mapM (·.toInt?)

def seqInsert (s : Sk) (base stride : Nat) : Nat → Nat → Sk
  | 0, _ => s
  | n + 1, i => seqInsert (insertHash P s ((((base + i * stride) % 4294967296) * 2654435761) % 4294967296)) base stride n (i + 1)

def bad (st : St) : St × List String := (st, ["bad-op"])

def setM (st : St) (r : Nat) (x : Multi) : St := { st with m := st.m.set! r x }
def setB (st : St) (r : Nat) (x : UTable.Tb) : St := { st with mb := st.mb.set! r x }
def setTB (st : St) (r : Nat) (x : UTable.Tb) : St := { st with tb := st.tb.set! r x }
def setT (st : St) (r : Nat) (x : Ts) : St := { st with t := st.t.set! r x }

def stepM (st : St) (toks : List String) : St × List String :=
  match toks with
  | ["new", r] => match reg? r 16 with
    | some r => (setB (setM st r Multi.zero) r UTable.nilTb, [])
    | none => bad st
  | ["copy", r1, r2] => match reg? r1 16, reg? r2 16 with
    | some r1, some r2 => (setB (setM st r1 st.m[r2]!) r1 st.mb[r2]!, [])
    | _, _ => bad st
  | ["cnt", r, c, h] => match reg? r 16, c.toInt?, h.toNat? with
    | some r, some c, some h =>
      let x := { st.m[r]! with v := simpleCounter c h }
      (setM st r x, [showV x.v])
    | _, _, _ => bad st
  | ["val", r, v, c, h] => match reg? r 16, v.toInt?, c.toInt?, h.toNat? with
    | some r, some v, some c, some h =>
      let x := { st.m[r]! with v := simpleValue v c h }
      (setM st r x, [showV x.v])
    | _, _, _, _ => bad st
  | ["raw", r, cnt, ch, set, vmin, vmax, sum, sq, minh, maxh] =>
    match reg? r 16, ints? [cnt, vmin, vmax, sum, sq], [ch, set, minh, maxh].mapM (·.toNat?) with
    | some r, some [cnt, vmin, vmax, sum, sq], some [ch, set, minh, maxh] =>
      if set > 1 then bad st else
      let v : Value := { cnt := cnt, chost := ch, vmin := vmin, vmax := vmax, sum := sum, sumsq := sq,
                         minHost := minh, maxHost := maxh, set := set == 1 }
      let x := { st.m[r]! with v := v }
      (setM st r x, [showV x.v])
    | _, _, _ => bad st
  | ["addc", r, d, c, h] => match reg? r 16, d.toNat?, c.toInt?, h.toNat? with
    | some r, some d, some c, some h =>
      let old := st.m[r]!
      let x := { old with v := addCounterHost d old.v c h }
      (setM st r x, [s!"drew={b01 (needsDraw old.v c h)}", showV x.v])
    | _, _, _, _ => bad st
  | ["addv", r, d, v, c, h] => match reg? r 16, d.toNat?, v.toInt?, c.toInt?, h.toNat? with
    | some r, some d, some v, some c, some h =>
      let old := st.m[r]!
      let x := { old with v := addValueCounterHost d old.v v c h }
      (setM st r x, [s!"drew={b01 (needsDraw old.v c h)}", showV x.v])
    | _, _, _, _, _ => bad st
  | ["uniq", r, d, c, h, vs] => match reg? r 16, d.toNat?, c.toInt?, h.toNat?, parseIntList? vs with
    | some r, some d, some c, some h, some vs =>
      let old := st.m[r]!
      let x := applyUnique P d old vs c h
      let b := if vs.isEmpty then st.mb[r]! else
        vs.foldl (fun t v => UTable.insertHash RZ P (UTable.ensure P t) (uintHash32 (hashKey v)).toNat) st.mb[r]!
      (setB (setM st r x) r b, [s!"drew={b01 (!vs.isEmpty && needsDraw old.v c h)}", showV x.v, showU x.u, showB b])
    | _, _, _, _, _ => bad st
  | ["vals", r, d, _legacy, c, total, h, vs, hv, hc] =>
    match reg? r 16, d.toNat?, c.toInt?, total.toInt?, h.toNat?, parseIntList? vs, parseIntList? hv, parseIntList? hc with
    | some r, some d, some c, some total, some h, some vs, some hv, some hc =>
      if hv.length ≠ hc.length then bad st else
      let old := st.m[r]!
      let x := applyValues d old vs (hv.zip hc) c total h
      (setM st r x, [s!"drew={b01 (decide (0 < total) && needsDraw old.v c h)}", showV x.v])
    | _, _, _, _, _, _, _, _ => bad st
  | ["load", r, k, xs] => match reg? r 16, k.toNat?, parseNatList? xs with
    | some r, some k, some xs =>
      if xs.any (· ≥ 4294967296) then bad st else
      let w : Unique.Wire := { k := k, ic := xs.length, xs := xs }
      let x := { st.m[r]! with u := unmarshal SV P w }
      let b := UTable.unmarshal SV P w
      (setB (setM st r x) r b, [showU x.u, showB b])
    | _, _, _ => bad st
  | ["ins", r, v] => match reg? r 16, v.toNat? with
    | some r, some v =>
      if v ≥ 18446744073709551616 then bad st else
      let old := st.m[r]!
      let x := { old with u := insertVal P old.u (UInt64.ofNat v) }
      let b := UTable.insertHash RZ P (UTable.ensure P st.mb[r]!) (uintHash32 (UInt64.ofNat v)).toNat
      (setB (setM st r x) r b, [showU x.u, showB b])
    | _, _ => bad st
  | ["insh", r, v] => match reg? r 16, v.toNat? with
    | some r, some v =>
      if v ≥ 4294967296 then bad st else
      let old := st.m[r]!
      let x := { old with u := insertHash P (ensure P old.u) v }
      let b := UTable.insertHash RZ P (UTable.ensure P st.mb[r]!) v
      (setB (setM st r x) r b, [showU x.u, showB b])
    | _, _ => bad st
  | ["seq", r, base, stride, n] => match reg? r 16, base.toNat?, stride.toNat?, n.toNat? with
    | some r, some base, some stride, some n =>
      if n = 0 || n > 300000 then bad st else
      let old := st.m[r]!
      let x := { old with u := seqInsert (ensure P old.u) base stride n 0 }
      let b := seqInsertB (UTable.ensure P st.mb[r]!) base stride n 0
      (setB (setM st r x) r b, [showU x.u, showB b])
    | _, _, _, _ => bad st
  | ["merge", r1, r2, d] => match reg? r1 16, reg? r2 16, d.toNat? with
    | some r1, some r2, some d =>
      let a := st.m[r1]!
      let b := st.m[r2]!
      let x := mergeMulti MV P d a b
      let tb := UTable.merge RZ P st.mb[r1]! st.mb[r2]!
      (setB (setM st r1 x) r1 tb, [s!"drew={b01 (needsDraw a.v b.v.cnt b.v.chost)}", showV x.v, showU x.u, showB tb])
    | _, _, _ => bad st
  | ["umerge", r1, r2] => match reg? r1 16, reg? r2 16 with
    | some r1, some r2 =>
      let a := st.m[r1]!
      let x := { a with u := Unique.merge MV P a.u st.m[r2]!.u }
      let tb := UTable.merge RZ P st.mb[r1]! st.mb[r2]!
      (setB (setM st r1 x) r1 tb, [showU x.u, showB tb])
    | _, _ => bad st
  | ["mread", r1, r2] => match reg? r1 16, reg? r2 16 with
    | some r1, some r2 =>
      let a := st.m[r1]!
      let x := { a with u := mergeRead RV SV P a.u (marshal P st.m[r2]!.u) }
      let tb := UTable.mergeRead RZ SV P st.mb[r1]! (UTable.marshal st.mb[r2]!)
      (setB (setM st r1 x) r1 tb, [showU x.u, showB tb])
    | _, _ => bad st
  | ["um", r1, r2] => match reg? r1 16, reg? r2 16 with
    | some r1, some r2 =>
      let a := st.m[r1]!
      let x := { a with u := unmarshal SV P (marshal P st.m[r2]!.u) }
      let tb := UTable.unmarshal SV P (UTable.marshal st.mb[r2]!)
      (setB (setM st r1 x) r1 tb, [showU x.u, showB tb])
    | _, _ => bad st
  | _ => bad st

def stepT (st : St) (toks : List String) : St × List String :=
  match toks with
  | ["copy", t1, t2] => match reg? t1 8, reg? t2 8 with
    | some t1, some t2 => (setTB (setT st t1 st.t[t2]!) t1 st.tb[t2]!, [])
    | _, _ => bad st
  | "set" :: t :: r :: rest => match reg? t 8, reg? r 16, ints? rest with
    | some t, some r, some [mn, mx, sum, count, sq, card, mina, minv, maxa, maxv, smina, sminv, smaxa, smaxv] =>
      if mina < 0 || maxa < 0 || smina < 0 || smaxa < 0 then bad st else
      let x : Ts := { min := mn, max := mx, sum := sum, count := count, sumsq := sq, card := card, mergeCount := 0,
                      minHost := ⟨mina.toNat, minv⟩, maxHost := ⟨maxa.toNat, maxv⟩,
                      minHostStr := ⟨smina.toNat, sminv⟩, maxHostStr := ⟨smaxa.toNat, smaxv⟩,
                      u := unmarshal SV P (marshal P st.m[r]!.u) }
      let b := UTable.unmarshal SV P (UTable.marshal st.mb[r]!)
      (setTB (setT st t x) t b, [showT x, showU x.u, showB b])
    | _, _, _ => bad st
  | ["merge", t1, t2] => match reg? t1 8, reg? t2 8 with
    | some t1, some t2 =>
      let x := tsMerge MV P st.t[t1]! st.t[t2]!
      let b := if st.t[t1]!.mergeCount = 0 then UTable.merge RZ P (UTable.merge RZ P UTable.nilTb st.tb[t1]!) st.tb[t2]!
               else UTable.merge RZ P st.tb[t1]! st.tb[t2]!
      (setTB (setT st t1 x) t1 b, [showT x, showU x.u, showB b])
    | _, _ => bad st
  | _ => bad st

def step (st : St) (toks : List String) : St × List String :=
  match toks with
  | "m" :: rest => stepM st rest
  | "ts" :: rest => stepT st rest
  | _ => bad st

def main : IO Unit :=
  Driver.run { init := St.init, step := step }
