import Driver.Common
import SH.Model.Egress

open SH SH.Egress

structure St where
  c : Cfg
  p : Pool
  a0 : AddrPool := {}
  a1 : AddrPool := {}

def b2n (b : Bool) : Nat := if b then 1 else 0

def fnvStep (h : UInt64) (b : UInt8) : UInt64 := (h ^^^ b.toUInt64) * 1099511628211

def fnvPkts (ps : List Pkt) : UInt64 :=
  ps.foldl (fun h p => p.foldl fnvStep h) 14695981039346656037

def hexNat (n : Nat) (digits : Nat) : String :=
  String.ofList ((List.range digits).reverse.map (fun k => hexChar (n / 16 ^ k % 16)))

def pcStr : PC → String
  | .idle => "I" | .swap1 => "P1" | .writing => "W" | .swap2 => "P2"

def stLine (s : Pool) : String :=
  s!"st prim={b2n s.prim} wi={s.b0.w.length},{s.b1.w.length} ri={s.b0.ri},{s.b1.ri} rm={s.b0.r.length},{s.b1.r.length} " ++
  s!"pc={pcStr s.b0.pc},{pcStr s.b1.pc} cl={b2n s.b0.closed},{b2n s.b1.closed} wb={s.wb} rc={b2n s.recon0},{b2n s.recon1}"

def evLine : Ev → String
  | .accepted i => s!"push acc={b2n i}"
  | .dropped => "push drop"
  | .ignored => "push ign"
  | .write i b => s!"write {b2n i} k={b.length} bytes={(b.map List.length).sum} fnv={hexNat (fnvPkts b).toNat 16}"
  | .ret i e => s!"ret {b2n i} {if e then "err" else "nil"}"
  | .stats f d w => s!"stats fwd={f} drop={d} werr={w}"
  | .report n => s!"report {n}"
  | .reportLost n => s!"report-lost {n}"
  | .recon t => s!"recon {b2n t}"
  | .bad => "bad-op"

def isSenderEv : Ev → Bool
  | .write .. => true
  | .ret .. => true
  | .bad => true
  | _ => false

/-- the code under test is the fixed variant: the timer callback broadcasts -/
def V : Variant := .signal

def runOps (c : Cfg) (s : Pool) (ops : List Op) : Pool × List Ev := runEv V c s ops

def parseBit? (s : String) : Option Bool :=
  if s = "0" then some false else if s = "1" then some true else none

def doOps (st : St) (ops : List Op) : St × List String :=
  let (p, evs) := runOps st.c st.p ops
  ({ st with p := p }, evs.map evLine ++ [stLine p])

/-- k packets `prefix ++ le32 (seq + j)`, each followed by the wake-ups it may have caused -/
def burst (c : Cfg) (s : Pool) (pre : List UInt8) : Nat → Nat → Pool × List Ev
  | 0, _ => (s, [])
  | k + 1, seq =>
    let (s1, e1) := runOps c s [.handle (pre ++ le32 seq), .wake false, .wake true]
    let (s2, e2) := burst c s1 pre k (seq + 1)
    (s2, e1 ++ e2)

def countEv (evs : List Ev) (f : Ev → Bool) : Nat := (evs.filter f).length

def step (st : St) (toks : List String) : St × List String :=
  match toks with
  | ["new", n] => match n.toNat? with
    | some n => ({ c := { bufLen := n }, p := {}, a0 := {}, a1 := {} }, [])
    | none => (st, ["bad-op"])
  | ["h", hx] => match parseHex? hx with
    | some b => doOps st [.handle b, .wake false, .wake true]
    | none => (st, ["bad-op"])
  | ["burst", k, seq, hx] => match k.toNat?, seq.toNat?, parseHex? hx with
    | some k, some seq, some pre =>
      let (p, evs) := burst st.c st.p pre k seq
      let a0 := countEv evs (· == .accepted false)
      let a1 := countEv evs (· == .accepted true)
      let d := countEv evs (· == .dropped)
      ({ st with p := p }, (evs.filter isSenderEv).map evLine ++ [s!"burst acc={a0},{a1} drop={d}", stLine p])
    | _, _, _ => (st, ["bad-op"])
  | ["pop", i] => match parseBit? i with
    | some i => doOps st [.pop i]
    | none => (st, ["bad-op"])
  | ["wres", i, "ok"] => match parseBit? i with
    | some i => doOps st [.wres i .ok]
    | none => (st, ["bad-op"])
  | ["wres", i, "err", n] => match parseBit? i, n.toNat? with
    | some i, some n => doOps st [.wres i (.err n)]
    | _, _ => (st, ["bad-op"])
  | ["timer"] => doOps st [.timer false, .wake false, .timer true, .wake true]
  | "e2e" :: _ => (st, [])
  | ["close"] => doOps st [.close, .wake false, .wake true]
  | ["stats"] => doOps st [.stats]
  | ["report", i, r] => match parseBit? i, (if r = "ok" then some true else if r = "err" then some false else none) with
    | some i, some ok =>
      let (p, evs) := runOps st.c st.p [.report i ok]
      ({ st with p := p }, (if evs.isEmpty then ["report none"] else evs.map evLine) ++ [stLine p])
    | _, _ => (st, ["bad-op"])
  | ["setpool", i, n] => match parseBit? i, n.toNat? with
    -- replacePool: a fresh addressPool {addrs = 0..n-1, head = 0}
    | some i, some n =>
      let ap : AddrPool := { addrs := List.range n, head := 0 }
      (if i then { st with a1 := ap } else { st with a0 := ap }, [])
    | _, _ => (st, ["bad-op"])
  | ["pick", i, k] => match parseBit? i, k.toNat? with
    | some i, some k =>
      let ap := if i then st.a1 else st.a0
      let res := pickN k ap
      let ap' := (List.range k).foldl (fun a _ => (pick a).1) ap
      let show1 : Option Nat → String := fun o => match o with | some x => toString x | none => "x"
      (if i then { st with a1 := ap' } else { st with a0 := ap' }, [s!"pick {if res.isEmpty then "-" else ",".intercalate (res.map show1)}"])
    | _, _ => (st, ["bad-op"])
  | ["reportpush", i, r, hx] =>
    -- reportWouldBlockIfAny takes the counter atomically (Swap) before it writes; a packet handed in while the report is
    -- being written is therefore a push AFTER the report step
    match parseBit? i, (if r = "ok" then some true else if r = "err" then some false else none), parseHex? hx with
    | some i, some ok, some body =>
      let (p1, e1) := runOps st.c st.p [.report i ok]
      let (p2, e2) := runOps st.c p1 [.handle body, .wake false, .wake true]
      ({ st with p := p2 }, (if e1.isEmpty then ["report none"] else e1.map evLine) ++ e2.map evLine ++ [stLine p2])
    | _, _, _ => (st, ["bad-op"])
  | ["recon", i] => match parseBit? i with
    | some i => doOps st [.takeRecon i]
    | none => (st, ["bad-op"])
  | _ => (st, ["bad-op"])

def main : IO Unit :=
  Driver.run { init := { c := { bufLen := 0 }, p := {} }, step := step }
