import Driver.Common
import SH.Model.Wire

open SH SH.Wire

def toNats (b : List UInt8) : Bytes := b.map (·.toNat)
def hexOf (b : Bytes) : String := showHex (b.map UInt8.ofNat)

def natList (l : List Nat) : String := showList l

def metricText (m : Metric) : String :=
  let tags := if m.tags.isEmpty then "-" else ",".intercalate (m.tags.map (fun t => hexOf t.1 ++ ":" ++ hexOf t.2))
  let hist := if m.hist.isEmpty then "-" else ",".intercalate (m.hist.map (fun h => s!"{h.1}/{h.2}"))
  s!"{m.mask}|{hexOf m.name}|{tags}|{m.counter}|{m.ts}|{natList m.value}|{natList m.unique}|{hist}"

def batchText (ms : List Metric) : String :=
  if ms.isEmpty then "-" else ";".intercalate (ms.map metricText)

def parseHexN? (s : String) : Option Bytes := (parseHex? s).map toNats

def parseTag? (s : String) : Option (Bytes × Bytes) :=
  match s.splitOn ":" with
  | [k, v] => do
    let k ← parseHexN? k
    let v ← parseHexN? v
    pure (k, v)
  | _ => none

def parsePair? (s : String) : Option (Nat × Nat) :=
  match s.splitOn "/" with
  | [a, b] => do
    let a ← a.toNat?
    let b ← b.toNat?
    pure (a, b)
  | _ => none

def parseMetric? (s : String) : Option Metric :=
  match s.splitOn "|" with
  | [mask, name, tags, counter, ts, value, unique, hist] => do
    let mask ← mask.toNat?
    let name ← parseHexN? name
    let tags ← (parseList tags).mapM parseTag?
    let counter ← counter.toNat?
    let ts ← ts.toNat?
    let value ← parseNatList? value
    let unique ← parseNatList? unique
    let hist ← (parseList hist).mapM parsePair?
    pure { mask, name, tags, counter, ts, value, unique, hist }
  | _ => none

def parseBatch? (s : String) : Option (List Metric) :=
  if s = "-" then some [] else (s.splitOn ";").mapM parseMetric?

def decObs (p : Parsed) : String :=
  match p.fmt with
  | .json => "json"
  | .legacy => "legacy"
  | .empty => "empty"
  | f =>
    let cls := match p.err with | none => "ok" | some e => e.name
    s!"{f.name} ret={cls} perr={if p.perr then 1 else 0} n={p.delivered.length} {batchText p.delivered}"

def step (_ : Unit) (toks : List String) : Unit × List String :=
  match toks with
  | ["dec", h] =>
    match parseHexN? h with
    | some b => ((), [decObs (parse .fixed b)])
    | none => ((), ["bad-op"])
  | ["enc", t] =>
    match parseBatch? t with
    | some ms => ((), [s!"tl={hexOf (tlEncBatch ms)} mp={hexOf (mpEncBatch ms)} pb={hexOf (pbEncBatch ms)}"])
    | none => ((), ["bad-op"])
  | _ => ((), ["bad-op"])

def main : IO Unit :=
  Driver.run { init := (), step := step }
