import Driver.Common
import SH.Model.Wire
import SH.Gen.C13

open SH SH.Wire

def toNats (b : List UInt8) : Bytes := b.map (·.toNat)
def hexOf (b : Bytes) : String := showHex (b.map UInt8.ofNat)

def natList (l : List Nat) : String := showList l

def metricText (m : Metric) : String :=
  let tags := if m.tags.isEmpty then "-" else ",".intercalate (m.tags.map (fun t => hexOf t.1 ++ ":" ++ hexOf t.2))
  let hist := if m.hist.isEmpty then "-" else ",".intercalate (m.hist.map (fun h => s!"{h.1}/{h.2}"))
  s!"{m.mask}|{hexOf m.name}|{tags}|{m.counter}|{m.ts}|{natList m.value}|{natList m.unique}|{hist}"

def batchText (ms : List Metric) : String :=
  if ms.isEmpty then "-" else ";".intercalate (ms.map metricText)

def parseHexN? (s : String) : Option Bytes := (parseHex? s).map toNats

def parseTag? (s : String) : Option (Bytes × Bytes) :=
  match s.splitOn ":" with
  | [k, v] => do
    let k ← parseHexN? k
    let v ← parseHexN? v
    pure (k, v)
  | _ => none

def parsePair? (s : String) : Option (Nat × Nat) :=
  match s.splitOn "/" with
  | [a, b] => do
    let a ← a.toNat?
    let b ← b.toNat?
    pure (a, b)
  | _ => none

def parseMetric? (s : String) : Option Metric :=
  match s.splitOn "|" with
  | [mask, name, tags, counter, ts, value, unique, hist] => do
    let mask ← mask.toNat?
    let name ← parseHexN? name
    let tags ← (parseList tags).mapM parseTag?
    let counter ← counter.toNat?
    let ts ← ts.toNat?
    let value ← parseNatList? value
    let unique ← parseNatList? unique
    let hist ← (parseList hist).mapM parsePair?
    pure { mask, name, tags, counter, ts, value, unique, hist }
  | _ => none

def parseBatch? (s : String) : Option (List Metric) :=
  if s = "-" then some [] else (s.splitOn ";").mapM parseMetric?

def decObs (p : Parsed) : String :=
  match p.fmt with
  | .json => "json"
  | .legacy => "legacy"
  | .empty => "empty"
  | f =>
    let cls := match p.err with | none => "ok" | some e => e.name
    s!"{f.name} ret={cls} perr={if p.perr then 1 else 0} n={p.delivered.length} {batchText p.delivered}"

/-- long strings are abbreviated to `#<length>` in the tcp observation (frames are padded with 64 KiB tag values) -/
def shortHex (b : Bytes) : String := if b.length > 20 then s!"#{b.length}" else hexOf b

def metricTextShort (m : Metric) : String :=
  let tags := if m.tags.isEmpty then "-" else ",".intercalate (m.tags.map (fun t => shortHex t.1 ++ ":" ++ shortHex t.2))
  let hist := if m.hist.isEmpty then "-" else ",".intercalate (m.hist.map (fun h => s!"{h.1}/{h.2}"))
  s!"{m.mask}|{shortHex m.name}|{tags}|{m.counter}|{m.ts}|{natList m.value}|{natList m.unique}|{hist}"

def batchTextShort (ms : List Metric) : String :=
  if ms.isEmpty then "-" else ";".intercalate (ms.map metricTextShort)

/-- stream segments: hex, or `*HHxN` = N copies of byte HH -/
def parseSegment? (s : String) : Option Bytes :=
  if s.startsWith "*" then
    match ((s.drop 1).toString).splitOn "x" with
    | [h, n] => do
      let b ← parseHexN? h
      let n ← n.toNat?
      match b with
      | [x] => pure (List.replicate n x)
      | _ => none
    | _ => none
  else parseHexN? s

def parseStream? (s : String) : Option Bytes := do
  let segs ← (parseList s).mapM parseSegment?
  pure segs.flatten

def cutChunks : List Nat → Bytes → List Bytes
  | [], _ => []
  | n :: ns, b => b.take n :: cutChunks ns (b.drop n)

def tcpObs (chunks : List Bytes) : String :=
  let c := runConn SH.Gen.C13.maxTCPFrameBody (4 + SH.Gen.C13.maxTCPFrameBody) chunks
  let ps := c.frames.map (parse .fixed)
  let delivered := (ps.map (·.delivered)).flatten
  let perr := (ps.filter (·.perr)).length
  let ending := match c.ending with | some .stall => "hang" | _ => "closed"
  s!"tcp end={ending} perr={perr} n={delivered.length} {batchTextShort delivered}"

def step (_ : Unit) (toks : List String) : Unit × List String :=
  match toks with
  | ["dec", h] =>
    match parseHexN? h with
    | some b => ((), [decObs (parse .fixed b)])
    | none => ((), ["bad-op"])
  | ["tcp", sizes, segs] =>
    match parseNatList? sizes, parseStream? segs with
    | some ns, some stream =>
      if ns.foldl (· + ·) 0 = stream.length then ((), [tcpObs (cutChunks ns stream)]) else ((), ["bad-op"])
    | _, _ => ((), ["bad-op"])
  | ["enc", t] =>
    match parseBatch? t with
    | some ms => ((), [s!"tl={hexOf (tlEncBatch ms)} mp={hexOf (mpEncBatch ms)} pb={hexOf (pbEncBatch ms)}"])
    | none => ((), ["bad-op"])
  | _ => ((), ["bad-op"])

def main : IO Unit :=
  Driver.run { init := (), step := step }
