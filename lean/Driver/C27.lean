/-
  drv_c27 — replays the op stream of go/C27 (cmd/verif-c27) on SH.Model.PromEval (Cfg.fixed).

    > store tags=<a:b:c;…> ev=<series:sec:val,…>     stored series (tag values of tags 1..3) and their events
    > ts step=<S> lod=<L> startx=<i> vs=<i> ve=<i> times=<t0,t1,…> w=<bucket width per point>
    > eval <prefix notation>                           unary node tokens (one operand), bin:<op>:<dflt|on|ign>:<labels> (two), sel:<what|->
    > xeval <unary node> s:<a>:<b>:<c>:<v0,v1,…> …   one operator on series with possibly infinite points (inf, -inf)
    > win w=<W> step=<S> strict=<0|1> t=<…> v=<…>     the bare window cursor (values 1 = present, _ = missing)
  observations: `n=<k>` then one line `{tags} v0 v1 …` per result series, sorted.
-/
import Driver.Common
import SH.Model.PromEval

open SH SH.PromEval

structure St where
  store : Store := ⟨[], []⟩
  ts : TS := ⟨[], 0, 0, 0, 1, 1, []⟩

def parseRat? (s : String) : Option Rat :=
  match s.splitOn "/" with
  | [a] => a.toInt?.map (fun n => (n : Rat))
  | [a, b] => match a.toInt?, b.toNat? with
    | some n, some d => if d = 0 then none else some ((n : Rat) / (d : Rat))
    | _, _ => none
  | _ => none

def parseVal? (s : String) : Option Val :=
  if s = "_" then some none else (parseRat? s).map some

def showVal : Val → String
  | none => "_"
  | some q => toString q

def kv (tok : String) (key : String) : Option String :=
  if tok.startsWith (key ++ "=") then some (tok.drop (key.length + 1)).toString else none

def parseTags? (s : String) : Option (List Tags) :=
  if s = "-" then some [] else
  (s.splitOn ";").mapM (fun one =>
    ((one.splitOn ":").mapM String.toInt?).map (fun vs => (List.range vs.length).map (fun i => (i + 1, vs.getD i 0))))

def parseEvents? (s : String) : Option (List Event) :=
  if s = "-" then some [] else
  (s.splitOn ",").mapM (fun one =>
    match one.splitOn ":" with
    | [a, b, c] => match a.toNat?, b.toInt?, parseRat? c with
      | some a, some b, some c => some ⟨a, b, c⟩
      | _, _, _ => none
    | _ => none)

def parseLabels? (s : String) : Option (List Nat) :=
  if s = "-" then some [] else (s.splitOn ".").mapM String.toNat?

def parseWO? (s : String) : Option Bool :=
  if s = "by" then some false else if s = "wo" then some true else none

def parseAggOp? : String → Option AggOp
  | "sum" => some .sum | "min" => some .min | "max" => some .max | "avg" => some .avg | "count" => some .count
  | "group" => some .group | "stddev" => some .stddev | "stdvar" => some .stdvar | _ => none

def parseOtFn? : String → Option OtFn
  | "avg" => some .avg | "min" => some .min | "max" => some .max | "sum" => some .sum | "count" => some .count
  | "stdvar" => some .stdvar | "stddev" => some .stddev | "last" => some .last | _ => none

def parseWhat? : String → Option (Option What)
  | "-" => some none
  | "avg" => some (some .avg) | "count" => some (some .count) | "countsec" => some (some .countsec)
  | "min" => some (some .min) | "max" => some (some .max) | "sum" => some (some .sum) | "sumsec" => some (some .sumsec)
  | "stddev" => some (some .stddev) | "stdvar" => some (some .stdvar)
  | _ => none

def parseSub? (s : String) : Option Bool :=
  if s = "s" then some true else if s = "m" then some false else none

def parseNode? (tok : String) : Option Node :=
  match tok.splitOn ":" with
  | ["paren"] => some .paren
  | ["brk"] => some .brk
  | ["agg", op, wo, ls] => do
    let op ← parseAggOp? op; let wo ← parseWO? wo; let ls ← parseLabels? ls
    pure (.agg op wo ls)
  | ["q", q, wo, ls] => do
    let q ← parseRat? q; let wo ← parseWO? wo; let ls ← parseLabels? ls
    pure (.quantile q wo ls)
  | ["topk", k, wo, ls] => do
    let k ← k.toInt?; let wo ← parseWO? wo; let ls ← parseLabels? ls
    pure (.topk true k wo ls)
  | ["botk", k, wo, ls] => do
    let k ← k.toInt?; let wo ← parseWO? wo; let ls ← parseLabels? ls
    pure (.topk false k wo ls)
  | ["ot", f, r, sub] => do
    let f ← parseOtFn? f; let r ← r.toInt?; let sub ← parseSub? sub
    pure (.ot f r sub)
  | ["qot", q, r, sub] => do
    let q ← parseRat? q; let r ← r.toInt?; let sub ← parseSub? sub
    pure (.qot q r sub)
  | _ => none

def parseBinOp? : String → Option BinOp
  | "add" => some .add | "sub" => some .sub | "mul" => some .mul | "div" => some .div
  | "eq" => some .eq | "gt" => some .gt | "lt" => some .lt | "ge" => some .ge | "le" => some .le | _ => none

def parseMatching? (kind ls : String) : Option Matching :=
  match kind with
  | "dflt" => some .dflt
  | "on" => (parseLabels? ls).map .on
  | "ign" => (parseLabels? ls).map .ignoring
  | _ => none

/-- prefix notation: unary node tokens have one operand, `bin:op:match:labels` two, `sel:what` none -/
def parseExpr? : Nat → List String → Option (Expr × List String)
  | 0, _ => none
  | _, [] => none
  | fuel + 1, tok :: rest =>
    match tok.splitOn ":" with
    | ["sel", w] => (parseWhat? w).map (fun w => (.sel w, rest))
    | ["bin", op, mk, ls] =>
      match parseBinOp? op, parseMatching? mk ls with
      | some op, some m =>
        match parseExpr? fuel rest with
        | some (l, rest1) =>
          match parseExpr? fuel rest1 with
          | some (r, rest2) => some (.bin op m l r, rest2)
          | none => none
        | none => none
      | _, _ => none
    | _ =>
      match parseNode? tok with
      | some n => (parseExpr? fuel rest).map (fun p => (.un n p.1, p.2))
      | none => none

def showTags (t : Tags) : String :=
  "{" ++ ",".intercalate (t.map (fun p => s!"{p.1}={p.2}")) ++ "}"

def showSeries (s : Series) : String :=
  showTags s.tags ++ " " ++ " ".intercalate (s.vals.map showVal)

def render (ss : List Series) : List String :=
  s!"n={ss.length}" :: ((ss.map showSeries).toArray.qsort (· < ·)).toList

def parseEVal? (s : String) : Option EVal :=
  if s = "_" then some none
  else if s = "inf" || s = "+inf" then some (some .pinf)
  else if s = "-inf" then some (some .ninf)
  else (parseRat? s).map (fun q => some (.fin q))

def showEVal : EVal → String
  | none => "_"
  | some .pinf => "inf"
  | some .ninf => "-inf"
  | some (.fin q) => toString q

/-- `s:<a>:<b>:<c>:<v0,v1,…>`: a series with tags 1..3 and extended-real points -/
def parseESeries? (tok : String) : Option ESeries :=
  match tok.splitOn ":" with
  | ["s", a, b, c, vs] =>
    match a.toInt?, b.toInt?, c.toInt?, (parseList vs).mapM parseEVal? with
    | some a, some b, some c, some vs => some { tags := [(1, a), (2, b), (3, c)], vals := vs }
    | _, _, _, _ => none
  | _ => none

def nodeToEOp? : Node → Option (EOp × Bool × List Nat)
  | .agg .max wo ls => some (.max, wo, ls)
  | .agg .min wo ls => some (.min, wo, ls)
  | .agg .sum wo ls => some (.sum, wo, ls)
  | .agg .avg wo ls => some (.avg, wo, ls)
  | .agg .count wo ls => some (.count, wo, ls)
  | .agg .group wo ls => some (.group, wo, ls)
  | .quantile q wo ls => some (.quantile q, wo, ls)
  | .ot .max r _ => some (.otMax r, false, [])
  | .ot .min r _ => some (.otMin r, false, [])
  | .ot .sum r _ => some (.otSum r, false, [])
  | .ot .avg r _ => some (.otAvg r, false, [])
  | .ot .count r _ => some (.otCount r, false, [])
  | .ot .last r _ => some (.otLast r, false, [])
  | .qot q r _ => some (.otQuantile q r, false, [])
  | _ => none

def renderE (ss : List ESeries) : List String :=
  s!"n={ss.length}" :: ((ss.map (fun s => showTags s.tags ++ " " ++ " ".intercalate (s.vals.map showEVal))).toArray.qsort (· < ·)).toList

def step (st : St) (toks : List String) : St × List String :=
  match toks with
  | ["store", tg, ev] =>
    match (kv tg "tags").bind parseTags?, (kv ev "ev").bind parseEvents? with
    | some tags, some evs => ({ st with store := ⟨tags, evs⟩ }, [])
    | _, _ => (st, ["bad-op"])
  | ["ts", s, l, sx, vs, ve, tm, wd] =>
    match (kv s "step").bind String.toInt?, (kv l "lod").bind String.toInt?, (kv sx "startx").bind String.toNat?,
          (kv vs "vs").bind String.toNat?, (kv ve "ve").bind String.toNat?, (kv tm "times").bind parseIntList?,
          (kv wd "w").bind parseIntList? with
    | some s, some l, some sx, some vs, some ve, some tm, some wd =>
      ({ st with ts := { times := tm, startX := sx, viewStart := vs, viewEnd := ve, lodStep := l, step := s, widths := wd } }, [])
    | _, _, _, _, _, _, _ => (st, ["bad-op"])
  | "xeval" :: node :: series =>
    match (parseNode? node).bind nodeToEOp?, series.mapM parseESeries? with
    | some (op, wo, ls), some ss => (st, renderE (eExec st.ts op wo ls ss))
    | _, _ => (st, ["bad-op"])
  | "eval" :: toks =>
    match parseExpr? (toks.length + 1) toks with
    | some (e, []) =>
      match execE Cfg.fixed st.store st.ts e with
      | some ss => (st, render ss)
      | none => (st, ["err"])
    | _ => (st, ["bad-op"])
  | ["win", w, s, strict, t, v] =>
    match (kv w "w").bind String.toInt?, (kv s "step").bind String.toInt?, (kv strict "strict").bind String.toNat?,
          (kv t "t").bind parseIntList?, (kv v "v").map (fun s => (parseList s).mapM parseVal?) with
    | some w, some s, some strict, some t, some (some v) =>
      -- the cursor alone: every successful move reports (l, r, n); values are not rewritten
      let rec go (fuel : Nat) (wd : Wnd) (acc : List String) : List String :=
        match fuel with
        | 0 => acc.reverse
        | fuel + 1 =>
          match moveOneLeft t v wd with
          | none => acc.reverse
          | some wd' => go fuel wd' (s!"l={wd'.l} r={wd'.r} n={wd'.n}" :: acc)
      (st, go (v.length + 1) (newWindow t.length w s (strict != 0)) [] ++ ["end"])
    | _, _, _, _, _ => (st, ["bad-op"])
  | _ => (st, ["bad-op"])

def main : IO Unit :=
  Driver.run { init := {}, step := step }
