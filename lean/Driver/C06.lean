import Driver.Common
import SH.Model.SamplerIO

/-! drv_c06 — same sampler model and protocol as drv_c05 (the harness runs in `-mode=c06`). -/
def main : IO Unit :=
  Driver.run { init := ({} : SH.Sampler.DState), step := SH.Sampler.dstep }
