/-
  Driver.Common — the line-protocol loop shared by all model drivers.

  stdin : lines.  `@case …` resets the model state and is echoed; `> tok tok …` is one operation;
          everything else is ignored.
  stdout: `@case …` echoed, then for every op zero or more observation lines, each prefixed `< `.
  The Go harness prints the same `@case`/`<` lines for the real implementation; bin/check diffs them.
-/
import SH.Model.Core

namespace Driver

structure Model (σ : Type) where
  init : σ
  /-- tokens of one op (without the leading ">") → new state and observation lines (without "< ") -/
  step : σ → List String → σ × List String

partial def loop {σ} (m : Model σ) (hin hout : IO.FS.Stream) (s : σ) : IO Unit := do
  let line ← hin.getLine
  if line.isEmpty then
    hout.flush
    return ()
  let l := (line.dropEndWhile (fun c => c = '\n' || c = '\r')).toString
  if l.startsWith "@case" then
    hout.putStrLn l
    loop m hin hout m.init
  else if l.startsWith "> " then
    let (s', outs) := m.step s (SH.tokens (l.drop 2).toString)
    for o in outs do hout.putStrLn ("< " ++ o)
    loop m hin hout s'
  else
    loop m hin hout s

def run {σ} (m : Model σ) : IO Unit := do
  let hin ← IO.getStdin
  let hout ← IO.getStdout
  loop m hin hout m.init

end Driver
