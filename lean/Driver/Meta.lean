/-
  Driver.Meta — op parser / observation renderer for SH.Model.Meta, shared by drv_c15 and drv_c19 (and usable by C16).
  Every op line is rendered exactly like cmd/verif-c15 renders what the real DBV2 did.
-/
import Driver.Common
import SH.Model.Meta

open SH SH.Meta

namespace Driver.Meta

structure St where
  cfg : Cfg
  s : State
  waiting : List Waiter := []     -- parked journal long-poll clients of the rpc handler
  late : Option (Nat × Nat) := none   -- a get-or-create request (metric, key) that entered GetOrCreateMapping and waits for its eng.Do

def init : St := { cfg := { maxBudget := 1000, step := 3600, bonus := 10, globalBudget := 1000000 }, s := State.empty }

def parseName? (t : String) : Option Name :=
  match t.splitOn ":" with
  | [a, b] => match a.toNat?, b.toNat? with
    | some a, some b => some ⟨a, b⟩
    | _, _ => none
  | _ => none

def parseBool? (t : String) : Option Bool :=
  if t = "1" then some true else if t = "0" then some false else none

def parsePairs? (t : String) : Option (List (Nat × Int)) :=
  (parseList t).mapM (fun kv => match kv.splitOn ":" with
    | [k, v] => match k.toNat?, v.toInt? with
      | some k, some v => some (k, v)
      | _, _ => none
    | _ => none)

def showErr : Err → String
  | .nsMissing => "ns-missing"
  | .renameNs => "rename-ns"
  | .exists => "exists"
  | .invalidVersion => "invalid-version"
  | .constraint => "constraint"

def showSave : SaveOut → String
  | .ok ev c => s!"ok c={if c then 1 else 0} {showEvent ev}"
  | .err e => "err " ++ showErr e

def showMapOut : MapOut → String
  | .got id => s!"got {id}"
  | .created id => s!"created {id}"
  | .flood => "flood"

/-- JournalEvents: `UpdateTime: uint32(updatedAt)` -/
def showJournalEvent (e : Entity) : String :=
  s!"{e.id}:{e.version}:{showName e.name}:{e.typ}:{e.nsId}:{e.updatedAt % two32}:{e.deletedAt}:{e.data}/{e.dataLen}"

/-- GetEntityVersioned does not select deleted_at -/
def showVersioned (e : Event) : String :=
  s!"{e.id}:{e.version}:{showName e.name}:{e.typ}:{e.nsId}:{e.updatedAt}:{e.data}/{e.dataLen}:{e.mdata}"

def lastVersion (dflt : Nat) (evs : List Entity) : Nat :=
  match evs.getLast? with
  | some e => e.version
  | none => dflt

def sortNats (l : List Nat) : List Nat := (l.toArray.qsort (· < ·)).toList

def sortReplies (l : List (Nat × List Entity)) : List (Nat × List Entity) := (l.toArray.qsort (fun a b => a.1 < b.1)).toList

def raceReq (n : Name) (id : Int) (oldv d typ m now : Nat) : SaveReq :=
  { name := n, id := id, oldVersion := oldv, data := d, dataLen := 4, create := false, deleteTime := 0, typ := typ, mdata := m, now := now }

def parseSave? (t : List String) : Option SaveReq :=
  match t with
  | [name, id, oldv, data, dlen, create, del, typ, mdt, now] =>
    match parseName? name, id.toInt?, oldv.toNat?, data.toNat?, dlen.toNat?, parseBool? create, del.toNat?, typ.toNat?, mdt.toNat?, now.toNat? with
    | some name, some id, some oldv, some data, some dlen, some create, some del, some typ, some mdt, some now =>
      some { name := name, id := id, oldVersion := oldv, data := data, dataLen := dlen, create := create, deleteTime := del,
             typ := typ, mdata := mdt, now := now }
    | _, _, _, _, _, _, _, _, _, _ => none
  | _ => none

def step (st : St) (toks : List String) : St × List String :=
  match toks with
  | ["cfg", mb, stp, bonus, gb] =>
    match mb.toInt?, stp.toNat?, bonus.toInt?, gb.toInt? with
    | some mb, some stp, some bonus, some gb => ({ st with cfg := { maxBudget := mb, step := stp, bonus := bonus, globalBudget := gb } }, [])
    | _, _, _, _ => (st, ["bad-op"])
  | "save" :: rest =>
    match parseSave? rest with
    | some a => let r := save st.s a; ({ st with s := r.1 }, [showSave r.2])
    | none => (st, ["bad-op"])
  | "rpcsave" :: rest =>      -- RawEditEntity: SaveEntity, then broadcastJournal when it succeeded
    match parseSave? rest with
    | some a =>
      let r := save st.s a
      match r.2 with
      | .err _ => ({ st with s := r.1 }, [showSave r.2])
      | .ok _ _ =>
        let b := broadcast r.1 st.waiting
        ({ st with s := r.1, waiting := b.1 },
         [showSave r.2] ++ (sortReplies b.2).map (fun p => s!"reply {p.1} cur={lastVersion 0 p.2} {showList (p.2.map showJournalEvent)}")
           ++ [s!"waiting {showList (sortNats (b.1.map (·.since)))}"])
    | none => (st, ["bad-op"])
  | ["journal", since, page] =>
    match since.toNat?, page.toInt? with
    | some since, some page => (st, ["j " ++ showList ((journal st.s since page).map showJournalEvent)])
    | _, _ => (st, ["bad-op"])
  | ["getv", id, v] =>
    match id.toInt?, v.toNat? with
    | some id, some v => (st, [match getVersioned st.s id v with | some e => "ev " ++ showVersioned e | none => "none"])
    | _, _ => (st, ["bad-op"])
  | ["hist", id] =>
    match id.toInt? with
    | some id => (st, ["h " ++ showList ((historyShort st.s id).map (fun e => s!"{e.version}:{e.mdata}"))])
    | none => (st, ["bad-op"])
  | ["gc", m, k, now] =>
    match m.toNat?, k.toNat?, now.toNat? with
    | some m, some k, some now => let r := getOrCreate st.cfg st.s m k now; ({ st with s := r.1 }, [showMapOut r.2])
    | _, _, _ => (st, ["bad-op"])
  | ["put", kvs] =>
    match parsePairs? kvs with
    | some kvs => ({ st with s := putMany st.s kvs }, ["ok"])
    | none => (st, ["bad-op"])
  | ["del", ids] =>
    match parseIntList? ids with
    | some ids => let r := deleteIds st.s ids; ({ st with s := r.1 }, [s!"n={r.2}"])
    | none => (st, ["bad-op"])
  | ["reset", m, limit, now] =>
    match m.toNat?, limit.toInt?, now.toNat? with
    | some m, some limit, some now =>
      let r := resetFlood st.cfg st.s m limit now
      ({ st with s := r.1 }, [s!"before={r.2.1} after={r.2.2}"])
    | _, _, _ => (st, ["bad-op"])
  | ["resetr", m, limit, now] =>      -- the same request, the reply followed by the flood row it left behind
    match m.toNat?, limit.toInt?, now.toNat? with
    | some m, some limit, some now =>
      let r := resetFlood st.cfg st.s m limit now
      let row := match lookupFlood r.1.flood m with
        | some f => s!"{f.last}:{f.free}"
        | none => "none"
      ({ st with s := r.1 }, [s!"before={r.2.1} after={r.2.2} row={row}"])
    | _, _, _ => (st, ["bad-op"])
  | ["byval", k] =>
    match k.toNat? with
    | some k => (st, [match lookupKey st.s.maps k with | some id => s!"id {id}" | none => "none"])
    | none => (st, ["bad-op"])
  | ["byid", id] =>
    match id.toInt? with
    | some id => (st, [match lookupId st.s.maps id with | some k => s!"key {k}" | none => "none"])
    | none => (st, ["bad-op"])
  | ["newmaps", fromId, page] =>
    match fromId.toInt?, page.toInt? with
    | some f, some p =>
      let r := newMappings st.s f p
      (st, [s!"m {showList (r.1.map (fun p => s!"{p.1}:{p.2}"))} max={r.2}"])
    | _, _ => (st, ["bad-op"])
  | ["sub", c, since, limit, rie] =>
    match c.toNat?, since.toNat?, limit.toInt?, parseBool? rie with
    | some c, some since, some limit, some rie =>
      let r := subscribe st.s st.waiting c since limit rie
      ({ st with waiting := r.1 },
       [match r.2 with
        | some evs => s!"reply {c} cur={lastVersion since evs} {showList (evs.map showJournalEvent)}"
        | none => s!"parked {c}"])
    | _, _, _, _ => (st, ["bad-op"])
  | ["broadcast"] =>
    let r := broadcast st.s st.waiting
    ({ st with waiting := r.1 },
     (sortReplies r.2).map (fun p => s!"reply {p.1} cur={lastVersion 0 p.2} {showList (p.2.map showJournalEvent)}")
       ++ [s!"waiting {showList (sortNats (r.1.map (·.since)))}"])
  | ["dumpe"] => (st, (dump st.s).filter (fun l => !l.startsWith "H "))
  | ["race", id, oldv, typ, now, reqs] =>
    -- concurrent edits with DIFFERENT payloads from one version: the model runs them in the listed order (any order gives the same
    -- reply multiset, id and new version: Props/C15 one_winner); only order-independent facts are rendered
    match id.toInt?, oldv.toNat?, typ.toNat?, now.toNat? with
    | some id, some oldv, some typ, some now =>
      let parsed := (parseList reqs).mapM (fun r => match r.splitOn "/" with
        | [n, d, m] => match parseName? n, d.toNat?, m.toNat? with
          | some n, some d, some m => some (raceReq n id oldv d typ m now)
          | _, _, _ => none
        | _ => none)
      match parsed with
      | none => (st, ["bad-op"])
      | some rs =>
        let fin := rs.foldl (fun (acc : State × List SaveOut) a => let r := save acc.1 a; (r.1, acc.2 ++ [r.2])) (st.s, [])
        let oks := fin.2.filterMap (fun o => match o with | .ok ev _ => some ev | .err _ => none)
        let errs := fin.2.filterMap (fun o => match o with | .ok _ _ => none | .err e => some (showErr e))
        let errs := (errs.toArray.qsort (· < ·)).toList
        let who := match oks with
          | [ev] => s!" id={ev.id} ver={ev.version}"
          | _ => ""
        ({ st with s := fin.1 }, [s!"race ok={oks.length}{who} errs={showList errs}"])
    | _, _, _, _ => (st, ["bad-op"])
  | ["park", m, k] =>
    -- the request has only entered the function: nothing is read or decided yet (the model reads lastCreated at APPLY time)
    match m.toNat?, k.toNat? with
    | some m, some k => ({ st with late := some (m, k) }, ["parked"])
    | _, _ => (st, ["bad-op"])
  | ["resume", now] =>
    match st.late, now.toNat? with
    | some (m, k), some now => let r := getOrCreate st.cfg st.s m k now; ({ st with s := r.1, late := none }, [showMapOut r.2])
    | _, _ => (st, ["bad-op"])
  | ["reopen"] => ({ st with s := reopen st.s }, ["reopened"])
  | ["dump"] => (st, dump st.s)
  | ["calc", old, expense, last, now, mx, bonus, stp] =>
    match old.toInt?, expense.toInt?, last.toNat?, now.toNat?, mx.toInt?, bonus.toInt?, stp.toNat? with
    | some old, some expense, some last, some now, some mx, some bonus, some stp =>
      (st, [s!"r {calcBudget old expense last now mx bonus stp}"])
    | _, _, _, _, _, _, _ => (st, ["bad-op"])
  | ["round", now, stp] =>
    match now.toNat?, stp.toNat? with
    | some now, some stp => (st, [s!"r {roundTime now stp}"])
    | _, _ => (st, ["bad-op"])
  | _ => (st, ["bad-op"])

end Driver.Meta
