import Driver.Common
import SH.Model.Delivery

open SH SH.Delivery

def b01 (b : Bool) : String := if b then "1" else "0"
def sortNat (l : List Nat) : List Nat := (l.toArray.qsort (· < ·)).toList

def whyName : Why → String
  | .futureHistoric => "future-historic" | .beyondWindow => "beyond-window" | .futureRecent => "future-recent"
  | .lateRecent => "late-recent" | .undecodable => "undecodable" | .stale => "stale"
  | .inserted => "inserted" | .insertFailed => "insert-failed"

def evLine : Ev → String
  | .req q => s!"req rid={q.rid} t={q.sec} h={b01 q.historic} s={b01 q.spare} r={q.replica}"
  | .done => "done"
  | .parked rc t => s!"parked {if rc then "recent" else "historic"} {t}"
  | .answer a => s!"ans rid={a.rid} t={a.sec} d={b01 a.discard} e={b01 a.err} why={whyName a.why}"
  | .connErr => "connerr"
  | .ins t body _ ok => s!"ins bt={t} secs={showList (sortNat body).eraseDups} ok={b01 ok}"
  | .popped c => s!"popped t={c.sec} id={c.id} mem={b01 c.mem}"
  | .none => "none"

def cbdLt (a b : Cbd) : Bool := a.sec < b.sec || (a.sec == b.sec && a.id < b.id)

def stLine (s : State) : String :=
  let q := (s.ag.hist.toArray.qsort cbdLt).toList.map (fun c => s!"{c.sec}:{c.id}:{b01 c.mem}")
  let known := ((s.ag.recs.filter (fun r => r.id != 0)).toArray.qsort (fun a b => a.id < b.id)).toList.map (fun r => s!"{r.id}:{r.sec}")
  let fl := sortNat (s.ag.flights.map (·.rid))
  let alive := String.join (s.ag.live.map (fun l => b01 l.alive))
  s!"st q={showList q} known={showList known} fl={showList fl} alive={alive} mem={s.ag.memSize - s.ag.ballast} oow={s.ag.oow} reqs={showList (sortNat (s.reqs.map (·.rid)))} resps={showList (sortNat (s.resps.map (·.rid)))}"

def aggStr (g : Agg) : String :=
  if !g.up then "down" else
  match g.recent.head? with
  | none => "empty"
  | some b => s!"{b.time}+{g.recent.length}/{showList (sortNat (g.historic.map (·.time)))}"

def agLine (s : State) : String := "ag " ++ " ".intercalate (s.aggs.map aggStr)

def isAns : Ev → Bool | .answer _ => true | _ => false
def ansRid : Ev → Nat | .answer a => a.rid | _ => 0
/-- answers of one step are produced in Go map order: both sides print them sorted by request id, after the other events -/
def orderEvs (evs : List Ev) : List Ev :=
  evs.filter (fun e => !isAns e) ++ ((evs.filter isAns).toArray.qsort (fun a b => ansRid a < ansRid b)).toList

def out (r : State × List Ev) : State × List String := (r.1, (orderEvs r.2).map evLine ++ [stLine r.1, agLine r.1])

def parseBool? (t : String) : Option Bool := if t = "1" then some true else if t = "0" then some false else none

def parseOp : List String → Option Op
  | ["overflow", t] => t.toNat?.map .overflow
  | ["recent", t] => t.toNat?.map .recent
  | ["recv", r] => r.toNat?.map .recv
  | ["tick", r, now, ok] => do some (.tick (← r.toNat?) (← now.toNat?) (← parseBool? ok))
  -- 5th token: which answer the fake ClickHouse gave (the model only needs whether the INSERT counts as successful)
  | ["tick", r, now, ok, _kind] => do some (.tick (← r.toNat?) (← now.toNat?) (← parseBool? ok))
  | ["resp", r] => r.toNat?.map .resp
  | ["drop", r] => r.toNat?.map .drop
  | ["pop", now] => now.toNat?.map .pop
  | ["alive", r, b] => do some (.alive (← r.toNat?) (← parseBool? b))
  | ["down", r] => r.toNat?.map .down
  | ["up", r, now] => do some (.up (← r.toNat?) (← now.toNat?))
  | ["agentrestart", c] => (parseBool? c).map .agentRestart
  | ["ballast", k] => k.toNat?.map .ballast
  | ["diskok", b] => (parseBool? b).map .diskOk
  | ["bad", r] => r.toNat?.map .bad
  | ["erase", now, over] => do some (.erase (← now.toNat?) (← parseBool? over))
  | ["race", r, n1, n2, rid, ok, _kind] => do some (.tickRace (← r.toNat?) (← n1.toNat?) (← n2.toNat?) (← rid.toNat?) (← parseBool? ok))
  | _ => none

def stepTok (s : State) (toks : List String) : State × List String :=
  match toks with
  | ["new", disk, save, agentNow, window, sw, aggNow] =>
    match parseBool? disk, parseBool? save, agentNow.toNat?, window.toNat?, sw.toNat?, aggNow.toNat? with
    | some d, some sv, some an, some w, some sw, some gn => let s' := init d sv an w sw gn; (s', [stLine s', agLine s'])
    | _, _, _, _, _, _ => (s, ["bad-op"])
  | ["oow", now, t, w] =>
    match now.toNat?, t.toNat?, w.toNat? with
    | some now, some t, some w => (s, [s!"oow {b01 (outOfWindow now t w)}"])
    | _, _, _ => (s, ["bad-op"])
  | _ => match parseOp toks with
    | some op => out (step s op)
    | none => (s, ["bad-op"])

def main : IO Unit :=
  Driver.run { init := init false false 0 0 3 0, step := stepTok }
