import Driver.Common
import SH.Model.TsCache

open SH SH.TsCache

structure DSt where
  s : Option St

/-- a slot the storage answered with zero rows is an empty slice in Go: it prints like a slot never written -/
def showCell (cfg : Cfg) (c : Slot) : String :=
  match c with
  | none => "_"
  | some c => if rowsOf cfg c.t c.ver == 0 then "_" else s!"{c.t}.{c.key}.{c.ver}.{c.load}"

def showCells (cfg : Cfg) (l : List Slot) : String := if l.isEmpty then "-" else " ".intercalate (l.map (showCell cfg))

def showChunk (c : Chunk) : String :=
  s!"{c.start / nsec}:d{if c.data.isSome then 1 else 0}:l{c.loading}:a{c.awaiters.length}:i{c.invAt}:s{c.lsa}:u{c.lastAccess}:z{c.size}"

def showBucket (s : St) (b : Bucket) : String :=
  s!"b {b.key} play={b.play} la={b.lastAccess} " ++ showList (b.cids.map (fun i => showChunk (getChunk s.chunks i)))

def dump (s : St) : List String :=
  s!"info size={s.info.size} buckets={s.info.buckets} chunks={s.info.chunks} len={s.info.chunkLen} max={s.maxSize} soft={s.soft}"
    :: s.buckets.map (showBucket s)

def doneLine (cfg : Cfg) (l : Loader) : String :=
  if l.gotErr then s!"done {l.id} err" else s!"done {l.id} ok {showCells cfg (slice l.data l.ls l.le)}"

/-- report finished requests (ascending id) and forget them, then dump the cache -/
def finishOp (pre : List String) (s : St) : DSt × List String :=
  let fin := (s.loaders.filter (·.finished)).toArray.qsort (fun a b => a.id < b.id) |>.toList
  let s' := { s with loaders := s.loaders.filter (fun l => !l.finished) }
  ({ s := some s' }, pre ++ fin.map (doneLine s.cfg) ++ dump s')

def step (d : DSt) (toks : List String) : DSt × List String :=
  match toks, d.s with
  | ["cfg", st, k, dur, col, row], _ =>
    match st.toInt?, k.toNat?, dur.toInt?, col.toNat?, row.toNat? with
    | some st, some k, some dur, some col, some row =>
      if st ≤ 0 || k == 0 || dur ≤ 0 then (d, ["bad-op"]) else
      ({ s := some (init { step := st, K := k, dur := dur, col := col, row := row }) }, [])
    | _, _, _, _, _ => (d, ["bad-op"])
  | ["req", id, key, play, force, f, t, now], some s =>
    match id.toNat?, key.toNat?, play.toInt?, force.toNat?, f.toInt?, t.toInt?, now.toInt? with
    | some id, some key, some play, some force, some f, some t, some now =>
      let (s', out) := opGet s id key play (force != 0) f t now
      match out with
      | .bad => finishOp [s!"req {id} bad", s!"done {id} err"] s'
      | .empty => finishOp [s!"req {id} empty", s!"done {id} ok -"] s'
      | .started l =>
        match l.chunks.head?, l.chunks.getLast? with
        | some a, some b =>
          finishOp [s!"req {id} load {(getChunk s'.chunks a.cid).start / nsec} {(getChunk s'.chunks b.cid).start / nsec + s.cfg.dur / nsec}"] s'
        | _, _ => finishOp [s!"req {id} noload"] s'
    | _, _, _, _, _, _, _ => (d, ["bad-op"])
  | ["fin", id, ok, ver, now], some s =>
    match id.toNat?, ver.toNat?, now.toInt? with
    | some id, some ver, some now =>
      if ok != "ok" && ok != "err" then (d, ["bad-op"]) else
      match opFin s id (ok == "ok") ver now with
      | some s' => finishOp [] s'
      | none => (d, ["bad-op"])
    | _, _, _ => (d, ["bad-op"])
  | ["inv", now, ts], some s =>
    match now.toInt?, parseIntList? ts with
    | some now, some ts => finishOp [] (opInv s ts now)
    | _, _ => (d, ["bad-op"])
  | ["trimchunks", key, t, now], some s =>
    match key.toNat?, t.toInt?, now.toInt? with
    | some key, some t, some now => finishOp [] (TsCache.apply s (.trimChunks key t now))
    | _, _, _ => (d, ["bad-op"])
  | ["rmbucket", key, now], some s =>
    match key.toNat?, now.toInt? with
    | some key, some now => finishOp [] (TsCache.apply s (.rmBucket key now))
    | _, _ => (d, ["bad-op"])
  | ["reset", now], some s =>
    match now.toInt? with
    | some now => finishOp [] (TsCache.apply s (.reset now))
    | none => (d, ["bad-op"])
  | ["limits", m, so, now], some s =>
    match m.toInt?, so.toInt?, now.toInt? with
    | some m, some so, some now => finishOp [] (opLimits s m so now)
    | _, _, _ => (d, ["bad-op"])
  | ["shutdown", now], some s =>
    match now.toInt? with
    | some now => finishOp [] (opShutdown s now)
    | none => (d, ["bad-op"])
  | _, _ => (d, ["bad-op"])

def main : IO Unit :=
  Driver.run { init := { s := none }, step := step }
