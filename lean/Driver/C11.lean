import Driver.Common
import SH.Model.Norm
import SH.Model.RawTag
import SH.Gen.C11

open SH

def T : Norm.Tables := SH.Gen.C11.tables
def maxLen : Nat := SH.Gen.C11.maxStringLen

def b2s (b : Bool) : String := if b then "1" else "0"

def normOp (dst src : List UInt8) : String :=
  let st := match Norm.strict T maxLen dst src with
    | none => "err"
    | some r => showHex r
  let v := Norm.valid T maxLen src
  s!"st={st} fb={showHex (Norm.force T maxLen src)} fs={showHex (Norm.forceStr T maxLen src)} v={b2s v}{b2s v}"

def ipOp (cap : Nat) (src : List UInt8) : String :=
  let arr := src ++ List.replicate (cap - src.length) (0xAA : UInt8)
  let r := Norm.forceInPlace .buffered T maxLen arr src.length
  s!"ip={showHex r.value} mem={showHex r.arr} alias={b2s r.aliased}"

def showSigned32 (p : Nat) : String := toString (RawTag.asSigned 32 p)

def rawOp (s : List UInt8) : String :=
  let r32 := match RawTag.raw32 s with
    | none => "no"
    | some p => showSigned32 p
  let r64 := match RawTag.raw64 s with
    | none => "no"
    | some p => s!"{showSigned32 (p % 2 ^ 32)}:{showSigned32 (p / 2 ^ 32)}"
  s!"r32={r32} r64={r64}"

def step (s : Unit) (toks : List String) : Unit × List String :=
  match toks with
  | ["norm", dst, src] =>
    match parseHex? dst, parseHex? src with
    | some d, some b => (s, [normOp d b])
    | _, _ => (s, ["bad-op"])
  | ["ip", cap, src] =>
    match cap.toNat?, parseHex? src with
    | some cap, some b => if cap < b.length then (s, ["bad-op"]) else (s, [ipOp cap b])
    | _, _ => (s, ["bad-op"])
  | ["raw", b] =>
    match parseHex? b with
    | some b => (s, [rawOp b])
    | none => (s, ["bad-op"])
  | _ => (s, ["bad-op"])

def main : IO Unit := Driver.run { init := (), step := step }
