import Driver.Common
import SH.Model.Chunked
import SH.Model.MapCache

open SH
open SH.Chunked (Bytes)

namespace C21

structure DSt where
  ck : Chunked.St := {}
  mc : MapCache.St := {}
  det : Bool := true

def variant : MapCache.Variant := .fixed

/-! ### tokens -/

/-- hex, "-" (empty) or r<count>x<bb>.<hex> (a run of one byte followed by a suffix) -/
def parseBytes? (t : String) : Option Bytes :=
  if t.startsWith "r" then
    match ((t.drop 1).toString.splitOn "x") with
    | [cnt, rest] =>
      match rest.splitOn "." with
      | [bb, suf] =>
        match cnt.toNat?, parseHex? bb, parseHex? suf with
        | some n, some [b], some s => some (List.replicate n b ++ s)
        | _, _, _ => none
      | _ => none
    | _ => none
  else parseHex? t

/-- comma separated list, "_" = empty list -/
def parseListU (t : String) : List String := if t = "_" then [] else t.splitOn ","

def parseBytesList? (t : String) : Option (List Bytes) := (parseListU t).mapM parseBytes?

def parsePairs? (t : String) : Option (List MapCache.Pair) :=
  (parseListU t).mapM (fun p =>
    match p.splitOn "=" with
    | [k, v] => match parseBytes? k, v.toInt? with
      | some k, some v => some (k, v)
      | _, _ => none
    | _ => none)

def parseBool? (t : String) : Option Bool := if t = "1" then some true else if t = "0" then some false else none

def hex8 (n : Nat) : String :=
  String.ofList ((List.range 8).reverse.map (fun i => hexChar ((n / 16 ^ i) % 16)))

def digest (b : Bytes) : String := s!"{b.length}:{hex8 (Chunked.adler32 b)}"

/-! ### the hash tables standing for xxh3 -/

def sentinel : Bytes := List.replicate 16 0xEE

def tableH (table : List (Bytes × Bytes)) (x : Bytes) : Bytes :=
  match table.find? (fun p => p.1 == x) with
  | some p => p.2
  | none => sentinel

/-- the inputs of the hash for every structurally possible chunk position, following the size fields from the start;
    `useTokens`: chain through the given tokens (a file being written) instead of the stored hash bytes (a file being read) -/
partial def walkKeys (useTokens : Bool) (prev rest : Bytes) (toks : List Bytes) : List (Bytes × Bytes) :=
  if rest.length < Chunked.headerSize + Chunked.hashSize then []
  else
    let s := Chunked.bodySize rest
    if s > Chunked.chunkSize || Chunked.headerSize + s + Chunked.hashSize > rest.length then []
    else match toks with
      | [] => []
      | t :: ts =>
        (prev ++ rest.take (Chunked.headerSize + s), t) ::
          walkKeys useTokens (if useTokens then t else Chunked.storedHash rest) (rest.drop (Chunked.headerSize + s + Chunked.hashSize)) ts

def readH (file : Bytes) (toks : List Bytes) : Bytes → Bytes := tableH (walkKeys false Chunked.zeroHash file toks)

def flipBit (file : Bytes) (bit : Nat) : Bytes :=
  let i := bit / 8
  match file[i]? with
  | some b => file.set i (b ^^^ ((1 : UInt8) <<< UInt8.ofNat (bit % 8)))
  | none => file

def modFile (file : Bytes) (kind : String) (arg : Nat) : Option Bytes :=
  if kind = "trunc" then some (file.take arg)
  else if kind = "flip" then some (flipBit file arg)
  else if kind = "full" then some file
  else none

/-! ### chunked storage ops -/

def ckLine (what : String) (s : Chunked.St) : String :=
  s!"{what} off={s.offset} hash={showHex s.hash} done={s.readDone} werr={s.writeErr} pending={s.pending.length} file={digest s.file}"

def framed (chunks : List Bytes) : Bytes :=
  chunks.foldr (fun c acc => Chunked.le 4 c.length ++ (c ++ acc)) []

partial def ckReadLoop (H : Bytes → Bytes) (magic : Nat) (s : Chunked.St) (acc : List String) : Chunked.St × List String :=
  match Chunked.stepReadNext H magic s with
  | (s', .nothing) => (s', acc ++ ["end nothing"])
  | (s', .err e) => (s', acc ++ [s!"end {e.name}"])
  | (s', .chunk body) => ckReadLoop H magic s' (acc ++ [s!"chunk {digest body}"])

def writeH (s : Chunked.St) (tok : String) : Option (Bytes → Bytes) :=
  if tok = "_" then some (tableH [])
  else match parseHex? tok with
    | some t => some (tableH [(Chunked.hashInput s.magic s.hash s.pending, t)])
    | none => none

def ckStep (st : DSt) (toks : List String) : DSt × List String :=
  let s := st.ck
  match toks with
  | ["new", f] => match parseBytes? f with
    | some f => let s' := Chunked.new f; ({ st with ck := s' }, [ckLine "new" s'])
    | none => (st, ["bad-op"])
  | ["read", m, hs] => match m.toNat?, (parseListU hs).mapM parseHex? with
    | some m, some hs =>
      let (s', lines) := ckReadLoop (readH (s.file.take s.initialSize) hs) m s []
      ({ st with ck := s' }, lines ++ [ckLine "read" s'])
    | _, _ => (st, ["bad-op"])
  | ["next", m, hs] => match m.toNat?, (parseListU hs).mapM parseHex? with
    | some m, some hs =>
      let (s', out) := Chunked.stepReadNext (readH (s.file.take s.initialSize) hs) m s
      let line := match out with
        | .nothing => "next nothing"
        | .err e => s!"next err {e.name}"
        | .chunk b => s!"next chunk {digest b}"
      ({ st with ck := s' }, [line, ckLine "next" s'])
    | _, _ => (st, ["bad-op"])
  | ["reset"] => let s' := Chunked.resetToStart s; ({ st with ck := s' }, [ckLine "reset" s'])
  | ["start", m] => match m.toNat? with
    | some m => let s' := Chunked.startWrite m s; ({ st with ck := s' }, [ckLine "start" s'])
    | none => (st, ["bad-op"])
  | ["item", b, f, tok] => match parseBytes? b, parseBool? f with
    | some b, some f =>
      match writeH { s with pending := s.pending ++ b } tok with
      | some H => let (s', e) := Chunked.finishItem H f b s; ({ st with ck := s' }, [s!"w {e.name}", ckLine "st" s'])
      | none => (st, ["bad-op"])
    | _, _ => (st, ["bad-op"])
  | ["flush", b, f, tok] => match parseBytes? b, parseBool? f with
    | some b, some f =>
      let s1 := { s with pending := s.pending ++ b }
      match writeH s1 tok with
      | some H => let (s', e) := Chunked.finishChunk H f s1; ({ st with ck := s' }, [s!"w {e.name}", ckLine "st" s'])
      | none => (st, ["bad-op"])
    | _, _ => (st, ["bad-op"])
  | ["fin", f, tok] => match parseBool? f, writeH s tok with
    | some f, some H => let (s', e) := Chunked.finishWrite H f s; ({ st with ck := s' }, [s!"w {e.name}", ckLine "st" s'])
    | _, _ => (st, ["bad-op"])
  | ["probe", kind, arg, m, hs] => match arg.toNat?, m.toNat?, (parseListU hs).mapM parseHex? with
    | some arg, some m, some hs =>
      match modFile s.file kind arg with
      | some f =>
        let r := Chunked.readAll (readH f hs) m Chunked.zeroHash f
        let e := match r.2 with | none => "nothing" | some e => e.name
        (st, [s!"p {r.1.length} {digest (framed r.1)} {e}"])
      | none => (st, ["bad-op"])
    | _, _, _ => (st, ["bad-op"])
  | _ => (st, ["bad-op"])

/-! ### mapping cache ops -/

def keyLe (a b : Bytes × MapCache.Entry) : Bool := !MapCache.bytesLt b.1 a.1

def listing (c : MapCache.Cache) : Bytes :=
  c.foldr (fun p acc => Chunked.le 4 p.1.length ++ (p.1 ++ (Chunked.le 4 (MapCache.u32OfInt p.2.val) ++ (Chunked.le 4 p.2.ts ++ acc)))) []

def mcLine (s : MapCache.St) : String :=
  let items := s.cache.mergeSort keyLe
  let base := s!"n={items.length} size={s.sumSize} ts={s.sumTS} ver={s.version} saved={s.lastSaved} d={hex8 (Chunked.adler32 (listing items))}"
  if items.length ≤ 8 then
    let l := items.map (fun p => s!"{showHex p.1}={p.2.val}@{p.2.ts}")
    base ++ " items=" ++ (if l.isEmpty then "_" else ",".intercalate l)
  else base

def loadErrName : Option MapCache.LoadErr → String
  | none => "ok"
  | some e => e.name

/-- Save through the model with the hash tokens of the real file: first a dry run with the sentinel hash to learn the chunk
    bodies (they do not depend on the hash), then the real run with the table built from them -/
def mcSave (s : MapCache.St) (order : MapCache.Cache) (toks : List Bytes) : MapCache.St × Bool :=
  let dry := MapCache.save (tableH []) s order
  let table := walkKeys true Chunked.zeroHash dry.1.store.file toks
  MapCache.save (tableH table) s order

def orderOf (s : MapCache.St) (keys : List Bytes) : Option MapCache.Cache :=
  if keys.length != s.cache.length || !MapCache.nodupKeys keys then none
  else keys.mapM (fun k => (MapCache.find s.cache k).map (fun e => (k, e)))

def mcStep (st : DSt) (toks : List String) : DSt × List String :=
  let s := st.mc
  match toks with
  | ["new", a, b, d] => match a.toInt?, b.toInt?, parseBool? d with
    | some a, some b, some d =>
      let s' : MapCache.St := { maxSize := a, maxTTL := b, store := Chunked.new [] }
      ({ st with mc := s', det := d }, ["st " ++ mcLine s'])
    | _, _, _ => (st, ["bad-op"])
  | ["add", now, ps, cs] => match now.toNat?, parsePairs? ps, parseBytesList? cs with
    | some now, some ps, some cs =>
      let legal := if MapCache.needsEvict s ps then MapCache.legalCands st.det s ps cs else cs.isEmpty
      let s' := MapCache.addValues variant s now ps cs
      ({ st with mc := s' }, (if legal then [] else ["illegal-cands"]) ++ ["st " ++ mcLine s'])
    | _, _, _ => (st, ["bad-op"])
  | ["get", ts, k] => match ts.toNat?, parseBytes? k with
    | some ts, some k =>
      let (s', r) := MapCache.getValue s ts k
      let line := match r with | some v => s!"get {v}" | none => "get miss"
      ({ st with mc := s' }, [line, "st " ++ mcLine s'])
    | _, _ => (st, ["bad-op"])
  | ["ttl", mx, now, rs] => match mx.toInt?, now.toNat?, parseBytesList? rs with
    | some mx, some now, some rs =>
      let legal := MapCache.legalRemoved s mx now rs
      let s' := MapCache.removeByTTL s now rs
      ({ st with mc := s' }, (if legal then [] else ["illegal-removed"]) ++ ["st " ++ mcLine s'])
    | _, _, _ => (st, ["bad-op"])
  | ["set", a, b] => match a.toInt?, b.toInt? with
    | some a, some b => let s' := MapCache.setSizeTTL s a b; ({ st with mc := s' }, ["st " ++ mcLine s'])
    | _, _ => (st, ["bad-op"])
  | ["stats"] =>
    ({ st with mc := MapCache.stats s }, [s!"stats n={s.cache.length} size={s.sumSize} adds={s.adds} evicts={s.evicts}"])
  | ["save", order, hs] => match (parseListU hs).mapM parseHex? with
    | some hs =>
      let ord := if order = "sorted" then some (MapCache.sortedOrder s.cache)
                 else match parseBytesList? order with
                   | some ks => orderOf s ks
                   | none => none
      match ord with
      | some ord =>
        let (s', ok) := mcSave s ord hs
        ({ st with mc := s' }, [s!"save {ok} ok file={digest s'.store.file}", "st " ++ mcLine s'])
      | none => (st, ["illegal-order"])
    | none => (st, ["bad-op"])
  | ["reload", kind, arg, mx, hs] => match arg.toNat?, mx.toInt?, (parseListU hs).mapM parseHex? with
    | some arg, some mx, some hs =>
      match modFile s.store.file kind arg with
      | some f =>
        let (s', e) := MapCache.loadNew (readH f hs) f mx
        ({ st with mc := s' }, [s!"load {loadErrName e}", "st " ++ mcLine s'])
      | none => (st, ["bad-op"])
    | _, _, _ => (st, ["bad-op"])
  | ["probe", kind, arg, mx, hs] => match arg.toNat?, mx.toInt?, (parseListU hs).mapM parseHex? with
    | some arg, some mx, some hs =>
      match modFile s.store.file kind arg with
      | some f =>
        let (s', e) := MapCache.loadNew (readH f hs) f mx
        (st, [s!"probe {loadErrName e} {mcLine s'}"])
      | none => (st, ["bad-op"])
    | _, _, _ => (st, ["bad-op"])
  | ["loadraw", f, mx, d, hs] => match parseBytes? f, mx.toInt?, parseBool? d, (parseListU hs).mapM parseHex? with
    | some f, some mx, some d, some hs =>
      let (s', e) := MapCache.loadNew (readH f hs) f mx
      ({ st with mc := s', det := d }, [s!"load {loadErrName e}", "st " ++ mcLine s'])
    | _, _, _, _ => (st, ["bad-op"])
  | _ => (st, ["bad-op"])

def step (st : DSt) (toks : List String) : DSt × List String :=
  match toks with
  | "ck" :: rest => ckStep st rest
  | "mc" :: rest => mcStep st rest
  | _ => (st, ["bad-op"])

end C21

def main : IO Unit := Driver.run { init := ({} : C21.DSt), step := C21.step }
