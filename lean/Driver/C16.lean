/-
  drv_c16 — model side of cmd/verif-c16: the primary is SH.Model.Meta (through Driver.Meta's op parser), every write op also
  prints the binlog events SH.Replay.emit says it appends; `cut` remembers the state and the binlog length; `replay fresh|k`
  runs SH.Replay.applyAll (fixed variant) over the recorded events from the empty state / from snapshot k and dumps the result.
-/
import Driver.Meta
import SH.Model.Replay

open SH SH.Meta SH.Replay

namespace Driver.C16

structure St where
  m : Driver.Meta.St
  log : List BEvent            -- everything appended so far, oldest first
  snaps : List (State × Nat)   -- state and binlog length at every cut

def init : St := { m := Driver.Meta.init, log := [], snaps := [] }

def parseOp? (toks : List String) : Option Replay.Op :=
  match toks with
  | "save" :: rest => (Driver.Meta.parseSave? rest).map (fun a => .base (.save a))
  | ["gc", m, k, now] =>
    match m.toNat?, k.toNat?, now.toNat? with
    | some m, some k, some now => some (.base (.getOrCreate m k now))
    | _, _, _ => none
  | ["put", kvs] => (Driver.Meta.parsePairs? kvs).map (fun kvs => .base (.put kvs))
  | ["del", ids] => (parseIntList? ids).map (fun ids => .base (.delete ids))
  | ["reset", m, limit, now] =>
    match m.toNat?, limit.toInt?, now.toNat? with
    | some m, some limit, some now => some (.base (.reset m limit now))
    | _, _, _ => none
  | ["boot", kvs] => (Driver.Meta.parsePairs? kvs).map (fun kvs => .bootstrap kvs)
  | _ => none

def showReplay : Option State → List String
  | none => ["replay error"]
  | some s => "replay ok" :: dumpTables s

def step (st : St) (toks : List String) : St × List String :=
  match toks with
  | "cfg" :: _ =>
    let r := Driver.Meta.step st.m toks
    ({ st with m := r.1 }, r.2)
  | ["cut"] =>
    ({ st with snaps := st.snaps ++ [(st.m.s, st.log.length)] }, [s!"cut {st.snaps.length} events={st.log.length}"])
  | ["dump"] => (st, dumpTables st.m.s)
  | ["replay", "fresh"] => (st, showReplay (applyAll .fixed State.empty st.log))
  | ["replay", k] =>
    match k.toNat? with
    | none => (st, ["bad-op"])
    | some k =>
      match st.snaps[k]? with
      | none => (st, ["no-snapshot"])
      | some (s, n) => (st, showReplay (applyAll .fixed (snapshotOf s) (st.log.drop n)))
  | _ =>
    match parseOp? toks with
    | none => (st, ["bad-op"])
    | some (.bootstrap ms) =>
      let evs := emit st.m.cfg st.m.s (.bootstrap ms)
      ({ st with m := { st.m with s := pstep st.m.cfg st.m.s (.bootstrap ms) }, log := st.log ++ evs },
       s!"n={ms.length}" :: evs.map (fun e => "bl " ++ showBEvent e))
    | some op =>
      let evs := emit st.m.cfg st.m.s op
      let r := Driver.Meta.step st.m toks      -- the same transition as `pstep`, plus the reply rendering
      ({ st with m := r.1, log := st.log ++ evs }, r.2 ++ evs.map (fun e => "bl " ++ showBEvent e))

end Driver.C16

def main : IO Unit := Driver.run { init := Driver.C16.init, step := Driver.C16.step }
