/-
  drv_c02 — replays the op stream of go/C02 (cmd/verif-c02) on SH.Model.Transfer instantiated with `Rat`
  (variant `.fixed`: the tree after fixes/C02-*.diff; `variant repo` op switches to the pinned-tree behaviour).

  ops (one case = one bucket of rows; the rows are independent of each other in the model):
    variant <repo|fixed>
    key <metric> <ts> <bucketTs> <tags idx:val,…|-> <stags idx:str,…|->    starts the next row and makes it current
    sel <i>                              makes row i (0-based, in `key` order) current
    every `ev` op ends with <cap> <redirect> <rounds> <evicted keys|->: what MapStringTop's draws did (see Draws)
    fin <cap> <folded keys|->            FinishStringTop(cap) of the sampler path folded these entries into Tail
    ev c <top> <count> <host> <pick>
    ev v <top> <count> <vals q,…|-> <hist v:c,…|-> <host> <pick> <pct>
    ev l … (same arguments)              the same event on an agent with LegacyApplyValues (MultiValue.ApplyValuesLegacy)
    ev p <top> <value> <count> <host> <pick> <pct>
    ev u <top> <count> <hashes value:h32,…> <host> <pick>
    cents <top> <m:w,…|->                observed ValueTDigest.Centroids() of that MultiValue at send time
    send <sf> <pct>
    merge <host> <cmpc> <maps str:int,…|->   host = the agent's host tag as the aggregator resolved it; maps = the string
                                         mappings the aggregator knows; cmpc=1: digest compared centroid by centroid, else by weight
-/
import Driver.Common
import SH.Model.Transfer

open SH SH.Transfer

abbrev Q := Rat

structure RowSt where
  row : Row Q := Row.empty ⟨0, 0, [], []⟩
  sfLog2 : Nat := 0
  bucketTs : Nat := 0
  cents : List (Tag × List (Centroid Q)) := []
  item : Option (TLItem Q) := none

structure St where
  var : Variant := Variant.fixed
  rows : Array RowSt := #[]
  cur : Nat := 0

def St.get? (st : St) : Option RowSt := st.rows[st.cur]?
def St.put (st : St) (r : RowSt) : St := { st with rows := st.rows.set! st.cur r }

/-! parsing -/

def parseQ? (s : String) : Option Q :=
  match s.splitOn "/" with
  | [n] => n.toInt?.map (fun (x : Int) => (x : Q))
  | [n, d] => match n.toInt?, d.toNat? with
    | some n, some d => if d = 0 then none else some ((n : Q) / (d : Q))
    | _, _ => none
  | _ => none

def parseTag? (s : String) : Option Tag :=
  if s = "-" then some Tag.none
  else match s.toList with
    | 'i' :: rest => (String.ofList rest).toInt?.map (fun i => ⟨i, []⟩)
    | 's' :: rest => some ⟨0, rest⟩
    | 'b' :: rest =>   -- both set (not normalized): b<int>.<str>
      match (String.ofList rest).splitOn "." with
      | [i, s] => i.toInt?.map (fun i => ⟨i, s.toList⟩)
      | _ => none
    | _ => none

def parseBool? (s : String) : Option Bool :=
  if s = "1" then some true else if s = "0" then some false else none

def parseQList? (s : String) : Option (List Q) := (parseList s).mapM parseQ?

def parsePair? {β γ : Type} (f : String → Option β) (g : String → Option γ) (s : String) : Option (β × γ) :=
  match s.splitOn ":" with
  | [a, b] => match f a, g b with
    | some a, some b => some (a, b)
    | _, _ => none
  | _ => none

def parsePairs? {β γ : Type} (f : String → Option β) (g : String → Option γ) (s : String) : Option (List (β × γ)) :=
  (parseList s).mapM (parsePair? f g)

def setAt {β : Type} (l : List β) (i : Nat) (x : β) : List β := l.set i x

def sparse {β : Type} (d : β) (ps : List (Nat × β)) : List β :=
  ps.foldl (fun l p => setAt l p.1 p.2) (List.replicate maxTags d)

/-! rendering -/

def showQ (q : Q) : String := if q.den = 1 then toString q.num else s!"{q.num}/{q.den}"

def showTag (t : Tag) : String :=
  if t.i = 0 && t.s.isEmpty then "-"
  else if t.s.isEmpty then s!"i{t.i}"
  else if t.i = 0 then "s" ++ String.ofList t.s
  else s!"b{t.i}." ++ String.ofList t.s

def sortStrings (l : List String) : List String := (l.toArray.qsort (· < ·)).toList

def showCents (l : List (Centroid Q)) : String :=
  showList (sortStrings (l.map (fun c => showQ c.mean ++ ":" ++ showQ c.w)))

def showDg (full : Bool) (d : Option (List (Centroid Q))) : String :=
  match d with
  | none => "nil"
  | some l => if full then showCents l else "~" ++ showQ (l.foldl (fun a c => a + c.w) 0)

def showOpt {β : Type} (f : β → String) (o : Option β) : String :=
  match o with
  | none => "_"
  | some x => f x

def showBool (b : Bool) : String := if b then "1" else "0"

/-- sum of squares is compared only inside the exact domain of float64 (DESIGN §4.1: |values| ≤ 2^26) -/
def absQ (q : Q) : Q := if q < 0 then -q else q
def showSq (mn mx sq : Q) : String := if absQ mn > 67108864 || absQ mx > 67108864 then "~" else showQ sq

def showMV (full : Bool) (name : String) (m : MultiValue Q) : String :=
  s!"{name} cnt={showQ m.v.counter} hc={showTag m.v.hcnt} vs={showBool m.v.vset} min={showQ m.v.min} max={showQ m.v.max} " ++
  s!"sum={showQ m.v.sum} sq={showSq m.v.min m.v.max m.v.sq} hmin={showTag m.v.hmin} hmax={showTag m.v.hmax} dg={showDg full m.dg} uqn={m.uq.length} uq={showList m.uq}"

def showSparse {β : Type} (isDef : β → Bool) (f : β → String) (l : List β) : String :=
  showList ((l.zipIdx.filter (fun p => !isDef p.1)).map (fun p => s!"{p.2}:{f p.1}"))

def showTLValue (name : String) (t : TLValue Q) : String :=
  s!"tl val {name} c={showOpt showQ t.counter} eq1={showBool t.eq1} vs={showBool t.vset} min={showOpt showQ t.min} " ++
  s!"max={showOpt showQ t.max} sum={showQ t.sum} sq={showSq (t.min.getD 0) (t.max.getD 0) t.sq} uq={showOpt showList t.uq} cents={showOpt showCents t.cents} " ++
  s!"imp={showBool t.implicit} hmaxI={showOpt toString t.hmaxI} hminI={showOpt toString t.hminI} hcntI={showOpt toString t.hcntI} " ++
  s!"hmaxS={showOpt String.ofList t.hmaxS} hminS={showOpt String.ofList t.hminS} hcntS={showOpt String.ofList t.hcntS}"

def showStrs (l : List Str) : String := showList (l.map String.ofList)

def showTLItem (it : TLItem Q) : List String :=
  [s!"tl key metric={it.metric} keys={showList it.keys} skeys={showOpt showStrs it.skeys} t={showOpt toString it.t} top={showOpt (fun (l : List (TLTop Q)) => toString l.length) it.top}",
   showTLValue "tail" it.tail] ++
  sortStrings ((it.top.getD []).map (fun e => showTLValue (showTag ⟨e.tag.getD 0, e.stag⟩) e.value))

def showRowVals (full : Bool) (pre : String) (r : Row Q) : List String :=
  [showMV full (pre ++ " tail") r.tail] ++ sortStrings (r.top.map (fun kv => showMV full (pre ++ " " ++ showTag kv.1) kv.2))

def showKey (k : Key) : String :=
  s!"ts={k.ts} metric={k.metric} tags={showSparse (fun (x : Int) => x == 0) toString k.tags} stags={showSparse (fun (x : Str) => x.isEmpty) String.ofList k.stags}"

/-- Key.MarshalAppend: fixed-width fields as numbers, the string-tag section as hex bytes -/
def showMarshalled (m : Marshalled) : String :=
  s!"mk ts={m.ts} metric={m.metric} tags={showList m.tags} sb={showHex (m.stagBytes.map (fun c => UInt8.ofNat c.toNat))}"

/-! steps -/

def parseTags? (s : String) : Option (List Tag) := (parseList s).mapM parseTag?

/-- the draws of MapStringTop as observed by the harness: capacity, redirect flag, number of resample rounds, evicted keys
    (all attributed to the last round; fold order = the listed order, max-counter-host draws `false`: rows that can
    resample carry a single host tag) -/
structure Draws where
  cap : Nat
  redirect : Bool
  rounds : List (List (Tag × Bool))

def parseDraws? (cap rd rounds ev : String) : Option Draws :=
  match cap.toNat?, parseBool? rd, rounds.toNat?, parseTags? ev with
  | some cap, some rd, some n, some ev =>
    some ⟨cap, rd, if n = 0 then [] else List.replicate (n - 1) [] ++ [ev.map (fun k => (k, false))]⟩
  | _, _, _, _ => none

def evStep (st : St) (top : Tag) (e : Event Q) (d : Option Draws) : St × List String :=
  match st.get?, d with
  | some rs, some d =>
    match rowEventCap d.cap ⟨rs.row, rs.sfLog2⟩ top e d.redirect d.rounds with
    | none => (st, ["bad-draw"])
    | some a =>
      let r := a.row
      let key := if top.isEmpty then Tag.none else top.normalize
      let m := if top.isEmpty then r.tail
        else match r.top.lookup key with
          | some m => m
          | none => if d.redirect && decide (0 < e.count) then r.tail else MultiValue.empty
      (st.put { rs with row := r, sfLog2 := a.sfLog2 }, [showMV true ("mv " ++ showTag key) m])
  | _, _ => (st, ["bad-op"])

def lookupCents (cs : List (Tag × List (Centroid Q))) (t : Tag) : List (Centroid Q) := (cs.lookup t).getD []

def step (st : St) (toks : List String) : St × List String :=
  match toks with
  | ["variant", "repo"] => ({ st with var := Variant.repo }, [])
  | ["variant", "fixed"] => ({ st with var := Variant.fixed }, [])
  | ["key", metric, ts, bts, tags, stags] =>
    match metric.toInt?, ts.toNat?, bts.toNat?, parsePairs? String.toNat? String.toInt? tags,
        parsePairs? String.toNat? (fun s => some s.toList) stags with
    | some metric, some ts, some bts, some tags, some stags =>
      if tags.any (fun p => p.1 ≥ maxTags) || stags.any (fun p => p.1 ≥ maxTags) then (st, ["bad-op"]) else
      let k : Key := ⟨ts, metric, sparse 0 tags, sparse [] stags⟩
      ({ st with rows := st.rows.push { row := Row.empty k, bucketTs := bts }, cur := st.rows.size }, ["key " ++ showKey k, showMarshalled (marshalKey k)])
    | _, _, _, _, _ => (st, ["bad-op"])
  | ["ev", "c", top, count, host, pick, cap, rd, rounds, evk] =>
    match parseTag? top, parseQ? count, parseTag? host, parseBool? pick with
    | some top, some count, some host, some pick => evStep st top (.counter count host pick) (parseDraws? cap rd rounds evk)
    | _, _, _, _ => (st, ["bad-op"])
  | ["ev", "v", top, count, vals, hist, host, pick, pct, cap, rd, rounds, evk] =>
    match parseTag? top, parseQ? count, parseQList? vals, parsePairs? parseQ? parseQ? hist, parseTag? host, parseBool? pick, parseBool? pct with
    | some top, some count, some vals, some hist, some host, some pick, some pct =>
      evStep st top (.values hist vals count host pick pct) (parseDraws? cap rd rounds evk)
    | _, _, _, _, _, _, _ => (st, ["bad-op"])
  | ["ev", "l", top, count, vals, hist, host, pick, pct, cap, rd, rounds, evk] =>
    match parseTag? top, parseQ? count, parseQList? vals, parsePairs? parseQ? parseQ? hist, parseTag? host, parseBool? pick, parseBool? pct with
    | some top, some count, some vals, some hist, some host, some pick, some pct =>
      evStep st top (.valuesLegacy hist vals count host pick pct) (parseDraws? cap rd rounds evk)
    | _, _, _, _, _, _, _ => (st, ["bad-op"])
  | ["ev", "p", top, value, count, host, pick, pct, cap, rd, rounds, evk] =>
    match parseTag? top, parseQ? value, parseQ? count, parseTag? host, parseBool? pick, parseBool? pct with
    | some top, some value, some count, some host, some pick, some pct =>
      evStep st top (.valuePct value count host pick pct) (parseDraws? cap rd rounds evk)
    | _, _, _, _, _, _ => (st, ["bad-op"])
  | ["ev", "u", top, count, hashes, host, pick, cap, rd, rounds, evk] =>
    match parseTag? top, parseQ? count, parsePairs? parseQ? String.toNat? hashes, parseTag? host, parseBool? pick with
    | some top, some count, some hashes, some host, some pick =>
      evStep st top (.unique hashes count host pick) (parseDraws? cap rd rounds evk)
    | _, _, _, _, _ => (st, ["bad-op"])
  | ["fin", cap, evk] =>
    match cap.toNat?, parseTags? evk, st.get? with
    | some cap, some evk, some rs =>
      match finishTop cap ⟨rs.row, rs.sfLog2⟩ (evk.map (fun k => (k, false))) with
      | none => (st, ["bad-draw"])
      | some a => (st.put { rs with row := a.row }, [s!"fin tops={a.row.top.length}"])
    | _, _, _ => (st, ["bad-op"])
  | ["sel", i] =>
    match i.toNat? with
    | some i => if i < st.rows.size then ({ st with cur := i }, []) else (st, ["bad-op"])
    | none => (st, ["bad-op"])
  | ["cents", top, cs] =>
    match parseTag? top, parsePairs? parseQ? parseQ? cs, st.get? with
    | some top, some cs, some rs => (st.put { rs with cents := (top, cs.map (fun p => ⟨p.1, p.2⟩)) :: rs.cents }, [])
    | _, _, _ => (st, ["bad-op"])
  | ["send", sf, pct] =>
    match parseQ? sf, parseBool? pct, st.get? with
    | some sf, some pct, some rs =>
      let it := rowToTL st.var rs.row rs.bucketTs sf pct (lookupCents rs.cents)
      (st.put { rs with item := some it }, showTLItem it)
    | _, _, _ => (st, ["bad-op"])
  | ["merge", host, cmpc, maps] =>
    match parseTag? host, parseBool? cmpc, parsePairs? (fun s => some s.toList) String.toInt? maps,
        st.get?.bind (fun rs => rs.item.map (fun it => (rs, it))) with
    | some host, some cmpc, some maps, some (rs, it) =>
      let mp : Str → Int := fun s => (maps.lookup s).getD 0
      let r := receiveM st.var mp it rs.bucketTs host
      (st, [s!"agg key {showKey r.row.key} warn={(tsFromTL it.t rs.bucketTs).2}"] ++ showRowVals cmpc "agg" r.row)
    | _, _, _, _ => (st, ["bad-op"])
  | _ => (st, ["bad-op"])

def main : IO Unit :=
  Driver.run { init := ({} : St), step := step }
