import Driver.Common
import SH.Model.Engine

open SH SH.Engine

def sortNat (l : List Nat) : List Nat := (l.toArray.qsort (· < ·)).toList

/-- "e<id>:<ln>" or "s<ln>" -/
def parseEnt (t : String) : Option (Bool × Nat × Nat) :=
  if t.startsWith "e" then
    match (t.drop 1).toString.splitOn ":" with
    | [a, b] => match a.toNat?, b.toNat? with
      | some id, some ln => some (true, id, ln)
      | _, _ => none
    | _ => none
  else if t.startsWith "s" then
    match (t.drop 1).toString.toNat? with
    | some ln => some (false, 0, ln)
    | none => none
  else none

def parseEnts (t : String) : Option (List (Bool × Nat × Nat)) := (parseList t).mapM parseEnt

def parseKind : String → Option Kind
  | "ok" => some .ok | "cbfail" => some .cbfail | "cbfail0" => some .cbfail0
  | "sqlfail" => some .sqlfail | "appfail" => some .appfail | "read" => some .read
  | "ctxcancel" => some .ctxfail | "ctxdeadline" => some .ctxfail
  | _ => none

def dump (s : St) : String :=
  if s.closed then s!"closed acked={showList (sortNat s.acked)}"
  else
    let tx := if s.ptx then "busy" else fmtDB s.tx
    s!"com={fmtDB s.com} tx={tx} dbo={s.dbo} ci={s.ci} wq={s.waitQ.length} acked={showList (sortNat s.acked)}"

def withDump (r : St × String) : St × List String :=
  if r.2 == "bad-op" then (r.1, ["bad-op"]) else (r.1, [r.2 ++ " | " ++ dump r.1])

def plain (r : St × String) : St × List String := (r.1, [r.2])

def entsMatch (l : List (Bool × Nat × Nat)) (recs : List Rec) : Bool :=
  l.length ≤ recs.length && (l.zip recs).all (fun (a, r) => a.1 == r.isEv && (a.2.1 == r.id || !a.1) && a.2.2 == r.ln)

/-- canonical replay used for the kill runs: one record per delivery, final Commit(len), ready -/
def replay : Nat → St → St
  | 0, s => s
  | fuel + 1, s =>
    match s.rest with
    | [] => s
    | r :: _ => if r.isEv then replay fuel (step s (.dApply 1)).1 else replay fuel (step s (.dSkip r.ln)).1

def recover (rows : List Nat) (off : Nat) (l : List (Bool × Nat × Nat)) : String :=
  let recs := mkRecs 0 l
  let s0 := init false false [] (total recs)
  let s1 := { s0 with com := ⟨rows, off⟩, tx := ⟨rows, off⟩, dbo := off, done := upTo off recs, rest := above off recs }
  let s2 := replay (recs.length + 1) s1
  let s3 := (step (step s2 (.commit s2.len)).1 .ready).1
  s!"rows={showList s3.tx.rows} off={s3.tx.off} dbo={s3.dbo} left={s3.rest.length}"

def step' (s : St) (toks : List String) : St × List String :=
  match toks with
  | ["open", w, r, ents] => match w.toNat?, r.toNat?, parseEnts ents with
    | some w, some r, some l => (init (w == 1) (r == 1) (mkRecs 0 l) (total (mkRecs 0 l)), ["start=0"])
    | _, _, _ => (s, ["bad-op"])
  | ["d-apply", ents] => match parseEnts ents with
    | some l => if entsMatch l s.rest then plain (step s (.dApply l.length)) else (s, ["bad-op"])
    | none => (s, ["bad-op"])
  | ["d-buf", m] => match m.toNat? with
    | some m => plain (step s (.dApplyBuf m))
    | none => (s, ["bad-op"])
  | ["view"] => plain (step s .view)
  | ["d-skip", n] => match n.toNat? with
    | some n => plain (step s (.dSkip n))
    | none => (s, ["bad-op"])
  | ["d-commit", k] => match k.toNat? with
    | some k => plain (step s (.commit k))
    | none => (s, ["bad-op"])
  | ["ready", _] => withDump (step s .ready)
  | ["do", id, ln, extra, k] => match id.toNat?, ln.toNat?, extra.toNat?, parseKind k with
    | some id, some ln, some extra, some k => withDump (step s (.doOp id ln extra k))
    | _, _, _, _ => (s, ["bad-op"])
  | ["donow", id, ln, extra] => match id.toNat?, ln.toNat?, extra.toNat? with
    | some id, some ln, some extra => withDump (step s (.doNow id ln extra))
    | _, _, _ => (s, ["bad-op"])
  | ["commit", k] => match k.toNat? with
    | some k => withDump (step s (.commit k))
    | none => (s, ["bad-op"])
  | ["tx"] => withDump (step s .tx)
  | ["tick"] => withDump (step s .tx)   -- the harness let real time pass (several CommitEvery) instead of calling the commit itself
  | ["apply", ents] => match parseEnts ents with
    | some l =>
      let r := step s (.append l)
      if r.2 == "bad-op" || !s.rest.isEmpty then (s, ["bad-op"]) else withDump (step r.1 (.dApply l.length))
    | none => (s, ["bad-op"])
  | ["skip", n] => match n.toNat? with
    | some n =>
      let r := step s (.append [(false, 0, n)])
      if r.2 == "bad-op" || !s.rest.isEmpty then (s, ["bad-op"]) else withDump (step r.1 (.dSkip n))
    | none => (s, ["bad-op"])
  | ["hold", b] => match b.toNat? with
    | some b => withDump (step s (.hold (b == 1)))
    | none => (s, ["bad-op"])
  | ["close"] => withDump (step s .close)
  | ["crash", d] => match d.toNat? with
    | some d => plain (step s (.crash d false))
    | none => (s, ["bad-op"])
  | ["write", _] => (s, ["ok"])   -- after a completed recovery the engine accepts and (fsbinlog commits) acknowledges a write
  -- kill runs: last token = 1 if the last binlog file ends with a partial record (kill inside write(2)): the current
  -- code does not reopen such a binlog (model: `step s (.crash d true)` = open-error for a master)
  | ["recover", rows, off, ents, torn] => match parseNatList? rows, off.toNat?, parseEnts ents, torn.toNat? with
    | some rows, some off, some l, some t =>
      if t == 1 then
        let recs := mkRecs 0 l
        let s0 := init true false [] (total recs)
        let s1 := { s0 with com := ⟨rows, off⟩, tx := ⟨rows, off⟩, dbo := off, done := upTo off recs, rest := above off recs }
        (s, [(step s1 (.crash s1.len true)).2])
      else (s, [recover rows off l])
    | _, _, _, _ => (s, ["bad-op"])
  | _ => (s, ["bad-op"])

def main : IO Unit :=
  Driver.run { init := init false false [] 0, step := step' }
