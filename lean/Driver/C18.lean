import Driver.Common
import SH.Model.Binlog

open SH SH.Binlog

structure St where
  cfg : Cfg
  files : List Bytes          -- on-disk files in position order
  sys : Option Sys            -- running writer session

def cfg0 : Cfg := { upd := crcUpdate, evMagic := 0, chunk := 0, crcEvery := 65536, schema := 0 }

def errName : Err → String
  | .crc => "crc" | .unknownMagic => "unknownMagic" | .badMagic => "badMagic" | .skip => "skip"
  | .applyPos => "applyPos" | .applyLen => "applyLen" | .applyZero => "applyZero" | .unmodelled => "unmodelled"
  | .seek => "seek" | .seekCrc => "seekCrc" | .metaPos => "metaPos" | .fromLow => "fromLow" | .scan => "scan"
  | .scanPanic => "panic" | .notFound => "notFound" | .badMeta => "badMeta"

def commitStr : Option Commit → String
  | none => "-"
  | some c => s!"{c.off}/{c.crc.toNat}/{c.ts}"

def digest (evs : List (Int × Bytes)) : UInt32 :=
  evs.reverse.foldl (fun c e => crcUpdate (crcUpdate c (le64 (u64 e.1))) e.2) 0

def readObs (kind : String) (r : RA) : String :=
  match r.err with
  | some .scanPanic => s!"{kind} err=panic"
  | some e => s!"{kind} err={errName e} pos=0 crc=0 n={r.eng.evs.length} dig={(digest r.eng.evs).toNat} eoff={r.eng.off} rc={commitStr r.eng.commits.head?}"
  | none => s!"{kind} err=none pos={r.pos} crc={r.crc.toNat} n={r.eng.evs.length} dig={(digest r.eng.evs).toNat} eoff={r.eng.off} rc={commitStr r.eng.commits.head?}"

def parseMeta (s : String) : Option (Option (Option Meta)) :=   -- none = bad token; some none = no meta; some (some none) = undecodable
  if s = "-" then some none else
  match parseHex? s with
  | none => none
  | some b => some (some (decMeta b))

def doRead (st : St) (files : List Bytes) (fromS metaS eoffS : String) : Option RA :=
  match fromS.toInt?, parseMeta metaS, eoffS.toInt? with
  | some fromPos, some m, some eoff =>
    let eng : Eng := { off := eoff, evs := [], commits := [] }
    match m with
    | some none => some { pos := 0, crc := 0, err := some .badMeta, eng := eng, ts := 0, last := none }
    | none => some (readAll st.cfg files fromPos none 0 eng)
    | some (some mm) => some (readAll st.cfg files fromPos (some mm) 0 eng)
  | _, _, _ => none

def genBody (n a b : Nat) : Bytes := (List.range n).map (fun i => UInt8.ofNat ((a + i * b) % 256))

def parsePayload (magic : Nat) (s : String) : Option Bytes :=
  match s.splitOn ":" with
  | ["g", n, a, b] => match n.toNat?, a.toNat?, b.toNat? with
    | some n, some a, some b => some (encEvent magic (genBody n a b))
    | _, _, _ => none
  | ["x", h] => parseHex? h
  | _ => none

def setAt (l : List Bytes) (i : Nat) (f : Bytes → Bytes) : List Bytes :=
  l.zipIdx.map (fun p => if p.2 = i then f p.1 else p.1)

def flipBit (d : Bytes) (byte bit : Nat) : Bytes :=
  d.zipIdx.map (fun p => if p.2 = byte then p.1 ^^^ (UInt8.ofNat (2 ^ bit)) else p.1)

def applyDmg (files : List Bytes) (s : String) : Option (List Bytes) :=
  if s = "-" then some files else
  match s.splitOn ":" with
  | ["t", f, n] => match f.toNat?, n.toNat? with
    | some f, some n => some (setAt files f (·.take n))
    | _, _ => none
  | ["f", f, b, k] => match f.toNat?, b.toNat?, k.toNat? with
    | some f, some b, some k => some (setAt files f (fun d => flipBit d b k))
    | _, _, _ => none
  | ["d", f] => match f.toNat? with
    | some f => some ((files.zipIdx.filter (fun p => p.2 ≠ f)).map (·.1))
    | none => none
  | _ => none

def sysFiles (s : Sys) : List Bytes := (s.l.older.reverse ++ [s.l.cur]).map (·.data)

def splitLast : List Bytes → Option (List Bytes × Bytes)
  | [] => none
  | [x] => some ([], x)
  | x :: xs => match splitLast xs with
    | some (i, l) => some (x :: i, l)
    | none => none

def step (st : St) (toks : List String) : St × List String :=
  match toks with
  | ["cfg", c, m, sc, ce] => match c.toNat?, m.toNat?, sc.toNat?, ce.toNat? with
    | some c, some m, some sc, some ce =>
      ({ st with cfg := { upd := crcUpdate, evMagic := m, chunk := c, crcEvery := ce, schema := sc }, files := [], sys := none }, [])
    | _, _, _, _ => (st, ["bad-op"])
  | ["init", h] => match parseHex? h with
    | some b => ({ st with files := [b] }, [])
    | none => (st, ["bad-op"])
  | ["open", f, m, e] =>
    match doRead st st.files f m e with
    | none => (st, ["bad-op"])
    | some r =>
      match r.err, r.last, splitLast st.files with
      | none, some last, some (older, cur) =>
        let w := wsInit st.cfg true r.pos.toNat r.crc last r.ts
        let c0 : Commit := { off := r.pos, crc := r.crc, ts := r.ts }
        let l : LS := { cur := { data := cur, synced := cur.length }, older := older.reverse.map (fun d => { data := d, synced := d.length }),
                        lastFsync := r.pos.toNat, dirty := false, commits := [c0] }
        ({ st with sys := some { w := w, l := l } }, [readObs "open" r, s!"wl commit={commitStr (some c0)}"])
      | _, _, _ => ({ st with sys := none }, [readObs "open" r])
  | ["app", asap, inOff, ts, h1, h2, spec] =>
    match st.sys, asap.toNat?, inOff.toInt?, ts.toNat?, h1.toNat?, h2.toNat?, parsePayload st.cfg.evMagic spec with
    | some s, some asap, some inOff, some ts, some h1, some h2, some body =>
      let (w', res, next) := putLev st.cfg s.w inOff body (asap == 1) ts h1 h2
      let added := w'.buff.drop s.w.buff.length
      let rs := match res with | .ok => "ok" | .stopped => "stopped" | .wrongOffset => "wrongOffset" | .panic => "panic"
      let add := match res with | .ok => (crcUpdate 0 added).toNat | _ => 0
      ({ st with sys := some { s with w := w' } }, [s!"app res={rs} next={next} crc={w'.crc.toNat} add={add}"])
    | _, _, _, _, _, _, _ => (st, ["bad-op"])
  | ["iter", t] =>
    match st.sys, t.toNat? with
    | some s, some t =>
      let s' := iter s (t == 1) false
      let c := if s'.l.commits.length > s.l.commits.length then s'.l.commits.head? else none
      ({ st with sys := some s' }, [s!"iter commit={commitStr c} written={writtenEnd s'.l}"])
    | _, _ => (st, ["bad-op"])
  | ["stop"] =>
    match st.sys with
    | some s =>
      let s' := iter s false true
      let c := if s'.l.commits.length > s.l.commits.length then s'.l.commits.head? else none
      ({ st with sys := some s', files := sysFiles s' }, [s!"stop err=none commit={commitStr c} pos={s.w.offG} crc={s.w.crc.toNat}"])
    | none => (st, ["bad-op"])
  | ["files"] =>
    let lines := st.files.map (fun d =>
      match scanHeader st.cfg d with
      | .ok h => s!"file {h.pos} {d.length} {(crcUpdate 0 d).toNat}"
      | .error _ => s!"file ? {d.length} {(crcUpdate 0 d).toNat}")
    (st, s!"files {st.files.length}" :: lines)
  | ["read", f, m, e, d] =>
    match applyDmg st.files d with
    | none => (st, ["bad-op"])
    | some files =>
      match doRead st files f m e with
      | none => (st, ["bad-op"])
      | some r => (st, [readObs "read" r])
  | _ => (st, ["bad-op"])

def main : IO Unit :=
  Driver.run { init := { cfg := cfg0, files := [], sys := none }, step := step }
