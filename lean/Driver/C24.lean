import Driver.Common
import SH.Model.PCache

/-!
  drv_c24 — replays the op stream of go/C24 (cmd/verif-c24) on SH.Model.PCache.

    new <approxMaxSize> <utcOffset>
    get <id> <key> <from> <to> <avoid> <clocks>           loadCached section (+ the loadedAt reading)
    end <id> <err> <n> <gen> <clocks> <evicted keys>      store section of the same get
    inval <clocks> <secs> <deleted keys level 0> <level 1> <level 2>
    dump
-/

open SH SH.PCache

structure Pending where
  id : Nat
  key : Nat
  tFrom : Int
  tTo : Int
  avoid : Bool
  loadedAt : Int

structure St where
  s : State
  pending : List Pending

def sortBy {α} (lt : α → α → Bool) (l : List α) : List α := (l.toArray.qsort lt).toList

def rangeLt (a b : CRows) : Bool := a.tFrom < b.tFrom || (a.tFrom == b.tFrom && a.tTo < b.tTo)

def showRange (c : CRows) : String :=
  s!"{c.tFrom}:{c.tTo}@{c.loadedAt}/{c.n}/{if c.n > 0 then c.gen else 0}"

def entryLine (e : Option Entry) : String :=
  match e with
  | none => "entry none"
  | some e =>
    let rs := sortBy rangeLt e.rows
    let body := if rs.isEmpty then "-" else ";".intercalate (rs.map showRange)
    s!"entry k={e.key} lru={e.lru} rowsSize={e.rowsSize} ranges={body}"

def keyStr (e : Entry) : String := "k" ++ toString e.key

def showLevel (m : LMap) : String :=
  let l := sortBy (fun (a b : Int × Int) => a.1 < b.1) m
  if l.isEmpty then "-" else ",".intercalate (l.map (fun p => s!"{p.1}={p.2}"))

def dump (s : State) : List String :=
  let es := sortBy (fun a b => keyStr a < keyStr b) s.cache
  [s!"size={s.size} keys={s.cache.length}"] ++ es.map (fun e => entryLine (some e)) ++
  (s.levels.zipIdx.map (fun (p, i) => s!"level {i} {showLevel p.2}"))

def lruOf (c : List Entry) (k : Nat) : Int :=
  match findEntry c k with
  | some e => e.lru
  | none => 0

def flagStr : EvictFlag → String
  | .ok => "ok" | .hang => "hang" | .noChoice => "evict-not-reported" | .illegal => "illegal-evict" | .extra => "evict-extra"

/-- Several evictions inside one store section are observed as a SET. With equal lru values the order in which
    the real loop took them is not determined by the state, and it decides when the loop stops; search for an
    order the model accepts (depth-first; candidates are the keys `evictLegal` allows at that point). -/
def findOrder : Nat → State → List Nat → Option (List Nat)
  | 0, s, rem => if !needEvict s && rem.isEmpty then some [] else none
  | fuel + 1, s, rem =>
    if !needEvict s then (if rem.isEmpty then some [] else none)
    else
      (rem.filter (fun k => evictLegal s.cache k)).firstM (fun k =>
        (findOrder fuel (evictOne s k) (rem.erase k)).map (fun l => k :: l))

def doGet (st : St) (id key : Nat) (f t : Int) (avoid : Bool) (clocks : List Int) : St × List String :=
  let s := st.s
  let pend (la : Int) : Pending := { id, key, tFrom := f, tTo := t, avoid, loadedAt := la }
  if avoid then
    match clocks with
    | [c] => ({ st with pending := pend c :: st.pending }, [s!"load why=avoid {entryLine (findEntry s.cache key)}"])
    | _ => (st, [s!"clock-mismatch avoid want=1 got={clocks.length}"])
  else
    match lookupRows s key f t with
    | none =>
      match clocks with
      | [c] => ({ st with pending := pend c :: st.pending }, [s!"load why=absent {entryLine (findEntry s.cache key)}"])
      | _ => (st, [s!"clock-mismatch absent want=1 got={clocks.length}"])
    | some _ =>
      match clocks with
      | [c1, c2] =>
        match loadCached s key f t c1 c2 with
        | (s', .served n gen) => ({ st with s := s' }, [s!"hit n={n} gen={if n > 0 then gen else 0} {entryLine (findEntry s'.cache key)}"])
        | (_, _) => (st, ["clock-mismatch model says stale: want=3 got=2"])
      | [c1, c2, c3] =>
        match loadCached s key f t c1 c2 with
        | (s', .stale) => ({ s := s', pending := pend c3 :: st.pending }, [s!"load why=stale {entryLine (findEntry s'.cache key)}"])
        | (_, _) => (st, ["clock-mismatch model says served: want=2 got=3"])
      | _ => (st, [s!"clock-mismatch present want=2|3 got={clocks.length}"])

def doEnd (st : St) (id : Nat) (err : Bool) (n gen : Nat) (clocks : List Int) (evicted : List Nat) : St × List String :=
  match st.pending.find? (fun p => p.id == id) with
  | none => (st, ["bad-op unknown load id"])
  | some p =>
    let st1 := { st with pending := st.pending.filter (fun q => q.id != id) }
    let line (s : State) := s!"stored size={s.size} keys={s.cache.length} {entryLine (findEntry s.cache p.key)}"
    if err || p.avoid then
      if clocks.isEmpty && evicted.isEmpty then (st1, [line st1.s])
      else (st1, ["clock-mismatch no store section expected"])
    else
      match clocks with
      | [tLru] =>
        let sorted := sortBy (fun a b => lruOf st.s.cache a < lruOf st.s.cache b || (lruOf st.s.cache a == lruOf st.s.cache b && a < b)) evicted
        let order := (findOrder sorted.length st1.s sorted).getD sorted
        let cr : CRows := { tFrom := p.tFrom, tTo := p.tTo, n, gen, loadedAt := p.loadedAt }
        match store st1.s p.key tLru cr order with
        | (s', .ok) => ({ st1 with s := s' }, [line s'])
        | (s', f) => ({ st1 with s := s' }, [flagStr f, line s'])
      | _ => (st1, [s!"clock-mismatch store want=1 got={clocks.length}"])

def doInval (st : St) (clocks secs : List Int) (dels : List (List Int)) : St × List String :=
  match clocks with
  | [tAt, tFrom] =>
    let legal := invalidateLegal st.s tAt tFrom secs dels
    let s' := invalidate st.s tAt tFrom secs dels
    let line := s!"inv levels={showList (s'.levels.map (fun p => p.2.length))}"
    ({ st with s := s' }, if legal then [line] else ["illegal-gc", line])
  | _ => (st, [s!"clock-mismatch invalidate want=2 got={clocks.length}"])

def parseBool? (s : String) : Option Bool := if s = "1" then some true else if s = "0" then some false else none

def step (st : St) (toks : List String) : St × List String :=
  match toks with
  | ["new", m, o] =>
    match m.toInt?, o.toInt? with
    | some m, some o => ({ s := init m o, pending := [] }, [])
    | _, _ => (st, ["bad-op"])
  | ["get", id, key, f, t, avoid, clocks] =>
    match id.toNat?, key.toNat?, f.toInt?, t.toInt?, parseBool? avoid, parseIntList? clocks with
    | some id, some key, some f, some t, some avoid, some clocks => doGet st id key f t avoid clocks
    | _, _, _, _, _, _ => (st, ["bad-op"])
  | ["end", id, err, n, gen, clocks, evicted] =>
    match id.toNat?, parseBool? err, n.toNat?, gen.toNat?, parseIntList? clocks, parseNatList? evicted with
    | some id, some err, some n, some gen, some clocks, some evicted => doEnd st id err n gen clocks evicted
    | _, _, _, _, _, _ => (st, ["bad-op"])
  | "inval" :: clocks :: secs :: dels =>
    match parseIntList? clocks, parseIntList? secs, dels.mapM parseIntList? with
    | some clocks, some secs, some dels => doInval st clocks secs dels
    | _, _, _ => (st, ["bad-op"])
  | ["dump"] => (st, dump st.s)
  | _ => (st, ["bad-op"])

def main : IO Unit :=
  Driver.run { init := { s := init 1 0, pending := [] }, step := step }
