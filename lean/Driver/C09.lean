import Driver.Common
import SH.Model.DiskCache
import SH.Gen.C09

open SH SH.DiskCache

/-! crc32c (Castagnoli, reflected polynomial 0x82F63B78), bitwise; only the driver needs the real function -/

def crcBit (c : UInt32) : UInt32 :=
  if c &&& 1 != 0 then (c >>> 1) ^^^ 0x82F63B78 else c >>> 1

def crcByte (c : UInt32) (b : UInt8) : UInt32 :=
  let c := c ^^^ b.toUInt32
  crcBit (crcBit (crcBit (crcBit (crcBit (crcBit (crcBit (crcBit c)))))))

def crc32c (bs : List UInt8) : Nat :=
  ((bs.foldl crcByte 0xFFFFFFFF) ^^^ 0xFFFFFFFF).toNat

/-- `tornEraseOk` follows the tree under test (regenerated decision-site fact; `false` on the unchanged code) -/
def cfg : Cfg := { crc := crc32c, tornEraseOk := SH.Gen.C09.tornEraseAccepted }

structure St where
  shards : List Shard
  snap : List Shard
  /-- the harness reads everything through ONE reused scratch pad, as the agent does -/
  pad : Bytes := []

def adler (b : Bytes) : Nat :=
  let r := b.foldl (fun (p : Nat × Nat) x => let a := (p.1 + x.toNat) % 65521; (a, (p.2 + a) % 65521)) (1, 0)
  r.2 * 65536 + r.1

def idxOf (s : Shard) (name : Nat) : Nat := (s.disk.findIdx (fun f => f.name == name))

def optIdx (s : Shard) (o : Option Nat) : String :=
  match o with
  | none => "-"
  | some n => toString (idxOf s n)

def rdStr (s : Shard) : String :=
  match s.reading with
  | none => "-"
  | some n => match findO s.ofiles n with
    | none => "?"
    | some f => s!"{idxOf s n}:{f.nextPos}"

def refsStr (s : Shard) : String :=
  -- in disk order
  let l := s.disk.filterMap (fun d => (findO s.ofiles d.name).map (fun f => s!"{idxOf s d.name}:{f.refCount}"))
  showList l

def diskStr (s : Shard) : String :=
  showList (s.disk.map (fun f => s!"{f.bytes.length}:{adler f.bytes}"))

def tail (s : Shard) : String :=
  s!"T={s.total} U={unsent s} L={s.lastID} K={s.known.length} W={s.waiting.length} rd={rdStr s} wr={optIdx s s.writing} R={refsStr s} D={diskStr s}"

def withShardG (st : St) (sh : String) (f : Shard → Shard × String) (rend : Shard → String) : St × List String :=
  match sh.toNat? with
  | none => (st, ["bad-op"])
  | some i =>
    match st.shards[i]? with
    | none => (st, ["bad-op"])
    | some s =>
      let (s', o) := f s
      ({ st with shards := st.shards.set i s' }, [s!"{o} {rend s'}"])

def withShard (st : St) (sh : String) (f : Shard → Shard × String) : St × List String :=
  withShardG st sh f tail

/-- actions on the directory while the process is (about to be) dead: only the directory is observed -/
def withDisk (st : St) (sh : String) (f : Shard → Shard × String) : St × List String :=
  withShardG st sh f (fun s => s!"D={diskStr s}")

def getStr : GetRes → String
  | .unknown => "unknown"
  | .wrongTime => "wrongtime"
  | .readErr => "readerr"
  | .badCrc => "badcrc"
  | .ok d => "ok " ++ showHex d

def restartObs (shards : List Shard) : List String :=
  (shards.zipIdx).map (fun (p : Shard × Nat) => s!"restart sh={p.2} {tail p.1}")

def step (st : St) (toks : List String) : St × List String :=
  match toks with
  | ["new", n] => match n.toNat? with
    | some n => ({ shards := List.replicate n {}, snap := List.replicate n {}, pad := [] }, [])
    | none => (st, ["bad-op"])
  | ["put", sh, t, d, r] => match t.toNat?, parseHex? d, r.toNat? with
    | some t, some d, some r =>
      if r > 1 then (st, ["bad-op"]) else
      withShard st sh (fun s => let (s', id) := put cfg s t d (r == 1); (s', s!"put id={id}"))
    | _, _, _ => (st, ["bad-op"])
  | ["putfail", sh, t, d, r, k] => match t.toNat?, parseHex? d, r.toNat?, k.toNat? with
    | some t, some d, some r, some k =>
      if r > 1 then (st, ["bad-op"]) else
      withShard st sh (fun s => (putFail false cfg s t d (r == 1) k, "putfail id=0"))
    | _, _, _, _ => (st, ["bad-op"])
  | ["get", sh, id, t] => match id.toNat?, t.toNat? with
    | some id, some t =>
      match sh.toNat? with
      | none => (st, ["bad-op"])
      | some i =>
        match st.shards[i]? with
        | none => (st, ["bad-op"])
        | some s =>
          let r := getP .asIs cfg s id t st.pad
          ({ st with shards := st.shards.set i r.1, pad := r.2.2 }, [s!"get {getStr r.2.1} {tail r.1}"])
    | _, _ => (st, ["bad-op"])
  | ["erase", sh, id] => match id.toNat? with
    | some id => withShard st sh (fun s => (erase s id, "erase"))
    | none => (st, ["bad-op"])
  | ["next", sh] =>
    withShard st sh (fun s =>
      match readNext cfg s with
      | (s', .none) => (s', "next t=0 id=0")
      | (s', .got t id) => (s', s!"next t={t} id={id}")
      | (s', .fuel) => (s', "next fuel"))
  | ["restart"] =>
    let shards := st.shards.map restart
    ({ st with shards := shards }, restartObs shards)
  | ["tear", sh, n] => match n.toNat? with
    | some n => withDisk st sh (fun s => (tearNewest s n, "tear"))
    | none => (st, ["bad-op"])
  | ["terase", sh, id, k] => match id.toNat?, k.toNat? with
    | some id, some k => if k > 4 then (st, ["bad-op"]) else withDisk st sh (fun s => (tornErase s id k, "terase"))
    | _, _ => (st, ["bad-op"])
  | ["flip", sh, i, off, x] => match i.toNat?, off.toNat?, x.toNat? with
    | some i, some off, some x => withDisk st sh (fun s => (flip s i off x, "flip"))
    | _, _, _ => (st, ["bad-op"])
  | ["chop", sh, i, len] => match i.toNat?, len.toNat? with
    | some i, some len => withDisk st sh (fun s => (chop s i len, "chop"))
    | _, _ => (st, ["bad-op"])
  | ["snapshot"] => ({ st with snap := st.shards }, [])
  | ["revert"] =>
    let shards := st.snap.map restart
    ({ st with shards := shards }, restartObs shards)
  | ["sizerot", sz, len] => match sz.toNat?, len.toNat? with
    -- the size-rotation predicate alone (big files are not replayed byte for byte)
    | some sz, some len =>
      (st, [s!"sizerot rot={rotates { name := 0, nextPos := 0, size := sz, refCount := 1 } len false}"])
    | _, _ => (st, ["bad-op"])
  | ["toobig", len] => match len.toNat? with
    | some len => (st, [s!"toobig={tooBigLen len}"])
    | none => (st, ["bad-op"])
  | ["putprobe", len] => match len.toNat? with
    -- a body of `len` bytes on an empty shard: does PutBucket accept it, and is it re-read after a restart?
    -- (the two size checks of the model: `tooBigLen` of the writer, `badChunk` of the reader, on a file of exactly 20+len bytes)
    | some len =>
      let acc := !tooBigLen len
      let rd := !badChunk { magic := magicGood, time := 7, size := len, crc := 0 } (headerSize + len) 0
      (st, [s!"putprobe accept={acc} reread={acc && rd}"])
    | none => (st, ["bad-op"])
  | ["readprobe", len] => match len.toNat? with
    -- a file whose only header declares a chunk of `len` bytes and that is exactly 20+len bytes long: does the tail reader take it?
    | some len =>
      (st, [s!"readprobe readable={!badChunk { magic := magicGood, time := 7, size := len, crc := 0 } (headerSize + len) 0}"])
    | none => (st, ["bad-op"])
  | ["vanish", sh, i] => match i.toNat? with
    | some i => withDisk st sh (fun s => (vanish s i, "vanish"))
    | none => (st, ["bad-op"])
  | _ => (st, ["bad-op"])

def main : IO Unit :=
  Driver.run { init := { shards := [], snap := [] }, step := step }
