import Driver.Common
import SH.Model.Timescale

open SH SH.Timescale

structure St where
  cal : Cal
  utcOffset : Int
  ts : Option TS
  ranges : List (Int × Int × Int)

def parseMode? : String → Option Mode
  | "range" => some .range
  | "instant" => some .instant
  | "point" => some .point
  | "tags" => some .tags
  | _ => none

def parsePair? (s : String) : Option (Int × Int) :=
  match s.splitOn ":" with
  | [a, b] => match a.toInt?, b.toInt? with
    | some a, some b => some (a, b)
    | _, _ => none
  | _ => none

def parsePairs? (s : String) : Option (List (Int × Int)) := (parseList s).mapM parsePair?

def checksum (ts : List Int) : Nat :=
  (ts.foldl (fun (acc : Nat × Int) t =>
    (((acc.1 * 1000003 + (Int.toNat ((t + acc.2) % 18446744073709551616))) % 18446744073709551616) % 2305843009213693951,
      acc.2 + 1)) (0, 0)).1

def showLODs (l : List LOD) : String := showList (l.map fun x => s!"{x.step}:{x.len}")

def showErr : Err → String
  | .outOfRange => "out-of-range"
  | .lodRange => "lod-range"
  | .offset => "offset"

def tsObs (r : Except Err TS) : String :=
  match r with
  | .error e => "err " ++ showErr e
  | .ok ts =>
    match ts.time with
    | [] => "empty"
    | t0 :: _ =>
      s!"ok n={ts.time.length} sx={ts.startX} vsx={ts.viewStartX} vex={ts.viewEndX} lods={showLODs ts.lods} t0={t0} tl={ts.time.getLast?.getD 0} sum={checksum ts.time}"

def step (st : St) (toks : List String) : St × List String :=
  match toks with
  | ["utc", ws, z] => match ws.toInt?, z.toInt? with
    | some ws, some z => (st, [s!"utc {calcUTCOffset ws z}"])
    | _, _ => (st, ["bad-op"])
  | ["md", a, b] => match a.toInt?, b.toInt? with
    | some a, some b => if b == 0 then (st, ["bad-op"]) else (st, [s!"md {mathDiv a b}"])
    | _, _ => (st, ["bad-op"])
  | ["rt", t, s, o] => match t.toInt?, s.toInt?, o.toInt? with
    | some t, some s, some o => if s == 0 then (st, ["bad-op"]) else (st, [s!"rt {roundTime t s o}"])
    | _, _, _ => (st, ["bad-op"])
  | ["ts", start, end_, stp, now, width, mode, ext, utc, mos, cal] =>
    match start.toInt?, end_.toInt?, stp.toInt?, now.toInt?, width.toInt?, parseMode? mode, utc.toInt?,
          parsePairs? mos, parseIntList? cal with
    | some start, some end_, some stp, some now, some width, some mode, some utc, some mos, some bounds =>
      if ext != "0" && ext != "1" then (st, ["bad-op"]) else
      let a : Args := { start := start, end_ := end_, step := stp, now := now, width := width, mode := mode,
                        extend := ext == "1", utcOffset := utc, metrics := mos }
      let c := calOfBounds bounds
      let r := getTimescale c a
      ({ cal := c, utcOffset := utc, ts := r.toOption, ranges := [] }, [tsObs r])
    | _, _, _, _, _, _, _, _, _ => (st, ["bad-op"])
  | ["lods", off] => match off.toInt?, st.ts with
    | some off, some ts =>
      let rs := getLODs st.cal st.utcOffset ts off
      ({ st with ranges := rs }, ["lods " ++ showList (rs.map fun x => s!"{x.1}:{x.2.1}:{x.2.2}")])
    | _, _ => (st, ["bad-op"])
  | ["ix", j, t] => match j.toNat?, t.toInt? with
    | some j, some t => match st.ranges[j]? with
      | some r => (st, [match indexOf st.cal r t with | some n => s!"ix {n}" | none => "ix err"])
      | none => (st, ["bad-op"])
    | _, _ => (st, ["bad-op"])
  | _ => (st, ["bad-op"])

def main : IO Unit :=
  Driver.run { init := { cal := calOfBounds [], utcOffset := 0, ts := none, ranges := [] }, step := step }
