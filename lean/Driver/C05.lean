import Driver.Common
import SH.Model.SamplerIO

/-! drv_c05 — replays the sampler ops of verif-c05 on SH.Model.Sampler (C05; C06 uses the same model through drv_c06). -/
def main : IO Unit :=
  Driver.run { init := ({} : SH.Sampler.DState), step := SH.Sampler.dstep }
