import Driver.Meta

def main : IO Unit := Driver.run { init := Driver.Meta.init, step := Driver.Meta.step }
