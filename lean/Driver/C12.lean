import Driver.Common
import SH.Model.Ingest

/-! Driver for C12: replays `cfg`/`map`/`metric`/`ev` ops on SH.Ingest and prints every row after each event. -/

open SH SH.Ingest

structure St where
  cfg : Cfg
  store : Store
  /-- the same events on an agent with Config.LegacyApplyValues -/
  storeL : Store

def initCfg : Cfg :=
  { nShards := 1, now := 0, mapping := [],
    metric := { id := 0, res := 1, pct := false, strategy := 0, shardNum := 0, fixedKey := 0, shard2Key := 0, shard2Ts := 0 } }

def parseHexNat? (s : String) : Option Nat :=
  if s.isEmpty then none else
  s.toList.foldlM (fun acc c => (hexDigit? c).map (fun d => acc * 16 + d)) 0

def parseBool? (s : String) : Option Bool :=
  if s = "1" then some true else if s = "0" then some false else none

def parseXR? (s : String) : Option XR := (parseHexNat? s).map ofBits

def parseHistEntry? (s : String) : Option (XR × XR) :=
  match s.splitOn ":" with
  | [a, b] => do let x ← parseXR? a; let y ← parseXR? b; pure (x, y)
  | _ => none

def parseMapEntry? (s : String) : Option (Str × Int) :=
  match s.splitOn "=" with
  | [a, b] => b.toInt?.map (fun i => (a, i))
  | _ => none

def parseOptStr (s : String) : Option Str := if s = "!" then none else some s

def parseOptInt? (s : String) : Option (Option Int) :=
  if s = "x" then some none else s.toInt?.map some

def parseRaw64? (s : String) : Option (Option (Int × Int)) :=
  if s = "x" then some none else
  match s.splitOn ":" with
  | [a, b] => do let x ← a.toInt?; let y ← b.toInt?; pure (some (x, y))
  | _ => none

def parseTag? (s : String) : Option TagIn :=
  match s.splitOn "/" with
  | [isEnv, mi, rk, lg, kn, kh, dr, co, vn, vh, rw, r64] => do
    let isEnv ← parseBool? isEnv
    let mi ← parseOptInt? mi
    let rk ← rk.toNat?
    let lg ← parseBool? lg
    let dr ← parseBool? dr
    let co ← parseBool? co
    let rw ← parseOptInt? rw
    let r64 ← parseRaw64? r64
    pure { isEnv := isEnv, metaIdx := mi, rawKind := rk, legacy := lg, keyNorm := parseOptStr kn, keyHex := kh, draft := dr,
           corrupted := co, valNorm := parseOptStr vn, valHex := vh, raw := rw, raw64 := r64 }
  | _ => none

def parseEvent? (toks : List String) : Option Event :=
  match toks with
  | pre :: hm :: inv :: ts :: cnt :: vals :: hist :: uniq :: hs :: tags => do
    let pre ← pre.toInt?
    let hm ← parseBool? hm
    let ts ← ts.toNat?
    let cnt ← parseXR? cnt
    let vals ← (parseList vals).mapM parseXR?
    let hist ← (parseList hist).mapM parseHistEntry?
    let uniq ← parseIntList? uniq
    let hs ← hs.toNat?
    let tags ← (if tags = ["-"] then some [] else tags.mapM parseTag?)
    pure { pre := pre, hasMeta := hm, invalid := inv, ts := ts, counter := cnt, values := vals, hist := hist, uniq := uniq, tags := tags, hashShard := hs }
  | _ => none

def showRat (q : Rat) : String := if q.den = 1 then toString q.num else s!"{q.num}/{q.den}"
def showB (b : Bool) : String := if b then "1" else "0"
def joinOr (l : List String) : String := if l.isEmpty then "-" else ";".intercalate l

def showMV (m : MV) : String :=
  s!"cnt={showRat m.cnt} set={showB m.set} min={showRat m.min} max={showRat m.max} sum={showRat m.sum} sq={showRat m.sq} uq={m.uniq.length} td={showB m.td}"

def showKey (it : Item) : String :=
  let tags := (it.ktags.filter (fun p => p.2.1 != 0)).map (fun p => s!"{p.1}:{p.2.1}")
  let stags := (it.ktags.filter (fun p => p.2.2 != "-")).map (fun p => s!"{p.1}:{p.2.2}")
  s!"sh={it.shard} m={it.metric} ts={it.ts} tags={joinOr tags} stags={joinOr stags}"

def showTop (t : Int × Str × MV) : String := if t.1 != 0 then s!"I{t.1}" else s!"S{t.2.1}"

def itemRows (pfx : String) (it : Item) : List String :=
  s!"{pfx} {showKey it} top=T {showMV it.tail}" :: it.top.map (fun t => s!"{pfx} {showKey it} top={showTop t} {showMV t.2.2}")

def storeRows (pfx : String) (st : Store) : List String :=
  ((st.flatMap (itemRows pfx)).toArray.qsort (· < ·)).toList

def step (s : St) (toks : List String) : St × List String :=
  match toks with
  | ["cfg", n, now] =>
    match n.toNat?, now.toNat? with
    | some n, some now => ({ s with cfg := { s.cfg with nShards := n, now := now } }, [])
    | _, _ => (s, ["bad-op"])
  | ["map", l] =>
    match (parseList l).mapM parseMapEntry? with
    | some mp => ({ s with cfg := { s.cfg with mapping := mp } }, [])
    | none => (s, ["bad-op"])
  | ["metric", id, res, pct, strat, sn, fk, s2, s2ts] =>
    match id.toInt?, res.toNat?, parseBool? pct, strat.toNat?, sn.toNat?, fk.toNat?, s2.toNat?, s2ts.toNat? with
    | some id, some res, some pct, some strat, some sn, some fk, some s2, some s2ts =>
      ({ s with cfg := { s.cfg with metric := { id := id, res := res, pct := pct, strategy := strat, shardNum := sn, fixedKey := fk,
                                                 shard2Key := s2, shard2Ts := s2ts } } }, [])
    | _, _, _, _, _, _, _, _ => (s, ["bad-op"])
  | "ev" :: rest =>
    match parseEvent? rest with
    | some e =>
      let st' := applyEventH s.cfg s.store e
      let stL := applyEventH { s.cfg with legacy := true } s.storeL e
      ({ s with store := st', storeL := stL }, storeRows "row" st' ++ storeRows "lrow" stL)
    | none => (s, ["bad-op"])
  | _ => (s, ["bad-op"])

def main : IO Unit :=
  Driver.run { init := { cfg := initCfg, store := [], storeL := [] }, step := step }
