/-
  SH.Lemmas.TimescaleEnd — second helper development for C22: what `endOfLOD` computes (`Least`), its additivity,
  the point-limit invariant and the whole-walk invariant of the LOD selection loops, the end-of-range coverage.
-/
import SH.Lemmas.Timescale
namespace SH.C22
open SH.Timescale SH.Gen.C22
/-! ### iterating StepForward: `segEnd cal s k t` is `t` stepped `k` times -/

theorem segEnd_succ_out (cal : Cal) (s : Int) (n : Nat) (t : Int) :
    segEnd cal s (n + 1) t = stepForward cal (segEnd cal s n t) s := by
  induction n generalizing t with
  | zero => simp [segEnd]
  | succ n ih => rw [segEnd, ih]; simp [segEnd]

theorem segEnd_add (cal : Cal) (s : Int) (a b : Nat) (t : Int) :
    segEnd cal s (a + b) t = segEnd cal s b (segEnd cal s a t) := by
  induction a generalizing t with
  | zero => simp [segEnd]
  | succ a ih => rw [Nat.add_right_comm]; simp only [segEnd]; exact ih _

theorem segEnd_ge (cal : Cal) (s : Int) (hf : Fwd cal s) (n : Nat) (t : Int) : t + n ≤ segEnd cal s n t := by
  induction n generalizing t with
  | zero => simp [segEnd]
  | succ n ih => simp only [segEnd]; have := ih (stepForward cal t s); have := hf t; omega

/-- `k` is the number of steps `endOfLOD` takes from `t` to reach `end_` -/
def Least (cal : Cal) (s end_ t : Int) (k : Nat) : Prop :=
  end_ ≤ segEnd cal s k t ∧ ∀ j, j < k → segEnd cal s j t < end_

theorem least_unique (cal : Cal) (s end_ t : Int) (k k' : Nat) (h : Least cal s end_ t k) (h' : Least cal s end_ t k') :
    k = k' := by
  rcases Nat.lt_trichotomy k k' with hlt | heq | hgt
  · have := h'.2 k hlt; have := h.1; omega
  · exact heq
  · have := h.2 k' hgt; have := h'.1; omega

theorem endLoop_spec (cal : Cal) (s end_ : Int) (hf : Fwd cal s) :
    ∀ (fuel : Nat) (start : Int) (n : Nat), (end_ - start).toNat ≤ fuel →
      ∃ k, endLoop cal s false end_ fuel start n = (segEnd cal s k start, n + k) ∧ Least cal s end_ start k := by
  intro fuel
  induction fuel with
  | zero =>
    intro start n h
    exact ⟨0, by simp [endLoop, segEnd], by simp [Least, segEnd]; omega, by intro j hj; omega⟩
  | succ fuel ih =>
    intro start n h
    by_cases hlt : start < end_
    · have hs := hf start
      obtain ⟨k, hk, hl⟩ := ih (stepForward cal start s) (n + 1) (by omega)
      refine ⟨k + 1, ?_, ?_, ?_⟩
      · simp only [endLoop, hlt, if_true, Bool.false_and, Bool.false_eq_true, if_false, hk, segEnd]
        congr 1; omega
      · simp only [segEnd]; exact hl.1
      · intro j hj
        cases j with
        | zero => simpa [segEnd] using hlt
        | succ j => simp only [segEnd]; exact hl.2 j (by omega)
    · refine ⟨0, by simp [endLoop, hlt, segEnd], by simp [segEnd]; omega, by intro j hj; omega⟩

theorem endOfLOD_spec (cal : Cal) (s : Int) (hf : Fwd cal s) (start end_ : Int) :
    ∃ k, endOfLOD cal start s end_ false = (segEnd cal s k start, k) ∧ Least cal s end_ start k := by
  obtain ⟨k, hk, hl⟩ := endLoop_spec cal s end_ hf (end_ - start).toNat start 0 (Nat.le_refl _)
  exact ⟨k, by simpa [endOfLOD] using hk, hl⟩

theorem endOfLOD_reaches (cal : Cal) (s : Int) (hf : Fwd cal s) (start end_ : Int) :
    end_ ≤ (endOfLOD cal start s end_ false).1 := by
  obtain ⟨k, hk, hl⟩ := endOfLOD_spec cal s hf start end_
  rw [hk]; exact hl.1

theorem endOfLOD_done (cal : Cal) (s start end_ : Int) (h : end_ ≤ start) :
    endOfLOD cal start s end_ false = (start, 0) := by
  have : (end_ - start).toNat = 0 := by omega
  simp [endOfLOD, this, endLoop]

/-- walking to `edge` and on to `end_` is walking to `end_` -/
theorem endOfLOD_additive (cal : Cal) (s : Int) (hf : Fwd cal s) (start edge end_ : Int) (he : edge ≤ end_) :
    endOfLOD cal start s end_ false =
      ((endOfLOD cal (endOfLOD cal start s edge false).1 s end_ false).1,
       (endOfLOD cal start s edge false).2 + (endOfLOD cal (endOfLOD cal start s edge false).1 s end_ false).2) := by
  obtain ⟨k1, h1, l1⟩ := endOfLOD_spec cal s hf start edge
  rw [h1]
  obtain ⟨k2, h2, l2⟩ := endOfLOD_spec cal s hf (segEnd cal s k1 start) end_
  rw [h2]
  obtain ⟨k, h, l⟩ := endOfLOD_spec cal s hf start end_
  rw [h]
  have : Least cal s end_ start (k1 + k2) := by
    refine ⟨by rw [segEnd_add]; exact l2.1, ?_⟩
    intro j hj
    by_cases hj1 : j < k1
    · have := l1.2 j hj1; omega
    · obtain ⟨i, rfl⟩ : ∃ i, j = k1 + i := ⟨j - k1, by omega⟩
      rw [segEnd_add]; exact l2.2 i (by omega)
  have hk := least_unique cal s end_ start _ _ l this
  subst hk
  simp [segEnd_add]
/-! ### the point limit -/

def sumLens (l : List LOD) : Nat := (l.map (·.len)).sum

theorem sumLens_appendLOD (rlods : List LOD) (lod : LOD) : sumLens (appendLOD rlods lod) = sumLens rlods + lod.len := by
  cases rlods with
  | nil => simp [appendLOD, sumLens]
  | cons l ls =>
    simp only [appendLOD]
    split <;> simp [sumLens] <;> omega

theorem appendLOD_ne (rlods : List LOD) (lod : LOD) : appendLOD rlods lod ≠ [] := by
  cases rlods with
  | nil => simp [appendLOD]
  | cons l ls => simp only [appendLOD]; split <;> simp

theorem edgeOf_le (a : Args) (rs end_ : Int) : edgeOf a rs end_ ≤ end_ := by
  unfold edgeOf; split
  · exact Int.le_refl _
  · rename_i h; simp at h; omega

/-- "continuing with `lod.step` from this level's start to the end fits into maxPoints" -/
def FitsFrom (cal : Cal) (a : Args) (first : Bool) (start end_ : Int) (resLen : Nat) (lod : LOD) : Prop :=
  lod.step ≠ 0 → Fwd cal lod.step ∧
    (resLen : Int) + (endOfLOD cal (lodStartOf cal a first start lod.step) lod.step end_ false).2 ≤ maxPoints

/-- "the points so far plus this LOD plus continuing with its step from `e` to the end fit into maxPoints" -/
def FitsAfter (cal : Cal) (end_ : Int) (resLen : Nat) (lod : LOD) (e : Int) : Prop :=
  lod.len = 0 ∨ (resLen : Int) + lod.len + (endOfLOD cal e lod.step end_ false).2 ≤ maxPoints

theorem inner_bound (cal : Cal) (a : Args) (hp : isPoint a = false) (first : Bool) (start end_ edge : Int) (resLen : Nat)
    (he : edge ≤ end_) (steps : List Int) (hf : ∀ s ∈ steps, Fwd cal s) :
    ∀ (lod : LOD) (lodEnd : Int) (lod' : LOD) (e : Int),
      FitsFrom cal a first start end_ resLen lod → FitsAfter cal end_ resLen lod lodEnd →
      inner cal a first start end_ edge resLen steps lod lodEnd = .done lod' e → FitsAfter cal end_ resLen lod' e := by
  induction steps with
  | nil => intro lod lodEnd lod' e _ h2 h; simp [inner] at h; rw [← h.1, ← h.2]; exact h2
  | cons step rest ih =>
    intro lod lodEnd lod' e h1 h2 h
    have ih' := ih (fun s hs => hf s (by simp [hs]))
    have hfs : Fwd cal step := hf step (by simp)
    unfold inner at h
    by_cases hg : grows lod step = true
    · simp only [hg, if_true] at h; exact ih' _ _ _ _ h1 h2 h
    · simp only [hg, Bool.false_eq_true, if_false] at h
      generalize hls : lodStartOf cal a first start step = ls at h
      have hadd := endOfLOD_additive cal step hfs ls edge end_ he
      have hn : pointsToEnd cal a resLen ls step edge end_ =
          resLen + (endOfLOD cal ls step edge false).2 + (endOfLOD cal (endOfLOD cal ls step edge false).1 step end_ false).2 := by
        simp [pointsToEnd, hp]
      split at h
      · -- over the limit: previous step to the end
        split at h
        · cases h
        · rename_i hz
          have hz' : lod.step ≠ 0 := by simpa using hz
          simp [usePrev] at h
          obtain ⟨hfl, hb⟩ := h1 hz'
          have hr := endOfLOD_reaches cal lod.step hfl (lodStartOf cal a first start lod.step) end_
          rw [← h.1, ← h.2]
          right
          show (resLen : Int) + _ + (endOfLOD cal _ lod.step end_ false).2 ≤ maxPoints
          rw [endOfLOD_done cal _ _ _ hr]; simp; exact hb
      · rename_i hov
        have hle : ((pointsToEnd cal a resLen ls step edge end_ : Nat) : Int) ≤ maxPoints := by
          simp [overLimit, hp] at hov; exact hov
        rw [hn] at hle
        split at h
        · simp [useCur] at h
          have hr := endOfLOD_reaches cal step hfs (endOfLOD cal ls step edge false).1 end_
          rw [← h.1, ← h.2]
          right
          show (resLen : Int) + ((_ + _ : Nat) : Int) + (endOfLOD cal _ step end_ false).2 ≤ maxPoints
          rw [endOfLOD_done cal _ _ _ hr]; simp; push_cast at hle; omega
        · refine ih' _ _ _ _ ?_ ?_ h
          · intro _
            refine ⟨hfs, ?_⟩
            show (resLen : Int) + (endOfLOD cal (lodStartOf cal a first start step) step end_ false).2 ≤ maxPoints
            rw [hls, hadd]; push_cast at hle ⊢; omega
          · right
            show (resLen : Int) + ((endOfLOD cal ls step edge false).2 : Nat) + _ ≤ maxPoints
            push_cast at hle ⊢; omega
theorem outer_bound (cal : Cal) (a : Args) (hp : isPoint a = false) (end_ : Int) {tbl : List Int}
    (hpos : ∀ s ∈ tbl, 0 < s) (hfw : ∀ s ∈ tbl, Fwd cal s)
    (levels : List (Int × List Int)) (hsub : ∀ sw ∈ levels, ∀ s ∈ sw.2, s ∈ tbl) :
    ∀ (start : Int) (resLen : Nat) (rlods : List LOD) (lod : LOD) (r : List LOD),
      resLen = sumLens rlods → (resLen : Int) ≤ maxPoints →
      (lod.step ≠ 0 → rlods ≠ [] ∧ Fwd cal lod.step ∧ (resLen : Int) + (endOfLOD cal start lod.step end_ false).2 ≤ maxPoints) →
      outer cal a end_ levels start resLen rlods lod = .ok r → (sumLens r : Int) ≤ maxPoints := by
  induction levels with
  | nil => intro start resLen rlods lod r h1 h2 _ h; simp [outer] at h; rw [← h, ← h1]; exact h2
  | cons sw rest ih =>
    intro start resLen rlods lod r h1 h2 h3 h
    have ih' := ih (fun sw' h' => hsub sw' (by simp [h']))
    unfold outer at h
    split at h
    · split at h
      · exact ih' _ _ _ _ _ h1 h2 h3 h
      · split at h
        · cases h
        · rename_i lod' lodEnd hin
          split at h
          · cases h
          · rename_i hbad
            simp [badLOD] at hbad
            have hsw : ∀ s ∈ sw.2, s ∈ tbl := hsub sw (by simp)
            have hq : Q tbl lod.step lod' :=
              inner_Q cal a _ _ _ _ _ hpos lod.step sw.2 hsw ⟨lod.step, 0⟩ _ _ _ (Or.inl rfl) hin
            have hb := inner_bound cal a hp _ start end_ _ resLen (edgeOf_le a sw.1 end_) sw.2
              (fun s hs => hfw s (hsw s hs)) ⟨lod.step, 0⟩ 0 lod' lodEnd ?_ (Or.inl rfl) hin
            · rcases hb with hb | hb
              · omega
              · have hfl : lod'.step ≠ 0 → Fwd cal lod'.step := by
                  intro _
                  rcases hq with hq | hq
                  · rw [hq]; exact (h3 (by rw [← hq]; assumption)).2.1
                  · exact hfw _ hq.1
                refine ih' _ _ _ _ _ ?_ ?_ ?_ h
                · rw [sumLens_appendLOD, h1]
                · have := Int.natCast_nonneg (endOfLOD cal lodEnd lod'.step end_ false).2
                  push_cast; omega
                · intro hne
                  refine ⟨appendLOD_ne _ _, hfl hne, ?_⟩
                  push_cast; omega
            · intro hne
              have hne' : lod.step ≠ 0 := hne
              obtain ⟨hr, hf, hb⟩ := h3 hne'
              refine ⟨hf, ?_⟩
              have : rlods.isEmpty = false := by cases rlods <;> simp_all
              simp only [lodStartOf, this, Bool.false_eq_true, if_false]
              exact hb
    · simp at h; rw [← h, ← h1]; exact h2

theorem tbl_fwd (cal : Cal) (hc : CalOK cal) (a : Args) : ∀ s ∈ allSteps (levelsFor a), Fwd cal s := by
  intro s hs
  unfold levelsFor at hs
  split at hs
  · exact fwd_month cal hc s (monthly_is_month s hs)
  · exact fwd_of_pos cal s (levels_not_month s hs).1 (levels_not_month s hs).2

theorem tbl_pos (a : Args) : ∀ s ∈ allSteps (levelsFor a), 0 < s := by
  unfold levelsFor; split
  · decide
  · decide

theorem tbl_sub (a : Args) : ∀ sw ∈ levelsFor a, ∀ s ∈ sw.2, s ∈ allSteps (levelsFor a) := by
  intro sw hsw s hs
  simp only [allSteps, List.mem_flatMap]
  exact ⟨sw, hsw, hs⟩

theorem genLODs_bound (cal : Cal) (hc : CalOK cal) (a : Args) (hp : isPoint a = false) (lods : List LOD)
    (h : genLODs cal a = .ok lods) : (sumLens lods : Int) ≤ maxPoints := by
  unfold genLODs at h
  cases ho : outer cal a (a.end_ - maxOffset a) (levelsFor a) (a.start - maxOffset a) 0 [] ⟨0, 0⟩ with
  | error e => simp [ho, Except.map] at h
  | ok r =>
    simp [ho, Except.map] at h
    have := outer_bound cal a hp _ (tbl_pos a) (tbl_fwd cal hc a) (levelsFor a) (tbl_sub a) _ _ _ _ _
      (by simp [sumLens]) (by decide) (by intro h; exact absurd rfl h) ho
    subst h
    simpa [sumLens, List.sum_reverse] using this
theorem sumLens_bumpFirst (k : Nat) (lods : List LOD) (h : lods ≠ []) : sumLens (bumpFirst k lods) = sumLens lods + k := by
  cases lods with
  | nil => exact absurd rfl h
  | cons l ls => simp [bumpFirst, sumLens]; omega

theorem sumLens_bumpLast (k : Nat) (lods : List LOD) (h : lods ≠ []) : sumLens (bumpLast k lods) = sumLens lods + k := by
  induction lods with
  | nil => exact absurd rfl h
  | cons l ls ih =>
    cases ls with
    | nil => simp [bumpLast, sumLens]
    | cons l' ls' =>
      have := ih (by simp)
      simp only [bumpLast, sumLens, List.map_cons, List.sum_cons] at this ⊢
      omega

theorem leftExtra_le (a : Args) (t : Int) : leftExtra a t ≤ 2 := by
  unfold leftExtra; split <;> split <;> omega

theorem expand_length (lods : List LOD) : (expand lods).length = sumLens lods := by
  induction lods with
  | nil => simp [expand, sumLens]
  | cons l ls ih => rw [expand_cons]; simp [ih, sumLens]

/-- number of points of a range-like result: the LOD lengths plus the left extension points plus the `extend` point -/
theorem rangeTS_length (cal : Cal) (a : Args) (lods : List LOD) (s0 : Int) (h : lods ≠ []) :
    (rangeTS cal a lods s0).time.length =
      sumLens lods + leftExtra a (startOfLOD cal a.start s0 a.utcOffset) + (if a.extend then 1 else 0) := by
  rw [rangeTS_time cal a lods s0 h, walk_length, expand_length, rangeTS_lods]
  by_cases he : a.extend = true
  · simp only [he, if_true]
    rw [sumLens_bumpLast _ _ (bumpFirst_ne _ _ h), sumLens_bumpFirst _ _ h]
  · simp only [he, Bool.false_eq_true, if_false, id]
    rw [sumLens_bumpFirst _ _ h]; rfl

/-! ### the whole-walk invariant -/

def lastOf : List Int → Int
  | [] => 0
  | [s] => s
  | _ :: s :: ss => lastOf (s :: ss)

theorem lastOf_cons (s : Int) (ss : List Int) (h : ss ≠ []) : lastOf (s :: ss) = lastOf ss := by
  cases ss with
  | nil => exact absurd rfl h
  | cons _ _ => rfl

/-- what the inner loop returns, as a walk from this level's (rounded) start `ls`: `e` is `ls` stepped `len` times, all `len`
    points lie before `end_`, and either the walk reached `end_` or the loop fell through all steps of a non-final level:
    then the step is the finest of the level and all points lie before `edge` -/
def WPost (cal : Cal) (a : Args) (first : Bool) (start end_ edge sL : Int) (fin : Prop) (lod : LOD) (e : Int) : Prop :=
  lod.len = 0 ∨
    (e = segEnd cal lod.step lod.len (lodStartOf cal a first start lod.step) ∧
     (∀ j, j < lod.len → segEnd cal lod.step j (lodStartOf cal a first start lod.step) < end_) ∧
     (end_ ≤ e ∨ (¬ fin ∧ lod.step = sL ∧ ∀ j, j < lod.len → segEnd cal lod.step j (lodStartOf cal a first start lod.step) < edge)))

theorem wpost_exit (cal : Cal) (a : Args) (first : Bool) (start end_ edge sL : Int) (fin : Prop) (s : Int) (hf : Fwd cal s) :
    WPost cal a first start end_ edge sL fin
      ⟨s, (endOfLOD cal (lodStartOf cal a first start s) s end_ false).2⟩
      (endOfLOD cal (lodStartOf cal a first start s) s end_ false).1 := by
  obtain ⟨k, hk, hl⟩ := endOfLOD_spec cal s hf (lodStartOf cal a first start s) end_
  rw [hk]
  right
  exact ⟨rfl, hl.2, Or.inl hl.1⟩

theorem inner_walk (cal : Cal) (a : Args) (first : Bool) (start end_ edge : Int) (resLen : Nat) (he : edge ≤ end_)
    (sL : Int) (fin : Prop) (hfin : fin → sL ≤ minStep a)
    (steps : List Int) (hf : ∀ s ∈ steps, Fwd cal s) (hsl : ∀ s ∈ steps, sL ≤ s) (hlast : steps ≠ [] → lastOf steps = sL) :
    ∀ (lod : LOD) (lodEnd : Int) (lod' : LOD) (e : Int),
      (lod.step ≠ 0 → Fwd cal lod.step) → (lod.step = 0 ∨ sL ≤ lod.step) →
      (steps = [] → WPost cal a first start end_ edge sL fin lod lodEnd) →
      inner cal a first start end_ edge resLen steps lod lodEnd = .done lod' e →
      WPost cal a first start end_ edge sL fin lod' e := by
  induction steps with
  | nil => intro lod lodEnd lod' e _ _ h0 h; simp [inner] at h; rw [← h.1, ← h.2]; exact h0 rfl
  | cons step rest ih =>
    intro lod lodEnd lod' e hfl hns h0 h
    have hfs : Fwd cal step := hf step (by simp)
    have hrest_last : rest ≠ [] → lastOf rest = sL := by
      intro hr; rw [← lastOf_cons step rest hr]; exact hlast (by simp)
    have ih' := ih (fun s hs => hf s (by simp [hs])) (fun s hs => hsl s (by simp [hs])) hrest_last
    unfold inner at h
    by_cases hg : grows lod step = true
    · simp only [hg, if_true] at h
      refine ih' _ _ _ _ hfl hns ?_ h
      intro hr
      -- the last step of the level is never skipped
      subst hr
      have : step = sL := by simpa [lastOf] using hlast (by simp)
      simp [grows] at hg
      omega
    · simp only [hg, Bool.false_eq_true, if_false] at h
      split at h
      · split at h
        · cases h
        · rename_i hz
          have hz' : lod.step ≠ 0 := by simpa using hz
          simp [usePrev] at h
          rw [← h.1, ← h.2]
          exact wpost_exit cal a first start end_ edge sL fin lod.step (hfl hz')
      · split at h
        · -- current step to the end
          simp [useCur] at h
          rw [← h.1, ← h.2]
          have hadd := endOfLOD_additive cal step hfs (lodStartOf cal a first start step) edge end_ he
          have := wpost_exit cal a first start end_ edge sL fin step hfs
          rw [hadd] at this
          exact this
        · rename_i hfe
          refine ih' _ _ _ _ (fun _ => hfs) (Or.inr (hsl step (by simp))) ?_ h
          intro hr
          subst hr
          have hst : step = sL := by simpa [lastOf] using hlast (by simp)
          obtain ⟨k, hk, hl⟩ := endOfLOD_spec cal step hfs (lodStartOf cal a first start step) edge
          rw [hk]
          right
          dsimp only
          refine ⟨rfl, fun j hj => by have := hl.2 j hj; omega, Or.inr ⟨?_, hst, hl.2⟩⟩
          intro hf'
          have := hfin hf'
          simp [fineEnough] at hfe
          omega
/-- end of the walk over the (reversed) LOD list from `A` -/
def rwalkEnd (cal : Cal) : List LOD → Int → Int
  | [], A => A
  | l :: ls, A => segEnd cal l.step l.len (rwalkEnd cal ls A)

/-- step of the first LOD (last element of the reversed list) -/
def firstStep : List LOD → Int
  | [] => 0
  | [l] => l.step
  | _ :: l :: ls => firstStep (l :: ls)

/-- the last walked point lies before `end_` -/
def NoOver (cal : Cal) (end_ A : Int) : List LOD → Prop
  | [] => True
  | l :: ls => segEnd cal l.step (l.len - 1) (rwalkEnd cal ls A) < end_

theorem firstStep_appendLOD (rlods : List LOD) (lod : LOD) (h : rlods ≠ []) :
    firstStep (appendLOD rlods lod) = firstStep rlods := by
  cases rlods with
  | nil => exact absurd rfl h
  | cons l ls =>
    simp only [appendLOD]
    split
    · cases ls <;> simp [firstStep]
    · simp [firstStep]

theorem rwalkEnd_appendLOD (cal : Cal) (rlods : List LOD) (lod : LOD) (A : Int) :
    rwalkEnd cal (appendLOD rlods lod) A = segEnd cal lod.step lod.len (rwalkEnd cal rlods A) := by
  cases rlods with
  | nil => simp [appendLOD, rwalkEnd]
  | cons l ls =>
    simp only [appendLOD]
    split
    · rename_i he
      have he' : l.step = lod.step := by simpa using he
      simp only [rwalkEnd, segEnd_add, he']
    · simp [rwalkEnd]

theorem noOver_appendLOD (cal : Cal) (end_ A : Int) (rlods : List LOD) (lod : LOD) (hl : 0 < lod.len)
    (h : segEnd cal lod.step (lod.len - 1) (rwalkEnd cal rlods A) < end_) : NoOver cal end_ A (appendLOD rlods lod) := by
  cases rlods with
  | nil => simpa [appendLOD, NoOver, rwalkEnd] using h
  | cons l ls =>
    simp only [appendLOD]
    split
    · rename_i he
      have he' : l.step = lod.step := by simpa using he
      simp only [NoOver]
      have : l.len + lod.len - 1 = l.len + (lod.len - 1) := by omega
      rw [this, segEnd_add, he']
      simpa [rwalkEnd, he'] using h
    · simpa [NoOver] using h

/-- table facts used for coverage: `P` = steps of the levels already passed, `m` = a lower bound of `minStep` -/
def LevOK (m : Int) : List Int → List (Int × List Int) → Prop
  | _, [] => True
  | P, sw :: rest =>
    sw.2 ≠ [] ∧ (∀ s ∈ P ++ sw.2, lastOf sw.2 ≤ s) ∧ (∀ sw' ∈ rest, lastOf sw.2 + sw'.1 ≤ sw.1) ∧
      (rest = [] → lastOf sw.2 ≤ m) ∧ (rest ≠ [] → isMonth (lastOf sw.2) = false) ∧ LevOK m (P ++ sw.2) rest

def OInv (cal : Cal) (a : Args) (end_ S0 : Int) (P : List Int) (rest : List (Int × List Int)) (start : Int)
    (rlods : List LOD) (lod : LOD) : Prop :=
  (rlods = [] → start = S0 ∧ lod.step = 0) ∧
  (rlods ≠ [] →
    rwalkEnd cal rlods (startOfLOD cal S0 (firstStep rlods) a.utcOffset) = start ∧
    NoOver cal end_ (startOfLOD cal S0 (firstStep rlods) a.utcOffset) rlods ∧
    (end_ ≤ start ∨ (rest ≠ [] ∧ ∀ sw ∈ rest, start ≤ a.now - sw.1)) ∧
    lod.step ∈ P)

theorem edgeOf_le_now (a : Args) (hp : isPoint a = false) (rs end_ : Int) : edgeOf a rs end_ ≤ a.now - rs := by
  unfold edgeOf; split
  · rename_i h; simp [hp] at h; omega
  · exact Int.le_refl _

theorem outer_walk (cal : Cal) (a : Args) (hp : isPoint a = false) (end_ S0 m : Int) (hm : m ≤ minStep a)
    {tbl : List Int} (hpos : ∀ s ∈ tbl, 0 < s) (hfw : ∀ s ∈ tbl, Fwd cal s)
    (levels : List (Int × List Int)) :
    ∀ (P : List Int), (∀ s ∈ P, s ∈ tbl) → (∀ sw ∈ levels, ∀ s ∈ sw.2, s ∈ tbl) → LevOK m P levels →
    ∀ (start : Int) (resLen : Nat) (rlods : List LOD) (lod : LOD) (r : List LOD),
      OInv cal a end_ S0 P levels start rlods lod →
      outer cal a end_ levels start resLen rlods lod = .ok r →
      r = [] ∨ (end_ ≤ rwalkEnd cal r (startOfLOD cal S0 (firstStep r) a.utcOffset) ∧
                NoOver cal end_ (startOfLOD cal S0 (firstStep r) a.utcOffset) r) := by
  induction levels with
  | nil =>
    intro P _ _ _ start resLen rlods lod r hI h
    simp [outer] at h; subst h
    by_cases hr : rlods = []
    · exact Or.inl hr
    · right
      obtain ⟨h1, h2, h3, _⟩ := hI.2 hr
      rcases h3 with h3 | h3
      · rw [h1]; exact ⟨h3, h2⟩
      · exact absurd rfl h3.1
  | cons sw rest ih =>
    intro P hP hsub hlev start resLen rlods lod r hI h
    obtain ⟨hne, hge, hsw, hfin, hnm, hlev'⟩ := hlev
    have hsub' : ∀ sw' ∈ rest, ∀ s ∈ sw'.2, s ∈ tbl := fun sw' h' => hsub sw' (by simp [h'])
    have hsw2 : ∀ s ∈ sw.2, s ∈ tbl := hsub sw (by simp)
    have hP' : ∀ s ∈ P ++ sw.2, s ∈ tbl := by
      intro s hs; rcases List.mem_append.mp hs with h | h; exact hP s h; exact hsw2 s h
    have ih' := ih (P ++ sw.2) hP' hsub' hlev'
    unfold outer at h
    split at h
    · rename_i hlt
      split at h
      · -- level skipped
        rename_i hskip
        refine ih' _ _ _ _ _ ?_ h
        refine ⟨hI.1, ?_⟩
        intro hr
        obtain ⟨_, _, h3, _⟩ := hI.2 hr
        rcases h3 with h3 | h3
        · omega
        · have := h3.2 sw (by simp); omega
      · rename_i hns
        split at h
        · cases h
        · rename_i lod' lodEnd hin
          split at h
          · cases h
          · rename_i hbad
            simp [badLOD] at hbad
            have hlodP : lod.step = 0 ∨ lod.step ∈ P := by
              by_cases hr : rlods = []
              · exact Or.inl (hI.1 hr).2
              · exact Or.inr (hI.2 hr).2.2.2
            have hq : Q sw.2 lod.step lod' :=
              inner_Q cal a _ _ _ _ _ (fun s hs => hpos s (hsw2 s hs)) lod.step sw.2 (fun s hs => hs) ⟨lod.step, 0⟩ _ _ _
                (Or.inl rfl) hin
            have hw := inner_walk cal a rlods.isEmpty start end_ (edgeOf a sw.1 end_) resLen (edgeOf_le a sw.1 end_)
              (lastOf sw.2) (rest = []) (fun hf => Int.le_trans (hfin hf) hm) sw.2
              (fun s hs => hfw s (hsw2 s hs)) (fun s hs => hge s (by simp [hs])) (fun _ => rfl)
              ⟨lod.step, 0⟩ 0 lod' lodEnd
              (by intro hz
                  rcases hlodP with h0 | h0
                  · exact absurd h0 hz
                  · exact hfw _ (hP _ h0))
              (by rcases hlodP with h0 | h0
                  · exact Or.inl h0
                  · exact Or.inr (hge _ (by simp [h0])))
              (fun hnil => absurd hnil hne) hin
            rcases hw with hw | ⟨hw1, hw2, hw3⟩
            · omega
            · have hlen : 0 < lod'.len := by omega
              have hstep' : lod'.step ∈ P ++ sw.2 := by
                rcases hq with hq | hq
                · rcases hlodP with h0 | h0
                  · omega
                  · rw [hq]; simp [h0]
                · simp [hq.1]
              refine ih' _ _ _ _ _ ?_ h
              refine ⟨fun hnil => absurd hnil (appendLOD_ne _ _), fun _ => ?_⟩
              -- the start of the whole walk and where this level started from
              have key : ∃ A, startOfLOD cal S0 (firstStep (appendLOD rlods lod')) a.utcOffset = A ∧
                  lodStartOf cal a rlods.isEmpty start lod'.step = rwalkEnd cal rlods A := by
                by_cases hr : rlods = []
                · subst hr
                  refine ⟨_, rfl, ?_⟩
                  simp [appendLOD, firstStep, lodStartOf, rwalkEnd, (hI.1 rfl).1]
                · refine ⟨_, rfl, ?_⟩
                  have : rlods.isEmpty = false := by cases rlods <;> simp_all
                  rw [firstStep_appendLOD _ _ hr, (hI.2 hr).1]
                  simp [lodStartOf, this]
              obtain ⟨A, hA, hls⟩ := key
              rw [hA]
              rw [hls] at hw1 hw2 hw3
              refine ⟨?_, ?_, ?_, hstep'⟩
              · rw [rwalkEnd_appendLOD]; exact hw1.symm
              · exact noOver_appendLOD cal end_ A rlods lod' hlen (hw2 _ (by omega))
              · rcases hw3 with hw3 | ⟨hnf, hsl, hbe⟩
                · exact Or.inl hw3
                · right
                  refine ⟨hnf, ?_⟩
                  intro sw' hsw'
                  have hb := hbe (lod'.len - 1) (by omega)
                  have hnm' := hnm hnf
                  have hstepout : lodEnd = stepForward cal (segEnd cal lod'.step (lod'.len - 1) (rwalkEnd cal rlods A)) lod'.step := by
                    rw [hw1, ← segEnd_succ_out]; congr 1; omega
                  rw [hsl] at hstepout hb
                  simp only [stepForward, hnm', Bool.false_eq_true, if_false] at hstepout
                  have := edgeOf_le_now a hp sw.1 end_
                  have := hsw sw' hsw'
                  omega
    · simp at h; subst h
      by_cases hr : rlods = []
      · exact Or.inl hr
      · right
        obtain ⟨h1, h2, _, _⟩ := hI.2 hr
        rw [h1]; exact ⟨by omega, h2⟩
theorem expand_append (xs ys : List LOD) : expand (xs ++ ys) = expand xs ++ expand ys := by
  simp [expand]

theorem rwalkEnd_eq_walk (cal : Cal) (r : List LOD) (A : Int) : rwalkEnd cal r A = (walk cal (expand r.reverse) A).2 := by
  induction r with
  | nil => simp [rwalkEnd, expand, walk]
  | cons l ls ih =>
    simp only [rwalkEnd, List.reverse_cons, expand_append, walk_append, ih]
    rw [segEnd_eq_walk]; simp [expand]

theorem firstStep_eq (r : List LOD) : firstStep r = step0Of r.reverse := by
  induction r with
  | nil => rfl
  | cons l ls ih =>
    cases ls with
    | nil => rfl
    | cons l' ls' =>
      simp only [firstStep] at ih ⊢
      rw [ih]
      simp only [List.reverse_cons, List.append_assoc]
      cases h : ls'.reverse with
      | nil => simp [step0Of]
      | cons x xs => simp [step0Of]

theorem lastStepOf_snoc (xs : List LOD) (l : LOD) : lastStepOf (xs ++ [l]) = l.step := by
  induction xs with
  | nil => rfl
  | cons x xs ih =>
    cases xs with
    | nil => rfl
    | cons y ys => simpa [lastStepOf] using ih

theorem levOK_levels : LevOK 1 [] lodLevels := by
  simp only [LevOK, lodLevels]; decide

theorem levOK_monthly : LevOK monthStep [] lodLevelsMonthly := by
  simp only [LevOK, lodLevelsMonthly]; decide

theorem maxMetricRes_ge (a : Args) : 1 ≤ maxMetricRes a := by
  unfold maxMetricRes
  have : ∀ (l : List (Int × Int)) (m : Int), 1 ≤ m → 1 ≤ l.foldl (fun m p => if m < p.1 then p.1 else m) m := by
    intro l
    induction l with
    | nil => intro m h; simpa using h
    | cons p ps ih => intro m h; simp only [List.foldl_cons]; apply ih; split <;> omega
  exact this _ _ (Int.le_refl 1)

theorem minStep_ge (a : Args) (hp : isPoint a = false) :
    1 ≤ minStep a ∧ (isMonth a.step = true → monthStep ≤ minStep a) := by
  have := maxMetricRes_ge a
  unfold minStep
  refine ⟨?_, ?_⟩
  · split
    · exact this
    · rename_i h; simp at h; omega
  · intro hm
    have : a.step = monthStep := by simpa [isMonth] using hm
    split
    · rename_i h; simp [hp] at h; omega
    · omega

/-- end-of-range coverage of the LOD list (on the range shifted by `maxOffset`): walking all LODs from the rounded start, the
    last point lies before the end and one more step reaches it -/
theorem genLODs_cover (cal : Cal) (hc : CalOK cal) (a : Args) (hp : isPoint a = false) (lods : List LOD)
    (h : genLODs cal a = .ok lods) (hne : lods ≠ []) :
    ∃ pts L, (walk cal (expand lods) (startOfLOD cal (a.start - maxOffset a) (step0Of lods) a.utcOffset)).1 = pts ++ [L] ∧
      L < a.end_ - maxOffset a ∧ a.end_ - maxOffset a ≤ stepForward cal L (lastStepOf lods) ∧
      (walk cal (expand lods) (startOfLOD cal (a.start - maxOffset a) (step0Of lods) a.utcOffset)).2 =
        stepForward cal L (lastStepOf lods) := by
  unfold genLODs at h
  cases ho : outer cal a (a.end_ - maxOffset a) (levelsFor a) (a.start - maxOffset a) 0 [] ⟨0, 0⟩ with
  | error e => simp [ho, Except.map] at h
  | ok r =>
    simp [ho, Except.map] at h
    have hms := minStep_ge a hp
    have hlev : ∃ m, m ≤ minStep a ∧ LevOK m [] (levelsFor a) := by
      unfold levelsFor
      by_cases hm : isMonth a.step = true
      · simp only [hm, if_true]; exact ⟨monthStep, hms.2 hm, levOK_monthly⟩
      · simp only [hm, Bool.false_eq_true, if_false]; exact ⟨1, hms.1, levOK_levels⟩
    obtain ⟨m, hm, hlev⟩ := hlev
    have hinv := outer_inv cal a _ (tbl_pos a) (levelsFor a) (tbl_sub a) _ _ _ _ _ (by simp [RInv]) (by simp [headStep]) ho
    have hw := outer_walk cal a hp (a.end_ - maxOffset a) (a.start - maxOffset a) m hm (tbl_pos a) (tbl_fwd cal hc a)
      (levelsFor a) [] (by simp) (tbl_sub a) hlev _ _ _ _ _
      ⟨fun _ => ⟨rfl, rfl⟩, fun hx => absurd rfl hx⟩ ho
    subst h
    rcases hw with hw | ⟨hw1, hw2⟩
    · subst hw; simp at hne
    · cases r with
      | nil => simp at hne
      | cons l ls =>
        have hlen : 0 < l.len := (hinv.1 l (by simp)).2
        rw [firstStep_eq] at hw1 hw2
        generalize startOfLOD cal (a.start - maxOffset a) (step0Of (l :: ls).reverse) a.utcOffset = A at *
        simp only [NoOver] at hw2
        simp only [rwalkEnd] at hw1
        obtain ⟨n, hn⟩ : ∃ n, l.len = n + 1 := ⟨l.len - 1, by omega⟩
        have hx : expand (l :: ls).reverse = (expand ls.reverse ++ List.replicate n l.step) ++ [l.step] := by
          simp only [List.reverse_cons, expand_append]
          simp [expand, hn, List.replicate_succ']
        have hX : (walk cal (expand ls.reverse ++ List.replicate n l.step) A).2 = segEnd cal l.step n (rwalkEnd cal ls A) := by
          rw [walk_append, rwalkEnd_eq_walk, segEnd_eq_walk]
        refine ⟨(walk cal (expand ls.reverse ++ List.replicate n l.step) A).1, segEnd cal l.step n (rwalkEnd cal ls A), ?_, ?_, ?_, ?_⟩
        · rw [hx, walk_snoc, hX]
        · have : l.len - 1 = n := by omega
          rw [this] at hw2; exact hw2
        · simp only [List.reverse_cons, lastStepOf_snoc]
          rw [← segEnd_succ_out, ← hn]; exact hw1
        · simp only [List.reverse_cons, lastStepOf_snoc]
          rw [← List.reverse_cons, hx, walk_append, hX]
          simp [walk]
/-! ### translation by the metric offset (non-monthly steps) -/

theorem roundTime_translate (t s off c : Int) (hs : 0 < s) (hd : s ∣ c) : roundTime (t + c) s off = roundTime t s off + c := by
  obtain ⟨q, rfl⟩ := hd
  unfold roundTime
  rw [mathDiv_pos _ _ hs, mathDiv_pos _ _ hs]
  have : t + s * q + off = (t + off) + s * q := by omega
  rw [this, Int.add_mul_ediv_left _ _ (by omega : s ≠ 0), Int.add_mul, Int.mul_comm q s]
  omega

theorem walk_translate (cal : Cal) (ss : List Int) (hn : ∀ s ∈ ss, isMonth s = false) (t c : Int) :
    walk cal ss (t + c) = ((walk cal ss t).1.map (· + c), (walk cal ss t).2 + c) := by
  induction ss generalizing t with
  | nil => simp [walk]
  | cons s ss ih =>
    have hs := hn s (by simp)
    have ih' := ih (fun s' h' => hn s' (by simp [h']))
    simp only [walk, stepForward, hs, Bool.false_eq_true, if_false]
    have : t + c + s = (t + s) + c := by omega
    rw [this, ih']; simp

theorem maxOffset_mem (a : Args) : maxOffset a = 0 ∨ ∃ p ∈ a.metrics, p.2 = maxOffset a := by
  unfold maxOffset
  have : ∀ (l : List (Int × Int)) (m : Int),
      l.foldl (fun m p => if m < p.2 then p.2 else m) m = m ∨ ∃ p ∈ l, p.2 = l.foldl (fun m p => if m < p.2 then p.2 else m) m := by
    intro l
    induction l with
    | nil => intro m; simp
    | cons p ps ih =>
      intro m
      simp only [List.foldl_cons]
      rcases ih (if m < p.2 then p.2 else m) with h | ⟨q, hq, e⟩
      · rw [h]
        split
        · right; exact ⟨p, by simp, rfl⟩
        · left; rfl
      · right; exact ⟨q, by simp [hq], e⟩
  exact this _ _

theorem maxOffset_dvd (a : Args) (s0 : Int) (h : offsetsOK a s0 = true) : s0 ∣ maxOffset a := by
  rcases maxOffset_mem a with h0 | ⟨p, hp, e⟩
  · rw [h0]; exact Int.dvd_zero _
  · simp only [offsetsOK, List.all_eq_true] at h
    have := h p hp
    rw [← e]
    exact Int.dvd_of_tmod_eq_zero (by simpa using this)

/-! ### the left extension points -/

theorem segEnd_backN (cal : Cal) (hc : CalOK cal) (s0 off : Int) (h : isMonth s0 = true ∨ 0 < s0) (k : Nat) (t : Int)
    (ha : Aligned cal off t s0) : segEnd cal s0 k (backN cal s0 off k t) = t := by
  induction k generalizing t with
  | zero => simp [segEnd, backN]
  | succ k ih =>
    have p := prev_facts cal hc s0 off t h ha
    simp only [backN]
    rw [segEnd_succ_out, ih _ p.2.2, p.2.1]
theorem lastStepOf_mem (lods : List LOD) (h : lods ≠ []) : ∃ l ∈ lods, l.step = lastStepOf lods := by
  induction lods with
  | nil => exact absurd rfl h
  | cons l ls ih =>
    cases ls with
    | nil => exact ⟨l, by simp, rfl⟩
    | cons l' ls' =>
      obtain ⟨x, hx, e⟩ := ih (by simp)
      exact ⟨x, by simp at hx ⊢; right; exact hx, by simpa [lastStepOf] using e⟩

theorem lastStepOf_bumpFirst (k : Nat) (lods : List LOD) : lastStepOf (bumpFirst k lods) = lastStepOf lods := by
  cases lods with
  | nil => rfl
  | cons l ls => cases ls <;> simp [bumpFirst, lastStepOf]

theorem lastStepOf_bumpLast (k : Nat) (lods : List LOD) : lastStepOf (bumpLast k lods) = lastStepOf lods := by
  induction lods with
  | nil => rfl
  | cons l ls ih =>
    cases ls with
    | nil => simp [bumpLast, lastStepOf]
    | cons l' ls' =>
      cases ls' with
      | nil => simp [bumpLast, lastStepOf]
      | cons l'' ls'' => simpa [bumpLast, lastStepOf] using ih

/-- the axis of a range query = the left extension points followed by the walk of the LOD list from `startOfLOD(Start)` -/
theorem rangeTS_walk_split (cal : Cal) (hc : CalOK cal) (a : Args) (l : LOD) (ls : List LOD)
    (hs0 : isMonth l.step = true ∨ 0 < l.step) :
    ∃ left, walk cal (expand (bumpFirst (leftExtra a (startOfLOD cal a.start l.step a.utcOffset)) (l :: ls))) (tstart cal a l.step) =
      (left ++ (walk cal (expand (l :: ls)) (startOfLOD cal a.start l.step a.utcOffset)).1,
       (walk cal (expand (l :: ls)) (startOfLOD cal a.start l.step a.utcOffset)).2) := by
  generalize hk : leftExtra a (startOfLOD cal a.start l.step a.utcOffset) = k
  have e1 : expand (bumpFirst k (l :: ls)) = List.replicate k l.step ++ expand (l :: ls) := by
    simp only [bumpFirst, expand_cons]
    rw [← List.append_assoc, List.replicate_append_replicate]
    congr 2; omega
  have e2 : (walk cal (List.replicate k l.step) (tstart cal a l.step)).2 = startOfLOD cal a.start l.step a.utcOffset := by
    rw [← segEnd_eq_walk]
    unfold tstart
    rw [hk]
    exact segEnd_backN cal hc l.step a.utcOffset hs0 k _ (startOfLOD_aligned cal hc _ _ _ hs0)
  refine ⟨(walk cal (List.replicate k l.step) (tstart cal a l.step)).1, ?_⟩
  rw [e1, walk_append, e2]

theorem rangeTS_shape (cal : Cal) (a : Args) (lods : List LOD) (s0 : Int) :
    (rangeTS cal a lods s0).time =
      (walk cal (expand (bumpFirst (leftExtra a (startOfLOD cal a.start s0 a.utcOffset)) lods)) (tstart cal a s0)).1 ++
        (if a.extend then [(walk cal (expand (bumpFirst (leftExtra a (startOfLOD cal a.start s0 a.utcOffset)) lods)) (tstart cal a s0)).2] else []) ∧
    (rangeTS cal a lods s0).viewEndX =
      max (walk cal (expand (bumpFirst (leftExtra a (startOfLOD cal a.start s0 a.utcOffset)) lods)) (tstart cal a s0)).1.length
        (rangeTS cal a lods s0).viewStartX := by
  unfold rangeTS tstart
  simp only [genTime_eq_walk]
  by_cases he : a.extend = true
  · simp only [he, if_true]
    refine ⟨trivial, ?_⟩
    split <;> omega
  · simp only [he, Bool.false_eq_true, if_false, List.append_nil]
    refine ⟨trivial, ?_⟩
    split <;> omega
/-- the walk of the LOD list from `startOfLOD(Start)` (unshifted) ends right behind `End` -/
theorem cover_unshifted (cal : Cal) (hc : CalOK cal) (a : Args) (hp : isPoint a = false) (lods : List LOD)
    (h : genLODs cal a = .ok lods) (hne : lods ≠ []) (hoff : offsetsOK a (step0Of lods) = true)
    (hm : isMonth a.step = false ∨ maxOffset a = 0) :
    ∃ pts L, (walk cal (expand lods) (startOfLOD cal a.start (step0Of lods) a.utcOffset)).1 = pts ++ [L] ∧
      L < a.end_ ∧ a.end_ ≤ stepForward cal L (lastStepOf lods) ∧
      (walk cal (expand lods) (startOfLOD cal a.start (step0Of lods) a.utcOffset)).2 = stepForward cal L (lastStepOf lods) := by
  obtain ⟨pts, L, h1, h2, h3, h4⟩ := genLODs_cover cal hc a hp lods h hne
  by_cases h0 : maxOffset a = 0
  · simp only [h0, Int.sub_zero] at h1 h2 h3 h4
    exact ⟨pts, L, h1, h2, h3, h4⟩
  · have hnm : isMonth a.step = false := by rcases hm with hm | hm; exact hm; exact absurd hm h0
    have hok := genLODs_ok cal a lods h
    have htbl : allSteps (levelsFor a) = allSteps lodLevels := by simp [levelsFor, hnm]
    rw [htbl] at hok
    have hsteps : ∀ s ∈ expand lods, isMonth s = false := by
      intro s hs
      obtain ⟨l, hl, rfl⟩ := mem_expand hs
      exact (levels_not_month _ (hok.1 l hl).1).1
    obtain ⟨l0, hl0, e0⟩ : ∃ l ∈ lods, l.step = step0Of lods := by
      cases lods with
      | nil => exact absurd rfl hne
      | cons l ls => exact ⟨l, by simp, rfl⟩
    have hs0 := levels_not_month _ (hok.1 l0 hl0).1
    rw [e0] at hs0
    obtain ⟨ll, hll, el⟩ := lastStepOf_mem lods hne
    have hsl := (levels_not_month _ (hok.1 ll hll).1).1
    rw [el] at hsl
    have hd := maxOffset_dvd a _ hoff
    generalize maxOffset a = mo at *
    have hst : startOfLOD cal a.start (step0Of lods) a.utcOffset =
        startOfLOD cal (a.start - mo) (step0Of lods) a.utcOffset + mo := by
      simp only [startOfLOD, hs0.1, Bool.false_eq_true, if_false]
      have : a.start = (a.start - mo) + mo := by omega
      rw [this, roundTime_translate _ _ _ _ hs0.2 hd]; congr 2; omega
    rw [hst, walk_translate cal _ hsteps]
    refine ⟨pts.map (· + mo), L + mo, ?_, by omega, ?_, ?_⟩
    · simp [h1]
    · simp only [stepForward, hsl, Bool.false_eq_true, if_false] at h3 ⊢; omega
    · simp only [h4, stepForward, hsl, Bool.false_eq_true, if_false]; omega

/-! ### GetLODs with a metric offset -/

theorem roundTime_fixed (t s off : Int) (hs : 0 < s) (ha : (t + off) % s = 0) : roundTime t s off = t := by
  unfold roundTime
  rw [mathDiv_pos _ _ hs, Int.ediv_mul_cancel (Int.dvd_of_emod_eq_zero ha)]; omega

theorem segEnd_translate (cal : Cal) (s : Int) (hn : isMonth s = false) (n : Nat) (t c : Int) :
    segEnd cal s n (t + c) = segEnd cal s n t + c := by
  induction n generalizing t with
  | zero => simp [segEnd]
  | succ n ih =>
    simp only [segEnd, stepForward, hn, Bool.false_eq_true, if_false]
    have : t + c + s = (t + s) + c := by omega
    rw [this, ih]

theorem lodRanges_translate (cal : Cal) (lods : List LOD) (hn : ∀ l ∈ lods, isMonth l.step = false) (t c : Int) :
    lodRanges cal lods (t + c) = (lodRanges cal lods t).map (fun r => (r.1 + c, r.2.1 + c, r.2.2)) := by
  induction lods generalizing t with
  | nil => simp [lodRanges]
  | cons l ls ih =>
    have hl := hn l (by simp)
    simp only [lodRanges, List.map_cons, segEnd_translate cal l.step hl]
    rw [ih (fun x hx => hn x (by simp [hx]))]

/-! ### point queries -/

theorem aligned_step (cal : Cal) (hc : CalOK cal) (off t s : Int) (h : Aligned cal off t s) :
    Aligned cal off (stepForward cal t s) s := by
  unfold Aligned stepForward at *
  by_cases hm : isMonth s = true
  · simp only [hm, if_true] at *; exact hc.next_aligned t h
  · simp only [hm, Bool.false_eq_true, if_false] at *
    have : t + s + off = (t + off) + s := by omega
    rw [this, Int.add_emod_right]; exact h

theorem aligned_segEnd (cal : Cal) (hc : CalOK cal) (off s : Int) (n : Nat) (t : Int) (h : Aligned cal off t s) :
    Aligned cal off (segEnd cal s n t) s := by
  induction n generalizing t with
  | zero => simpa [segEnd] using h
  | succ n ih => simp only [segEnd]; exact ih _ (aligned_step cal hc off t s h)

/-- `endOfLOD(start, step, end, le = true)`: the last grid point not after `end_` -/
theorem endLoop_le_spec (cal : Cal) (s end_ : Int) (hf : Fwd cal s) :
    ∀ (fuel : Nat) (start : Int) (n : Nat), (end_ - start).toNat ≤ fuel → start ≤ end_ →
      ∃ k, (endLoop cal s true end_ fuel start n).1 = segEnd cal s k start ∧
        start ≤ segEnd cal s k start ∧ segEnd cal s k start ≤ end_ := by
  intro fuel
  induction fuel with
  | zero => intro start n _ h; exact ⟨0, by simp [endLoop, segEnd], by simp [segEnd], by simpa [segEnd] using h⟩
  | succ fuel ih =>
    intro start n hfu hle
    by_cases hlt : start < end_
    · by_cases hb : end_ < stepForward cal start s
      · exact ⟨0, by simp [endLoop, hlt, hb, segEnd], by simp [segEnd], by simpa [segEnd] using hle⟩
      · have hs := hf start
        obtain ⟨k, hk, h1, h2⟩ := ih (stepForward cal start s) (n + 1) (by omega) (by omega)
        refine ⟨k + 1, ?_, ?_, ?_⟩
        · simp [endLoop, hlt, hb, segEnd, hk]
        · simp only [segEnd]; omega
        · simpa [segEnd] using h2
    · exact ⟨0, by simp [endLoop, hlt, segEnd], by simp [segEnd], by simpa [segEnd] using hle⟩
theorem getTimescale_point (cal : Cal) (a : Args) (ts : TS) (h : getTimescale cal a = .ok ts)
    (hp : isPoint a = true) (hne : ts.time ≠ []) :
    ∃ lods, genLODs cal a = .ok lods ∧ lods ≠ [] ∧ ts = pointTS cal a lods (step0Of lods) := by
  unfold getTimescale at h
  split at h
  · simp at h; subst h; simp [TS.empty] at hne
  · split at h
    · cases h
    · rename_i lods hl
      split at h
      · simp at h; subst h; simp [TS.empty] at hne
      · rename_i hemp
        split at h
        · cases h
        · simp at h
          exact ⟨lods, hl, by intro e; simp [e] at hemp, h.symm⟩

/-! ### point queries use exactly one level -/

theorem inner_point (cal : Cal) (a : Args) (hp : isPoint a = true) (first : Bool) (start end_ : Int) (resLen : Nat)
    (steps : List Int) (hf : ∀ s ∈ steps, Fwd cal s) :
    ∀ (lod : LOD) (lodEnd : Int) (lod' : LOD) (e : Int), (lod.len = 0 ∨ end_ ≤ lodEnd) →
      inner cal a first start end_ end_ resLen steps lod lodEnd = .done lod' e → (lod'.len = 0 ∨ end_ ≤ e) := by
  induction steps with
  | nil => intro lod lodEnd lod' e h0 h; simp [inner] at h; rw [← h.1, ← h.2]; exact h0
  | cons step rest ih =>
    intro lod lodEnd lod' e h0 h
    have hfs : Fwd cal step := hf step (by simp)
    have ih' := ih (fun s hs => hf s (by simp [hs]))
    unfold inner at h
    by_cases hg : grows lod step = true
    · simp only [hg, if_true] at h; exact ih' _ _ _ _ h0 h
    · simp only [hg, Bool.false_eq_true, if_false] at h
      have hov : ∀ n, overLimit a n = false := by intro n; simp [overLimit, hp]
      simp only [hov, Bool.false_eq_true, if_false] at h
      split at h
      · simp [useCur] at h
        rw [← h.2]; right
        exact endOfLOD_reaches cal step hfs _ end_
      · exact ih' _ _ _ _ (Or.inr (endOfLOD_reaches cal step hfs _ end_)) h

theorem outer_point (cal : Cal) (a : Args) (hp : isPoint a = true) (end_ : Int) {tbl : List Int}
    (hfw : ∀ s ∈ tbl, Fwd cal s) (levels : List (Int × List Int)) (hsub : ∀ sw ∈ levels, ∀ s ∈ sw.2, s ∈ tbl) :
    ∀ (start : Int) (resLen : Nat) (rlods : List LOD) (lod : LOD) (r : List LOD),
      (rlods = [] ∨ (rlods.length = 1 ∧ end_ ≤ start)) →
      outer cal a end_ levels start resLen rlods lod = .ok r → r.length ≤ 1 := by
  induction levels with
  | nil =>
    intro start resLen rlods lod r hI h
    simp [outer] at h; subst h
    rcases hI with h | h
    · simp [h]
    · omega
  | cons sw rest ih =>
    intro start resLen rlods lod r hI h
    have ih' := ih (fun sw' h' => hsub sw' (by simp [h']))
    unfold outer at h
    split at h
    · rename_i hlt
      have hnil : rlods = [] := by
        rcases hI with h | h
        · exact h
        · omega
      subst hnil
      split at h
      · exact ih' _ _ _ _ _ (Or.inl rfl) h
      · split at h
        · cases h
        · rename_i lod' lodEnd hin
          split at h
          · cases h
          · rename_i hbad
            simp [badLOD] at hbad
            have hedge : edgeOf a sw.1 end_ = end_ := by simp [edgeOf, hp]
            rw [hedge] at hin
            have := inner_point cal a hp _ start end_ resLen sw.2 (fun s hs => hfw s (hsub sw (by simp) s hs))
              ⟨lod.step, 0⟩ 0 lod' lodEnd (Or.inl rfl) hin
            refine ih' _ _ _ _ _ (Or.inr ⟨by simp [appendLOD], ?_⟩) h
            rcases this with h0 | h0
            · omega
            · exact h0
    · simp at h; subst h
      rcases hI with h | h
      · simp [h]
      · omega

/-- a point query is served from exactly one level of detail -/
theorem genLODs_point_single (cal : Cal) (hc : CalOK cal) (a : Args) (hp : isPoint a = true) (lods : List LOD)
    (h : genLODs cal a = .ok lods) : lods.length ≤ 1 := by
  unfold genLODs at h
  cases ho : outer cal a (a.end_ - maxOffset a) (levelsFor a) (a.start - maxOffset a) 0 [] ⟨0, 0⟩ with
  | error e => simp [ho, Except.map] at h
  | ok r =>
    simp [ho, Except.map] at h
    have := outer_point cal a hp _ (tbl_fwd cal hc a) (levelsFor a) (tbl_sub a) _ _ _ _ _ (Or.inl rfl) ho
    subst h; simpa using this

theorem pointTS_time_lods (cal : Cal) (a : Args) (lods : List LOD) (s0 : Int)
    (h : (pointTS cal a lods s0).time ≠ []) : (pointTS cal a lods s0).lods = lods := by
  unfold pointTS at h ⊢
  dsimp only at h ⊢
  split <;> split <;> simp_all [TS.empty]
/-! ### time-shifted per-level ranges and LOD.IndexOf -/

theorem segEnd_lt (cal : Cal) (s : Int) (hf : Fwd cal s) (i n : Nat) (h : i < n) (t : Int) :
    segEnd cal s i t < segEnd cal s n t := by
  obtain ⟨d, rfl⟩ : ∃ d, n = i + d := ⟨n - i, by omega⟩
  rw [segEnd_add]
  have := segEnd_ge cal s hf d (segEnd cal s i t)
  omega

theorem segEnd_fixed (cal : Cal) (s : Int) (hn : isMonth s = false) (n : Nat) (t : Int) : segEnd cal s n t = t + n * s := by
  induction n generalizing t with
  | zero => simp [segEnd]
  | succ n ih =>
    simp only [segEnd, stepForward, hn, Bool.false_eq_true, if_false, ih]
    rw [Int.natCast_succ, Int.add_mul]; omega

/-- LOD.IndexOf is defined for every grid point of a range and returns its position -/
theorem indexOf_grid (cal : Cal) (s : Int) (hf : Fwd cal s) (hs : isMonth s = true ∨ 0 < s) (from_ to_ : Int) (i : Nat) :
    indexOf cal (from_, to_, s) (segEnd cal s i from_) = some (i : Int) := by
  unfold indexOf
  by_cases hm : isMonth s = true
  · simp only [hm, if_true]
    obtain ⟨k, hk, hl⟩ := endOfLOD_spec cal s hf from_ (segEnd cal s i from_)
    have hi : Least cal s (segEnd cal s i from_) from_ i :=
      ⟨Int.le_refl _, fun j hj => segEnd_lt cal s hf j i hj from_⟩
    have := least_unique cal s _ from_ k i hl hi
    subst this
    simp [hk]
  · have hn : isMonth s = false := by simpa using hm
    have hp : 0 < s := by rcases hs with h | h; exact absurd h hm; exact h
    simp only [hn, Bool.false_eq_true, if_false, segEnd_fixed cal s hn]
    have e : from_ + (i : Int) * s - from_ = (i : Int) * s := by omega
    rw [e, Int.mul_tmod_left, Int.mul_tdiv_cancel _ (by omega : s ≠ 0)]
    simp

/-- every later (finer) step of the table keeps the alignment of an earlier (coarser) one -/
theorem tbl_link (cal : Cal) (off : Int) (a : Args) :
    ∀ s ∈ allSteps (levelsFor a), ∀ s' ∈ allSteps (levelsFor a), s' ≤ s → ∀ t, Aligned cal off t s → Aligned cal off t s' := by
  intro s hs s' hs' hle t ha
  unfold levelsFor at hs hs'
  by_cases hmm : isMonth a.step = true
  · simp only [hmm, if_true] at hs hs'
    have m := monthly_is_month s hs
    have m' := monthly_is_month s' hs'
    simp only [Aligned, m, m', if_true] at *; exact ha
  · simp only [hmm, Bool.false_eq_true, if_false] at hs hs'
    have m := (levels_not_month s hs).1
    have m' := (levels_not_month s' hs').1
    have hd := tblDvd_levels s hs s' hs' hle
    simp only [Aligned, m, m', Bool.false_eq_true, if_false] at *
    exact Int.emod_eq_zero_of_dvd (Int.dvd_trans hd (Int.dvd_of_emod_eq_zero ha))

theorem lodRanges_grid (cal : Cal) (hc : CalOK cal) (off : Int) {tbl : List Int}
    (hlink : ∀ s ∈ tbl, ∀ s' ∈ tbl, s' ≤ s → ∀ t, Aligned cal off t s → Aligned cal off t s')
    (lods : List LOD) (hok : LodsOK tbl lods) (S : Int) (hS : Aligned cal off S (step0Of lods)) :
    ∀ (j : Nat) (r : Int × Int × Int) (l : LOD), (lodRanges cal lods S)[j]? = some r → lods[j]? = some l →
      r.2.2 = l.step ∧ Aligned cal off r.1 l.step ∧ Aligned cal off r.2.1 l.step ∧ r.2.1 = segEnd cal l.step l.len r.1 := by
  induction lods generalizing S with
  | nil => intro j r l h; simp [lodRanges] at h
  | cons l0 ls ih =>
    intro j r l h hl
    have hls : LodsOK tbl ls := ⟨fun x hx => hok.1 x (by simp [hx]), (List.pairwise_cons.mp hok.2).2⟩
    simp only [step0Of] at hS
    have hto : Aligned cal off (segEnd cal l0.step l0.len S) l0.step := aligned_segEnd cal hc off l0.step l0.len S hS
    cases j with
    | zero =>
      simp [lodRanges] at h hl
      subst hl; rw [← h]
      exact ⟨rfl, hS, hto, rfl⟩
    | succ j =>
      simp only [lodRanges, List.getElem?_cons_succ] at h hl
      refine ih hls _ ?_ j r l h hl
      cases ls with
      | nil => simp at hl
      | cons l1 ls' =>
        simp only [step0Of]
        have hlt := (List.pairwise_cons.mp hok.2).1 l1 (by simp)
        exact hlink _ (hok.1 l0 (by simp)).1 _ (hok.1 l1 (by simp)).1 (by omega) _ hto
end SH.C22
