/-
  SH.Lemmas.DiskCacheTornErase — a crash tearing the 4-byte magic write of EraseBucket, at history level (fixed reader).
-/
import SH.Lemmas.DiskCacheTorn

namespace SH.C09
open SH.DiskCache

/-! ### a crash tearing an erase (the 4-byte magic overwrite) at history level -/

/-- the record as the reader sees it after the first `k` bytes of the erase reached the disk -/
def ARec.torn (r : ARec) (k : Nat) : ARec := { r with magic := tornMagic k, id := none }

theorem le_tornMagic : ∀ k, k ≤ 4 → le 4 (tornMagic k) = (le 4 magicDeleted).take k ++ (le 4 magicGood).drop k := by
  intro k hk
  match k, hk with
  | 0, _ => decide
  | 1, _ => decide
  | 2, _ => decide
  | 3, _ => decide
  | 4, _ => decide

theorem tornMagic_lt : ∀ k, k ≤ 4 → tornMagic k < 2 ^ 32 := by
  intro k hk
  match k, hk with
  | 0, _ => decide
  | 1, _ => decide
  | 2, _ => decide
  | 3, _ => decide
  | 4, _ => decide

/-- `writeAt` of the first `k` bytes of the deleted magic over a good record = the record with magic `tornMagic k` -/
theorem torn_enc (cfg : Cfg) (pre rest : Bytes) (r : ARec) (k : Nat) (hk : k ≤ 4) (hg : r.magic = magicGood) :
    writeAt (pre ++ (r.enc cfg ++ rest)) pre.length ((le 4 magicDeleted).take k) = pre ++ ((r.torn k).enc cfg ++ rest) := by
  unfold writeAt
  have h0 : pre.length - (pre ++ (r.enc cfg ++ rest)).length = 0 := by simp
  have hlen : ((le 4 magicDeleted).take k).length = k := by simp [le_length]; omega
  simp only [h0, List.replicate_zero, List.append_nil, hlen]
  rw [List.take_left, ← List.drop_drop, List.drop_left]
  have e : r.enc cfg ++ rest = le 4 magicGood ++ ((le 4 r.time ++ (le 8 r.body.length ++ le 4 (cfg.crc r.body))) ++ r.body ++ rest) := by
    simp [ARec.enc, encHeader, hg]
  have e2 : (r.torn k).enc cfg ++ rest =
      le 4 (tornMagic k) ++ ((le 4 r.time ++ (le 8 r.body.length ++ le 4 (cfg.crc r.body))) ++ r.body ++ rest) := by
    simp [ARec.enc, encHeader, ARec.torn]
  rw [e, e2, le_tornMagic k hk]
  rw [List.drop_append_of_le_length (by simp [le_length]; omega)]
  simp

theorem mapDisk_mid (cfg : Cfg) (F1 F2 : List AFile) (f : AFile) (g : Bytes → Bytes)
    (h1 : ∀ x ∈ F1, x.name ≠ f.name) (h2 : ∀ x ∈ F2, x.name ≠ f.name) :
    mapDisk ((F1 ++ f :: F2).map (AFile.render cfg)) f.name g =
      F1.map (AFile.render cfg) ++ ⟨f.name, g (f.bytes cfg)⟩ :: F2.map (AFile.render cfg) := by
  rw [List.map_append, List.map_cons]
  have e : mapDisk (F1.map (AFile.render cfg) ++ f.render cfg :: F2.map (AFile.render cfg)) f.name g =
      mapDisk (F1.map (AFile.render cfg)) f.name g ++ (mapDisk [f.render cfg] f.name g ++ mapDisk (F2.map (AFile.render cfg)) f.name g) := by
    simp [mapDisk]
  rw [e, mapDisk_id_of_ne (F1.map (AFile.render cfg)) _ _ (by intro x hx; obtain ⟨y, hy, rfl⟩ := List.mem_map.mp hx; exact h1 y hy),
    mapDisk_id_of_ne (F2.map (AFile.render cfg)) _ _ (by intro x hx; obtain ⟨y, hy, rfl⟩ := List.mem_map.mp hx; exact h2 y hy)]
  simp [mapDisk, AFile.render]


theorem liveErase_unknown (cfg : Cfg) (s : Shard) (a : Abs) (inv : Inv cfg s a) (id : Nat) (h : findB s.known id = none) :
    liveErase id (a.live cfg) = a.live cfg := by
  unfold Abs.live liveErase
  rw [List.filter_flatMap]
  apply flatMap_congr'
  intro g hg
  apply liveErase_id_of
  intro x hx hxk
  have hxb : x ∈ a.buckets cfg := List.mem_flatMap.mpr ⟨g, hg, hx⟩
  have := inv.findB_of_mem hxb
  rw [hxk, h] at this; simp at this

theorem clearLive_length (l : List LiveE) : (clearLive l).length = l.length := by simp [clearLive]

theorem liveErase_length_le (k : Nat) (l : List LiveE) : (liveErase k l).length ≤ l.length := by
  unfold liveErase; exact List.length_filter_le _ _

/-- C09, torn ERASE at history level, FIXED reader (`tornEraseOk = true`): after ANY history, if the crash tears the 4-byte
    magic write of `EraseBucket id` after `k` bytes (k = 0..4), restart + drain returns
      * k = 0, 1, 2 (the magic on disk is still the good magic, `torn_erase_magic`): every live second, the one being erased included;
      * k = 3 (magic 0x590007EC) and k = 4 (magic 0x000007EC): every live second except that one;
    in no case is any OTHER second lost or any spurious second returned (for an unknown id nothing is written at all). -/
theorem torn_erase_history (cfg : Cfg) (hfix : cfg.tornEraseOk = true) (hcrc : ∀ b, cfg.crc b < 2 ^ 32) (ops : List Op)
    (hok : ∀ op ∈ ops, OpOk op) (id k : Nat) (hk : k ≤ 4) :
    (drain cfg ((absRun {} ops).live.length + 1) (restart (tornErase (run cfg {} ops) id k))).2 =
      outs 0 (clearLive (if k ≤ 2 then (absRun {} ops).live else liveErase id (absRun {} ops).live)) := by
  obtain ⟨a, inv, h0⟩ := run_refines cfg hcrc ops {} {} (inv_init cfg) hok
  have h00 : (⟨Abs.live cfg {}, ({} : Abs).lastID⟩ : AbsH) = {} := rfl
  rw [h00] at h0
  have hl : a.live cfg = (absRun {} ops).live := congrArg AbsH.live h0
  obtain ⟨s, hs⟩ : ∃ s, s = run cfg {} ops := ⟨_, rfl⟩
  rw [← hs] at inv ⊢
  rw [← hl]
  -- the untouched directory
  have hbase : (drain cfg ((a.live cfg).length + 1) (restart s)).2 = outs 0 (clearLive (a.live cfg)) := by
    have := drain_layout cfg a.files a.clock s inv.names inv.namesLt inv.wf inv.disk inv.clock ((a.live cfg).length + 1)
      (by unfold Abs.live; omega)
    exact this
  cases hfb : findB s.known id with
  | none =>
    have : tornErase s id k = s := by simp [tornErase, hfb]
    rw [this, hbase, liveErase_unknown cfg s a inv id hfb]
    split <;> rfl
  | some b =>
    obtain ⟨hbk, hbid⟩ := findB_some hfb
    subst hbid
    have hb := (inv.known b).mp hbk
    obtain ⟨f, hf, r1, r, r2, hrec, hrid, hbeq, hU2, hU1⟩ := inv.erase_ctx hb
    have hbf : b.file = f.name := by rw [hbeq]
    have hbp : b.pos = recsLen r1 := by rw [hbeq]
    have hrin : r ∈ f.recs := by rw [hrec]; simp
    obtain ⟨w1, w2, w3, w4, w5, w6⟩ := (inv.wf f hf).1 r hrin
    have hrdead : r.dead cfg = false := w6 (by rw [hrid]; simp)
    have hrgood : r.magic = magicGood := w5 hrdead
    obtain ⟨F1, F2, hF⟩ := List.append_of_mem hf
    have hnd := pairwise_lt_ne inv.names
    rw [hF, List.map_append, List.map_cons] at hnd
    have hp := (List.perm_middle (a := f.name) (l₁ := F1.map (·.name)) (l₂ := F2.map (·.name))).nodup_iff.mp hnd
    rw [List.nodup_cons] at hp
    have hF1 : ∀ x ∈ F1, x.name ≠ f.name := fun x hx e => hp.1 (by rw [← e]; simp; exact Or.inl ⟨x, hx, rfl⟩)
    have hF2 : ∀ x ∈ F2, x.name ≠ f.name := fun x hx e => hp.1 (by rw [← e]; simp; exact Or.inr ⟨x, hx, rfl⟩)
    let ft : AFile := f.setRecs (r1 ++ r.torn k :: r2)
    have hftb : writeAt (f.bytes cfg) (recsLen r1) ((le 4 magicDeleted).take k) = ft.bytes cfg := by
      simp only [AFile.bytes, ft, AFile.setRecs, hrec, encRecs_append, encRecs]
      have := torn_enc cfg (encRecs cfg r1) (encRecs cfg r2 ++ f.tl) r k hk hrgood
      rw [encRecs_length] at this
      simpa [List.append_assoc] using this
    have hdisk : (tornErase s b.id k).disk = (F1 ++ ft :: F2).map (AFile.render cfg) := by
      simp only [tornErase, hfb, hbf, hbp, inv.disk, hF]
      rw [mapDisk_mid cfg F1 F2 f _ hF1 hF2, hftb]
      simp [AFile.render, ft, AFile.setRecs]
    have hclock : (tornErase s b.id k).clock = a.clock := by simp [tornErase, hfb, inv.clock]
    have hnames : ((F1 ++ ft :: F2).map (·.name)).Pairwise (· < ·) := by
      have := inv.names; rw [hF] at this; simpa [ft, AFile.setRecs] using this
    have hlt : ∀ g ∈ F1 ++ ft :: F2, g.name < a.clock := by
      intro g hg
      simp only [List.mem_append, List.mem_cons] at hg
      rcases hg with h | h | h
      · exact inv.namesLt g (by rw [hF]; simp [h])
      · subst h; exact inv.namesLt f hf
      · exact inv.namesLt g (by rw [hF]; simp [h])
    have htdead : k ≤ 2 → (r.torn k).dead cfg = false ∧ (r.torn k).magic = magicGood := by
      intro h2
      have : tornMagic k = magicGood := by
        match k, h2 with
        | 0, _ => exact torn_erase_magic.1
        | 1, _ => exact torn_erase_magic.2.1
        | 2, _ => exact torn_erase_magic.2.2.1
      simp [ARec.torn, ARec.dead, this, isDeleted_good]
    have htdead' : ¬ k ≤ 2 → (r.torn k).dead cfg = true := by
      intro h2
      have hk34 : k = 3 ∨ k = 4 := by omega
      rcases hk34 with h | h
      · subst h
        simp [ARec.torn, ARec.dead, torn_erase_magic.2.2.2.1, isDeletedMagic, hfix]
      · subst h
        simp [ARec.torn, ARec.dead, torn_erase_magic.2.2.2.2, isDeleted_deleted]
    have hwf : ∀ g ∈ F1 ++ ft :: F2, (∀ q ∈ g.recs, q.WF cfg) ∧ TailStop g.tl := by
      intro g hg
      simp only [List.mem_append, List.mem_cons] at hg
      rcases hg with h | h | h
      · exact inv.wf g (by rw [hF]; simp [h])
      · subst h
        obtain ⟨v1, v2⟩ := inv.wf f hf
        refine ⟨?_, v2⟩
        intro q hq
        simp only [ft, AFile.setRecs, List.mem_append, List.mem_cons] at hq
        rcases hq with h | h | h
        · exact v1 q (by rw [hrec]; simp [h])
        · subst h
          refine ⟨tornMagic_lt k hk, w2, w3, w4, ?_, fun hid => by simp [ARec.torn] at hid⟩
          intro hd
          by_cases h2 : k ≤ 2
          · exact (htdead h2).2
          · rw [htdead' h2] at hd; cases hd
        · exact v1 q (by rw [hrec]; simp [h])
      · exact inv.wf g (by rw [hF]; simp [h])
    -- live sequence of the torn directory
    have hlivea : a.live cfg = F1.flatMap (fLive cfg) ++ (liveRecs cfg r1 ++ (some b.id, r.time, r.body) :: liveRecs cfg r2) ++ F2.flatMap (fLive cfg) := by
      unfold Abs.live; rw [hF]
      simp only [List.flatMap_append, List.flatMap_cons, fLive, hrec]
      rw [liveRecs_split cfg r1 r2 r hrdead, hrid]
      simp
    have hlen : ((F1 ++ ft :: F2).flatMap (fLive cfg)).length < (a.live cfg).length + 1 := by
      rw [hlivea]
      simp only [List.flatMap_append, List.flatMap_cons, fLive, ft, AFile.setRecs, List.length_append, List.length_cons]
      by_cases h2 : k ≤ 2
      · rw [liveRecs_split cfg r1 r2 (r.torn k) (htdead h2).1]
        simp only [List.length_append, List.length_cons]; omega
      · have : liveRecs cfg (r1 ++ r.torn k :: r2) = liveRecs cfg r1 ++ liveRecs cfg r2 := by
          simp [liveRecs, List.filter_cons, htdead' h2]
        rw [this]; simp only [List.length_append]; omega
    have hdrain := drain_layout cfg (F1 ++ ft :: F2) a.clock (tornErase s b.id k) hnames hlt hwf hdisk hclock
      ((a.live cfg).length + 1) hlen
    rw [hdrain]
    congr 1
    by_cases h2 : k ≤ 2
    · rw [if_pos h2, hlivea]
      simp only [List.flatMap_append, List.flatMap_cons, fLive, ft, AFile.setRecs]
      rw [liveRecs_split cfg r1 r2 (r.torn k) (htdead h2).1]
      simp [clearLive, ARec.torn]
    · rw [if_neg h2]
      have hdead3 : liveRecs cfg (r1 ++ r.torn k :: r2) = liveRecs cfg r1 ++ liveRecs cfg r2 := by
        simp [liveRecs, List.filter_cons, htdead' h2]
      -- erasing id from the live sequence removes exactly that entry
      have hle : liveErase b.id (a.live cfg) = F1.flatMap (fLive cfg) ++ (liveRecs cfg r1 ++ liveRecs cfg r2) ++ F2.flatMap (fLive cfg) := by
        have hE := Abs.live_erase cfg a b.id (fun g hg q hq hqid => ((inv.wf g hg).1 q hq).2.2.2.2.2 hqid)
        rw [← hE]
        unfold Abs.live
        rw [Abs.files_erase, hF, List.map_append, List.map_cons]
        have e1 : F1.map (eraseF b.id) = F1 := by
          conv => rhs; rw [← List.map_id F1]
          apply List.map_congr_left
          intro g hg
          simp only [id, eraseF]
          rw [map_eraseRec_id _ _ (hU1 g (by rw [hF]; simp [hg]) (fun e => hF1 g hg (by rw [e]))), AFile.setRecs_self]
        have e2 : F2.map (eraseF b.id) = F2 := by
          conv => rhs; rw [← List.map_id F2]
          apply List.map_congr_left
          intro g hg
          simp only [id, eraseF]
          rw [map_eraseRec_id _ _ (hU1 g (by rw [hF]; simp [hg]) (fun e => hF2 g hg (by rw [e]))), AFile.setRecs_self]
        have e3 : eraseF b.id f = f.setRecs (r1 ++ r.erased :: r2) := by
          simp only [eraseF, hrec, List.map_append, List.map_cons]
          rw [map_eraseRec_id _ r1 (fun q hq => hU2 q (by simp [hq])), map_eraseRec_id _ r2 (fun q hq => hU2 q (by simp [hq]))]
          simp [eraseRec, hrid]
        rw [e1, e2, e3]
        simp only [List.flatMap_append, List.flatMap_cons, fLive, AFile.setRecs]
        have : liveRecs cfg (r1 ++ r.erased :: r2) = liveRecs cfg r1 ++ liveRecs cfg r2 := by
          have hde : ARec.dead cfg r.erased = true := isDeleted_deleted cfg
          simp [liveRecs, List.filter_cons, hde]
        rw [this]; simp
      rw [hle]
      simp only [List.flatMap_append, List.flatMap_cons, fLive, ft, AFile.setRecs, hdead3]
      simp

end SH.C09
