import SH.Lemmas.DiskCacheRead3

namespace SH.C09
open SH.DiskCache

/-! ### the live sequence: what the cache holds, in write order, with the ids currently handed out -/

abbrev LiveE := Option Nat × Nat × Bytes

def liveRecs (cfg : Cfg) (rs : List ARec) : List LiveE :=
  (rs.filter (fun r => !r.dead cfg)).map (fun r => (r.id, r.time, r.body))
def fLive (cfg : Cfg) (f : AFile) : List LiveE := liveRecs cfg f.recs
def Abs.live (cfg : Cfg) (a : Abs) : List LiveE := a.files.flatMap (fLive cfg)

theorem liveRecs_append (cfg : Cfg) (a b : List ARec) : liveRecs cfg (a ++ b) = liveRecs cfg a ++ liveRecs cfg b := by
  simp [liveRecs]

theorem liveRecs_read (cfg : Cfg) (rs : List ARec) (h : ∀ r ∈ rs, unread cfg r = false) :
    ∀ e ∈ liveRecs cfg rs, e.1 ≠ none := by
  intro e he
  simp only [liveRecs, List.mem_map, List.mem_filter] at he
  obtain ⟨r, ⟨hr, hd⟩, rfl⟩ := he
  have := h r hr
  simp [unread, hasId] at this hd
  intro hn
  simp only at hn
  have := this hd
  rw [hn] at this; simp at this

theorem liveRecs_dead (cfg : Cfg) (rs : List ARec) (h1 : ∀ r ∈ rs, unread cfg r = false) (h2 : ∀ r ∈ rs, r.id = none) :
    liveRecs cfg rs = [] := by
  simp only [liveRecs, List.map_eq_nil_iff, List.filter_eq_nil_iff]
  intro r hr
  have a := h1 r hr
  have b := h2 r hr
  simp [unread, hasId, b] at a
  simp [a]

theorem liveRecs_split (cfg : Cfg) (r1 r2 : List ARec) (r : ARec) (hd : r.dead cfg = false) :
    liveRecs cfg (r1 ++ r :: r2) = liveRecs cfg r1 ++ (r.id, r.time, r.body) :: liveRecs cfg r2 := by
  simp [liveRecs, List.filter_cons, hd]

/-- loop iterations still needed in the worst case -/
def Abs.mu (a : Abs) : Nat :=
  (match a.cur with
   | some (f, j) => f.recs.length - j + 1
   | none => 0) + (a.wait.map (fun f => f.recs.length + 2)).sum + 1

theorem readLoop_zero (cfg : Cfg) (s : Shard) : readLoop cfg 0 s = (s, .fuel) := rfl

theorem readLoop_none_nil (cfg : Cfg) (fuel : Nat) (s : Shard) (h1 : s.reading = none) (h2 : s.waiting = []) :
    readLoop cfg (fuel + 1) s = (s, .none) := by
  simp [readLoop, h1, h2]

theorem readLoop_none_cons (cfg : Cfg) (fuel : Nat) (s : Shard) (w : WFile) (ws : List WFile) (h1 : s.reading = none)
    (h2 : s.waiting = w :: ws) (h3 : hasFile s.disk w.name = true) :
    readLoop cfg (fuel + 1) s = readLoop cfg fuel (openNext s w ws) := by
  simp [readLoop, h1, h2, h3]

theorem readLoop_none_missing (cfg : Cfg) (fuel : Nat) (s : Shard) (w : WFile) (ws : List WFile) (h1 : s.reading = none)
    (h2 : s.waiting = w :: ws) (h3 : hasFile s.disk w.name = false) :
    readLoop cfg (fuel + 1) s = readLoop cfg fuel (skipMissing s w ws) := by
  simp [readLoop, h1, h2, h3]

theorem readLoop_some (cfg : Cfg) (fuel : Nat) (s : Shard) (name : Nat) (o : OFile) (h1 : s.reading = some name)
    (h2 : findO s.ofiles name = some o) :
    readLoop cfg (fuel + 1) s =
      if o.nextPos ≥ o.size then readLoop cfg fuel (closeReading s name)
      else match look cfg (DiskCache.fileBytes s.disk name) o.size o.nextPos with
        | .stop => readLoop cfg fuel (closeReading s name)
        | .skip nx => readLoop cfg fuel (setNextPos s name nx)
        | .good h nx => (register s o h nx, .got h.time (s.lastID + 1)) := by
  rw [readLoop]; simp only [h1, h2]
  split
  · rfl
  · cases look cfg (DiskCache.fileBytes s.disk name) o.size o.nextPos <;> rfl


def ReadPost (cfg : Cfg) (a : Abs) (s' : Shard) : ReadRes → Prop
  | .fuel => True
  | .none => ∃ a', Inv cfg s' a' ∧ a'.live cfg = a.live cfg ∧ a'.lastID = a.lastID ∧ (∀ e ∈ a.live cfg, e.1 ≠ none)
  | .got t id => ∃ a' l1 b l2, Inv cfg s' a' ∧ id = a.lastID + 1 ∧ a'.lastID = a.lastID + 1 ∧
      a.live cfg = l1 ++ (none, t, b) :: l2 ∧ (∀ e ∈ l1, e.1 ≠ none) ∧ a'.live cfg = l1 ++ (some id, t, b) :: l2

theorem ReadPost.transport {cfg : Cfg} {a a1 : Abs} {s' : Shard} {r : ReadRes} (hl : a1.live cfg = a.live cfg)
    (hi : a1.lastID = a.lastID) (h : ReadPost cfg a1 s' r) : ReadPost cfg a s' r := by
  cases r with
  | fuel => trivial
  | none => simp only [ReadPost, hl, hi] at h ⊢; exact h
  | got t id => simp only [ReadPost, hl, hi] at h ⊢; exact h

theorem recsLen_take_lt (l : List ARec) (j : Nat) (h : j < l.length) : recsLen (l.take j) < recsLen l := by
  have e := take_succ_drop l j h
  have : recsLen l = recsLen (l.take j) + (l[j].len + recsLen (l.drop (j + 1))) := by
    conv => lhs; rw [e]
    rw [recsLen_append]; simp [recsLen]
  have := ARec.len_pos l[j]
  omega

theorem readLoop_spec (cfg : Cfg) : ∀ (fuel : Nat) (s : Shard) (a : Abs), Inv cfg s a →
    ReadPost cfg a (readLoop cfg fuel s).1 (readLoop cfg fuel s).2 ∧ (a.mu ≤ fuel → (readLoop cfg fuel s).2 ≠ .fuel) := by
  intro fuel
  induction fuel with
  | zero =>
    intro s a _
    refine ⟨trivial, ?_⟩
    intro h; simp [Abs.mu] at h
  | succ fuel ih =>
    intro s a inv
    cases hcur : a.cur with
    | none =>
      have hrd : s.reading = none := by rw [inv.reading]; simp [Abs.rname, hcur]
      cases hw : a.wait with
      | nil =>
        have hwt : s.waiting = [] := by rw [inv.waiting, hw]; rfl
        rw [readLoop_none_nil cfg fuel s hrd hwt]
        refine ⟨⟨a, inv, rfl, rfl, ?_⟩, by intro _; simp⟩
        intro e he
        simp only [Abs.live, Abs.files, Abs.curL, hcur, hw, List.nil_append, List.flatMap_append, List.mem_append, List.mem_flatMap] at he
        rcases he with ⟨f, hf, hef⟩ | ⟨f, hf, hef⟩
        · exact liveRecs_read cfg _ (inv.preRead f hf) e hef
        · exact liveRecs_read cfg _ (inv.newRead f hf) e hef
      | cons f fs =>
        have hwt : s.waiting = ⟨f.name, f.size cfg⟩ :: fs.map (fun g => ⟨g.name, g.size cfg⟩) := by
          rw [inv.waiting, hw]; rfl
        have hhas : hasFile s.disk f.name = true := by
          rw [inv.disk]; unfold hasFile
          rw [List.any_eq_true]
          exact ⟨f.render cfg, List.mem_map.mpr ⟨f, by simp [Abs.files, hw], rfl⟩, by simp [AFile.render]⟩
        rw [readLoop_none_cons cfg fuel s _ _ hrd hwt hhas]
        have inv1 := inv_open cfg s a f fs inv hcur hw
        obtain ⟨h1, h2⟩ := ih _ _ inv1
        have hl : (a.openA f fs).live cfg = a.live cfg := by
          simp [Abs.live, Abs.files, Abs.curL, Abs.openA, hcur, hw]
        refine ⟨h1.transport hl rfl, ?_⟩
        intro hmu
        apply h2
        simp [Abs.mu, Abs.openA, hcur, hw] at hmu ⊢
        omega
    | some fj =>
      obtain ⟨f, j⟩ := fj
      obtain ⟨hfm, hrd, o, ho, hon, hos, hop, horc⟩ := inv.cur_view hcur
      obtain ⟨hjle, hread1, hnone2⟩ := inv.curOk f j hcur
      rw [readLoop_some cfg fuel s f.name o hrd ho]
      have hbytes := inv.fileBytes hfm
      have hsz : f.size cfg = recsLen f.recs + f.tl.length := by
        simp [AFile.size, AFile.bytes, encRecs_length]
      -- closing: j = length
      have hclose : j = f.recs.length →
          ReadPost cfg a (readLoop cfg fuel (closeReading s f.name)).1 (readLoop cfg fuel (closeReading s f.name)).2 ∧
          (a.mu ≤ fuel + 1 → (readLoop cfg fuel (closeReading s f.name)).2 ≠ .fuel) := by
        intro hj
        subst hj
        have hflive : o.refCount - 1 = 0 → fLive cfg f = [] := by
          intro hz
          have hrf := inv.cur_refs hcur
          have hidc : idc f.recs = 0 := by omega
          exact liveRecs_dead cfg _ (by simpa using hread1) (idc_zero_none _ hidc)
        by_cases hz : o.refCount - 1 = 0
        · have inv1 := inv_close_drop cfg s a f o inv hcur ho hz
          obtain ⟨h1, h2⟩ := ih _ _ inv1
          have hl : (a.closeA f false).live cfg = a.live cfg := by
            simp [Abs.live, Abs.files, Abs.curL, Abs.closeA, hcur, List.flatMap_append, hflive hz]
          refine ⟨h1.transport hl rfl, ?_⟩
          intro hmu; apply h2
          simp [Abs.mu, Abs.closeA, hcur] at hmu ⊢
          omega
        · have inv1 := inv_close_keep cfg s a f o inv hcur ho hz
          obtain ⟨h1, h2⟩ := ih _ _ inv1
          have hl : (a.closeA f true).live cfg = a.live cfg := by
            simp [Abs.live, Abs.files, Abs.curL, Abs.closeA, hcur, List.flatMap_append]
          refine ⟨h1.transport hl rfl, ?_⟩
          intro hmu; apply h2
          simp [Abs.mu, Abs.closeA, hcur] at hmu ⊢
          omega
      by_cases hge : o.nextPos ≥ o.size
      · rw [if_pos hge]
        apply hclose
        by_cases hj : j < f.recs.length
        · have := recsLen_take_lt f.recs j hj
          omega
        · omega
      · rw [if_neg hge]
        rw [hbytes, hos, hop]
        by_cases hj : j < f.recs.length
        · -- at the boundary of record j
          have hrec := take_succ_drop f.recs j hj
          have hwf := (inv.wf f hfm).1 f.recs[j] (List.getElem_mem hj)
          have hlook := look_boundary cfg (f.recs.take j) (f.recs.drop (j + 1)) f.recs[j] f.tl hwf
          rw [← hrec] at hlook
          have hsz2 : f.size cfg = (encRecs cfg f.recs ++ f.tl).length := rfl
          rw [hsz2]
          have hb2 : f.bytes cfg = encRecs cfg f.recs ++ f.tl := rfl
          rw [hb2, hlook]
          cases hd : f.recs[j].dead cfg
          · -- good record
            simp only [Bool.false_eq_true, if_false]
            have hidn : f.recs[j].id = none := hnone2 _ (by rw [List.drop_eq_getElem_cons hj]; exact List.mem_cons_self)
            have hu : unread cfg f.recs[j] = true := by simp [unread, hd, hasId, hidn]
            have hlen : (f.recs.take j).length = j := by simp; omega
            have hcur' : a.cur = some (f, (f.recs.take j).length) := by rw [hlen]; exact hcur
            have inv1 := inv_good cfg s a f (f.recs.take j) (f.recs.drop (j + 1)) f.recs[j] o inv hcur' hrec hu ho
            refine ⟨?_, by intro _; simp⟩
            simp only [ReadPost]
            refine ⟨_, (a.pre.flatMap (fLive cfg)) ++ liveRecs cfg (f.recs.take j), f.recs[j].body,
              liveRecs cfg (f.recs.drop (j + 1)) ++ (a.wait ++ a.new).flatMap (fLive cfg), inv1, by rw [inv.lastID], rfl, ?_, ?_, ?_⟩
            · have hfl : fLive cfg f = liveRecs cfg (f.recs.take j) ++ (none, f.recs[j].time, f.recs[j].body) :: liveRecs cfg (f.recs.drop (j + 1)) := by
                have := congrArg (liveRecs cfg) hrec
                rw [liveRecs_split cfg _ _ _ hd, hidn] at this
                exact this
              simp only [Abs.live, Abs.files, Abs.curL, hcur, List.flatMap_append, List.flatMap_cons, List.flatMap_nil, List.append_nil, hfl]
              simp [ARec.hdr]
            · intro e he
              rcases List.mem_append.mp he with h | h
              · obtain ⟨g, hg, heg⟩ := List.mem_flatMap.mp h
                exact liveRecs_read cfg _ (inv.preRead g hg) e heg
              · exact liveRecs_read cfg _ hread1 e h
            · have hd' : (f.recs[j].withId (a.lastID + 1)).dead cfg = false := hd
              have hfl : fLive cfg (f.setRecs (f.recs.take j ++ f.recs[j].withId (a.lastID + 1) :: f.recs.drop (j + 1))) =
                  liveRecs cfg (f.recs.take j) ++ (some (a.lastID + 1), f.recs[j].time, f.recs[j].body) :: liveRecs cfg (f.recs.drop (j + 1)) := by
                simp only [fLive, AFile.setRecs]
                rw [liveRecs_split cfg _ _ _ hd']
                rfl
              simp only [Abs.live, Abs.files, Abs.curL, Abs.goodA, List.flatMap_append, List.flatMap_cons, List.flatMap_nil, List.append_nil, hfl, inv.lastID]
              simp [ARec.hdr]
          · -- erased record
            simp only [if_true]
            have hu : unread cfg f.recs[j] = false := by simp [unread, hd]
            have inv1 := inv_skip cfg s a f j inv hcur hj hu
            rw [recsLen_take_succ _ _ hj] at inv1
            obtain ⟨h1, h2⟩ := ih _ _ inv1
            have hl : (a.skipA f j).live cfg = a.live cfg := by
              simp [Abs.live, Abs.files, Abs.curL, Abs.skipA, hcur]
            refine ⟨h1.transport hl rfl, ?_⟩
            intro hmu; apply h2
            simp [Abs.mu, Abs.skipA, hcur] at hmu ⊢
            omega
        · -- at the end of the records: the tail stops the scan
          have hj' : j = f.recs.length := by omega
          have htake : f.recs.take j = f.recs := by rw [hj']; simp
          rw [htake]
          rcases look_end cfg f.recs f.tl (inv.wf f hfm).2 with h | h
          · exfalso
            rw [hos, hop, htake] at hge
            exact hge h
          · have hsz2 : f.size cfg = (encRecs cfg f.recs ++ f.tl).length := rfl
            have hb2 : f.bytes cfg = encRecs cfg f.recs ++ f.tl := rfl
            rw [hsz2, hb2, h]
            exact hclose hj'

end SH.C09
