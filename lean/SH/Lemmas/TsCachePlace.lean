/-
  SH.Lemmas.TsCachePlace — placement invariant of the series-cache model (property C23, helper development).

  Every non-empty slot anywhere in the model — in a chunk's cached data, in a loader's (request's) buffer — holds
  the cell of exactly the slot time its index stands for and of the cache key of its owner.  The invariant is
  carried through `init` (copy from cache, awaiter registration, adopt rule), `loadChunks` (publish, delivery to
  awaiters with their `chunkOffset`), invalidation, trimming, eviction, reset, limits and shutdown.
-/
import SH.Model.TsCache
namespace SH.TsCache.Place
open SH.TsCache

/-! ### lists -/

theorem getElem?_setRange_eq {α} (dst src : List α) (p i : Nat) :
    (setRange dst p src)[i]? =
      if i < p then dst[i]? else if i < p + src.length ∧ i < dst.length then src[i - p]? else dst[i]? := by
  simp only [setRange, List.getElem?_append, List.getElem?_take, List.getElem?_drop, List.length_take, List.length_append]
  grind

theorem getElem?_slice_some {α} (l : List α) (a b j : Nat) (x : α) (h : (slice l a b)[j]? = some x) :
    j < b - a ∧ l[a + j]? = some x := by
  simp only [slice, List.getElem?_take, List.getElem?_drop] at h
  grind

theorem getChunk_modAt (f : Chunk → Chunk) (i j : Nat) (cs : List Chunk) :
    getChunk (modAt f i cs) j = getChunk cs j ∨ (j = i ∧ getChunk (modAt f i cs) j = f (getChunk cs j)) := by
  induction cs generalizing i j with
  | nil => left; simp [modAt]
  | cons c cs ih =>
    cases i with
    | zero =>
      cases j with
      | zero => right; simp [modAt, getChunk]
      | succ j => left; simp [modAt, getChunk]
    | succ i =>
      cases j with
      | zero => left; simp [modAt, getChunk]
      | succ j =>
        have := ih i j
        simp only [modAt, getChunk, List.getD_cons_succ] at this ⊢
        rcases this with h | ⟨h1, h2⟩
        · left; exact h
        · right; exact ⟨by omega, h2⟩

theorem length_modAt {α} (f : α → α) (i : Nat) (l : List α) : (modAt f i l).length = l.length := by
  induction l generalizing i with
  | nil => simp [modAt]
  | cons a l ih => cases i <;> simp [modAt, ih]

theorem getChunk_append_lt (cs : List Chunk) (x : Chunk) (j : Nat) (h : j < cs.length) :
    getChunk (cs ++ [x]) j = getChunk cs j := by
  simp [getChunk, List.getD_eq_getElem?_getD, List.getElem?_append_left h]

theorem getChunk_append_len (cs : List Chunk) (x : Chunk) : getChunk (cs ++ [x]) cs.length = x := by
  simp [getChunk, List.getD_eq_getElem?_getD]

theorem getChunk_ge (cs : List Chunk) (j : Nat) (h : cs.length ≤ j) : getChunk cs j = noChunk := by
  simp [getChunk, List.getD_eq_getElem?_getD, List.getElem?_eq_none h]

/-! ### slot times -/

/-- the shard is well formed: a chunk lasts `K` steps -/
def WF (cfg : Cfg) : Prop := cfg.dur = (cfg.K : Int) * cfg.step * nsec

/-- time (seconds) of slot `j` of something that starts at `startNs` -/
def stime (cfg : Cfg) (startNs : Int) (j : Nat) : Int := startNs / nsec + (j : Int) * cfg.step

theorem stime_shift (cfg : Cfg) (a : Int) (p j : Nat) :
    stime cfg (a + (p : Int) * cfg.step * nsec) j = stime cfg a (p + j) := by
  have : (nsec : Int) ≠ 0 := by decide
  simp only [stime, Int.add_mul_ediv_right _ _ this, Int.natCast_add, Int.add_mul]
  omega

def OkSlot (key : Nat) (t : Int) (x : Slot) : Prop := ∀ c, x = some c → c.t = t ∧ c.key = key

/-- every filled slot `j` of `d` holds the cell of time `stime startNs j` and of cache key `key` -/
def OkData (cfg : Cfg) (key : Nat) (startNs : Int) (d : List Slot) : Prop :=
  ∀ j x, d[j]? = some x → OkSlot key (stime cfg startNs j) x

theorem OkData_replicate (cfg : Cfg) (key : Nat) (ts : Int) (n : Nat) : OkData cfg key ts (List.replicate n none) := by
  intro j x h c hc
  simp only [List.getElem?_replicate] at h
  split at h
  · cases h; cases hc
  · cases h

theorem OkData_setRange {cfg : Cfg} {key : Nat} {ts : Int} {dst src : List Slot} {p : Nat}
    (hd : OkData cfg key ts dst) (hs : ∀ k x, src[k]? = some x → OkSlot key (stime cfg ts (p + k)) x) :
    OkData cfg key ts (setRange dst p src) := by
  intro j x h
  rw [getElem?_setRange_eq] at h
  split at h
  · exact hd j x h
  · split at h
    · have := hs (j - p) x h
      have e : p + (j - p) = j := by omega
      rwa [e] at this
    · exact hd j x h

theorem stub_ok (cfg : Cfg) (key ver load tick : Nat) (fromSec : Int) (n k : Nat) (x : Slot)
    (h : (stubCells cfg key ver load tick fromSec n)[k]? = some x) :
    OkSlot key (fromSec + (k : Int) * cfg.step) x := by
  simp only [stubCells, List.getElem?_map] at h
  intro c hc
  cases hr : (List.range n)[k]? with
  | none => simp [hr] at h
  | some i =>
    have hi : i = k := by
      have := List.getElem?_range (n := n) (i := k)
      grind
    simp only [hr, Option.map_some, Option.some.injEq] at h
    subst h; cases hc; subst hi; exact ⟨rfl, rfl⟩


/-! ### the invariant -/

/-- cached data of a chunk: slot `j` holds the cell of time `chunk.start + j·step` of the chunk's cache key -/
def PC (cfg : Cfg) (c : Chunk) : Prop := ∀ d, c.data = some d → OkData cfg c.key c.start d

/-- chunk `c` sits at buffer position `pos` of a loader that starts at `ts` for cache key `key` -/
def AlignedC (cfg : Cfg) (ts : Int) (key : Nat) (c : Chunk) (pos : Nat) : Prop :=
  c.start = ts + (pos : Int) * cfg.step * nsec ∧ c.key = key

/-- what never changes about a loader -/
structure Sig where
  id : Nat
  ts : Int
  key : Nat

def sig (l : Loader) : Sig := ⟨l.id, l.timeStart, l.key⟩

/-- awaiter `a` on chunk `c`: its loader exists, has the chunk's cache key, and chunk slot `off + k` is the
    loader's slot `ls + k` -/
def AwOK (cfg : Cfg) (sigs : List Sig) (c : Chunk) (a : Awaiter) : Prop :=
  (∃ g ∈ sigs, g.id = a.req) ∧
  ∀ g ∈ sigs, g.id = a.req →
    c.start + (a.off : Int) * cfg.step * nsec = g.ts + (a.ls : Int) * cfg.step * nsec ∧ c.key = g.key

def LcOK (cfg : Cfg) (cs : List Chunk) (ts : Int) (key : Nat) (v : LChunk) : Prop :=
  v.cid < cs.length ∧ AlignedC cfg ts key (getChunk cs v.cid) v.pos

/-- positions of the chunks a loader loads: `base, base + K, base + 2K, …` -/
def Prog (K base : Nat) (vs : List LChunk) : Prop := ∀ k v, vs[k]? = some v → v.pos = base + k * K

/-- the part of the invariant that talks about the chunk store -/
structure CInv (cfg : Cfg) (sigs : List Sig) (lds : List (Sig × List LChunk)) (bks : List (Nat × List Nat))
    (cs : List Chunk) : Prop where
  pc : ∀ cid, PC cfg (getChunk cs cid)
  lc : ∀ g ∈ lds, ∀ v ∈ g.2, LcOK cfg cs g.1.ts g.1.key v
  aw : ∀ cid, ∀ a ∈ (getChunk cs cid).awaiters, AwOK cfg sigs (getChunk cs cid) a
  bk : ∀ b ∈ bks, ∀ cid ∈ b.2, cid < cs.length ∧ (getChunk cs cid).key = b.1

theorem PC_noChunk (cfg : Cfg) : PC cfg noChunk := by intro d h; simp [noChunk] at h

/-- what a modification of chunk `c` must respect -/
def KeepsAt (cfg : Cfg) (sigs : List Sig) (f : Chunk → Chunk) (c : Chunk) : Prop :=
  (f c).start = c.start ∧ (f c).key = c.key ∧
  (∀ a ∈ (f c).awaiters, a ∈ c.awaiters ∨ AwOK cfg sigs c a) ∧ (PC cfg c → PC cfg (f c))

theorem AwOK_congr {cfg : Cfg} {sigs : List Sig} {c c' : Chunk} {a : Awaiter} (h1 : c'.start = c.start)
    (h2 : c'.key = c.key) (h : AwOK cfg sigs c a) : AwOK cfg sigs c' a := by
  simpa only [AwOK, h1, h2] using h

theorem CInv_modAt {cfg : Cfg} {sigs : List Sig} {lds : List (Sig × List LChunk)} {bks : List (Nat × List Nat)}
    {cs : List Chunk} (f : Chunk → Chunk) (i : Nat) (hf : KeepsAt cfg sigs f (getChunk cs i))
    (h : CInv cfg sigs lds bks cs) : CInv cfg sigs lds bks (modAt f i cs) := by
  obtain ⟨f1, f2, f3, f4⟩ := hf
  refine ⟨?_, ?_, ?_, ?_⟩
  · intro cid
    rcases getChunk_modAt f i cid cs with e | ⟨rfl, e⟩
    · rw [e]; exact h.pc cid
    · rw [e]; exact f4 (h.pc cid)
  · intro g hg v hv
    obtain ⟨a, b1, b2⟩ := h.lc g hg v hv
    refine ⟨by rw [length_modAt]; exact a, ?_⟩
    rcases getChunk_modAt f i v.cid cs with e | ⟨e0, e⟩
    · rw [e]; exact ⟨b1, b2⟩
    · rw [e, e0]; rw [e0] at b1 b2; exact ⟨by rw [f1]; exact b1, by rw [f2]; exact b2⟩
  · intro cid a ha
    rcases getChunk_modAt f i cid cs with e | ⟨rfl, e⟩
    · rw [e] at ha ⊢; exact h.aw cid a ha
    · rw [e] at ha ⊢
      rcases f3 a ha with h1 | h1
      · exact AwOK_congr f1 f2 (h.aw cid a h1)
      · exact AwOK_congr f1 f2 h1
  · intro b hb cid hc
    obtain ⟨a, b1⟩ := h.bk b hb cid hc
    refine ⟨by rw [length_modAt]; exact a, ?_⟩
    rcases getChunk_modAt f i cid cs with e | ⟨e0, e⟩
    · rw [e]; exact b1
    · rw [e, e0]; rw [e0] at b1; rw [f2]; exact b1

theorem CInv_append {cfg : Cfg} {sigs : List Sig} {lds : List (Sig × List LChunk)} {bks : List (Nat × List Nat)}
    {cs : List Chunk} (x : Chunk) (hd : x.data = none) (ha : x.awaiters = [])
    (h : CInv cfg sigs lds bks cs) : CInv cfg sigs lds bks (cs ++ [x]) := by
  have key : ∀ j, getChunk (cs ++ [x]) j = getChunk cs j ∨
      ((getChunk (cs ++ [x]) j).data = none ∧ (getChunk (cs ++ [x]) j).awaiters = []) := by
    intro j
    by_cases h1 : j < cs.length
    · left; exact getChunk_append_lt cs x j h1
    · right
      by_cases h2 : j = cs.length
      · subst h2; rw [getChunk_append_len]; exact ⟨hd, ha⟩
      · rw [getChunk_ge _ j (by simp; omega)]; exact ⟨rfl, rfl⟩
  refine ⟨?_, ?_, ?_, ?_⟩
  · intro cid
    rcases key cid with e | ⟨e, _⟩
    · rw [e]; exact h.pc cid
    · intro d hd'; rw [e] at hd'; cases hd'
  · intro g hg v hv
    obtain ⟨a, b⟩ := h.lc g hg v hv
    exact ⟨by simp; omega, by rw [getChunk_append_lt cs x _ a]; exact b⟩
  · intro cid a ha'
    rcases key cid with e | ⟨_, e⟩
    · rw [e] at ha' ⊢; exact h.aw cid a ha'
    · rw [e] at ha'; cases ha'
  · intro b hb cid hc
    obtain ⟨a, b1⟩ := h.bk b hb cid hc
    exact ⟨by simp; omega, by rw [getChunk_append_lt cs x _ a]; exact b1⟩

/-- modifications that keep start, key, awaiters and (the well-placedness of) the data -/
theorem keepsAt_of_same {cfg : Cfg} {sigs : List Sig} (f : Chunk → Chunk) (c : Chunk)
    (h1 : (f c).start = c.start) (h2 : (f c).key = c.key) (h3 : (f c).awaiters = c.awaiters)
    (h4 : (f c).data = c.data ∨ (f c).data = none) : KeepsAt cfg sigs f c := by
  refine ⟨h1, h2, fun a ha => Or.inl (h3 ▸ ha), ?_⟩
  intro hp d hd
  rcases h4 with e | e
  · rw [e] at hd; rw [h1, h2]; exact hp d hd
  · rw [e] at hd; cases hd

theorem keepsAt_startLoad {cfg : Cfg} {sigs : List Sig} (now : Int) (c : Chunk) : KeepsAt cfg sigs (startLoad now) c :=
  keepsAt_of_same _ c rfl rfl rfl (Or.inl rfl)
theorem keepsAt_touch {cfg : Cfg} {sigs : List Sig} (now : Int) (c : Chunk) : KeepsAt cfg sigs (touch now) c :=
  keepsAt_of_same _ c rfl rfl rfl (Or.inl rfl)
theorem keepsAt_detach {cfg : Cfg} {sigs : List Sig} (c : Chunk) : KeepsAt cfg sigs detach c :=
  keepsAt_of_same _ c rfl rfl rfl (Or.inr rfl)
theorem keepsAt_invalidate {cfg : Cfg} {sigs : List Sig} (now : Int) (tick : Nat) (c : Chunk) :
    KeepsAt cfg sigs (invalidateChunk now tick) c :=
  keepsAt_of_same _ c rfl rfl rfl (Or.inl rfl)


/-! ### request begin (`init`) -/

/-- `cs'` extends `cs` and keeps start and key of every chunk -/
def SKle (cs cs' : List Chunk) : Prop :=
  cs.length ≤ cs'.length ∧ ∀ j, j < cs.length → (getChunk cs' j).start = (getChunk cs j).start ∧ (getChunk cs' j).key = (getChunk cs j).key

theorem SKle.refl (cs : List Chunk) : SKle cs cs := ⟨Nat.le_refl _, fun _ _ => ⟨rfl, rfl⟩⟩

theorem SKle.trans {a b c : List Chunk} (h1 : SKle a b) (h2 : SKle b c) : SKle a c := by
  refine ⟨Nat.le_trans h1.1 h2.1, fun j hj => ?_⟩
  obtain ⟨x1, x2⟩ := h1.2 j hj
  obtain ⟨y1, y2⟩ := h2.2 j (Nat.lt_of_lt_of_le hj h1.1)
  exact ⟨y1.trans x1, y2.trans x2⟩

theorem SKle_modAt (f : Chunk → Chunk) (hf : ∀ c, (f c).start = c.start ∧ (f c).key = c.key) (i : Nat) (cs : List Chunk) :
    SKle cs (modAt f i cs) := by
  refine ⟨by rw [length_modAt]; exact Nat.le_refl _, fun j _ => ?_⟩
  rcases getChunk_modAt f i j cs with e | ⟨_, e⟩
  · rw [e]; exact ⟨rfl, rfl⟩
  · rw [e]; exact hf _

theorem SKle_startLoad (now : Int) (i : Nat) (cs : List Chunk) : SKle cs (modAt (startLoad now) i cs) :=
  SKle_modAt (startLoad now) (fun _ => ⟨rfl, rfl⟩) i cs
theorem SKle_touch (now : Int) (i : Nat) (cs : List Chunk) : SKle cs (modAt (touch now) i cs) :=
  SKle_modAt (touch now) (fun _ => ⟨rfl, rfl⟩) i cs

theorem SKle_append (cs : List Chunk) (x : Chunk) : SKle cs (cs ++ [x]) :=
  ⟨by simp, fun j hj => by rw [getChunk_append_lt cs x j hj]; exact ⟨rfl, rfl⟩⟩

theorem LcOK_mono {cfg : Cfg} {cs cs' : List Chunk} {ts : Int} {key : Nat} {v : LChunk} (h : SKle cs cs')
    (hv : LcOK cfg cs ts key v) : LcOK cfg cs' ts key v := by
  obtain ⟨a, b1, b2⟩ := hv
  obtain ⟨x1, x2⟩ := h.2 v.cid a
  exact ⟨Nat.lt_of_lt_of_le a h.1, by rw [x1]; exact b1, by rw [x2]; exact b2⟩

theorem mul_split (pos ls : Nat) (h : pos ≤ ls) (s n : Int) :
    (pos : Int) * s * n + ((ls - pos : Nat) : Int) * s * n = (ls : Int) * s * n := by
  have : (ls : Int) = (pos : Int) + ((ls - pos : Nat) : Int) := by omega
  rw [this]; simp only [Int.add_mul]

/-- the invariant of `init` for the loader under construction (signature `g`) -/
structure IInv (cfg : Cfg) (sigs0 : List Sig) (lds : List (Sig × List LChunk)) (bks : List (Nat × List Nat)) (g : Sig)
    (s : InitSt) : Prop where
  sg : sig s.l = g
  ci : CInv cfg (sigs0 ++ [g]) lds bks s.chunks
  pl : OkData cfg g.key g.ts s.l.data
  own : ∀ v ∈ s.l.chunks, LcOK cfg s.chunks g.ts g.key v

def VsOK (cfg : Cfg) (g : Sig) (cs : List Chunk) (vs : List LChunk) : Prop :=
  ∀ v ∈ vs, LcOK cfg cs g.ts g.key v ∧ v.pos ≤ v.ls

theorem VsOK_mono {cfg : Cfg} {g : Sig} {cs cs' : List Chunk} {vs : List LChunk} (h : SKle cs cs') (hv : VsOK cfg g cs vs) :
    VsOK cfg g cs' vs := fun v hv' => ⟨LcOK_mono h (hv v hv').1, (hv v hv').2⟩

theorem awaitCopyOne_I {cfg : Cfg} {sigs0 : List Sig} {lds : List (Sig × List LChunk)} {bks : List (Nat × List Nat)} {g : Sig}
    (fresh : ∀ g' ∈ sigs0, g'.id ≠ g.id) (s : InitSt) (v : LChunk) (h : IInv cfg sigs0 lds bks g s)
    (hv : LcOK cfg s.chunks g.ts g.key v ∧ v.pos ≤ v.ls) :
    IInv cfg sigs0 lds bks g (awaitCopyOne s v) ∧ SKle s.chunks (awaitCopyOne s v).chunks ∧
      (awaitCopyOne s v).l.chunks = s.l.chunks := by
  obtain ⟨⟨hlen, hst, hkey⟩, hle⟩ := hv
  have hid : s.l.id = g.id := by rw [← h.sg]; rfl
  unfold awaitCopyOne
  split
  · -- await
    have hsk : SKle s.chunks (awaitChunk s v).chunks := by
      unfold awaitChunk; simp only []; apply SKle_modAt; intro c; exact ⟨rfl, rfl⟩
    refine ⟨⟨h.sg, ?_, h.pl, ?_⟩, hsk, rfl⟩
    · apply CInv_modAt _ _ _ h.ci
      refine ⟨rfl, rfl, ?_, ?_⟩
      · intro a ha
        simp only [List.mem_append, List.mem_singleton] at ha
        rcases ha with ha | rfl
        · exact Or.inl ha
        · right
          refine ⟨⟨g, by simp, hid.symm⟩, ?_⟩
          intro g' hg' he
          simp only [List.mem_append, List.mem_singleton] at hg'
          rcases hg' with hg' | rfl
          · exact absurd (he.trans hid) (fresh g' hg')
          · refine ⟨?_, hkey⟩
            simp only []
            rw [hst, Int.add_assoc, mul_split _ _ hle]
      · intro hp d hd; exact hp d hd
    · intro w hw
      exact LcOK_mono hsk (h.own w hw)
  · -- copy
    unfold copyChunk
    split
    · exact ⟨h, SKle.refl _, rfl⟩
    · rename_i d hd
      refine ⟨⟨h.sg, h.ci, ?_, h.own⟩, SKle.refl _, rfl⟩
      have hts : s.l.timeStart = g.ts := by rw [← h.sg]; rfl
      have hk : s.l.key = g.key := by rw [← h.sg]; rfl
      apply OkData_setRange h.pl
      intro k x hx
      obtain ⟨_, hx2⟩ := getElem?_slice_some _ _ _ _ _ hx
      have := h.ci.pc v.cid d hd _ x hx2
      rw [hst, hkey, stime_shift] at this
      have e : v.pos + (v.ls - v.pos + k) = v.ls + k := by omega
      rwa [e] at this


theorem foldl_awaitCopyOne_I {cfg : Cfg} {sigs0 : List Sig} {lds : List (Sig × List LChunk)} {bks : List (Nat × List Nat)} {g : Sig}
    (fresh : ∀ g' ∈ sigs0, g'.id ≠ g.id) (vs : List LChunk) (s : InitSt) (h : IInv cfg sigs0 lds bks g s)
    (hv : VsOK cfg g s.chunks vs) :
    IInv cfg sigs0 lds bks g (vs.foldl awaitCopyOne s) ∧ SKle s.chunks (vs.foldl awaitCopyOne s).chunks ∧
      (vs.foldl awaitCopyOne s).l.chunks = s.l.chunks := by
  induction vs generalizing s with
  | nil => exact ⟨h, SKle.refl _, rfl⟩
  | cons v vs ih =>
    obtain ⟨a, b, c⟩ := awaitCopyOne_I fresh s v h (hv v (List.mem_cons_self ..))
    obtain ⟨a', b', c'⟩ := ih (awaitCopyOne s v) a (VsOK_mono b (fun w hw => hv w (List.mem_cons_of_mem _ hw)))
    simp only [List.foldl_cons]
    exact ⟨a', b.trans b', c'.trans c⟩

theorem awaitCopy_I {cfg : Cfg} {sigs0 : List Sig} {lds : List (Sig × List LChunk)} {bks : List (Nat × List Nat)} {g : Sig}
    (fresh : ∀ g' ∈ sigs0, g'.id ≠ g.id) (s : InitSt) (h : IInv cfg sigs0 lds bks g s) (hv : VsOK cfg g s.chunks s.pend) :
    IInv cfg sigs0 lds bks g (awaitCopy s) ∧ SKle s.chunks (awaitCopy s).chunks ∧
      (awaitCopy s).l.chunks = s.l.chunks ∧ (awaitCopy s).pend = [] ∧ (awaitCopy s).cids = s.cids := by
  obtain ⟨a, b, c⟩ := foldl_awaitCopyOne_I fresh s.pend s h hv
  refine ⟨⟨a.sg, a.ci, a.pl, a.own⟩, b, c, rfl, ?_⟩
  have : ∀ (vs : List LChunk) (s : InitSt), (vs.foldl awaitCopyOne s).cids = s.cids := by
    intro vs
    induction vs with
    | nil => intro s; rfl
    | cons v vs ih =>
      intro s
      simp only [List.foldl_cons, ih]
      unfold awaitCopyOne awaitChunk copyChunk
      split
      · rfl
      · split <;> rfl
  exact this _ _

theorem adoptPend_I {cfg : Cfg} {sigs0 : List Sig} {lds : List (Sig × List LChunk)} {bks : List (Nat × List Nat)} {g : Sig}
    (now : Int) (s : InitSt) (h : IInv cfg sigs0 lds bks g s) (hv : VsOK cfg g s.chunks s.pend) :
    IInv cfg sigs0 lds bks g (adoptPend now s) ∧ SKle s.chunks (adoptPend now s).chunks ∧
      (adoptPend now s).l.chunks = s.l.chunks ++ s.pend ∧ (adoptPend now s).pend = [] ∧ (adoptPend now s).cids = s.cids := by
  have key : ∀ (vs : List LChunk) (s : InitSt), IInv cfg sigs0 lds bks g s → VsOK cfg g s.chunks vs →
      IInv cfg sigs0 lds bks g (vs.foldl (adoptOne now) s) ∧ SKle s.chunks (vs.foldl (adoptOne now) s).chunks ∧
      (vs.foldl (adoptOne now) s).l.chunks = s.l.chunks ++ vs ∧ (vs.foldl (adoptOne now) s).cids = s.cids := by
    intro vs
    induction vs with
    | nil => intro s h _; exact ⟨h, SKle.refl _, by simp, rfl⟩
    | cons v vs ih =>
      intro s h hv
      have hsk : SKle s.chunks (adoptOne now s v).chunks := by
        unfold adoptOne; simp only []; apply SKle_modAt; intro c; exact ⟨rfl, rfl⟩
      have h1 : IInv cfg sigs0 lds bks g (adoptOne now s v) := by
        refine ⟨h.sg, CInv_modAt _ _ (keepsAt_startLoad now _) h.ci, h.pl, ?_⟩
        intro w hw
        simp only [adoptOne, List.mem_append, List.mem_singleton] at hw
        rcases hw with hw | rfl
        · exact LcOK_mono hsk (h.own w hw)
        · exact LcOK_mono hsk (hv w (List.mem_cons_self ..)).1
      obtain ⟨a, b, c, d⟩ := ih _ h1 (VsOK_mono hsk (fun w hw => hv w (List.mem_cons_of_mem _ hw)))
      simp only [List.foldl_cons]
      refine ⟨a, hsk.trans b, ?_, d⟩
      rw [c]; simp [adoptOne]
  obtain ⟨a, b, c, d⟩ := key s.pend s h hv
  exact ⟨⟨a.sg, a.ci, a.pl, a.own⟩, b, c, rfl, d⟩


def CidsOK (g : Sig) (cs : List Chunk) (cids : List Nat) : Prop :=
  ∀ cid ∈ cids, cid < cs.length ∧ (getChunk cs cid).key = g.key

theorem CidsOK_mono {g : Sig} {cs cs' : List Chunk} {cids : List Nat} (h : SKle cs cs') (hc : CidsOK g cs cids) :
    CidsOK g cs' cids := by
  intro cid hcid
  obtain ⟨a, b⟩ := hc cid hcid
  exact ⟨Nat.lt_of_lt_of_le a h.1, by rw [(h.2 cid a).2]; exact b⟩

/-- invariant of the walk over the chunk grid -/
structure VInv (cfg : Cfg) (sigs0 : List Sig) (lds : List (Sig × List LChunk)) (bks : List (Nat × List Nat)) (g : Sig)
    (s : InitSt) : Prop where
  i : IInv cfg sigs0 lds bks g s
  pend : VsOK cfg g s.chunks s.pend
  cids : CidsOK g s.chunks s.cids

theorem maybeAdd_V {cfg : Cfg} {sigs0 : List Sig} {lds : List (Sig × List LChunk)} {bks : List (Nat × List Nat)} {g : Sig}
    (fresh : ∀ g' ∈ sigs0, g'.id ≠ g.id) (now : Int) (s : InitSt) (cid pos : Nat) (h : VInv cfg sigs0 lds bks g s)
    (hv : cid < s.chunks.length ∧ AlignedC cfg g.ts g.key (getChunk s.chunks cid) pos) :
    VInv cfg sigs0 lds bks g (maybeAdd cfg now s cid pos) ∧ SKle s.chunks (maybeAdd cfg now s cid pos).chunks ∧
      (maybeAdd cfg now s cid pos).cids = s.cids := by
  have hlc : ∀ cs', SKle s.chunks cs' →
      LcOK cfg cs' g.ts g.key (mkLChunk cfg s.l (getChunk s.chunks cid) cid pos now) ∧
      (mkLChunk cfg s.l (getChunk s.chunks cid) cid pos now).pos ≤ (mkLChunk cfg s.l (getChunk s.chunks cid) cid pos now).ls := by
    intro cs' hsk
    exact ⟨LcOK_mono hsk ⟨hv.1, hv.2⟩, by simp only [mkLChunk]; omega⟩
  unfold maybeAdd
  simp only []
  split
  · have key : ∀ s2 : InitSt, IInv cfg sigs0 lds bks g s2 → SKle s.chunks s2.chunks → s2.pend = [] → s2.cids = s.cids →
        VInv cfg sigs0 lds bks g
          { s2 with chunks := modAt (touch now) cid (modAt (startLoad now) cid s2.chunks),
                    l := { s2.l with chunks := s2.l.chunks ++ [mkLChunk cfg s.l (getChunk s.chunks cid) cid pos now] } } ∧
        SKle s.chunks (modAt (touch now) cid (modAt (startLoad now) cid s2.chunks)) := by
      intro s2 h2 hsk hp hc
      have hsk2 : SKle s2.chunks (modAt (touch now) cid (modAt (startLoad now) cid s2.chunks)) :=
        (SKle_startLoad now cid _).trans (SKle_touch now cid _)
      refine ⟨⟨⟨h2.sg, CInv_modAt _ _ (keepsAt_touch now _) (CInv_modAt _ _ (keepsAt_startLoad now _) h2.ci), h2.pl, ?_⟩, ?_, ?_⟩,
        hsk.trans hsk2⟩
      · intro w hw
        simp only [List.mem_append, List.mem_singleton] at hw
        rcases hw with hw | rfl
        · exact LcOK_mono hsk2 (h2.own w hw)
        · exact (hlc _ (hsk.trans hsk2)).1
      · intro w hw; simp only [hp] at hw; cases hw
      · simp only [hc]; exact CidsOK_mono (hsk.trans hsk2) h.cids
    split
    · obtain ⟨a, b, _, d, e⟩ := awaitCopy_I fresh s h.i h.pend
      obtain ⟨x, y⟩ := key _ a b d e
      exact ⟨x, y, e⟩
    · obtain ⟨a, b, _, d, e⟩ := adoptPend_I now s h.i h.pend
      obtain ⟨x, y⟩ := key _ a b d e
      exact ⟨x, y, e⟩
  · have hsk : SKle s.chunks (modAt (touch now) cid s.chunks) := SKle_touch now cid _
    refine ⟨⟨⟨h.i.sg, CInv_modAt _ _ (keepsAt_touch now _) h.i.ci, h.i.pl, fun w hw => LcOK_mono hsk (h.i.own w hw)⟩, ?_,
      CidsOK_mono hsk h.cids⟩, hsk, rfl⟩
    intro w hw
    simp only [List.mem_append, List.mem_singleton] at hw
    rcases hw with hw | rfl
    · exact ⟨LcOK_mono hsk (h.pend w hw).1, (h.pend w hw).2⟩
    · exact hlc _ hsk


theorem findCid_some (cs : List Chunk) (t : Int) (cids : List Nat) (cid : Nat) (h : findCid cs t cids = some cid) :
    cid ∈ cids ∧ (getChunk cs cid).start = t := by
  induction cids with
  | nil => simp [findCid] at h
  | cons i is ih =>
    simp only [findCid] at h
    split at h
    · rename_i he
      cases h
      exact ⟨List.mem_cons_self .., by simpa using he⟩
    · exact ⟨List.mem_cons_of_mem _ (ih h).1, (ih h).2⟩

theorem mem_insertCid (cs : List Chunk) (t : Int) (cid : Nat) (l : List Nat) (x : Nat)
    (h : x ∈ insertCid cs t cid l) : x = cid ∨ x ∈ l := by
  induction l with
  | nil => simp [insertCid] at h; exact Or.inl h
  | cons i is ih =>
    simp only [insertCid] at h
    split at h
    · simp only [List.mem_cons] at h ⊢
      rcases h with h | h | h
      · exact Or.inl h
      · exact Or.inr (Or.inl h)
      · exact Or.inr (Or.inr h)
    · simp only [List.mem_cons] at h ⊢
      rcases h with h | h
      · exact Or.inr (Or.inl h)
      · rcases ih h with h | h
        · exact Or.inl h
        · exact Or.inr (Or.inr h)

theorem wf_pos {cfg : Cfg} (h : WF cfg) (p : Nat) : (p : Int) * cfg.dur = ((p * cfg.K : Nat) : Int) * cfg.step * nsec := by
  rw [h]; simp only [Int.natCast_mul, Int.mul_assoc]

theorem visit_V {cfg : Cfg} {sigs0 : List Sig} {lds : List (Sig × List LChunk)} {bks : List (Nat × List Nat)} {g : Sig}
    (wf : WF cfg) (fresh : ∀ g' ∈ sigs0, g'.id ≠ g.id) (now : Int) (s : InitSt) (p : Nat) (h : VInv cfg sigs0 lds bks g s) :
    VInv cfg sigs0 lds bks g (visit cfg now s p) ∧ SKle s.chunks (visit cfg now s p).chunks := by
  have hts : s.l.timeStart = g.ts := by rw [← h.i.sg]; rfl
  have hk : s.l.key = g.key := by rw [← h.i.sg]; rfl
  unfold visit
  simp only []
  split
  · rename_i cid hf
    obtain ⟨hm, hst⟩ := findCid_some _ _ _ _ hf
    obtain ⟨a, b⟩ := h.cids cid hm
    obtain ⟨x, y, _⟩ := maybeAdd_V fresh now s cid (p * cfg.K) h ⟨a, by rw [hst, hts, wf_pos wf], b⟩
    exact ⟨x, y⟩
  · have hsk : SKle s.chunks (s.chunks ++ [newChunk s.l.key (s.l.timeStart + p * cfg.dur) cfg.dur]) := SKle_append _ _
    have h1 : VInv cfg sigs0 lds bks g
        { s with chunks := s.chunks ++ [newChunk s.l.key (s.l.timeStart + p * cfg.dur) cfg.dur], fresh := s.fresh + 1 } :=
      ⟨⟨h.i.sg, CInv_append _ rfl rfl h.i.ci, h.i.pl, fun w hw => LcOK_mono hsk (h.i.own w hw)⟩,
        VsOK_mono hsk h.pend, CidsOK_mono hsk h.cids⟩
    obtain ⟨a, b, c⟩ := maybeAdd_V fresh now _ s.chunks.length (p * cfg.K) h1
      ⟨by simp, by
        simp only [getChunk_append_len]
        exact ⟨by simp only [newChunk]; rw [hts, wf_pos wf], by simp only [newChunk]; exact hk⟩⟩
    refine ⟨⟨⟨a.i.sg, a.i.ci, a.i.pl, a.i.own⟩, a.pend, ?_⟩, hsk.trans b⟩
    intro x hx
    rcases mem_insertCid _ _ _ _ _ hx with rfl | hx
    · have hlt : s.chunks.length < (s.chunks ++ [newChunk s.l.key (s.l.timeStart + p * cfg.dur) cfg.dur]).length := by simp
      refine ⟨Nat.lt_of_lt_of_le hlt b.1, ?_⟩
      rw [(b.2 _ hlt).2, getChunk_append_len]; exact hk
    · rw [c] at hx
      exact CidsOK_mono (hsk.trans b) h.cids x hx

theorem initLoader_P {cfg : Cfg} {sigs0 : List Sig} {lds : List (Sig × List LChunk)} {bks : List (Nat × List Nat)}
    (wf : WF cfg) (now : Int) (cs : List Chunk) (cids : List Nat) (l : Loader) (n : Nat)
    (fresh : ∀ g' ∈ sigs0, g'.id ≠ l.id) (hci : CInv cfg (sigs0 ++ [sig l]) lds bks cs)
    (hpl : OkData cfg l.key l.timeStart l.data) (hown : l.chunks = []) (hcids : CidsOK (sig l) cs cids) :
    IInv cfg sigs0 lds bks (sig l) (initLoader cfg now cs cids l n) ∧ CidsOK (sig l) (initLoader cfg now cs cids l n).chunks
      (initLoader cfg now cs cids l n).cids ∧ SKle cs (initLoader cfg now cs cids l n).chunks := by
  have key : ∀ (ps : List Nat) (s : InitSt), VInv cfg sigs0 lds bks (sig l) s →
      VInv cfg sigs0 lds bks (sig l) (ps.foldl (visit cfg now) s) ∧ SKle s.chunks (ps.foldl (visit cfg now) s).chunks := by
    intro ps
    induction ps with
    | nil => intro s hs; exact ⟨hs, SKle.refl _⟩
    | cons p ps ih =>
      intro s hs
      obtain ⟨x, y⟩ := visit_V wf fresh now s p hs
      obtain ⟨x', y'⟩ := ih _ x
      exact ⟨x', y.trans y'⟩
  have h0 : VInv cfg sigs0 lds bks (sig l) { chunks := cs, cids := cids, l := l, pend := [], fresh := 0 } :=
    ⟨⟨rfl, hci, hpl, by intro v hv; simp [hown] at hv⟩, (by intro v hv; cases hv), hcids⟩
  obtain ⟨h1, hs1⟩ := key (List.range n) _ h0
  obtain ⟨a, b, _, _, e⟩ := awaitCopy_I fresh _ h1.i h1.pend
  refine ⟨a, ?_, hs1.trans b⟩
  unfold initLoader; rw [e]; exact CidsOK_mono b h1.cids


/-! ### the chunks a loader loads are contiguous (the adopt rule of `maybeAddChunk`) -/

theorem Prog_append {K b : Nat} {vs : List LChunk} {v : LChunk} (h : Prog K b vs) (hv : v.pos = b + vs.length * K) :
    Prog K b (vs ++ [v]) := by
  intro k w hw
  rw [List.getElem?_append] at hw
  split at hw
  · exact h k w hw
  · rename_i hk
    have : k - vs.length = 0 := by
      cases hk' : k - vs.length with
      | zero => rfl
      | succ m => rw [hk'] at hw; simp at hw
    rw [this] at hw
    simp only [List.getElem?_cons_zero, Option.some.injEq] at hw
    subst hw
    have : k = vs.length := by omega
    rw [hv, this]

theorem Prog_prefix {K b : Nat} {xs ys : List LChunk} (h : Prog K b (xs ++ ys)) : Prog K b xs := by
  intro k v hv
  apply h k v
  rw [List.getElem?_append_left]
  · exact hv
  · exact (List.getElem?_eq_some_iff.mp hv).1

theorem Prog_tail {K b : Nat} {v : LChunk} {vs : List LChunk} (h : Prog K b (v :: vs)) : v.pos = b ∧ Prog K (b + K) vs := by
  refine ⟨by simpa using h 0 v rfl, ?_⟩
  intro k w hw
  have := h (k + 1) w (by simpa using hw)
  rw [this, Nat.add_mul]; omega

theorem awaitCopy_lchunks (s : InitSt) : (awaitCopy s).l.chunks = s.l.chunks ∧ (awaitCopy s).pend = [] := by
  have : ∀ (vs : List LChunk) (s : InitSt), (vs.foldl awaitCopyOne s).l.chunks = s.l.chunks := by
    intro vs
    induction vs with
    | nil => intro s; rfl
    | cons v vs ih =>
      intro s
      simp only [List.foldl_cons, ih]
      unfold awaitCopyOne awaitChunk copyChunk
      split
      · rfl
      · split <;> rfl
  exact ⟨this _ _, rfl⟩

theorem adoptPend_lchunks (now : Int) (s : InitSt) :
    (adoptPend now s).l.chunks = s.l.chunks ++ s.pend ∧ (adoptPend now s).pend = [] := by
  have : ∀ (vs : List LChunk) (s : InitSt), (vs.foldl (adoptOne now) s).l.chunks = s.l.chunks ++ vs := by
    intro vs
    induction vs with
    | nil => intro s; simp
    | cons v vs ih => intro s; simp only [List.foldl_cons, ih]; simp [adoptOne]
  exact ⟨this _ _, rfl⟩

/-- after `p` grid positions: the chunks to load and the undecided ones form the progression ending just before `p` -/
def ProgInv (K p : Nat) (s : InitSt) : Prop :=
  s.l.chunks ≠ [] → ∃ base, Prog K base (s.l.chunks ++ s.pend) ∧ base + (s.l.chunks ++ s.pend).length * K = p * K

theorem maybeAdd_Prog (cfg : Cfg) (now : Int) (s : InitSt) (cid p : Nat) (h : ProgInv cfg.K p s) :
    ProgInv cfg.K (p + 1) (maybeAdd cfg now s cid (p * cfg.K)) := by
  unfold maybeAdd
  simp only []
  split
  · split
    · rename_i he
      intro _
      obtain ⟨e1, e2⟩ := awaitCopy_lchunks s
      have e0 : s.l.chunks = [] := by simpa using he
      refine ⟨p * cfg.K, ?_, ?_⟩
      · simp only [e1, e2, e0, List.nil_append, List.append_nil]
        intro k v hv
        cases k with
        | zero =>
          have : v = mkLChunk cfg s.l (getChunk s.chunks cid) cid (p * cfg.K) now := by simpa using hv.symm
          rw [this]; simp [mkLChunk]
        | succ k => simp at hv
      · simp only [e1, e2, e0, List.nil_append, List.append_nil, List.length_singleton, Nat.add_mul, Nat.one_mul]
    · rename_i he
      intro _
      obtain ⟨e1, e2⟩ := adoptPend_lchunks now s
      obtain ⟨base, hp, hl⟩ := h (by simpa using he)
      refine ⟨base, ?_, ?_⟩
      · simp only [e1, e2, List.append_nil]
        exact Prog_append hp (by simp only [mkLChunk]; omega)
      · simp only [e1, e2, List.append_nil, List.length_append, List.length_singleton, Nat.add_mul, Nat.one_mul] at hl ⊢
        omega
  · intro hne
    obtain ⟨base, hp, hl⟩ := h hne
    refine ⟨base, ?_, ?_⟩
    · simp only [← List.append_assoc]
      exact Prog_append hp (by simp only [mkLChunk]; omega)
    · simp only [List.length_append, List.length_singleton, Nat.add_mul, Nat.one_mul] at hl ⊢
      omega

theorem visit_Prog (cfg : Cfg) (now : Int) (s : InitSt) (p : Nat) (h : ProgInv cfg.K p s) :
    ProgInv cfg.K (p + 1) (visit cfg now s p) := by
  unfold visit
  simp only []
  split
  · exact maybeAdd_Prog cfg now s _ p h
  · exact maybeAdd_Prog cfg now _ _ p h

theorem initLoader_Prog (cfg : Cfg) (now : Int) (cs : List Chunk) (cids : List Nat) (l : Loader) (n : Nat)
    (hown : l.chunks = []) : ∃ base, Prog cfg.K base (initLoader cfg now cs cids l n).l.chunks := by
  have key : ∀ n, ProgInv cfg.K n ((List.range n).foldl (visit cfg now) { chunks := cs, cids := cids, l := l, pend := [], fresh := 0 }) := by
    intro n
    induction n with
    | zero => intro hne; simp [hown] at hne
    | succ n ih =>
      rw [List.range_succ, List.foldl_append]
      exact visit_Prog cfg now _ n ih
  unfold initLoader
  rw [(awaitCopy_lchunks _).1]
  by_cases hne : ((List.range n).foldl (visit cfg now) { chunks := cs, cids := cids, l := l, pend := [], fresh := 0 }).l.chunks = []
  · exact ⟨0, by rw [hne]; intro k v hv; simp at hv⟩
  · obtain ⟨base, hp, _⟩ := key n hne
    exact ⟨base, Prog_prefix hp⟩


/-! ### the state invariant -/

def ldsOf (ls : List Loader) : List (Sig × List LChunk) := ls.map (fun l => (sig l, l.chunks))
def bksOf (bs : List Bucket) : List (Nat × List Nat) := bs.map (fun b => (b.key, b.cids))

structure PInv (s : St) : Prop where
  ci : CInv s.cfg (s.loaders.map sig) (ldsOf s.loaders) (bksOf s.buckets) s.chunks
  pl : ∀ l ∈ s.loaders, OkData s.cfg l.key l.timeStart l.data
  pg : ∀ l ∈ s.loaders, ∃ base, Prog s.cfg.K base l.chunks
  nd : (s.loaders.map (·.id)).Nodup

theorem CInv_bks {cfg : Cfg} {sigs : List Sig} {lds : List (Sig × List LChunk)} {bks bks' : List (Nat × List Nat)}
    {cs : List Chunk} (h : CInv cfg sigs lds bks cs)
    (hb : ∀ b' ∈ bks', ∃ b ∈ bks, b.1 = b'.1 ∧ ∀ cid ∈ b'.2, cid ∈ b.2) : CInv cfg sigs lds bks' cs := by
  refine ⟨h.pc, h.lc, h.aw, ?_⟩
  intro b' hb' cid hc
  obtain ⟨b, hbm, e, sub⟩ := hb b' hb'
  rw [← e]; exact h.bk b hbm cid (sub cid hc)

theorem removeUnusedGo_sub (t : Int) (skip run : Nat) (cids : List Nat) (cs : List Chunk) :
    ∀ x ∈ (removeUnusedGo t skip run cids cs).1, x ∈ cids := by
  induction cids generalizing skip run cs with
  | nil => simp [removeUnusedGo]
  | cons i is ih =>
    cases skip with
    | succ k =>
      simp only [removeUnusedGo, List.mem_cons]
      intro x hx
      rcases hx with hx | hx
      · exact Or.inl hx
      · exact Or.inr (ih _ _ _ x hx)
    | zero =>
      simp only [removeUnusedGo]
      split
      · intro x hx; exact List.mem_cons_of_mem _ (ih _ _ _ x hx)
      · simp only [List.mem_cons]
        intro x hx
        rcases hx with hx | hx
        · exact Or.inl hx
        · exact Or.inr (ih _ _ _ x hx)

theorem removeUnusedGo_CInv {cfg : Cfg} {sigs : List Sig} {lds : List (Sig × List LChunk)} {bks : List (Nat × List Nat)}
    (t : Int) (skip run : Nat) (cids : List Nat) (cs : List Chunk) (h : CInv cfg sigs lds bks cs) :
    CInv cfg sigs lds bks (removeUnusedGo t skip run cids cs).2.1 := by
  induction cids generalizing skip run cs with
  | nil => simpa [removeUnusedGo] using h
  | cons i is ih =>
    cases skip with
    | succ k => simpa [removeUnusedGo] using ih k 0 cs h
    | zero =>
      simp only [removeUnusedGo]
      split
      · exact ih _ _ _ (CInv_modAt _ _ (keepsAt_detach _) h)
      · exact ih _ _ _ h

theorem findBucket_some (key : Nat) (bs : List Bucket) (b : Bucket) (h : findBucket key bs = some b) :
    b ∈ bs ∧ b.key = key := by
  induction bs with
  | nil => simp [findBucket] at h
  | cons x xs ih =>
    simp only [findBucket] at h
    split at h
    · rename_i he; cases h; exact ⟨List.mem_cons_self .., by simpa using he⟩
    · exact ⟨List.mem_cons_of_mem _ (ih h).1, (ih h).2⟩

theorem mem_putBucket (b : Bucket) (bs : List Bucket) (x : Bucket) (h : x ∈ putBucket b bs) : x = b ∨ x ∈ bs := by
  induction bs with
  | nil => simp [putBucket] at h; exact Or.inl h
  | cons y ys ih =>
    simp only [putBucket] at h
    split at h
    · simp only [List.mem_cons] at h ⊢
      rcases h with h | h
      · exact Or.inl h
      · exact Or.inr (Or.inr h)
    · simp only [List.mem_cons] at h ⊢
      rcases h with h | h
      · exact Or.inr (Or.inl h)
      · rcases ih h with h | h
        · exact Or.inl h
        · exact Or.inr (Or.inr h)

theorem trimChunks_P (s : St) (key : Nat) (t : Int) (h : PInv s) : PInv (trimChunks s key t) := by
  unfold trimChunks
  split
  · exact h
  · rename_i b hb
    obtain ⟨hbm, _⟩ := findBucket_some _ _ _ hb
    refine ⟨?_, h.pl, h.pg, h.nd⟩
    apply CInv_bks (removeUnusedGo_CInv _ _ _ _ _ h.ci)
    intro b' hb'
    simp only [bksOf, List.mem_map] at hb'
    obtain ⟨x, hx, rfl⟩ := hb'
    rcases mem_putBucket _ _ _ hx with rfl | hx
    · exact ⟨(b.key, b.cids), by simp only [bksOf, List.mem_map]; exact ⟨b, hbm, rfl⟩, rfl,
        fun cid hc => removeUnusedGo_sub _ _ _ _ _ cid hc⟩
    · exact ⟨(x.key, x.cids), by simp only [bksOf, List.mem_map]; exact ⟨x, hx, rfl⟩, rfl, fun _ hc => hc⟩

theorem removeBucket_P (s : St) (key : Nat) (h : PInv s) : PInv (removeBucket s key) := by
  unfold removeBucket
  split
  · exact h
  · refine ⟨?_, h.pl, h.pg, h.nd⟩
    apply CInv_bks (removeUnusedGo_CInv _ _ _ _ _ h.ci)
    intro b' hb'
    simp only [bksOf, List.mem_map, List.mem_filter] at hb'
    obtain ⟨x, ⟨hx, _⟩, rfl⟩ := hb'
    exact ⟨(x.key, x.cids), by simp only [bksOf, List.mem_map]; exact ⟨x, hx, rfl⟩, rfl, fun _ hc => hc⟩

theorem resetAll_P (s : St) (h : PInv s) : PInv (resetAll s) := by
  have key : ∀ (ks : List Nat) (s : St), PInv s → PInv (ks.foldl removeBucket s) := by
    intro ks
    induction ks with
    | nil => intro s h; exact h
    | cons k ks ih => intro s h; exact ih _ (removeBucket_P s k h)
  exact key _ s h

theorem reduce_P (t : Int) (fuel : Nat) (s : St) (h : PInv s) : PInv (reduce t fuel s) := by
  induction fuel generalizing s with
  | zero => exact h
  | succ n ih =>
    simp only [reduce]
    split
    · exact h
    · split
      · exact removeBucket_P _ _ h
      · exact ih _ (removeBucket_P _ _ h)

theorem trimPass_P (t : Int) (s : St) (h : PInv s) : PInv (trimPass t s) := by
  unfold trimPass; split
  · exact reduce_P _ _ _ h
  · exact h

theorem afterUpdate_P (t : Int) (s : St) (h : PInv s) : PInv (afterUpdate t s) := by
  unfold afterUpdate; split
  · exact trimPass_P _ _ h
  · exact h


theorem AwOK_extend {cfg : Cfg} {sigs0 : List Sig} {n : Sig} {c : Chunk} {a : Awaiter}
    (fresh : ∀ g ∈ sigs0, g.id ≠ n.id) (h : AwOK cfg sigs0 c a) : AwOK cfg (sigs0 ++ [n]) c a := by
  obtain ⟨⟨g0, hg0, e0⟩, h2⟩ := h
  refine ⟨⟨g0, by simp [hg0], e0⟩, ?_⟩
  intro g hg he
  simp only [List.mem_append, List.mem_singleton] at hg
  rcases hg with hg | rfl
  · exact h2 g hg he
  · exact absurd (e0.trans he.symm) (fresh g0 hg0)

theorem sig_runLoader (l : Loader) : sig (runLoader l) = sig l ∧ (runLoader l).chunks = l.chunks ∧ (runLoader l).data = l.data := by
  unfold runLoader
  simp only []
  split <;> split <;> exact ⟨rfl, rfl, rfl⟩

/-- the new loader `l'` (signature `g`, chunks `own`) joins the loaders -/
theorem PInv_get (s : St) (cs' : List Chunk) (l' : Loader) (bs' : List Bucket) (info' : Info) (bad' : Bool)
    (h : PInv s) (hid : ∀ l ∈ s.loaders, l.id ≠ l'.id)
    (hci : CInv s.cfg (s.loaders.map sig ++ [sig l']) (ldsOf s.loaders) (bksOf bs') cs')
    (hown : ∀ v ∈ l'.chunks, LcOK s.cfg cs' l'.timeStart l'.key v)
    (hpl : OkData s.cfg l'.key l'.timeStart l'.data) (hpg : ∃ base, Prog s.cfg.K base l'.chunks) :
    PInv { s with chunks := cs', buckets := bs', loaders := s.loaders ++ [l'], info := info', bad := bad' } := by
  refine ⟨?_, ?_, ?_, ?_⟩
  · simp only [List.map_append, List.map_cons, List.map_nil, ldsOf]
    refine ⟨hci.pc, ?_, hci.aw, hci.bk⟩
    intro g hg v hv
    simp only [List.mem_append, List.mem_singleton] at hg
    rcases hg with hg | rfl
    · exact hci.lc g hg v hv
    · exact hown v hv
  · intro l hl
    simp only [List.mem_append, List.mem_singleton] at hl
    rcases hl with hl | rfl
    · exact h.pl l hl
    · exact hpl
  · intro l hl
    simp only [List.mem_append, List.mem_singleton] at hl
    rcases hl with hl | rfl
    · exact h.pg l hl
    · exact hpg
  · simp only [List.map_append, List.map_cons, List.map_nil]
    rw [List.nodup_append]
    refine ⟨h.nd, by simp, ?_⟩
    intro a ha b hb
    simp only [List.mem_map] at ha
    obtain ⟨l, hl, rfl⟩ := ha
    simp only [List.mem_singleton] at hb
    subst hb
    exact hid l hl

/-- the body of `opGet` for a valid non-empty range, with the fresh loader `l0` and the chunk count `n` abstracted -/
def getCore (s : St) (key : Nat) (play now : Int) (l0 : Loader) (n : Nat) : St × GetOut :=
  let (b, isNew) := match findBucket key s.buckets with
    | some b => (b, false)
    | none => ({ key := key, cids := [], lastAccess := 0, play := play }, true)
  let r := initLoader s.cfg now s.chunks b.cids l0 n
  let b' : Bucket := { b with cids := r.cids, lastAccess := now, play := play }
  let l' := runLoader r.l
  let info : Info := { s.info with buckets := s.info.buckets + (if isNew then 1 else 0),
                                   chunkLen := s.info.chunkLen + r.fresh * s.cfg.K, chunks := s.info.chunks + r.fresh }
  let s' := { s with chunks := r.chunks, buckets := if isNew then s.buckets ++ [b'] else putBucket b' s.buckets,
                     loaders := s.loaders ++ [l'], info := info, bad := s.bad || r.bad }
  (afterUpdate now s', .started l')

def mkLoader0 (s : St) (id key : Nat) (play : Int) (force : Bool) (f t now : Int) : Loader :=
  { id := id, key := key, play := play, force := force, timeStart := chunkStartOf s.cfg (f * nsec),
    data := List.replicate (chunkCount s.cfg (chunkStartOf s.cfg (f * nsec)) (t * nsec) * s.cfg.K) none,
    ls := ((f * nsec - chunkStartOf s.cfg (f * nsec)) / (s.cfg.step * nsec)).toNat,
    le := ((f * nsec - chunkStartOf s.cfg (f * nsec)) / (s.cfg.step * nsec)).toNat + ((t - f) / s.cfg.step).toNat,
    chunks := [], waitN := 0, gotErr := false, loadPending := false, finished := false, began := now,
    stale := staleOf play }

theorem opGet_eq (s : St) (id key : Nat) (play : Int) (force : Bool) (f t now : Int) :
    opGet s id key play force f t now =
      if (t - f) % s.cfg.step != 0 then (s, .bad)
      else if (t - f) / s.cfg.step == 0 then (s, .empty)
      else getCore s key play now (mkLoader0 s id key play force f t now)
        (chunkCount s.cfg (chunkStartOf s.cfg (f * nsec)) (t * nsec)) := rfl

/-- `getCore` before the trim goroutine reacts -/
def getPre (s : St) (key : Nat) (play now : Int) (l0 : Loader) (n : Nat) : St :=
  let (b, isNew) := match findBucket key s.buckets with
    | some b => (b, false)
    | none => ({ key := key, cids := [], lastAccess := 0, play := play }, true)
  let r := initLoader s.cfg now s.chunks b.cids l0 n
  let b' : Bucket := { b with cids := r.cids, lastAccess := now, play := play }
  let l' := runLoader r.l
  let info : Info := { s.info with buckets := s.info.buckets + (if isNew then 1 else 0),
                                   chunkLen := s.info.chunkLen + r.fresh * s.cfg.K, chunks := s.info.chunks + r.fresh }
  { s with chunks := r.chunks, buckets := if isNew then s.buckets ++ [b'] else putBucket b' s.buckets,
           loaders := s.loaders ++ [l'], info := info, bad := s.bad || r.bad }

theorem getCore_fst (s : St) (key : Nat) (play now : Int) (l0 : Loader) (n : Nat) :
    (getCore s key play now l0 n).1 = afterUpdate now (getPre s key play now l0 n) := by
  unfold getCore getPre
  cases findBucket key s.buckets <;> rfl

theorem getPre_P (s : St) (key : Nat) (play now : Int) (l0 : Loader) (n : Nat) (wf : WF s.cfg)
    (fresh : ∀ l ∈ s.loaders, l.id ≠ l0.id) (e2 : l0.key = key) (e3 : l0.chunks = [])
    (e4 : OkData s.cfg l0.key l0.timeStart l0.data) (h : PInv s) : PInv (getPre s key play now l0 n) := by
  have hfresh : ∀ g' ∈ s.loaders.map sig, g'.id ≠ l0.id := by
    intro g' hg'
    simp only [List.mem_map] at hg'
    obtain ⟨l, hl, rfl⟩ := hg'
    exact fresh l hl
  have hci0 : CInv s.cfg (s.loaders.map sig ++ [sig l0]) (ldsOf s.loaders) (bksOf s.buckets) s.chunks :=
    ⟨h.ci.pc, h.ci.lc, fun cid a ha => AwOK_extend (fun g hg => hfresh g hg) (h.ci.aw cid a ha), h.ci.bk⟩
  unfold getPre
  cases hfb : findBucket key s.buckets with
  | none =>
    simp only []
    obtain ⟨a, b, c⟩ := initLoader_P (sigs0 := s.loaders.map sig) (lds := ldsOf s.loaders) (bks := bksOf s.buckets)
      wf now s.chunks [] l0 n hfresh hci0 e4 e3 (by intro x hx; cases hx)
    obtain ⟨r1, r2, r3⟩ := sig_runLoader (initLoader s.cfg now s.chunks [] l0 n).l
    have hsg : sig (initLoader s.cfg now s.chunks [] l0 n).l = sig l0 := a.sg
    have q1 : (runLoader (initLoader s.cfg now s.chunks [] l0 n).l).id = l0.id := congrArg Sig.id (r1.trans hsg)
    have q2 : (runLoader (initLoader s.cfg now s.chunks [] l0 n).l).timeStart = l0.timeStart := congrArg Sig.ts (r1.trans hsg)
    have q3 : (runLoader (initLoader s.cfg now s.chunks [] l0 n).l).key = l0.key := congrArg Sig.key (r1.trans hsg)
    apply PInv_get s _ _ _ _ _ h
    · intro l hl; rw [q1]; exact fresh l hl
    · rw [r1, hsg]
      refine ⟨a.ci.pc, a.ci.lc, a.ci.aw, ?_⟩
      intro b' hb'
      simp only [bksOf, if_true, List.map_append, List.map_cons, List.map_nil, List.mem_append, List.mem_singleton] at hb'
      rcases hb' with hb' | rfl
      · exact a.ci.bk b' hb'
      · intro cid hc
        have := b cid hc
        exact ⟨this.1, by rw [this.2]; exact e2⟩
    · rw [r2, q2, q3]; exact a.own
    · rw [r3, q2, q3]; exact a.pl
    · rw [r2]; exact initLoader_Prog _ _ _ _ _ _ e3
  | some bk =>
    simp only []
    obtain ⟨hbm, hbk⟩ := findBucket_some _ _ _ hfb
    have hc0 : CidsOK (sig l0) s.chunks bk.cids := by
      intro cid hc
      have := h.ci.bk (bk.key, bk.cids) (by simp only [bksOf, List.mem_map]; exact ⟨bk, hbm, rfl⟩) cid hc
      exact ⟨this.1, by rw [this.2, hbk]; exact e2.symm⟩
    obtain ⟨a, b, c⟩ := initLoader_P (sigs0 := s.loaders.map sig) (lds := ldsOf s.loaders) (bks := bksOf s.buckets)
      wf now s.chunks bk.cids l0 n hfresh hci0 e4 e3 hc0
    obtain ⟨r1, r2, r3⟩ := sig_runLoader (initLoader s.cfg now s.chunks bk.cids l0 n).l
    have hsg : sig (initLoader s.cfg now s.chunks bk.cids l0 n).l = sig l0 := a.sg
    have q1 : (runLoader (initLoader s.cfg now s.chunks bk.cids l0 n).l).id = l0.id := congrArg Sig.id (r1.trans hsg)
    have q2 : (runLoader (initLoader s.cfg now s.chunks bk.cids l0 n).l).timeStart = l0.timeStart := congrArg Sig.ts (r1.trans hsg)
    have q3 : (runLoader (initLoader s.cfg now s.chunks bk.cids l0 n).l).key = l0.key := congrArg Sig.key (r1.trans hsg)
    apply PInv_get s _ _ _ _ _ h
    · intro l hl; rw [q1]; exact fresh l hl
    · rw [r1, hsg]
      refine ⟨a.ci.pc, a.ci.lc, a.ci.aw, ?_⟩
      intro b' hb'
      simp only [bksOf, Bool.false_eq_true, if_false, List.mem_map] at hb'
      obtain ⟨x, hx, rfl⟩ := hb'
      rcases mem_putBucket _ _ _ hx with rfl | hx
      · intro cid hc
        have := b cid hc
        exact ⟨this.1, by rw [this.2]; simp only []; rw [hbk]; exact e2⟩
      · exact a.ci.bk (x.key, x.cids) (by simp only [bksOf, List.mem_map]; exact ⟨x, hx, rfl⟩)
    · rw [r2, q2, q3]; exact a.own
    · rw [r3, q2, q3]; exact a.pl
    · rw [r2]; exact initLoader_Prog _ _ _ _ _ _ e3

theorem getCore_P (s : St) (key : Nat) (play now : Int) (l0 : Loader) (n : Nat) (wf : WF s.cfg)
    (fresh : ∀ l ∈ s.loaders, l.id ≠ l0.id) (e2 : l0.key = key) (e3 : l0.chunks = [])
    (e4 : OkData s.cfg l0.key l0.timeStart l0.data) (h : PInv s) : PInv (getCore s key play now l0 n).1 := by
  rw [getCore_fst]
  exact afterUpdate_P _ _ (getPre_P s key play now l0 n wf fresh e2 e3 e4 h)

theorem opGet_P (s : St) (id key : Nat) (play : Int) (force : Bool) (f t now : Int) (wf : WF s.cfg)
    (fresh : ∀ l ∈ s.loaders, l.id ≠ id) (h : PInv s) : PInv (opGet s id key play force f t now).1 := by
  rw [opGet_eq]
  split
  · exact h
  · split
    · exact h
    · exact getCore_P s key play now _ _ wf fresh rfl rfl (OkData_replicate _ _ _ _) h


/-! ### a load finishes -/

theorem keepsAt_clear {cfg : Cfg} {sigs : List Sig} (f : Chunk → Chunk) (c : Chunk)
    (h1 : (f c).start = c.start) (h2 : (f c).key = c.key) (h3 : (f c).awaiters = [])
    (h4 : PC cfg c → PC cfg (f c)) : KeepsAt cfg sigs f c :=
  ⟨h1, h2, (fun a ha => by rw [h3] at ha; cases ha), h4⟩

theorem keepsAt_publish {cfg : Cfg} {sigs : List Sig} (ok : Bool) (cd : List Slot) (bytes : Int) (c : Chunk)
    (h : ok = true → OkData cfg c.key c.start cd) : KeepsAt cfg sigs (publish ok cd bytes) c := by
  cases hd : c.detached with
  | true =>
    apply keepsAt_clear <;> simp only [publish, hd, if_true]
    intro hp d hd'; exact hp d hd'
  | false =>
    cases ok with
    | true =>
      apply keepsAt_clear <;> simp only [publish, hd, Bool.false_eq_true, if_false, if_true]
      intro _ d hd'
      simp only [Option.some.injEq] at hd'
      subst hd'
      exact h rfl
    | false =>
      apply keepsAt_clear <;> simp only [publish, hd, Bool.false_eq_true, if_false]
      intro hp d hd'; exact hp d hd'

theorem deliver_facts (ok : Bool) (cd : List Slot) (a : Awaiter) (x : Loader) :
    sig (deliver ok cd a x) = sig x ∧ (deliver ok cd a x).chunks = x.chunks ∧
    ((deliver ok cd a x).data = x.data ∨
      (ok = true ∧ x.id = a.req ∧ (deliver ok cd a x).data = setRange x.data a.ls (slice cd a.off (a.off + (a.le - a.ls))))) := by
  by_cases hid : x.id = a.req
  · have hb : (x.id != a.req) = false := by simp [hid]
    cases ok
    · refine ⟨?_, ?_, Or.inl ?_⟩ <;>
        simp only [deliver, hb, Bool.false_eq_true, if_false] <;> split <;> rfl
    · refine ⟨?_, ?_, Or.inr ⟨rfl, hid, ?_⟩⟩ <;>
        simp only [deliver, hb, Bool.false_eq_true, if_false, if_true] <;> split <;> rfl
  · have hne : (x.id != a.req) = true := by simpa using hid
    refine ⟨?_, ?_, Or.inl ?_⟩ <;> simp only [deliver, hne, if_true]

theorem deliver_ok {cfg : Cfg} (ok : Bool) (cd : List Slot) (a : Awaiter) (x : Loader) (c : Chunk)
    (hx : OkData cfg x.key x.timeStart x.data)
    (haw : x.id = a.req → c.start + (a.off : Int) * cfg.step * nsec = x.timeStart + (a.ls : Int) * cfg.step * nsec ∧ c.key = x.key)
    (hcd : ok = true → OkData cfg c.key c.start cd) :
    OkData cfg (deliver ok cd a x).key (deliver ok cd a x).timeStart (deliver ok cd a x).data := by
  obtain ⟨e1, _, e3⟩ := deliver_facts ok cd a x
  have k1 : (deliver ok cd a x).key = x.key := congrArg Sig.key e1
  have k2 : (deliver ok cd a x).timeStart = x.timeStart := congrArg Sig.ts e1
  rw [k1, k2]
  rcases e3 with e | ⟨hok, hid, e⟩
  · rw [e]; exact hx
  · rw [e]
    obtain ⟨al, ak⟩ := haw hid
    apply OkData_setRange hx
    intro k y hy
    obtain ⟨_, hy2⟩ := getElem?_slice_some _ _ _ _ _ hy
    have := hcd hok _ y hy2
    rw [ak] at this
    have e' : stime cfg c.start (a.off + k) = stime cfg x.timeStart (a.ls + k) := by
      rw [← stime_shift, ← stime_shift, al]
    rwa [e'] at this

theorem findLoader_some (id : Nat) (ls : List Loader) (l : Loader) (h : findLoader id ls = some l) : l ∈ ls ∧ l.id = id := by
  induction ls with
  | nil => simp [findLoader] at h
  | cons x xs ih =>
    simp only [findLoader] at h
    split at h
    · rename_i he; cases h; exact ⟨List.mem_cons_self .., by simpa using he⟩
    · exact ⟨List.mem_cons_of_mem _ (ih h).1, (ih h).2⟩

theorem nodup_id_eq (ls : List Loader) (h : (ls.map (·.id)).Nodup) (x y : Loader) (hx : x ∈ ls) (hy : y ∈ ls)
    (e : x.id = y.id) : x = y := by
  induction ls with
  | nil => cases hx
  | cons z zs ih =>
    simp only [List.map_cons, List.nodup_cons, List.mem_map, not_exists, not_and] at h
    simp only [List.mem_cons] at hx hy
    rcases hx with rfl | hx <;> rcases hy with rfl | hy
    · rfl
    · exact absurd e.symm (h.1 y hy)
    · exact absurd e (h.1 x hx)
    · exact ih h.2 hx hy

/-- invariant of the post-load loop of `loadChunks` -/
structure FInv (cfg : Cfg) (sigs : List Sig) (lds : List (Sig × List LChunk)) (bks : List (Nat × List Nat)) (fs : FinSt) : Prop where
  ci : CInv cfg sigs lds bks fs.chunks
  sg : fs.loaders.map sig = sigs
  ld : ldsOf fs.loaders = lds
  pl : ∀ x ∈ fs.loaders, OkData cfg x.key x.timeStart x.data

theorem foldl_deliver_F {cfg : Cfg} {sigs : List Sig} (ok : Bool) (cd : List Slot) (c : Chunk)
    (hcd : ok = true → OkData cfg c.key c.start cd) (as : List Awaiter) (ls : List Loader)
    (hsg : ls.map sig = sigs) (haw : ∀ a ∈ as, AwOK cfg sigs c a) (hpl : ∀ x ∈ ls, OkData cfg x.key x.timeStart x.data) :
    (as.foldl (fun ls a => ls.map (deliver ok cd a)) ls).map sig = sigs ∧
    ldsOf (as.foldl (fun ls a => ls.map (deliver ok cd a)) ls) = ldsOf ls ∧
    ∀ x ∈ as.foldl (fun ls a => ls.map (deliver ok cd a)) ls, OkData cfg x.key x.timeStart x.data := by
  induction as generalizing ls with
  | nil => exact ⟨hsg, rfl, hpl⟩
  | cons a as ih =>
    simp only [List.foldl_cons]
    have h1 : (ls.map (deliver ok cd a)).map sig = sigs := by
      rw [← hsg, List.map_map]
      apply List.map_congr_left
      intro x _
      exact (deliver_facts ok cd a x).1
    have h2 : ldsOf (ls.map (deliver ok cd a)) = ldsOf ls := by
      simp only [ldsOf, List.map_map]
      apply List.map_congr_left
      intro x _
      simp only [Function.comp, (deliver_facts ok cd a x).1, (deliver_facts ok cd a x).2.1]
    have h3 : ∀ x ∈ ls.map (deliver ok cd a), OkData cfg x.key x.timeStart x.data := by
      intro y hy
      simp only [List.mem_map] at hy
      obtain ⟨x, hx, rfl⟩ := hy
      apply deliver_ok ok cd a x c (hpl x hx) _ hcd
      intro hid
      exact (haw a (List.mem_cons_self ..)).2 (sig x) (by rw [← hsg]; exact List.mem_map_of_mem hx) hid
    obtain ⟨a1, a2, a3⟩ := ih _ h1 (fun b hb => haw b (List.mem_cons_of_mem _ hb)) h3
    exact ⟨a1, a2.trans h2, a3⟩


theorem finChunk_F {cfg : Cfg} {sigs : List Sig} {lds : List (Sig × List LChunk)} {bks : List (Nat × List Nat)}
    (ok : Bool) (data cells : List Slot) (base : Nat) (lts : Int) (lkey : Nat) (fs : FinSt) (v : LChunk)
    (h : FInv cfg sigs lds bks fs) (hv : LcOK cfg fs.chunks lts lkey v) (hs : fs.start = v.pos) (hb : base ≤ v.pos)
    (hcells : ∀ i x, cells[i]? = some x → OkSlot lkey (stime cfg lts (base + i)) x) :
    FInv cfg sigs lds bks (finChunk cfg ok data cells base fs v) ∧ (finChunk cfg ok data cells base fs v).start = v.pos + cfg.K := by
  obtain ⟨_, hst, hkey⟩ := hv
  have hcd : ok = true → OkData cfg (getChunk fs.chunks v.cid).key (getChunk fs.chunks v.cid).start
      (if ok = true then slice cells (fs.start - base) (fs.start + cfg.K - base) else slice data fs.start (fs.start + cfg.K)) := by
    intro hok j x hx
    simp only [hok, if_true] at hx
    obtain ⟨_, hx2⟩ := getElem?_slice_some _ _ _ _ _ hx
    have := hcells _ x hx2
    rw [hst, hkey, stime_shift]
    have e : base + (fs.start - base + j) = v.pos + j := by omega
    rwa [e] at this
  obtain ⟨a1, a2, a3⟩ := foldl_deliver_F ok _ (getChunk fs.chunks v.cid) hcd (getChunk fs.chunks v.cid).awaiters fs.loaders
    h.sg (h.ci.aw v.cid) h.pl
  refine ⟨⟨?_, ?_, ?_, ?_⟩, ?_⟩
  · simp only [finChunk]
    exact CInv_modAt _ _ (keepsAt_publish ok _ _ _ hcd) h.ci
  · simp only [finChunk]; exact a1
  · simp only [finChunk]; rw [a2]; exact h.ld
  · simp only [finChunk]; exact a3
  · simp only [finChunk]; omega

theorem foldl_finChunk_F {cfg : Cfg} {sigs : List Sig} {lds : List (Sig × List LChunk)} {bks : List (Nat × List Nat)}
    (ok : Bool) (data cells : List Slot) (base : Nat) (lts : Int) (lkey : Nat) (lch : List LChunk)
    (hl : ∃ g ∈ lds, g.1.ts = lts ∧ g.1.key = lkey ∧ g.2 = lch)
    (hcells : ∀ i x, cells[i]? = some x → OkSlot lkey (stime cfg lts (base + i)) x)
    (vs : List LChunk) (fs : FinSt) (h : FInv cfg sigs lds bks fs) (hsub : ∀ v ∈ vs, v ∈ lch)
    (hp : Prog cfg.K fs.start vs) (hb : base ≤ fs.start) :
    FInv cfg sigs lds bks (vs.foldl (finChunk cfg ok data cells base) fs) := by
  induction vs generalizing fs with
  | nil => exact h
  | cons v vs ih =>
    obtain ⟨hv0, hpt⟩ := Prog_tail hp
    obtain ⟨g, hg, e1, e2, e3⟩ := hl
    have hlc : LcOK cfg fs.chunks lts lkey v := by
      have := h.ci.lc g hg v (by rw [e3]; exact hsub v (List.mem_cons_self ..))
      rwa [e1, e2] at this
    obtain ⟨a, b⟩ := finChunk_F ok data cells base lts lkey fs v h hlc hv0.symm (by omega) hcells
    simp only [List.foldl_cons]
    apply ih _ a (fun w hw => hsub w (List.mem_cons_of_mem _ hw))
    · rw [b, hv0]; exact hpt
    · rw [b]; omega


theorem ownMessage_facts (ok : Bool) (data : List Slot) (x : Loader) :
    sig (ownMessage ok data x) = sig x ∧ (ownMessage ok data x).chunks = x.chunks ∧ (ownMessage ok data x).data = data := by
  simp only [ownMessage]
  split <;> exact ⟨rfl, rfl, rfl⟩

theorem ids_of_sigs (ls : List Loader) : ls.map (·.id) = (ls.map sig).map (·.id) := by
  simp [List.map_map, Function.comp, sig]

theorem finFold_P (s : St) (l : Loader) (first : LChunk) (rest : List LChunk) (ok : Bool) (cells data : List Slot)
    (ls1 : List Loader) (info' : Info) (hl : l ∈ s.loaders) (hch : l.chunks = first :: rest) (h : PInv s)
    (hcells : ∀ i x, cells[i]? = some x → OkSlot l.key (stime s.cfg l.timeStart (first.pos + i)) x)
    (hF : FInv s.cfg (s.loaders.map sig) (ldsOf s.loaders) (bksOf s.buckets)
      { chunks := s.chunks, loaders := ls1, dsize := 0, start := first.pos }) :
    PInv { s with
      chunks := (l.chunks.foldl (finChunk s.cfg ok data cells first.pos) { chunks := s.chunks, loaders := ls1, dsize := 0, start := first.pos }).chunks
      loaders := (l.chunks.foldl (finChunk s.cfg ok data cells first.pos) { chunks := s.chunks, loaders := ls1, dsize := 0, start := first.pos }).loaders
      info := info' } := by
  have hlds : (sig l, l.chunks) ∈ ldsOf s.loaders := by simp only [ldsOf, List.mem_map]; exact ⟨l, hl, rfl⟩
  obtain ⟨base', hprog⟩ := h.pg l hl
  rw [hch] at hprog
  obtain ⟨hb0, _⟩ := Prog_tail hprog
  have hres := foldl_finChunk_F (cfg := s.cfg) ok data cells first.pos l.timeStart l.key l.chunks
    ⟨(sig l, l.chunks), hlds, rfl, rfl, rfl⟩ hcells l.chunks _ hF (fun v hv => hv)
    (by simp only []; rw [hch, hb0]; exact hprog) (Nat.le_refl _)
  refine ⟨?_, ?_, ?_, ?_⟩
  · have := hres.ci
    rw [← hres.sg, ← hres.ld] at this
    exact this
  · exact hres.pl
  · intro x hx
    have : (sig x, x.chunks) ∈ ldsOf s.loaders := by
      rw [← hres.ld]; simp only [ldsOf, List.mem_map]; exact ⟨x, hx, rfl⟩
    simp only [ldsOf, List.mem_map] at this
    obtain ⟨y, hy, e⟩ := this
    obtain ⟨b, hb⟩ := h.pg y hy
    have : y.chunks = x.chunks := congrArg Prod.snd e
    exact ⟨b, this ▸ hb⟩
  · show ((l.chunks.foldl (finChunk s.cfg ok data cells first.pos) _).loaders.map (·.id)).Nodup
    rw [ids_of_sigs, hres.sg, ← ids_of_sigs]; exact h.nd

/-- `finApply` before the trim goroutine reacts -/
def finPre (s : St) (l : Loader) (first : LChunk) (ok : Bool) (ver : Nat) : St :=
  let n := l.chunks.length * s.cfg.K
  let fromSec := (getChunk s.chunks first.cid).start / nsec
  let cells := stubCells s.cfg l.key ver l.id s.tick fromSec n
  let data := if ok then setRange l.data first.pos cells else l.data
  let loaders1 := s.loaders.map (fun x => if x.id == l.id then ownMessage ok data x else x)
  let r := l.chunks.foldl (finChunk s.cfg ok data cells first.pos) { chunks := s.chunks, loaders := loaders1, dsize := 0, start := first.pos }
  { s with chunks := r.chunks, loaders := r.loaders, info := { s.info with size := s.info.size + r.dsize } }

theorem finApply_eq (s : St) (l : Loader) (first : LChunk) (ok : Bool) (ver : Nat) (now : Int) :
    finApply s l first ok ver now = afterUpdate now (finPre s l first ok ver) := rfl

theorem finPre_P (s : St) (l : Loader) (first : LChunk) (rest : List LChunk) (ok : Bool) (ver : Nat)
    (hl : l ∈ s.loaders) (hch : l.chunks = first :: rest) (h : PInv s) : PInv (finPre s l first ok ver) := by
  unfold finPre
  simp only []
  have hlds : (sig l, l.chunks) ∈ ldsOf s.loaders := by simp only [ldsOf, List.mem_map]; exact ⟨l, hl, rfl⟩
  obtain ⟨_, hfst, _⟩ := h.ci.lc _ hlds first (by rw [hch]; exact List.mem_cons_self ..)
  simp only [sig] at hfst
  have hcells : ∀ i x, (stubCells s.cfg l.key ver l.id s.tick ((getChunk s.chunks first.cid).start / nsec) (l.chunks.length * s.cfg.K))[i]? = some x →
      OkSlot l.key (stime s.cfg l.timeStart (first.pos + i)) x := by
    intro i x hx
    have := stub_ok _ _ _ _ _ _ _ _ _ hx
    rw [← stime_shift, ← hfst]
    exact this
  have hdata : OkData s.cfg l.key l.timeStart
      (if ok = true then setRange l.data first.pos (stubCells s.cfg l.key ver l.id s.tick ((getChunk s.chunks first.cid).start / nsec) (l.chunks.length * s.cfg.K)) else l.data) := by
    split
    · exact OkData_setRange (h.pl l hl) hcells
    · exact h.pl l hl
  apply finFold_P s l first rest ok _ _ _ _ hl hch h hcells
  refine ⟨h.ci, ?_, ?_, ?_⟩
  · simp only [List.map_map]
    apply List.map_congr_left
    intro x _
    simp only [Function.comp]
    split
    · exact (ownMessage_facts _ _ x).1
    · rfl
  · simp only [ldsOf, List.map_map]
    apply List.map_congr_left
    intro x _
    simp only [Function.comp]
    split
    · rw [(ownMessage_facts _ _ x).1, (ownMessage_facts _ _ x).2.1]
    · rfl
  · intro y hy
    simp only [List.mem_map] at hy
    obtain ⟨x, hx, rfl⟩ := hy
    split
    · rename_i he
      have hxl : x = l := nodup_id_eq _ h.nd x l hx hl (by simpa using he)
      obtain ⟨e1, _, e3⟩ := ownMessage_facts ok
        (if ok = true then setRange l.data first.pos (stubCells s.cfg l.key ver l.id s.tick ((getChunk s.chunks first.cid).start / nsec) (l.chunks.length * s.cfg.K)) else l.data) x
      rw [show (ownMessage _ _ x).key = x.key from congrArg Sig.key e1, show (ownMessage _ _ x).timeStart = x.timeStart from congrArg Sig.ts e1, e3, hxl]
      exact hdata
    · exact h.pl x hx


theorem finApply_P (s : St) (l : Loader) (first : LChunk) (rest : List LChunk) (ok : Bool) (ver : Nat) (now : Int)
    (hl : l ∈ s.loaders) (hch : l.chunks = first :: rest) (h : PInv s) : PInv (finApply s l first ok ver now) := by
  rw [finApply_eq]
  exact afterUpdate_P _ _ (finPre_P s l first rest ok ver hl hch h)

/-! ### the remaining operations and the trace -/

theorem opFin_P (s s' : St) (id : Nat) (ok : Bool) (ver : Nat) (now : Int) (h : PInv s)
    (hs : opFin s id ok ver now = some s') : PInv s' := by
  unfold opFin at hs
  split at hs
  · cases hs
  · rename_i l hf
    split at hs
    · cases hs
    · split at hs
      · cases hs
      · rename_i first rest hch
        injection hs with hs
        subst hs
        exact finApply_P s l first rest ok ver now (findLoader_some _ _ _ hf).1 hch h

theorem invWalkF_CInv {cfg : Cfg} {sigs : List Sig} {lds : List (Sig × List LChunk)} {bks : List (Nat × List Nat)}
    (now : Int) (tick fuel : Nat) (ts : List Int) (is : List Nat) (cs : List Chunk) (h : CInv cfg sigs lds bks cs) :
    CInv cfg sigs lds bks (invWalkF now tick fuel ts is cs) := by
  induction fuel generalizing ts is cs with
  | zero => simpa [invWalkF] using h
  | succ n ih =>
    cases ts with
    | nil => simpa [invWalkF] using h
    | cons t ts =>
      cases is with
      | nil => simpa [invWalkF] using h
      | cons i is =>
        simp only [invWalkF]
        split
        · exact ih _ _ _ h
        · split
          · exact ih _ _ _ h
          · exact ih _ _ _ (CInv_modAt _ _ (keepsAt_invalidate now tick _) h)

theorem opInv_P (s : St) (secs : List Int) (now : Int) (h : PInv s) : PInv (opInv s secs now) := by
  have key : ∀ (bs : List Bucket) (cs : List Chunk) (times : List Int),
      CInv s.cfg (s.loaders.map sig) (ldsOf s.loaders) (bksOf s.buckets) cs →
      CInv s.cfg (s.loaders.map sig) (ldsOf s.loaders) (bksOf s.buckets) (bs.foldl (invBucket now s.tick times) cs) := by
    intro bs
    induction bs with
    | nil => intro cs times h; exact h
    | cons b bs ih =>
      intro cs times h
      simp only [List.foldl_cons]
      apply ih
      unfold invBucket
      split
      · exact h
      · exact invWalkF_CInv _ _ _ _ _ _ h
  exact ⟨key _ _ _ h.ci, h.pl, h.pg, h.nd⟩

theorem opLimits_P (s : St) (m so t : Int) (h : PInv s) : PInv (opLimits s m so t) := by
  unfold opLimits
  split
  · exact h
  · exact trimPass_P _ _ ⟨h.ci, h.pl, h.pg, h.nd⟩

theorem opShutdown_P (s : St) (now : Int) (h : PInv s) : PInv (opShutdown s now) :=
  reduce_P _ _ _ ⟨h.ci, h.pl, h.pg, h.nd⟩

def opFresh (s : St) : Op → Prop
  | .get id _ _ _ _ _ _ => ∀ l ∈ s.loaders, l.id ≠ id
  | _ => True

theorem apply_P (s : St) (op : Op) (wf : WF s.cfg) (hf : opFresh s op) (h : PInv s) : PInv (apply s op) := by
  cases op with
  | get id key play force f t now => exact opGet_P _ _ _ _ _ _ _ _ wf hf h
  | fin id ok ver now =>
    simp only [apply]
    cases hfin : opFin s id ok ver now with
    | none => exact h
    | some s' => exact opFin_P _ _ _ _ _ _ h hfin
  | inv secs now => exact opInv_P _ _ _ h
  | trimChunks key t now => exact afterUpdate_P _ _ (trimChunks_P _ _ _ h)
  | rmBucket key now => exact afterUpdate_P _ _ (removeBucket_P _ _ h)
  | reset now => exact afterUpdate_P _ _ (resetAll_P _ h)
  | limits m so now => exact opLimits_P _ _ _ _ h
  | shutdown now => exact opShutdown_P _ _ h


theorem removeBucket_cfg (s : St) (key : Nat) : (removeBucket s key).cfg = s.cfg := by
  unfold removeBucket; split <;> rfl

theorem trimChunks_cfg (s : St) (key : Nat) (t : Int) : (trimChunks s key t).cfg = s.cfg := by
  unfold trimChunks; split <;> rfl

theorem reduce_cfg (t : Int) (fuel : Nat) (s : St) : (reduce t fuel s).cfg = s.cfg := by
  induction fuel generalizing s with
  | zero => rfl
  | succ n ih =>
    simp only [reduce]
    split
    · rfl
    · split
      · exact removeBucket_cfg ..
      · rw [ih]; exact removeBucket_cfg ..

theorem trimPass_cfg (t : Int) (s : St) : (trimPass t s).cfg = s.cfg := by
  unfold trimPass; split
  · exact reduce_cfg ..
  · rfl

theorem afterUpdate_cfg (t : Int) (s : St) : (afterUpdate t s).cfg = s.cfg := by
  unfold afterUpdate; split
  · exact trimPass_cfg ..
  · rfl

theorem resetAll_cfg (s : St) : (resetAll s).cfg = s.cfg := by
  have key : ∀ (ks : List Nat) (s : St), (ks.foldl removeBucket s).cfg = s.cfg := by
    intro ks
    induction ks with
    | nil => intro s; rfl
    | cons k ks ih => intro s; simp only [List.foldl_cons, ih]; exact removeBucket_cfg ..
  exact key _ s

theorem apply_cfg (s : St) (op : Op) : (apply s op).cfg = s.cfg := by
  cases op with
  | get id key play force f t now =>
    simp only [apply, opGet_eq]
    split
    · rfl
    · split
      · rfl
      · unfold getCore
        cases findBucket key s.buckets <;> simp only [afterUpdate_cfg]
  | fin id ok ver now =>
    simp only [apply]
    cases hfin : opFin s id ok ver now with
    | none => rfl
    | some s' =>
      unfold opFin at hfin
      split at hfin
      · cases hfin
      · split at hfin
        · cases hfin
        · split at hfin
          · cases hfin
          · injection hfin with hfin
            subst hfin
            simp only [Option.getD_some, finApply, afterUpdate_cfg]
  | inv secs now => rfl
  | trimChunks key t now => simp only [apply, afterUpdate_cfg, trimChunks_cfg]
  | rmBucket key now => simp only [apply, afterUpdate_cfg, removeBucket_cfg]
  | reset now => simp only [apply, afterUpdate_cfg, resetAll_cfg]
  | limits m so now =>
    simp only [apply, opLimits]
    split
    · rfl
    · exact trimPass_cfg ..
  | shutdown now => simp only [apply, opShutdown, reduce_cfg]

theorem step_cfg (s : St) (op : Op) : (step s op).cfg = s.cfg := by
  simp only [step, apply_cfg]

/-- request ids are fresh: a `get` never reuses the id of an earlier request -/
def FreshIds : St → List Op → Prop
  | _, [] => True
  | s, op :: ops => opFresh s op ∧ FreshIds (step s op) ops

instance (cfg : Cfg) : Decidable (WF cfg) := by unfold WF; infer_instance

instance opFreshDec (s : St) (op : Op) : Decidable (opFresh s op) := by
  cases op <;> simp only [opFresh] <;> infer_instance

instance freshIdsDec : (s : St) → (ops : List Op) → Decidable (FreshIds s ops)
  | _, [] => isTrue trivial
  | s, op :: ops => @instDecidableAnd _ _ (opFreshDec s op) (freshIdsDec (step s op) ops)

theorem step_P (s : St) (op : Op) (wf : WF s.cfg) (hf : opFresh s op) (h : PInv s) : PInv (step s op) := by
  have h0 : PInv { s with tick := s.tick + 1 } := ⟨h.ci, h.pl, h.pg, h.nd⟩
  have hf0 : opFresh { s with tick := s.tick + 1 } op := by cases op <;> exact hf
  have := apply_P { s with tick := s.tick + 1 } op wf hf0 h0
  exact ⟨this.ci, this.pl, this.pg, this.nd⟩

theorem run_P (ops : List Op) (s : St) (wf : WF s.cfg) (hf : FreshIds s ops) (h : PInv s) : PInv (run s ops) := by
  induction ops generalizing s with
  | nil => exact h
  | cons op ops ih =>
    exact ih (step s op) (by rw [step_cfg]; exact wf) hf.2 (step_P s op wf hf.1 h)

theorem PInv_init (cfg : Cfg) : PInv (init cfg) := by
  refine ⟨⟨?_, ?_, ?_, ?_⟩, ?_, ?_, ?_⟩
  · intro cid; simp only [init, getChunk, List.getD_nil]; exact PC_noChunk _
  · intro g hg; simp [init, ldsOf] at hg
  · intro cid a ha; simp [init, getChunk, noChunk] at ha
  · intro b hb; simp [init, bksOf] at hb
  · intro l hl; simp [init] at hl
  · intro l hl; simp [init] at hl
  · simp [init]

/-- every filled slot of every request buffer, after any sequence of operations with fresh request ids on a
    well-formed shard, holds the cell of exactly its slot time and of the request's cache key -/
theorem placement_all (cfg : Cfg) (wf : WF cfg) (ops : List Op) (hf : FreshIds (init cfg) ops) :
    ∀ l ∈ (run (init cfg) ops).loaders, ∀ (i : Nat) (c : Cell), l.data[i]? = some (some c) →
      c.t = l.timeStart / nsec + (i : Int) * cfg.step ∧ c.key = l.key := by
  have h := run_P ops (init cfg) wf hf (PInv_init cfg)
  have hc : (run (init cfg) ops).cfg = cfg := by
    have : ∀ (ops : List Op) (s : St), (run s ops).cfg = s.cfg := by
      intro ops
      induction ops with
      | nil => intro s; rfl
      | cons op ops ih => intro s; simp only [run, List.foldl_cons] at ih ⊢; rw [ih, step_cfg]
    exact this ops _
  intro l hl i c hc'
  have := h.pl l hl i (some c) hc' c rfl
  rw [hc] at this
  exact this

/-- buffer slot `ls + i` of a request for `[f, …)` with `f` a multiple of the step is the slot of time `f + i·step` -/
theorem request_slot_time (cfg : Cfg) (wf : WF cfg) (hs : 0 < cfg.step) (hK : 0 < cfg.K) (m : Int) (i : Nat) :
    let f := m * cfg.step
    let first := chunkStartOf cfg (f * nsec)
    let ls := ((f * nsec - first) / (cfg.step * nsec)).toNat
    0 ≤ m → first / nsec + ((ls + i : Nat) : Int) * cfg.step = f + (i : Int) * cfg.step := by
  intro f first ls hm
  have hn : (0 : Int) < nsec := by decide
  have hT : 0 < cfg.step * nsec := Int.mul_pos hs hn
  have hKi : (0 : Int) < cfg.K := by omega
  have e1 : f * nsec = m * (cfg.step * nsec) := by simp only [f, Int.mul_assoc]
  have e2 : cfg.dur = (cfg.K : Int) * (cfg.step * nsec) := by rw [wf, Int.mul_assoc]
  have e3 : first = (m / cfg.K) * cfg.K * (cfg.step * nsec) := by
    simp only [first, chunkStartOf, e1, e2]
    rw [Int.mul_ediv_mul_of_pos_left _ _ hT, Int.mul_assoc]
  have e4 : f * nsec - first = (m % cfg.K) * (cfg.step * nsec) := by
    rw [e1, e3]
    have := Int.mul_ediv_add_emod m cfg.K
    have h2 : m = (m / cfg.K) * cfg.K + m % cfg.K := by rw [Int.mul_comm (m / ↑cfg.K)]; omega
    conv => lhs; lhs; rw [h2]
    rw [Int.add_mul]; omega
  have e5 : (f * nsec - first) / (cfg.step * nsec) = m % cfg.K := by
    rw [e4, Int.mul_ediv_cancel _ (Int.ne_of_gt hT)]
  have e6 : 0 ≤ m % (cfg.K : Int) := Int.emod_nonneg _ (Int.ne_of_gt hKi)
  have e7 : ((ls : Nat) : Int) = m % cfg.K := by simp only [ls, e5]; omega
  have e8 : first / nsec = (m / cfg.K) * cfg.K * cfg.step := by
    rw [e3, ← Int.mul_assoc, Int.mul_ediv_cancel _ (Int.ne_of_gt hn)]
  rw [e8, Int.natCast_add, e7, Int.add_mul]
  have := Int.mul_ediv_add_emod m cfg.K
  have h2 : m = (m / cfg.K) * cfg.K + m % cfg.K := by rw [Int.mul_comm (m / ↑cfg.K)]; omega
  show m / ↑cfg.K * ↑cfg.K * cfg.step + (m % ↑cfg.K * cfg.step + ↑i * cfg.step) = m * cfg.step + ↑i * cfg.step
  conv => rhs; lhs; rw [h2]
  rw [Int.add_mul]; omega


end SH.TsCache.Place
