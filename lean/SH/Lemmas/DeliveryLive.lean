/-
  SH.Lemmas.DeliveryLive — schedule-existence liveness for C01 (`can_always_finish_partial`).
-/
import SH.Lemmas.Delivery
namespace SH.Delivery
open SH.Gen.C01

theorem oldestPos_first {cs : List Cbd} {i b best : Nat} (h : ∀ d ∈ cs, ¬ d.sec < best) : oldestPos cs i b best = b := by
  induction cs generalizing i with
  | nil => rfl
  | cons d ds ih =>
    unfold oldestPos
    have := h d (by simp)
    simp only [this, if_false]
    exact ih (fun e he => h e (List.mem_cons_of_mem _ he))

theorem readNext_frame (a : Agent) :
    (readNext a).now = a.now ∧ (readNext a).window = a.window ∧ (readNext a).disk = a.disk ∧ (readNext a).live = a.live ∧
    (readNext a).flights = a.flights := by
  unfold readNext; (repeat' split) <;> simp

/-- popping the first-oldest second that is not in the future -/
theorem pop_head {a : Agent} {c : Cbd} {cs : List Cbd} {now : Nat} (hh : a.hist = c :: cs) (hmin : ∀ d ∈ cs, ¬ d.sec < c.sec)
    (hnow : c.sec < now) :
    ∃ a', pop a now = (a', some c) ∧ a'.now = a.now ∧ a'.window = a.window ∧ a'.disk = a.disk ∧ a'.live = a.live ∧
      a'.flights = a.flights := by
  unfold pop
  simp only [hh]
  rw [oldestPos_first hmin]
  have : (c :: cs)[0]? = some c := rfl
  simp only [this]
  have hf : inFuture now c = false := by unfold inFuture; simp; omega
  simp only [hf, Bool.false_eq_true, if_false]
  have fr := readNext_frame { a with hist := swapRemove (c :: cs) 0, memSize := a.memSize - sz c }
  exact ⟨_, rfl, fr.1, fr.2.1, fr.2.2.1, fr.2.2.2.1, fr.2.2.2.2⟩

theorem chooseReplica_congr {a a' : Agent} (h : a'.live = a.live) (t : Nat) : chooseReplica a' t = chooseReplica a t := by
  unfold chooseReplica isAlive; rw [h]

/-- step 1 of the schedule: the historic sender pops the second and sends it to the live replica -/
theorem pop_launches {s : State} {c : Cbd} {cs : List Cbd} {r : Nat} {sp : Bool} (now : Nat)
    (hh : s.ag.hist = c :: cs) (hmin : ∀ d ∈ cs, ¬ d.sec < c.sec) (hnow : c.sec < now)
    (hin : outOfWindow s.ag.now c.sec s.ag.window = false) (hdata : c.mem = true ∨ s.ag.disk = true)
    (hrep : chooseReplica s.ag c.sec = some (r, sp)) :
    ∃ a1, (step s (.pop now)).1 =
      { s with ag := a1, reqs := s.reqs ++ [{ rid := s.nextRid, sec := c.sec, historic := true, spare := sp, replica := r }],
               nextRid := s.nextRid + 1 } := by
  obtain ⟨a', hp, h1, h2, h3, h4, _⟩ := pop_head (now := now) hh hmin hnow
  simp only [step, stepPop, hp, stepHistoricAttempt, historicAttempt]
  rw [h1, h2, h3, chooseReplica_congr h4, hrep]
  have hnd : (!c.mem && !s.ag.disk) = false := by rcases hdata with h | h <;> simp [h]
  simp only [hin, hnd, Bool.false_eq_true, if_false, launch, reqOf]
  exact ⟨_, rfl⟩

theorem find?_append_new {l : List Req} {q : Req} (h : ∀ x ∈ l, x.rid ≠ q.rid) :
    (l ++ [q]).find? (fun x => x.rid == q.rid) = some q := by
  rw [List.find?_append]
  have : l.find? (fun x => x.rid == q.rid) = none := by
    rw [List.find?_eq_none]; intro x hx; simpa using h x hx
  simp [this]

theorem extend_head {fuel want : Nat} {b : Bucket} {l : List Bucket} : (extend fuel want (b :: l)).head? = some b := by
  induction fuel generalizing l with
  | zero => rfl
  | succ n ih =>
    unfold extend
    simp only
    split
    · exact ih
    · rfl

/-- the clock reaches oldest + shortWindow + 3: exactly the three oldest recent buckets become ready -/
theorem advance_three {b0 b1 b2 b3 : Bucket} {rest : List Bucket} {sw : Nat}
    (h1 : b1.time = b0.time + 1) (h2 : b2.time = b0.time + 2) (h3 : b3.time = b0.time + 3) :
    (advance (b0 :: b1 :: b2 :: b3 :: rest) (b0.time + sw + 3) sw).1 = [b0, b1, b2] ∧
    (advance (b0 :: b1 :: b2 :: b3 :: rest) (b0.time + sw + 3) sw).2.head? = some b3 := by
  have hd : dropReady (b0 :: b1 :: b2 :: b3 :: rest).length (b0.time + sw + 3) sw (b0 :: b1 :: b2 :: b3 :: rest) =
      ([b0, b1, b2], b3 :: rest) := by
    simp only [List.length_cons]
    have e0 : b0.time + sw + 3 > b0.time + sw := by omega
    have e1 : b0.time + sw + 3 > b1.time + sw := by omega
    have e2 : b0.time + sw + 3 > b2.time + sw := by omega
    have e3 : ¬ b0.time + sw + 3 > b3.time + sw := by omega
    simp [dropReady, e0, e1, e2, e3]
  unfold advance
  simp only [hd, List.isEmpty_cons, Bool.false_eq_true, if_false]
  exact ⟨trivial, extend_head⟩

/-- goInsert for a ready bucket when exactly one historic bucket waits and is not stale: its rows are in the body -/
theorem insertOne_takes_single (b hb : Bucket) (oldest w : Nat) (hs : isStale oldest w hb = false) :
    ∀ t ∈ hb.secs, t ∈ (insertOne b [hb] oldest w true).body := by
  intro t ht
  have h12 : maxHistoricBatch = 11 + 1 := by decide
  have hw : (insertHistoricWhen == 0) = false := by decide
  unfold insertOne
  simp only [List.isEmpty_cons, hw, Bool.or_false, Bool.false_eq_true, if_false]
  rw [h12]
  unfold takeHistoric
  simp only [List.filter_cons, hs, Bool.false_eq_true, if_false, List.filter_nil, Bool.not_false, if_true, minTime, beq_self_eq_true,
    bne_self_eq_false]
  split <;> simp [ht]

theorem tick_inserts_single (k oldest w : Nat) (hb : Bucket) (hs : isStale oldest w hb = false) (t : Nat) (ht : t ∈ hb.secs)
    (l : List Bucket) (acc : TickAcc) (hacc : acc.historic = [hb]) (hex : ∃ b ∈ l, isOurs b k = true)
    (hBI : ∀ x ∈ l, BI x) (hBIh : BI hb) :
    t ∈ (tickBuckets k oldest w true l acc).inserted := by
  induction l generalizing acc with
  | nil => obtain ⟨b, hb', _⟩ := hex; simp at hb'
  | cons b bs ih =>
    unfold tickBuckets
    by_cases ho : isOurs b k = true
    · simp only [ho, Bool.not_true, Bool.false_eq_true, if_false]
      have hbody := insertOne_takes_single b hb oldest w hs t ht
      rw [hacc]
      have mono := (tickBuckets_facts k oldest w true bs
        { historic := (insertOne b [hb] oldest w true).historic, resps := acc.resps ++ (insertOne b [hb] oldest w true).resps,
          inserted := if true = true then acc.inserted ++ (insertOne b [hb] oldest w true).body else acc.inserted,
          rejected := acc.rejected ++ (((insertOne b [hb] oldest w true).resps.filter (fun x => x.why == .stale)).map (·.sec)),
          evs := acc.evs ++ [.ins b.time (insertOne b [hb] oldest w true).body (insertOne b [hb] oldest w true).nHistoric true] }
        (fun x hx => hBI x (List.mem_cons_of_mem _ hx))
        (fun x hx => by
          have := (insertOne_facts b [hb] oldest w true (hBI b (by simp)) (fun y hy => by simp at hy; subst hy; exact hBIh)).1 x hx
          simp at this; subst this; exact hBIh)).2.2.2.1
      exact mono t (by simp [hbody])
    · simp only [ho, Bool.not_false, if_true]
      apply ih acc hacc
      · obtain ⟨b', hb', ho'⟩ := hex
        simp only [List.mem_cons] at hb'
        rcases hb' with rfl | hb'
        · exact absurd ho' ho
        · exact ⟨b', hb', ho'⟩
      · exact fun x hx => hBI x (List.mem_cons_of_mem _ hx)

/-- the fault-free schedule for the oldest queued second, as a function of the state: a historic sender pops it, the request
reaches the replica the agent chose, and that replica's clock reaches the second at which its three oldest recent buckets
are ready (one of them is its own, so an inserter runs and takes the waiting historic bucket along) -/
def finishOps (s : State) : List Op :=
  match s.ag.hist with
  | [] => []
  | c :: _ => match chooseReplica s.ag c.sec with
    | none => []
    | some (r, _) => match s.aggs[r]? with
      | none => []
      | some g => match g.recent.head? with
        | none => []
        | some b0 => [.pop (c.sec + 1), .recv s.nextRid, .tick r (b0.time + s.shortWindow + 3) true]

theorem finishOps_length (s : State) : (finishOps s).length ≤ 3 := by
  unfold finishOps; (repeat' split) <;> simp

/-- what the partial theorem assumes about the state (beyond being reachable) -/
structure FinishReady (s : State) (c : Cbd) (r : Nat) (g : Agg) (b0 nb : Bucket) : Prop where
  hist : ∃ cs, s.ag.hist = c :: cs ∧ ∀ d ∈ cs, ¬ d.sec < c.sec        -- c is the (first) oldest second of the historic queue
  inAgent : outOfWindow s.ag.now c.sec s.ag.window = false            -- inside the agent's historic window
  data : c.mem = true ∨ s.ag.disk = true
  replica : ∃ sp, chooseReplica s.ag c.sec = some (r, sp)             -- its primary or its spare replica is believed alive
  agg : s.aggs[r]? = some g
  up : g.up = true                                                    -- … and is up
  noBacklog : g.historic = []                                         -- … with no other historic bucket waiting  (PARTIAL)
  window : ∃ b1 b2 b3 rest, g.recent = b0 :: b1 :: b2 :: b3 :: rest ∧ b1.time = b0.time + 1 ∧ b2.time = b0.time + 2 ∧
             b3.time = b0.time + 3 ∧ (b0 :: b1 :: b2 :: b3 :: rest).getLast? = some nb
  accept : aggDecide true c.sec b0.time nb.time s.aggWindow r = .joinHistoric   -- older than the recent window, inside the aggregator's historic window
  slack : b0.time + 3 ≤ c.sec + s.aggWindow                          -- … and still inside it 3 seconds later

theorem three_consecutive (n r : Nat) (hr : r < 3) : n % 3 = r ∨ (n + 1) % 3 = r ∨ (n + 2) % 3 = r := by omega

theorem chooseReplica_lt {a : Agent} {t r : Nat} {sp : Bool} (h : chooseReplica a t = some (r, sp)) : r < 3 := by
  unfold chooseReplica at h
  split at h
  · simp at h; omega
  · split at h
    · simp at h; omega
    · simp at h

/-- step 2 of the schedule: the historic request is parked in a new historic bucket of its replica -/
theorem recv_parks_historic {S : State} {q : Req} {l : List Req} {g : Agg} {b0 nb : Bucket}
    (hreqs : S.reqs = l ++ [q]) (hfresh : ∀ x ∈ l, x.rid ≠ q.rid) (hq : q.historic = true)
    (hagg : S.aggs[q.replica]? = some g) (hup : g.up = true) (hnb : g.historic = [])
    (hhead : g.recent.head? = some b0) (hlast : g.recent.getLast? = some nb)
    (hacc : aggDecide true q.sec b0.time nb.time S.aggWindow q.replica = .joinHistoric) :
    (step S (.recv q.rid)).1.aggs = S.aggs.set q.replica { g with historic := [park (mkBucket q.sec) q.rid q.sec] } ∧
    (step S (.recv q.rid)).1.shortWindow = S.shortWindow ∧ (step S (.recv q.rid)).1.aggWindow = S.aggWindow := by
  have hfind : findReq S q.rid = some q := by
    unfold findReq; rw [hreqs]; exact find?_append_new hfresh
  simp only [step, stepRecv, hfind, dropReq, hagg, hup, Bool.not_true, Bool.false_eq_true, if_false, recvHandle, hhead, hlast, hq,
    hacc, setAgg, hnb, parkHistoric]
  exact ⟨trivial, trivial, trivial⟩

theorem can_finish_oldest {s : State} {c : Cbd} {r : Nat} {g : Agg} {b0 nb : Bucket} (h : SInv s []) (hf : FinishReady s c r g b0 nb) :
    c.sec ∈ (run s (finishOps s)).inserted := by
  obtain ⟨cs, hh, hmin⟩ := hf.hist
  obtain ⟨sp, hrep⟩ := hf.replica
  obtain ⟨b1, b2, b3, rest, hw, t1, t2, t3, hlast⟩ := hf.window
  have hr3 := chooseReplica_lt hrep
  have hops : finishOps s = [.pop (c.sec + 1), .recv s.nextRid, .tick r (b0.time + s.shortWindow + 3) true] := by
    unfold finishOps; simp only [hh, hrep, hf.agg, hw, List.head?_cons]
  rw [hops]
  simp only [run, List.foldl_cons, List.foldl_nil]
  -- step 1
  obtain ⟨a1, h1⟩ := pop_launches (s := s) (c.sec + 1) hh hmin (Nat.lt_succ_self _) hf.inAgent hf.data hrep
  generalize (step s (.pop (c.sec + 1))).1 = S1 at h1 ⊢
  -- step 2
  have hfresh : ∀ x ∈ s.reqs, x.rid ≠ s.nextRid := by
    intro x hx he
    have := h.ridLt (x.rid, x.sec) (by simp only [ridTags, List.mem_append, List.mem_map]; exact Or.inl (Or.inl (Or.inr ⟨x, hx, rfl⟩)))
    simp only at this; omega
  have h2 := recv_parks_historic (S := S1) (q := { rid := s.nextRid, sec := c.sec, historic := true, spare := sp, replica := r })
    (l := s.reqs) (g := g) (b0 := b0) (nb := nb) (by rw [h1]) hfresh rfl (by rw [h1]; exact hf.agg) hf.up hf.noBacklog
    (by rw [hw]; rfl) (by rw [hw]; exact hlast) (by rw [h1]; exact hf.accept)
  simp only at h2
  generalize (step S1 (.recv s.nextRid)).1 = s2 at h2 ⊢
  obtain ⟨hagg2, hsw2, hw2⟩ := h2
  have hS1 : S1.aggs = s.aggs ∧ S1.shortWindow = s.shortWindow ∧ S1.aggWindow = s.aggWindow := by rw [h1]; exact ⟨rfl, rfl, rfl⟩
  rw [hS1.1] at hagg2; rw [hS1.2.1] at hsw2; rw [hS1.2.2] at hw2
  -- step 3
  have hrlen : r < s.aggs.length := by
    rcases Nat.lt_or_ge r s.aggs.length with h' | h'
    · exact h'
    · have := hf.agg; simp [List.getElem?_eq_none h'] at this
  have hg2 : s2.aggs[r]? = some { g with historic := [park (mkBucket c.sec) s.nextRid c.sec] } := by
    rw [hagg2]; simp [hrlen]
  have hgm : g ∈ s.aggs := List.mem_of_getElem? hf.agg
  have hgb := h.bucket g hgm
  have adv := advance_three (b0 := b0) (b1 := b1) (b2 := b2) (b3 := b3) (rest := rest) (sw := s.shortWindow) t1 t2 t3
  simp only [step, stepTick, hg2, hf.up, Bool.not_true, Bool.false_eq_true, if_false, hsw2, hw2, hw]
  simp only [List.mem_append]
  right
  rw [adv.1, adv.2]
  simp only
  apply tick_inserts_single r b3.time s.aggWindow (park (mkBucket c.sec) s.nextRid c.sec)
  · have hsl := hf.slack
    have : ¬ (c.sec < b3.time - s.aggWindow) := by omega
    simp [isStale, park, mkBucket, this]
  · simp [park, mkBucket]
  · rfl
  · rcases three_consecutive b0.time r hr3 with h0 | h0 | h0
    · exact ⟨b0, by simp, by simp [isOurs, h0]⟩
    · exact ⟨b1, by simp, by simp [isOurs, t1, h0]⟩
    · exact ⟨b2, by simp, by simp [isOurs, t2, h0]⟩
  · intro x hx p hp
    have hxg : x ∈ g.recent ++ g.historic := by
      rw [hw]; simp only [List.mem_append, List.mem_cons, List.not_mem_nil, or_false] at hx ⊢
      rcases hx with rfl | rfl | rfl
      · exact Or.inl (Or.inl rfl)
      · exact Or.inl (Or.inr (Or.inl rfl))
      · exact Or.inl (Or.inr (Or.inr (Or.inl rfl)))
    exact hgb x hxg p hp
  · intro p hp; simp only [park, mkBucket, List.nil_append, List.mem_singleton] at hp ⊢; subst hp; rfl

end SH.Delivery
