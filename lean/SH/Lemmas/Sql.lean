/-
  SH.Lemmas.Sql — helper development for C26 (imported by SH.Props.C26; all theorems audited by bin/check as well):
  literal scanner vs. fragment lists (`scan_flatten`), quote-freeness and composition of the builder's text (`Good_*`),
  the literals of the where text (`lits_*`), skeleton independence (`skel_*_map`), clause semantics (`any_tagAtoms_true`, …),
  parenthesis balance (`bal`, `St_*`), and the same for the complete query texts (`*_query*`, section at the end).
-/
import SH.Model.Sql

namespace SH.C26
open SH.Sql


theorem escOut_q : escOut q = [q] := by decide
theorem escOut_bs : escOut bs = [bs] := by decide

/-- for all byte strings: lexing the escaped string followed by a closing quote gives back the string -/
theorem lexLit_escape (s r : Bytes) (hr : r.head? ≠ some q) :
    lexLit .normal (escape s ++ q :: r) = some (s, r) := by
  induction s with
  | nil =>
    cases r with
    | nil => simp [escape, lexLit]
    | cons c r' =>
      have hc : c ≠ q := by simpa using hr
      simp [escape, lexLit, hc]
  | cons c s ih =>
    by_cases h1 : c = q
    · subst h1
      have e1 : (bs = q) = False := by decide
      have e2 : (q = (120:UInt8)) = False := by decide
      have e3 : (q = (78:UInt8)) = False := by decide
      simp [escape, lexLit, e1, e2, e3, escOut_q, ih, appO]
    · by_cases h2 : c = bs
      · subst h2
        have e1 : (bs = q) = False := by decide
        have e2 : (bs = (120:UInt8)) = False := by decide
        have e3 : (bs = (78:UInt8)) = False := by decide
        simp [escape, lexLit, e1, e2, e3, escOut_bs, ih, appO]
      · simp [escape, lexLit, h1, h2, ih, consO]






/-- "no quote byte" -/
def NoQ (b : Bytes) : Prop := q ∉ b
instance (b : Bytes) : Decidable (NoQ b) := inferInstanceAs (Decidable (q ∉ b))

def HeadOK (b : Bytes) : Prop := b.head? ≠ some q

/-- text that may stand between quotes unescaped: no quote and no backslash (then `escape s = s`) -/
def Plain (s : Bytes) : Prop := q ∉ s ∧ bs ∉ s
instance (s : Bytes) : Decidable (Plain s) := inferInstanceAs (Decidable (q ∉ s ∧ bs ∉ s))

theorem escape_plain : ∀ s : Bytes, Plain s → escape s = s
  | [], _ => rfl
  | c :: s, h => by
    have h1 : c ≠ q := by intro e; exact h.1 (by simp [e])
    have h2 : c ≠ bs := by intro e; exact h.2 (by simp [e])
    have ih := escape_plain s ⟨fun m => h.1 (by simp [m]), fun m => h.2 (by simp [m])⟩
    simp [escape, h1, h2, ih]

/-- the literals of a fragment list can be told apart by a lexer: builder text has no quote, and a literal is never
    directly followed by a quote (which ClickHouse would read as a doubled quote inside the literal) -/
def WF : List Frag → Prop
  | [] => True
  | .raw b :: fs => NoQ b ∧ WF fs
  | .lit _ :: fs => HeadOK (flatten fs) ∧ WF fs
  | .qraw s :: fs => Plain s ∧ HeadOK (flatten fs) ∧ WF fs

theorem flatten_append (a b : List Frag) : flatten (a ++ b) = flatten a ++ flatten b := by
  induction a with
  | nil => rfl
  | cons f a ih => simp [flatten, ih]

theorem lits_append (a b : List Frag) : lits (a ++ b) = lits a ++ lits b := by
  induction a with
  | nil => rfl
  | cons f a ih => cases f <;> simp [lits, ih]

theorem skel_append (a b : List Frag) : skel (a ++ b) = skel a ++ skel b := by
  induction a with
  | nil => rfl
  | cons f a ih => cases f <;> simp [skel, ih]

theorem scan_raw (b : Bytes) (hb : NoQ b) (rest : Bytes) (fuel : Nat) :
    scan (fuel + b.length) (b ++ rest) =
      match scan fuel rest with
      | none => none
      | some r => some (r.1, b ++ r.2) := by
  induction b with
  | nil => cases h : scan fuel rest <;> simp [h]
  | cons c b ih =>
    have hc : c ≠ q := by intro h; apply hb; simp [h]
    have hb' : NoQ b := by intro h; apply hb; simp [h]
    have : fuel + (c :: b).length = (fuel + b.length) + 1 := by simp; omega
    rw [this]
    simp only [List.cons_append, scan, hc, if_false, ih hb']
    cases h : scan fuel rest <;> simp [consSk]

/-- Scanning the text of well-formed fragments recovers exactly the literals (decoded) and the skeleton. -/
theorem scan_flatten (fs : List Frag) (h : WF fs) :
    ∀ fuel, (flatten fs).length < fuel → scan fuel (flatten fs) = some (lits fs, skel fs) := by
  induction fs with
  | nil =>
    intro fuel hf
    cases fuel with
    | zero => simp [flatten] at hf
    | succ k => simp [flatten, scan, lits, skel]
  | cons f fs ih =>
    intro fuel hf
    cases f with
    | raw b =>
      obtain ⟨hb, hfs⟩ := h
      simp only [flatten, Frag.bytes, List.length_append] at hf
      obtain ⟨k, rfl⟩ : ∃ k, fuel = k + b.length := ⟨fuel - b.length, by omega⟩
      have := ih hfs k (by omega)
      simp [flatten, Frag.bytes, scan_raw b hb, this, lits, skel]
    | lit s =>
      obtain ⟨hh, hfs⟩ := h
      cases fuel with
      | zero => simp at hf
      | succ k =>
        simp only [flatten, Frag.bytes, List.length_append, List.length_cons] at hf
        have e : flatten (Frag.lit s :: fs) = q :: (escape s ++ q :: flatten fs) := by
          simp [flatten, Frag.bytes]
        have := ih hfs k (by omega)
        rw [e]
        simp [scan, lexLit_escape s (flatten fs) hh, scanLit, this, lits, skel]
    | qraw s =>
      obtain ⟨hp, hh, hfs⟩ := h
      cases fuel with
      | zero => simp at hf
      | succ k =>
        simp only [flatten, Frag.bytes, List.length_append, List.length_cons] at hf
        have e : flatten (Frag.qraw s :: fs) = q :: (escape s ++ q :: flatten fs) := by
          simp [flatten, Frag.bytes, escape_plain s hp]
        have := ih hfs k (by omega)
        rw [e]
        simp [scan, lexLit_escape s (flatten fs) hh, scanLit, this, lits, skel]

theorem scanAll_flatten (fs : List Frag) (h : WF fs) : scanAll (flatten fs) = some (lits fs, skel fs) :=
  scan_flatten fs h _ (Nat.lt_succ_self _)


/-! ### builder text contains no quote -/

theorem NoQ_nil : NoQ [] := by simp [NoQ]
theorem NoQ_append {a b : Bytes} : NoQ (a ++ b) ↔ NoQ a ∧ NoQ b := by simp [NoQ, List.mem_append]
theorem NoQ_cons {c : UInt8} {b : Bytes} : NoQ (c :: b) ↔ c ≠ q ∧ NoQ b := by
  simp [NoQ, List.mem_cons, eq_comm]

theorem digit_ne_q : ∀ k, k < 10 → (48 + k).toUInt8 ≠ q := by decide

theorem NoQ_digitsAux : ∀ (fuel n : Nat) (acc : Bytes), NoQ acc → NoQ (digitsAux fuel n acc) := by
  intro fuel
  induction fuel with
  | zero => intro n acc h; simpa [digitsAux] using h
  | succ k ih =>
    intro n acc h
    simp only [digitsAux]
    split
    · exact NoQ_cons.mpr ⟨digit_ne_q n ‹_›, h⟩
    · exact ih _ _ (NoQ_cons.mpr ⟨digit_ne_q _ (Nat.mod_lt _ (by decide)), h⟩)

theorem NoQ_natBytes (n : Nat) : NoQ (natBytes n) := NoQ_digitsAux _ _ _ NoQ_nil

theorem NoQ_itoa (i : Int) : NoQ (itoa i) := by
  simp only [itoa]
  split
  · exact NoQ_cons.mpr ⟨by decide, NoQ_natBytes _⟩
  · exact NoQ_natBytes _

theorem NoQ_commaInts : ∀ l : List Int, NoQ (commaInts l)
  | [] => NoQ_nil
  | [a] => by simpa [commaInts] using NoQ_itoa a
  | a :: b :: rest => by
    simp only [commaInts]
    exact NoQ_append.mpr ⟨NoQ_itoa a, NoQ_cons.mpr ⟨by decide, NoQ_commaInts (b :: rest)⟩⟩

theorem NoQ_opText (neg : Bool) : NoQ (opText neg) := by cases neg <;> decide
theorem NoQ_notText (neg : Bool) : NoQ (notText neg) := by cases neg <;> decide
theorem NoQ_sepText (b : Bool) : NoQ (sepText b) := by cases b <;> decide

theorem NoQ_colInt (c : Cfg) (x : Nat) : NoQ (colInt c x) := by
  simp only [colInt]
  split
  · decide
  · exact NoQ_append.mpr ⟨by decide, NoQ_natBytes x⟩

theorem NoQ_colStr (x : Nat) : NoQ (colStr x) := NoQ_append.mpr ⟨by decide, NoQ_natBytes x⟩

theorem NoQ_raw64Expr (c : Cfg) (x : Nat) : NoQ (raw64Expr c x) := by
  simp only [raw64Expr]
  refine NoQ_append.mpr ⟨NoQ_append.mpr ⟨NoQ_append.mpr ⟨NoQ_append.mpr ⟨by decide, NoQ_colInt _ _⟩, by decide⟩, NoQ_colInt _ _⟩, by decide⟩

theorem NoQ_whereIntExpr (c : Cfg) (x : Nat) : NoQ (whereIntExpr c x) := by
  simp only [whereIntExpr]
  split
  · decide
  · split
    · split
      · exact NoQ_append.mpr ⟨by decide, NoQ_natBytes x⟩
      · exact NoQ_raw64Expr c x
    · exact NoQ_colInt c x

/-! ### composition of well-formed fragment lists -/

/-- well-formed and not starting with a quote: may follow a literal -/
def Good (fs : List Frag) : Prop := WF fs ∧ HeadOK (flatten fs)

theorem HeadOK_of_NoQ {b : Bytes} (h : NoQ b) : HeadOK b := by
  cases b with
  | nil => simp [HeadOK]
  | cons c b => have := (NoQ_cons.mp h).1; simpa [HeadOK] using this

theorem HeadOK_append {a b : Bytes} (ha : HeadOK a) (hb : HeadOK b) : HeadOK (a ++ b) := by
  cases a with
  | nil => simpa using hb
  | cons c a => simpa [HeadOK] using ha

theorem Good_nil : Good [] := by simp [Good, WF, HeadOK, flatten]

theorem Good_raw_cons {b : Bytes} {fs : List Frag} (hb : NoQ b) (h : Good fs) : Good (.raw b :: fs) :=
  ⟨⟨hb, h.1⟩, by simpa [flatten, Frag.bytes] using HeadOK_append (HeadOK_of_NoQ hb) h.2⟩

theorem Good_raw_lit_cons {b s : Bytes} {fs : List Frag} (hb : NoQ b) (hne : b ≠ []) (h : Good fs) :
    Good (.raw b :: .lit s :: fs) := by
  refine ⟨⟨hb, h.2, h.1⟩, ?_⟩
  cases b with
  | nil => exact absurd rfl hne
  | cons c b => have := (NoQ_cons.mp hb).1; simpa [HeadOK, flatten, Frag.bytes] using this

theorem WF_append {a b : List Frag} (ha : WF a) (hb : Good b) : WF (a ++ b) := by
  induction a with
  | nil => exact hb.1
  | cons f a ih =>
    cases f with
    | raw x => exact ⟨ha.1, ih ha.2⟩
    | lit s =>
      refine ⟨?_, ih ha.2⟩
      show HeadOK (flatten (a ++ b))
      rw [flatten_append]
      exact HeadOK_append ha.1 hb.2
    | qraw s =>
      refine ⟨ha.1, ?_, ih ha.2.2⟩
      show HeadOK (flatten (a ++ b))
      rw [flatten_append]
      exact HeadOK_append ha.2.1 hb.2

/-- a nonempty quote-free text, then text between quotes (escaped or plain), then something that may follow a literal -/
theorem Good_raw_qraw_cons {b s : Bytes} {fs : List Frag} (hb : NoQ b) (hne : b ≠ []) (hp : Plain s) (h : Good fs) :
    Good (.raw b :: .qraw s :: fs) := by
  refine ⟨⟨hb, hp, h.2, h.1⟩, ?_⟩
  cases b with
  | nil => exact absurd rfl hne
  | cons c b => have := (NoQ_cons.mp hb).1; simpa [HeadOK, flatten, Frag.bytes] using this

theorem Good_append {a b : List Frag} (ha : Good a) (hb : Good b) : Good (a ++ b) :=
  ⟨WF_append ha.1 hb, by rw [flatten_append]; exact HeadOK_append ha.2 hb.2⟩

theorem Good_flatMap {α} (g : α → List Frag) (hg : ∀ x, Good (g x)) : ∀ l : List α, Good (l.flatMap g)
  | [] => Good_nil
  | x :: l => by simpa [List.flatMap_cons] using Good_append (hg x) (Good_flatMap g hg l)

theorem Good_commaLits_tail : ∀ (vals : List Bytes) (b : Bytes), NoQ b → b ≠ [] → ∀ tl, Good tl →
    Good (.raw b :: (commaLits vals ++ tl))
  | [], b, hb, _, tl, ht => by simpa [commaLits] using Good_raw_cons hb ht
  | [a], b, hb, hne, tl, ht => by simpa [commaLits] using Good_raw_lit_cons hb hne ht
  | a :: a' :: rest, b, hb, hne, tl, ht => by
    simp only [commaLits, List.cons_append]
    exact Good_raw_lit_cons hb hne (Good_commaLits_tail (a' :: rest) [44] (by decide) (by decide) tl ht)

theorem ne_nil_append_right {a b : Bytes} (h : b ≠ []) : a ++ b ≠ [] := by
  intro e; exact h (List.append_eq_nil_iff.mp e).2

theorem Good_atom (intE strE : Bytes) (hi : NoQ intE) (hs : NoQ strE) (a : Atom) : Good (a.frags intE strE) := by
  cases a with
  | constF => exact Good_raw_cons (by decide) Good_nil
  | constT => exact Good_raw_cons (by decide) Good_nil
  | intIn neg ids =>
    exact Good_raw_cons (NoQ_append.mpr ⟨NoQ_append.mpr ⟨NoQ_append.mpr ⟨hi, NoQ_opText neg⟩, by decide⟩, NoQ_commaInts ids⟩ |>
      fun h => NoQ_append.mpr ⟨h, by decide⟩) Good_nil
  | strIn neg vals =>
    exact Good_commaLits_tail vals _ (NoQ_append.mpr ⟨NoQ_append.mpr ⟨hs, NoQ_opText neg⟩, by decide⟩)
      (ne_nil_append_right (by decide)) _ (Good_raw_cons (by decide) Good_nil)
  | reMatch neg re =>
    exact Good_raw_lit_cons (NoQ_append.mpr ⟨NoQ_append.mpr ⟨NoQ_append.mpr ⟨NoQ_notText neg, by decide⟩, hs⟩, by decide⟩)
      (ne_nil_append_right (by decide)) (Good_raw_cons (by decide) Good_nil)
  | isEmpty neg raw =>
    cases raw with
    | true =>
      exact Good_raw_cons (NoQ_append.mpr ⟨NoQ_append.mpr ⟨NoQ_append.mpr ⟨NoQ_notText neg, by decide⟩, hi⟩, by decide⟩) Good_nil
    | false =>
      exact Good_raw_lit_cons
        (NoQ_append.mpr ⟨NoQ_append.mpr ⟨NoQ_append.mpr ⟨NoQ_append.mpr ⟨NoQ_append.mpr ⟨NoQ_notText neg, by decide⟩, hi⟩, by decide⟩, hs⟩, by decide⟩)
        (ne_nil_append_right (by decide)) (Good_raw_cons (by decide) Good_nil)

theorem Good_joinFrags (sep : Bytes) (hsep : NoQ sep) : ∀ l : List (List Frag), (∀ a ∈ l, Good a) → Good (joinFrags sep l)
  | [], _ => Good_nil
  | [a], h => by simpa [joinFrags] using h a (by simp)
  | a :: b :: rest, h => by
    simp only [joinFrags]
    exact Good_append (h a (by simp)) (Good_raw_cons hsep (Good_joinFrags sep hsep (b :: rest) (fun x hx => h x (by simp [hx]))))

theorem Good_tagFrags (c : Cfg) (isIn : Bool) (x : Nat) (f : TagFilter) : Good (tagFrags c isIn x f) := by
  simp only [tagFrags]
  split
  · exact Good_nil
  · refine Good_raw_cons (by decide) (Good_append (Good_joinFrags _ (NoQ_sepText isIn) _ ?_) (Good_raw_cons (by decide) Good_nil))
    intro a ha
    obtain ⟨at', _, rfl⟩ := List.mem_map.mp ha
    exact Good_atom _ _ (NoQ_whereIntExpr c x) (NoQ_colStr x) at'

theorem Good_tagFilterFrags (c : Cfg) (isIn : Bool) (fs : Filters) : Good (tagFilterFrags c isIn fs) :=
  Good_flatMap _ (fun x => Good_tagFrags c isIn x (fs.get x)) _

theorem Good_metricFrags (c : Cfg) : Good (metricFrags c) := by
  simp only [metricFrags, metricList]
  split
  · exact Good_raw_cons (NoQ_append.mpr ⟨by decide, NoQ_itoa _⟩) Good_nil
  · refine Good_append ?_ ?_
    · split
      · exact Good_nil
      · exact Good_raw_cons (NoQ_append.mpr ⟨NoQ_append.mpr ⟨by decide, NoQ_commaInts _⟩, by decide⟩) Good_nil
    · split
      · exact Good_nil
      · exact Good_raw_cons (NoQ_append.mpr ⟨NoQ_append.mpr ⟨by decide, NoQ_commaInts _⟩, by decide⟩) Good_nil

theorem Good_whereFrags (c : Cfg) (fin fnotin : Filters) : Good (whereFrags c fin fnotin) := by
  simp only [whereFrags, baseFrags, List.cons_append, List.nil_append]
  refine Good_raw_lit_cons ?_ (ne_nil_append_right (by decide))
    (Good_append (Good_append (Good_metricFrags c) (Good_tagFilterFrags c true fin)) (Good_tagFilterFrags c false fnotin))
  exact NoQ_append.mpr ⟨NoQ_append.mpr ⟨NoQ_append.mpr ⟨NoQ_append.mpr ⟨by decide, NoQ_itoa _⟩, by decide⟩, NoQ_itoa _⟩, by decide⟩






/-! ### which literals the where text contains -/

theorem lits_commaLits : ∀ vals : List Bytes, lits (commaLits vals) = vals
  | [] => rfl
  | [a] => rfl
  | a :: b :: rest => by simp [commaLits, lits, lits_commaLits (b :: rest)]

/-- user strings inside one clause -/
def atomStrings : Atom → List Bytes
  | .strIn _ vals => vals
  | .reMatch _ p => [p]
  | .isEmpty _ raw => if raw then [] else [[]]
  | _ => []

theorem lits_atom (intE strE : Bytes) (a : Atom) : lits (a.frags intE strE) = atomStrings a := by
  cases a with
  | isEmpty neg raw => cases raw <;> simp [Atom.frags, lits, atomStrings]
  | strIn neg vals => simp [Atom.frags, lits, lits_append, lits_commaLits, atomStrings]
  | _ => simp [Atom.frags, lits, atomStrings]

theorem lits_joinFrags (sep : Bytes) : ∀ l : List (List Frag), lits (joinFrags sep l) = l.flatMap lits
  | [] => rfl
  | [a] => by simp [joinFrags]
  | a :: b :: rest => by simp [joinFrags, lits_append, lits, lits_joinFrags sep (b :: rest)]

/-- The strings the filter of one tag contributes, in text order: the regular expression or else the string values of the
    non-empty values (nothing for a raw tag), then `''` of the empty-value clause. -/
def tagStrings (raw : Bool) (f : TagFilter) : List Bytes :=
  if f.isEmpty then []
  else (if raw then [] else if f.re2.isEmpty then strVals f else [f.re2]) ++
       (if hasEmpty f && !raw then [[]] else [])

theorem lits_tagFrags (c : Cfg) (isIn : Bool) (x : Nat) (f : TagFilter) :
    lits (tagFrags c isIn x f) = tagStrings (isRaw c x) f := by
  simp only [tagFrags, tagStrings]
  split
  · rfl
  · simp only [lits, lits_append, lits_joinFrags, List.flatMap_map, lits_atom, List.append_nil, tagAtoms,
      List.flatMap_cons, List.flatMap_append]
    have h1 : atomStrings (mappedAtom isIn f) = [] := by
      simp only [mappedAtom]; split <;> (try split) <;> rfl
    rw [h1, List.nil_append]
    congr 1
    · simp only [stringAtoms]
      cases isRaw c x
      · by_cases hre : f.re2.isEmpty = true
        · simp only [hre, Bool.not_true, Bool.false_eq_true, if_false, if_true]
          split
          · rename_i h; simp [List.isEmpty_iff.mp h]
          · simp [atomStrings]
        · simp [hre, atomStrings]
      · simp
    · simp only [emptyAtoms]
      cases hasEmpty f <;> cases isRaw c x <;> simp [atomStrings]

theorem lits_flatMap {α} (g : α → List Frag) : ∀ l : List α, lits (l.flatMap g) = l.flatMap (fun x => lits (g x))
  | [] => rfl
  | x :: l => by simp [List.flatMap_cons, lits_append, lits_flatMap g l]

theorem lits_metricFrags (c : Cfg) : lits (metricFrags c) = [] := by
  simp only [metricFrags]
  split
  · rfl
  · split <;> split <;> rfl

/-- user strings of all tag filters of one polarity, in tag order -/
def filterStrings (c : Cfg) (fs : Filters) : List Bytes :=
  (List.range maxTags).flatMap (fun x => tagStrings (isRaw c x) (fs.get x))

/-- The literals of the where text are: `''` (of `pre_stag=''`), then the user strings of the positive filters, then those
    of the negative filters — each user string exactly once, nothing else. -/
theorem lits_whereFrags (c : Cfg) (fin fnotin : Filters) :
    lits (whereFrags c fin fnotin) = [] :: (filterStrings c fin ++ filterStrings c fnotin) := by
  simp [whereFrags, baseFrags, lits_append, lits, lits_metricFrags, tagFilterFrags, lits_flatMap, lits_tagFrags,
    filterStrings]





/-! ### the skeleton does not depend on what the user strings contain -/

/-- replace every user string of a filter -/
def mapValue (g : Bytes → Bytes) (v : TagValue) : TagValue := { v with value := g v.value }
def mapFilter (g : Bytes → Bytes) (f : TagFilter) : TagFilter :=
  { values := f.values.map (mapValue g), re2 := g f.re2 }

/-- the substitution keeps empty strings empty and non-empty strings non-empty (the builder branches on emptiness) -/
def KeepsEmpty (g : Bytes → Bytes) : Prop := ∀ s, (g s).isEmpty = s.isEmpty

def mapAtom (g : Bytes → Bytes) : Atom → Atom
  | .strIn neg vals => .strIn neg (vals.map g)
  | .reMatch neg p => .reMatch neg (g p)
  | a => a

theorem skel_commaLits_map (g : Bytes → Bytes) : ∀ vals : List Bytes, skel (commaLits (vals.map g)) = skel (commaLits vals)
  | [] => rfl
  | [a] => rfl
  | a :: b :: rest => by
    have := skel_commaLits_map g (b :: rest)
    simp only [List.map_cons] at this
    simp [commaLits, skel, this]

theorem skel_mapAtom (g : Bytes → Bytes) (intE strE : Bytes) (a : Atom) :
    skel ((mapAtom g a).frags intE strE) = skel (a.frags intE strE) := by
  cases a with
  | strIn neg vals => simp [mapAtom, Atom.frags, skel, skel_append, skel_commaLits_map]
  | reMatch neg p => simp [mapAtom, Atom.frags, skel]
  | _ => rfl

theorem empty_mapValue {g} (hg : KeepsEmpty g) (v : TagValue) : (mapValue g v).empty = v.empty := by
  simp [TagValue.empty, mapValue, hg v.value]

theorem liveValues_map {g} (hg : KeepsEmpty g) (f : TagFilter) :
    liveValues (mapFilter g f) = (liveValues f).map (mapValue g) := by
  simp only [liveValues, mapFilter, List.filter_map]
  congr 1
  apply List.filter_congr
  intro v _
  simp [empty_mapValue hg]

theorem mappedIds_map {g} (hg : KeepsEmpty g) (f : TagFilter) : mappedIds (mapFilter g f) = mappedIds f := by
  simp only [mappedIds, liveValues_map hg, List.filter_map, List.map_map]
  rfl

theorem strVals_map {g} (hg : KeepsEmpty g) (f : TagFilter) : strVals (mapFilter g f) = (strVals f).map g := by
  simp only [strVals, liveValues_map hg, List.filter_map, List.map_map]
  rfl

theorem hasEmpty_map {g} (hg : KeepsEmpty g) (f : TagFilter) : hasEmpty (mapFilter g f) = hasEmpty f := by
  simp only [hasEmpty, mapFilter, List.any_map]
  congr 1
  funext v
  exact empty_mapValue hg v

theorem isEmpty_map {g} (hg : KeepsEmpty g) (f : TagFilter) : (mapFilter g f).isEmpty = f.isEmpty := by
  simp [TagFilter.isEmpty, mapFilter, hg f.re2]

theorem tagAtoms_map {g} (hg : KeepsEmpty g) (isIn raw : Bool) (f : TagFilter) :
    tagAtoms isIn raw (mapFilter g f) = (tagAtoms isIn raw f).map (mapAtom g) := by
  simp only [tagAtoms, mappedAtom, stringAtoms, emptyAtoms, mappedIds_map hg, strVals_map hg, hasEmpty_map hg,
    List.map_cons, List.map_append]
  have hre : (mapFilter g f).re2.isEmpty = f.re2.isEmpty := hg f.re2
  congr 1
  · split <;> (try split) <;> rfl
  · congr 1
    · cases raw
      · simp only [Bool.false_eq_true, if_false, hre]
        split
        · simp [mapAtom, mapFilter]
        · simp only [List.isEmpty_map]
          split <;> simp [mapAtom]
      · simp
    · split <;> simp [mapAtom]

theorem skel_joinFrags_congr (sep : Bytes) : ∀ (l l' : List (List Frag)), l.map skel = l'.map skel →
    skel (joinFrags sep l) = skel (joinFrags sep l')
  | [], [], _ => rfl
  | [], _ :: _, h => by simp at h
  | _ :: _, [], h => by simp at h
  | [a], [a'], h => by simpa [joinFrags] using h
  | [a], _ :: _ :: _, h => by simp at h
  | _ :: _ :: _, [a'], h => by simp at h
  | a :: b :: rest, a' :: b' :: rest', h => by
    simp only [List.map_cons, List.cons.injEq] at h
    have ih := skel_joinFrags_congr sep (b :: rest) (b' :: rest') (by simp [h.2.1, h.2.2])
    simp [joinFrags, skel_append, skel, h.1, ih]

/-- **Structure is independent of the strings.** Replacing every user string of a filter by any other string (empty
    strings stay empty) leaves the skeleton of the written condition unchanged. -/
theorem skel_tagFrags_map {g} (hg : KeepsEmpty g) (c : Cfg) (isIn : Bool) (x : Nat) (f : TagFilter) :
    skel (tagFrags c isIn x (mapFilter g f)) = skel (tagFrags c isIn x f) := by
  simp only [tagFrags, isEmpty_map hg]
  split
  · rfl
  · simp only [skel, skel_append, tagAtoms_map hg]
    congr 2
    apply skel_joinFrags_congr
    simp [List.map_map, Function.comp_def, skel_mapAtom]




/-! ### what the requested filter means -/

def emptyRow (raw : Bool) (r : TagRow) : Bool := r.n == 0 && (raw || r.s.isEmpty)

/-- does the row's tag match one requested value? -/
def valMatches (raw : Bool) (r : TagRow) (v : TagValue) : Bool :=
  if v.empty then emptyRow raw r
  else (v.isMapped && r.n == v.mapped) || (!raw && v.hasValue && r.s == v.value)

/-- does the row's tag match the requested filter (some value, or the regular expression)? -/
def requested (re : Bytes → Bytes → Bool) (raw : Bool) (f : TagFilter) (r : TagRow) : Bool :=
  f.values.any (valMatches raw r) || (!raw && !f.re2.isEmpty && re f.re2 r.s)

/-- caller invariant for filters with a regular expression -/
def RegexCovers (re : Bytes → Bytes → Bool) (raw : Bool) (f : TagFilter) : Prop :=
  raw = false → f.re2.isEmpty = false → ∀ v ∈ f.values, v.empty = false → v.hasValue = true → re f.re2 v.value = true

theorem any_valMatches (raw : Bool) (r : TagRow) (f : TagFilter) :
    f.values.any (valMatches raw r) =
      ((mappedIds f).contains r.n || (!raw && (strVals f).contains r.s) || (hasEmpty f && emptyRow raw r)) := by
  obtain ⟨vs, re2⟩ := f
  simp only [mappedIds, strVals, hasEmpty, liveValues]
  induction vs with
  | nil => simp
  | cons v vs ih =>
    simp only [List.any_cons, ih, List.filter_cons]
    by_cases he : v.empty = true
    · simp [valMatches, he]
      cases emptyRow raw r <;> simp
    · have he' : v.empty = false := by simpa using he
      cases hm : v.isMapped <;> cases hv : v.hasValue <;> cases raw <;>
        simp [valMatches, he', hm, hv]
      all_goals ac_rfl


def negAtom : Atom → Atom
  | .constF => .constT
  | .constT => .constF
  | .intIn neg ids => .intIn (!neg) ids
  | .strIn neg vals => .strIn (!neg) vals
  | .reMatch neg p => .reMatch (!neg) p
  | .isEmpty neg raw => .isEmpty (!neg) raw

theorem eval_negate (re : Bytes → Bytes → Bool) (r : TagRow) (a : Atom) : (negAtom a).eval re r = !a.eval re r := by
  cases a with
  | constF => rfl
  | constT => rfl
  | intIn neg ids => cases neg <;> simp [negAtom, Atom.eval]
  | strIn neg vals => cases neg <;> simp [negAtom, Atom.eval]
  | reMatch neg p => cases neg <;> simp [negAtom, Atom.eval]
  | isEmpty neg raw => cases neg <;> simp [negAtom, Atom.eval]

/-- the negative filter writes, clause by clause, the negation of what the positive filter writes -/
theorem tagAtoms_false (raw : Bool) (f : TagFilter) : tagAtoms false raw f = (tagAtoms true raw f).map negAtom := by
  simp only [tagAtoms, mappedAtom, stringAtoms, emptyAtoms, List.map_cons, List.map_append]
  congr 1
  · split <;> simp [negAtom]
  · congr 1
    · cases raw
      · simp only [Bool.false_eq_true, if_false]
        split
        · simp [negAtom]
        · split <;> simp [negAtom]
      · simp
    · split <;> simp [negAtom]

theorem all_map_negate (re : Bytes → Bytes → Bool) (r : TagRow) (l : List Atom) :
    (l.map negAtom).all (Atom.eval re r) = !l.any (Atom.eval re r) := by
  induction l with
  | nil => rfl
  | cons a l ih => simp [ih, eval_negate]

theorem any_tagAtoms_true (re : Bytes → Bytes → Bool) (raw : Bool) (f : TagFilter) (r : TagRow) :
    (tagAtoms true raw f).any (Atom.eval re r) =
      ((mappedIds f).contains r.n ||
       (!raw && (if f.re2.isEmpty then (strVals f).contains r.s else re f.re2 r.s)) ||
       (hasEmpty f && emptyRow raw r)) := by
  have h1 : (mappedAtom true f).eval re r = (mappedIds f).contains r.n := by
    simp only [mappedAtom]
    split
    · rename_i h; simp [Atom.eval, List.isEmpty_iff.mp h]
    · simp [Atom.eval]
  have h2 : (stringAtoms true raw f).any (Atom.eval re r) =
      (!raw && (if f.re2.isEmpty then (strVals f).contains r.s else re f.re2 r.s)) := by
    simp only [stringAtoms]
    cases raw
    · by_cases hre : f.re2.isEmpty = true
      · simp [hre]
        split
        · rename_i h; simp [h]
        · simp [Atom.eval]
      · simp [hre, Atom.eval]
    · simp
  have h3 : (emptyAtoms true raw f).any (Atom.eval re r) = (hasEmpty f && emptyRow raw r) := by
    simp only [emptyAtoms]
    split
    · rename_i h; simp [Atom.eval, h, emptyRow]
    · rename_i h; simp [h]
  simp only [tagAtoms, List.any_cons, List.any_append, h1, h2, h3, Bool.or_assoc]

theorem strVals_covered (re : Bytes → Bytes → Bool) (f : TagFilter) (s : Bytes)
    (h : ∀ v ∈ f.values, v.empty = false → v.hasValue = true → re f.re2 v.value = true)
    (hs : (strVals f).contains s = true) : re f.re2 s = true := by
  simp only [strVals, liveValues, List.contains_iff_mem, List.mem_map, List.mem_filter] at hs
  obtain ⟨v, ⟨⟨hv, he⟩, hh⟩, rfl⟩ := hs
  exact h v hv (by simpa using he) hh

/-! ### parentheses of the skeleton balance -/

/-- depth after reading `b` starting at depth `d`; `none` if a `)` closes below zero -/
def bal : Nat → Bytes → Option Nat
  | d, [] => some d
  | d, c :: r =>
    if c = 40 then bal (d + 1) r
    else if c = 41 then (match d with | 0 => none | d' + 1 => bal d' r)
    else bal d r

/-- reading `b` at any depth ≥ i is fine and moves the depth from `d+i` to `d+o` -/
def St (b : Bytes) (i o : Nat) : Prop := ∀ d, bal (d + i) b = some (d + o)

theorem bal_append (a b : Bytes) : ∀ d, bal d (a ++ b) = (bal d a).bind (fun e => bal e b) := by
  induction a with
  | nil => intro d; simp [bal]
  | cons c a ih =>
    intro d
    simp only [List.cons_append, bal]
    split
    · exact ih _
    · split
      · cases d with
        | zero => simp
        | succ d' => exact ih _
      · exact ih _

theorem St_append {a b : Bytes} {i m o : Nat} (ha : St a i m) (hb : St b m o) : St (a ++ b) i o := by
  intro d; rw [bal_append, ha d]; exact hb d

theorem St_shift {a : Bytes} {i o : Nat} (k : Nat) (h : St a i o) : St a (i + k) (o + k) := by
  intro d
  have := h (d + k)
  rw [show d + (i + k) = d + k + i by omega, show d + (o + k) = d + k + o by omega]
  exact this

theorem bal_shift : ∀ (a : Bytes) (i o : Nat), bal i a = some o → ∀ d, bal (d + i) a = some (d + o) := by
  intro a
  induction a with
  | nil => intro i o h d; simp [bal] at h ⊢; omega
  | cons c a ih =>
    intro i o h d
    simp only [bal] at h ⊢
    split
    · rename_i hc; simp only [hc, if_true] at h; exact ih _ _ h d
    · rename_i hc
      simp only [hc, if_false] at h
      split
      · rename_i hc2
        simp only [hc2, if_true] at h
        cases i with
        | zero => simp at h
        | succ i' =>
          simp only at h
          have := ih _ _ h d
          rw [show d + (i' + 1) = (d + i') + 1 by omega]
          exact this
      · rename_i hc2; simp only [hc2, if_false] at h; exact ih _ _ h d

theorem St_of_bal {a : Bytes} {i o : Nat} (h : bal i a = some o) : St a i o := bal_shift a i o h

/-- no parenthesis at all -/
def NoP (b : Bytes) : Prop := ∀ c ∈ b, c ≠ 40 ∧ c ≠ 41
instance (b : Bytes) : Decidable (NoP b) := inferInstanceAs (Decidable (∀ c ∈ b, c ≠ 40 ∧ c ≠ 41))

theorem St_of_NoP {b : Bytes} (h : NoP b) (i : Nat) : St b i i := by
  induction b with
  | nil => intro d; rfl
  | cons c b ih =>
    intro d
    have hc := h c (by simp)
    simp only [bal, hc.1, hc.2, if_false]
    exact ih (fun x hx => h x (by simp [hx])) d

theorem NoP_nil : NoP [] := by simp [NoP]
theorem NoP_append {a b : Bytes} (ha : NoP a) (hb : NoP b) : NoP (a ++ b) := by
  intro c hc; rcases List.mem_append.mp hc with h | h
  · exact ha c h
  · exact hb c h
theorem NoP_cons {c : UInt8} {b : Bytes} (hc : c ≠ 40 ∧ c ≠ 41) (hb : NoP b) : NoP (c :: b) := by
  intro x hx; rcases List.mem_cons.mp hx with h | h
  · exact h ▸ hc
  · exact hb x h

theorem digit_ne_p : ∀ k, k < 10 → (48 + k).toUInt8 ≠ 40 ∧ (48 + k).toUInt8 ≠ 41 := by decide

theorem NoP_digitsAux : ∀ (fuel n : Nat) (acc : Bytes), NoP acc → NoP (digitsAux fuel n acc) := by
  intro fuel
  induction fuel with
  | zero => intro n acc h; simpa [digitsAux] using h
  | succ k ih =>
    intro n acc h
    simp only [digitsAux]
    split
    · exact NoP_cons (digit_ne_p n ‹_›) h
    · exact ih _ _ (NoP_cons (digit_ne_p _ (Nat.mod_lt _ (by decide))) h)

theorem NoP_natBytes (n : Nat) : NoP (natBytes n) := NoP_digitsAux _ _ _ NoP_nil

theorem NoP_itoa (i : Int) : NoP (itoa i) := by
  simp only [itoa]
  split
  · exact NoP_cons (by decide) (NoP_natBytes _)
  · exact NoP_natBytes _

theorem NoP_commaInts : ∀ l : List Int, NoP (commaInts l)
  | [] => NoP_nil
  | [a] => by simpa [commaInts] using NoP_itoa a
  | a :: b :: rest => by
    simp only [commaInts]
    exact NoP_append (NoP_itoa a) (NoP_cons (by decide) (NoP_commaInts (b :: rest)))

theorem NoP_skel_commaLits : ∀ vals : List Bytes, NoP (skel (commaLits vals))
  | [] => NoP_nil
  | [a] => by simpa [commaLits, skel] using NoP_cons (c := 63) (by decide) NoP_nil
  | a :: b :: rest => by
    simp only [commaLits, skel, List.cons_append, List.nil_append]
    exact NoP_cons (by decide) (NoP_cons (by decide) (NoP_skel_commaLits (b :: rest)))

theorem St_opText (neg : Bool) (i : Nat) : St (opText neg) i i := by
  have : St (opText neg) 0 0 := by cases neg <;> exact St_of_bal (by decide)
  simpa using St_shift i this
theorem St_notText (neg : Bool) (i : Nat) : St (notText neg) i i := by
  have : St (notText neg) 0 0 := by cases neg <;> exact St_of_bal (by decide)
  simpa using St_shift i this
theorem St_sepText (b : Bool) (i : Nat) : St (sepText b) i i := by
  have : St (sepText b) 0 0 := by cases b <;> exact St_of_bal (by decide)
  simpa using St_shift i this

theorem St_colInt (c : Cfg) (x i : Nat) : St (colInt c x) i i := by
  apply St_of_NoP
  simp only [colInt]
  split
  · decide
  · exact NoP_append (by decide) (NoP_natBytes x)

theorem St_colStr (x i : Nat) : St (colStr x) i i :=
  St_of_NoP (NoP_append (by decide) (NoP_natBytes x)) i

theorem St_raw64Expr (c : Cfg) (x : Nat) : St (raw64Expr c x) 0 0 := by
  simp only [raw64Expr]
  exact St_append (St_append (St_append (St_append (St_of_bal (i := 0) (o := 4) (by decide)) (St_colInt c _ 4))
    (St_of_bal (i := 4) (o := 2) (by decide))) (St_colInt c _ 2)) (St_of_bal (i := 2) (o := 0) (by decide))

theorem St_whereIntExpr (c : Cfg) (x i : Nat) : St (whereIntExpr c x) i i := by
  have : St (whereIntExpr c x) 0 0 := by
    simp only [whereIntExpr]
    split
    · exact St_of_bal (by decide)
    · split
      · split
        · exact St_of_NoP (NoP_append (by decide) (NoP_natBytes x)) 0
        · exact St_raw64Expr c x
      · exact St_colInt c x 0
  simpa using St_shift i this

theorem St_atom (intE strE : Bytes) (hi : ∀ i, St intE i i) (hs : ∀ i, St strE i i) (a : Atom) :
    St (skel (a.frags intE strE)) 0 0 := by
  have open1 : St (str "(") 0 1 := St_of_bal (by decide)
  have close1 : St (str ")") 1 0 := St_of_bal (by decide)
  cases a with
  | constF => simpa [Atom.frags, skel] using (St_of_bal (i := 0) (o := 0) (a := str "0!=0") (by decide))
  | constT => simpa [Atom.frags, skel] using (St_of_bal (i := 0) (o := 0) (a := str "0=0") (by decide))
  | intIn neg ids =>
    simp only [Atom.frags, skel, List.append_nil]
    exact St_append (St_append (St_append (St_append (hi 0) (St_opText neg 0)) open1) (St_of_NoP (NoP_commaInts ids) 1)) close1
  | strIn neg vals =>
    simp only [Atom.frags, skel, skel_append, List.append_nil]
    exact St_append (St_append (St_append (hs 0) (St_opText neg 0)) open1)
      (St_append (St_of_NoP (NoP_skel_commaLits vals) 1) close1)
  | reMatch neg re =>
    simp only [Atom.frags, skel, List.append_nil]
    have h1 : St (notText neg ++ str "match(" ++ strE ++ str ",") 0 1 :=
      St_append (St_append (St_append (St_notText neg 0) (St_of_bal (i := 0) (o := 1) (by decide))) (hs 1))
        (St_of_bal (i := 1) (o := 1) (by decide))
    have h2 : St (63 :: str ")") 1 0 := St_of_bal (by decide)
    exact St_append h1 h2
  | isEmpty neg raw =>
    cases raw with
    | true =>
      simp only [Atom.frags, skel, if_true, List.append_nil]
      exact St_append (St_append (St_append (St_notText neg 0) open1) (hi 1)) (St_of_bal (i := 1) (o := 0) (by decide))
    | false =>
      simp only [Atom.frags, skel, Bool.false_eq_true, if_false, List.append_nil]
      have h1 : St (notText neg ++ str "(" ++ intE ++ str "=0 AND " ++ strE ++ str "=") 0 1 :=
        St_append (St_append (St_append (St_append (St_append (St_notText neg 0) open1) (hi 1))
          (St_of_bal (i := 1) (o := 1) (by decide))) (hs 1)) (St_of_bal (i := 1) (o := 1) (by decide))
      have h2 : St (63 :: str ")") 1 0 := St_of_bal (by decide)
      exact St_append h1 h2

theorem St_joinFrags (sep : Bytes) (hsep : St sep 0 0) : ∀ l : List (List Frag), (∀ a ∈ l, St (skel a) 0 0) →
    St (skel (joinFrags sep l)) 0 0
  | [], _ => by intro d; rfl
  | [a], h => by simpa [joinFrags] using h a (by simp)
  | a :: b :: rest, h => by
    simp only [joinFrags, skel_append, skel]
    exact St_append (h a (by simp)) (St_append hsep (St_joinFrags sep hsep (b :: rest) (fun x hx => h x (by simp [hx]))))

theorem St_tagFrags (c : Cfg) (isIn : Bool) (x : Nat) (f : TagFilter) : St (skel (tagFrags c isIn x f)) 0 0 := by
  simp only [tagFrags]
  split
  · intro d; rfl
  · simp only [skel, skel_append, List.append_nil]
    have inner := St_joinFrags (sepText isIn) (St_sepText isIn 0)
      ((tagAtoms isIn (isRaw c x) f).map (Atom.frags (whereIntExpr c x) (colStr x))) (by
        intro a ha
        obtain ⟨at', _, rfl⟩ := List.mem_map.mp ha
        exact St_atom _ _ (St_whereIntExpr c x) (St_colStr x) at')
    have inner1 := St_shift 1 inner
    exact St_append (St_of_bal (i := 0) (o := 1) (by decide)) (St_append (by simpa using inner1) (St_of_bal (i := 1) (o := 0) (by decide)))

theorem St_flatMap {α} (g : α → List Frag) (hg : ∀ x, St (skel (g x)) 0 0) : ∀ l : List α, St (skel (l.flatMap g)) 0 0
  | [] => by intro d; rfl
  | x :: l => by
    simp only [List.flatMap_cons, skel_append]
    exact St_append (hg x) (St_flatMap g hg l)

theorem St_metricFrags (c : Cfg) : St (skel (metricFrags c)) 0 0 := by
  have close1 : St (str ")") 1 0 := St_of_bal (by decide)
  simp only [metricFrags, metricList]
  split
  · simp only [skel, List.append_nil]
    exact St_append (St_of_bal (i := 0) (o := 0) (by decide)) (St_of_NoP (NoP_itoa _) 0)
  · rw [skel_append]
    refine St_append (m := 0) ?_ ?_
    · split
      · intro d; rfl
      · simp only [skel, List.append_nil]
        exact St_append (St_append (St_of_bal (i := 0) (o := 1) (by decide)) (St_of_NoP (NoP_commaInts _) 1)) close1
    · split
      · intro d; rfl
      · simp only [skel, List.append_nil]
        exact St_append (St_append (St_of_bal (i := 0) (o := 1) (by decide)) (St_of_NoP (NoP_commaInts _) 1)) close1

/-- **Well-formedness (parentheses).** In the where text outside the literals, parentheses balance and no `)` closes
    below depth zero — for every configuration and all filters. -/
theorem where_skeleton_balanced (c : Cfg) (fin fnotin : Filters) : bal 0 (skel (whereFrags c fin fnotin)) = some 0 := by
  have base : St (skel (baseFrags c)) 0 0 := by
    simp only [baseFrags, skel]
    have h1 : St (str " WHERE time>=" ++ itoa c.fromSec ++ str " AND time<" ++ itoa c.toSec ++
        str " AND index_type=0 AND pre_tag=0 AND pre_stag=") 0 0 :=
      St_append (St_append (St_append (St_append (St_of_bal (i := 0) (o := 0) (by decide)) (St_of_NoP (NoP_itoa _) 0))
        (St_of_bal (i := 0) (o := 0) (by decide))) (St_of_NoP (NoP_itoa _) 0)) (St_of_bal (i := 0) (o := 0) (by decide))
    exact St_append h1 (St_of_bal (i := 0) (o := 0) (by decide))
  have h : St (skel (whereFrags c fin fnotin)) 0 0 := by
    simp only [whereFrags, skel_append, tagFilterFrags]
    exact St_append (St_append (St_append base (St_metricFrags c))
      (St_flatMap _ (fun x => St_tagFrags c true x _) _)) (St_flatMap _ (fun x => St_tagFrags c false x _) _)
  simpa using h 0



/-! ### the complete query texts: everything the builder writes outside the where-clause is quote-free and balanced -/

/-- quote-free text whose parentheses balance on their own -/
def Neutral (b : Bytes) : Prop := NoQ b ∧ St b 0 0

theorem Neutral.st {b : Bytes} (h : Neutral b) (i : Nat) : St b i i := by simpa using St_shift i h.2

theorem Neutral_nil : Neutral [] := ⟨NoQ_nil, fun _ => rfl⟩
theorem Neutral_append {a b : Bytes} (ha : Neutral a) (hb : Neutral b) : Neutral (a ++ b) :=
  ⟨NoQ_append.mpr ⟨ha.1, hb.1⟩, St_append ha.2 hb.2⟩
theorem Neutral_of {b : Bytes} (h1 : NoQ b) (h2 : NoP b) : Neutral b := ⟨h1, St_of_NoP h2 0⟩
theorem Neutral_const {b : Bytes} (h1 : NoQ b) (h2 : bal 0 b = some 0) : Neutral b := ⟨h1, St_of_bal h2⟩
theorem Neutral_cons {c : UInt8} {b : Bytes} (hc : c ≠ q ∧ c ≠ 40 ∧ c ≠ 41) (hb : Neutral b) : Neutral (c :: b) := by
  have : Neutral [c] := Neutral_of (NoQ_cons.mpr ⟨hc.1, NoQ_nil⟩) (NoP_cons ⟨hc.2.1, hc.2.2⟩ NoP_nil)
  exact Neutral_append this hb

theorem Neutral_natBytes (n : Nat) : Neutral (natBytes n) := Neutral_of (NoQ_natBytes n) (NoP_natBytes n)
theorem Neutral_itoa (i : Int) : Neutral (itoa i) := Neutral_of (NoQ_itoa i) (NoP_itoa i)
theorem Neutral_colInt (c : Cfg) (x : Nat) : Neutral (colInt c x) := ⟨NoQ_colInt c x, St_colInt c x 0⟩
theorem Neutral_colStr (x : Nat) : Neutral (colStr x) := ⟨NoQ_colStr x, St_colStr x 0⟩
theorem Neutral_raw64Expr (c : Cfg) (x : Nat) : Neutral (raw64Expr c x) := ⟨NoQ_raw64Expr c x, St_raw64Expr c x⟩

theorem Neutral_lodTable (step : Int) : Neutral (lodTable step) := by
  simp only [lodTable]
  split
  · exact Neutral_const (by decide) (by decide)
  · split
    · exact Neutral_const (by decide) (by decide)
    · split
      · exact Neutral_const (by decide) (by decide)
      · exact Neutral_nil

theorem Neutral_tableName (e : QCfg) : Neutral (tableName e) := by
  simp only [tableName]
  refine Neutral_append (Neutral_lodTable _) ?_
  split
  · exact Neutral_nil
  · exact Neutral_const (by decide) (by decide)

theorem Neutral_selAlias (c : Cfg) (x : Nat) : Neutral (selAlias c x) := by
  simp only [selAlias]
  split
  · exact Neutral_const (by decide) (by decide)
  · split
    · exact Neutral_append (Neutral_const (by decide) (by decide)) (Neutral_natBytes x)
    · exact Neutral_colInt c x

theorem Neutral_selectIntText (c : Cfg) (x : Nat) : Neutral (selectIntText c x) := by
  simp only [selectIntText]
  split
  · exact Neutral_const (by decide) (by decide)
  · split
    · exact Neutral_append (Neutral_append (Neutral_raw64Expr c x) (Neutral_const (by decide) (by decide))) (Neutral_selAlias c x)
    · exact Neutral_colInt c x

theorem Neutral_commaItems : ∀ l : List Bytes, (∀ a ∈ l, Neutral a) → Neutral (commaItems l)
  | [], _ => Neutral_nil
  | a :: rest, h => by
    simp only [commaItems]
    exact Neutral_cons (by decide) (Neutral_append (h a (by simp)) (Neutral_commaItems rest (fun x hx => h x (by simp [hx]))))

theorem Neutral_dirText (e : QCfg) : Neutral (dirText e) := by
  simp only [dirText]
  split
  · exact Neutral_const (by decide) (by decide)
  · exact Neutral_nil

theorem Neutral_byTags (c : Cfg) (dir : Bytes) (hd : Neutral dir) : ∀ l : List Int, Neutral (byTags c dir l)
  | [] => Neutral_nil
  | x :: xs => by
    simp only [byTags]
    refine Neutral_append ?_ (Neutral_byTags c dir hd xs)
    split
    · exact Neutral_append (Neutral_const (by decide) (by decide)) hd
    · exact Neutral_cons (by decide) (Neutral_append (Neutral_append (Neutral_selAlias c _) hd)
        (Neutral_cons (by decide) (Neutral_append (Neutral_colStr _) hd)))

theorem Neutral_tagCols (c : Cfg) : ∀ l : List Int, ∀ a ∈ tagCols c l, Neutral a
  | [], a, h => by simp [tagCols] at h
  | x :: xs, a, h => by
    simp only [tagCols, List.mem_append] at h
    rcases h with h | h
    · split at h
      · simp at h; subst h; exact Neutral_const (by decide) (by decide)
      · simp at h
        rcases h with h | h
        · subst h; exact Neutral_selectIntText c _
        · subst h; exact Neutral_colStr _
    · exact Neutral_tagCols c xs a h

theorem Neutral_hostCols (e : QCfg) (has : List Nat) : ∀ a ∈ hostCols e has, Neutral a := by
  intro a h
  simp only [hostCols, List.mem_append] at h
  rcases h with h | h
  · split at h
    · simp at h; subst h; exact Neutral_const (by decide) (by decide)
    · simp at h
  · split at h
    · simp at h; subst h
      refine Neutral_append ?_ (Neutral_const (by decide) (by decide))
      split <;> exact Neutral_const (by decide) (by decide)
    · simp at h

/-! the value columns written by the loop of writeSelectValues -/

def ColsOK (s : SelSt) : Prop := ∀ a ∈ s.cols, Neutral a

theorem ColsOK_addCol {expr : Bytes} {s : SelSt} (he : Neutral expr) (h : ColsOK s) : ColsOK (addCol expr s) := by
  intro a ha
  simp only [addCol, List.mem_append, List.mem_singleton] at ha
  rcases ha with ha | ha
  · exact h a ha
  · subst ha
    exact Neutral_append (Neutral_append he (Neutral_const (by decide) (by decide))) (Neutral_natBytes _)

theorem ColsOK_ensureCol {k : Nat} {expr : Bytes} {s : SelSt} (he : Neutral expr) (h : ColsOK s) :
    ColsOK (ensureCol k expr s) := by
  simp only [ensureCol]
  split
  · exact h
  · exact ColsOK_addCol he h

theorem Neutral_sumE : Neutral sumE := Neutral_const (by decide) (by decide)
theorem Neutral_countE : Neutral countE := Neutral_const (by decide) (by decide)

theorem ColsOK_selKind {w : Nat} {s s' : SelSt} (h : ColsOK s) (hs : selKind w s = some s') : ColsOK s' := by
  have hsc : ColsOK (ensureCol 2 countE (ensureCol 5 sumE s)) :=
    ColsOK_ensureCol Neutral_countE (ColsOK_ensureCol Neutral_sumE h)
  have cst : ∀ b : Bytes, NoQ b → bal 0 b = some 0 → ColsOK (addCol b s) :=
    fun b h1 h2 => ColsOK_addCol (Neutral_const h1 h2) h
  simp only [selKind] at hs
  split at hs
  · injection hs with hs; subst hs; exact hsc
  split at hs
  · injection hs with hs; subst hs; exact ColsOK_addCol Neutral_countE h
  split at hs
  · injection hs with hs; subst hs; exact cst _ (by decide) (by decide)
  split at hs
  · injection hs with hs; subst hs; exact cst _ (by decide) (by decide)
  split at hs
  · injection hs with hs; subst hs; exact ColsOK_addCol Neutral_sumE h
  split at hs
  · injection hs with hs; subst hs; exact ColsOK_addCol (Neutral_const (by decide) (by decide)) hsc
  split at hs
  · injection hs with hs; subst hs; exact cst _ (by decide) (by decide)
  split at hs
  · injection hs with hs; subst hs; exact cst _ (by decide) (by decide)
  split at hs
  · injection hs with hs; subst hs; exact cst _ (by decide) (by decide)
  · cases hs

theorem ColsOK_selStep {w : Nat} {s s' : SelSt} (h : ColsOK s) (hs : selStep w s = some s') : ColsOK s' := by
  simp only [selStep] at hs
  split at hs
  · injection hs with hs; subst hs; exact h
  · split at hs
    · cases hs
    · rename_i s1 hk
      injection hs with hs; subst hs
      intro a ha
      exact ColsOK_selKind h hk a ha

theorem ColsOK_selLoop : ∀ (ws : List Nat) (s s' : SelSt), ColsOK s → selLoop ws s = some s' → ColsOK s'
  | [], s, s', h, hs => by simp only [selLoop] at hs; injection hs with hs; subst hs; exact h
  | w :: ws, s, s', h, hs => by
    simp only [selLoop] at hs
    split at hs
    · cases hs
    · rename_i s1 h1
      exact ColsOK_selLoop ws s1 s' (ColsOK_selStep h h1) hs


/-- preconditions on configuration (not on filter values): the time-zone name written unescaped between quotes for the
    1-month step contains no quote or backslash, and the operator's SETTINGS text contains no quote or parenthesis -/
structure QOK (e : QCfg) : Prop where
  loc : (e.step == stepMonth) = true → Plain e.loc
  settingsQ : NoQ e.settings
  settingsP : NoP e.settings

theorem Neutral_settings {e : QCfg} (h : QOK e) : Neutral e.settings := Neutral_of h.settingsQ h.settingsP

theorem Good_timeFrags {e : QCfg} (h : QOK e) : Good (timeFrags e) := by
  simp only [timeFrags]
  split
  · rename_i hm
    exact Good_raw_qraw_cons (by decide) (by decide) (h.loc hm)
      (Good_raw_qraw_cons (by decide) (by decide) (h.loc hm) (Good_raw_cons (by decide) Good_nil))
  · refine Good_raw_cons ?_ Good_nil
    exact NoQ_append.mpr ⟨NoQ_append.mpr ⟨NoQ_append.mpr ⟨NoQ_append.mpr ⟨NoQ_append.mpr ⟨by decide, NoQ_itoa _⟩, by decide⟩,
      NoQ_itoa _⟩, by decide⟩, NoQ_itoa _⟩

theorem St_timeFrags (e : QCfg) : St (skel (timeFrags e)) 0 0 := by
  simp only [timeFrags]
  split
  · simp only [skel, List.append_nil]
    exact St_of_bal (by decide)
  · simp only [skel, List.append_nil]
    exact St_append (St_append (St_append (St_append (St_append (St_of_bal (i := 0) (o := 2) (by decide))
      ((Neutral_itoa _).st 2)) (St_of_bal (i := 2) (o := 2) (by decide))) ((Neutral_itoa _).st 2))
      (St_of_bal (i := 2) (o := 0) (by decide))) ((Neutral_itoa _).st 0)

theorem lits_timeFrags (e : QCfg) : lits (timeFrags e) = if e.step == stepMonth then [e.loc, e.loc] else [] := by
  simp only [timeFrags]; split <;> rfl

theorem Neutral_seriesTail (c : Cfg) {e : QCfg} (h : QOK e) : Neutral (seriesTail c e) := by
  simp only [seriesTail]
  refine Neutral_append (Neutral_append (Neutral_append (Neutral_const (by decide) (by decide)) (Neutral_byTags c _ Neutral_nil _)) ?_)
    (Neutral_settings h)
  split
  · exact Neutral_append (Neutral_const (by decide) (by decide)) (Neutral_itoa _)
  · exact Neutral_append (Neutral_append (Neutral_append (Neutral_append (Neutral_const (by decide) (by decide)) (Neutral_dirText e))
      (Neutral_byTags c _ (Neutral_dirText e) _)) (Neutral_const (by decide) (by decide))) (Neutral_itoa _)

theorem Neutral_seriesHead (c : Cfg) (e : QCfg) (s : SelSt) (hs : ColsOK s) :
    Neutral (str " AS _time" ++ commaItems (s.cols ++ hostCols e s.has ++ tagCols c c.groupBy) ++ str " FROM " ++ tableName e) := by
  refine Neutral_append (Neutral_append (Neutral_append (Neutral_const (by decide) (by decide)) (Neutral_commaItems _ ?_))
    (Neutral_const (by decide) (by decide))) (Neutral_tableName e)
  intro a ha
  simp only [List.mem_append] at ha
  rcases ha with (ha | ha) | ha
  · exact hs a ha
  · exact Neutral_hostCols e _ a ha
  · exact Neutral_tagCols c _ a ha

theorem Good_raw_single {b : Bytes} (h : NoQ b) : Good [.raw b] := Good_raw_cons h Good_nil

theorem seriesFrags_good (c : Cfg) {e : QCfg} (h : QOK e) (fin fnotin : Filters) (fs : List Frag)
    (hf : seriesFrags c e fin fnotin = some fs) : Good fs ∧ St (skel fs) 0 0 := by
  simp only [seriesFrags] at hf
  split at hf
  · cases hf
  · rename_i s hs
    injection hf with hf; subst hf
    have hc : ColsOK s := ColsOK_selLoop _ _ _ (by intro a ha; cases ha) hs
    have hh := Neutral_seriesHead c e s hc
    have ht := Neutral_seriesTail c h
    constructor
    · exact Good_raw_cons (by decide) (Good_append (Good_timeFrags h)
        (Good_raw_cons hh.1 (Good_append (Good_whereFrags c fin fnotin) (Good_raw_single ht.1))))
    · simp only [skel, skel_append, List.append_nil]
      exact St_append (St_of_bal (i := 0) (o := 0) (by decide)) (St_append (St_timeFrags e)
        (St_append hh.2 (St_append (St_of_bal (where_skeleton_balanced c fin fnotin)) ht.2)))

theorem Neutral_tvByTags (c : Cfg) (e : QCfg) : Neutral (tvByTags c e) := by
  simp only [tvByTags]
  refine Neutral_append (Neutral_selAlias c _) ?_
  split
  · exact Neutral_cons (by decide) (Neutral_colStr _)
  · exact Neutral_nil

theorem tagValuesFrags_good (c : Cfg) {e : QCfg} (h : QOK e) (fin fnotin : Filters) :
    Good (tagValuesFrags c e fin fnotin) ∧ St (skel (tagValuesFrags c e fin fnotin)) 0 0 := by
  have hh : Neutral (str "SELECT " ++ selectIntText c (tagX e) ++ (if hasStr c e then 44 :: colStr (tagX e) else []) ++
        str ",toFloat64(sum(count)) AS _count FROM " ++ tableName e) := by
    refine Neutral_append (Neutral_append (Neutral_append (Neutral_append (Neutral_const (by decide) (by decide))
      (Neutral_selectIntText c _)) ?_) (Neutral_const (by decide) (by decide))) (Neutral_tableName e)
    split
    · exact Neutral_cons (by decide) (Neutral_colStr _)
    · exact Neutral_nil
  have ht : Neutral (str " GROUP BY " ++ tvByTags c e ++ str " HAVING _count>0 ORDER BY _count DESC," ++ tvByTags c e ++
             str " LIMIT " ++ itoa (e.numResults + 1) ++ e.settings) :=
    Neutral_append (Neutral_append (Neutral_append (Neutral_append (Neutral_append (Neutral_append
      (Neutral_const (by decide) (by decide)) (Neutral_tvByTags c e)) (Neutral_const (by decide) (by decide)))
      (Neutral_tvByTags c e)) (Neutral_const (by decide) (by decide))) (Neutral_itoa _)) (Neutral_settings h)
  simp only [tagValuesFrags]
  constructor
  · exact Good_raw_cons hh.1 (Good_append (Good_whereFrags c fin fnotin) (Good_raw_single ht.1))
  · simp only [skel, skel_append, List.append_nil]
    exact St_append hh.2 (St_append (St_of_bal (where_skeleton_balanced c fin fnotin)) ht.2)


end SH.C26
