/-
  SH.Lemmas.Sampler — helper lemmas about SH.Model.Sampler shared by SH.Props.C05 and SH.Props.C06:
  sorting is a permutation / yields a ratio-sorted list, partitions only split the row list into contiguous pieces,
  a generic "every callback of run satisfies P" induction.
-/
import SH.Model.Sampler

namespace SH.Sampler

/-! ### evs -/

@[simp] theorem evs_nil : evs [] = [] := rfl
@[simp] theorem evs_ev (e : Ev) (r : List Act) : evs (.ev e :: r) = e :: evs r := rfl
@[simp] theorem evs_setGroup (g : Group) (r : List Act) : evs (.setGroup g :: r) = evs r := rfl
@[simp] theorem evs_err (w : String) (r : List Act) : evs (.err w :: r) = evs r := rfl

@[simp] theorem evs_append (a b : List Act) : evs (a ++ b) = evs a ++ evs b := by
  induction a with
  | nil => rfl
  | cons x r ih => cases x <;> simp [ih]

@[simp] theorem evs_map_ev {α} (f : α → Ev) (l : List α) : evs (l.map (fun x => Act.ev (f x))) = l.map f := by
  induction l with
  | nil => rfl
  | cons x r ih => simp [ih]

/-- ids of the decision callbacks in a list of actions -/
def ids (a : List Act) : List Nat := (evs a).map (·.id)
/-- ids of a list of rows -/
def iids (l : List Item) : List Nat := l.map (·.id)

@[simp] theorem ids_append (a b : List Act) : ids (a ++ b) = ids a ++ ids b := by simp [ids]
@[simp] theorem iids_append (a b : List Item) : iids (a ++ b) = iids a ++ iids b := by simp [iids]
@[simp] theorem ids_nil : ids [] = [] := rfl

theorem ids_keepAll (l : List Item) : ids (keepAll l) = iids l := by
  simp [ids, keepAll, iids, keepEv, Function.comp_def]

/-! ### insertion sort -/

theorem insertBy_perm {α} (le : α → α → Bool) (x : α) (l : List α) : (insertBy le x l).Perm (x :: l) := by
  induction l with
  | nil => simp [insertBy]
  | cons y ys ih =>
    simp only [insertBy]
    split
    · exact List.Perm.refl _
    · exact (List.Perm.cons y ih).trans (List.Perm.swap x y ys)

theorem isort_perm {α} (le : α → α → Bool) (l : List α) : (isort le l).Perm l := by
  induction l with
  | nil => simp [isort]
  | cons x xs ih => exact (insertBy_perm le x _).trans (List.Perm.cons x ih)

theorem mem_isort {α} (le : α → α → Bool) (l : List α) (x : α) : x ∈ isort le l ↔ x ∈ l :=
  (isort_perm le l).mem_iff

/-- insertion sort output is pairwise ordered when `le` is total and transitive on the elements of the list -/
theorem insertBy_pairwise {α} (le : α → α → Bool) (S : α → Prop)
    (total : ∀ a b, S a → S b → le a b = true ∨ le b a = true)
    (trans : ∀ a b c, S a → S b → S c → le a b = true → le b c = true → le a c = true)
    (x : α) (l : List α) (hx : S x) (hl : ∀ y ∈ l, S y) (h : l.Pairwise (fun a b => le a b = true)) :
    (insertBy le x l).Pairwise (fun a b => le a b = true) := by
  induction l with
  | nil => simp [insertBy]
  | cons y ys ih =>
    simp only [insertBy]
    have hy : S y := hl y (by simp)
    have hys : ∀ z ∈ ys, S z := fun z hz => hl z (by simp [hz])
    rw [List.pairwise_cons] at h
    split
    · rename_i hxy
      refine List.pairwise_cons.2 ⟨?_, List.pairwise_cons.2 h⟩
      intro z hz
      rcases List.mem_cons.1 hz with rfl | hz
      · exact hxy
      · exact trans x y z hx hy (hys z hz) hxy (h.1 z hz)
    · rename_i hxy
      have hyx : le y x = true := by
        rcases total x y hx hy with h1 | h1
        · exact absurd h1 hxy
        · exact h1
      refine List.pairwise_cons.2 ⟨?_, ih hys h.2⟩
      intro z hz
      have : z ∈ x :: ys := (insertBy_perm le x ys).mem_iff.1 hz
      rcases List.mem_cons.1 this with rfl | hz
      · exact hyx
      · exact h.1 z hz

theorem isort_pairwise {α} (le : α → α → Bool) (S : α → Prop)
    (total : ∀ a b, S a → S b → le a b = true ∨ le b a = true)
    (trans : ∀ a b c, S a → S b → S c → le a b = true → le b c = true → le a c = true)
    (l : List α) (hl : ∀ y ∈ l, S y) : (isort le l).Pairwise (fun a b => le a b = true) := by
  induction l with
  | nil => simp [isort]
  | cons x xs ih =>
    simp only [isort]
    have hxs : ∀ y ∈ xs, S y := fun y hy => hl y (by simp [hy])
    exact insertBy_pairwise le S total trans x _ (hl x (by simp))
      (fun y hy => hxs y ((mem_isort le xs y).1 hy)) (ih hxs)

/-! ### runs -/

theorem runs_flatten (key : Item → Int) (l : List Item) : (runs key l).flatten = l := by
  induction l with
  | nil => rfl
  | cons x xs ih =>
    simp only [runs]
    split
    · rename_i y ys rest heq
      rw [heq] at ih
      split <;> simp_all
    · rename_i rest heq
      rw [heq] at ih
      simp_all
    · rename_i heq
      rw [heq] at ih
      simp_all

theorem runs_ne_nil (key : Item → Int) (l : List Item) : ∀ r ∈ runs key l, r ≠ [] := by
  induction l with
  | nil => simp [runs]
  | cons x xs ih =>
    simp only [runs]
    split
    · rename_i y ys rest heq
      rw [heq] at ih
      split
      · intro r hr
        rcases List.mem_cons.1 hr with rfl | hr
        · simp
        · exact ih r (by simp [hr])
      · intro r hr
        rcases List.mem_cons.1 hr with rfl | hr
        · simp
        · exact ih r hr
    · rename_i rest heq
      rw [heq] at ih
      exact absurd rfl (ih [] (by simp))
    · intro r hr
      simp at hr
      simp [hr]

/-! ### partitions only cut the row list into contiguous pieces -/

/-- all rows of a list of groups, in order -/
def gitems (gs : List Group) : List Item := gs.flatMap (·.items)

@[simp] theorem gitems_nil : gitems [] = [] := rfl
@[simp] theorem gitems_cons (g : Group) (gs : List Group) : gitems (g :: gs) = g.items ++ gitems gs := by
  simp [gitems]
@[simp] theorem gitems_append (a b : List Group) : gitems (a ++ b) = gitems a ++ gitems b := by
  simp [gitems]

theorem gitems_map (mk : List Item → Group) (h : ∀ r, (mk r).items = r) (rs : List (List Item)) :
    gitems (rs.map mk) = rs.flatten := by
  induction rs with
  | nil => rfl
  | cons r rs ih => simp [ih, h]

theorem partPlain_items (cfg : Cfg) (k : PartKind) (d : Nat) (l : List Item) (hk : k ≠ .byBudget) :
    gitems (partPlain cfg k d l) = l := by
  cases k with
  | byBudget => exact absurd rfl hk
  | byNs => simp only [partPlain]; rw [gitems_map _ (fun r => rfl)]; exact runs_flatten _ _
  | byGroup => simp only [partPlain]; rw [gitems_map _ (fun r => rfl)]; exact runs_flatten _ _
  | byMetric => simp only [partPlain]; rw [gitems_map _ (fun r => rfl)]; exact runs_flatten _ _
  | byKey => simp only [partPlain]; rw [gitems_map _ (fun r => rfl)]; exact runs_flatten _ _

theorem kindAfterBudget_ne (cfg : Cfg) : kindAfterBudget cfg ≠ .byBudget := by
  unfold kindAfterBudget
  split
  · simp
  · split <;> simp

theorem partBudget_items (cfg : Cfg) (d : Nat) (l : List Item) : gitems (partBudget cfg d l) = l := by
  simp only [partBudget, gitems_append]
  rw [gitems_map _ (fun r => rfl), partPlain_items _ _ _ _ (kindAfterBudget_ne cfg), ← List.flatten_append,
    List.takeWhile_append_dropWhile, runs_flatten]

theorem partition_items (cfg : Cfg) (g : Group) : gitems (partition cfg g) = g.items := by
  unfold partition
  split
  · exact partBudget_items _ _ _
  · rename_i k hk
    exact partPlain_items _ _ _ _ (fun h => hk (h ▸ rfl) |>.elim)

/-! ### the two loops of `run` visit every row once -/

theorem assign_items (B W : Int) (g : Group) : (assign B W g).items = g.items := by
  unfold assign; split <;> rfl

theorem ids_markKeep (g : Group) : ids (markKeep g) = [] := by
  unfold markKeep; split <;> rfl

theorem ids_markSample (cfg : Cfg) (g : Group) : ids (markSample cfg g) = [] := by
  unfold markSample; split <;> rfl

theorem loop_split_ids (B W : Int) (s : List Group) :
    ids (keptActs B W s) ++ iids (gitems (restGroups B W s)) = iids (gitems s) := by
  induction s generalizing B W with
  | nil => rfl
  | cons g gs ih =>
    simp only [keptActs, restGroups]
    split
    · simp [ids_markKeep, ids_keepAll, ih, List.append_assoc]
    · simp

theorem rounded_items (cfg : Cfg) (g : Group) (ds : List Nat) : (rounded cfg g ds).1.items = g.items := by
  unfold rounded
  split
  · rfl
  · split <;> rfl

theorem ids_rounded (cfg : Cfg) (g : Group) (ds : List Nat) : ids (rounded cfg g ds).2.2 = [] := by
  unfold rounded
  split
  · rfl
  · split <;> rfl

theorem selectRand_ids (num den : Int) (l : List Item) (ds : List Nat) :
    ids (selectRand num den l ds).1 = iids l := by
  induction l generalizing ds with
  | nil => rfl
  | cons it r ih =>
    cases ds with
    | nil => simp [selectRand, ids, iids, sfEv] at *; exact ih []
    | cons k ds => simp [selectRand, ids, iids, sfEv] at *; exact ih ds

theorem selectPart_ids (cfg : Cfg) (num den : Int) (l : List Item) (ds : List Nat) :
    ids (selectPart cfg num den l ds).1 = iids l := by
  unfold selectPart
  split
  · simp only [ids, iids, evs_append, evs_map_ev, List.map_append, List.map_map, Function.comp_def, sfEv]
    rw [← List.map_append, List.take_append_drop]
  · split
    · simp [ids, iids, sfEv, Function.comp_def]
    · exact selectRand_ids _ _ _ _

theorem sampleRows_ids (cfg : Cfg) (g : Group) (ds : List Nat) :
    (ids (sampleRows cfg g ds).1).Perm (iids g.items) := by
  unfold sampleRows
  split
  · rename_i h
    simp [List.isEmpty_iff] at h
    simp [h, iids]
  · split
    · rw [ids_keepAll]
    · split
      · rw [ids_keepAll]
      · split
        · simp only [ids_append, ids_keepAll, selectPart_ids]
          rw [← iids_append, List.take_append_drop]
          exact (isort_perm whaleLe g.items).map _
        · rw [selectPart_ids]

theorem sampleQuota_ids (g : Group) : ids (sampleQuota g) = iids g.items := by
  simp only [sampleQuota, ids, evs_map_ev, iids, List.map_map]
  apply List.map_congr_left
  intro it _
  simp only [Function.comp, quotaEv]
  split <;> rfl

theorem leaf_ids (cfg : Cfg) (g : Group) (ds : List Nat) : (ids (leaf cfg g ds).1).Perm (iids g.items) := by
  unfold leaf
  split
  · rw [sampleQuota_ids]
  · exact sampleRows_ids _ _ _

theorem sampleLoop_ids (cfg : Cfg) (rec : Group → List Nat → List Act × List Nat) (B W : Int)
    (hrec : ∀ g ds, (ids (rec g ds).1).Perm (iids g.items)) :
    ∀ gs ds, (ids (sampleLoop cfg rec B W gs ds).1).Perm (iids (gitems gs)) := by
  intro gs
  induction gs with
  | nil => intro ds; simp [sampleLoop, iids]
  | cons g gs ih =>
    intro ds
    simp only [sampleLoop, ids_append, ids_markSample, List.nil_append, gitems_cons, iids_append]
    refine List.Perm.append ?_ (ih _)
    unfold handle
    split
    · rw [ids_keepAll, assign_items]
    · split
      · simp only [ids_append, ids_rounded, List.nil_append]
        have := hrec (rounded cfg (assign B W g) ds).1 (rounded cfg (assign B W g) ds).2.1
        rwa [rounded_items, assign_items] at this
      · have := leaf_ids cfg (assign B W g) ds
        rwa [assign_items] at this

theorem run_ids (fuel : Nat) (cfg : Cfg) : ∀ g ds, (ids (run fuel cfg g ds).1).Perm (iids g.items) := by
  induction fuel with
  | zero =>
    intro g ds
    simp only [run, ids, evs_err]
    exact leaf_ids cfg g ds
  | succ n ih =>
    intro g ds
    simp only [run, ids_append]
    have h1 := sampleLoop_ids cfg (run n cfg) (restB g.budget (partWeight cfg g) (isort groupLe (partition cfg g)))
      (restW g.budget (partWeight cfg g) (isort groupLe (partition cfg g))) ih
      (restGroups g.budget (partWeight cfg g) (isort groupLe (partition cfg g))) ds
    have h2 := loop_split_ids g.budget (partWeight cfg g) (isort groupLe (partition cfg g))
    have h3 : (iids (gitems (isort groupLe (partition cfg g)))).Perm (iids g.items) := by
      rw [← partition_items cfg g]
      unfold gitems iids
      exact ((isort_perm groupLe (partition cfg g)).flatMap_right _).map _
    exact ((List.Perm.append_left _ h1).trans (h2 ▸ List.Perm.refl _)).trans h3

/-! ### a property shared by every callback -/

theorem mem_evs_append {a b : List Act} {e : Ev} : e ∈ evs (a ++ b) ↔ e ∈ evs a ∨ e ∈ evs b := by
  simp

theorem evs_markKeep (g : Group) : evs (markKeep g) = [] := by unfold markKeep; split <;> rfl
theorem evs_markSample (cfg : Cfg) (g : Group) : evs (markSample cfg g) = [] := by
  unfold markSample; split <;> rfl
theorem evs_rounded (cfg : Cfg) (g : Group) (ds : List Nat) : evs (rounded cfg g ds).2.2 = [] := by
  unfold rounded
  split
  · rfl
  · split <;> rfl

theorem keptActs_all (P : Ev → Prop) (hk : ∀ it, P (keepEv it)) (B W : Int) (s : List Group) :
    ∀ e ∈ evs (keptActs B W s), P e := by
  induction s generalizing B W with
  | nil => simp [keptActs]
  | cons g gs ih =>
    simp only [keptActs]
    split
    · intro e he
      simp only [evs_append, evs_markKeep, List.nil_append, List.mem_append] at he
      rcases he with he | he
      · simp only [keepAll, evs_map_ev, List.mem_map] at he
        obtain ⟨it, _, rfl⟩ := he
        exact hk it
      · exact ih _ _ e he
    · simp

/-- every callback of `run` satisfies `P` as soon as keep-with-factor-1 and every callback of a leaf do -/
theorem run_all (P : Ev → Prop) (cfg : Cfg) (hk : ∀ it, P (keepEv it))
    (hleaf : ∀ g ds, ∀ e ∈ evs (leaf cfg g ds).1, P e) (fuel : Nat) :
    ∀ g ds, ∀ e ∈ evs (run fuel cfg g ds).1, P e := by
  induction fuel with
  | zero => intro g ds e he; simp only [run, evs_err] at he; exact hleaf g ds e he
  | succ n ih =>
    intro g ds e he
    simp only [run, evs_append, List.mem_append] at he
    rcases he with he | he
    · exact keptActs_all P hk _ _ _ e he
    · revert he
      generalize restGroups g.budget (partWeight cfg g) (isort groupLe (partition cfg g)) = gs
      generalize restB g.budget (partWeight cfg g) (isort groupLe (partition cfg g)) = B
      generalize restW g.budget (partWeight cfg g) (isort groupLe (partition cfg g)) = W
      induction gs generalizing ds with
      | nil => simp [sampleLoop]
      | cons g' gs ih2 =>
        simp only [sampleLoop, evs_append, evs_markSample, List.nil_append, List.mem_append]
        intro he
        rcases he with he | he
        · unfold handle at he
          split at he
          · simp only [keepAll, evs_map_ev, List.mem_map] at he
            obtain ⟨it, _, rfl⟩ := he
            exact hk it
          · split at he
            · simp only [evs_append, evs_rounded, List.nil_append] at he
              exact ih _ _ e he
            · exact hleaf _ _ e he
        · exact ih2 _ he

/-! ### first loop: a group is either kept whole with factor 1 or handed to the second loop -/

theorem kept_or_rest (B W : Int) (s : List Group) :
    ∀ p ∈ s, (∀ it ∈ p.items, keepEv it ∈ evs (keptActs B W s)) ∨ p ∈ restGroups B W s := by
  induction s generalizing B W with
  | nil => simp
  | cons g gs ih =>
    intro p hp
    simp only [keptActs, restGroups]
    split
    · rcases List.mem_cons.1 hp with rfl | hp
      · left
        intro it hit
        simp only [evs_append, evs_markKeep, List.nil_append, List.mem_append, keepAll, evs_map_ev, List.mem_map]
        exact Or.inl ⟨it, hit, rfl⟩
      · rcases ih (stepB B g) (stepW W g) p hp with h | h
        · left
          intro it hit
          simp only [evs_append, List.mem_append]
          exact Or.inr (h it hit)
        · exact Or.inr h
    · exact Or.inr hp

/-- the callbacks for a group of the second loop are part of the loop's callbacks -/
theorem sampleLoop_mem (cfg : Cfg) (rec : Group → List Nat → List Act × List Nat) (B W : Int) :
    ∀ gs ds, ∀ p ∈ gs, ∃ ds', ∀ e ∈ evs (handle cfg rec (assign B W p) ds').1, e ∈ evs (sampleLoop cfg rec B W gs ds).1 := by
  intro gs
  induction gs with
  | nil => simp
  | cons g gs ih =>
    intro ds p hp
    simp only [sampleLoop, evs_append, evs_markSample, List.nil_append, List.mem_append]
    rcases List.mem_cons.1 hp with rfl | hp
    · exact ⟨ds, fun e he => Or.inl he⟩
    · obtain ⟨ds', h⟩ := ih (handle cfg rec (assign B W g) ds).2 p hp
      exact ⟨ds', fun e he => Or.inr (h e he)⟩

/-! ### membership of rows in the partitions of a group -/

theorem mem_partition_items (cfg : Cfg) (g : Group) (it : Item) (hit : it ∈ g.items) :
    ∃ p ∈ partition cfg g, it ∈ p.items := by
  rw [← partition_items cfg g] at hit
  simpa [gitems, List.mem_flatMap] using hit

theorem partition_items_sub (cfg : Cfg) (g : Group) (p : Group) (hp : p ∈ partition cfg g) : ∀ it ∈ p.items, it ∈ g.items := by
  intro it hit
  rw [← partition_items cfg g]
  simp only [gitems, List.mem_flatMap]
  exact ⟨p, hp, hit⟩

end SH.Sampler
