/-
  SH.Lemmas.WirePBFuel — Protobuf termination: every Protobuf reader of the model consumes input on success and never
  reports the model's own `fuel` exhaustion when given the fuel the model gives it (len+1 for the field loops,
  2·len+2 for the group skipper).
-/
import SH.Lemmas.WireFuel
namespace SH.Wire

/-! ### primitives -/

theorem pbVarintGo_strict : ∀ (b : Bytes) (i acc x : Nat) (r : Bytes), pbVarintGo i acc b = .ok (x, r) → r.length < b.length := by
  intro b
  induction b with
  | nil => intro i acc x r h; unfold pbVarintGo at h; simp at h
  | cons y t ih =>
    intro i acc x r h
    unfold pbVarintGo at h
    simp only [] at h
    split at h
    · split at h
      · simp at h; obtain ⟨_, rfl⟩ := h; simp
      · simp at h
    · split at h
      · simp at h; obtain ⟨_, rfl⟩ := h; simp
      · have := ih _ _ _ _ h; simp; omega

theorem pbVarintGo_nf : ∀ (b : Bytes) (i acc : Nat), pbVarintGo i acc b ≠ .error .fuel := by
  intro b
  induction b with
  | nil => intro i acc h; unfold pbVarintGo at h; simp at h
  | cons y t ih =>
    intro i acc h
    unfold pbVarintGo at h
    simp only [] at h
    split at h
    · split at h <;> simp at h
    · split at h
      · simp at h
      · exact ih _ _ h

theorem pbVarint_strict : Strict pbVarint := fun b x r h => pbVarintGo_strict b 0 0 x r h
theorem pbVarint_nf : NoFuel pbVarint := fun b => pbVarintGo_nf b 0 0

theorem pbTag_strict : Strict pbTag := by
  intro b x r h
  unfold pbTag at h
  split at h
  · simp at h
  · rename_i v r0 h0
    split at h
    · simp at h
    · simp at h; obtain ⟨_, rfl⟩ := h; exact pbVarint_strict _ _ _ h0
theorem pbTag_nf : NoFuel pbTag := by
  intro b h
  unfold pbTag at h
  split at h
  · rename_i e he; simp at h; subst h; exact pbVarint_nf _ he
  · split at h <;> simp at h

theorem pbBytes_strict : Strict pbBytes := by
  intro b x r h
  unfold pbBytes at h
  split at h
  · simp at h
  · rename_i v r0 h0
    have := pbVarint_strict _ _ _ h0
    split at h
    · simp at h
    · simp at h; obtain ⟨_, rfl⟩ := h; simp; omega
theorem pbBytes_nf : NoFuel pbBytes := by
  intro b h
  unfold pbBytes at h
  split at h
  · rename_i e he; simp at h; subst h; exact pbVarint_nf _ he
  · split at h <;> simp at h
/-- the payload handed out by ConsumeBytes is part of the input -/
theorem pbBytes_payload (b d r : Bytes) (h : pbBytes b = .ok (d, r)) : d.length + r.length < b.length := by
  unfold pbBytes at h
  split at h
  · simp at h
  · rename_i v r0 h0
    have := pbVarint_strict _ _ _ h0
    split at h
    · simp at h
    · simp at h; obtain ⟨rfl, rfl⟩ := h; simp; omega

theorem pbFixed64_strict : Strict pbFixed64 := by
  intro b x r h; unfold pbFixed64 at h; split at h <;> simp at h; obtain ⟨_, rfl⟩ := h; simp; omega
theorem pbFixed64_nf : NoFuel pbFixed64 := by
  intro b h; unfold pbFixed64 at h; split at h <;> simp at h
theorem pbFixed32_strict : Strict pbFixed32 := by
  intro b x r h; unfold pbFixed32 at h; split at h <;> simp at h; obtain ⟨_, rfl⟩ := h; simp; omega
theorem pbFixed32_nf : NoFuel pbFixed32 := by
  intro b h; unfold pbFixed32 at h; split at h <;> simp at h

/-! ### the group skipper (consumeFieldValueD), by simultaneous induction on the fuel -/

theorem pbSkip_mono_both : ∀ (f : Nat),
    (∀ (num typ : Nat) (b : Bytes) (d : Int) (r : Bytes), pbSkipVal f num typ b d = .ok r → r.length ≤ b.length) ∧
    (∀ (num : Nat) (b : Bytes) (d : Int) (r : Bytes), pbSkipGroup f num b d = .ok r → r.length < b.length) := by
  intro f
  induction f with
  | zero =>
    constructor
    · intro num typ b d r h; simp [pbSkipVal] at h
    · intro num b d r h; simp [pbSkipGroup] at h
  | succ f ih =>
    obtain ⟨ihV, ihG⟩ := ih
    constructor
    · intro num typ b d r h
      simp only [pbSkipVal] at h
      split at h
      · split at h
        · simp at h
        · rename_i x r0 h0; simp at h; subst h; exact Nat.le_of_lt (pbVarint_strict _ _ _ h0)
      split at h
      · split at h
        · simp at h
        · rename_i x r0 h0; simp at h; subst h; exact Nat.le_of_lt (pbFixed32_strict _ _ _ h0)
      split at h
      · split at h
        · simp at h
        · rename_i x r0 h0; simp at h; subst h; exact Nat.le_of_lt (pbFixed64_strict _ _ _ h0)
      split at h
      · split at h
        · simp at h
        · rename_i x r0 h0; simp at h; subst h; exact Nat.le_of_lt (pbBytes_strict _ _ _ h0)
      split at h
      · split at h
        · simp at h
        · exact Nat.le_of_lt (ihG _ _ _ _ h)
      split at h <;> simp at h
    · intro num b d r h
      simp only [pbSkipGroup] at h
      split at h
      · simp at h
      · rename_i num2 typ2 r0 h0
        have h0' := pbTag_strict _ _ _ h0
        split at h
        · split at h
          · simp at h
          · simp at h; subst h; exact h0'
        · split at h
          · simp at h
          · rename_i r1 h1
            have := ihV _ _ _ _ _ h1
            have := ihG _ _ _ _ h
            omega

theorem pbSkip_nf_both : ∀ (f : Nat),
    (∀ (num typ : Nat) (b : Bytes) (d : Int), 2 * b.length + 2 ≤ f → pbSkipVal f num typ b d ≠ .error .fuel) ∧
    (∀ (num : Nat) (b : Bytes) (d : Int), 2 * b.length + 1 ≤ f → pbSkipGroup f num b d ≠ .error .fuel) := by
  intro f
  induction f with
  | zero =>
    constructor
    · intro num typ b d h; omega
    · intro num b d h; omega
  | succ f ih =>
    obtain ⟨ihV, ihG⟩ := ih
    constructor
    · intro num typ b d hf h
      simp only [pbSkipVal] at h
      split at h
      · split at h
        · rename_i e he; simp at h; subst h; exact pbVarint_nf _ he
        · simp at h
      split at h
      · split at h
        · rename_i e he; simp at h; subst h; exact pbFixed32_nf _ he
        · simp at h
      split at h
      · split at h
        · rename_i e he; simp at h; subst h; exact pbFixed64_nf _ he
        · simp at h
      split at h
      · split at h
        · rename_i e he; simp at h; subst h; exact pbBytes_nf _ he
        · simp at h
      split at h
      · split at h
        · simp at h
        · exact ihG _ _ _ (by omega) h
      split at h <;> simp at h
    · intro num b d hf h
      simp only [pbSkipGroup] at h
      split at h
      · rename_i e he; simp at h; subst h; exact pbTag_nf _ he
      · rename_i num2 typ2 r0 h0
        have h0' := pbTag_strict _ _ _ h0
        split at h
        · split at h <;> simp at h
        · split at h
          · rename_i e he; simp at h; subst h; exact ihV _ _ _ _ (by omega) he
          · rename_i r1 h1
            have := (pbSkip_mono_both f).1 _ _ _ _ _ h1
            exact ihG _ _ _ (by omega) h

theorem pbSkip_mono (num typ : Nat) (b r : Bytes) (h : pbSkip num typ b = .ok r) : r.length ≤ b.length :=
  (pbSkip_mono_both _).1 _ _ _ _ _ h

/-- protoSkipField never exhausts its fuel: 2·len+2 steps always suffice (every tag and every value takes a byte) -/
theorem pbSkip_nf (num typ : Nat) (b : Bytes) : pbSkip num typ b ≠ .error .fuel :=
  (pbSkip_nf_both _).1 _ _ _ _ (Nat.le_refl _)

/-! ### the field loops: len+1 units of fuel suffice because every iteration consumes at least the tag byte -/

theorem pbEntry_nf : ∀ (f : Nat) (kv : Bytes × Bytes) (b : Bytes), b.length < f → pbEntry f kv b ≠ .error .fuel := by
  intro f
  induction f with
  | zero => intro kv b h; omega
  | succ f ih =>
    intro kv b hf h
    simp only [pbEntry] at h
    split at h
    · simp at h
    · split at h
      · rename_i e he; simp at h; subst h; exact pbTag_nf _ he
      · rename_i num typ r h0
        have h0' := pbTag_strict _ _ _ h0
        split at h
        · split at h
          · rename_i e he; simp at h; subst h; exact pbBytes_nf _ he
          · rename_i s r1 h1; have := pbBytes_strict _ _ _ h1; exact ih _ _ (by omega) h
        · split at h
          · split at h
            · rename_i e he; simp at h; subst h; exact pbBytes_nf _ he
            · rename_i s r1 h1; have := pbBytes_strict _ _ _ h1; exact ih _ _ (by omega) h
          · split at h
            · rename_i e he; simp at h; subst h; exact pbSkip_nf _ _ _ he
            · rename_i r1 h1; have := pbSkip_mono _ _ _ _ h1; exact ih _ _ (by omega) h

theorem pbCentroid_nf : ∀ (f : Nat) (c : Nat × Nat) (b : Bytes), b.length < f → pbCentroid f c b ≠ .error .fuel := by
  intro f
  induction f with
  | zero => intro c b h; omega
  | succ f ih =>
    intro c b hf h
    simp only [pbCentroid] at h
    split at h
    · simp at h
    · split at h
      · rename_i e he; simp at h; subst h; exact pbTag_nf _ he
      · rename_i num typ r h0
        have h0' := pbTag_strict _ _ _ h0
        split at h
        · split at h
          · rename_i e he; simp at h; subst h; exact pbFixed64_nf _ he
          · rename_i s r1 h1; have := pbFixed64_strict _ _ _ h1; exact ih _ _ (by omega) h
        · split at h
          · split at h
            · rename_i e he; simp at h; subst h; exact pbFixed64_nf _ he
            · rename_i s r1 h1; have := pbFixed64_strict _ _ _ h1; exact ih _ _ (by omega) h
          · split at h
            · rename_i e he; simp at h; subst h; exact pbSkip_nf _ _ _ he
            · rename_i r1 h1; have := pbSkip_mono _ _ _ _ h1; exact ih _ _ (by omega) h

theorem pbPackedVar_nf : ∀ (f : Nat) (b : Bytes), b.length < f → (pbPackedVar f b).2 ≠ some .fuel := by
  intro f
  induction f with
  | zero => intro b h; omega
  | succ f ih =>
    intro b hf
    simp only [pbPackedVar]
    split
    · simp
    · split
      · rename_i e he; intro h; simp at h; subst h; exact pbVarint_nf _ he
      · rename_i x r h0
        have := pbVarint_strict _ _ _ h0
        exact ih _ (by omega)

theorem mapR_mono' {α β : Type} (x : R α) (f : α → β) (b : Bytes) (hx : ∀ a r, x = .ok (a, r) → r.length < b.length)
    (y : β) (r : Bytes) (h : mapR x f = .ok (y, r)) : r.length < b.length := by
  obtain ⟨a, ha, _⟩ := mapR_ok x f y r h
  exact hx a r ha

/-- one field of a metric: never `fuel`, and the rest it returns is not longer than what it was given -/
theorem pbMetricField_nf (v : Variant) (m : Metric) (num typ : Nat) (r : Bytes) :
    pbMetricField v m num typ r ≠ .error .fuel := by
  unfold pbMetricField
  generalize (if v.uniqueWt0 = true then (0 : Nat) else 1) = w
  split
  · exact mapR_nf _ _ (pbBytes_nf _)
  split
  · intro h
    split at h
    · rename_i e he; simp at h; subst h; exact pbBytes_nf _ he
    · split at h
      · rename_i e he; simp at h; subst h; exact pbEntry_nf _ _ _ (Nat.lt_succ_self _) he
      · simp at h
  split
  · exact mapR_nf _ _ (pbFixed64_nf _)
  split
  · intro h
    split at h
    · rename_i e he; simp at h; subst h; exact pbVarint_nf _ he
    · split at h <;> simp at h
  split
  · intro h
    split at h
    · rename_i e he; simp at h; subst h; exact pbBytes_nf _ he
    · split at h <;> simp at h
  split
  · exact mapR_nf _ _ (pbFixed64_nf _)
  split
  · intro h
    split at h
    · rename_i e he; simp at h; subst h; exact pbBytes_nf _ he
    · rename_i d r' hb
      have hp := pbPackedVar_nf (d.length + 1) d (Nat.lt_succ_self _)
      split at h
      · simp at h
      · rename_i xs e hpv
        rw [hpv] at hp
        split at h
        · simp at h; subst h; exact hp rfl
        · simp at h
  split
  · exact mapR_nf _ _ (pbVarint_nf _)
  split
  · intro h
    split at h
    · rename_i e he; simp at h; subst h; exact pbBytes_nf _ he
    · split at h
      · rename_i e he; simp at h; subst h; exact pbCentroid_nf _ _ _ (Nat.lt_succ_self _) he
      · simp at h
  · intro h
    split at h
    · rename_i e he; simp at h; subst h; exact pbSkip_nf _ _ _ he
    · simp at h

theorem pbMetricField_mono (v : Variant) (m m' : Metric) (num typ : Nat) (r r' : Bytes)
    (h : pbMetricField v m num typ r = .ok (m', r')) : r'.length ≤ r.length := by
  unfold pbMetricField at h
  generalize (if v.uniqueWt0 = true then (0 : Nat) else 1) = w at h
  split at h
  · obtain ⟨a, ha, _⟩ := mapR_ok _ _ _ _ h; exact Nat.le_of_lt (pbBytes_strict _ _ _ ha)
  split at h
  · split at h
    · simp at h
    · rename_i d r1 hb
      split at h
      · simp at h
      · simp at h; obtain ⟨_, rfl⟩ := h; exact Nat.le_of_lt (pbBytes_strict _ _ _ hb)
  split at h
  · obtain ⟨a, ha, _⟩ := mapR_ok _ _ _ _ h; exact Nat.le_of_lt (pbFixed64_strict _ _ _ ha)
  split at h
  · split at h
    · simp at h
    · rename_i x r1 hb
      split at h
      · simp at h
      · simp at h; obtain ⟨_, rfl⟩ := h; exact Nat.le_of_lt (pbVarint_strict _ _ _ hb)
  split at h
  · split at h
    · simp at h
    · rename_i d r1 hb
      split at h
      · simp at h
      · simp at h; obtain ⟨_, rfl⟩ := h; exact Nat.le_of_lt (pbBytes_strict _ _ _ hb)
  split at h
  · obtain ⟨a, ha, _⟩ := mapR_ok _ _ _ _ h; exact Nat.le_of_lt (pbFixed64_strict _ _ _ ha)
  split at h
  · split at h
    · simp at h
    · rename_i d r1 hb
      split at h
      · simp at h; obtain ⟨_, rfl⟩ := h; exact Nat.le_of_lt (pbBytes_strict _ _ _ hb)
      · split at h
        · simp at h
        · simp at h; obtain ⟨_, rfl⟩ := h; exact Nat.le_refl _
  split at h
  · obtain ⟨a, ha, _⟩ := mapR_ok _ _ _ _ h; exact Nat.le_of_lt (pbVarint_strict _ _ _ ha)
  split at h
  · split at h
    · simp at h
    · rename_i d r1 hb
      split at h
      · simp at h
      · simp at h; obtain ⟨_, rfl⟩ := h; exact Nat.le_of_lt (pbBytes_strict _ _ _ hb)
  · split at h
    · simp at h
    · rename_i r1 hs; simp at h; obtain ⟨_, rfl⟩ := h; exact pbSkip_mono _ _ _ _ hs

theorem pbMetric_nf (v : Variant) : ∀ (f : Nat) (m : Metric) (b : Bytes), b.length < f → pbMetric v f m b ≠ .error .fuel := by
  intro f
  induction f with
  | zero => intro m b h; omega
  | succ f ih =>
    intro m b hf h
    simp only [pbMetric] at h
    split at h
    · simp at h
    · split at h
      · rename_i e he; simp at h; subst h; exact pbTag_nf _ he
      · rename_i num typ r h0
        have h0' := pbTag_strict _ _ _ h0
        split at h
        · rename_i e he; simp at h; subst h; exact pbMetricField_nf _ _ _ _ _ he
        · rename_i m' r' h1
          have := pbMetricField_mono _ _ _ _ _ _ _ h1
          exact ih _ _ (by omega) h

theorem pbBatch_nf (v : Variant) : ∀ (f : Nat) (ms : List Metric) (b : Bytes), b.length < f →
    ∀ rest, pbBatch v f ms b ≠ .error (.fuel, rest) := by
  intro f
  induction f with
  | zero => intro ms b h; omega
  | succ f ih =>
    intro ms b hf rest h
    simp only [pbBatch] at h
    split at h
    · simp at h
    · split at h
      · rename_i e he; simp at h; obtain ⟨rfl, _⟩ := h; exact pbTag_nf _ he
      · rename_i num typ r h0
        have h0' := pbTag_strict _ _ _ h0
        split at h
        · split at h
          · rename_i e he; simp at h; obtain ⟨rfl, _⟩ := h; exact pbBytes_nf _ he
          · rename_i d r' hb
            have := pbBytes_strict _ _ _ hb
            split at h
            · rename_i e he; simp at h; obtain ⟨rfl, _⟩ := h; exact pbMetric_nf v _ _ _ (Nat.lt_succ_self _) he
            · exact ih _ _ (by omega) rest h
        · split at h
          · rename_i e he; simp at h; obtain ⟨rfl, _⟩ := h; exact pbSkip_nf _ _ _ he
          · rename_i r' hs
            have := pbSkip_mono _ _ _ _ hs
            exact ih _ _ (by omega) rest h

end SH.Wire
