/-
  SH.Lemmas.PromReduce — the storage contract over events: merging the rows of a whole group of series (what a pushed-down
  query asks the storage to do) is the same as merging, per series, the rows of that series and then merging the results
  (tsValues.merge is associative and commutative).  Used by SH.Props.C27 to lift the row-level reduce_* theorems to the
  storage query over events.
-/
import SH.Model.PromEval
import Mathlib.Algebra.Order.Field.Rat
import Mathlib.Tactic.Linarith
import Mathlib.Tactic.Ring

namespace SH.PromReduce
open SH.PromEval

theorem Row.ext' {a b : Row} (h1 : a.count = b.count) (h2 : a.sum = b.sum) (h3 : a.min = b.min) (h4 : a.max = b.max)
    (h5 : a.sumsq = b.sumsq) : a = b := by
  cases a; cases b; simp_all

theorem min_if_comm (x y : Rat) : (if y < x then y else x) = (if x < y then x else y) := by
  by_cases h1 : y < x <;> by_cases h2 : x < y <;> simp [h1, h2]
  · linarith
  · linarith

theorem max_if_comm (x y : Rat) : (if x < y then y else x) = (if y < x then x else y) := by
  by_cases h1 : y < x <;> by_cases h2 : x < y <;> simp [h1, h2]
  · linarith
  · linarith

theorem min_if_assoc (x y z : Rat) :
    (if z < (if y < x then y else x) then z else (if y < x then y else x)) =
    (if (if z < y then z else y) < x then (if z < y then z else y) else x) := by
  by_cases h1 : y < x <;> by_cases h2 : z < y <;> by_cases h3 : z < x <;> simp [h1, h2, h3] <;> linarith

theorem max_if_assoc (x y z : Rat) :
    (if (if x < y then y else x) < z then z else (if x < y then y else x)) =
    (if x < (if y < z then z else y) then (if y < z then z else y) else x) := by
  by_cases h1 : x < y <;> by_cases h2 : y < z <;> by_cases h3 : x < z <;> simp [h1, h2, h3] <;> linarith

/-- tsValues.merge is commutative -/
theorem merge_comm (a b : Row) : a.merge b = b.merge a := by
  apply Row.ext'
  · simp [Row.merge]; ring
  · simp [Row.merge]; ring
  · simp only [Row.merge]; exact min_if_comm a.min b.min
  · simp only [Row.merge]; exact max_if_comm a.max b.max
  · simp [Row.merge]; ring

/-- tsValues.merge is associative -/
theorem merge_assoc (a b c : Row) : (a.merge b).merge c = a.merge (b.merge c) := by
  apply Row.ext'
  · simp [Row.merge]; ring
  · simp [Row.merge]; ring
  · simp only [Row.merge]; exact min_if_assoc a.min b.min c.min
  · simp only [Row.merge]; exact max_if_assoc a.max b.max c.max
  · simp [Row.merge]; ring

/-- merge lifted to "no row yet" -/
def om (a b : Option Row) : Option Row :=
  match a, b with
  | none, b => b
  | a, none => a
  | some x, some y => some (x.merge y)

theorem om_none_left (a : Option Row) : om none a = a := by cases a <;> rfl
theorem om_none_right (a : Option Row) : om a none = a := by cases a <;> rfl
theorem om_comm (a b : Option Row) : om a b = om b a := by
  cases a <;> cases b <;> simp [om, merge_comm]
theorem om_assoc (a b c : Option Row) : om (om a b) c = om a (om b c) := by
  cases a <;> cases b <;> cases c <;> simp [om, merge_assoc]

def mergeAll (rs : List Row) : Option Row := rs.foldr (fun r acc => om (some r) acc) none

theorem foldl_merge_eq (xs : List Row) (r : Row) : some (xs.foldl Row.merge r) = om (some r) (mergeAll xs) := by
  induction xs generalizing r with
  | nil => rfl
  | cons x xs ih =>
    simp only [List.foldl_cons, mergeAll, List.foldr_cons]
    rw [ih (r.merge x)]
    change om (om (some r) (some x)) (mergeAll xs) = om (some r) (om (some x) (mergeAll xs))
    exact om_assoc _ _ _

theorem mergeRows_eq_mergeAll (rs : List Row) : mergeRows rs = mergeAll rs := by
  cases rs with
  | nil => rfl
  | cons r rs => simp only [mergeRows]; rw [foldl_merge_eq]; rfl

/-- rows of the events selected by `p` -/
def rowsOf (evs : List Event) (p : Event → Bool) : List Row := (evs.filter p).map (fun e => Row.ofEvent e.val)

theorem mergeAll_rowsOf_or (evs : List Event) (p q : Event → Bool) (hd : ∀ e, ¬ (p e = true ∧ q e = true)) :
    mergeAll (rowsOf evs (fun e => p e || q e)) = om (mergeAll (rowsOf evs p)) (mergeAll (rowsOf evs q)) := by
  induction evs with
  | nil => rfl
  | cons e es ih =>
    unfold rowsOf at ih ⊢
    by_cases hp : p e = true
    · have hq : q e = false := by
        cases hqe : q e with
        | false => rfl
        | true => exact absurd ⟨hp, hqe⟩ (hd e)
      simp only [List.filter_cons, hp, hq, Bool.or_false, if_true, List.map_cons, mergeAll, List.foldr_cons,
        Bool.false_eq_true, if_false] at ih ⊢
      rw [ih, om_assoc]
    · have hp' : p e = false := by simpa using hp
      by_cases hq : q e = true
      · simp only [List.filter_cons, hp', hq, Bool.or_true, if_true, List.map_cons, mergeAll, List.foldr_cons,
          Bool.false_eq_true, if_false] at ih ⊢
        rw [ih, ← om_assoc, om_comm (some _) (List.foldr _ _ _), om_assoc]
      · have hq' : q e = false := by simpa using hq
        simp only [List.filter_cons, hp', hq', Bool.or_false, Bool.false_eq_true, if_false] at ih ⊢
        exact ih

/-- folding `om` over optional rows = merging the present ones -/
theorem mergeAll_filterMap (per : List (Option Row)) :
    mergeAll (per.filterMap id) = per.foldr om none := by
  induction per with
  | nil => rfl
  | cons o os ih =>
    cases o with
    | none => simp only [List.filterMap_cons, id, List.foldr_cons, om_none_left]; exact ih
    | some r => simp only [List.filterMap_cons, id, List.foldr_cons, mergeAll] at ih ⊢; rw [ih]

/-- **the storage contract over events**: the merged row of a group of (distinct) series in a bucket is the merge of the
    per-series merged rows -/
theorem bucket_group_eq_pooled (st : Store) (members : List Nat) (hnd : members.Nodup) (lo hi : Int) :
    mergeRows (bucketRows st members lo hi) =
      mergeRows ((members.map (fun m => mergeRows (bucketRows st [m] lo hi))).filterMap id) := by
  rw [mergeRows_eq_mergeAll, mergeRows_eq_mergeAll, mergeAll_filterMap]
  induction members with
  | nil =>
    have hf : st.events.filter (fun _ => false) = [] := List.filter_eq_nil_iff.mpr (by simp)
    simp [bucketRows, mergeAll, hf]
  | cons m ms ih =>
    have hm : m ∉ ms := (List.nodup_cons.mp hnd).1
    have hms : ms.Nodup := (List.nodup_cons.mp hnd).2
    simp only [List.map_cons, List.foldr_cons]
    rw [← ih hms, mergeRows_eq_mergeAll]
    have e1 : bucketRows st (m :: ms) lo hi =
        rowsOf st.events (fun e => ([m].contains e.series && decide (lo ≤ e.sec) && decide (e.sec < hi)) ||
                                   (ms.contains e.series && decide (lo ≤ e.sec) && decide (e.sec < hi))) := by
      unfold bucketRows rowsOf
      congr 1
      apply List.filter_congr
      intro e _
      by_cases h1 : e.series = m <;> simp [h1]
      intro _ h2 h3; exact ⟨h2, h3⟩
    rw [e1, mergeAll_rowsOf_or]
    · rfl
    · intro e ⟨h1, h2⟩
      simp only [Bool.and_eq_true, List.contains_iff_mem, List.mem_singleton, decide_eq_true_eq] at h1 h2
      exact hm (h1.1.1 ▸ h2.1.1)

/-! ### partition of a bucket by seconds (for the two-grid argument of the over-time push-down) -/

theorem foldr_om_append (l : List (Option Row)) (x : Option Row) :
    (l ++ [x]).foldr om none = om (l.foldr om none) x := by
  induction l with
  | nil => simp [om_none_left, om_none_right]
  | cons a as ih => simp only [List.cons_append, List.foldr_cons, ih, om_assoc]

theorem bucketRows_eq_rowsOf (st : Store) (members : List Nat) (lo hi : Int) :
    bucketRows st members lo hi =
      rowsOf st.events (fun e => members.contains e.series && decide (lo ≤ e.sec) && decide (e.sec < hi)) := rfl

/-- **the rows of the bucket [T, T+r) are the rows of its r one-second buckets**: merging them all at once (what the
    storage does for the pushed-down query, in whatever order the events are stored) equals merging second by second -/
theorem bucket_by_seconds (st : Store) (members : List Nat) (T : Int) (r : Nat) :
    mergeRows (bucketRows st members T (T + (r : Int))) =
      ((List.range r).map (fun (d : Nat) => mergeRows (bucketRows st members (T + (d : Int)) (T + (d : Int) + 1)))).foldr om none := by
  induction r with
  | zero =>
    have hf : st.events.filter (fun e => members.contains e.series && decide (T ≤ e.sec) && decide (e.sec < T + ((0 : Nat) : Int))) = [] := by
      apply List.filter_eq_nil_iff.mpr
      intro e _
      simp only [Nat.cast_zero, add_zero, Bool.and_eq_true, decide_eq_true_eq, not_and, not_lt]
      intro h; exact h.2
    unfold bucketRows
    rw [hf]
    rfl
  | succ r ih =>
    rw [List.range_succ, List.map_append, List.map_singleton, foldr_om_append, ← ih]
    rw [mergeRows_eq_mergeAll, mergeRows_eq_mergeAll, mergeRows_eq_mergeAll]
    have e1 : bucketRows st members T (T + ((r + 1 : Nat) : Int)) =
        rowsOf st.events (fun e => (members.contains e.series && decide (T ≤ e.sec) && decide (e.sec < T + (r : Int))) ||
                                   (members.contains e.series && decide (T + (r : Int) ≤ e.sec) && decide (e.sec < T + (r : Int) + 1))) := by
      unfold bucketRows rowsOf
      congr 1
      apply List.filter_congr
      intro e _
      by_cases hm : members.contains e.series = true
      · simp only [hm, Bool.true_and]
        rw [Bool.eq_iff_iff]
        simp only [Bool.and_eq_true, Bool.or_eq_true, decide_eq_true_eq]
        push_cast
        constructor
        · intro ⟨h1, h2⟩
          by_cases h3 : e.sec < T + (r : Int)
          · exact Or.inl ⟨h1, h3⟩
          · exact Or.inr ⟨by omega, by omega⟩
        · intro h
          rcases h with ⟨h1, h2⟩ | ⟨h1, h2⟩
          · exact ⟨h1, by omega⟩
          · exact ⟨by omega, by omega⟩
      · have hnm : e.series ∉ members := by
          intro h; exact hm (List.contains_iff_mem.mpr h)
        simp [hnm]
    rw [e1, mergeAll_rowsOf_or]
    · rfl
    · intro e ⟨h1, h2⟩
      simp only [Bool.and_eq_true, decide_eq_true_eq] at h1 h2
      omega

end SH.PromReduce
