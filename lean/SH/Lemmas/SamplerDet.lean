/-
  SH.Lemmas.SamplerDet — deterministic selection (the repo tests' SelectF = ⌊len/sf⌋, RoundF = floor) keeps at most
  the budget: the development behind `det_kept_le_budget` in SH.Props.C06. Induction over the partition tree:
  leaf (whales + selected rows ≤ len/sf rows), one group of the sampling loop (kept*denom ≤ budget), the sampling
  loop (Σ ⌊B'·w/W'⌋ ≤ B'), the keep loop (kept = B - B'), `run` by induction on the remaining depth.
-/
import SH.Lemmas.SamplerTree
import Mathlib.Tactic.Linarith

namespace SH.Sampler

/-- bytes kept by a list of callbacks (`quota` is `p.Size` of the row at its callback) -/
def keptSize (a : List Act) : Int := (((evs a).filter (·.kept)).map (·.quota)).sum

@[simp] theorem keptSize_nil : keptSize [] = 0 := rfl

theorem keptSize_append (a b : List Act) : keptSize (a ++ b) = keptSize a + keptSize b := by
  simp [keptSize, List.filter_append, List.map_append, List.sum_append]

theorem keptSize_err (w : String) (r : List Act) : keptSize (.err w :: r) = keptSize r := rfl

theorem keptSize_of_evs_nil (a : List Act) (h : evs a = []) : keptSize a = 0 := by simp [keptSize, h]

theorem keptSize_cons_ev (e : Ev) (r : List Act) :
    keptSize (.ev e :: r) = (if e.kept then e.quota else 0) + keptSize r := by
  simp only [keptSize, evs_ev, List.filter_cons]
  split <;> simp

theorem keptSize_keepAll (l : List Item) : keptSize (keepAll l) = sumSizes l := by
  induction l with
  | nil => rfl
  | cons x xs ih =>
    have : keepAll (x :: xs) = .ev (keepEv x) :: keepAll xs := rfl
    rw [this, keptSize_cons_ev, ih]
    simp [keepEv, sumSizes]

theorem keptSize_sfKept (num den : Int) (l : List Item) :
    keptSize (l.map (fun it => Act.ev (sfEv it true num den))) = sumSizes l := by
  induction l with
  | nil => rfl
  | cons x xs ih =>
    rw [List.map_cons, keptSize_cons_ev, ih]
    simp [sfEv, sumSizes]

theorem keptSize_sfDropped (num den : Int) (l : List Item) :
    keptSize (l.map (fun it => Act.ev (sfEv it false num den))) = 0 := by
  induction l with
  | nil => rfl
  | cons x xs ih =>
    rw [List.map_cons, keptSize_cons_ev, ih]
    simp [sfEv]

theorem two_le_mul3 (d n s : Int) (hd : 1 ≤ d) (hn : 1 ≤ n) (hs : 2 ≤ s) : 2 ≤ d * (n * s) := by
  have h1 : 2 ≤ n * s := by nlinarith
  nlinarith

/-- rows of equal size `s` -/
theorem sumSizes_uniform (l : List Item) (s : Int) (h : ∀ it ∈ l, it.size = s) : sumSizes l = l.length * s := by
  induction l with
  | nil => simp [sumSizes]
  | cons x xs ih =>
    have := ih (fun y hy => h y (by simp [hy]))
    have hx := h x (by simp)
    simp only [sumSizes, List.map_cons, List.sum_cons, List.length_cons] at *
    rw [this, hx]; push_cast; rw [Int.add_mul, Int.one_mul]; omega

theorem detCount_le_len (n : Nat) (num den : Int) : detCount n num den ≤ n := by
  unfold detCount; omega

theorem detCount_mul_le (n : Nat) (num den : Int) (hn : 0 < num) (hd : 0 ≤ den) :
    (detCount n num den : Int) * num ≤ n * den := by
  unfold detCount
  have h0 : 0 ≤ (n : Int) * den / num := Int.ediv_nonneg (by positivity) (Int.le_of_lt hn)
  have h1 := Int.ediv_mul_le ((n : Int) * den) (Int.ne_of_gt hn)
  have h2 : ((min n ((n : Int) * den / num).toNat : Nat) : Int) ≤ (n : Int) * den / num := by
    have : ((((n : Int) * den / num).toNat : Nat) : Int) = (n : Int) * den / num := Int.toNat_of_nonneg h0
    omega
  nlinarith

/-- the deterministic selector on rows of size `s`: keeps `detCount` rows -/
theorem keptSize_selectDet (cfg : Cfg) (hm : cfg.mode = .det) (num den : Int) (l : List Item) (ds : List Nat) (s : Int)
    (hu : ∀ it ∈ l, it.size = s) :
    keptSize (selectPart cfg num den l ds).1 = (detCount l.length num den : Int) * s := by
  simp only [selectPart, hm, keptSize_append, keptSize_sfKept, keptSize_sfDropped, Int.add_zero]
  rw [sumSizes_uniform _ s (fun it hit => hu it (List.mem_of_mem_take hit)), List.length_take]
  have := detCount_le_len l.length num den
  rw [Nat.min_eq_left this]

theorem whalePos_bound (g : Group) :
    (whalePos g : Int) ≤ (g.items.length : Int) * sfDenOf g / sfNumOf g / 2 ∧ whalePos g ≤ g.items.length := by
  unfold whalePos
  have hn : 0 < sfNumOf g := by unfold sfNumOf; split <;> omega
  have hd : 0 < sfDenOf g := by unfold sfDenOf; split <;> omega
  have h0 : 0 ≤ (g.items.length : Int) * sfDenOf g / sfNumOf g / 2 := by
    apply Int.ediv_nonneg _ (by omega)
    apply Int.ediv_nonneg _ (Int.le_of_lt hn)
    positivity
  have := Int.toNat_of_nonneg h0
  omega

/-- whales plus deterministically selected rows are at most len/sf rows -/
theorem whales_plus_det_le (n : Nat) (num den : Int) (hn : 0 < num) (hd : 0 ≤ den) (pos : Nat)
    (hpos : (pos : Int) ≤ (n : Int) * den / num / 2) (hle : pos ≤ n) :
    ((pos + detCount (n - pos) (2 * num) den : Nat) : Int) * num ≤ n * den := by
  have hk := detCount_mul_le (n - pos) (2 * num) den (by omega) hd
  have h1 := Int.ediv_mul_le ((n : Int) * den / num) (show (2 : Int) ≠ 0 by omega)
  have h2 := Int.ediv_mul_le ((n : Int) * den) (Int.ne_of_gt hn)
  have hsub : ((n - pos : Nat) : Int) = (n : Int) - pos := by omega
  rw [hsub] at hk
  push_cast
  nlinarith

/-- count bound ⇒ size bound for a leaf of `n` rows of size `s ≥ 2`: `c` kept rows with `c*sfNum ≤ n*sfDen` -/
theorem count_to_size (n c : Int) (s d b : Int) (hn : 0 < n) (hc : 0 ≤ c) (hs : 2 ≤ s) (hd : 1 ≤ d) (hb : 0 ≤ b)
    (h : c * (d * (n * s)) ≤ n * (if b < 1 then 1 else b)) : c * s * d ≤ b := by
  split at h
  · -- budget 0: c*d*s*n ≤ n forces c = 0
    have hc0 : c = 0 := by
      by_contra hne
      have hc1 : 1 ≤ c := by omega
      have : 2 * n ≤ c * (d * (n * s)) := by
        have h1 : n * 2 ≤ n * s := Int.mul_le_mul_of_nonneg_left hs (by omega)
        have h2 : n * s ≤ d * (n * s) := by nlinarith
        have h3 : d * (n * s) ≤ c * (d * (n * s)) := by nlinarith
        omega
      omega
    subst hc0; omega
  · have : n * (c * s * d) ≤ n * b := by nlinarith
    exact Int.le_of_mul_le_mul_left this hn

/-- A leaf with rows of one size `s ≥ 2`: what `sample` keeps under deterministic selection, times the budget
    denominator, is at most the budget (both code variants). -/
theorem sampleRows_det_le (cfg : Cfg) (hm : cfg.mode = .det) (hks : cfg.keepSingle = false) (q : Group) (ds : List Nat)
    (s : Int) (hs : 2 ≤ s) (hu : ∀ it ∈ q.items, it.size = s) (hsum : q.sumSize = sumSizes q.items)
    (hd : 1 ≤ q.denom) (hb : 0 ≤ q.budget) :
    keptSize (sampleRows cfg q ds).1 * q.denom ≤ q.budget := by
  unfold sampleRows
  split
  · simp; exact hb
  · rename_i hne
    have hlen : 0 < q.items.length := by
      cases h : q.items with
      | nil => simp [h] at hne
      | cons => simp
    have hS : q.sumSize = q.items.length * s := by rw [hsum, sumSizes_uniform _ s hu]
    have hnum : sfNumOf q = q.denom * (q.items.length * s) := by
      unfold sfNumOf
      rw [hS]
      have : 2 ≤ q.denom * ((q.items.length : Int) * s) := two_le_mul3 _ _ _ hd (by omega) hs
      split <;> omega
    have hks' : keepSingleHit cfg q = false := by simp [keepSingleHit, hks]
    simp only [hks', Bool.false_eq_true, if_false]
    split
    · -- fix: the group fits
      rename_i hfit
      rw [keptSize_keepAll, ← hsum, hS]
      simp only [fitShortcut, Bool.and_eq_true, decide_eq_true_eq] at hfit
      have h2 := hfit.2
      rw [hnum] at h2
      unfold sfDenOf at h2
      have h3 : 2 ≤ q.denom * ((q.items.length : Int) * s) := two_le_mul3 _ _ _ hd (by omega) hs
      split at h2 <;> nlinarith
    · have hperm := isort_perm whaleLe q.items
      have hus : ∀ it ∈ isort whaleLe q.items, it.size = s := fun it hit => hu it (hperm.mem_iff.1 hit)
      have hlens : (isort whaleLe q.items).length = q.items.length := hperm.length_eq
      split
      · -- whales
        have hw := whalePos_bound q
        rw [keptSize_append, keptSize_keepAll,
          sumSizes_uniform _ s (fun it hit => hus it (List.mem_of_mem_take hit)),
          keptSize_selectDet cfg hm _ _ _ _ s (fun it hit => hus it (List.mem_of_mem_drop hit)),
          List.length_take, List.length_drop, hlens, Nat.min_eq_left hw.2]
        have hc := whales_plus_det_le q.items.length (sfNumOf q) (sfDenOf q)
          (by unfold sfNumOf; split <;> omega) (by unfold sfDenOf; split <;> omega) (whalePos q) hw.1 hw.2
        generalize detCount (q.items.length - whalePos q) (2 * sfNumOf q) (sfDenOf q) = k at hc ⊢
        rw [hnum] at hc
        unfold sfDenOf at hc
        have := count_to_size q.items.length ((whalePos q + k : Nat) : Int)
          s q.denom q.budget (by omega) (by positivity) hs hd hb hc
        push_cast at this ⊢
        nlinarith
      · rw [keptSize_selectDet cfg hm _ _ _ _ s hu]
        have hc := detCount_mul_le q.items.length (sfNumOf q) (sfDenOf q)
          (by unfold sfNumOf; split <;> omega) (by unfold sfDenOf; split <;> omega)
        generalize detCount q.items.length (sfNumOf q) (sfDenOf q) = k at hc ⊢
        rw [hnum] at hc
        unfold sfDenOf at hc
        exact count_to_size q.items.length _ s q.denom q.budget (by omega) (by positivity) hs hd hb hc

/-! ### one group of the sampling loop -/

theorem rounded_det_fixed (cfg : Cfg) (q : Group) (ds : List Nat) (hf : q.fixed = true) :
    rounded cfg q ds = (q, ds, []) := by
  simp [rounded, hf]

theorem rounded_det (cfg : Cfg) (hm : cfg.mode = .det) (q : Group) (ds : List Nat) (hf : q.fixed = false) :
    rounded cfg q ds = ({ q with budget := q.budget / q.denom, denom := 1 }, ds, []) := by
  simp [rounded, hf, hm]

/-- One group `q` of the sampling loop (budget already assigned): what is kept of it, times the budget denominator,
    is at most its budget — by `sample` when it is a leaf of equally sized rows, by the induction hypothesis `hrec`
    about `run` one level deeper (with the floor-rounded budget) otherwise. -/
theorem handle_det_le (cfg : Cfg) (hm : cfg.mode = .det) (hks : cfg.keepSingle = false)
    (hns : cfg.agent = false ∨ cfg.disableNoSample = true)
    (rec : Group → List Nat → List Act × List Nat) (q : Group)
    (hden : 1 ≤ q.denom) (hbud : 0 ≤ q.budget) (hfx : q.fixed = true → q.denom = 1)
    (hleaf : recurses cfg q = false → ∃ s : Int, 2 ≤ s ∧ (∀ it ∈ q.items, it.size = s) ∧ q.sumSize = sumSizes q.items)
    (hrec : recurses cfg q = true → ∀ (q' : Group) (ds' : List Nat), q'.items = q.items → q'.depth = q.depth →
      q'.denom = 1 → q'.sumSize = q.sumSize → 0 ≤ q'.budget → keptSize (rec q' ds').1 ≤ q'.budget)
    (ds : List Nat) :
    keptSize (handle cfg rec q ds).1 * q.denom ≤ q.budget := by
  have hnoS : noSampleHit cfg q = false := by
    rcases hns with h | h <;> simp [noSampleHit, h]
  simp only [handle, hnoS, Bool.false_eq_true, if_false]
  split
  · rename_i hr
    have hrec' := hrec hr
    by_cases hqf : q.fixed = true
    · rw [rounded_det_fixed cfg q ds hqf]
      have hd1 := hfx hqf
      have := hrec' q ds rfl rfl hd1 rfl hbud
      simp only [List.nil_append]
      rw [hd1]; omega
    · have hqf' : q.fixed = false := by simpa using hqf
      rw [rounded_det cfg hm q ds hqf']
      simp only [List.nil_append]
      have hnn : 0 ≤ q.budget / q.denom := Int.ediv_nonneg hbud (by omega)
      have := hrec' { q with budget := q.budget / q.denom, denom := 1 } ds rfl rfl rfl rfl hnn
      have h2 := Int.ediv_mul_le q.budget (show q.denom ≠ 0 by omega)
      have h3 : keptSize (rec { q with budget := q.budget / q.denom, denom := 1 } ds).1 * q.denom ≤ q.budget / q.denom * q.denom :=
        Int.mul_le_mul_of_nonneg_right this (by omega)
      exact Int.le_trans h3 h2
  · rename_i hr
    obtain ⟨s, hs, hu, hsum⟩ := hleaf (by simpa using hr)
    simp only [leaf, hm]
    exact sampleRows_det_le cfg hm hks q ds s hs hu hsum hden hbud

/-! ### the sampling loop -/

/-- sum of the fixed budgets of the groups that have one -/
def fxBudget : List Group → Int
  | [] => 0
  | g :: gs => (if g.fixed then g.budget else 0) + fxBudget gs

/-- sum of the floor-rounded shares `⌊B*w/W⌋` of the groups without fixed budget -/
def nfBound (B W : Int) : List Group → Int
  | [] => 0
  | g :: gs => (if g.fixed then 0 else B * g.weight / W) + nfBound B W gs

/-- what the induction needs to know about a partition `p` handled by the sampling loop; `rec` is `run` one level deeper -/
def DetOK (cfg : Cfg) (rec : Group → List Nat → List Act × List Nat) (p : Group) : Prop :=
  0 < p.weight ∧ (p.fixed = true → p.denom = 1 ∧ 0 ≤ p.budget) ∧
  (recurses cfg p = false → ∃ s : Int, 2 ≤ s ∧ (∀ it ∈ p.items, it.size = s) ∧ p.sumSize = sumSizes p.items) ∧
  (recurses cfg p = true → ∀ (q' : Group) (ds' : List Nat), q'.items = p.items → q'.depth = p.depth → q'.denom = 1 →
      q'.sumSize = p.sumSize → 0 ≤ q'.budget → keptSize (rec q' ds').1 ≤ q'.budget)

theorem recurses_assign (cfg : Cfg) (B W : Int) (p : Group) : recurses cfg (assign B W p) = recurses cfg p := by
  unfold assign; split <;> rfl

theorem keptSize_markSample (cfg : Cfg) (g : Group) : keptSize (markSample cfg g) = 0 :=
  keptSize_of_evs_nil _ (evs_markSample cfg g)

theorem keptSize_markKeep (g : Group) : keptSize (markKeep g) = 0 :=
  keptSize_of_evs_nil _ (evs_markKeep g)

theorem sampleLoop_det_le (cfg : Cfg) (hm : cfg.mode = .det) (hks : cfg.keepSingle = false)
    (hns : cfg.agent = false ∨ cfg.disableNoSample = true)
    (rec : Group → List Nat → List Act × List Nat) (B W : Int) (hB : 0 ≤ B) :
    ∀ (gs : List Group) (ds : List Nat), (∀ p ∈ gs, DetOK cfg rec p) → (∀ p ∈ gs, p.fixed = false → 1 ≤ W) →
      keptSize (sampleLoop cfg rec B W gs ds).1 ≤ nfBound B W gs + fxBudget gs := by
  intro gs
  induction gs with
  | nil => intro ds _ _; simp [sampleLoop, nfBound, fxBudget]
  | cons p gs ih =>
    intro ds hok hW
    have hp := hok p (by simp)
    obtain ⟨hpw, hpfx, hpleaf, hprec⟩ := hp
    have ih' := ih (handle cfg rec (assign B W p) ds).2 (fun x hx => hok x (by simp [hx])) (fun x hx => hW x (by simp [hx]))
    simp only [sampleLoop, keptSize_append, keptSize_markSample, nfBound, fxBudget]
    have qi : (assign B W p).items = p.items := assign_items _ _ _
    have qd : (assign B W p).depth = p.depth := by unfold assign; split <;> rfl
    have qs : (assign B W p).sumSize = p.sumSize := by unfold assign; split <;> rfl
    have hone : keptSize (handle cfg rec (assign B W p) ds).1 ≤ (if p.fixed then 0 else B * p.weight / W) + (if p.fixed then p.budget else 0) := by
      by_cases hpf : p.fixed = true
      · have hq : assign B W p = p := by simp [assign, hpf]
        have := handle_det_le cfg hm hks hns rec (assign B W p) (by rw [hq, (hpfx hpf).1]) (by rw [hq]; exact (hpfx hpf).2)
          (by intro _; rw [hq]; exact (hpfx hpf).1)
          (by rw [recurses_assign, qi, qs]; exact hpleaf)
          (by rw [recurses_assign, qi, qd, qs]; exact hprec) ds
        rw [hq] at this ⊢
        rw [(hpfx hpf).1] at this
        simp [hpf]; omega
      · have hpf' : p.fixed = false := by simpa using hpf
        have hW1 := hW p (by simp) hpf'
        have hqden : (assign B W p).denom = W := by simp [assign, hpf']
        have hqbud : (assign B W p).budget = B * p.weight := by simp [assign, hpf']
        have hqfix : (assign B W p).fixed = false := by simp [assign, hpf']
        have := handle_det_le cfg hm hks hns rec (assign B W p) (by rw [hqden]; exact hW1)
          (by rw [hqbud]; exact Int.mul_nonneg hB (by omega))
          (by intro h; rw [hqfix] at h; simp at h)
          (by rw [recurses_assign, qi, qs]; exact hpleaf)
          (by rw [recurses_assign, qi, qd, qs]; exact hprec) ds
        rw [hqden, hqbud] at this
        simp only [hpf', Bool.false_eq_true, if_false, Int.add_zero]
        exact Int.le_ediv_of_mul_le (by omega) this
    omega

theorem nfBound_all_fixed (B W : Int) (gs : List Group) (h : ∀ g ∈ gs, g.fixed = true) : nfBound B W gs = 0 := by
  induction gs with
  | nil => rfl
  | cons g gs ih => simp [nfBound, h g (by simp), ih (fun x hx => h x (by simp [hx]))]

theorem ediv_add_le' (a b c : Int) (hc : 0 < c) : a / c + b / c ≤ (a + b) / c := by
  apply Int.le_ediv_of_mul_le hc
  have h1 := Int.ediv_mul_le a (Int.ne_of_gt hc)
  have h2 := Int.ediv_mul_le b (Int.ne_of_gt hc)
  nlinarith

theorem nfBound_le_aux (B W : Int) (hW : 0 < W) (gs : List Group) : nfBound B W gs ≤ B * nfWeight gs / W := by
  induction gs with
  | nil => simp [nfBound, nfWeight]
  | cons g gs ih =>
    simp only [nfBound, nfWeight]
    split
    · simpa using ih
    · have := ediv_add_le' (B * g.weight) (B * nfWeight gs) W hW
      rw [← Int.mul_add] at this
      omega

/-- the floor-rounded shares of the groups without fixed budget sum to at most the budget they share -/
theorem nfBound_le (B W : Int) (hB : 0 ≤ B) (gs : List Group) (hw : ∀ g ∈ gs, 0 < g.weight) (hW : nfWeight gs ≤ W) :
    nfBound B W gs ≤ B := by
  by_cases hWpos : 0 < W
  · refine Int.le_trans (nfBound_le_aux B W hWpos gs) ?_
    have h1 : B * nfWeight gs ≤ B * W := Int.mul_le_mul_of_nonneg_left hW hB
    have h2 := Int.ediv_le_ediv hWpos h1
    rwa [Int.mul_ediv_cancel _ (Int.ne_of_gt hWpos)] at h2
  · have hall : ∀ g ∈ gs, g.fixed = true := by
      intro g hg
      by_contra hf
      have := nfWeight_mem gs hw g hg (by simpa using hf)
      have := hw g hg
      omega
    rw [nfBound_all_fixed B W gs hall]; exact hB

/-! ### the keep loop -/

theorem restGroups_subset (B W : Int) (s : List Group) : ∀ p ∈ restGroups B W s, p ∈ s := by
  induction s generalizing B W with
  | nil => simp [restGroups]
  | cons g gs ih =>
    intro p hp
    simp only [restGroups] at hp
    split at hp
    · exact List.mem_cons_of_mem _ (ih _ _ p hp)
    · exact hp

/-- The keep loop spends exactly the size of the kept water-filled groups (`B - B'`) and, for every kept group with a
    fixed budget, at most that budget; what is left (`B'`) is non-negative and `W'` still covers the weights of the
    groups handed to the sampling loop. -/
theorem keepLoop_det (s : List Group) (B W : Int) (hB : 0 ≤ B) (hw : ∀ g ∈ s, 0 < g.weight)
    (hsz : ∀ g ∈ s, 0 ≤ g.sumSize) (hsum : ∀ g ∈ s, g.sumSize = sumSizes g.items)
    (hfd : ∀ g ∈ s, g.fixed = true → g.denom = 1) (hW : nfWeight s ≤ W) :
    keptSize (keptActs B W s) + restB B W s + fxBudget (restGroups B W s) ≤ B + fxBudget s ∧
    0 ≤ restB B W s ∧ nfWeight (restGroups B W s) ≤ restW B W s := by
  induction s generalizing B W with
  | nil => simp [keptActs, restB, restGroups, restW, fxBudget, nfWeight] at *; exact ⟨hB, hW⟩
  | cons g gs ih =>
    have hgw := hw g (by simp)
    have hgs := hsz g (by simp)
    have hgsum := hsum g (by simp)
    have hnn := nfWeight_nonneg gs (fun x hx => hw x (by simp [hx]))
    by_cases hg : fits (assign B W g) = true
    · simp only [keptActs, restB, restGroups, restW, hg, if_true, keptSize_append, keptSize_markKeep, keptSize_keepAll,
        Int.zero_add]
      by_cases hgf : g.fixed = true
      · have hfit := (fits_assign_fixed B W g hgf (hfd g (by simp) hgf)).1 hg
        have hW' : nfWeight gs ≤ stepW W g := by simp [stepW, hgf, nfWeight] at hW ⊢; exact hW
        have hB' : 0 ≤ stepB B g := by simp [stepB, hgf]; exact hB
        obtain ⟨h1, h2, h3⟩ := ih (stepB B g) (stepW W g) hB' (fun x hx => hw x (by simp [hx])) (fun x hx => hsz x (by simp [hx]))
          (fun x hx => hsum x (by simp [hx])) (fun x hx => hfd x (by simp [hx])) hW'
        refine ⟨?_, h2, h3⟩
        simp only [stepB, hgf, if_true, fxBudget] at h1 ⊢
        omega
      · have hgf' : g.fixed = false := by simpa using hgf
        have hfit := (fits_assign_iff B W g hgf').1 hg
        have hWg : g.weight + nfWeight gs ≤ W := by simp [nfWeight, hgf'] at hW; exact hW
        have hle : g.sumSize ≤ B := by
          have hWpos : 0 < W := by omega
          have h1 : B * g.weight ≤ B * W := Int.mul_le_mul_of_nonneg_left (by omega) hB
          have h2 : W * g.sumSize ≤ W * B := by rw [Int.mul_comm W B]; omega
          exact Int.le_of_mul_le_mul_left h2 hWpos
        have hW' : nfWeight gs ≤ stepW W g := by simp [stepW, hgf']; omega
        have hB' : 0 ≤ stepB B g := by simp [stepB, hgf']; omega
        obtain ⟨h1, h2, h3⟩ := ih (stepB B g) (stepW W g) hB' (fun x hx => hw x (by simp [hx])) (fun x hx => hsz x (by simp [hx]))
          (fun x hx => hsum x (by simp [hx])) (fun x hx => hfd x (by simp [hx])) hW'
        refine ⟨?_, h2, h3⟩
        simp only [stepB, hgf', Bool.false_eq_true, if_false, fxBudget, Int.zero_add] at h1 ⊢
        omega
    · have hg' : fits (assign B W g) = false := by simpa using hg
      simp only [keptActs, restB, restGroups, restW, hg', Bool.false_eq_true, if_false, keptSize_nil]
      exact ⟨by omega, hB, hW⟩

theorem fxBudget_perm {a b : List Group} (h : a.Perm b) : fxBudget a = fxBudget b := by
  induction h with
  | nil => rfl
  | cons x _ ih => simp [fxBudget, ih]
  | swap x y l => simp only [fxBudget]; omega
  | trans _ _ ih1 ih2 => exact ih1.trans ih2

/-- One level of `run` under deterministic selection: if every partition is `DetOK`, what the level keeps is at most
    the group's budget plus the fixed budgets of its partitions. -/
theorem level_det_le (cfg : Cfg) (hm : cfg.mode = .det) (hks : cfg.keepSingle = false)
    (hns : cfg.agent = false ∨ cfg.disableNoSample = true) (fuel : Nat) (g : Group) (ds : List Nat)
    (hB : 0 ≤ g.budget) (hw : ∀ it ∈ g.items, 0 < it.wMetric) (hs : ∀ it ∈ g.items, 0 ≤ it.size)
    (hok : ∀ p ∈ partition cfg g, DetOK cfg (run fuel cfg) p) (hWle : nfWeight (partition cfg g) ≤ partWeight cfg g) :
    keptSize (run (fuel + 1) cfg g ds).1 ≤ g.budget + fxBudget (partition cfg g) := by
  have hgood := partition_good cfg g hw hs
  have hperm := isort_perm groupLe (partition cfg g)
  have hmem : ∀ p, p ∈ isort groupLe (partition cfg g) → p ∈ partition cfg g := fun p hp => hperm.mem_iff.1 hp
  obtain ⟨h1, h2, h3⟩ := keepLoop_det (isort groupLe (partition cfg g)) g.budget (partWeight cfg g) hB
    (fun p hp => (hgood p (hmem p hp)).1) (fun p hp => (hgood p (hmem p hp)).2.1) (fun p hp => (hgood p (hmem p hp)).2.2.2)
    (fun p hp => (hgood p (hmem p hp)).2.2.1) (by rw [nfWeight_perm hperm]; exact hWle)
  have hsub := restGroups_subset g.budget (partWeight cfg g) (isort groupLe (partition cfg g))
  have hrestw : ∀ p ∈ restGroups g.budget (partWeight cfg g) (isort groupLe (partition cfg g)), 0 < p.weight :=
    fun p hp => (hgood p (hmem p (hsub p hp))).1
  have h4 := sampleLoop_det_le cfg hm hks hns (run fuel cfg) _ (restW g.budget (partWeight cfg g) (isort groupLe (partition cfg g))) h2
    (restGroups g.budget (partWeight cfg g) (isort groupLe (partition cfg g))) ds
    (fun p hp => hok p (hmem p (hsub p hp)))
    (fun p hp hpf => by
      have := nfWeight_mem _ hrestw p hp hpf
      have := hrestw p hp
      omega)
  have h5 := nfBound_le _ _ h2 _ hrestw h3
  simp only [run, keptSize_append]
  rw [← fxBudget_perm hperm]
  omega

/-! ### the partition tree -/

theorem mem_takeWhile_pred {α} (p : α → Bool) (l : List α) : ∀ x ∈ l.takeWhile p, p x = true := by
  induction l with
  | nil => simp
  | cons a as ih =>
    intro x hx
    simp only [List.takeWhile_cons] at hx
    split at hx
    · rcases List.mem_cons.1 hx with rfl | hx
      · assumption
      · exact ih x hx
    · simp at hx

theorem partPlain_not_fixed (cfg : Cfg) (k : PartKind) (d : Nat) (l : List Item) :
    ∀ p ∈ partPlain cfg k d l, p.fixed = false := by
  intro p hp
  cases k <;> simp only [partPlain, List.mem_map, List.not_mem_nil] at hp
  all_goals (obtain ⟨r, _, rfl⟩ := hp; rfl)

theorem partition_fixed_budget (cfg : Cfg) (g : Group) : ∀ p ∈ partition cfg g, p.fixed = true → 0 ≤ p.budget := by
  intro p hp hf
  unfold partition at hp
  split at hp
  · simp only [partBudget, List.mem_append, List.mem_map] at hp
    rcases hp with ⟨r, hr, rfl⟩ | hp
    · have := mem_takeWhile_pred hasBudget _ r hr
      simp only [hasBudget, decide_eq_true_eq] at this
      simp only [mkFixed]; omega
    · rw [partPlain_not_fixed _ _ _ _ p hp] at hf; simp at hf
  · rw [partPlain_not_fixed _ _ _ _ p hp] at hf; simp at hf

theorem fxBudget_no_fixed (s : List Group) (h : ∀ p ∈ s, p.fixed = false) : fxBudget s = 0 := by
  induction s with
  | nil => rfl
  | cons g gs ih => simp [fxBudget, h g (by simp), ih (fun x hx => h x (by simp [hx]))]

theorem partition_no_fixed (cfg : Cfg) (g : Group) (hk : kindAt cfg g.depth ≠ .byBudget) :
    ∀ p ∈ partition cfg g, p.fixed = false := by
  intro p hp
  rw [(partition_plain cfg g _ rfl hk).1] at hp
  exact partPlain_not_fixed _ _ _ _ p hp

theorem sumWeights_nonneg (s : List Group) (h : ∀ g ∈ s, 0 < g.weight) : 0 ≤ sumWeights s := by
  induction s with
  | nil => simp [sumWeights]
  | cons g gs ih =>
    have := ih (fun x hx => h x (by simp [hx]))
    have := h g (by simp)
    simp only [sumWeights, List.map_cons, List.sum_cons] at *
    omega

theorem nfWeight_all_fixed (s : List Group) (h : ∀ g ∈ s, g.fixed = true) : nfWeight s = 0 := by
  induction s with
  | nil => rfl
  | cons g gs ih => simp [nfWeight, h g (by simp), ih (fun x hx => h x (by simp [hx]))]

theorem nfWeight_le_partWeight (cfg : Cfg) (g : Group) (hw : ∀ it ∈ g.items, 0 < it.wMetric) (hs : ∀ it ∈ g.items, 0 ≤ it.size) :
    nfWeight (partition cfg g) ≤ partWeight cfg g := by
  by_cases hex : ∃ p ∈ partition cfg g, p.fixed = false
  · obtain ⟨p, hp, hpf⟩ := hex
    rw [partWeight_eq cfg g hw hs p hp hpf]
  · have hall : ∀ p ∈ partition cfg g, p.fixed = true := by
      intro p hp
      by_contra hf
      exact hex ⟨p, hp, by simpa using hf⟩
    rw [nfWeight_all_fixed _ hall]
    by_cases hk : kindAt cfg g.depth = .byBudget
    · rw [(partition_budget cfg g hk).2]
      split
      · omega
      · apply sumWeights_nonneg
        intro q hq
        have hsub : ∀ it ∈ ((runs (·.metric) g.items).dropWhile hasBudget).flatten, it ∈ g.items := by
          intro it hit
          obtain ⟨r, hr, hir⟩ := List.mem_flatten.1 hit
          exact mem_of_mem_runs _ _ _ (List.dropWhile_subset _ hr) it hir
        exact (partPlain_good cfg _ _ _ (fun it hit => hw it (hsub it hit)) (fun it hit => hs it (hsub it hit)) q hq).1
    · rw [(partition_plain cfg g _ rfl hk).2]
      exact sumWeights_nonneg _ (fun q hq => (partPlain_good cfg _ _ _ hw hs q hq).1)

/-- all rows belong to one metric -/
def Homog (l : List Item) : Prop := ∀ x ∈ l, ∀ y ∈ l, x.metric = y.metric

/-- rows of one metric have one size (the hypothesis under which kept COUNT bounds are kept SIZE bounds) -/
def MetricUniform (l : List Item) : Prop := ∀ a ∈ l, ∀ b ∈ l, a.metric = b.metric → a.size = b.size

/-- a group is at or below the metric level, or above it with enough fuel left to reach it -/
def HInv (cfg : Cfg) (fuel : Nat) (g : Group) : Prop :=
  Homog g.items ∨ (g.depth < nPart cfg ∧ nPart cfg ≤ g.depth + fuel)

theorem homog_uniform (l : List Item) (hh : Homog l) (hu : MetricUniform l) (h2 : ∀ it ∈ l, 2 ≤ it.size) :
    ∃ s : Int, 2 ≤ s ∧ ∀ it ∈ l, it.size = s := by
  cases l with
  | nil => exact ⟨2, by omega, by simp⟩
  | cons x xs =>
    exact ⟨x.size, h2 x (by simp), fun it hit => hu it hit x (by simp) (hh it hit x (by simp))⟩

/-- the partitions of a group satisfy `DetOK` as soon as `run` with one unit of fuel less satisfies the statement
    of the induction (`ih`) -/
theorem detOK_of_partition (cfg : Cfg) (n : Nat) (g : Group)
    (hinv : HInv cfg (n + 1) g) (hrows : ∀ it ∈ g.items, 0 < it.wMetric ∧ 2 ≤ it.size) (hu : MetricUniform g.items)
    (ih : ∀ (q : Group) (ds : List Nat), q.denom = 1 → 0 ≤ q.budget → 1 ≤ q.depth → q.sumSize = sumSizes q.items →
      HInv cfg n q → (∀ it ∈ q.items, 0 < it.wMetric ∧ 2 ≤ it.size) → MetricUniform q.items →
      keptSize (run n cfg q ds).1 ≤ q.budget) :
    ∀ p ∈ partition cfg g, DetOK cfg (run n cfg) p := by
  intro p hp
  have hgood := partition_good cfg g (fun it hit => (hrows it hit).1) (fun it hit => by have := (hrows it hit).2; omega) p hp
  have hsub := partition_items_sub cfg g p hp
  have hprows : ∀ it ∈ p.items, 0 < it.wMetric ∧ 2 ≤ it.size := fun it hit => hrows it (hsub it hit)
  have hpu : MetricUniform p.items := fun a ha b hb hab => hu a (hsub a ha) b (hsub b hb) hab
  -- p is homogeneous or sits above the metric level
  have hcase : Homog p.items ∨ (p.depth < nPart cfg ∧ nPart cfg ≤ p.depth + n) := by
    rcases hinv with hh | ⟨hd, hf⟩
    · exact Or.inl (fun x hx y hy => hh x (hsub x hx) y (hsub y hy))
    · rcases partition_flag cfg g hd p hp with ⟨hmet, _⟩ | ⟨_, hpd⟩
      · exact Or.inl (fun x hx y hy => by rw [hmet x hx, hmet y hy])
      · have := partition_depth_gt cfg g hd p hp
        exact Or.inr ⟨hpd, by omega⟩
  refine ⟨hgood.1, fun hf => ⟨hgood.2.2.1 hf, partition_fixed_budget cfg g p hp hf⟩, ?_, ?_⟩
  · intro hr
    have hh : Homog p.items := by
      rcases hcase with hh | ⟨hpd, _⟩
      · exact hh
      · simp only [recurses, decide_eq_false_iff_not] at hr; omega
    obtain ⟨s, hs2, hs⟩ := homog_uniform p.items hh hpu (fun it hit => (hprows it hit).2)
    exact ⟨s, hs2, hs, hgood.2.2.2⟩
  · intro _ q' ds' hitems hdepth hden hsz hbud
    apply ih q' ds' hden hbud
    · rw [hdepth]; exact partition_depth_pos cfg g p hp
    · rw [hsz, hitems]; exact hgood.2.2.2
    · rcases hcase with hh | hc
      · exact Or.inl (by rw [hitems]; exact hh)
      · exact Or.inr (by rw [hdepth]; exact hc)
    · rw [hitems]; exact hprows
    · rw [hitems]; exact hpu

/-- Induction over the partition tree below the top level (no fixed budgets there): deterministic selection keeps at
    most the (floor-rounded) budget handed to the group. -/
theorem run_det_child (cfg : Cfg) (hm : cfg.mode = .det) (hks : cfg.keepSingle = false)
    (hns : cfg.agent = false ∨ cfg.disableNoSample = true) (fuel : Nat) :
    ∀ (q : Group) (ds : List Nat), q.denom = 1 → 0 ≤ q.budget → 1 ≤ q.depth → q.sumSize = sumSizes q.items →
      HInv cfg fuel q → (∀ it ∈ q.items, 0 < it.wMetric ∧ 2 ≤ it.size) → MetricUniform q.items →
      keptSize (run fuel cfg q ds).1 ≤ q.budget := by
  induction fuel with
  | zero =>
    intro q ds hden hbud _ hsum hinv hrows hu
    have hh : Homog q.items := by
      rcases hinv with hh | ⟨h1, h2⟩
      · exact hh
      · omega
    obtain ⟨s, hs2, hs⟩ := homog_uniform q.items hh hu (fun it hit => (hrows it hit).2)
    simp only [run, keptSize_err, leaf, hm]
    have := sampleRows_det_le cfg hm hks q ds s hs2 hs hsum (by omega) hbud
    rw [hden] at this; omega
  | succ n ih =>
    intro q ds hden hbud hdep hsum hinv hrows hu
    have hk := kindAt_pos cfg q.depth hdep
    have hok := detOK_of_partition cfg n q hinv hrows hu ih
    have := level_det_le cfg hm hks hns n q ds hbud (fun it hit => (hrows it hit).1)
      (fun it hit => by have := (hrows it hit).2; omega) hok
      (nfWeight_le_partWeight cfg q (fun it hit => (hrows it hit).1) (fun it hit => by have := (hrows it hit).2; omega))
    rw [fxBudget_no_fixed _ (partition_no_fixed cfg q hk)] at this
    omega

end SH.Sampler
