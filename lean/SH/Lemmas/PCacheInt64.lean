/-
  SH.Lemmas.PCacheInt64 — where the model's unbounded `Int` arithmetic equals Go's int64 / time.Time arithmetic.

  The model (SH.Model.PCache) computes with mathematical integers. pcache.go computes with int64 (Unix
  nanoseconds, Unix seconds, sizes) and with time.Time. This file states the ranges of inputs for which no int64
  operation of pcache.go wraps, and proves the two arithmetic identities the model relies on:
    * lod.go `mathDiv` (truncated division + correction) is floor division for a positive divisor;
    * `time.Unix(sec,0).Before(T)` (a lexicographic comparison of (seconds, nanoseconds)) is `sec·10⁹ < T` in
      nanoseconds.
-/
import SH.Lemmas.PCacheBase

namespace SH.C24
open SH.PCache SH.Gen.C24

/-- representable as a Go int64 -/
def I64 (x : Int) : Prop := -9223372036854775808 ≤ x ∧ x ≤ 9223372036854775807

/-- two's complement wrap-around of a mathematical result to int64 -/
def wrap64 (x : Int) : Int := (x + 9223372036854775808) % 18446744073709551616 - 9223372036854775808

theorem wrap64_id (x : Int) (h : I64 x) : wrap64 x = x := by
  unfold wrap64; unfold I64 at h; omega

/-- lod.go: `quo := a / b; if (a >= 0) == (b >= 0) || a%b == 0 { return quo }; return quo - 1` with Go's
    truncating `/` and `%` -/
def goMathDiv (a b : Int) : Int :=
  if (decide (a ≥ 0) == decide (b ≥ 0)) || decide (Int.tmod a b = 0) then Int.tdiv a b else Int.tdiv a b - 1

theorem goMathDiv_eq_floor (a b : Int) (hb : 0 < b) : goMathDiv a b = a / b := by
  unfold goMathDiv
  have hbs : b.sign = 1 := Int.sign_eq_one_of_pos hb
  by_cases ha : 0 ≤ a
  · have : decide (a ≥ 0) = true := by simpa using ha
    have hb' : decide (b ≥ 0) = true := by simp; omega
    simp only [this, hb', beq_self_eq_true, Bool.true_or, if_true]
    exact Int.tdiv_eq_ediv_of_nonneg ha
  · have h1 : decide (a ≥ 0) = false := by simpa using ha
    have hb' : decide (b ≥ 0) = true := by simp; omega
    by_cases hd : b ∣ a
    · have hm : Int.tmod a b = 0 := by
        rw [Int.tmod_eq_emod]; simp [hd, Int.emod_eq_zero_of_dvd hd]
      simp only [h1, hb', hm, decide_true, Bool.or_true, if_true]
      rw [Int.tdiv_eq_ediv]; simp [hd]
    · have hm : Int.tmod a b ≠ 0 := by
        rw [Int.tmod_eq_emod]
        have h0 : 0 ≤ a % b := Int.emod_nonneg a (by omega)
        have h2 : a % b < b := Int.emod_lt_of_pos a hb
        have h3 : a % b ≠ 0 := fun h => hd (Int.dvd_of_emod_eq_zero h)
        simp only [ha, hd, or_self, if_false]
        have : (b.natAbs : Int) = b := Int.natAbs_of_nonneg (by omega)
        omega
      simp only [h1, hb', hm, decide_false, Bool.or_false, if_false]
      rw [Int.tdiv_eq_ediv]; simp [ha, hd, hbs]

/-- roundTime as Go computes it: every intermediate result wrapped to int64 -/
def roundTime64 (t step off : Int) : Int :=
  wrap64 (wrap64 (goMathDiv (wrap64 (t + off)) step * step) - off)

/-- the ranges used below: seconds within ±2^40 (beyond year 30000), utcOffset within ±2^31, steps ≤ 2^20 -/
def SecOK (x : Int) : Prop := -1099511627776 ≤ x ∧ x ≤ 1099511627776
def OffOK (x : Int) : Prop := -2147483648 ≤ x ∧ x ≤ 2147483648
def StepOK (x : Int) : Prop := 0 < x ∧ x ≤ 1048576
/-- clock readings: Unix nanoseconds from 1970 to 2^62 ns (year 2116) -/
def ClockOK (x : Int) : Prop := 0 ≤ x ∧ x ≤ 4611686018427387904

theorem roundTime64_eq (t step off : Int) (ht : SecOK t) (hs : StepOK step) (ho : OffOK off) :
    roundTime64 t step off = roundTime t step off ∧ I64 (roundTime t step off) := by
  unfold SecOK OffOK StepOK at *
  have h1 : I64 (t + off) := by unfold I64; omega
  have hq1 := Int.ediv_mul_le (t + off) (Int.ne_of_gt hs.1)
  have hq2 := Int.lt_ediv_add_one_mul_self (t + off) hs.1
  have e : ((t + off) / step + 1) * step = (t + off) / step * step + step := by ring
  have h2 : I64 ((t + off) / step * step) := by unfold I64; omega
  have h3 : I64 ((t + off) / step * step - off) := by unfold I64; omega
  refine ⟨?_, ?_⟩
  · unfold roundTime64 roundTime
    rw [wrap64_id _ h1, goMathDiv_eq_floor _ _ hs.1, wrap64_id _ h2, wrap64_id _ h3]
  · unfold roundTime; exact h3

/-- `time.Unix(sec, 0).Before(T)` compares (seconds, nanoseconds) lexicographically, where T has seconds
    `T / 10⁹` (floor) and nanoseconds `T % 10⁹ ∈ [0,10⁹)`; the model writes `sec·10⁹ < T`. -/
theorem beforeEdge_lex (sec now : Int) :
    beforeEdge sec now = true ↔
      (sec < immutableNs now / 1000000000 ∨ (sec = immutableNs now / 1000000000 ∧ 0 < immutableNs now % 1000000000)) := by
  unfold beforeEdge nsPerSec
  simp only [decide_eq_true_eq]
  omega

/-- Every int64 expression pcache.go evaluates on these inputs stays inside int64 (so Go's result is the
    model's Int result). `now`, `tAt`, `loadAt` are clock readings; `sec`, `from`, `to` are Unix seconds; `i` is a
    loop variable of checkInvalidationMapLocked between a rounded `from` and `to + step`. -/
theorem int64_safe (now tAt loadAt sec f t step off : Int) (hnow : ClockOK now) (hat : ClockOK tAt) (hla : ClockOK loadAt)
    (hsec : SecOK sec) (hf : SecOK f) (ht : SecOK t) (hs : StepOK step) (ho : OffOK off)
    (hlin : 0 ≤ invalidateLingerNs ∧ invalidateLingerNs ≤ 2305843009213693952)
    (hfrom : -2305843009213693952 ≤ invalidateFromNs ∧ invalidateFromNs ≤ 0) :
    -- invalidatedAtNano + int64(invalidateLinger)
    I64 (tAt + invalidateLingerNs) ∧
    -- now.Add(invalidateFrom) as nanoseconds, and its .Unix()
    I64 (immutableNs now) ∧ I64 (edgeSec now) ∧ SecOK (edgeSec now) ∧
    -- time.Unix(sec, 0): seconds since year 1 = sec + 62135596800
    I64 (sec + 62135596800) ∧ I64 (f + 62135596800) ∧ I64 (t + 62135596800) := by
  unfold ClockOK SecOK StepOK OffOK at *
  unfold I64 immutableNs edgeSec nsPerSec immutableNs
  refine ⟨by omega, by omega, by omega, by omega, by omega, by omega, by omega⟩

/-- the loop variables: `fromR + step`, `i += step` until `i >= toR`, `i <= to` then one more `+ step`,
    `fromNext`, `toPrev` — all within int64 when from/to/offset/step are in range -/
theorem loop_vars_safe (f t step off : Int) (hf : SecOK f) (ht : SecOK t) (hs : StepOK step) (ho : OffOK off) :
    I64 (roundTime f step off + step) ∧ I64 (roundTime t step off + step) ∧ I64 (t + step) ∧
    I64 (fromNext (roundTime f step off) step t) ∧ I64 (toPrev (roundTime t step off) f) := by
  have h1 := roundTime_le f step off hs.1
  have h2 := lt_roundTime_add f step off hs.1
  have h3 := roundTime_le t step off hs.1
  have h4 := lt_roundTime_add t step off hs.1
  unfold SecOK StepOK OffOK at *
  unfold I64 fromNext toPrev
  refine ⟨by omega, by omega, by omega, ?_, ?_⟩
  · split <;> omega
  · split <;> omega

/-- the constants of the pinned tree satisfy the hypotheses of `int64_safe`, and its steps are `StepOK` -/
theorem consts_in_range :
    (0 ≤ invalidateLingerNs ∧ invalidateLingerNs ≤ 2305843009213693952) ∧
    (-2305843009213693952 ≤ invalidateFromNs ∧ invalidateFromNs ≤ 0) ∧ (∀ st ∈ steps, StepOK st) := by
  unfold StepOK; decide

end SH.C24
