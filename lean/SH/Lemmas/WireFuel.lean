/-
  SH.Lemmas.WireFuel — termination: no TL or MessagePack reader of the model ever reports the model's own `fuel`
  exhaustion, and successful TL reads consume input (so the batch loops of parse terminate by consuming the packet).
-/
import SH.Lemmas.Wire
namespace SH.Wire

def NoFuel {α : Type} (f : Bytes → R α) : Prop := ∀ b, f b ≠ .error .fuel

theorem mpBadPrefix_ne_fuel (l : Nat) : mpBadPrefix l ≠ .fuel := by unfold mpBadPrefix; split <;> simp

/-! ### TL -/

theorem tlNat_nf : NoFuel tlNat := by
  intro b h; unfold tlNat at h; split at h <;> simp at h
theorem tlLong_nf : NoFuel tlLong := by
  intro b h; unfold tlLong at h; split at h <;> simp at h
theorem tlNat_strict : Strict tlNat := by
  intro b x r h; unfold tlNat at h; split at h <;> simp at h; obtain ⟨_, rfl⟩ := h; simp; omega
theorem tlLong_strict : Strict tlLong := by
  intro b x r h; unfold tlLong at h; split at h <;> simp at h; obtain ⟨_, rfl⟩ := h; simp; omega

theorem tlStrTail_nf (r : Bytes) (l p : Nat) : tlStrTail r l p ≠ .error .fuel := by
  unfold tlStrTail; repeat' split
  all_goals simp
theorem tlStrTail_mono (b : Bytes) (l p : Nat) (x r : Bytes) (h : tlStrTail b l p = .ok (x, r)) : r.length ≤ b.length := by
  unfold tlStrTail at h
  repeat' split at h
  all_goals simp at h
  obtain ⟨_, rfl⟩ := h; simp

theorem tlString_nf : NoFuel tlString := by
  intro b h
  unfold tlString at h
  split at h
  · simp at h
  · repeat' split at h
    all_goals (first | (simp at h; done) | exact tlStrTail_nf _ _ _ h)
theorem tlString_strict : Strict tlString := by
  intro b x r h
  unfold tlString at h
  split at h
  · simp at h
  · repeat' split at h
    all_goals (try (simp at h; done))
    all_goals (have := tlStrTail_mono _ _ _ _ _ h; simp at this ⊢; omega)

theorem readN_nf {α : Type} (f : Bytes → R α) (hf : NoFuel f) : ∀ n, NoFuel (readN f n) := by
  intro n
  induction n with
  | zero => intro b h; simp [readN] at h
  | succ n ih =>
    intro b h
    simp only [readN] at h
    split at h
    · rename_i e he; simp at h; subst h; exact hf _ he
    · split at h
      · rename_i e he; simp at h; subst h; exact ih _ he
      · simp at h

theorem tlVec_nf {α : Type} (f : Bytes → R α) (hf : NoFuel f) : NoFuel (tlVec f) := by
  intro b h
  unfold tlVec at h
  split at h
  · rename_i e he; simp at h; subst h; exact tlNat_nf _ he
  · split at h
    · simp at h
    · exact readN_nf f hf _ _ h
theorem tlVec_strict {α : Type} (f : Bytes → R α) (hf : Mono f) : Strict (tlVec f) := by
  intro b x r h
  unfold tlVec at h
  split at h
  · simp at h
  · rename_i l r0 h0
    have := tlNat_strict _ _ _ h0
    split at h
    · simp at h
    · have := readN_mono f hf l _ _ _ h; omega

theorem tlTag_nf : NoFuel tlTag := by
  intro b h
  unfold tlTag at h
  split at h
  · rename_i e he; simp at h; subst h; exact tlString_nf _ he
  · split at h
    · rename_i e he; simp at h; subst h; exact tlString_nf _ he
    · simp at h
theorem tlTag_mono : Mono tlTag := by
  intro b x r h
  unfold tlTag at h
  split at h
  · simp at h
  · rename_i k r1 h1
    split at h
    · simp at h
    · rename_i v r2 h2
      simp at h; obtain ⟨_, rfl⟩ := h
      have := tlString_strict _ _ _ h1; have := tlString_strict _ _ _ h2; omega
theorem tlPair_nf : NoFuel tlPair := by
  intro b h
  unfold tlPair at h
  split at h
  · rename_i e he; simp at h; subst h; exact tlLong_nf _ he
  · split at h
    · rename_i e he; simp at h; subst h; exact tlLong_nf _ he
    · simp at h
theorem tlPair_mono : Mono tlPair := by
  intro b x r h
  unfold tlPair at h
  split at h
  · simp at h
  · rename_i k r1 h1
    split at h
    · simp at h
    · rename_i v r2 h2
      simp at h; obtain ⟨_, rfl⟩ := h
      have := tlLong_strict _ _ _ h1; have := tlLong_strict _ _ _ h2; omega

theorem tlOpt_nf {α : Type} (c : Bool) (f : Bytes → R α) (d : α) (hf : NoFuel f) : NoFuel (tlOpt c f d) := by
  intro b h; unfold tlOpt at h; split at h
  · exact hf _ h
  · simp at h
theorem tlOpt_mono {α : Type} (c : Bool) (f : Bytes → R α) (d : α) (hf : Mono f) : Mono (tlOpt c f d) := by
  intro b x r h; unfold tlOpt at h; split at h
  · exact hf _ _ _ h
  · simp at h; obtain ⟨_, rfl⟩ := h; exact Nat.le_refl _

theorem bind_ok {α β : Type} (x : Except Err α) (k : α → Except Err β) (y : β) (h : (x >>= k) = .ok y) :
    ∃ a, x = .ok a ∧ k a = .ok y := by
  cases x with
  | error e => simp [bind, Except.bind] at h
  | ok a => exact ⟨a, rfl, h⟩

theorem bind_fuel {α β : Type} (x : Except Err α) (k : α → Except Err β) (h : (x >>= k) = .error .fuel) :
    x = .error .fuel ∨ ∃ a, x = .ok a ∧ k a = .error .fuel := by
  cases x with
  | error e => simp [bind, Except.bind] at h; subst h; exact Or.inl rfl
  | ok a => exact Or.inr ⟨a, rfl, h⟩

theorem tlMetric_strict : Strict tlMetric := by
  intro b x r h
  unfold tlMetric at h
  obtain ⟨⟨a1, r1⟩, h1, h⟩ := bind_ok _ _ _ h
  obtain ⟨⟨a2, r2⟩, h2, h⟩ := bind_ok _ _ _ h
  obtain ⟨⟨a3, r3⟩, h3, h⟩ := bind_ok _ _ _ h
  obtain ⟨⟨a4, r4⟩, h4, h⟩ := bind_ok _ _ _ h
  obtain ⟨⟨a5, r5⟩, h5, h⟩ := bind_ok _ _ _ h
  obtain ⟨⟨a6, r6⟩, h6, h⟩ := bind_ok _ _ _ h
  obtain ⟨⟨a7, r7⟩, h7, h⟩ := bind_ok _ _ _ h
  obtain ⟨⟨a8, r8⟩, h8, h⟩ := bind_ok _ _ _ h
  simp [pure, Except.pure] at h
  obtain ⟨_, rfl⟩ := h
  have := tlNat_strict _ _ _ h1
  have := tlString_strict _ _ _ h2
  have := (tlVec_strict tlTag tlTag_mono) _ _ _ h3
  have := tlOpt_mono _ _ _ tlLong_strict.mono _ _ _ h4
  have := tlOpt_mono _ _ _ tlNat_strict.mono _ _ _ h5
  have := tlOpt_mono _ _ _ (tlVec_strict tlLong tlLong_strict.mono).mono _ _ _ h6
  have := tlOpt_mono _ _ _ (tlVec_strict tlLong tlLong_strict.mono).mono _ _ _ h7
  have := tlOpt_mono _ _ _ (tlVec_strict tlPair tlPair_mono).mono _ _ _ h8
  omega

theorem tlMetric_nf : NoFuel tlMetric := by
  intro b h
  unfold tlMetric at h
  rcases bind_fuel _ _ h with h1 | ⟨⟨a1, r1⟩, _, h⟩
  · exact tlNat_nf _ h1
  rcases bind_fuel _ _ h with h1 | ⟨⟨a2, r2⟩, _, h⟩
  · exact tlString_nf _ h1
  rcases bind_fuel _ _ h with h1 | ⟨⟨a3, r3⟩, _, h⟩
  · exact tlVec_nf tlTag tlTag_nf _ h1
  rcases bind_fuel _ _ h with h1 | ⟨⟨a4, r4⟩, _, h⟩
  · exact tlOpt_nf _ _ _ tlLong_nf _ h1
  rcases bind_fuel _ _ h with h1 | ⟨⟨a5, r5⟩, _, h⟩
  · exact tlOpt_nf _ _ _ tlNat_nf _ h1
  rcases bind_fuel _ _ h with h1 | ⟨⟨a6, r6⟩, _, h⟩
  · exact tlOpt_nf _ _ _ (tlVec_nf tlLong tlLong_nf) _ h1
  rcases bind_fuel _ _ h with h1 | ⟨⟨a7, r7⟩, _, h⟩
  · exact tlOpt_nf _ _ _ (tlVec_nf tlLong tlLong_nf) _ h1
  rcases bind_fuel _ _ h with h1 | ⟨⟨a8, r8⟩, _, h⟩
  · exact tlOpt_nf _ _ _ (tlVec_nf tlPair tlPair_nf) _ h1
  simp [pure, Except.pure] at h

theorem tlBatch_nf : NoFuel tlBatch := by
  intro b h
  unfold tlBatch at h
  split at h
  · simp at h
  · split at h
    · simp at h
    · split at h
      · rename_i e he; simp at h; subst h; exact tlNat_nf _ he
      · exact tlVec_nf tlMetric tlMetric_nf _ h

theorem tlBatch_strict : Strict tlBatch := by
  intro b x r h
  unfold tlBatch at h
  split at h
  · simp at h
  · split at h
    · simp at h
    · split at h
      · simp at h
      · rename_i l r0 h0
        have := tlNat_strict _ _ _ h0
        have := (tlVec_strict tlMetric tlMetric_strict.mono) _ _ _ h
        simp at *; omega

/-! ### MessagePack -/

theorem mpMapHdr_nf : NoFuel mpMapHdr := by
  intro b h
  unfold mpMapHdr at h
  split at h
  · simp at h
  · repeat' split at h
    all_goals (first | (simp at h; done) | (simp at h; exact mpBadPrefix_ne_fuel _ h))
theorem mpArrHdr_nf : NoFuel mpArrHdr := by
  intro b h
  unfold mpArrHdr at h
  split at h
  · simp at h
  · repeat' split at h
    all_goals (first | (simp at h; done) | (simp at h; exact mpBadPrefix_ne_fuel _ h))
theorem mpLenPayload_nf (n : Nat) : NoFuel (mpLenPayload n) := by
  intro b h; unfold mpLenPayload at h; repeat' split at h
  all_goals simp at h
theorem mpStr_nf : NoFuel mpStr := by
  intro b h
  unfold mpStr at h
  split at h
  · simp at h
  · repeat' split at h
    all_goals (first | (simp at h; done) | exact mpLenPayload_nf _ _ h)
theorem mpBin_nf : NoFuel mpBin := by
  intro b h
  unfold mpBin at h
  split at h
  · simp at h
  · repeat' split at h
    all_goals (first | exact mpLenPayload_nf _ _ h | (simp at h; exact mpBadPrefix_ne_fuel _ h))
theorem mpKey_nf : NoFuel mpKey := by
  intro b h
  unfold mpKey at h
  split at h
  · simp at h
  · split at h
    · exact mpBin_nf _ h
    · simp at h
  · rename_i e hne he; simp at h; subst h; exact mpStr_nf _ he
theorem mpF64_nf : NoFuel mpF64 := by
  intro b h
  unfold mpF64 at h
  split at h
  · simp at h
  · repeat' split at h
    all_goals (first | (simp at h; done) | (simp at h; exact mpBadPrefix_ne_fuel _ h))
theorem mpFixed_nf (n : Nat) (g : Nat → Except Err Nat) (hg : ∀ x, g x ≠ .error .fuel) (r : Bytes) :
    mpFixed n r g ≠ .error .fuel := by
  intro h; unfold mpFixed at h
  split at h
  · simp at h
  · split at h
    · rename_i e he; simp at h; subst h; exact hg _ he
    · simp at h
theorem nonNeg_nf (n x : Nat) : nonNeg n x ≠ .error .fuel := by unfold nonNeg; split <;> simp
theorem ok_nf (x : Nat) : (Except.ok x : Except Err Nat) ≠ .error .fuel := by simp
theorem mpU64_nf : NoFuel mpU64 := by
  intro b h
  unfold mpU64 at h
  split at h
  · simp at h
  · repeat' split at h
    all_goals (first | (simp at h; done) | exact mpFixed_nf _ _ (nonNeg_nf _) _ h | exact mpFixed_nf _ _ ok_nf _ h | (simp at h; exact mpBadPrefix_ne_fuel _ h))
theorem mpU32_nf : NoFuel mpU32 := by
  intro b h
  unfold mpU32 at h
  split at h
  · rename_i e he; simp at h; subst h; exact mpU64_nf _ he
  · split at h <;> simp at h
theorem mpI64_nf : NoFuel mpI64 := by
  intro b h
  unfold mpI64 at h
  split at h
  · simp at h
  · repeat' split at h
    all_goals (first | (simp at h; done) | exact mpFixed_nf _ _ ok_nf _ h | exact mpFixed_nf _ _ (fun x => (by intro hh; (try split at hh) <;> simp at hh)) _ h | (simp at h; exact mpBadPrefix_ne_fuel _ h))

theorem mpTag_nf : NoFuel mpTag := by
  intro b h
  unfold mpTag at h
  split at h
  · rename_i e he; simp at h; subst h; exact mpStr_nf _ he
  · split at h
    · rename_i e he; simp at h; subst h; exact mpStr_nf _ he
    · simp at h
theorem mpBucket_nf : NoFuel mpBucket := by
  intro b h
  unfold mpBucket at h
  split at h
  · rename_i e he; simp at h; subst h; exact mpArrHdr_nf _ he
  · split at h
    · simp at h
    · split at h
      · rename_i e he; simp at h; subst h; exact mpF64_nf _ he
      · split at h
        · rename_i e he; simp at h; subst h; exact mpF64_nf _ he
        · simp at h
theorem mpColl_nf (v : Variant) (isMap : Bool) : NoFuel (mpColl v isMap) := by
  intro b h
  unfold mpColl at h
  split at h
  · rename_i e he
    simp at h; subst h
    cases isMap
    · exact mpArrHdr_nf _ he
    · exact mpMapHdr_nf _ he
  · split at h <;> simp at h
theorem mapR_nf {α β : Type} (x : R α) (f : α → β) (hx : x ≠ .error .fuel) : mapR x f ≠ .error .fuel := by
  intro h; unfold mapR at h; split at h
  · rename_i e; simp at h; subst h; exact hx rfl
  · simp at h
theorem mpSkip_nf (b : Bytes) : mpSkip b ≠ .error .fuel := mpSkipN_fuel _ _ _ _ (Nat.lt_succ_self _)

theorem mpCollField_nf {α : Type} (v : Variant) (isMap : Bool) (item : Bytes → R α) (hi : NoFuel item) (b : Bytes)
    (upd : List α → Metric) : (mpCollField v isMap item b upd).res ≠ .error .fuel := by
  unfold mpCollField
  split
  · rename_i e he; intro h; simp at h; subst h; exact mpColl_nf v isMap _ he
  · exact mapR_nf _ _ (readN_nf item hi _ _)

theorem mpField_nf (v : Variant) (m : Metric) (key b : Bytes) : (mpField v m key b).res ≠ .error .fuel := by
  unfold mpField
  split
  · exact mapR_nf _ _ (mpStr_nf _)
  split
  · exact mpCollField_nf v _ _ mpTag_nf _ _
  split
  · exact mapR_nf _ _ (mpF64_nf _)
  split
  · exact mapR_nf _ _ (mpU32_nf _)
  split
  · exact mpCollField_nf v _ _ mpF64_nf _ _
  split
  · exact mpCollField_nf v _ _ mpI64_nf _ _
  split
  · exact mpCollField_nf v _ _ mpBucket_nf _ _
  · intro h
    split at h
    · rename_i e he; simp at h; subst h; exact mpSkip_nf _ he
    · simp at h

theorem mpFields_nf (v : Variant) : ∀ (n : Nat) (m : Metric) (b : Bytes), (mpFields v n m b).res ≠ .error .fuel := by
  intro n
  induction n with
  | zero => intro m b; simp [mpFields]
  | succ n ih =>
    intro m b
    simp only [mpFields]
    split
    · rename_i e he; intro h; simp at h; subst h; exact mpKey_nf _ he
    · rename_i k r hk
      have hf := mpField_nf v m k r
      split
      · rename_i a e he; rw [he] at hf; exact hf
      · exact ih _ _

theorem mpMetric_nf (v : Variant) (b : Bytes) : (mpMetric v b).res ≠ .error .fuel := by
  unfold mpMetric
  split
  · rename_i e he; intro h; simp at h; subst h; exact mpMapHdr_nf _ he
  · exact mpFields_nf v _ _ _

theorem mpMetrics_nf (v : Variant) : ∀ (n : Nat) (b : Bytes), (mpMetrics v n b).res ≠ .error .fuel := by
  intro n
  induction n with
  | zero => intro b; simp [mpMetrics]
  | succ n ih =>
    intro b
    simp only [mpMetrics]
    have hm := mpMetric_nf v b
    split
    · rename_i a e he; rw [he] at hm; intro h; simp at h; subst h; exact hm rfl
    · exact mapR_nf _ _ (ih _)

theorem mpBatchFields_nf (v : Variant) : ∀ (n : Nat) (ms : List Metric) (b : Bytes), (mpBatchFields v n ms b).res ≠ .error .fuel := by
  intro n
  induction n with
  | zero => intro ms b; simp [mpBatchFields]
  | succ n ih =>
    intro ms b
    simp only [mpBatchFields]
    split
    · rename_i e he; intro h; simp at h; subst h; exact mpKey_nf _ he
    · split
      · split
        · rename_i e he; intro h; simp at h; subst h; exact mpColl_nf v false _ he
        · rename_i cnt r1 hc
          have hm := mpMetrics_nf v cnt r1
          split
          · rename_i a e he; rw [he] at hm; intro h; simp at h; subst h; exact hm rfl
          · exact ih _ _
      · split
        · rename_i e he; intro h; simp at h; subst h; exact mpSkip_nf _ he
        · exact ih _ _

/-- no reader of the MessagePack decoder ever reports fuel exhaustion (Skip is the only one that has fuel, and
    `len+1` units suffice for it) -/
theorem mpBatch_nf (v : Variant) (b : Bytes) : (mpBatch v b).res ≠ .error .fuel := by
  unfold mpBatch
  split
  · rename_i e he; intro h; simp at h; subst h; exact mpMapHdr_nf _ he
  · exact mpBatchFields_nf v _ _ _

end SH.Wire
