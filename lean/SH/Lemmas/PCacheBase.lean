/-
  SH.Lemmas.PCacheBase — helper lemmas for SH.Model.PCache shared by SH.Props.C24 and SH.Lemmas.PCacheExact:
  association-list maps (mget/mput/bump/gcMap), roundTime, scan loops, frame lemmas of the cache ops,
  sums of entry costs. No property statement lives here.
-/
import SH.Model.PCache
import Mathlib.Tactic.Ring
import Mathlib.Tactic.Linarith

namespace SH.C24
open SH.PCache SH.Gen.C24
/-! ### association-list maps -/

theorem mget_merase (m : LMap) (k k' : Int) : mget (merase m k) k' = if k = k' then none else mget m k' := by
  induction m with
  | nil => simp [merase, mget]
  | cons p r ih =>
    obtain ⟨a, v⟩ := p
    by_cases h : a = k
    · subst h; simp only [merase, if_true, ih]
      by_cases h2 : a = k' <;> simp [mget, h2]
    · simp only [merase, h, if_false, mget, ih]
      by_cases h2 : a = k'
      · subst h2; simp [h]; intro h3; exact absurd h3.symm h
      · simp [h2]

theorem mget_mput (m : LMap) (k v k' : Int) : mget (mput m k v) k' = if k = k' then some v else mget m k' := by
  simp only [mput, mget, mget_merase]
  by_cases h : k = k' <;> simp [h]

/-- the value `bump` leaves under the key it touches -/
def newVal (m : LMap) (k a : Int) : Int :=
  match mget m k with
  | some last => if a > last then a else last
  | none => a

theorem mget_bump (m : LMap) (k a k' : Int) : mget (bump m k a) k' = if k = k' then some (newVal m k a) else mget m k' := by
  unfold bump newVal
  cases h : mget m k with
  | none => simp [mget_mput]
  | some last =>
    by_cases h2 : a > last
    · simp [h2, mget_mput]
    · simp only [h2, if_false]
      by_cases h3 : k = k'
      · subst h3; simp [h]
      · simp [h3]

theorem newVal_ge (m : LMap) (k a : Int) : a ≤ newVal m k a := by
  unfold newVal; split
  · split <;> omega
  · omega

theorem newVal_ge_old (m : LMap) (k a old : Int) (h : mget m k = some old) : old ≤ newVal m k a := by
  unfold newVal; rw [h]; simp only; split <;> omega

theorem mget_filter_key (m : LMap) (p : Int → Bool) (k : Int) :
    mget (m.filter (fun x => p x.1)) k = if p k then mget m k else none := by
  induction m with
  | nil => simp [mget]
  | cons x r ih =>
    obtain ⟨a, v⟩ := x
    by_cases h : p a = true
    · simp only [List.filter, h, mget, ih]
      by_cases h2 : a = k
      · subst h2; simp [h]
      · simp [h2]
    · simp only [List.filter, h, mget, ih]
      by_cases h2 : a = k
      · subst h2; simp [h]
      · simp [h2]

theorem mget_gcMap (m : LMap) (g : Int) (del : List Int) (k : Int) :
    mget (gcMap m g del) k = if (decide (k < g) && del.contains k) then none else mget m k := by
  unfold gcMap
  rw [mget_filter_key m (fun a => !(decide (a < g) && del.contains a)) k]
  cases (decide (k < g) && del.contains k) <;> simp

theorem mget_gcMap_ge (m : LMap) (g : Int) (del : List Int) (k : Int) (h : g ≤ k) :
    mget (gcMap m g del) k = mget m k := by
  rw [mget_gcMap]; have : ¬ k < g := by omega
  simp [this]

theorem mget_gcMap_some (m : LMap) (g : Int) (del : List Int) (k v : Int) (h : mget (gcMap m g del) k = some v) :
    mget m k = some v := by
  rw [mget_gcMap] at h; split at h
  · simp at h
  · exact h

/-! ### rounding -/

theorem roundTime_le (t step off : Int) (h : 0 < step) : roundTime t step off ≤ t := by
  unfold roundTime
  have := Int.ediv_mul_le (t + off) (Int.ne_of_gt h)
  omega

theorem lt_roundTime_add (t step off : Int) (h : 0 < step) : t < roundTime t step off + step := by
  unfold roundTime
  have := Int.lt_ediv_add_one_mul_self (t + off) h
  have e : ((t + off) / step + 1) * step = (t + off) / step * step + step := by ring
  omega

theorem roundTime_one (t off : Int) : roundTime t 1 off = t := by
  unfold roundTime; simp

/-- a rounded value above `lo`'s bucket end and below `hi`'s bucket start is one of the scanned keys -/
theorem round_between (s lo hi step off : Int) (h : 0 < step)
    (h1 : roundTime lo step off + step < s) (h2 : s < roundTime hi step off) :
    ∃ k : Nat, k < countMid (roundTime lo step off) (roundTime hi step off) step ∧
      roundTime s step off = roundTime lo step off + step + step * (k : Int) := by
  unfold roundTime at *
  generalize hqs : (s + off) / step = c at *
  generalize hql : (lo + off) / step = a at *
  generalize hqh : (hi + off) / step = b at *
  have hs1 := Int.ediv_mul_le (s + off) (Int.ne_of_gt h)
  have hs2 := Int.lt_ediv_add_one_mul_self (s + off) h
  rw [hqs] at hs1 hs2
  -- c ≥ a + 1 and c ≤ b - 1
  have hca : a + 1 ≤ c := by
    have : (a + 1) * step < (c + 1) * step := by
      have e : (a + 1) * step = a * step + step := by ring
      linarith
    have := Int.lt_of_mul_lt_mul_right this (le_of_lt h)
    omega
  have hcb : c < b := by
    have : c * step < b * step := by linarith
    exact Int.lt_of_mul_lt_mul_right this (le_of_lt h)
  refine ⟨(c - a - 1).toNat, ?_, ?_⟩
  · unfold countMid
    have e : (b * step - off - (a * step - off) - 1) = (step - 1) + (b - a - 1) * step := by ring
    rw [e, Int.add_mul_ediv_right _ _ (Int.ne_of_gt h)]
    have : (step - 1) / step = 0 := Int.ediv_eq_zero_of_lt (by omega) (by omega)
    rw [this]
    omega
  · have : ((c - a - 1).toNat : Int) = c - a - 1 := Int.toNat_of_nonneg (by omega)
    rw [this]; ring

theorem scanOK_false (m : LMap) (loadAt base step : Int) (n k : Nat) (hk : k < n)
    (h : staleKey m loadAt (base + step * (k : Int)) = true) : scanOK m loadAt base step n = false := by
  unfold scanOK
  rw [List.all_eq_false]
  exact ⟨k, List.mem_range.mpr hk, by simp [h]⟩

theorem staleKey_of (m : LMap) (loadAt k a b : Int) (hb : mget m k = some b) (hab : a ≤ b)
    (h : loadAt ≤ a + invalidateLingerNs) : staleKey m loadAt k = true := by
  unfold staleKey; rw [hb]; simp; omega

def secMap (lv : List Level) : LMap :=
  match lv.getLast? with
  | some p => p.2
  | none => []

theorem steps_good : (∀ st ∈ steps, 0 < st) ∧ steps.getLast? = some 1 := by decide

theorem levels_pos (lv : List Level) (h : lv.map (·.1) = steps) : ∀ p ∈ lv, 0 < p.1 := by
  intro p hp
  apply steps_good.1
  rw [← h]; exact List.mem_map_of_mem hp

theorem levels_last (lv : List Level) (h : lv.map (·.1) = steps) : lv.getLast? = some (1, secMap lv) := by
  have h2 := steps_good.2
  rw [← h, List.getLast?_map] at h2
  unfold secMap
  cases hl : lv.getLast? with
  | none => simp [hl] at h2
  | some p =>
    simp [hl] at h2
    obtain ⟨a, b⟩ := p
    simp at h2; subst h2; rfl

theorem secMap_of_last (lv : List Level) (p : Level) (h : lv.getLast? = some p) : secMap lv = p.2 := by
  unfold secMap; rw [h]

theorem evictOne_frame (s : State) (k : Nat) :
    (evictOne s k).levels = s.levels ∧ (evictOne s k).off = s.off ∧ (evictOne s k).maxSize = s.maxSize := by
  unfold evictOne; split <;> simp

theorem evictLoop_frame : ∀ (ch : List Nat) (s : State),
    (evictLoop s ch).1.levels = s.levels ∧ (evictLoop s ch).1.off = s.off ∧ (evictLoop s ch).1.maxSize = s.maxSize := by
  intro ch
  induction ch with
  | nil => intro s; simp only [evictLoop]; split <;> (try split) <;> simp
  | cons k ks ih =>
    intro s
    simp only [evictLoop]
    split
    · split
      · have h1 := ih (evictOne s k)
        have h2 := evictOne_frame s k
        exact ⟨h1.1.trans h2.1, h1.2.1.trans h2.2.1, h1.2.2.trans h2.2.2⟩
      · simp
    · simp

theorem insertRows_frame (s : State) (key : Nat) (tLru : Int) (cr : CRows) :
    (insertRows s key tLru cr).levels = s.levels ∧ (insertRows s key tLru cr).off = s.off ∧
    (insertRows s key tLru cr).maxSize = s.maxSize := by
  unfold insertRows; simp only; split <;> simp

theorem store_frame (s : State) (key : Nat) (tLru : Int) (cr : CRows) (ch : List Nat) :
    (store s key tLru cr ch).1.levels = s.levels ∧ (store s key tLru cr ch).1.off = s.off ∧
    (store s key tLru cr ch).1.maxSize = s.maxSize := by
  unfold store
  have h := evictLoop_frame ch s
  split
  · rename_i s1 heq
    rw [heq] at h
    have h2 := insertRows_frame s1 key tLru cr
    exact ⟨h2.1.trans h.1, h2.2.1.trans h.2.1, h2.2.2.trans h.2.2⟩
  · rename_i s1 f _ heq
    rw [heq] at h; exact h

theorem loadCached_frame (s : State) (key : Nat) (f t tLru tChk : Int) :
    (loadCached s key f t tLru tChk).1.levels = s.levels ∧ (loadCached s key f t tLru tChk).1.off = s.off ∧
    (loadCached s key f t tLru tChk).1.maxSize = s.maxSize := by
  unfold loadCached; split
  · simp
  · simp only; split <;> simp

theorem findEntry_mem : ∀ (c : List Entry) (k : Nat) (e : Entry), findEntry c k = some e → e ∈ c ∧ e.key = k := by
  intro c
  induction c with
  | nil => intro k e h; simp [findEntry] at h
  | cons x r ih =>
    intro k e h
    simp only [findEntry] at h
    split at h
    · injection h with h; subst h; exact ⟨by simp, by assumption⟩
    · obtain ⟨h1, h2⟩ := ih k e h; exact ⟨List.mem_cons_of_mem _ h1, h2⟩

theorem findRows_mem : ∀ (rs : List CRows) (f t : Int) (cr : CRows), findRows rs f t = some cr →
    cr ∈ rs ∧ cr.tFrom = f ∧ cr.tTo = t := by
  intro rs
  induction rs with
  | nil => intro f t cr h; simp [findRows] at h
  | cons x r ih =>
    intro f t cr h
    simp only [findRows] at h
    split at h
    · rename_i hr
      injection h with h; subst h
      simp [isRange] at hr
      exact ⟨by simp, hr.1, hr.2⟩
    · obtain ⟨h1, h2⟩ := ih f t cr h; exact ⟨List.mem_cons_of_mem _ h1, h2⟩

/-- what the eviction loop compares with approxMaxSize -/
def load (s : State) : Int := s.size + (s.cache.length : Int)

theorem entryCost_nonneg (e : Entry) : 0 ≤ entryCost e := by unfold entryCost; omega

theorem setLru_length (c : List Entry) (k : Nat) (t : Int) : (setLru c k t).length = c.length := by
  unfold setLru; simp

def rowsTotal (rs : List CRows) : Int := (rs.map (fun c => (c.n : Int))).sum
/-- what an entry really holds: itself, its ranges, their rows -/
def actualEntry (e : Entry) : Int := 1 + (e.rows.length : Int) + rowsTotal e.rows
def actual (s : State) : Int := (s.cache.map actualEntry).sum
def costSum (c : List Entry) : Int := (c.map entryCost).sum

theorem findEntry_none : ∀ (c : List Entry) (k : Nat), findEntry c k = none → ∀ e ∈ c, e.key ≠ k := by
  intro c
  induction c with
  | nil => intro k _ e he; simp at he
  | cons x r ih =>
    intro k h e he
    simp only [findEntry] at h
    split at h
    · simp at h
    · rcases List.mem_cons.mp he with e1 | e1
      · subst e1; assumption
      · exact ih k h e e1

theorem costSum_cons (x : Entry) (r : List Entry) : costSum (x :: r) = entryCost x + costSum r := by
  simp [costSum]

theorem costSum_filter_le (r : List Entry) (p : Entry → Bool) : costSum (r.filter p) ≤ costSum r := by
  induction r with
  | nil => simp
  | cons y r' ih =>
    have := entryCost_nonneg y
    rw [List.filter_cons]; split
    · rw [costSum_cons, costSum_cons]; omega
    · rw [costSum_cons]; omega

theorem costSum_filter : ∀ (c : List Entry) (k : Nat) (e : Entry), findEntry c k = some e →
    costSum (c.filter (fun x => x.key ≠ k)) + entryCost e ≤ costSum c := by
  intro c
  induction c with
  | nil => intro k e h; simp [findEntry] at h
  | cons x r ih =>
    intro k e h
    simp only [findEntry] at h
    split at h
    · rename_i hk
      injection h with h; subst h
      have := costSum_filter_le r (fun y => y.key ≠ k)
      rw [List.filter_cons]; split
      · rename_i hd; simp [hk] at hd
      · rw [costSum_cons]; omega
    · rename_i hk
      have := ih k e h
      rw [List.filter_cons]; split
      · rw [costSum_cons, costSum_cons]; omega
      · rename_i hd; simp [hk] at hd

theorem filter_range_len : ∀ (rows : List CRows) (f t : Int), hasRange rows f t = true →
    (rows.filter (fun x => !isRange x f t)).length + 1 ≤ rows.length := by
  intro rows
  induction rows with
  | nil => intro f t h; simp [hasRange, findRows] at h
  | cons c r ih =>
    intro f t h
    by_cases hc : isRange c f t = true
    · have := List.length_filter_le (fun x => !isRange x f t) r
      simp only [List.filter, hc, Bool.not_true, List.length_cons]; omega
    · have hr : hasRange r f t = true := by
        simp only [hasRange, findRows, hc] at h ⊢; exact h
      have := ih f t hr
      simp only [List.filter, hc, Bool.not_false, List.length_cons]; omega

theorem rowsTotal_filter_le (rows : List CRows) (p : CRows → Bool) : rowsTotal (rows.filter p) ≤ rowsTotal rows := by
  induction rows with
  | nil => simp
  | cons c r ih =>
    by_cases hc : p c = true
    · simp only [List.filter, hc, rowsTotal, List.map_cons, List.sum_cons] at ih ⊢; omega
    · simp only [List.filter, hc, rowsTotal, List.map_cons, List.sum_cons] at ih ⊢; omega

theorem costSum_update : ∀ (c : List Entry) (key : Nat) (F : Entry → Entry) (e : Entry),
    (c.map (·.key)).Nodup → findEntry c key = some e →
    costSum (c.map (fun x => if x.key = key then F x else x)) = costSum c - entryCost e + entryCost (F e) := by
  intro c
  induction c with
  | nil => intro key F e _ h; simp [findEntry] at h
  | cons x r ih =>
    intro key F e hnd h
    simp only [List.map_cons, List.nodup_cons] at hnd
    simp only [findEntry] at h
    split at h
    · rename_i hk
      injection h with h; subst h
      have hid : r.map (fun y => if y.key = key then F y else y) = r := by
        have : ∀ y ∈ r, y.key ≠ key := by
          intro y hy hyk
          exact hnd.1 (by rw [hk, ← hyk]; exact List.mem_map_of_mem hy)
        calc r.map (fun y => if y.key = key then F y else y) = r.map id := by
              apply List.map_congr_left; intro y hy; simp [this y hy]
          _ = r := by simp
      simp only [costSum, List.map_cons, List.sum_cons, hk, if_true, hid]
      omega
    · rename_i hk
      have := ih key F e hnd.2 h
      simp only [costSum, List.map_cons, List.sum_cons, hk, if_false] at this ⊢
      omega

theorem updateLevels_fst (lv : List Level) (off tAt sec : Int) :
    (updateLevels lv off tAt sec).map (·.1) = lv.map (·.1) := by
  unfold updateLevels; rw [List.map_map]; rfl

theorem updateLevels_secMap (lv : List Level) (off tAt sec : Int) (sm : LMap) (h : lv.getLast? = some (1, sm)) :
    secMap (updateLevels lv off tAt sec) = bump sm sec tAt := by
  apply secMap_of_last (p := (1, bump sm sec tAt))
  unfold updateLevels
  rw [List.getLast?_map, h]
  simp [roundTime_one]

theorem gcLevels_fst : ∀ (lv : List Level) (gf : Int) (ds : List (List Int)),
    (gcLevels lv gf ds).map (·.1) = lv.map (·.1) := by
  intro lv
  induction lv with
  | nil => intro gf ds; simp [gcLevels]
  | cons p r ih => intro gf ds; cases ds <;> simp [gcLevels, ih]

theorem gcLevels_mem : ∀ (lv : List Level) (gf : Int) (ds : List (List Int)) (p' : Level),
    p' ∈ gcLevels lv gf ds → ∃ p ∈ lv, ∃ d, p' = (p.1, gcMap p.2 gf d) := by
  intro lv
  induction lv with
  | nil => intro gf ds p' h; simp [gcLevels] at h
  | cons p r ih =>
    intro gf ds p' h
    cases ds with
    | nil =>
      simp only [gcLevels, List.mem_cons] at h
      rcases h with h | h
      · exact ⟨p, by simp, [], h⟩
      · obtain ⟨q, hq, d, e⟩ := ih gf [] p' h
        exact ⟨q, List.mem_cons_of_mem _ hq, d, e⟩
    | cons d ds =>
      simp only [gcLevels, List.mem_cons] at h
      rcases h with h | h
      · exact ⟨p, by simp, d, h⟩
      · obtain ⟨q, hq, d', e⟩ := ih gf ds p' h
        exact ⟨q, List.mem_cons_of_mem _ hq, d', e⟩

theorem gcLevels_last : ∀ (lv : List Level) (gf : Int) (ds : List (List Int)) (p : Level),
    lv.getLast? = some p → ∃ d, (gcLevels lv gf ds).getLast? = some (p.1, gcMap p.2 gf d) := by
  intro lv
  induction lv with
  | nil => intro gf ds p h; simp at h
  | cons x r ih =>
    intro gf ds p h
    cases r with
    | nil =>
      simp at h; subst h
      cases ds with
      | nil => exact ⟨[], by simp [gcLevels]⟩
      | cons d ds => exact ⟨d, by simp [gcLevels]⟩
    | cons y r' =>
      rw [List.getLast?_cons_cons] at h
      cases ds with
      | nil =>
        obtain ⟨d, hd⟩ := ih gf [] p h
        refine ⟨d, ?_⟩
        simp only [gcLevels] at hd ⊢
        rw [List.getLast?_cons_cons]; exact hd
      | cons d0 ds =>
        obtain ⟨d, hd⟩ := ih gf ds p h
        refine ⟨d, ?_⟩
        cases ds <;> (simp only [gcLevels] at hd ⊢; rw [List.getLast?_cons_cons]; exact hd)

end SH.C24
