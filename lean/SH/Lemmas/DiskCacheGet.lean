import SH.Lemmas.DiskCacheDrain

namespace SH.C09
open SH.DiskCache

/-! ### GetBucket under the invariant -/

theorem mem_bucketsAt (cfg : Cfg) (name : Nat) (b : Bucket) : ∀ (off : Nat) (rs : List ARec), b ∈ bucketsAt cfg name off rs →
    ∃ r1 r r2, rs = r1 ++ r :: r2 ∧ r.id = some b.id ∧
      b = ⟨b.id, name, off + recsLen r1, r.time, r.body.length, cfg.crc r.body⟩ := by
  intro off rs
  induction rs generalizing off with
  | nil => intro h; simp [bucketsAt] at h
  | cons q rs ih =>
    intro h
    simp only [bucketsAt, List.mem_append] at h
    rcases h with h | h
    · cases hid : q.id with
      | none => simp [bucketOf, hid] at h
      | some k =>
        simp [bucketOf, hid] at h
        subst h
        exact ⟨[], q, rs, rfl, hid, by simp [recsLen]⟩
    · obtain ⟨r1, r, r2, h1, h2, h3⟩ := ih _ h
      refine ⟨q :: r1, r, r2, by rw [h1]; rfl, h2, ?_⟩
      rw [h3]; simp [recsLen, Nat.add_assoc]

theorem bucketsAt_mem (cfg : Cfg) (name off : Nat) (r1 r2 : List ARec) (r : ARec) (k : Nat) (h : r.id = some k) :
    (⟨k, name, off + recsLen r1, r.time, r.body.length, cfg.crc r.body⟩ : Bucket) ∈ bucketsAt cfg name off (r1 ++ r :: r2) := by
  rw [bucketsAt_append]
  simp [bucketsAt, bucketOf, h]

theorem readBody_at (cfg : Cfg) (r1 r2 : List ARec) (r : ARec) (tl : Bytes) (id name t c : Nat) :
    readBody (encRecs cfg (r1 ++ r :: r2) ++ tl) ⟨id, name, recsLen r1, t, r.body.length, c⟩ = r.body := by
  unfold readBody
  have e : encRecs cfg (r1 ++ r :: r2) ++ tl =
      encRecs cfg r1 ++ (encHeader r.magic r.time r.body.length (cfg.crc r.body) ++ (r.body ++ (encRecs cfg r2 ++ tl))) := by
    simp [encRecs_append, encRecs, ARec.enc]
  rw [e]
  simp only
  rw [← List.drop_drop, ← encRecs_length cfg r1, List.drop_left]
  have : headerSize = (encHeader r.magic r.time r.body.length (cfg.crc r.body)).length := by simp [encHeader_length, headerSize]
  rw [this, List.drop_left, List.take_left]

theorem Inv.bucket_view {cfg : Cfg} {s : Shard} {a : Abs} (inv : Inv cfg s a) {b : Bucket} (hb : b ∈ a.buckets cfg) :
    ∃ f ∈ a.files, ∃ r1 r r2, f.recs = r1 ++ r :: r2 ∧ r.id = some b.id ∧
      b = ⟨b.id, f.name, recsLen r1, r.time, r.body.length, cfg.crc r.body⟩ := by
  obtain ⟨f, hf, hbf⟩ := List.mem_flatMap.mp hb
  obtain ⟨r1, r, r2, h1, h2, h3⟩ := mem_bucketsAt cfg f.name b 0 f.recs hbf
  exact ⟨f, hf, r1, r, r2, h1, h2, by simpa using h3⟩

theorem findB_some {bs : List Bucket} {id : Nat} {b : Bucket} (h : findB bs id = some b) : b ∈ bs ∧ b.id = id := by
  unfold findB at h
  exact ⟨List.mem_of_find?_eq_some h, by simpa using List.find?_some h⟩

theorem Inv.findB_of_mem {cfg : Cfg} {s : Shard} {a : Abs} (inv : Inv cfg s a) {b : Bucket} (hb : b ∈ a.buckets cfg) :
    findB s.known b.id = some b := by
  have hk : b ∈ s.known := (inv.known b).mpr hb
  cases h : findB s.known b.id with
  | none =>
    unfold findB at h
    rw [List.find?_eq_none] at h
    have := h b hk
    simp at this
  | some b' =>
    obtain ⟨h1, h2⟩ := findB_some h
    have hb' : b' ∈ a.buckets cfg := (inv.known b').mp h1
    have := nodup_map_inj (fun x : Bucket => x.id) _ inv.idsNodup b' hb' b hb h2
    rw [this]

/-- under the invariant GetBucket never fails on a known id with the right time, returns exactly the bytes that were put,
    and changes nothing -/
theorem get_known (cfg : Cfg) (s : Shard) (a : Abs) (inv : Inv cfg s a) (b : Bucket) (hb : b ∈ a.buckets cfg) :
    ∃ f ∈ a.files, ∃ r1 r r2, f.recs = r1 ++ r :: r2 ∧ r.id = some b.id ∧ r.time = b.time ∧
      DiskCache.get cfg s b.id b.time = (s, .ok r.body) := by
  obtain ⟨f, hf, r1, r, r2, h1, h2, h3⟩ := inv.bucket_view hb
  refine ⟨f, hf, r1, r, r2, h1, h2, by rw [h3], ?_⟩
  unfold DiskCache.get
  rw [inv.findB_of_mem hb]
  simp only [bne_self_eq_false, Bool.false_eq_true, if_false]
  have hbytes : DiskCache.fileBytes s.disk b.file = encRecs cfg (r1 ++ r :: r2) ++ f.tl := by
    have : b.file = f.name := by rw [h3]
    rw [this, inv.fileBytes hf, AFile.bytes, h1]
  have hbody : readBody (DiskCache.fileBytes s.disk b.file) b = r.body := by
    rw [hbytes, h3]; exact readBody_at cfg r1 r2 r f.tl _ _ _ _
  rw [hbody]
  have hsz : b.size = r.body.length := by rw [h3]
  have hcrc : b.crc = cfg.crc r.body := by rw [h3]
  simp [hsz, hcrc]

/-- GetBucket never changes the state when the invariant holds -/
theorem get_state (cfg : Cfg) (s : Shard) (a : Abs) (inv : Inv cfg s a) (id t : Nat) : (DiskCache.get cfg s id t).1 = s := by
  cases h : findB s.known id with
  | none => simp [DiskCache.get, h]
  | some b =>
    obtain ⟨hbk, hbid⟩ := findB_some h
    have hb := (inv.known b).mp hbk
    by_cases ht : b.time = t
    · obtain ⟨_, _, _, _, _, _, _, _, hg⟩ := get_known cfg s a inv b hb
      rw [hbid, ht] at hg
      rw [hg]
    · unfold DiskCache.get
      rw [h]
      have : (b.time != t) = true := by simp [ht]
      simp [this]

end SH.C09
