/-
  SH.Lemmas.PCacheEvict — helper development for exact size accounting and termination of the eviction loop
  (`for c.size+len(c.cache) >= c.approxMaxSize { c.size -= c.evictLocked() }` in pointsCache.get).
-/
import SH.Lemmas.PCacheBase

namespace SH.C24
open SH.PCache SH.Gen.C24

def rng (c : CRows) : Int × Int := (c.tFrom, c.tTo)

theorem isRange_iff (c : CRows) (f t : Int) : isRange c f t = true ↔ rng c = (f, t) := by
  unfold isRange rng; simp

theorem findEntry_of_mem : ∀ (c : List Entry) (e : Entry), (c.map (·.key)).Nodup → e ∈ c → findEntry c e.key = some e := by
  intro c
  induction c with
  | nil => intro e _ h; simp at h
  | cons x r ih =>
    intro e hnd he
    simp only [List.map_cons, List.nodup_cons] at hnd
    simp only [findEntry]
    rcases List.mem_cons.mp he with h | h
    · subst h; simp
    · have : x.key ≠ e.key := by
        intro hk; exact hnd.1 (by rw [hk]; exact List.mem_map_of_mem h)
      simp only [this, if_false]; exact ih e hnd.2 h

theorem costSum_filter_eq : ∀ (c : List Entry) (k : Nat) (e : Entry), (c.map (·.key)).Nodup → findEntry c k = some e →
    costSum (c.filter (fun x => x.key ≠ k)) = costSum c - entryCost e := by
  intro c
  induction c with
  | nil => intro k e _ h; simp [findEntry] at h
  | cons x r ih =>
    intro k e hnd h
    simp only [List.map_cons, List.nodup_cons] at hnd
    simp only [findEntry] at h
    split at h
    · rename_i hk
      injection h with h; subst h
      have hid : r.filter (fun y => y.key ≠ k) = r := by
        apply List.filter_eq_self.mpr
        intro y hy
        have : y.key ≠ k := by intro hyk; exact hnd.1 (by rw [hk, ← hyk]; exact List.mem_map_of_mem hy)
        simpa using this
      rw [List.filter_cons]; split
      · rename_i hd; simp [hk] at hd
      · rw [hid, costSum_cons]; omega
    · rename_i hk
      have := ih k e hnd.2 h
      rw [List.filter_cons]; split
      · rw [costSum_cons, costSum_cons, this]; omega
      · rename_i hd; simp [hk] at hd

theorem filter_length_lt : ∀ (c : List Entry) (k : Nat) (e : Entry), findEntry c k = some e →
    (c.filter (fun x => x.key ≠ k)).length < c.length := by
  intro c
  induction c with
  | nil => intro k e h; simp [findEntry] at h
  | cons x r ih =>
    intro k e h
    simp only [findEntry] at h
    split at h
    · rename_i hk
      have := List.length_filter_le (fun y : Entry => decide (y.key ≠ k)) r
      rw [List.filter_cons]; split
      · rename_i hd; simp [hk] at hd
      · simp only [List.length_cons]; omega
    · rename_i hk
      have := ih k e h
      rw [List.filter_cons]; split
      · simp only [List.length_cons]; omega
      · rename_i hd; simp [hk] at hd

/-- the ranges of one entry are pairwise different (Go: keys of the map `e.rows`) -/
def RangesNodup (rows : List CRows) : Prop := (rows.map rng).Nodup

theorem filter_range_len_eq : ∀ (rows : List CRows) (f t : Int), RangesNodup rows → hasRange rows f t = true →
    (rows.filter (fun x => !isRange x f t)).length + 1 = rows.length := by
  intro rows
  induction rows with
  | nil => intro f t _ h; simp [hasRange, findRows] at h
  | cons c r ih =>
    intro f t hnd h
    unfold RangesNodup at hnd
    simp only [List.map_cons, List.nodup_cons] at hnd
    by_cases hc : isRange c f t = true
    · have hid : r.filter (fun x => !isRange x f t) = r := by
        apply List.filter_eq_self.mpr
        intro y hy
        have : ¬ isRange y f t = true := by
          intro hy2
          rw [isRange_iff] at hc hy2
          exact hnd.1 (by rw [hc, ← hy2]; exact List.mem_map_of_mem hy)
        simpa using this
      simp only [List.filter, hc, Bool.not_true, hid, List.length_cons]
    · have hr : hasRange r f t = true := by
        simp only [hasRange, findRows, hc] at h ⊢; exact h
      have := ih f t hnd.2 hr
      simp only [List.filter, hc, Bool.not_false, List.length_cons]; omega

theorem filter_range_len_none : ∀ (rows : List CRows) (f t : Int), hasRange rows f t = false →
    (rows.filter (fun x => !isRange x f t)).length = rows.length := by
  intro rows
  induction rows with
  | nil => intro f t _; rfl
  | cons c r ih =>
    intro f t h
    by_cases hc : isRange c f t = true
    · simp [hasRange, findRows, hc] at h
    · have hr : hasRange r f t = false := by
        simp only [hasRange, findRows, hc] at h ⊢; exact h
      simp only [List.filter, hc, Bool.not_false, List.length_cons, ih f t hr]

theorem putEntry_cost_eq (e : Entry) (tLru : Int) (cr : CRows) (hnd : RangesNodup e.rows) :
    entryCost (putEntry e tLru cr) = entryCost e + sizeDelta e cr := by
  unfold entryCost putEntry putRange sizeDelta
  simp only [List.length_cons]
  push_cast
  split
  · rename_i h
    have := filter_range_len_eq e.rows cr.tFrom cr.tTo hnd h
    omega
  · rename_i h
    have := filter_range_len_none e.rows cr.tFrom cr.tTo (by simpa using h)
    omega

theorem putRange_nodup (rows : List CRows) (cr : CRows) (hnd : RangesNodup rows) : RangesNodup (putRange rows cr) := by
  unfold RangesNodup putRange at *
  simp only [List.map_cons, List.nodup_cons]
  constructor
  · intro hm
    obtain ⟨y, hy, hr⟩ := List.mem_map.mp hm
    have h1 := (List.mem_filter.mp hy).2
    have : isRange y cr.tFrom cr.tTo = true := (isRange_iff y _ _).mpr (by rw [hr]; rfl)
    simp [this] at h1
  · exact List.Nodup.sublist (List.Sublist.map _ List.filter_sublist) hnd

/-- an entry with the smallest lru -/
theorem exists_min_lru : ∀ (c : List Entry), c ≠ [] → ∃ e ∈ c, ∀ x ∈ c, e.lru ≤ x.lru := by
  intro c
  induction c with
  | nil => intro h; exact absurd rfl h
  | cons x r ih =>
    intro _
    by_cases hr : r = []
    · subst hr; exact ⟨x, by simp, by intro y hy; simp at hy; subst hy; exact le_refl _⟩
    · obtain ⟨m, hm, hle⟩ := ih hr
      by_cases hx : x.lru ≤ m.lru
      · refine ⟨x, by simp, ?_⟩
        intro y hy
        rcases List.mem_cons.mp hy with h | h
        · subst h; exact le_refl _
        · exact le_trans hx (hle y h)
      · refine ⟨m, List.mem_cons_of_mem _ hm, ?_⟩
        intro y hy
        rcases List.mem_cons.mp hy with h | h
        · subst h; omega
        · exact hle y h

/-- evictLocked can always pick an entry with the smallest lru, whatever the map order and the sample -/
theorem min_lru_legal (c : List Entry) (e : Entry) (hnd : (c.map (·.key)).Nodup) (he : e ∈ c)
    (hmin : ∀ x ∈ c, e.lru ≤ x.lru) : evictLegal c e.key = true := by
  unfold evictLegal
  rw [findEntry_of_mem c e hnd he]
  have : c.filter (fun x => decide (x.lru < e.lru)) = [] := by
    apply List.filter_eq_nil_iff.mpr
    intro x hx
    have := hmin x hx
    simp; omega
  simp [this]

end SH.C24
