/-
  SH.Lemmas.PromWindow — the window cursor (newWindow / moveOneLeft / setValueAtRight / fillPrefixWith as modelled in
  SH.Model.PromEval) on a uniform time grid: every over-time function is evaluated on exactly the points of its range.
  Used by SH.Props.C27 (over_time_is_definition).
-/
import SH.Model.PromEval
import Mathlib.Tactic.Linarith
import Mathlib.Tactic.Ring
import Mathlib.Tactic.Push

namespace SH.PromWindow
open SH.PromEval

def b2n (b : Bool) : Nat := if b then 1 else 0

/-- number of present points among v[l], …, v[l+j-1] -/
def cnt (v : List Val) : Nat → Nat → Nat
  | _, 0 => 0
  | l, j + 1 => b2n (isPresent v l) + cnt v (l + 1) j

theorem cnt_succ_right (v : List Val) (l j : Nat) : cnt v l (j + 1) = cnt v l j + b2n (isPresent v (l + j)) := by
  induction j generalizing l with
  | zero => simp [cnt]
  | succ j ih =>
    rw [cnt, ih (l + 1), cnt]
    have : l + 1 + j = l + (j + 1) := by omega
    rw [this]; omega

theorem cnt_add (v : List Val) (l a b : Nat) : cnt v l (a + b) = cnt v l a + cnt v (l + a) b := by
  induction a generalizing l with
  | zero => simp [cnt]
  | succ a ih =>
    have h1 : a + 1 + b = (a + b) + 1 := by omega
    rw [h1, cnt, cnt, ih (l + 1)]
    have : l + 1 + a = l + (a + 1) := by omega
    rw [this]; omega

theorem isPresent_set_ne (v : List Val) (r i : Nat) (x : Val) (h : i ≠ r) : isPresent (v.set r x) i = isPresent v i := by
  unfold isPresent
  simp only [List.getD_eq_getElem?_getD]
  rw [List.getElem?_set_ne (Ne.symm h)]

theorem isPresent_set_self (v : List Val) (r : Nat) (x : Val) (h : r < v.length) : isPresent (v.set r x) r = x.isSome := by
  unfold isPresent
  simp [List.getD_eq_getElem?_getD, h]

theorem cnt_set_lt (v : List Val) (r : Nat) (x : Val) (l j : Nat) (h : l + j ≤ r) : cnt (v.set r x) l j = cnt v l j := by
  induction j generalizing l with
  | zero => simp [cnt]
  | succ j ih =>
    rw [cnt, cnt, ih (l + 1) (by omega), isPresent_set_ne v r l x (by omega)]

theorem present_cons (a : Val) (l : List Val) : (present (a :: l)).length = b2n a.isSome + (present l).length := by
  cases a <;> simp [present, b2n]; omega

/-- the count the cursor maintains is the number of present points of the slice -/
theorem present_slice_length (v : List Val) (l j : Nat) : (present ((v.drop l).take j)).length = cnt v l j := by
  induction j generalizing l with
  | zero => simp [present, cnt]
  | succ j ih =>
    by_cases hl : l < v.length
    · rw [List.drop_eq_getElem_cons hl, List.take_succ_cons, present_cons, ih (l + 1), cnt]
      congr 1
      unfold isPresent
      simp [List.getD_eq_getElem?_getD, hl]
    · have hd : v.drop l = [] := List.drop_eq_nil_of_le (by omega)
      have hp : isPresent v l = false := by
        unfold isPresent
        simp [List.getD_eq_getElem?_getD, List.getElem?_eq_none (by omega : v.length ≤ l)]
      have := ih (l + 1)
      rw [List.drop_eq_nil_of_le (by omega)] at this
      simp only [List.take_nil] at this
      rw [hd, cnt, hp, ← this]
      simp [present, b2n]

theorem slice_count (v : List Val) (l r : Nat) : (present (slice v l r)).length = cnt v l (r + 1 - l) :=
  present_slice_length v l (r + 1 - l)

theorem slice_eq_of_take (v o : List Val) (l r : Nat) (h : v.take (r + 1) = o.take (r + 1)) : slice v l r = slice o l r := by
  unfold slice
  rw [← List.drop_take, ← List.drop_take, h]

/-! ### the uniform grid -/

/-- `k` = number of grid points the range selects: not strict → the narrowest window at least `w` wide (⌈w/s⌉ points),
    strict → the widest window not wider than `w` (⌊w/s⌋ points, at least one) -/
def kSpec (strict : Bool) (w s : Int) (k : Nat) : Prop :=
  1 ≤ k ∧ 0 < s ∧ (if strict then (k : Int) * s ≤ w ∧ w < ((k : Int) + 1) * s else ((k : Int) - 1) * s < w ∧ w ≤ (k : Int) * s)

def uniform (t : List Int) (t0 s : Int) : Prop := ∀ i, i < t.length → tAt t i = t0 + (i : Int) * s

theorem wideEnough_eq (t : List Int) (t0 s w : Int) (strict : Bool) (k : Nat) (hg : uniform t t0 s) (hk : kSpec strict w s k)
    (wd : Wnd) (hw : wd.w = w) (hs : wd.s = s) (hst : wd.strict = strict) (r l : Nat) (hl : 1 ≤ l) (hlr : l ≤ r)
    (hr : r < t.length) : wideEnough t wd r l = decide (k ≤ r + 1 - l) := by
  obtain ⟨hk1, hs0, hkw⟩ := hk
  obtain ⟨j, hj⟩ : ∃ j : Nat, r + 1 - l = j := ⟨_, rfl⟩
  have hrj : (r : Int) = (l : Int) + (j : Int) - 1 := by omega
  have hl1 : ((l - 1 : Nat) : Int) = (l : Int) - 1 := by omega
  have e1 : tAt t r - tAt t l + s = (j : Int) * s := by
    rw [hg r hr, hg l (by omega), hrj]; ring
  have e2 : tAt t r - tAt t (l - 1) + s = ((j : Int) + 1) * s := by
    rw [hg r hr, hg (l - 1) (by omega), hrj, hl1]; ring
  unfold wideEnough
  rw [hw, hs, hst, e1, e2, hj]
  cases strict with
  | false =>
    simp only [Bool.false_eq_true, if_false] at hkw
    simp only [Bool.false_and, Bool.or_false]
    by_cases hkj : k ≤ j
    · have : (k : Int) * s ≤ (j : Int) * s := by
        have : (k : Int) ≤ (j : Int) := by exact_mod_cast hkj
        nlinarith
      simp [hkj]; linarith [hkw.2]
    · have : (j : Int) * s ≤ ((k : Int) - 1) * s := by
        have : (j : Int) ≤ (k : Int) - 1 := by omega
        nlinarith
      simp [hkj]; linarith [hkw.1]
  | true =>
    simp only [if_true] at hkw
    simp only [Bool.true_and]
    by_cases hkj : k ≤ j
    · have : ((k : Int) + 1) * s ≤ ((j : Int) + 1) * s := by
        have : (k : Int) ≤ (j : Int) := by exact_mod_cast hkj
        nlinarith
      have h2 : w < ((j : Int) + 1) * s := by linarith [hkw.2]
      simp [hkj, h2]
    · have h1 : ((j : Int) + 1) * s ≤ (k : Int) * s := by
        have : (j : Int) + 1 ≤ (k : Int) := by omega
        nlinarith
      have h2 : (j : Int) * s ≤ (k : Int) * s := by nlinarith
      have n1 : ¬ w ≤ (j : Int) * s := by
        intro h
        have : (j : Int) * s < ((j : Int) + 1) * s := by nlinarith
        linarith [hkw.1]
      have n2 : ¬ w < ((j : Int) + 1) * s := by linarith [hkw.1]
      simp [hkj, n1, n2]

/-! ### the search for the left edge -/

structure Ctx where
  t : List Int
  t0 : Int
  s : Int
  w : Int
  strict : Bool
  k : Nat
  hg : uniform t t0 s
  hk : kSpec strict w s k

/-- the cursor fields that never change -/
def Good (c : Ctx) (wd : Wnd) : Prop := wd.w = c.w ∧ wd.s = c.s ∧ wd.strict = c.strict ∧ wd.done = false

theorem searchLeft_walk (c : Ctx) (v : List Val) (wd : Wnd) (hgd : Good c wd) (r : Nat) (hr : r < c.t.length) (hkr : c.k ≤ r) :
    ∀ (d l n : Nat), l = r + 1 - c.k + d → l ≤ r →
      searchLeft c.t v wd r l n = (r + 1 - c.k, n + cnt v (r + 1 - c.k) d, true) := by
  have hk1 : 1 ≤ c.k := c.hk.1
  intro d
  induction d with
  | zero =>
    intro l n hl hlr
    obtain ⟨l', rfl⟩ : ∃ l', l = l' + 1 := ⟨l - 1, by omega⟩
    unfold searchLeft
    rw [wideEnough_eq c.t c.t0 c.s c.w c.strict c.k c.hg c.hk wd hgd.1 hgd.2.1 hgd.2.2.1 r (l' + 1) (by omega) hlr hr]
    have hd : decide (c.k ≤ r + 1 - (l' + 1)) = true := by simp; omega
    rw [hd]
    simp only [if_true, cnt, Nat.add_zero]
    rw [hl, Nat.add_zero]
  | succ d ih =>
    intro l n hl hlr
    obtain ⟨l', rfl⟩ : ∃ l', l = l' + 1 := ⟨l - 1, by omega⟩
    unfold searchLeft
    rw [wideEnough_eq c.t c.t0 c.s c.w c.strict c.k c.hg c.hk wd hgd.1 hgd.2.1 hgd.2.2.1 r (l' + 1) (by omega) hlr hr]
    have : ¬ c.k ≤ r + 1 - (l' + 1) := by omega
    simp only [this, decide_false, Bool.false_eq_true, if_false]
    rw [ih l' _ (by omega) (by omega), cnt_succ_right]
    have e : r + 1 - c.k + d = l' := by omega
    rw [e]
    by_cases hp : isPresent v l' = true <;> simp [hp, b2n] <;> omega

theorem searchLeft_fail (c : Ctx) (v : List Val) (wd : Wnd) (hgd : Good c wd) (r : Nat) (hr : r < c.t.length) (hkr : r < c.k) :
    ∀ (l n : Nat), l ≤ r → ∃ n', searchLeft c.t v wd r l n = (0, n', false) := by
  intro l
  induction l with
  | zero => intro n _; exact ⟨n, rfl⟩
  | succ l ih =>
    intro n hl
    unfold searchLeft
    rw [wideEnough_eq c.t c.t0 c.s c.w c.strict c.k c.hg c.hk wd hgd.1 hgd.2.1 hgd.2.2.1 r (l + 1) (by omega) hl hr]
    have : ¬ c.k ≤ r + 1 - (l + 1) := by omega
    simp only [this, decide_false, Bool.false_eq_true, if_false]
    exact ih _ (by omega)

theorem w_pos (c : Ctx) : 0 < c.w := by
  obtain ⟨hk1, hs0, hkw⟩ := c.hk
  have hk : (1 : Int) ≤ (c.k : Int) := by exact_mod_cast hk1
  cases hst : c.strict with
  | false =>
    rw [hst] at hkw; simp only [Bool.false_eq_true, if_false] at hkw
    nlinarith [hkw.1]
  | true =>
    rw [hst] at hkw; simp only [if_true] at hkw
    nlinarith [hkw.1]

theorem strict_not_narrow (c : Ctx) (hst : c.strict = true) : ¬ c.w < c.s := by
  obtain ⟨hk1, hs0, hkw⟩ := c.hk
  have hk : (1 : Int) ≤ (c.k : Int) := by exact_mod_cast hk1
  rw [hst] at hkw; simp only [if_true] at hkw
  nlinarith [hkw.1]

/-! ### one move -/

/-- the state before a move: either the left edge will be reset (first move, or one-point windows), or the cursor holds
    the window of the previous point with n = (present points left of R) + (the value now stored at R) -/
def Pre (c : Ctx) (v : List Val) (wd : Wnd) (R : Nat) : Prop :=
  Good c wd ∧ wd.r = R ∧ 1 ≤ R ∧
  (wd.l > R - 1 ∨ (wd.l = R + 1 - c.k ∧ wd.l ≤ R - 1 ∧ 1 ≤ wd.l ∧ wd.n = cnt v wd.l (c.k - 1) + b2n (isPresent v R)))

theorem start_count (c : Ctx) (v : List Val) (wd : Wnd) (R : Nat) (h : Pre c v wd R) :
    countStart v wd (R - 1) = cnt v (leftStart wd (R - 1)) (R - leftStart wd (R - 1)) ∧
    R - c.k ≤ leftStart wd (R - 1) ∧ leftStart wd (R - 1) ≤ R - 1 := by
  obtain ⟨hgd, hr, hR1, hcase⟩ := h
  have hk1 : 1 ≤ c.k := c.hk.1
  unfold countStart leftStart
  rcases hcase with hl | ⟨hl, hle, hl1, hn⟩
  · simp only [hl, if_true]
    have hns : (c.strict && decide (c.w < c.s)) = false := by
      cases hst : c.strict with
      | false => simp
      | true => simp [strict_not_narrow c hst]
    rw [hgd.1, hgd.2.1, hgd.2.2.1, hns]
    refine ⟨?_, by omega, by omega⟩
    have : R - (R - 1) = 1 := by omega
    rw [this, cnt, cnt]
    by_cases hp : isPresent v (R - 1) = true <;> simp [hp, b2n]
  · have hnl : ¬ wd.l > R - 1 := by omega
    simp only [hnl, if_false]
    refine ⟨?_, by omega, hle⟩
    rw [hr, hn]
    have : R - wd.l = c.k - 1 := by omega
    rw [this]
    by_cases hp : isPresent v R = true <;> simp [hp, b2n]

theorem move_ok (c : Ctx) (v : List Val) (wd : Wnd) (R : Nat) (h : Pre c v wd R) (hRN : R ≤ c.t.length) (hkR : c.k ≤ R - 1) :
    ∃ wd', moveOneLeft c.t v wd = some wd' ∧ Good c wd' ∧ wd'.r = R - 1 ∧ wd'.l = R - c.k ∧ wd'.n = cnt v (R - c.k) c.k := by
  have hsc := start_count c v wd R h
  obtain ⟨hgd, hr, hR1, _⟩ := h
  have hk1 : 1 ≤ c.k := c.hk.1
  obtain ⟨hn0, hlo, hhi⟩ := hsc
  have hwalk := searchLeft_walk c v wd hgd (R - 1) (by omega) hkR (leftStart wd (R - 1) - (R - c.k))
    (leftStart wd (R - 1)) (countStart v wd (R - 1)) (by omega) hhi
  have hidx : R - 1 + 1 - c.k = R - c.k := by omega
  rw [hidx] at hwalk
  have hw0 : decide (wd.w ≤ 0) = false := by
    rw [hgd.1]; simp; exact w_pos c
  have hsum : countStart v wd (R - 1) + cnt v (R - c.k) (leftStart wd (R - 1) - (R - c.k)) = cnt v (R - c.k) c.k := by
    have hadd := cnt_add v (R - c.k) (leftStart wd (R - 1) - (R - c.k)) (R - leftStart wd (R - 1))
    have e : (leftStart wd (R - 1) - (R - c.k)) + (R - leftStart wd (R - 1)) = c.k := by omega
    have e2 : R - c.k + (leftStart wd (R - 1) - (R - c.k)) = leftStart wd (R - 1) := by omega
    rw [e, e2] at hadd
    rw [hn0, hadd]; omega
  have hs : tAt c.t (R - 1) - tAt c.t (R - 1 - 1) = c.s := by
    rw [c.hg (R - 1) (by omega), c.hg (R - 1 - 1) (by omega)]
    have : ((R - 1 - 1 : Nat) : Int) = ((R - 1 : Nat) : Int) - 1 := by omega
    rw [this]; ring
  have hl0 : R - c.k ≠ 0 := by omega
  refine ⟨{ wd with l := R - c.k, r := R - 1, n := cnt v (R - c.k) c.k, s := c.s }, ?_, ?_, rfl, rfl, rfl⟩
  · unfold moveOneLeft
    simp only [hgd.2.2.2, Bool.false_eq_true, if_false, hr, hw0, Bool.false_and, hwalk, finishMove, hl0, hsum, hs]
  · exact ⟨hgd.1, rfl, hgd.2.2.1, hgd.2.2.2⟩

theorem move_none (c : Ctx) (v : List Val) (wd : Wnd) (R : Nat) (h : Pre c v wd R) (hRN : R ≤ c.t.length) (hkR : R - 1 < c.k) :
    moveOneLeft c.t v wd = none := by
  have hsc := start_count c v wd R h
  obtain ⟨hgd, hr, hR1, _⟩ := h
  obtain ⟨_, _, hhi⟩ := hsc
  obtain ⟨n', hn'⟩ := searchLeft_fail c v wd hgd (R - 1) (by omega) hkR (leftStart wd (R - 1)) (countStart v wd (R - 1)) hhi
  have hw0 : decide (wd.w ≤ 0) = false := by
    rw [hgd.1]; simp; exact w_pos c
  unfold moveOneLeft
  simp only [hgd.2.2.2, Bool.false_eq_true, if_false, hr, hw0, Bool.false_and, hn', finishMove, if_true]

/-- setValueAtRight re-establishes the invariant for the next move -/
theorem pre_after_set (c : Ctx) (v : List Val) (wd' : Wnd) (R : Nat) (x : Val) (hgd : Good c wd') (hr : wd'.r = R - 1)
    (hl : wd'.l = R - c.k) (hn : wd'.n = cnt v (R - c.k) c.k) (hkR : c.k ≤ R - 1) (hRv : R ≤ v.length) :
    Pre c (setRight v wd' x).1 (setRight v wd' x).2 (R - 1) := by
  have hk1 : 1 ≤ c.k := c.hk.1
  unfold setRight
  refine ⟨⟨hgd.1, hgd.2.1, hgd.2.2.1, hgd.2.2.2⟩, hr, by omega, ?_⟩
  by_cases hk : c.k = 1
  · left; show wd'.l > R - 1 - 1; omega
  · right
    refine ⟨by show wd'.l = R - 1 + 1 - c.k; omega, by show wd'.l ≤ R - 1 - 1; omega, by show 1 ≤ wd'.l; omega, ?_⟩
    show (if (!isPresent v wd'.r && !x.isNone) = true then wd'.n + 1
          else if (!!isPresent v wd'.r && x.isNone) = true then wd'.n - 1 else wd'.n)
        = cnt (v.set wd'.r x) wd'.l (c.k - 1) + b2n (isPresent (v.set wd'.r x) (R - 1))
    rw [hr, hl, cnt_set_lt v (R - 1) x (R - c.k) (c.k - 1) (by omega), isPresent_set_self v (R - 1) x (by omega), hn]
    have hsr := cnt_succ_right v (R - c.k) (c.k - 1)
    have e : c.k - 1 + 1 = c.k := by omega
    have e2 : R - c.k + (c.k - 1) = R - 1 := by omega
    rw [e, e2] at hsr
    rw [hsr]
    cases x <;> by_cases hp : isPresent v (R - 1) = true <;> simp [hp, b2n]

/-! ### the whole loop -/

/-- the definition: the function applied to the `k` points ending at `i`, the nil value where none of them is present -/
def expAt (c : Ctx) (fn : List Val → Val) (nilV : Val) (orig : List Val) (i : Nat) : Val :=
  if (present (slice orig (i + 1 - c.k) i)).length ≠ 0 then fn (slice orig (i + 1 - c.k) i) else nilV

theorem loop_spec (c : Ctx) (fn : List Val → Val) (nilV : Val) (orig : List Val) :
    ∀ (fuel R : Nat) (v : List Val) (wd : Wnd), Pre c v wd R → R ≤ c.t.length → v.length = c.t.length →
      v.take R = orig.take R → (∀ i, R ≤ i → i < c.t.length → v.getD i none = expAt c fn nilV orig i) → R + 1 ≤ fuel →
      (otLoop c.t fn nilV fuel v wd).2.r = min R c.k ∧ (otLoop c.t fn nilV fuel v wd).1.length = c.t.length ∧
      (∀ i, min R c.k ≤ i → i < c.t.length → (otLoop c.t fn nilV fuel v wd).1.getD i none = expAt c fn nilV orig i) := by
  intro fuel
  induction fuel with
  | zero => intro R v wd _ _ _ _ _ hf; omega
  | succ fuel ih =>
    intro R v wd hpre hRN hvl htake hout hf
    have hk1 : 1 ≤ c.k := c.hk.1
    have hR1 : 1 ≤ R := hpre.2.2.1
    by_cases hkR : R - 1 < c.k
    · rw [otLoop, move_none c v wd R hpre hRN hkR]
      have hm : min R c.k = R := by omega
      rw [hm]
      exact ⟨hpre.2.1, hvl, hout⟩
    · have hkR' : c.k ≤ R - 1 := by omega
      obtain ⟨wd', hmv, hgd', hr', hl', hn'⟩ := move_ok c v wd R hpre hRN hkR'
      rw [otLoop, hmv]
      have hslice : slice v wd'.l wd'.r = slice orig (R - 1 + 1 - c.k) (R - 1) := by
        rw [hl', hr']
        have : R - 1 + 1 - c.k = R - c.k := by omega
        rw [this]
        apply slice_eq_of_take
        have : R - 1 + 1 = R := by omega
        rw [this]; exact htake
      have hcnt : wd'.n = (present (slice orig (R - 1 + 1 - c.k) (R - 1))).length := by
        rw [hn', ← hslice, slice_count, hl', hr']
        congr 1; omega
      have hout' : (if wd'.n ≠ 0 then fn (slice v wd'.l wd'.r) else nilV) = expAt c fn nilV orig (R - 1) := by
        unfold expAt; rw [hslice, hcnt]
      simp only [hout']
      have hpre' := pre_after_set c v wd' R (expAt c fn nilV orig (R - 1)) hgd' hr' hl' hn' hkR' (by omega)
      have hset : (setRight v wd' (expAt c fn nilV orig (R - 1))).1 = v.set (R - 1) (expAt c fn nilV orig (R - 1)) := by
        unfold setRight; rw [hr']
      have := ih (R - 1) _ _ hpre' (by omega) (by rw [hset, List.length_set]; exact hvl)
        (by
          rw [hset, List.take_set_of_le (le_refl _)]
          have h1 : v.take (R - 1) = (v.take R).take (R - 1) := by rw [List.take_take]; congr 1; omega
          have h2 : orig.take (R - 1) = (orig.take R).take (R - 1) := by rw [List.take_take]; congr 1; omega
          rw [h1, h2, htake])
        (by
          intro i hi hiN
          rw [hset]
          by_cases hie : i = R - 1
          · subst hie
            rw [List.getD_eq_getElem?_getD, List.getElem?_set_self (by omega)]; rfl
          · rw [List.getD_eq_getElem?_getD, List.getElem?_set_ne (by omega), ← List.getD_eq_getElem?_getD]
            exact hout i (by omega) hiN)
        (by omega)
      have hm : min (R - 1) c.k = min R c.k := by omega
      rw [hm] at this
      exact this

theorem getD_map_range (n : Nat) (f : Nat → Val) (i : Nat) (h : i < n) : ((List.range n).map f).getD i none = f i := by
  rw [List.getD_eq_getElem?_getD, List.getElem?_map, List.getElem?_range h]; rfl

/-- **the cursor-driven evaluation on a uniform grid**: point `i` carries the function of the `k` points ending at `i`
    (the nil value when none of them is present); the first `k` points (no complete window right of the guard point at
    index 0) are missing. -/
theorem overTimeWith_uniform (c : Ctx) (fn : List Val → Val) (nilV : Val) (orig : List Val) (hN : orig.length = c.t.length)
    (i : Nat) (hi : i < c.t.length) :
    (overTimeWith c.t c.w c.s c.strict fn nilV orig).getD i none = if i < c.k then none else expAt c fn nilV orig i := by
  have hN1 : 1 ≤ c.t.length := by omega
  have hpre : Pre c orig (newWindow c.t.length c.w c.s c.strict) c.t.length := by
    refine ⟨⟨rfl, rfl, rfl, ?_⟩, rfl, hN1, Or.inl ?_⟩
    · show decide (c.t.length = 0) = false
      exact decide_eq_false (by omega)
    · show c.t.length > c.t.length - 1
      omega
  have hspec := loop_spec c fn nilV orig (orig.length + 1) c.t.length orig _ hpre (le_refl _) hN rfl
    (by intro j h1 h2; omega) (by omega)
  obtain ⟨hr, hlen, hval⟩ := hspec
  unfold overTimeWith
  simp only []
  unfold fillPrefix
  rw [hlen, getD_map_range _ _ i hi, hr]
  by_cases hik : i < c.k
  · have : i < min c.t.length c.k := by omega
    simp [this, hik]
  · have : ¬ i < min c.t.length c.k := by omega
    simp only [this, hik, if_false]
    exact hval i (by omega) hi

theorem overTimeWith_length (c : Ctx) (fn : List Val → Val) (nilV : Val) (orig : List Val) (hN : orig.length = c.t.length)
    (hN1 : 1 ≤ c.t.length) : (overTimeWith c.t c.w c.s c.strict fn nilV orig).length = c.t.length := by
  have hpre : Pre c orig (newWindow c.t.length c.w c.s c.strict) c.t.length := by
    refine ⟨⟨rfl, rfl, rfl, ?_⟩, rfl, hN1, Or.inl ?_⟩
    · show decide (c.t.length = 0) = false
      exact decide_eq_false (by omega)
    · show c.t.length > c.t.length - 1
      omega
  have hspec := loop_spec c fn nilV orig (orig.length + 1) c.t.length orig _ hpre (le_refl _) hN rfl
    (by intro j h1 h2; omega) (by omega)
  unfold overTimeWith fillPrefix
  simp [hspec.2.1]

/-! ### which timestamps the `k` points are -/

/-- not strict: the points `j ≤ i` of the window are exactly those with timestamp in (t_i − w, t_i] -/
theorem window_timestamps (t : List Int) (t0 s w : Int) (k : Nat) (hg : uniform t t0 s) (hk : kSpec false w s k)
    (i j : Nat) (hji : j ≤ i) (hi : i < t.length) : (i + 1 - k ≤ j) ↔ tAt t i - w < tAt t j := by
  obtain ⟨hk1, hs0, hkw⟩ := hk
  simp only [Bool.false_eq_true, if_false] at hkw
  rw [hg i hi, hg j (by omega)]
  obtain ⟨d, rfl⟩ : ∃ d, i = j + d := ⟨i - j, by omega⟩
  have e : t0 + ((j + d : Nat) : Int) * s - w < t0 + (j : Int) * s ↔ (d : Int) * s < w := by
    push_cast; constructor <;> intro h <;> nlinarith
  rw [e]
  constructor
  · intro h
    have : (d : Int) ≤ (k : Int) - 1 := by omega
    nlinarith [hkw.1]
  · intro h
    by_contra hc
    have : (k : Int) ≤ (d : Int) := by omega
    nlinarith [hkw.2]

/-- strict: the points of the window are exactly those whose whole bucket [t_j, t_j + s) lies inside the range ending at
    t_i + s, i.e. t_j ≥ t_i + s − w; for a range that is a multiple of the step this is again (t_i − w, t_i] -/
theorem window_timestamps_strict (t : List Int) (t0 s w : Int) (k : Nat) (hg : uniform t t0 s) (hk : kSpec true w s k)
    (i j : Nat) (hji : j ≤ i) (hi : i < t.length) : (i + 1 - k ≤ j) ↔ tAt t i + s - w ≤ tAt t j := by
  obtain ⟨hk1, hs0, hkw⟩ := hk
  simp only [if_true] at hkw
  rw [hg i hi, hg j (by omega)]
  obtain ⟨d, rfl⟩ : ∃ d, i = j + d := ⟨i - j, by omega⟩
  have e : t0 + ((j + d : Nat) : Int) * s + s - w ≤ t0 + (j : Int) * s ↔ ((d : Int) + 1) * s ≤ w := by
    push_cast; constructor <;> intro h <;> nlinarith
  rw [e]
  constructor
  · intro h
    have : (d : Int) + 1 ≤ (k : Int) := by omega
    nlinarith [hkw.1]
  · intro h
    by_contra hc
    have : (k : Int) + 1 ≤ (d : Int) + 1 := by omega
    nlinarith [hkw.2]

end SH.PromWindow
