/-
  SH.Lemmas.PromLexChain — chaining the whole-lexer step lemmas: `Lexes` (a derivation of justified `lexStep`s through a text)
  determines `lexAll`; `lexAll_range_offset` is the first ∀-quantified character-level instance, `name[<n>s] offset <m>s`.
-/
import SH.Lemmas.PromLexAllSteps
set_option linter.unusedSimpArgs false
namespace SH.PromLex.Chain
open SH.PromLex SH.PromLex.Steps SH.PromLex.Num

/-- `Lexes n st text ts`: from state `st` the lexer steps through `text` in `n` steps, yielding the tokens `ts`, and ends at the
    end of input in a state that is accepted as EOF. Every step is justified by a `lexStep` fact (the step lemmas). -/
inductive Lexes : Nat → LexState → List Nat → List RawTok → Prop
  | done (st : LexState) (h1 : plain st) (h2 : st.depth = 0) (h3 : st.bracket = false) : Lexes 0 st [] []
  | tok {n st st' text rest name len ts} (h : lexStep text st = .tok name len rest st') (hl : rest.length < text.length)
      (hr : Lexes n st' rest ts) : Lexes (n + 1) st text (⟨name, len⟩ :: ts)
  | skip {n st st' text rest ts} (h : lexStep text st = .skip rest st') (hl : rest.length < text.length)
      (hr : Lexes n st' rest ts) : Lexes (n + 1) st text ts

theorem Lexes.steps_le {n st text ts} (h : Lexes n st text ts) : n ≤ text.length := by
  induction h with
  | done => simp
  | tok _ hl _ ih => omega
  | skip _ hl _ ih => omega

theorem Lexes.loop {n st text ts} (h : Lexes n st text ts) : ∀ f, n < f → lexLoop f text st = (ts, .eof) := by
  induction h with
  | done st h1 h2 h3 =>
    intro f hf
    obtain ⟨f', rfl⟩ : ∃ f', f = f' + 1 := ⟨f - 1, by omega⟩
    simp [lexLoop, lexStep, h1.1, h1.2, stepStatements, h2, h3]
  | tok hstep _ _ ih =>
    intro f hf
    obtain ⟨f', rfl⟩ : ∃ f', f = f' + 1 := ⟨f - 1, by omega⟩
    simp [lexLoop, hstep, ih f' (by omega)]
  | skip hstep _ _ ih =>
    intro f hf
    obtain ⟨f', rfl⟩ : ∃ f', f = f' + 1 := ⟨f - 1, by omega⟩
    simp [lexLoop, hstep, ih f' (by omega)]

/-- a chain of justified steps determines what the whole lexer returns -/
theorem Lexes.lexAll {n text ts} (h : Lexes n {} text ts) : lexAll text = (ts, .eof) :=
  h.loop _ (by have := h.steps_le; omega)

theorem printSeconds_cons (n : Nat) : ∃ d ds, printSeconds n = d :: ds ∧ isDigitB d = true := by
  obtain ⟨_, hd, hne⟩ := natDigits_spec n
  obtain ⟨d0, ds, hds⟩ := List.exists_cons_of_ne_nil hne
  exact ⟨d0, ds ++ [115], by simp [printSeconds, hds], hd d0 (by simp [hds])⟩

def offsetWord : List Nat := [111, 102, 102, 115, 101, 116]

/-- character level, for every identifier `c w`, range n and offset m: the text `name[<n>s] offset <m>s` (what the printer
    writes for a range selector with an offset) is lexed, by chaining the step lemmas through the bracket mode and the
    blanks, to exactly the six tokens of the printed expression -/
theorem lexAll_range_offset (c : Nat) (w : List Nat) (n m : Nat) (hc : (isAlphaB c || c == 58) = true)
    (hw : ∀ x ∈ w, isWordB x = true) :
    lexAll (c :: w ++ 91 :: (printSeconds n ++ 93 :: 32 :: (offsetWord ++ 32 :: printSeconds m))) =
      ([⟨wordName (c :: w), w.length + 1⟩, ⟨"LEFT_BRACKET", 1⟩, ⟨"DURATION", (printSeconds n).length⟩, ⟨"RIGHT_BRACKET", 1⟩,
        ⟨"OFFSET", 6⟩, ⟨"DURATION", (printSeconds m).length⟩], .eof) := by
  obtain ⟨dn, dns, hn, hdn⟩ := printSeconds_cons n
  obtain ⟨dm, dms, hm, hdm⟩ := printSeconds_cons m
  let st1 : LexState := { gotColon := false, bracket := true, wantDur := true }
  let st2 : LexState := { gotColon := false, bracket := true, wantDur := false }
  have hplain0 : plain ({} : LexState) := ⟨rfl, rfl⟩
  -- the steps, last first
  have s8 : Lexes 1 {} (printSeconds m) [⟨"DURATION", (printSeconds m).length⟩] := by
    have h := step_dur {} hplain0 m [] rfl
    rw [List.append_nil] at h
    exact .tok h (by simp [hm, offsetWord]; try omega) (.done {} hplain0 rfl rfl)
  have s7 : Lexes 2 {} (32 :: printSeconds m) [⟨"DURATION", (printSeconds m).length⟩] := by
    have h := step_blank {} rfl (printSeconds m)
    rw [hm, dropWhile_space_digit dm dms hdm, ← hm] at h
    exact .skip h (by simp [hn, hm, offsetWord]; try omega) s8
  have s6 : Lexes 3 {} (offsetWord ++ 32 :: printSeconds m) [⟨"OFFSET", 6⟩, ⟨"DURATION", (printSeconds m).length⟩] := by
    have h := step_word {} hplain0 rfl 111 [102, 102, 115, 101, 116] (32 :: printSeconds m) (by decide) (by decide)
      (by intro x t hx; cases hx; decide)
    have hname : wordName [111, 102, 102, 115, 101, 116] = "OFFSET" := by decide
    rw [hname] at h
    exact .tok h (by simp [hm, offsetWord]; try omega) s7
  have s5 : Lexes 4 {} (32 :: (offsetWord ++ 32 :: printSeconds m)) [⟨"OFFSET", 6⟩, ⟨"DURATION", (printSeconds m).length⟩] := by
    have h := step_blank {} rfl (offsetWord ++ 32 :: printSeconds m)
    have hd : (offsetWord ++ 32 :: printSeconds m).dropWhile isSpaceB = offsetWord ++ 32 :: printSeconds m := by
      simp [offsetWord, List.dropWhile, isSpaceB]
    rw [hd] at h
    exact .skip h (by simp [hn, hm, offsetWord]; try omega) s6
  have s4 : Lexes 5 st2 (93 :: 32 :: (offsetWord ++ 32 :: printSeconds m))
      [⟨"RIGHT_BRACKET", 1⟩, ⟨"OFFSET", 6⟩, ⟨"DURATION", (printSeconds m).length⟩] := by
    have h := step_rbracket st2 ⟨rfl, rfl⟩ rfl (32 :: (offsetWord ++ 32 :: printSeconds m))
    exact .tok h (by simp [hn, hm, offsetWord]; try omega) s5
  have s3 : Lexes 6 st1 (printSeconds n ++ 93 :: 32 :: (offsetWord ++ 32 :: printSeconds m))
      [⟨"DURATION", (printSeconds n).length⟩, ⟨"RIGHT_BRACKET", 1⟩, ⟨"OFFSET", 6⟩, ⟨"DURATION", (printSeconds m).length⟩] := by
    have h := step_dur_bracket st1 rfl n (93 :: 32 :: (offsetWord ++ 32 :: printSeconds m))
      (by simp [headAlnum, isAlnumB, isAlphaB, isDigitB])
    exact .tok h (by simp [hn, hm, offsetWord]; try omega) s4
  have s2 : Lexes 7 {} (91 :: (printSeconds n ++ 93 :: 32 :: (offsetWord ++ 32 :: printSeconds m)))
      [⟨"LEFT_BRACKET", 1⟩, ⟨"DURATION", (printSeconds n).length⟩, ⟨"RIGHT_BRACKET", 1⟩, ⟨"OFFSET", 6⟩,
        ⟨"DURATION", (printSeconds m).length⟩] := by
    have h := step_lbracket {} hplain0 rfl (printSeconds n ++ 93 :: 32 :: (offsetWord ++ 32 :: printSeconds m))
    have hd : (printSeconds n ++ 93 :: 32 :: (offsetWord ++ 32 :: printSeconds m)).dropWhile isSpaceB =
        printSeconds n ++ 93 :: 32 :: (offsetWord ++ 32 :: printSeconds m) := by
      rw [hn]; exact dropWhile_space_digit dn _ hdn
    rw [hd] at h
    exact .tok h (by simp [hn, hm, offsetWord]; try omega) s3
  have s1 : Lexes 8 {} (c :: w ++ 91 :: (printSeconds n ++ 93 :: 32 :: (offsetWord ++ 32 :: printSeconds m)))
      [⟨wordName (c :: w), w.length + 1⟩, ⟨"LEFT_BRACKET", 1⟩, ⟨"DURATION", (printSeconds n).length⟩, ⟨"RIGHT_BRACKET", 1⟩,
        ⟨"OFFSET", 6⟩, ⟨"DURATION", (printSeconds m).length⟩] := by
    have h := step_word {} hplain0 rfl c w (91 :: (printSeconds n ++ 93 :: 32 :: (offsetWord ++ 32 :: printSeconds m))) hc hw
      (by intro x t hx; cases hx; decide)
    exact .tok h (by simp [hn, hm, offsetWord]; try omega) s2
  exact s1.lexAll

end SH.PromLex.Chain
