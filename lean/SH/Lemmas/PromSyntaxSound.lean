/-
  SH.Lemmas.PromSyntaxSound — soundness of the model parser w.r.t. `wf` (used by SH.Props.C28.accepted_roundtrip).

  `parse_wf`: on a token stream every token of which the lexer can produce (`tokOk`: the kind of a word outside braces is
  the one its text is lexed to; no duration token of 0 seconds — the known finding zero-duration) every tree `parse`
  returns satisfies `wf`, the hypothesis of the round-trip theorem. Proved by induction on the parser's fuel, with the
  invariants of precedence climbing: `parseExpr p` returns a tree that fits at level p, and an operator that follows it
  binds weaker than p and is not absorbed by the tree's right edge (`Edge`); the operator loop keeps `LoopPre`.
-/
import SH.Model.PromSyntax
set_option linter.unusedSimpArgs false
namespace SH.PromSyntax.Sound
open SH.PromSyntax

/-- every token of the stream is lexer-consistent and no duration rounds to zero -/
def Ok (ts : List Tok) : Prop := ∀ t ∈ ts, tokOk t = true

theorem Ok.suffix {ts rest : List Tok} (h : Ok ts) (hs : rest <:+ ts) : Ok rest :=
  fun t ht => h t (hs.subset ht)

theorem Ok.tail {t : Tok} {ts : List Tok} (h : Ok (t :: ts)) : Ok ts := fun x hx => h x (by simp [hx])
theorem Ok.head {t : Tok} {ts : List Tok} (h : Ok (t :: ts)) : tokOk t = true := h t (by simp)

theorem suffix_cons2 {α} (a b : α) (l : List α) : l <:+ a :: b :: l := ⟨[a, b], rfl⟩
theorem suffix_cons3 {α} (a b c : α) (l : List α) : l <:+ a :: b :: c :: l := ⟨[a, b, c], rfl⟩

theorem okLabel_of_tok (k : WKind) (t l : String) (hok : tokOk (.word k t) = true) (h : labelOfTok (.word k t) = some l) :
    okLabel l = true := by
  simp only [labelOfTok] at h
  split at h
  · rename_i hc
    cases h
    simp only [Bool.and_eq_true] at hc
    simp only [okLabel, wordTok, labelOfTok, beq_iff_eq]
    have : kindTokName (classifyKind t) = kindTokName k := by
      simp only [tokOk, wordOk] at hok
      cases k with
      | num v a b =>
        cases hck : classifyKind t <;> simp [hck, isNumKind] at hok
        rfl
      | ident => simp at hok; rw [hok]
      | mident => simp at hok; rw [hok]
      | kw n => simp at hok; rw [hok]
    rw [this]
    simp only [hc.1, hc.2, Bool.and_self, if_true]
  · cases h

theorem okLabel_of_labelOfTok (t : Tok) (l : String) (hok : tokOk t = true) (h : labelOfTok t = some l) : okLabel l = true := by
  cases t with
  | word k txt => exact okLabel_of_tok k txt l hok h
  | _ => simp [labelOfTok] at h

theorem parseLabelList_sound : ∀ (ts : List Tok) (ls : List String) (rest : List Tok), Ok ts →
    parseLabelList ts = some (ls, rest) → (∀ l ∈ ls, okLabel l = true) ∧ rest <:+ ts := by
  intro ts
  fun_induction parseLabelList ts <;> intro ls rest hok h
  case case1 t ts n hn =>
    cases h
    exact ⟨by intro l hl; simp at hl; subst hl; exact okLabel_of_labelOfTok t _ hok.head hn, suffix_cons2 _ _ _⟩
  case case3 t ts n hn =>
    cases h
    exact ⟨by intro l hl; simp at hl; subst hl; exact okLabel_of_labelOfTok t _ hok.head hn, suffix_cons3 _ _ _ _⟩
  case case5 t ts _ l ls' ts' hrec hl ih =>
    cases h
    obtain ⟨h1, h2⟩ := ih ls' ts' hok.tail.tail hrec
    refine ⟨?_, h2.trans (suffix_cons2 _ _ _)⟩
    intro x hx
    simp at hx
    rcases hx with rfl | hx
    · exact okLabel_of_labelOfTok t _ hok.head hl
    · exact h1 x hx
  all_goals cases h

theorem parseLabels_sound (ts : List Tok) (ls : List String) (rest : List Tok) (hok : Ok ts)
    (h : parseLabels ts = some (ls, rest)) : (∀ l ∈ ls, okLabel l = true) ∧ rest <:+ ts := by
  unfold parseLabels at h
  split at h
  · cases h; exact ⟨by simp, suffix_cons2 _ _ _⟩
  · obtain ⟨h1, h2⟩ := parseLabelList_sound _ _ _ hok.tail h
    exact ⟨h1, h2.trans (List.suffix_cons _ _)⟩
  · cases h

theorem dur_ok {n : Nat} (h : tokOk (.dur (some n)) = true) : okSecs n = true := by
  simpa [tokOk] using h

theorem parseOffList_sound : ∀ (ts : List Tok) (l : List Int) (rest : List Tok), Ok ts →
    parseOffList ts = some (l, rest) → (∀ x ∈ l, okSecs x.natAbs = true) ∧ rest <:+ ts := by
  intro ts
  fun_induction parseOffList ts <;> intro l rest hok h
  case case1 ts n =>
    cases h; have := dur_ok hok.head
    exact ⟨by intro x hx; simp at hx; subst hx; simpa using this, suffix_cons2 _ _ _⟩
  case case3 ts n =>
    cases h; have := dur_ok hok.tail.head
    exact ⟨by intro x hx; simp at hx; subst hx; simpa using this, suffix_cons3 _ _ _ _⟩
  case case5 ts n l' ts' hrec ih =>
    cases h; have := dur_ok hok.head
    obtain ⟨h1, h2⟩ := ih l' ts' hok.tail.tail hrec
    refine ⟨?_, h2.trans (suffix_cons2 _ _ _)⟩
    intro x hx; simp at hx
    rcases hx with rfl | hx
    · simpa using this
    · exact h1 x hx
  case case7 ts n l' ts' hrec ih =>
    cases h; have := dur_ok hok.tail.head
    obtain ⟨h1, h2⟩ := ih l' ts' hok.tail.tail.tail hrec
    refine ⟨?_, h2.trans (suffix_cons3 _ _ _ _)⟩
    intro x hx; simp at hx
    rcases hx with rfl | hx
    · simpa using this
    · exact h1 x hx
  all_goals cases h

/-! binary-operator modifiers -/

theorem wfMod_mk (b on : Bool) (c : Nat) (ls inc : List String) (hc : c ≤ 2) (hi : c ≠ 0 ∨ inc = [])
    (hls : ∀ l ∈ ls, okLabel l = true) (hinc : ∀ l ∈ inc, okLabel l = true) : wfMod ⟨b, c, on, ls, inc⟩ = true := by
  simp only [wfMod, Bool.and_eq_true, decide_eq_true_eq, List.all_eq_true, Bool.or_eq_true, bne_iff_ne, ne_eq,
    List.isEmpty_iff]
  exact ⟨⟨⟨hc, hi⟩, hls⟩, hinc⟩

theorem parseGroup_sound (b on : Bool) (ls : List String) (hls : ∀ l ∈ ls, okLabel l = true) (ts : List Tok) (m : BinMod)
    (rest : List Tok) (hok : Ok ts) (h : parseGroup b on ls ts = some (m, rest)) : wfMod m = true ∧ rest <:+ ts := by
  unfold parseGroup at h
  repeat' split at h
  all_goals first | cases h | skip
  · rename_i heq
    obtain ⟨h1, h2⟩ := parseLabels_sound _ _ _ hok.tail heq
    exact ⟨wfMod_mk _ _ _ _ _ (by omega) (Or.inl (by omega)) hls h1, h2.trans (List.suffix_cons _ _)⟩
  · rename_i heq
    obtain ⟨h1, h2⟩ := parseLabels_sound _ _ _ hok.tail heq
    exact ⟨wfMod_mk _ _ _ _ _ (by omega) (Or.inl (by omega)) hls h1, h2.trans (List.suffix_cons _ _)⟩
  · exact ⟨wfMod_mk _ _ _ _ _ (by omega) (Or.inl (by omega)) hls (by simp), List.suffix_cons _ _⟩
  · exact ⟨wfMod_mk _ _ _ _ _ (by omega) (Or.inl (by omega)) hls (by simp), List.suffix_cons _ _⟩
  · exact ⟨wfMod_mk _ _ _ _ _ (by omega) (Or.inr rfl) hls (by simp), List.suffix_refl _⟩
  · exact ⟨wfMod_mk _ _ _ _ _ (by omega) (Or.inr rfl) hls (by simp), List.suffix_refl _⟩

theorem parseOn_sound (b : Bool) (ts : List Tok) (m : BinMod) (rest : List Tok) (hok : Ok ts)
    (h : parseOn b ts = some (m, rest)) : wfMod m = true ∧ rest <:+ ts := by
  unfold parseOn at h
  repeat' split at h
  all_goals first | cases h | skip
  · rename_i heq
    obtain ⟨h1, h2⟩ := parseLabels_sound _ _ _ hok.tail heq
    obtain ⟨h3, h4⟩ := parseGroup_sound _ _ _ h1 _ _ _ (hok.tail.suffix h2) h
    exact ⟨h3, (h4.trans h2).trans (List.suffix_cons _ _)⟩
  · exact ⟨wfMod_mk _ _ _ _ _ (by omega) (Or.inr rfl) (by simp) (by simp), List.suffix_refl _⟩
  · exact ⟨wfMod_mk _ _ _ _ _ (by omega) (Or.inr rfl) (by simp) (by simp), List.suffix_refl _⟩

theorem parseBool_suffix (ts : List Tok) : (parseBool ts).2 <:+ ts := by
  unfold parseBool
  repeat' split
  all_goals first | exact List.suffix_cons _ _ | exact List.suffix_refl _

theorem parseMods_sound (ts : List Tok) (m : BinMod) (rest : List Tok) (hok : Ok ts)
    (h : parseMods ts = some (m, rest)) : wfMod m = true ∧ rest <:+ ts := by
  unfold parseMods at h
  obtain ⟨h1, h2⟩ := parseOn_sound _ _ _ _ (hok.suffix (parseBool_suffix ts)) h
  exact ⟨h1, h2.trans (parseBool_suffix ts)⟩

/-! matchers and selectors -/

theorem mkMatcher_rest (name : String) (op : Tok) (v : String) (uok rok : Bool) (ts : List Tok) (m : Matcher)
    (rest : List Tok) (h : mkMatcher name op v uok rok ts = some (m, rest)) : rest = ts := by
  unfold mkMatcher at h
  repeat' split at h
  all_goals first | cases h | skip
  rfl

theorem parseMatcher_suffix (ts : List Tok) (m : Matcher) (rest : List Tok) (h : parseMatcher ts = some (m, rest)) :
    rest <:+ ts := by
  unfold parseMatcher at h
  split at h
  · rw [mkMatcher_rest _ _ _ _ _ _ _ _ h]; exact ⟨[_, _, _, _], rfl⟩
  · cases h; exact ⟨[_, _, _, _], rfl⟩
  · rw [mkMatcher_rest _ _ _ _ _ _ _ _ h]; exact ⟨[_, _, _], rfl⟩
  · cases h

theorem parseMatcherList_suffix : ∀ (f : Nat) (ts : List Tok) (ms : List Matcher) (rest : List Tok),
    parseMatcherList f ts = some (ms, rest) → rest <:+ ts := by
  intro f
  induction f with
  | zero => intro ts ms rest h; simp [parseMatcherList] at h
  | succ f ih =>
    intro ts ms rest h
    unfold parseMatcherList at h
    repeat' split at h
    all_goals first | cases h | skip
    · rename_i heq; exact (List.suffix_cons _ _).trans (parseMatcher_suffix _ _ _ heq)
    · rename_i heq; exact (suffix_cons2 _ _ _).trans (parseMatcher_suffix _ _ _ heq)
    · rename_i _ _ _ _ heq _ _ heq2
      exact ((ih _ _ _ heq2).trans (List.suffix_cons _ _)).trans (parseMatcher_suffix _ _ _ heq)

theorem parseMatchers_suffix (f : Nat) (ts : List Tok) (ms : List Matcher) (rest : List Tok)
    (h : parseMatchers f ts = some (ms, rest)) : rest <:+ ts := by
  unfold parseMatchers at h
  split at h
  · cases h; exact List.suffix_cons _ _
  · exact parseMatcherList_suffix _ _ _ _ h

theorem okSel_mkSel (name : String) (ms : List Matcher) (hn : name = "" ∨ isMetricIdent (classifyKind name) = true) :
    okSel (mkSel name ms) = true := by
  rcases hn with hn | hn <;> simp [okSel, mkSel, hn]

theorem parseSelector_sound (f : Nat) (name : String) (ts : List Tok) (e : Expr) (rest : List Tok)
    (hn : name = "" ∨ isMetricIdent (classifyKind name) = true) (h : parseSelector f name ts = some (e, rest)) :
    (wf e = true ∧ isVec e = true) ∧ rest <:+ ts := by
  unfold parseSelector at h
  repeat' split at h
  all_goals first | cases h | skip
  · rename_i heq
    exact ⟨⟨by simpa [wf] using okSel_mkSel _ _ hn, rfl⟩, (parseMatchers_suffix _ _ _ _ heq).trans (List.suffix_cons _ _)⟩
  · exact ⟨⟨by simpa [wf] using okSel_mkSel _ _ hn, rfl⟩, List.suffix_refl _⟩

/-! postfix modifiers -/

/-- what a postfix modifier can attach to -/
def Opd (e : Expr) : Prop := wf e = true ∧ (isOperand e = true ∨ isVec e = true)

theorem okSel_iff (s : Sel) : okSel s = true ↔
    (s.name = "" ∨ isMetricIdent (classifyKind s.name) = true) ∧ (∀ x ∈ s.offEx, okSecs x.natAbs = true) ∧
      s.off.natAbs ≤ maxSecs := by
  simp [okSel, and_assoc]

theorem okSecs_le {n : Nat} (h : okSecs n = true) : n ≤ maxSecs := by
  simp [okSecs] at h; exact h.2

theorem addOffset_inv (e e' : Expr) (o : Int) (ho : o.natAbs ≤ maxSecs) (hi : Opd e) (h : addOffset e o = some e') : Opd e' := by
  obtain ⟨hw, hop⟩ := hi
  unfold addOffset at h
  repeat' split at h
  all_goals first | cases h | skip
  · simp only [wf, okSel_iff] at hw
    exact ⟨by simp only [wf, okSel_iff]; exact ⟨hw.1, hw.2.1, ho⟩, Or.inr rfl⟩
  · simp only [wf, Bool.and_eq_true, okSel_iff] at hw
    exact ⟨by simp only [wf, Bool.and_eq_true, okSel_iff]; exact ⟨⟨hw.1.1, hw.1.2.1, ho⟩, hw.2⟩, Or.inl rfl⟩
  · simp only [wf, Bool.and_eq_true, decide_eq_true_eq] at hw
    exact ⟨by simp only [wf, Bool.and_eq_true, decide_eq_true_eq]; exact ⟨hw.1, ho⟩, Or.inl rfl⟩

theorem addOffsetList_inv (e e' : Expr) (l : List Int) (hl : ∀ x ∈ l, okSecs x.natAbs = true) (hi : Opd e)
    (h : addOffsetList e l = some e') : Opd e' := by
  obtain ⟨hw, hop⟩ := hi
  unfold addOffsetList at h
  repeat' split at h
  all_goals first | cases h | skip
  · simp only [wf, okSel_iff] at hw
    refine ⟨?_, Or.inr rfl⟩
    simp only [wf, okSel_iff, List.mem_append]
    exact ⟨hw.1, fun x hx => hx.elim (hw.2.1 x) (hl x), hw.2.2⟩
  · simp only [wf, Bool.and_eq_true, okSel_iff] at hw
    refine ⟨?_, Or.inl rfl⟩
    simp only [wf, Bool.and_eq_true, okSel_iff, List.mem_append]
    exact ⟨⟨hw.1.1, fun x hx => hx.elim (hw.1.2.1 x) (hl x), hw.1.2.2⟩, hw.2⟩
  · exact ⟨hw, Or.inl rfl⟩

theorem setAt_inv (e e' : Expr) (a : AtMod) (hi : Opd e) (h : setAt e a = some e') : Opd e' := by
  obtain ⟨hw, hop⟩ := hi
  unfold setAt at h
  repeat' split at h
  all_goals first | cases h | skip
  · exact ⟨by simpa only [wf, okSel_iff] using hw, Or.inr rfl⟩
  · exact ⟨by simpa only [wf, Bool.and_eq_true, okSel_iff] using hw, Or.inl rfl⟩
  · exact ⟨by simpa only [wf] using hw, Or.inl rfl⟩

theorem mkRange_inv (e e' : Expr) (d st : Nat) (hd : okSecs d = true) (hst : st ≤ 1) (hi : Opd e) (h : mkRange e d st = some e') :
    Opd e' := by
  unfold mkRange at h
  repeat' split at h
  all_goals first | cases h | skip
  · obtain ⟨hw, _⟩ := hi
    simp only [wf] at hw
    exact ⟨by simp only [wf, hw, hd, Bool.and_self], Or.inl rfl⟩
  · rename_i hnv
    obtain ⟨hw, ho⟩ := hi
    have : isOperand e = true := by
      rcases ho with ho | ho
      · exact ho
      · cases e <;> simp [isVec] at ho
        exact absurd rfl (hnv _)
    refine ⟨?_, Or.inl rfl⟩
    simp only [wf, hw, this, hd, Bool.and_self, Bool.true_and, Bool.and_eq_true, decide_eq_true_eq]
    exact ⟨hst, by simp [maxSecs]⟩

theorem stepOpt_more (r : Option Expr) (ts ts' : List Tok) (e' : Expr) (h : stepOpt r ts = .more e' ts') :
    r = some e' ∧ ts = ts' := by
  cases r <;> simp [stepOpt] at h ⊢
  exact h

theorem postfixStep_sound (e : Expr) (ts : List Tok) (e' : Expr) (ts' : List Tok) (hok : Ok ts) (hi : Opd e)
    (h : postfixStep e ts = .more e' ts') : Opd e' ∧ ts' <:+ ts := by
  unfold postfixStep at h
  repeat' split at h
  all_goals first | cases h | skip
  all_goals (obtain ⟨h1, rfl⟩ := stepOpt_more _ _ _ _ h)
  · exact ⟨addOffset_inv _ _ _ (by simpa using okSecs_le (dur_ok hok.tail.head)) hi h1, suffix_cons2 _ _ _⟩
  · exact ⟨addOffset_inv _ _ _ (by simpa using okSecs_le (dur_ok hok.tail.tail.head)) hi h1, suffix_cons3 _ _ _ _⟩
  · rename_i heq
    obtain ⟨h2, h3⟩ := parseOffList_sound _ _ _ hok.tail.tail heq
    exact ⟨addOffsetList_inv _ _ _ h2 hi h1, h3.trans (suffix_cons2 _ _ _)⟩
  · exact ⟨setAt_inv _ _ _ hi h1, suffix_cons2 _ _ _⟩
  · exact ⟨setAt_inv _ _ _ hi h1, suffix_cons3 _ _ _ _⟩
  · exact ⟨setAt_inv _ _ _ hi h1, suffix_cons3 _ _ _ _⟩
  · exact ⟨setAt_inv _ _ _ hi h1, ⟨[_, _, _, _], rfl⟩⟩
  · exact ⟨mkRange_inv _ _ _ _ (dur_ok hok.tail.head) (by omega) hi h1, suffix_cons3 _ _ _ _⟩
  · exact ⟨mkRange_inv _ _ _ _ (dur_ok hok.tail.head) (by omega) hi h1, ⟨[_, _, _, _], rfl⟩⟩
  · exact ⟨mkRange_inv _ _ _ _ (dur_ok hok.tail.head) (by omega) hi h1, ⟨[_, _, _, _, _], rfl⟩⟩

theorem parsePostfix_sound : ∀ (f : Nat) (e : Expr) (ts : List Tok) (e' : Expr) (rest : List Tok), Ok ts → Opd e →
    parsePostfix f e ts = some (e', rest) → Opd e' ∧ rest <:+ ts := by
  intro f
  induction f with
  | zero => intro e ts e' rest _ _ h; simp [parsePostfix] at h
  | succ f ih =>
    intro e ts e' rest hok hi h
    unfold parsePostfix at h
    split at h
    · cases h
    · cases h; exact ⟨hi, List.suffix_refl _⟩
    · rename_i heq
      obtain ⟨h1, h2⟩ := postfixStep_sound _ _ _ _ hok hi heq
      obtain ⟨h3, h4⟩ := ih _ _ _ _ (hok.suffix h2) h1 h
      exact ⟨h3, h4.trans h2⟩

/-! operands that start with a word -/

/-- soundness of the argument-list parser handed to the `…With` functions -/
def PA (pa : List Tok → Option (Args × List Tok)) : Prop :=
  ∀ ts a rest, Ok ts → pa ts = some (a, rest) → wfArgs a = true ∧ rest <:+ ts

theorem parseArgsWith_sound (pa : List Tok → Option (Args × List Tok)) (hpa : PA pa) (ts : List Tok) (a : Args)
    (rest : List Tok) (hok : Ok ts) (h : parseArgsWith pa ts = some (a, rest)) : wfArgs a = true ∧ rest <:+ ts := by
  unfold parseArgsWith at h
  split at h
  · cases h; exact ⟨rfl, List.suffix_cons _ _⟩
  · exact hpa _ _ _ hok h

theorem mkAgg_sound (op : String) (wo : Bool) (ls : List String) (args : Args) (ts : List Tok) (e : Expr) (rest : List Tok)
    (hop : isAggOp op = true) (hls : ∀ l ∈ ls, okLabel l = true) (ha : wfArgs args = true)
    (h : mkAgg op wo ls args ts = some (e, rest)) : Opd e ∧ rest = ts := by
  unfold mkAgg at h
  split at h
  · rename_i hlen
    cases h
    refine ⟨⟨?_, Or.inl rfl⟩, rfl⟩
    simp only [wf, hop, ha, Bool.true_and, Bool.and_true, Bool.and_eq_true, List.all_eq_true, beq_iff_eq]
    exact ⟨hls, hlen⟩
  · cases h

theorem parseAggSuffix_sound (op : String) (args : Args) (ts : List Tok) (e : Expr) (rest : List Tok) (hok : Ok ts)
    (hop : isAggOp op = true) (ha : wfArgs args = true) (h : parseAggSuffix op args ts = some (e, rest)) :
    Opd e ∧ rest <:+ ts := by
  unfold parseAggSuffix at h
  repeat' split at h
  all_goals first | cases h | skip
  · rename_i heq
    obtain ⟨h1, h2⟩ := parseLabels_sound _ _ _ hok.tail heq
    obtain ⟨h3, rfl⟩ := mkAgg_sound _ _ _ _ _ _ _ hop h1 ha h
    exact ⟨h3, h2.trans (List.suffix_cons _ _)⟩
  · obtain ⟨h3, rfl⟩ := mkAgg_sound _ _ _ _ _ _ _ hop (by simp) ha h
    exact ⟨h3, List.suffix_refl _⟩
  · obtain ⟨h3, rfl⟩ := mkAgg_sound _ _ _ _ _ _ _ hop (by simp) ha h
    exact ⟨h3, List.suffix_refl _⟩

theorem parseAggWith_sound (pa : List Tok → Option (Args × List Tok)) (hpa : PA pa) (op : String) (ts : List Tok)
    (e : Expr) (rest : List Tok) (hok : Ok ts) (hop : isAggOp op = true) (h : parseAggWith pa op ts = some (e, rest)) :
    Opd e ∧ rest <:+ ts := by
  unfold parseAggWith at h
  repeat' split at h
  all_goals first | cases h | skip
  · rename_i heq
    obtain ⟨h1, h2⟩ := parseArgsWith_sound pa hpa _ _ _ hok.tail heq
    obtain ⟨h3, h4⟩ := parseAggSuffix_sound _ _ _ _ _ (hok.tail.suffix h2) hop h1 h
    exact ⟨h3, (h4.trans h2).trans (List.suffix_cons _ _)⟩
  · obtain ⟨h1, h2⟩ := parseLabels_sound _ _ _ hok.tail ‹parseLabels _ = some _›
    have hok2 := hok.tail.suffix h2
    obtain ⟨h5, h6⟩ := parseArgsWith_sound pa hpa _ _ _ hok2.tail ‹parseArgsWith _ _ = some _›
    obtain ⟨h3, rfl⟩ := mkAgg_sound _ _ _ _ _ _ _ hop h1 h5 h
    exact ⟨h3, ((h6.trans (List.suffix_cons _ _)).trans h2).trans (List.suffix_cons _ _)⟩

theorem isMetricIdent_ident : isMetricIdent .ident = true := by decide
theorem isMetricIdent_mident : isMetricIdent .mident = true := by decide

theorem parseWordWith_sound (pa : List Tok → Option (Args × List Tok)) (hpa : PA pa) (f : Nat) (k : WKind) (t : String)
    (ts : List Tok) (e : Expr) (rest : List Tok) (hok : Ok (.word k t :: ts))
    (h : parseWordWith pa f k t ts = some (e, rest)) : Opd e ∧ rest <:+ ts := by
  have hk := hok.head
  have hts := hok.tail
  unfold parseWordWith at h
  repeat' split at h
  all_goals first | cases h | skip
  · exact ⟨⟨by simp [wf], Or.inl (by simp [isOperand])⟩, List.suffix_refl _⟩
  · have hfn := ‹isFunction t = true›
    obtain ⟨h1, h2⟩ := parseArgsWith_sound pa hpa _ _ _ hts.tail ‹parseArgsWith _ _ = some _›
    have hc : classifyKind t = .ident := by simpa [tokOk, wordOk] using hk
    refine ⟨⟨?_, Or.inl rfl⟩, h2.trans (List.suffix_cons _ _)⟩
    simp [wf, hfn, hc, h1]
  · have hc : classifyKind t = .ident := by simpa [tokOk, wordOk] using hk
    obtain ⟨⟨h1, h2⟩, h3⟩ := parseSelector_sound _ _ _ _ _ (Or.inr (by rw [hc]; exact isMetricIdent_ident)) h
    exact ⟨⟨h1, Or.inr h2⟩, h3⟩
  · have hc : classifyKind t = .mident := by simpa [tokOk, wordOk] using hk
    obtain ⟨⟨h1, h2⟩, h3⟩ := parseSelector_sound _ _ _ _ _ (Or.inr (by rw [hc]; exact isMetricIdent_mident)) h
    exact ⟨⟨h1, Or.inr h2⟩, h3⟩
  · have hagg := ‹(isAggOp _ && startsAgg ts) = true›
    simp only [Bool.and_eq_true] at hagg
    exact parseAggWith_sound pa hpa _ _ _ _ hts hagg.1 h
  · obtain ⟨n, hmi, hk⟩ : ∃ n, isMetricIdent (WKind.kw n) = true ∧ tokOk (.word (.kw n) t) = true :=
      ⟨_, ‹isMetricIdent (WKind.kw _) = true›, hk⟩
    have hc : classifyKind t = .kw n := by simpa [tokOk, wordOk] using hk
    obtain ⟨⟨h1, h2⟩, h3⟩ := parseSelector_sound f t ts e rest (Or.inr (by rw [hc]; exact hmi)) h
    exact ⟨⟨h1, Or.inr h2⟩, h3⟩

/-! ## expressions: the precedence invariants of the operator loop -/

/-- the binary operator the next token denotes, if any -/
def nextOp : List Tok → Option BinOp
  | t :: _ => binOpOfTok t
  | [] => none

/-- what follows a parsed expression: an operator there binds weaker than `p` and is not absorbed by the right edge -/
def Edge (p : Nat) (e : Expr) (rest : List Tok) : Prop :=
  ∀ o, nextOp rest = some o → o.prec < p ∧ stopsBefore e o.prec = true

def ExprPost (p : Nat) (e : Expr) (ts rest : List Tok) : Prop :=
  wf e = true ∧ fitsAt p e = true ∧ rest <:+ ts ∧ Edge p e rest

/-- invariant of the operator loop: the accumulated left operand is well-formed and the operator that follows (if any)
    may take it as its left operand -/
def LoopPre (p : Nat) (lhs : Expr) (ts : List Tok) : Prop :=
  wf lhs = true ∧ fitsAt p lhs = true ∧ ∀ o, nextOp ts = some o → fitsAt o.prec lhs = true ∧ stopsBefore lhs o.prec = true

theorem opd_fits (e : Expr) (h : Opd e) (p : Nat) : fitsAt p e = true ∧ stopsBefore e p = true := by
  obtain ⟨_, h | h⟩ := h <;> cases e <;> simp [isOperand, isVec] at h <;> simp [fitsAt, stopsBefore, h]

theorem opd_pre (p : Nat) (e : Expr) (ts : List Tok) (h : Opd e) : LoopPre p e ts :=
  ⟨h.1, (opd_fits e h p).1, fun o _ => opd_fits e h o.prec⟩

theorem negNum_wf (n : Num) (h : wf (.num n) = true) : wf (.num (negNum n)) = true := by
  unfold negNum
  split
  · exact h
  · rename_i hn; simp [wf, hn]

theorem mkUnary_not_num (neg : Bool) (x : Expr) (h : isNum x = false) : mkUnary neg x = .un neg x := by
  cases x <;> simp [isNum] at h <;> rfl

theorem mkUnary_pre (p : Nat) (neg : Bool) (x : Expr) (ts : List Tok) (hw : wf x = true)
    (hf : fitsAt unaryOperandPrec x = true) (he : Edge unaryOperandPrec x ts) : LoopPre p (mkUnary neg x) ts := by
  cases hnum : isNum x with
  | true =>
    cases x <;> simp [isNum] at hnum
    rename_i n
    have hw' : wf (mkUnary neg (.num n)) = true := by
      cases neg
      · simpa [mkUnary] using hw
      · simpa [mkUnary] using negNum_wf n hw
    refine ⟨hw', ?_, ?_⟩
    · cases neg <;> simp [mkUnary, fitsAt]
    · intro o ho
      have := (he o ho).1
      cases neg <;> simp [mkUnary, fitsAt, stopsBefore, this]
  | false =>
    rw [mkUnary_not_num neg x hnum]
    refine ⟨?_, rfl, ?_⟩
    · simp only [wf, hw, hnum, hf, Bool.not_false, Bool.and_self]
    · intro o ho
      have := he o ho
      simp only [fitsAt, stopsBefore, this.1, this.2, decide_true, Bool.and_self, and_self]

theorem lt_rhsPrec (o : BinOp) (q : Nat) (h : q < rhsPrec o) : q ≤ o.prec := by
  unfold rhsPrec at h
  split at h <;> omega

theorem bin_pre (p : Nat) (o : BinOp) (m : BinMod) (lhs r : Expr) (ts : List Tok) (h1 : wf lhs = true) (h2 : wf r = true)
    (h3 : wfMod m = true) (h4 : fitsAt o.prec lhs = true) (h5 : stopsBefore lhs o.prec = true)
    (h6 : fitsAt (rhsPrec o) r = true) (h7 : ¬ o.prec < p) (h8 : Edge (rhsPrec o) r ts) : LoopPre p (.bin o m lhs r) ts := by
  refine ⟨?_, ?_, ?_⟩
  · simp only [wf, h1, h2, h3, h4, h5, h6, Bool.and_self]
  · simp only [fitsAt, decide_eq_true_eq]; omega
  · intro o' ho'
    obtain ⟨q1, q2⟩ := h8 o' ho'
    have := lt_rhsPrec _ _ q1
    simp only [fitsAt, stopsBefore, q1, q2, this, decide_true, Bool.and_self, and_self]

theorem sound_all : ∀ f : Nat,
    (∀ p ts e rest, Ok ts → parseExpr f p ts = some (e, rest) → ExprPost p e ts rest) ∧
    (∀ p lhs ts e rest, Ok ts → LoopPre p lhs ts → parseLoop f p lhs ts = some (e, rest) → ExprPost p e ts rest) ∧
    (∀ ts e rest, Ok ts → parseAtom f ts = some (e, rest) → Opd e ∧ rest <:+ ts) ∧
    PA (parseArgs1 f) := by
  intro f
  induction f with
  | zero =>
    refine ⟨?_, ?_, ?_, ?_⟩
    · intro p ts e rest _ h; simp [parseExpr] at h
    · intro p lhs ts e rest _ _ h; simp [parseLoop] at h
    · intro ts e rest _ h; simp [parseAtom] at h
    · intro ts a rest _ h; simp [parseArgs1] at h
  | succ f ih =>
    obtain ⟨ihE, ihL, ihA, ihP⟩ := ih
    refine ⟨?_, ?_, ?_, ?_⟩
    · -- parseExpr
      intro p ts e rest hok h
      unfold parseExpr at h
      repeat' split at h
      all_goals first | cases h | skip
      · obtain ⟨h1, h2, h3, h4⟩ := ihE _ _ _ _ hok.tail ‹parseExpr f _ _ = some _›
        obtain ⟨g1, g2, g3, g4⟩ := ihL _ _ _ _ _ (hok.tail.suffix h3) (mkUnary_pre p _ _ _ h1 h2 h4) h
        exact ⟨g1, g2, (g3.trans h3).trans (List.suffix_cons _ _), g4⟩
      · obtain ⟨h1, h2, h3, h4⟩ := ihE _ _ _ _ hok.tail ‹parseExpr f _ _ = some _›
        obtain ⟨g1, g2, g3, g4⟩ := ihL _ _ _ _ _ (hok.tail.suffix h3) (mkUnary_pre p _ _ _ h1 h2 h4) h
        exact ⟨g1, g2, (g3.trans h3).trans (List.suffix_cons _ _), g4⟩
      · obtain ⟨h1, h2⟩ := ihA _ _ _ hok ‹parseAtom f _ = some _›
        obtain ⟨h3, h4⟩ := parsePostfix_sound _ _ _ _ _ (hok.suffix h2) h1 ‹parsePostfix f _ _ = some _›
        obtain ⟨g1, g2, g3, g4⟩ := ihL _ _ _ _ _ ((hok.suffix h2).suffix h4) (opd_pre p _ _ h3) h
        exact ⟨g1, g2, (g3.trans h4).trans h2, g4⟩
    · -- parseLoop
      intro p lhs ts e rest hok hpre h
      unfold parseLoop at h
      repeat' split at h
      all_goals first | cases h | skip
      · exact ⟨hpre.1, hpre.2.1, List.suffix_refl _, by intro o ho; simp [nextOp] at ho⟩
      · have hb := ‹binOpOfTok _ = none›
        exact ⟨hpre.1, hpre.2.1, List.suffix_refl _, by intro o ho; simp [nextOp, hb] at ho⟩
      · have hb := ‹binOpOfTok _ = some _›
        have hlt := ‹BinOp.prec _ < p›
        refine ⟨hpre.1, hpre.2.1, List.suffix_refl _, ?_⟩
        intro o ho
        simp only [nextOp, hb, Option.some.injEq] at ho
        subst ho
        exact ⟨hlt, (hpre.2.2 _ (show nextOp (_ :: _) = some _ from hb)).2⟩
      · have hb := ‹binOpOfTok _ = some _›
        have hnlt := ‹¬ BinOp.prec _ < p›
        obtain ⟨m1, m2⟩ := parseMods_sound _ _ _ hok.tail ‹parseMods _ = some _›
        have hok2 := hok.tail.suffix m2
        obtain ⟨r1, r2, r3, r4⟩ := ihE _ _ _ _ hok2 ‹parseExpr f _ _ = some _›
        have hl := hpre.2.2 _ (show nextOp (_ :: _) = some _ from hb)
        have hpre' := bin_pre p _ _ lhs _ _ hpre.1 r1 m1 hl.1 hl.2 r2 hnlt r4
        obtain ⟨g1, g2, g3, g4⟩ := ihL _ _ _ _ _ (hok2.suffix r3) hpre' h
        exact ⟨g1, g2, ((g3.trans r3).trans m2).trans (List.suffix_cons _ _), g4⟩
    · -- parseAtom
      intro ts e rest hok h
      unfold parseAtom at h
      repeat' split at h
      all_goals first | cases h | skip
      · obtain ⟨h1, h2⟩ := parseWordWith_sound _ ihP _ _ _ _ _ _ hok h
        exact ⟨h1, h2.trans (List.suffix_cons _ _)⟩
      · exact ⟨⟨rfl, Or.inl rfl⟩, List.suffix_cons _ _⟩
      · obtain ⟨h1, _, h3, _⟩ := ihE _ _ _ _ hok.tail ‹parseExpr f _ _ = some _›
        exact ⟨⟨by simpa [wf] using h1, Or.inl rfl⟩, ((List.suffix_cons _ _).trans h3).trans (List.suffix_cons _ _)⟩
      · obtain ⟨⟨h1, h2⟩, h3⟩ := parseSelector_sound _ _ _ _ _ (Or.inl rfl) h
        exact ⟨⟨h1, Or.inr h2⟩, h3⟩
    · -- parseArgs1
      intro ts a rest hok h
      unfold parseArgs1 at h
      repeat' split at h
      all_goals first | cases h | skip
      · obtain ⟨h1, _, h3, _⟩ := ihE _ _ _ _ hok ‹parseExpr f _ _ = some _›
        exact ⟨by simp [wfArgs, h1], (List.suffix_cons _ _).trans h3⟩
      · obtain ⟨h1, _, h3, _⟩ := ihE _ _ _ _ hok ‹parseExpr f _ _ = some _›
        obtain ⟨a1, a2⟩ := ihP _ _ _ ((hok.suffix h3).tail) ‹parseArgs1 f _ = some _›
        exact ⟨by simp [wfArgs, h1, a1], (a2.trans (List.suffix_cons _ _)).trans h3⟩

/-- Every tree the model parser returns on a lexer-consistent token stream without zero durations is well-formed. -/
theorem parse_wf (ts : List Tok) (e : Expr) (hok : Ok ts) (h : parse ts = some e) : wf e = true := by
  unfold parse parseFuel at h
  split at h
  · cases h
    exact ((sound_all _).1 _ _ _ _ hok ‹parseExpr _ _ _ = some _›).1
  · cases h

end SH.PromSyntax.Sound
