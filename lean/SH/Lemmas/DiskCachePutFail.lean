/-
  SH.Lemmas.DiskCachePutFail — fault "the body write of a put fails after k bytes": nothing is ever appended behind the garbage.
-/
import SH.Lemmas.DiskCacheLimits

namespace SH.C09
open SH.DiskCache

/-- in every state satisfying the invariant (hence after every history) the file that can still be appended to is exactly the
    concatenation of its well-formed records: no stray byte sits behind the last valid record -/
theorem writing_file_is_records (cfg : Cfg) (s : Shard) (a : Abs) (inv : Inv cfg s a) (w : Nat) (hw : s.writing = some w) :
    ∃ recs : List ARec, (∀ r ∈ recs, r.WF cfg) ∧ DiskCache.fileBytes s.disk w = encRecs cfg recs := by
  obtain ⟨f, _, _, hfn, hfnew, hff, _, _⟩ := inv.writing_view hw
  refine ⟨f.recs, (inv.wf f hff).1, ?_⟩
  rw [← hfn, inv.fileBytes hff, AFile.bytes, inv.newTl f hfnew]; simp

/-- C09 `failed_put_leaves_no_garbage`: a put whose body write fails after `k` bytes leaves NO file that can still be appended to
    (the writing file is dropped; the next put opens a new, empty file), so the partial header+body it left on disk stays the last
    thing in its file — a torn tail that the scan stops at (`torn_tail`) — and can never be followed by, or parsed as, a record. -/
theorem failed_put_leaves_no_garbage (cfg : Cfg) (s : Shard) (a : Abs) (inv : Inv cfg s a) (t : Nat) (d : Bytes) (r : Bool) (k : Nat)
    (hd : tooBig d = false) : (putFail false cfg s t d r k).writing = none := by
  obtain ⟨a1, inv1, _, _⟩ := inv_rotate cfg s a inv d.length r
  have hens : ∃ a2 w, Inv cfg (ensureWriting (rotateIfNeeded s d.length r)) a2 ∧
      (ensureWriting (rotateIfNeeded s d.length r)).writing = some w := by
    cases hw : (rotateIfNeeded s d.length r).writing with
    | none => exact ⟨a1.newA, (rotateIfNeeded s d.length r).clock, inv_newfile cfg _ a1 inv1 hw, by simp [ensureWriting, hw]⟩
    | some w =>
      have : ensureWriting (rotateIfNeeded s d.length r) = rotateIfNeeded s d.length r := by simp [ensureWriting, hw]
      rw [this]; exact ⟨a1, w, inv1, hw⟩
  obtain ⟨a2, w, inv2, hw⟩ := hens
  obtain ⟨_, _, _, _, _, _, _, o, ho, _, _, _⟩ := inv2.writing_view hw
  unfold putFail
  rw [hd]
  simp only [Bool.false_eq_true, if_false, hw, ho]

/-- the seeded variant keeps appending to the same file: a failed body that contains the image of a stored second (time 28),
    followed by a shorter put, brings back after a restart a second that was never put; the code as it is returns only the real one -/
def imgBody : Bytes := encHeader magicGood 28 1 1 ++ [9] ++ [0, 0, 0]
theorem keepFile_resurrects_phantom :
    (drain cfg0 4 (restart (put cfg0 (putFail true cfg0 {} 7 imgBody false 22) 8 [] false).1)).2 = [(8, 1), (28, 2)] ∧
    (drain cfg0 4 (restart (put cfg0 (putFail false cfg0 {} 7 imgBody false 22) 8 [] false).1)).2 = [(8, 1)] := by decide

end SH.C09
