/-
  SH.Lemmas.WirePB4 — Protobuf: the unpacked layouts of `value` (field 5, fixed64 records) and `unique`
  (field 6, varint records) put the same elements into the metric as the packed layouts.
-/
import SH.Lemmas.WirePB3
namespace SH.Wire

def maskN (k : Nat) : Nat → Nat → Nat
  | 0, mk => mk
  | n + 1, mk => maskN k n (setBit mk k)

theorem pbRec_value1 (v : Variant) (f : Nat) (m : Metric) (x : Nat) (t : Bytes) (hx : x < 2 ^ 64) :
    pbMetric v (f + 1) m (pbEncTag 5 1 ++ le 8 x ++ t)
      = pbMetric v f { m with value := m.value ++ [x], mask := setBit m.mask 1 } t := by
  rw [List.append_assoc]
  apply pbMetric_step v f m _ 5 1 _ _ t (pbTagRec_ne_nil 5 1 _) (pbTag_enc 5 1 _ (by decide) (by decide) (by decide))
  unfold pbMetricField
  rw [if_neg (by decide), if_neg (by decide), if_neg (by decide), if_neg (by decide), if_neg (by decide),
    if_pos (by decide), pbFixed64_enc x t hx]
  rfl

theorem pbRec_unique1 (v : Variant) (hv : v.uniqueWt0 = true) (f : Nat) (m : Metric) (x : Nat) (t : Bytes) (hx : x < 2 ^ 64) :
    pbMetric v (f + 1) m (pbEncTag 6 0 ++ pbEncV x ++ t)
      = pbMetric v f { m with unique := m.unique ++ [x], mask := setBit m.mask 2 } t := by
  rw [List.append_assoc]
  apply pbMetric_step v f m _ 6 0 _ _ t (pbTagRec_ne_nil 6 0 _) (pbTag_enc 6 0 _ (by decide) (by decide) (by decide))
  unfold pbMetricField
  rw [if_neg (by decide), if_neg (by decide), if_neg (by decide), if_neg (by decide), if_neg (by decide),
    if_neg (by decide), if_neg (by decide), hv, if_pos (by simp), pbVarint_enc x t hx]
  rfl

def pbValueRec (x : Nat) : Bytes := pbEncTag 5 1 ++ le 8 x
def pbUniqueRec (x : Nat) : Bytes := pbEncTag 6 0 ++ pbEncV x

theorem pbValueUnpacked_enc (v : Variant) : ∀ (xs : List Nat) (m : Metric) (k : Nat) (t : Bytes), (∀ x ∈ xs, x < 2 ^ 64) →
    pbMetric v (k + xs.length) m (catMap pbValueRec xs ++ t)
      = pbMetric v k { m with value := m.value ++ xs, mask := maskN 1 xs.length m.mask } t := by
  intro xs
  induction xs with
  | nil => intro m k t _; simp [catMap, maskN]
  | cons x xs ih =>
    intro m k t h
    have e : k + (x :: xs).length = (k + xs.length) + 1 := by simp; omega
    rw [e, catMap_cons, List.append_assoc, show pbValueRec x = pbEncTag 5 1 ++ le 8 x from rfl,
      pbRec_value1 v _ m x _ (h x (by simp)), ih _ k t (fun y hy => h y (by simp [hy]))]
    simp [maskN]

theorem pbUniqueUnpacked_enc (v : Variant) (hv : v.uniqueWt0 = true) : ∀ (xs : List Nat) (m : Metric) (k : Nat) (t : Bytes),
    (∀ x ∈ xs, x < 2 ^ 64) →
    pbMetric v (k + xs.length) m (catMap pbUniqueRec xs ++ t)
      = pbMetric v k { m with unique := m.unique ++ xs, mask := maskN 2 xs.length m.mask } t := by
  intro xs
  induction xs with
  | nil => intro m k t _; simp [catMap, maskN]
  | cons x xs ih =>
    intro m k t h
    have e : k + (x :: xs).length = (k + xs.length) + 1 := by simp; omega
    rw [e, catMap_cons, List.append_assoc, show pbUniqueRec x = pbEncTag 6 0 ++ pbEncV x from rfl,
      pbRec_unique1 v hv _ m x _ (h x (by simp)), ih _ k t (fun y hy => h y (by simp [hy]))]
    simp [maskN]

end SH.Wire
