/-
  SH.Lemmas.Utf8C11 — facts about the UTF-8 decoder / encoder of SH.Model.Norm used by the C11 theorems.
-/
import SH.Model.Norm

namespace SH.Norm

/-- Unicode scalar value: what utf8.DecodeRune can return and utf8.EncodeRune encodes faithfully -/
def Scalar (r : Nat) : Prop := r < 0x110000 ∧ ¬ (0xD800 ≤ r ∧ r ≤ 0xDFFF)

private theorem byte_toNat (n : Nat) (h : n < 256) : (byte n).toNat = n := by
  simp [byte, UInt8.toNat_ofNat']
  omega

private theorem byte_eq (n : Nat) (b : UInt8) (h : b.toNat = n) : byte n = b := by
  subst h; simp [byte]

theorem decode_ascii (c : UInt8) (rest : List UInt8) (h : c.toNat < 0x80) : decodeRune (c :: rest) = (c.toNat, 1) := by
  simp [decodeRune, h]

private theorem dec2_width (x : Nat) (l : List UInt8) : 1 ≤ (dec2 x l).2 ∧ (dec2 x l).2 ≤ l.length + 1 := by
  unfold dec2
  split
  · split <;> simp
  · simp

private theorem dec3_width (x : Nat) (l : List UInt8) : 1 ≤ (dec3 x l).2 ∧ (dec3 x l).2 ≤ l.length + 1 := by
  unfold dec3
  split
  · split <;> simp
  · simp

private theorem dec4_width (x : Nat) (l : List UInt8) : 1 ≤ (dec4 x l).2 ∧ (dec4 x l).2 ≤ l.length + 1 := by
  unfold dec4
  split
  · split <;> simp
  · simp

theorem decode_width (c : UInt8) (rest : List UInt8) :
    1 ≤ (decodeRune (c :: rest)).2 ∧ (decodeRune (c :: rest)).2 ≤ (c :: rest).length := by
  have h2 := dec2_width c.toNat rest
  have h3 := dec3_width c.toNat rest
  have h4 := dec4_width c.toNat rest
  simp only [decodeRune, List.length_cons]
  split
  · simp
  split
  · simp
  split
  · exact h2
  split
  · exact h3
  split
  · exact h4
  · simp

private theorem isCont_iff (b : UInt8) : isCont b = true ↔ 0x80 ≤ b.toNat ∧ b.toNat ≤ 0xBF := by
  simp [isCont]

private theorem dec2_scalar (x : Nat) (hx1 : 0xC2 ≤ x) (hx2 : x < 0xE0) (l : List UInt8) : Scalar (dec2 x l).1 := by
  unfold dec2
  split
  · rename_i b1 _
    split
    · rename_i hok
      simp only [ok2, isCont_iff] at hok
      simp only [Scalar]
      omega
    · simp [Scalar, runeError]
  · simp [Scalar, runeError]

private theorem ok3_iff (x : Nat) (b1 b2 : UInt8) : ok3 x b1 b2 = true ↔
    (lo3 x ≤ b1.toNat ∧ b1.toNat ≤ hi3 x) ∧ 0x80 ≤ b2.toNat ∧ b2.toNat ≤ 0xBF := by
  simp [ok3, isCont]

private theorem ok4_iff (x : Nat) (b1 b2 b3 : UInt8) : ok4 x b1 b2 b3 = true ↔
    ((lo4 x ≤ b1.toNat ∧ b1.toNat ≤ hi4 x) ∧ 0x80 ≤ b2.toNat ∧ b2.toNat ≤ 0xBF) ∧ 0x80 ≤ b3.toNat ∧ b3.toNat ≤ 0xBF := by
  simp [ok4, isCont]

private theorem dec3_scalar (x : Nat) (hx1 : 0xE0 ≤ x) (hx2 : x < 0xF0) (l : List UInt8) : Scalar (dec3 x l).1 := by
  unfold dec3
  split
  · rename_i b1 b2 _
    split
    · rename_i hok
      simp only [ok3_iff, lo3, hi3] at hok
      simp only [Scalar]
      split at hok <;> split at hok <;> omega
    · simp [Scalar, runeError]
  · simp [Scalar, runeError]

private theorem dec4_scalar (x : Nat) (hx1 : 0xF0 ≤ x) (hx2 : x < 0xF5) (l : List UInt8) : Scalar (dec4 x l).1 := by
  unfold dec4
  split
  · rename_i b1 b2 b3 _
    split
    · rename_i hok
      simp only [ok4_iff, lo4, hi4] at hok
      simp only [Scalar]
      split at hok <;> split at hok <;> omega
    · simp [Scalar, runeError]
  · simp [Scalar, runeError]

theorem decode_scalar (s : List UInt8) : Scalar (decodeRune s).1 := by
  cases s with
  | nil => simp [decodeRune, Scalar, runeError]
  | cons c rest =>
    simp only [decodeRune]
    split
    · simp only [Scalar]; omega
    split
    · simp [Scalar, runeError]
    split
    · exact dec2_scalar _ (by omega) (by omega) _
    split
    · exact dec3_scalar _ (by omega) (by omega) _
    split
    · exact dec4_scalar _ (by omega) (by omega) _
    · simp [Scalar, runeError]

theorem encode_ascii (r : Nat) (h : r < 0x80) : encodeRune r = [UInt8.ofNat r] := by
  simp [encodeRune, h, byte]

theorem encode_first_high (r : Nat) (h : 0x80 ≤ r) : ∃ b bs, encodeRune r = b :: bs ∧ 0xC2 ≤ b.toNat := by
  unfold encodeRune
  rw [if_neg (by omega)]
  split
  · exact ⟨_, _, rfl, by rw [byte_toNat _ (by omega)]; omega⟩
  split
  · exact ⟨_, _, rfl, by decide⟩
  · rename_i h1 h2
    simp only [Bool.or_eq_true, decide_eq_true_eq, not_or] at h2
    split
    · exact ⟨_, _, rfl, by rw [byte_toNat _ (by omega)]; omega⟩
    · exact ⟨_, _, rfl, by rw [byte_toNat _ (by omega)]; omega⟩

theorem encode_length (r : Nat) : 1 ≤ (encodeRune r).length ∧ (encodeRune r).length ≤ 4 := by
  unfold encodeRune
  split
  · simp
  split
  · simp
  split
  · simp
  split <;> simp

/-- decoding what was encoded gives the rune back, whatever follows -/
theorem decode_encode (r : Nat) (h : Scalar r) (tail : List UInt8) :
    decodeRune (encodeRune r ++ tail) = (r, (encodeRune r).length) := by
  obtain ⟨hlt, hns⟩ := h
  unfold encodeRune
  split
  · rename_i h0
    have e0 := byte_toNat r (by omega)
    simp only [List.cons_append, List.nil_append, decodeRune, e0, if_pos h0, List.length_cons, List.length_nil]
  split
  · rename_i h0 h1
    have e0 := byte_toNat (0xC0 + r / 64) (by omega)
    have e1 := byte_toNat (0x80 + r % 64) (by omega)
    have hok : ok2 (byte (0x80 + r % 64)) = true := by
      simp only [ok2, isCont_iff, e1]; omega
    simp only [List.cons_append, List.nil_append, decodeRune, dec2, e0, e1, hok, if_true, List.length_cons, List.length_nil]
    rw [if_neg (by omega), if_neg (by omega), if_pos (by omega)]
    simp only [Prod.mk.injEq, and_true]
    omega
  split
  · rename_i h0 h1 h2
    simp only [Bool.or_eq_true, decide_eq_true_eq, isSurrogate, Bool.and_eq_true] at h2
    omega
  split
  · rename_i h0 h1 h2 h3
    have e0 := byte_toNat (0xE0 + r / 4096) (by omega)
    have e1 := byte_toNat (0x80 + r / 64 % 64) (by omega)
    have e2 := byte_toNat (0x80 + r % 64) (by omega)
    have hok : ok3 (0xE0 + r / 4096) (byte (0x80 + r / 64 % 64)) (byte (0x80 + r % 64)) = true := by
      simp only [ok3_iff, e1, e2, lo3, hi3]
      split <;> split <;> omega
    simp only [List.cons_append, List.nil_append, decodeRune, dec3, e0, e1, e2, hok, if_true, List.length_cons, List.length_nil]
    rw [if_neg (by omega), if_neg (by omega), if_neg (by omega), if_pos (by omega)]
    simp only [Prod.mk.injEq, and_true]
    omega
  · rename_i h0 h1 h2 h3
    have e0 := byte_toNat (0xF0 + r / 262144) (by omega)
    have e1 := byte_toNat (0x80 + r / 4096 % 64) (by omega)
    have e2 := byte_toNat (0x80 + r / 64 % 64) (by omega)
    have e3 := byte_toNat (0x80 + r % 64) (by omega)
    have hok : ok4 (0xF0 + r / 262144) (byte (0x80 + r / 4096 % 64)) (byte (0x80 + r / 64 % 64)) (byte (0x80 + r % 64)) = true := by
      simp only [ok4_iff, e1, e2, e3, lo4, hi4]
      split <;> split <;> omega
    simp only [List.cons_append, List.nil_append, decodeRune, dec4, e0, e1, e2, e3, hok, if_true, List.length_cons, List.length_nil]
    rw [if_neg (by omega), if_neg (by omega), if_neg (by omega), if_neg (by omega), if_pos (by omega)]
    simp only [Prod.mk.injEq, and_true]
    omega

private theorem bad_err : badRune (runeError, 1) = true := by
  simp [badRune]

private theorem enc_dec2 (c : UInt8) (hx1 : 0xC2 ≤ c.toNat) (hx2 : c.toNat < 0xE0) (l : List UInt8)
    (h : badRune (dec2 c.toNat l) = false) :
    encodeRune (dec2 c.toNat l).1 = (c :: l).take (dec2 c.toNat l).2 := by
  unfold dec2 at h ⊢
  split at h
  · rename_i b1 t
    split at h
    · rename_i hok
      simp only [if_pos hok]
      simp only [ok2, isCont_iff] at hok
      unfold encodeRune
      rw [if_neg (by omega), if_pos (by omega)]
      simp only [List.take_succ_cons, List.take_zero]
      rw [byte_eq _ c (by omega), byte_eq _ b1 (by omega)]
    · rw [bad_err] at h; cases h
  · rw [bad_err] at h; cases h

private theorem enc_dec3 (c : UInt8) (hx1 : 0xE0 ≤ c.toNat) (hx2 : c.toNat < 0xF0) (l : List UInt8)
    (h : badRune (dec3 c.toNat l) = false) :
    encodeRune (dec3 c.toNat l).1 = (c :: l).take (dec3 c.toNat l).2 := by
  unfold dec3 at h ⊢
  split at h
  · rename_i b1 b2 t
    split at h
    · rename_i hok
      simp only [if_pos hok]
      simp only [ok3_iff, lo3, hi3] at hok
      have hr : 0x800 ≤ (c.toNat - 0xE0) * 4096 + (b1.toNat - 0x80) * 64 + (b2.toNat - 0x80) ∧
          (c.toNat - 0xE0) * 4096 + (b1.toNat - 0x80) * 64 + (b2.toNat - 0x80) < 0x10000 ∧
          ¬ (0xD800 ≤ (c.toNat - 0xE0) * 4096 + (b1.toNat - 0x80) * 64 + (b2.toNat - 0x80) ∧
             (c.toNat - 0xE0) * 4096 + (b1.toNat - 0x80) * 64 + (b2.toNat - 0x80) ≤ 0xDFFF) := by
        split at hok <;> split at hok <;> omega
      have hb1 : 0x80 ≤ b1.toNat ∧ b1.toNat ≤ 0xBF := by
        split at hok <;> split at hok <;> omega
      generalize hrr : (c.toNat - 0xE0) * 4096 + (b1.toNat - 0x80) * 64 + (b2.toNat - 0x80) = r at hr
      unfold encodeRune
      rw [if_neg (by omega), if_neg (by omega), if_neg (by simp [isSurrogate]; omega), if_pos (by omega)]
      simp only [List.take_succ_cons, List.take_zero]
      rw [byte_eq _ c (by omega), byte_eq _ b1 (by omega), byte_eq _ b2 (by omega)]
    · rw [bad_err] at h; cases h
  · rw [bad_err] at h; cases h

private theorem enc_dec4 (c : UInt8) (hx1 : 0xF0 ≤ c.toNat) (hx2 : c.toNat < 0xF5) (l : List UInt8)
    (h : badRune (dec4 c.toNat l) = false) :
    encodeRune (dec4 c.toNat l).1 = (c :: l).take (dec4 c.toNat l).2 := by
  unfold dec4 at h ⊢
  split at h
  · rename_i b1 b2 b3 t
    split at h
    · rename_i hok
      simp only [if_pos hok]
      simp only [ok4_iff, lo4, hi4] at hok
      have hr : 0x10000 ≤ (c.toNat - 0xF0) * 262144 + (b1.toNat - 0x80) * 4096 + (b2.toNat - 0x80) * 64 + (b3.toNat - 0x80) ∧
          (c.toNat - 0xF0) * 262144 + (b1.toNat - 0x80) * 4096 + (b2.toNat - 0x80) * 64 + (b3.toNat - 0x80) ≤ 0x10FFFF := by
        split at hok <;> split at hok <;> omega
      have hb1 : 0x80 ≤ b1.toNat ∧ b1.toNat ≤ 0xBF := by
        split at hok <;> split at hok <;> omega
      generalize hrr : (c.toNat - 0xF0) * 262144 + (b1.toNat - 0x80) * 4096 + (b2.toNat - 0x80) * 64 + (b3.toNat - 0x80) = r at hr
      unfold encodeRune
      rw [if_neg (by omega), if_neg (by omega), if_neg (by simp [isSurrogate]; omega), if_neg (by omega)]
      simp only [List.take_succ_cons, List.take_zero]
      rw [byte_eq _ c (by omega), byte_eq _ b1 (by omega), byte_eq _ b2 (by omega), byte_eq _ b3 (by omega)]
    · rw [bad_err] at h; cases h
  · rw [bad_err] at h; cases h

/-- a well-formed sequence (anything DecodeRune does not answer with (RuneError, ≤1)) is re-encoded byte for byte -/
theorem encode_decode (c : UInt8) (rest : List UInt8) (h : badRune (decodeRune (c :: rest)) = false) :
    encodeRune (decodeRune (c :: rest)).1 = (c :: rest).take (decodeRune (c :: rest)).2 := by
  simp only [decodeRune] at h ⊢
  split at h
  · rename_i h0
    simp only [if_pos h0]
    unfold encodeRune
    rw [if_pos h0, byte_eq _ c rfl]
    simp
  rename_i h0
  rw [if_neg h0]
  split at h
  · rw [bad_err] at h; cases h
  rename_i h1
  rw [if_neg h1]
  split at h
  · rename_i h2
    rw [if_pos h2]
    exact enc_dec2 c (by omega) h2 rest h
  rename_i h2
  rw [if_neg h2]
  split at h
  · rename_i h3
    rw [if_pos h3]
    exact enc_dec3 c (by omega) h3 rest h
  rename_i h3
  rw [if_neg h3]
  split at h
  · rename_i h4
    rw [if_pos h4]
    exact enc_dec4 c (by omega) h4 rest h
  · rw [bad_err] at h; cases h
end SH.Norm
