/-
  SH.Lemmas.Utf8C11 — facts about the UTF-8 decoder / encoder of SH.Model.Norm used by the C11 theorems.
-/
import SH.Model.Norm

namespace SH.Norm

/-- Unicode scalar value: what utf8.DecodeRune can return and utf8.EncodeRune encodes faithfully -/
def Scalar (r : Nat) : Prop := r < 0x110000 ∧ ¬ (0xD800 ≤ r ∧ r ≤ 0xDFFF)

theorem decode_ascii (c : UInt8) (rest : List UInt8) (h : c.toNat < 0x80) : decodeRune (c :: rest) = (c.toNat, 1) := by
  sorry

theorem decode_width (c : UInt8) (rest : List UInt8) :
    1 ≤ (decodeRune (c :: rest)).2 ∧ (decodeRune (c :: rest)).2 ≤ (c :: rest).length := by
  sorry

theorem decode_scalar (s : List UInt8) : Scalar (decodeRune s).1 := by
  sorry

theorem encode_ascii (r : Nat) (h : r < 0x80) : encodeRune r = [UInt8.ofNat r] := by
  sorry

theorem encode_first_high (r : Nat) (h : 0x80 ≤ r) : ∃ b bs, encodeRune r = b :: bs ∧ 0xC2 ≤ b.toNat := by
  sorry

theorem encode_length (r : Nat) : 1 ≤ (encodeRune r).length ∧ (encodeRune r).length ≤ 4 := by
  sorry

/-- decoding what was encoded gives the rune back, whatever follows -/
theorem decode_encode (r : Nat) (h : Scalar r) (tail : List UInt8) :
    decodeRune (encodeRune r ++ tail) = (r, (encodeRune r).length) := by
  sorry

/-- a well-formed sequence (anything DecodeRune does not answer with (RuneError, ≤1)) is re-encoded byte for byte -/
theorem encode_decode (c : UInt8) (rest : List UInt8) (h : badRune (decodeRune (c :: rest)) = false) :
    encodeRune (decodeRune (c :: rest)).1 = (c :: rest).take (decodeRune (c :: rest)).2 := by
  sorry

end SH.Norm
