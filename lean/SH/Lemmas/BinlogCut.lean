/-
  SH.Lemmas.BinlogCut — records cut by a truncation and the replay of a cut run of appends (last chunk), for Props/C18.
-/
import SH.Lemmas.BinlogSim
open SH.Binlog
namespace SH.C18

/-! ### records cut by a truncation -/

theorem rd32_take {b : Bytes} {t : Nat} (h : 4 ≤ t) : rd32 (b.take t) = rd32 b := by
  match b, t, h with
  | [], _, _ => simp
  | [_], t + 4, _ => simp [rd32]
  | [_, _], t + 4, _ => simp [rd32]
  | [_, _, _], t + 4, _ => simp [rd32]
  | _ :: _ :: _ :: _ :: _, t + 4, _ => simp [rd32]

/-- a crc record cut before its end: the loop stops (EOF), nothing is delivered -/
theorem step_cut_crc (cfg : Cfg) (s : RS) (p : Nat) (c : UInt32) (ts q : Nat) (c' : UInt32) (t : Nat) (ht : t < 20)
    (h : At s p c ((encCrc ts q c').take t)) :
    ∃ s', readStep cfg s = .eof s' ∧ s'.eng.evs = s.eng.evs := by
  have hp := h.pre
  have hl : ((encCrc ts q c').take t).length = t := by simp; omega
  by_cases h4 : 4 ≤ t
  · have a4 : atLeast s.rest 4 = true := by rw [atLeast_iff, h.hrest, hl]; exact h4
    have a20 : atLeast s.rest levCrcSize = false := by
      rw [Bool.eq_false_iff]; intro hh; rw [atLeast_iff, h.hrest, hl] at hh; simp [levCrcSize] at hh; omega
    have hk : kindOf (rd32 s.rest) = .crc := by
      rw [h.hrest, rd32_take h4]
      have := rd32_crc_magic ts q c' []; simp at this; rw [this]; decide
    exact ⟨preCommit s, by simp [readStep, a4, hk, stepKind, stepCrc, a20], by simp⟩
  · have a4 : atLeast s.rest 4 = false := by
      rw [Bool.eq_false_iff]; intro hh; rw [atLeast_iff, h.hrest, hl] at hh; omega
    exact ⟨preCommit s, by simp [readStep, a4], by simp⟩


theorem engApply_cut (m sl : Nat) (b : Bytes) (t : Nat) (hm : m < 4294967296) (hb : b.length < 4294967296)
    (h4 : 4 ≤ t) (ht : t < pad4 (8 + b.length)) (hsl : sl = t % 4) :
    engApply m sl ((padded (encEvent m b)).take t) = .notEnough := by
  have hl : ((padded (encEvent m b)).take t).length = t := by simp; omega
  have hmag : rd32 ((padded (encEvent m b)).take t) = m := by
    rw [rd32_take h4]; have := rd32_event m hm b []; simpa using this
  unfold engApply
  rw [hmag]
  simp only [ne_eq, not_true_eq_false, if_false]
  by_cases h8 : atLeast ((padded (encEvent m b)).take t) (8 + sl) = true
  · have ht8 : 8 + sl ≤ t := by rw [atLeast_iff, hl] at h8; exact h8
    have hn : rd32 (((padded (encEvent m b)).take t).drop 4) = b.length := by
      rw [List.drop_take, rd32_take (by omega)]
      have := rd32_event_len m b [] hb; simpa using this
    have hno : atLeast ((padded (encEvent m b)).take t) (8 + b.length + sl) = false := by
      rw [Bool.eq_false_iff]; intro hh; rw [atLeast_iff, hl] at hh
      have := pad4_lt (8 + b.length); have := pad4_mod (8 + b.length); omega
    simp [h8, hn, hno]
  · simp [h8]

/-- an event cut before the end of its padding: `Engine.Apply` answers NotEnoughData, the loop stops, nothing is delivered -/
theorem step_cut_event (cfg : Cfg) (hm : cfg.evMagic < 4294967296) (hsvc : cfg.evMagic ∉ serviceMagics) (s : RS) (p : Nat) (c : UInt32)
    (b : Bytes) (hb : b.length < 4294967296) (t : Nat) (ht : t < pad4 (8 + b.length))
    (h : At s p c ((padded (encEvent cfg.evMagic b)).take t)) :
    ∃ s', readStep cfg s = .eof s' ∧ s'.eng.evs = s.eng.evs := by
  have hl : ((padded (encEvent cfg.evMagic b)).take t).length = t := by simp; omega
  by_cases h4 : 4 ≤ t
  · have a4 : atLeast s.rest 4 = true := by rw [atLeast_iff, h.hrest, hl]; exact h4
    have hk : kindOf (rd32 s.rest) = .user := by
      rw [h.hrest, rd32_take h4]; have := rd32_event cfg.evMagic hm b []; simp at this; rw [this]; exact kindOf_user hsvc
    have hsl : s.slack = t % 4 := by rw [h.hslack, hl]
    have hea := engApply_cut cfg.evMagic s.slack b t hm hb h4 ht hsl
    rw [← h.hrest] at hea
    have hsl2 : atLeast s.rest s.slack = true := by rw [atLeast_iff, h.hrest, hl, hsl]; omega
    simp only [readStep, pre_rest, a4, Bool.not_true, Bool.false_eq_true, if_false, hk, stepKind, applyStep, pre_dk, h.hdk,
      pre_slack, hea, pre_off, pre_pos, h.hoff, h.hpos, Int.lt_irrefl, Int.sub_self, Int.toNat_zero, Nat.zero_add, hsl2]
    exact ⟨_, rfl, by simp [RS.advance]⟩
  · have a4 : atLeast s.rest 4 = false := by
      rw [Bool.eq_false_iff]; intro hh; rw [atLeast_iff, h.hrest, hl] at hh; omega
    exact ⟨preCommit s, by simp [readStep, a4], by simp⟩


/-! ### reading a cut run of appends (last chunk) -/

def NoRotR (cfg : Cfg) (w : WS) : List Ap → Prop
  | [] => True
  | a :: as => rotates cfg w a = false ∧ NoRotR cfg (apNext cfg w a) as

/-- number of events that are complete (with their padding) in the first `t` bytes of what the appends wrote; a crc record that
    is cut ends the replay -/
def complete (cfg : Cfg) (w : WS) : List Ap → Nat → Nat
  | [], _ => 0
  | a :: as, t =>
    if pad4 (8 + a.body.length) ≤ t then
      (if (apA cfg w a).length ≤ t then complete cfg (apNext cfg w a) as (t - (apA cfg w a).length) + 1 else 1)
    else 0

theorem read_cut (cfg : Cfg) (hm : cfg.evMagic < 4294967296) (hsvc : cfg.evMagic ∉ serviceMagics) :
    ∀ (as : List Ap) (w : WS) (s : RS) (t fuel : Nat),
      NoRotR cfg w as → (∀ a ∈ as, a.body.length < 4294967296 ∧ a.ts < 4294967296) →
      At s w.offG w.crc ((layoutC cfg w as ([], [])).1.take t) → t / 4 + 2 ≤ fuel → t ≤ (layoutC cfg w as ([], [])).1.length →
      (readLoop cfg fuel s).err = none ∧ (readLoop cfg fuel s).rotated = false ∧
      (readLoop cfg fuel s).s.eng.evs = ((offsR cfg w as).take (complete cfg w as t)).reverse ++ s.eng.evs
  | [], w, s, t, fuel, _, _, h, hf, _ => by
    obtain ⟨f, rfl⟩ : ∃ f, fuel = f + 1 := ⟨fuel - 1, by omega⟩
    have hr : s.rest = [] := by rw [h.hrest]; simp [layoutC]
    rw [readLoop_nil cfg f s hr]
    simp [offsR, complete]
  | a :: as, w, s, t, fuel, hnr, hsz, h, hf, htl => by
    have hb := (hsz a (List.mem_cons_self ..)).1
    have hts := (hsz a (List.mem_cons_self ..)).2
    have hsz' : ∀ a' ∈ as, a'.body.length < 4294967296 ∧ a'.ts < 4294967296 := fun a' h' => hsz a' (List.mem_cons_of_mem _ h')
    have hr' : rotates cfg w a = false := hnr.1
    obtain ⟨_, hnx⟩ := apNext_offG_ge cfg w a
    have hcrc := (apNext_fields cfg w a).2
    simp only [hr', Bool.false_eq_true, if_false] at hnx hcrc
    simp only [layoutC, hr', Bool.false_eq_true, if_false] at h htl
    have hcp := (apMid_fields cfg w a).2.2.2
    have hAl : (apA cfg w a).length = pad4 (8 + a.body.length) + (crcPart cfg w a.ev).length := by simp [apA]
    by_cases h1 : (apA cfg w a).length ≤ t
    · -- the whole append is present
      have hpad : pad4 (8 + a.body.length) ≤ t := by omega
      rw [List.take_append, List.take_of_length_le h1] at h
      obtain ⟨k, s1, hk1, hk8, hloop, at1, ev1⟩ := read_A cfg hm hsvc w a hb hts s _ h
      obtain ⟨f, rfl⟩ : ∃ f, fuel = f + k := ⟨fuel - k, by omega⟩
      have at1' : At s1 (apNext cfg w a).offG (apNext cfg w a).crc ((layoutC cfg (apNext cfg w a) as ([], [])).1.take (t - (apA cfg w a).length)) := by
        rw [← hnx, hcrc]; simpa using at1
      have ih := read_cut cfg hm hsvc as (apNext cfg w a) s1 (t - (apA cfg w a).length) f hnr.2 hsz' at1' (by omega) (by simp at htl; omega)
      rw [hloop]
      refine ⟨ih.1, ih.2.1, ?_⟩
      rw [ih.2.2, ev1]
      simp [offsR, complete, hpad, h1, List.take_succ_cons]
    · by_cases h2 : pad4 (8 + a.body.length) ≤ t
      · -- the event is complete, its crc record is cut
        have hcne : needCrc cfg (appendLev cfg w (encEvent cfg.evMagic a.body)) = true := by
          by_cases hc : needCrc cfg (appendLev cfg w (encEvent cfg.evMagic a.body)) = true
          · exact hc
          · rw [if_neg hc] at hcp; rw [hcp] at hAl; simp at hAl; omega
        rw [if_pos hcne] at hcp
        have hrest : (apA cfg w a ++ (layoutC cfg (apNext cfg w a) as ([], [])).1).take t
            = padded (encEvent cfg.evMagic a.body) ++
              (encCrc a.ts (w.offG + pad4 (8 + a.body.length)) (cfg.upd w.crc (padded (encEvent cfg.evMagic a.body)))).take (t - pad4 (8 + a.body.length)) := by
          rw [List.take_append, show t - (apA cfg w a).length = 0 by omega, List.take_zero, List.append_nil]
          simp only [apA, hcp]
          rw [List.take_append, List.take_of_length_le (by simp; exact h2)]
          simp
        rw [hrest] at h
        obtain ⟨s1, st1, at1, ev1⟩ := step_event cfg hm hsvc s w.offG w.crc a.body _ hb h
        have hlt : t - pad4 (8 + a.body.length) < 20 := by rw [hcp] at hAl; simp at hAl; omega
        obtain ⟨s2, st2, ev2⟩ := step_cut_crc cfg s1 _ _ a.ts _ _ _ hlt at1
        obtain ⟨f, rfl⟩ : ∃ f, fuel = f + 1 + 1 := ⟨fuel - 2, by omega⟩
        rw [readLoop_cont _ st1, readLoop_eof _ st2]
        refine ⟨rfl, rfl, ?_⟩
        simp [commit_evs, ev2, ev1, offsR, complete, h2, h1]
      · -- the event itself is cut
        have hrest : (apA cfg w a ++ (layoutC cfg (apNext cfg w a) as ([], [])).1).take t
            = (padded (encEvent cfg.evMagic a.body)).take t := by
          rw [List.take_append, show t - (apA cfg w a).length = 0 by omega, List.take_zero, List.append_nil]
          simp only [apA]
          rw [List.take_append, show t - (padded (encEvent cfg.evMagic a.body)).length = 0 by simp; omega, List.take_zero, List.append_nil]
        rw [hrest] at h
        obtain ⟨s1, st1, ev1⟩ := step_cut_event cfg hm hsvc s w.offG w.crc a.body hb t (by omega) h
        obtain ⟨f, rfl⟩ : ∃ f, fuel = f + 1 := ⟨fuel - 1, by omega⟩
        rw [readLoop_eof _ st1]
        refine ⟨rfl, rfl, ?_⟩
        simp [commit_evs, ev1, complete, h2]


/-! ### a chunk cut anywhere, its later chunks removed -/

/-- a ROTATE_TO record cut before its end: the loop stops (EOF) -/
theorem step_cut_rotTo (cfg : Cfg) (s : RS) (p : Nat) (c : UInt32) (ts np : Nat) (c' : UInt32) (a b : Nat) (t : Nat) (ht : t < 36)
    (h : At s p c ((encRotTo ts np c' a b).take t)) :
    ∃ s', readStep cfg s = .eof s' ∧ s'.eng.evs = s.eng.evs := by
  have hl : ((encRotTo ts np c' a b).take t).length = t := by simp; omega
  by_cases h4 : 4 ≤ t
  · have a4 : atLeast s.rest 4 = true := by rw [atLeast_iff, h.hrest, hl]; exact h4
    have a36 : atLeast s.rest levRotateSize = false := by
      rw [Bool.eq_false_iff]; intro hh; rw [atLeast_iff, h.hrest, hl] at hh; simp [levRotateSize] at hh; omega
    have hk : kindOf (rd32 s.rest) = .rotTo := by
      rw [h.hrest, rd32_take h4]
      have := rd32_rotTo ts np c' a b []; simp at this; rw [this]; decide
    exact ⟨preCommit s, by simp [readStep, a4, hk, stepKind, stepRotTo, a36], by simp⟩
  · have a4 : atLeast s.rest 4 = false := by
      rw [Bool.eq_false_iff]; intro hh; rw [atLeast_iff, h.hrest, hl] at hh; omega
    exact ⟨preCommit s, by simp [readStep, a4], by simp⟩

/-- events of the CURRENT chunk that are complete in its first `t` bytes (the chunk ends with the append that rotates) -/
def completeC (cfg : Cfg) (w : WS) : List Ap → Nat → Nat
  | [], _ => 0
  | a :: as, t =>
    if pad4 (8 + a.body.length) ≤ t then
      (if (apA cfg w a).length ≤ t then
        (if rotates cfg w a then 0 else completeC cfg (apNext cfg w a) as (t - (apA cfg w a).length)) + 1
       else 1)
    else 0

/-- what follows the event/crc bytes of the first append in its chunk -/
def chunkTail (cfg : Cfg) (w : WS) (a : Ap) (as : List Ap) : Bytes :=
  if rotates cfg w a then apRT cfg w a else (layoutC cfg (apNext cfg w a) as ([], [])).1

theorem layout_head (cfg : Cfg) (w : WS) (a : Ap) (as : List Ap) :
    (layoutC cfg w (a :: as) ([], [])).1 = apA cfg w a ++ chunkTail cfg w a as := by
  simp only [layoutC, chunkTail]; split <;> rfl

/-- reading the current chunk cut at `t` (whatever chunks followed it are gone): no error, exactly the complete events -/
theorem read_chunk_cut (cfg : Cfg) (hm : cfg.evMagic < 4294967296) (hsvc : cfg.evMagic ∉ serviceMagics) :
    ∀ (as : List Ap) (w : WS) (s : RS) (t fuel : Nat),
      (∀ a ∈ as, a.body.length < 4294967296 ∧ a.ts < 4294967296) →
      At s w.offG w.crc ((layoutC cfg w as ([], [])).1.take t) → t / 4 + 2 ≤ fuel → t ≤ (layoutC cfg w as ([], [])).1.length →
      (readLoop cfg fuel s).err = none ∧
      (readLoop cfg fuel s).s.eng.evs = ((offsR cfg w as).take (completeC cfg w as t)).reverse ++ s.eng.evs
  | [], w, s, t, fuel, _, h, hf, _ => by
    obtain ⟨f, rfl⟩ : ∃ f, fuel = f + 1 := ⟨fuel - 1, by omega⟩
    have hr : s.rest = [] := by rw [h.hrest]; simp [layoutC]
    rw [readLoop_nil cfg f s hr]
    simp [offsR, completeC]
  | a :: as, w, s, t, fuel, hsz, h, hf, htl => by
    have hb := (hsz a (List.mem_cons_self ..)).1
    have hts := (hsz a (List.mem_cons_self ..)).2
    have hsz' : ∀ a' ∈ as, a'.body.length < 4294967296 ∧ a'.ts < 4294967296 := fun a' h' => hsz a' (List.mem_cons_of_mem _ h')
    rw [layout_head] at h htl
    have hcp := (apMid_fields cfg w a).2.2.2
    have hAl : (apA cfg w a).length = pad4 (8 + a.body.length) + (crcPart cfg w a.ev).length := by simp [apA]
    by_cases h1 : (apA cfg w a).length ≤ t
    · have hpad : pad4 (8 + a.body.length) ≤ t := by omega
      rw [List.take_append, List.take_of_length_le h1] at h
      obtain ⟨k, s1, hk1, hk8, hloop, at1, ev1⟩ := read_A cfg hm hsvc w a hb hts s _ h
      by_cases hr : rotates cfg w a = true
      · -- the append that ends the chunk: ROTATE_TO complete or cut
        simp only [chunkTail, hr, if_true] at at1 htl
        have htl' : t - (apA cfg w a).length ≤ 36 := by simp [apRT] at htl; omega
        obtain ⟨f, rfl⟩ : ∃ f, fuel = f + 1 + k := ⟨fuel - 1 - k, by omega⟩
        rw [hloop]
        by_cases h36 : t - (apA cfg w a).length = 36
        · have at1' : At s1 (apMid cfg w a).offG (apMid cfg w a).crc
              (encRotTo a.ts ((apMid cfg w a).offG + 36) (apMid cfg w a).crc (apCur cfg w a) a.h2 ++ []) := by
            rw [h36] at at1
            rw [List.take_of_length_le (by simp [apRT])] at at1
            simpa [apRT] using at1
          obtain ⟨s2, st2, _, ev2, _, _⟩ := step_rotTo cfg s1 _ _ _ _ _ _ _ [] at1'
          rw [readLoop_rotated _ st2]
          refine ⟨rfl, ?_⟩
          simp [commit_evs, ev2, ev1, offsR, completeC, hpad, h1, hr]
        · obtain ⟨s2, st2, ev2⟩ := step_cut_rotTo cfg s1 (apMid cfg w a).offG (apMid cfg w a).crc a.ts ((apMid cfg w a).offG + 36)
            (apMid cfg w a).crc (apCur cfg w a) a.h2 (t - (apA cfg w a).length) (by omega) (by simpa [apRT] using at1)
          rw [readLoop_eof _ st2]
          refine ⟨rfl, ?_⟩
          simp [commit_evs, ev2, ev1, offsR, completeC, hpad, h1, hr]
      · have hr' : rotates cfg w a = false := by simpa using hr
        obtain ⟨_, hnx⟩ := apNext_offG_ge cfg w a
        have hcrc := (apNext_fields cfg w a).2
        simp only [hr', Bool.false_eq_true, if_false] at hnx hcrc
        simp only [chunkTail, hr', Bool.false_eq_true, if_false] at at1 htl
        obtain ⟨f, rfl⟩ : ∃ f, fuel = f + k := ⟨fuel - k, by omega⟩
        have at1' : At s1 (apNext cfg w a).offG (apNext cfg w a).crc
            ((layoutC cfg (apNext cfg w a) as ([], [])).1.take (t - (apA cfg w a).length)) := by
          rw [← hnx, hcrc]; simpa using at1
        have ih := read_chunk_cut cfg hm hsvc as (apNext cfg w a) s1 (t - (apA cfg w a).length) f hsz' at1' (by omega)
          (by simp at htl; omega)
        rw [hloop]
        refine ⟨ih.1, ?_⟩
        rw [ih.2, ev1]
        simp [offsR, completeC, hpad, h1, hr', List.take_succ_cons]
    · by_cases h2 : pad4 (8 + a.body.length) ≤ t
      · have hcne : needCrc cfg (appendLev cfg w (encEvent cfg.evMagic a.body)) = true := by
          by_cases hc : needCrc cfg (appendLev cfg w (encEvent cfg.evMagic a.body)) = true
          · exact hc
          · rw [if_neg hc] at hcp; rw [hcp] at hAl; simp at hAl; omega
        rw [if_pos hcne] at hcp
        have hrest : (apA cfg w a ++ chunkTail cfg w a as).take t
            = padded (encEvent cfg.evMagic a.body) ++
              (encCrc a.ts (w.offG + pad4 (8 + a.body.length)) (cfg.upd w.crc (padded (encEvent cfg.evMagic a.body)))).take (t - pad4 (8 + a.body.length)) := by
          rw [List.take_append, show t - (apA cfg w a).length = 0 by omega, List.take_zero, List.append_nil]
          simp only [apA, hcp]
          rw [List.take_append, List.take_of_length_le (by simp; exact h2)]
          simp
        rw [hrest] at h
        obtain ⟨s1, st1, at1, ev1⟩ := step_event cfg hm hsvc s w.offG w.crc a.body _ hb h
        have hlt : t - pad4 (8 + a.body.length) < 20 := by rw [hcp] at hAl; simp at hAl; omega
        obtain ⟨s2, st2, ev2⟩ := step_cut_crc cfg s1 _ _ a.ts _ _ _ hlt at1
        obtain ⟨f, rfl⟩ : ∃ f, fuel = f + 1 + 1 := ⟨fuel - 2, by omega⟩
        rw [readLoop_cont _ st1, readLoop_eof _ st2]
        refine ⟨rfl, ?_⟩
        simp [commit_evs, ev2, ev1, offsR, completeC, h2, h1]
      · have hrest : (apA cfg w a ++ chunkTail cfg w a as).take t = (padded (encEvent cfg.evMagic a.body)).take t := by
          rw [List.take_append, show t - (apA cfg w a).length = 0 by omega, List.take_zero, List.append_nil]
          simp only [apA]
          rw [List.take_append, show t - (padded (encEvent cfg.evMagic a.body)).length = 0 by simp; omega, List.take_zero, List.append_nil]
        rw [hrest] at h
        obtain ⟨s1, st1, ev1⟩ := step_cut_event cfg hm hsvc s w.offG w.crc a.body hb t (by omega) h
        obtain ⟨f, rfl⟩ : ∃ f, fuel = f + 1 := ⟨fuel - 1, by omega⟩
        rw [readLoop_eof _ st1]
        refine ⟨rfl, ?_⟩
        simp [commit_evs, ev1, completeC, h2]

end SH.C18
